import DatamonVerif.Util
import DatamonVerif.Model.Tracker
import DatamonVerif.Props.C22
import DatamonVerif.Model.Store
import DatamonVerif.Model.LocalFS
import DatamonVerif.Props.C16
