import DatamonVerif.Util
import DatamonVerif.Model.Tracker
import DatamonVerif.Props.C22
