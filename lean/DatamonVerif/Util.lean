/-! Shared helpers for the line-protocol driver (core Lean only). -/
namespace DV

abbrev Bytes := List UInt8

def hexDigit (n : Nat) : Char :=
  if n < 10 then Char.ofNat (48 + n) else Char.ofNat (87 + n)

def hexOfByte (b : UInt8) : String :=
  String.ofList [hexDigit (b.toNat / 16), hexDigit (b.toNat % 16)]

def hexOfBytes (bs : Bytes) : String :=
  bs.foldl (fun s b => s ++ hexOfByte b) ""

def hexOfByteArray (bs : ByteArray) : String :=
  bs.foldl (fun s b => (s.push (hexDigit (b.toNat / 16))).push (hexDigit (b.toNat % 16))) ""

def hexVal (c : Char) : Option Nat :=
  if '0' ≤ c ∧ c ≤ '9' then some (c.toNat - 48)
  else if 'a' ≤ c ∧ c ≤ 'f' then some (c.toNat - 87)
  else if 'A' ≤ c ∧ c ≤ 'F' then some (c.toNat - 55)
  else none

def bytesOfHexAux : List Char → Bytes → Option Bytes
  | [], acc => some acc.reverse
  | [_], _ => none
  | a :: b :: rest, acc =>
    match hexVal a, hexVal b with
    | some x, some y => bytesOfHexAux rest (UInt8.ofNat (x * 16 + y) :: acc)
    | _, _ => none

def bytesOfHex (s : String) : Option Bytes := bytesOfHexAux s.toList []

/-- percent-decoding of the harness' string escaping (`%XX` for every byte outside a safe set). -/
def pctDecodeAux : List Char → List UInt8 → Option (List UInt8)
  | [], acc => some acc.reverse
  | '%' :: a :: b :: rest, acc =>
    match hexVal a, hexVal b with
    | some x, some y => pctDecodeAux rest (UInt8.ofNat (x * 16 + y) :: acc)
    | _, _ => none
  | '%' :: _, _ => none
  | c :: rest, acc => pctDecodeAux rest ((c.toString.toUTF8.toList.reverse) ++ acc)

def pctDecode (s : String) : Option String :=
  match pctDecodeAux s.toList [] with
  | some bs => String.fromUTF8? (ByteArray.mk bs.toArray)
  | none => none

def safeChar (c : Char) : Bool :=
  c.isAlphanum || c == '-' || c == '_' || c == '.' || c == '/' || c == ':' || c == '@' || c == '+' || c == '~'

def pctEncode (s : String) : String :=
  s.toUTF8.foldl (fun acc b =>
    let c := Char.ofNat b.toNat
    if b < 128 && safeChar c then acc.push c else acc ++ "%" ++ hexOfByte b) ""

/-- xorshift64* PRNG shared with the Go harness (`gen:<seed>:<len>` contents). -/
def xorshiftNext (x : UInt64) : UInt64 :=
  let x := x ^^^ (x >>> 12)
  let x := x ^^^ (x <<< 25)
  let x := x ^^^ (x >>> 27)
  x

def genBytes (seed : Nat) (len : Nat) : ByteArray := Id.run do
  let mut x : UInt64 := UInt64.ofNat (seed % 2^64)
  if x == 0 then x := 0x9E3779B97F4A7C15
  let mut out := ByteArray.emptyWithCapacity len
  for _ in [0:len] do
    x := xorshiftNext x
    out := out.push ((x * 0x2545F4914F6CDD1D) >>> 56).toUInt8
  return out

/-- split `key=value` tokens of an op line into an association list. -/
def kvs (toks : List String) : List (String × String) :=
  toks.filterMap fun t =>
    match t.splitOn "=" with
    | [] => none
    | [k] => some (k, "")
    | k :: rest => some (k, "=".intercalate rest)

def kvGet (l : List (String × String)) (k : String) : Option String :=
  (l.find? (·.1 == k)).map (·.2)

def kvNat (l : List (String × String)) (k : String) : Option Nat :=
  (kvGet l k).bind String.toNat?

/-- the part of a trace line before ` => ` -/
def opPart (line : String) : String :=
  match line.splitOn " => " with
  | [] => line
  | a :: _ => a

def words (s : String) : List String :=
  (s.splitOn " ").filter (· ≠ "")

def natList (s : String) : List Nat :=
  (s.splitOn ",").filterMap String.toNat?

def showNatList (l : List Nat) : String := ",".intercalate (l.map toString)

end DV
