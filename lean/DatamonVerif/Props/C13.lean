import DatamonVerif.Props.C14
/-! C13 — purging never deletes data that a committed bundle needs.

Theorems about `Model/Purge.lean`, for the configuration `Cfg.code` read from the source on every run:

* `C13_purge_safe_partial` : over ALL histories of uploads, metadata deletions, index builds (any chunk
  size `≥ 1`, any interleaving of scans and ticker chunks, any transient chunk `Put` failures, killed
  after any chunk write leaving ARBITRARY chunks behind, resumed any number of times), index drops
  and delete-unused runs (complete or interrupted, any transient `GetAttr` failures) such that
  (a) delete-unused only runs on an index whose last build reported success and (b) no upload after a
  successful build re-uses a blob that is neither indexed nor newer than the index — every committed
  bundle keeps all its blobs. Restriction (b) is the known finding `C13-dedup-no-touch`; the full
  statement `C13_purge_safe_full` is refuted by `C13_neg_dedup_no_touch`.
* `C13_resume_covers`      : whatever chunks an interrupted build left, the resumed build indexes
  every key of every scanned entry.
* `C13_retry_idempotent`   : re-running delete-unused after an interrupted or a complete run yields
  exactly the blob store of a single complete run.
* negation witnesses for the three repaired defects: `C13_neg_attr_error` (1), `C13_neg_mark_early` (2),
  `C13_neg_resume_skip` (3).
-/
namespace Purge


/-! ### blob store lemmas -/

theorem bHas_bPut (now : Time) (bs : Blobs) (k x : Key) :
    bHas (bPut now bs k) x = true ↔ bHas bs x = true ∨ x = k := by
  unfold bPut bHas
  split
  · rename_i h; simp at h ⊢; intro hx; subst hx; exact h
  · simp

theorem time_bPut_old (now : Time) (bs : Blobs) (k x : Key) (hx : bHas bs x = true) :
    (bPut now bs k).time x = bs.time x := by
  unfold bPut
  split
  · rfl
  · rename_i h
    simp only
    split
    · rename_i h2; subst h2; simp [bHas] at hx; simp at h; exact absurd hx h
    · rfl

theorem time_bPut_new (now : Time) (bs : Blobs) (k : Key) (hx : bHas bs k = false) :
    (bPut now bs k).time k = now := by
  unfold bPut
  simp [bHas] at hx
  simp [hx]

theorem bHas_bUpload (now : Time) (ks : List Key) (bs : Blobs) (x : Key) :
    bHas (bUpload now bs ks) x = true ↔ bHas bs x = true ∨ x ∈ ks := by
  unfold bUpload
  induction ks generalizing bs with
  | nil => simp
  | cons k r ih => simp only [List.foldl_cons, ih, bHas_bPut, List.mem_cons]; grind

theorem time_bUpload_old (now : Time) (ks : List Key) (bs : Blobs) (x : Key) (hx : bHas bs x = true) :
    (bUpload now bs ks).time x = bs.time x := by
  unfold bUpload
  induction ks generalizing bs with
  | nil => rfl
  | cons k r ih =>
    simp only [List.foldl_cons]
    rw [ih _ ((bHas_bPut _ _ _ _).2 (Or.inl hx)), time_bPut_old _ _ _ _ hx]

theorem time_bUpload_new (now : Time) (ks : List Key) (bs : Blobs) (x : Key) (hx : bHas bs x = false) (hk : x ∈ ks) :
    (bUpload now bs ks).time x = now := by
  unfold bUpload
  induction ks generalizing bs with
  | nil => cases hk
  | cons k r ih =>
    simp only [List.foldl_cons]
    by_cases hxk : x = k
    · subst hxk
      have h1 : bHas (bPut now bs x) x = true := (bHas_bPut _ _ _ _).2 (Or.inr rfl)
      have := time_bUpload_old now r (bPut now bs x) x h1
      unfold bUpload at this
      rw [this, time_bPut_new _ _ _ hx]
    · have hr : x ∈ r := by
        rcases List.mem_cons.1 hk with h | h
        · exact absurd h hxk
        · exact h
      apply ih _ _ hr
      cases h : bHas (bPut now bs k) x with
      | false => rfl
      | true =>
        rcases (bHas_bPut _ _ _ _).1 h with h | h
        · rw [hx] at h; cases h
        · exact absurd h hxk


/-! ### domain of the safety theorem -/

/-- side condition of one operation in the state it is applied to -/
def opOK (strict : Bool) (st : St) : Op → Bool
  | .up b => !strict || !staleReuse st b
  | .index n _ evs _ =>
    decide (1 ≤ n) && wfEntries (scanEntriesOf (effEvs st.blobs evs)) &&
      st.live.all (fun b => b.entries.all (fun e => evs.contains (Ev.scan e)))
  | .resume n _ evs _ =>
    decide (1 ≤ n) && st.live.all (fun b => b.entries.all (fun e => evs.contains (Ev.scan e)))
  | .purge _ => st.complete
  | .purgePartial _ => st.complete
  | _ => true

/-- the histories the safety theorem speaks about -/
def dom (cfg : Cfg) (strict : Bool) : St → List Op → Bool
  | _, [] => true
  | st, op :: r => opOK strict st op && dom cfg strict (step cfg st op) r

structure Inv (st : St) : Prop where
  intact : ∀ b ∈ st.live, ∀ k ∈ b.keys, bHas st.blobs k = true
  covered : st.complete = true → ∀ b ∈ st.live, ∀ k ∈ b.keys, k ∈ st.chunks.flatten ∨ st.t0 < st.blobs.time k
  clock : st.t0 ≤ st.now

/-- closes the `clock` goal of `Inv` after a step -/
local macro "clock " h:ident : tactic =>
  `(tactic| (have hcl := Inv.clock $h; dsimp only; omega))

theorem Inv.init : Inv {} := ⟨by simp, by simp, by simp⟩

theorem mem_bundle_keys {b : Bundle} {k : Key} : k ∈ b.keys ↔ ∃ e ∈ b.entries, k ∈ e.keys := by
  simp [Bundle.keys, List.mem_flatMap]

theorem scans_of_ok {live : List Bundle} {evs : List Ev}
    (h : live.all (fun b => b.entries.all (fun e => evs.contains (Ev.scan e))) = true)
    {b : Bundle} (hb : b ∈ live) {e : Entry} (he : e ∈ b.entries) : Ev.scan e ∈ evs := by
  simp only [List.all_eq_true] at h
  have := h b hb e he
  simpa using this

theorem mem_effEvs {bs : Blobs} {evs : List Ev} {e : Entry} (he : Ev.scan e ∈ evs) (hr : bHas bs e.root = true) :
    Ev.scan e ∈ effEvs bs evs := by
  simp only [effEvs, List.mem_map]
  exact ⟨Ev.scan e, he, by simp [effEntry, hr]⟩

theorem keepBlob_fixed (idx : List Key) (t0 : Time) (af : List Key) (bs : Blobs) (k : Key) :
    keepBlob Cfg.fixed idx t0 af bs k = true ↔ k ∈ idx ∨ t0 < bs.time k := by
  simp [keepBlob, Cfg.fixed]

theorem Inv.step {st : St} (h : Inv st) (op : Op) (hok : opOK true st op = true) : Inv (step Cfg.fixed st op) := by
  cases op with
  | up b =>
    simp only [opOK, staleReuse, Bool.not_true, Bool.false_or, Bool.not_eq_true', Bool.and_eq_false_iff] at hok
    simp only [Purge.step]
    refine ⟨?_, ?_, ?_⟩
    · intro b' hb' k hk
      rw [bHas_bUpload]
      rcases List.mem_append.1 hb' with hb' | hb'
      · exact Or.inl (h.intact b' hb' k hk)
      · simp at hb'; subst hb'; exact Or.inr hk
    · intro hc b' hb' k hk
      simp only at hc ⊢
      rcases List.mem_append.1 hb' with hb' | hb'
      · have hh := h.intact b' hb' k hk
        rw [time_bUpload_old _ _ _ _ hh]
        exact h.covered hc b' hb' k hk
      · simp at hb'; subst hb'
        cases hh : bHas st.blobs k with
        | true =>
          rw [time_bUpload_old _ _ _ _ hh]
          rcases hok with hok | hok
          · rw [hc] at hok; cases hok
          · simp only [List.any_eq_false, Bool.and_eq_true, Bool.not_eq_true', decide_eq_false_iff_not,
              not_and] at hok
            have := hok k hk
            simp only [hh, true_and] at this
            by_cases hi : k ∈ st.chunks.flatten
            · exact Or.inl hi
            · right
              have h2 := this (by simpa using hi)
              simpa using h2
        | false =>
          rw [time_bUpload_new _ _ _ _ hh hk]
          have := h.clock
          exact Or.inr (by omega)
    · clock h
  | keep c r ids =>
    simp only [Purge.step, keepLive]
    refine ⟨?_, ?_, ?_⟩
    · intro b hb k hk; exact h.intact b (List.mem_filter.1 hb).1 k hk
    · intro hc b hb k hk; exact h.covered hc b (List.mem_filter.1 hb).1 k hk
    · clock h
  | index n ctxs evs fs =>
    simp only [opOK, Bool.and_eq_true, decide_eq_true_eq] at hok
    obtain ⟨⟨hn, hwf⟩, hall⟩ := hok
    simp only [Purge.step, Cfg.fixed, Bool.false_eq_true, if_false, List.append_nil]
    refine ⟨h.intact, ?_, by clock h⟩
    intro _ b hb k hk
    obtain ⟨e, he, hke⟩ := mem_bundle_keys.1 hk
    have hroot : bHas st.blobs e.root = true :=
      h.intact b hb e.root (mem_bundle_keys.2 ⟨e, he, List.mem_cons_self ..⟩)
    have hs : e ∈ scanEntriesOf (effEvs st.blobs evs) :=
      scanEntriesOf_mem.2 (mem_effEvs (scans_of_ok hall hb he) hroot)
    exact Or.inl (((index_exact_fixed hn (effEvs st.blobs evs) fs hwf).1 k).2 ⟨e, hs, hke⟩)
  | crash res left =>
    cases res with
    | false => simp only [Purge.step]; exact ⟨h.intact, by simp, by clock h⟩
    | true =>
      simp only [Purge.step]
      split
      · exact ⟨h.intact, h.covered, by clock h⟩
      · exact ⟨h.intact, by simp, by clock h⟩
  | resume n ctxs evs fs =>
    simp only [opOK, Bool.and_eq_true, decide_eq_true_eq] at hok
    obtain ⟨hn, hall⟩ := hok
    simp only [Purge.step]
    split
    · exact ⟨h.intact, h.covered, by clock h⟩
    · refine ⟨h.intact, ?_, by clock h⟩
      intro _ b hb k hk
      obtain ⟨e, he, hke⟩ := mem_bundle_keys.1 hk
      have hroot : bHas st.blobs e.root = true :=
        h.intact b hb e.root (mem_bundle_keys.2 ⟨e, he, List.mem_cons_self ..⟩)
      have hs : e ∈ scanEntriesOf (effEvs st.blobs evs) :=
        scanEntriesOf_mem.2 (mem_effEvs (scans_of_ok hall hb he) hroot)
      obtain ⟨hI, hU⟩ := build_spec Cfg.fixed rfl hn false (scanEntriesOf (effEvs st.blobs evs)) (by simp)
        (effEvs st.blobs evs) fs (preload st.chunks) (by simp) (fun e he => scanEntriesOf_mem.2 he)
      have hm := all_marked_of_unmarked_nil hU (hI.done e hs k hke)
      left
      simp only [List.flatten_append, List.mem_append]
      rcases hI.marked k hm with h1 | h1
      · exact Or.inl (kvHas_preload _ _ ((kvHas_iff _ _).2 ⟨true, h1⟩))
      · exact Or.inr h1
  | drop => simp only [Purge.step]; exact ⟨h.intact, by simp, by clock h⟩
  | purge af =>
    simp only [opOK] at hok
    simp only [Purge.step]
    split
    · exact ⟨h.intact, h.covered, by clock h⟩
    · refine ⟨?_, ?_, by clock h⟩
      · intro b hb k hk
        simp only [bHas, deleteUnused, List.contains_iff_mem, List.mem_filter]
        refine ⟨by simpa [bHas] using h.intact b hb k hk, ?_⟩
        exact (keepBlob_fixed _ _ _ _ _).2 (h.covered hok b hb k hk)
      · intro hc b hb k hk; exact h.covered hc b hb k hk
  | purgePartial gone =>
    simp only [opOK] at hok
    simp only [Purge.step]
    split
    · exact ⟨h.intact, h.covered, by clock h⟩
    · refine ⟨?_, ?_, by clock h⟩
      · intro b hb k hk
        simp only [bHas, deleteSome, List.contains_iff_mem, List.mem_filter]
        refine ⟨by simpa [bHas] using h.intact b hb k hk, ?_⟩
        simp only [Bool.or_eq_true]
        exact Or.inl ((keepBlob_fixed _ _ _ _ _).2 (h.covered hok b hb k hk))
      · intro hc b hb k hk; exact h.covered hc b hb k hk

theorem Inv.run (ops : List Op) : ∀ st, Inv st → dom Cfg.fixed true st ops = true → Inv (run Cfg.fixed st ops) := by
  induction ops with
  | nil => intro st h _; exact h
  | cons op r ih =>
    intro st h hd
    simp only [dom, Bool.and_eq_true] at hd
    exact ih _ (h.step op hd.1) hd.2


/-! ### the theorems, for the code's configuration -/

theorem C13_code_cfg : Cfg.code = Cfg.fixed := by decide

/-- the premise of finding `C13-dedup-no-touch` as read from cafs/writer.go: a duplicate blob is not touched -/
theorem C13_dedup_does_not_touch : Facts.cafsDedupTouches = false := by decide

/-- **C13.** See the header. `dom … true` = conditions (a) and (b) + chunk sizes `≥ 1` + key hygiene
    (`wfEntries`) + every committed bundle's entries are scanned by each build. -/
theorem C13_purge_safe_partial (ops : List Op) (hd : dom Cfg.code true {} ops = true) :
    ∀ b ∈ (run Cfg.code {} ops).live, intact (run Cfg.code {} ops) b := by
  rw [C13_code_cfg] at hd ⊢
  exact fun b hb k hk => (Inv.run ops {} Inv.init hd).intact b hb k hk

/-- the same from any state satisfying the invariant (e.g. after earlier purge cycles) -/
theorem C13_purge_safe_from (st : St) (hst : Inv st) (ops : List Op) (hd : dom Cfg.code true st ops = true) :
    ∀ b ∈ (run Cfg.code st ops).live, intact (run Cfg.code st ops) b := by
  rw [C13_code_cfg] at hd ⊢
  exact fun b hb k hk => (Inv.run ops st hst hd).intact b hb k hk

/-- the full statement of the property: no restriction on what uploads re-use -/
def C13_purge_safe_full : Prop :=
  ∀ ops : List Op, dom Cfg.code false {} ops = true →
    ∀ b ∈ (run Cfg.code {} ops).live, intact (run Cfg.code {} ops) b

/-- whatever chunks an interrupted build left behind, a resumed build (no root shortcut) indexes
    every key of every scanned entry, in the old or in the new chunks -/
theorem C13_resume_covers {n : Nat} (hn : 1 ≤ n) (chunks : List (List Key)) (evs : List Ev) (fs : List Nat) :
    ∀ e ∈ scanEntriesOf evs, ∀ k ∈ e.keys,
      k ∈ (chunks ++ (build Cfg.code n Cfg.code.resumeSkip evs fs (preload chunks)).2).flatten := by
  rw [C13_code_cfg]
  intro e he k hk
  obtain ⟨hI, hU⟩ := build_spec Cfg.fixed rfl hn false (scanEntriesOf evs) (by simp) evs fs (preload chunks)
    (by simp) (fun e he => scanEntriesOf_mem.2 he)
  have hm := all_marked_of_unmarked_nil hU (hI.done e he k hk)
  simp only [List.flatten_append, List.mem_append]
  rcases hI.marked k hm with h1 | h1
  · exact Or.inl (kvHas_preload _ _ ((kvHas_iff _ _).2 ⟨true, h1⟩))
  · exact Or.inr h1

/-- **retry.** Delete-unused run again — after an interrupted run that deleted any part `gone` of
    what it may delete, or after a complete run — leaves exactly the blob store of one complete run. -/
theorem C13_retry_idempotent (idx : List Key) (t0 : Time) (af gone : List Key) (bs : Blobs) :
    deleteUnused Cfg.code idx t0 af (deleteSome Cfg.code idx t0 gone bs) = deleteUnused Cfg.code idx t0 af bs ∧
    deleteUnused Cfg.code idx t0 af (deleteUnused Cfg.code idx t0 af bs) = deleteUnused Cfg.code idx t0 af bs := by
  rw [C13_code_cfg]
  constructor
  · simp only [deleteUnused, deleteSome, List.filter_filter, Blobs.mk.injEq, and_true]
    apply List.filter_congr
    intro k _
    simp only [keepBlob, Cfg.fixed, Bool.false_and, Bool.false_eq_true, if_false]
    cases idx.contains k <;> cases decide (t0 < bs.time k) <;> simp
  · simp only [deleteUnused, List.filter_filter, Blobs.mk.injEq, and_true]
    apply List.filter_congr
    intro k _
    simp [keepBlob]

/-! ### non-vacuity -/

def exA : Bundle := ⟨0, 0, 1, [⟨10, [11, 12]⟩, ⟨20, []⟩]⟩
def exB : Bundle := ⟨1, 0, 2, [⟨10, [11, 12]⟩, ⟨30, [11]⟩]⟩
def exC : Bundle := ⟨0, 1, 3, [⟨40, [41]⟩, ⟨10, [11, 12]⟩]⟩

/-- a history inside the domain: shared blobs, a build killed after two chunks, an upload, a
    resume with a ticker chunk and a `Put` failure, a bundle deletion, an upload re-using indexed
    blobs and adding new ones, an interrupted then a complete delete-unused with `GetAttr` failures -/
def exHist : List Op :=
  [.up exA, .up exB, .crash false [[10, 11], [12]], .keep 1 0 [],
   .resume 2 [0, 1] [.scan ⟨10, [11, 12]⟩, .tick 0, .scan ⟨20, []⟩] [1],
   .up exC, .purgePartial [30], .purge [40, 41]]

example : dom Cfg.fixed true {} exHist = true := by decide
example : (run Cfg.fixed {} exHist).blobs.keys = [10, 11, 12, 20, 40, 41] := by decide
example : (run Cfg.fixed {} exHist).chunks = [[10, 11], [12], [], [20], []] := by decide

/-! ### negation witnesses -/

/-- **Finding C13-dedup-no-touch.** Upload `exA`, delete it, build the index (nothing to index),
    upload the same content again — its blobs exist, so cafs neither rewrites nor touches them —
    then delete-unused: the blobs are older than the index and not indexed, they are deleted, the
    committed bundle is lost. The full statement is false of the code. -/
theorem C13_neg_dedup_no_touch : ¬ C13_purge_safe_full := by
  intro h
  rw [C13_purge_safe_full, C13_code_cfg] at h
  have := h [.up exA, .keep 0 0 [], .index 2 [0] [] [], .up { exA with id := 2 }, .purge []] (by decide)
    { exA with id := 2 } (by decide)
  revert this
  decide

/-- the witness lies in the trigger region: the second upload re-uses stale blobs -/
example : staleReuse (run Cfg.fixed {} [.up exA, .keep 0 0 [], .index 2 [0] [] []]) { exA with id := 2 } = true := by
  decide

/-- defect (1), repaired: with a failed `GetAttr` read as zero attributes, a bundle uploaded AFTER
    the index loses its (newer) blobs although the history is inside the domain -/
theorem C13_neg_attr_error :
    let cfg : Cfg := { Cfg.fixed with attrErrZero := true }
    let ops : List Op := [.up exA, .index 2 [0] (seqEvs [exA]) [], .up exC, .purge [40, 41]]
    dom cfg true {} ops = true ∧ ¬ intact (run cfg {} ops) exC := by decide

/-- defect (2), repaired: keys marked while streamed — one failed chunk `Put` loses key `10` -/
theorem C13_neg_mark_early :
    let cfg : Cfg := { Cfg.fixed with markEarly := true }
    let ops : List Op := [.up exA, .index 1 [0] (seqEvs [exA]) [1], .purge []]
    dom cfg true {} ops = true ∧ ¬ intact (run cfg {} ops) exA := by decide

/-- defect (3), repaired: the resumed build skips the leaves of the preloaded root `10` -/
theorem C13_neg_resume_skip :
    let cfg : Cfg := { Cfg.fixed with resumeSkip := true }
    let ops : List Op := [.up exA, .crash false [[10]], .resume 1 [0] (seqEvs [exA]) [], .purge []]
    dom cfg true {} ops = true ∧ ¬ intact (run cfg {} ops) exA := by decide

/-- the same three histories are safe for the repaired code -/
example : ∀ b ∈ (run Cfg.fixed {} [.up exA, .index 2 [0] (seqEvs [exA]) [], .up exC, .purge [40, 41]]).live,
    intact (run Cfg.fixed {} [.up exA, .index 2 [0] (seqEvs [exA]) [], .up exC, .purge [40, 41]]) b := by decide
example : intact (run Cfg.fixed {} [.up exA, .index 1 [0] (seqEvs [exA]) [1], .purge []]) exA := by decide
example : intact (run Cfg.fixed {} [.up exA, .crash false [[10]], .resume 1 [0] (seqEvs [exA]) [], .purge []]) exA := by
  decide

end Purge
