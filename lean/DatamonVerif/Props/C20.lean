import DatamonVerif.Model.Paths
import DatamonVerif.Generated.Facts

/-! C20 — metadata paths and descriptors round-trip. -/
set_option linter.unusedSimpArgs false

namespace Paths
open Facts (Piece Template)

/-! ### A. rendering: literal boundaries do not matter, segments -/

theorem flatMap_ch (a : List Arg) (l : List Char) : (l.map Atom.ch).flatMap (renderAtom a) = l := by
  induction l with
  | nil => rfl
  | cons c r ih => simp [List.flatMap_cons, renderAtom, ih]

theorem renderPiece_flat (a : List Arg) (p : Piece) : renderPiece a p = renderF (flatPiece p) a := by
  cases p <;> simp [renderPiece, flatPiece, renderF, renderAtom, flatMap_ch]

/-- rendering only depends on the flat form of the template -/
theorem render_flat (T : Template) (a : List Arg) : render T a = renderF (flat T) a := by
  induction T with
  | nil => rfl
  | cons p r ih =>
    simp only [render, List.flatMap_cons, flat, renderF, List.flatMap_append] at ih ⊢
    rw [ih, renderPiece_flat]; rfl

theorem renderF_append (A B : List Atom) (a : List Arg) : renderF (A ++ B) a = renderF A a ++ renderF B a := by
  simp [renderF]

/-- **prefix builders**: if the flat form of `P` is a prefix of the flat form of `T`, every path
    built by `T` starts with the path built by `P` from the same arguments. -/
theorem C20_render_prefix (P T : Template) (a : List Arg) (h : flat P <+: flat T) :
    render P a <+: render T a := by
  obtain ⟨R, hR⟩ := h
  rw [render_flat, render_flat, ← hR, renderF_append]
  exact List.prefix_append _ _

theorem renderF_atoms (a : List Arg) (s : Seg) : renderF s.atoms a = s.render a := by
  cases s <;> simp [Seg.atoms, Seg.render, renderF, renderAtom, flatMap_ch]

theorem renderF_ofSegs (a : List Arg) (segs : List Seg) :
    renderF (ofSegs segs) a = joinSlash (segs.map (Seg.render a)) := by
  induction segs with
  | nil => rfl
  | cons s t ih =>
    cases t with
    | nil => simp [ofSegs, joinSlash, joinWith, renderF_atoms]
    | cons u v =>
      simp only [ofSegs, List.map_cons, joinSlash, joinWith] at ih ⊢
      rw [renderF_append, renderF_atoms]
      simp only [renderF, List.flatMap_cons, renderAtom] at ih ⊢
      rw [ih]; simp

/-- a template whose flat form is a "/"-separated list of segments renders to the "/"-joined
    renderings of the segments -/
theorem render_of_segs (T : Template) (segs : List Seg) (a : List Arg) (h : flat T = ofSegs segs) :
    render T a = joinSlash (segs.map (Seg.render a)) := by
  rw [render_flat, h, renderF_ofSegs]

/-! ### B. strings.SplitN on a "/"-joined list of slash-free segments -/

theorem cut_noSlash (x : Str) (h : '/' ∉ x) : cut x = (x, none) := by
  induction x with
  | nil => rfl
  | cons c r ih =>
    have hc : c ≠ '/' := by intro e; apply h; simp [e]
    have hr : '/' ∉ r := by intro e; apply h; simp [e]
    simp [cut, hc, ih hr]

theorem cut_append (x r : Str) (h : '/' ∉ x) : cut (x ++ '/' :: r) = (x, some r) := by
  induction x with
  | nil => simp [cut]
  | cons c t ih =>
    have hc : c ≠ '/' := by intro e; apply h; simp [e]
    have ht : '/' ∉ t := by intro e; apply h; simp [e]
    simp [cut, hc, ih ht]

theorem splitN_joinSlash (segs : List Str) :
    ∀ n, segs ≠ [] → (∀ s ∈ segs, '/' ∉ s) → segs.length ≤ n → splitN n (joinSlash segs) = segs := by
  induction segs with
  | nil => intro n h; exact absurd rfl h
  | cons x t ih =>
    intro n _ hs hn
    cases t with
    | nil =>
      cases n with
      | zero => simp at hn
      | succ m =>
        simp only [joinSlash, joinWith, splitN]
        split
        · rfl
        · rw [cut_noSlash x (hs x (by simp))]
    | cons y r =>
      cases n with
      | zero => simp at hn
      | succ m =>
        have hm : m ≠ 0 := by simp at hn; omega
        simp only [joinSlash, joinWith, splitN, hm, if_false]
        have : x ++ ['/'] ++ joinWith ['/'] (y :: r) = x ++ '/' :: joinWith ['/'] (y :: r) := by simp
        rw [this, cut_append x _ (hs x (by simp))]
        have := ih m (by simp) (fun s h => hs s (by simp [h])) (by simp at hn ⊢; omega)
        simp only [joinSlash] at this
        simp only [this]

/-! ### C. parse ∘ render for the archive paths -/

/-- **tie to the source**: the template generated from each Go builder has, whatever the way the
    code cuts its literals, exactly the segment structure the parser's position table expects
    (constants taken from the source as well). A builder change that moves, drops or merges a
    component makes this `decide +kernel` fail. -/
theorem C20_facts_shapes : ∀ k : Kind, k ≠ .context → flat k.tmpl = ofSegs k.segs := by
  intro k; cases k <;> decide +kernel

/-- no constant part of a path contains the separator -/
theorem C20_facts_slashFree : ∀ k : Kind, k.segs.all Seg.slashFree = true := by
  intro k; cases k <;> decide +kernel

theorem build_eq (k : Kind) (hk : k ≠ .context) (a : List Arg) :
    k.build a = joinSlash (k.segs.map (Seg.render a)) := by
  have h := render_of_segs k.tmpl k.segs a (C20_facts_shapes k hk)
  cases k <;> first | exact h | exact absurd rfl hk

theorem parseArchivePath_segs (segs : List Str) (hne : segs ≠ []) (hs : ∀ s ∈ segs, '/' ∉ s)
    (hl : segs.length ≤ 7) : parseArchivePath (joinSlash segs) = parseSegs segs := by
  unfold parseArchivePath
  rw [splitN_joinSlash segs 7 hne hs hl]

/-! prefixes, suffixes, decimal digits -/

theorem stripPrefix_append (p s : Str) : stripPrefix p (p ++ s) = some s := by
  induction p with
  | nil => cases s <;> rfl
  | cons c r ih => simp [stripPrefix, ih]

theorem stripPrefix_eq_some (p s r : Str) : stripPrefix p s = some r ↔ s = p ++ r := by
  induction p generalizing s with
  | nil => cases s <;> simp [stripPrefix, eq_comm]
  | cons c t ih =>
    cases s with
    | nil => simp [stripPrefix]
    | cons d u =>
      simp only [stripPrefix, List.cons_append, List.cons.injEq]
      by_cases h : c = d
      · subst h; simp [ih]
      · simp [h, eq_comm]

theorem stripSuffix_append (suf s : Str) : stripSuffix suf (s ++ suf) = some s := by
  simp [stripSuffix, List.reverse_append, stripPrefix_append]

theorem stripSuffix_eq_some (suf s r : Str) : stripSuffix suf s = some r ↔ s = r ++ suf := by
  unfold stripSuffix
  constructor
  · intro h
    simp only [Option.map_eq_some_iff] at h
    obtain ⟨x, hx, rfl⟩ := h
    have := (stripPrefix_eq_some _ _ _).mp hx
    have h2 := congrArg List.reverse this
    simpa using h2
  · rintro rfl
    simp [List.reverse_append, stripPrefix_append]

theorem dec_ne_nil (n : Nat) : dec n ≠ [] := Nat.toDigits_ne_nil

theorem dec_isDigit (n : Nat) : ∀ c ∈ dec n, c.isDigit = true :=
  fun _ hc => Nat.isDigit_of_mem_toDigits (by decide +kernel) (by decide +kernel) hc

theorem dec_all_isDigit (n : Nat) : (dec n).all Char.isDigit = true := by
  simp only [List.all_eq_true]; exact dec_isDigit n

theorem dec_noSlash (n : Nat) : '/' ∉ dec n := by
  intro h; have := dec_isDigit n _ h; revert this; decide +kernel

theorem dec_inj {n m : Nat} (h : dec n = dec m) : n = m := by
  have := congrArg (Nat.ofDigitChars 10 · 0) h
  simpa [dec] using this

/-- the name of the index file number `n` -/
def indexName (n : Nat) : Str := indexPre ++ dec n ++ indexPost

theorem indexDigits_indexName (n : Nat) : indexDigits (indexName n) = some (dec n) := by
  unfold indexDigits indexName
  rw [List.append_assoc, stripPrefix_append]
  simp only [stripSuffix_append]
  simp [dec_ne_nil, dec_all_isDigit]

theorem isIndexFile_indexName (n : Nat) : isIndexFile (indexName n) = true := by
  simp [isIndexFile, indexDigits_indexName]

/-- **the index is recovered** from an index file name -/
theorem C20_fileIndex (n : Nat) : fileIndex (indexName n) = some n := by
  simp [fileIndex, indexDigits_indexName, dec]

theorem indexName_inj {n m : Nat} (h : indexName n = indexName m) : n = m := by
  have h1 := congrArg fileIndex h
  simpa [C20_fileIndex] using h1

theorem indexName_noSlash (n : Nat) : '/' ∉ indexName n := by
  have h1 : '/' ∉ indexPre := by decide +kernel
  have h2 : '/' ∉ indexPost := by decide +kernel
  simp [indexName, h1, h2, dec_noSlash]

theorem indexName_ne_of_not_index (n : Nat) (f : Str) (hf : isIndexFile f = false) : indexName n ≠ f := by
  intro h; rw [← h, isIndexFile_indexName] at hf; exact absurd hf (by decide +kernel)

theorem ksuid_ne (g f : Str) (hg : ksuidOK g = true) (hf : ksuidOK f = false) : g ≠ f := by
  intro h; rw [h, hf] at hg; exact absurd hg (by decide +kernel)

/-! facts about the constants of the source the parser's case analysis relies on -/

theorem C20_facts_constants :
    -- tags are distinct
    [tagLabels, tagRepos, tagBundles, tagContexts, tagDiamonds].Nodup
    -- the descriptor file names are distinct, none is empty or an index file name or a KSUID
    ∧ [[], labelFile, repoFile, bundleFile, contextFile, diamondInitialFile, diamondFinalFile, splitInitialFile,
        splitFinalFile, splitsDir].Nodup
    ∧ (∀ f ∈ [[], labelFile, repoFile, bundleFile, contextFile, diamondInitialFile, diamondFinalFile,
        splitInitialFile, splitFinalFile, splitsDir], isIndexFile f = false ∧ ksuidOK f = false) := by
  decide +kernel

theorem tag_ne_1 : tagRepos ≠ tagLabels := by decide +kernel
theorem tag_ne_2 : tagBundles ≠ tagLabels := by decide +kernel
theorem tag_ne_3 : tagBundles ≠ tagRepos := by decide +kernel
theorem tag_ne_4 : tagContexts ≠ tagLabels := by decide +kernel
theorem tag_ne_5 : tagContexts ≠ tagRepos := by decide +kernel
theorem tag_ne_6 : tagContexts ≠ tagBundles := by decide +kernel
theorem tag_ne_7 : tagDiamonds ≠ tagLabels := by decide +kernel
theorem tag_ne_8 : tagDiamonds ≠ tagRepos := by decide +kernel
theorem tag_ne_9 : tagDiamonds ≠ tagBundles := by decide +kernel
theorem tag_ne_10 : tagDiamonds ≠ tagContexts := by decide +kernel
theorem file_ne_1 : diamondInitialFile ≠ diamondFinalFile := by decide +kernel
theorem file_ne_2 : splitInitialFile ≠ splitFinalFile := by decide +kernel
theorem file_ne_3 : splitsDir ≠ [] := by decide +kernel
theorem file_ne_4 : splitsDir ≠ diamondInitialFile := by decide +kernel
theorem file_ne_5 : splitsDir ≠ diamondFinalFile := by decide +kernel
theorem ksuid_f1 : ksuidOK splitInitialFile = false := by decide +kernel
theorem ksuid_f2 : ksuidOK splitFinalFile = false := by decide +kernel
theorem ksuid_f3 : ksuidOK [] = false := by decide +kernel
theorem slash_1 : '/' ∉ tagLabels := by decide +kernel
theorem slash_2 : '/' ∉ tagRepos := by decide +kernel
theorem slash_3 : '/' ∉ tagBundles := by decide +kernel
theorem slash_4 : '/' ∉ tagContexts := by decide +kernel
theorem slash_5 : '/' ∉ tagDiamonds := by decide +kernel
theorem slash_6 : '/' ∉ labelFile := by decide +kernel
theorem slash_7 : '/' ∉ repoFile := by decide +kernel
theorem slash_8 : '/' ∉ bundleFile := by decide +kernel
theorem slash_9 : '/' ∉ contextFile := by decide +kernel
theorem slash_10 : '/' ∉ diamondInitialFile := by decide +kernel
theorem slash_11 : '/' ∉ diamondFinalFile := by decide +kernel
theorem slash_12 : '/' ∉ splitInitialFile := by decide +kernel
theorem slash_13 : '/' ∉ splitFinalFile := by decide +kernel
theorem slash_14 : '/' ∉ splitsDir := by decide +kernel

/-- `parse ∘ render` for the nine kinds built by concatenation -/
theorem parse_render_concat (k : Kind) (hk : k ≠ .context) (p : PArgs) (hv : k.valid p) :
    parseArchivePath (k.build (k.args p)) = some (k.comps (k.args p)) := by
  rw [build_eq k hk]
  cases k
  case context => exact absurd rfl hk
  case label =>
    obtain ⟨hr, hl⟩ := hv
    show parseArchivePath (joinSlash [tagLabels, p.repo, p.label, labelFile]) = _
    rw [parseArchivePath_segs _ (by simp) (by simp [tag_ne_1, tag_ne_2, tag_ne_3, tag_ne_4, tag_ne_5, tag_ne_6, tag_ne_7, tag_ne_8, tag_ne_9, tag_ne_10, file_ne_1, file_ne_2, file_ne_3, file_ne_4, file_ne_5, ksuid_f1, ksuid_f2, ksuid_f3, slash_1, slash_2, slash_3, slash_4, slash_5, slash_6, slash_7, slash_8, slash_9, slash_10, slash_11, slash_12, slash_13, slash_14]; exact ⟨hr, hl⟩) (by simp)]
    simp [parseSegs, Kind.comps, Kind.args, strArg]
  case repo =>
    show parseArchivePath (joinSlash [tagRepos, p.repo, repoFile]) = _
    rw [parseArchivePath_segs _ (by simp) (by simp [tag_ne_1, tag_ne_2, tag_ne_3, tag_ne_4, tag_ne_5, tag_ne_6, tag_ne_7, tag_ne_8, tag_ne_9, tag_ne_10, file_ne_1, file_ne_2, file_ne_3, file_ne_4, file_ne_5, ksuid_f1, ksuid_f2, ksuid_f3, slash_1, slash_2, slash_3, slash_4, slash_5, slash_6, slash_7, slash_8, slash_9, slash_10, slash_11, slash_12, slash_13, slash_14]; exact hv) (by simp)]
    simp [parseSegs, Kind.comps, Kind.args, strArg, tag_ne_1, tag_ne_2, tag_ne_3, tag_ne_4, tag_ne_5, tag_ne_6, tag_ne_7, tag_ne_8, tag_ne_9, tag_ne_10, file_ne_1, file_ne_2, file_ne_3, file_ne_4, file_ne_5, ksuid_f1, ksuid_f2, ksuid_f3, slash_1, slash_2, slash_3, slash_4, slash_5, slash_6, slash_7, slash_8, slash_9, slash_10, slash_11, slash_12, slash_13, slash_14]
  case bundle =>
    obtain ⟨hr, hb⟩ := hv
    show parseArchivePath (joinSlash [tagBundles, p.repo, p.bundle, bundleFile]) = _
    rw [parseArchivePath_segs _ (by simp) (by simp [tag_ne_1, tag_ne_2, tag_ne_3, tag_ne_4, tag_ne_5, tag_ne_6, tag_ne_7, tag_ne_8, tag_ne_9, tag_ne_10, file_ne_1, file_ne_2, file_ne_3, file_ne_4, file_ne_5, ksuid_f1, ksuid_f2, ksuid_f3, slash_1, slash_2, slash_3, slash_4, slash_5, slash_6, slash_7, slash_8, slash_9, slash_10, slash_11, slash_12, slash_13, slash_14]; exact ⟨hr, hb⟩) (by simp)]
    simp [parseSegs, Kind.comps, Kind.args, strArg, tag_ne_1, tag_ne_2, tag_ne_3, tag_ne_4, tag_ne_5, tag_ne_6, tag_ne_7, tag_ne_8, tag_ne_9, tag_ne_10, file_ne_1, file_ne_2, file_ne_3, file_ne_4, file_ne_5, ksuid_f1, ksuid_f2, ksuid_f3, slash_1, slash_2, slash_3, slash_4, slash_5, slash_6, slash_7, slash_8, slash_9, slash_10, slash_11, slash_12, slash_13, slash_14]
  case bundleFileList =>
    obtain ⟨hr, hb⟩ := hv
    show parseArchivePath (joinSlash [tagBundles, p.repo, p.bundle, indexName p.index]) = _
    rw [parseArchivePath_segs _ (by simp) (by simp [tag_ne_1, tag_ne_2, tag_ne_3, tag_ne_4, tag_ne_5, tag_ne_6, tag_ne_7, tag_ne_8, tag_ne_9, tag_ne_10, file_ne_1, file_ne_2, file_ne_3, file_ne_4, file_ne_5, ksuid_f1, ksuid_f2, ksuid_f3, slash_1, slash_2, slash_3, slash_4, slash_5, slash_6, slash_7, slash_8, slash_9, slash_10, slash_11, slash_12, slash_13, slash_14, indexName_noSlash]; exact ⟨hr, hb⟩) (by simp)]
    simp [parseSegs, Kind.comps, Kind.args, strArg, numArg, isIndexFile_indexName, tag_ne_1, tag_ne_2, tag_ne_3, tag_ne_4, tag_ne_5, tag_ne_6, tag_ne_7, tag_ne_8, tag_ne_9, tag_ne_10, file_ne_1, file_ne_2, file_ne_3, file_ne_4, file_ne_5, ksuid_f1, ksuid_f2, ksuid_f3, slash_1, slash_2, slash_3, slash_4, slash_5, slash_6, slash_7, slash_8, slash_9, slash_10, slash_11, slash_12, slash_13, slash_14]
    rfl
  case diamondInitial =>
    obtain ⟨hr, hd, hk⟩ := hv
    show parseArchivePath (joinSlash [tagDiamonds, p.repo, p.diamond, diamondInitialFile]) = _
    rw [parseArchivePath_segs _ (by simp) (by simp [tag_ne_1, tag_ne_2, tag_ne_3, tag_ne_4, tag_ne_5, tag_ne_6, tag_ne_7, tag_ne_8, tag_ne_9, tag_ne_10, file_ne_1, file_ne_2, file_ne_3, file_ne_4, file_ne_5, ksuid_f1, ksuid_f2, ksuid_f3, slash_1, slash_2, slash_3, slash_4, slash_5, slash_6, slash_7, slash_8, slash_9, slash_10, slash_11, slash_12, slash_13, slash_14]; exact ⟨hr, hd⟩) (by simp)]
    simp [parseSegs, Kind.comps, Kind.args, strArg, hk, tag_ne_1, tag_ne_2, tag_ne_3, tag_ne_4, tag_ne_5, tag_ne_6, tag_ne_7, tag_ne_8, tag_ne_9, tag_ne_10, file_ne_1, file_ne_2, file_ne_3, file_ne_4, file_ne_5, ksuid_f1, ksuid_f2, ksuid_f3, slash_1, slash_2, slash_3, slash_4, slash_5, slash_6, slash_7, slash_8, slash_9, slash_10, slash_11, slash_12, slash_13, slash_14]
  case diamondFinal =>
    obtain ⟨hr, hd, hk⟩ := hv
    show parseArchivePath (joinSlash [tagDiamonds, p.repo, p.diamond, diamondFinalFile]) = _
    rw [parseArchivePath_segs _ (by simp) (by simp [tag_ne_1, tag_ne_2, tag_ne_3, tag_ne_4, tag_ne_5, tag_ne_6, tag_ne_7, tag_ne_8, tag_ne_9, tag_ne_10, file_ne_1, file_ne_2, file_ne_3, file_ne_4, file_ne_5, ksuid_f1, ksuid_f2, ksuid_f3, slash_1, slash_2, slash_3, slash_4, slash_5, slash_6, slash_7, slash_8, slash_9, slash_10, slash_11, slash_12, slash_13, slash_14]; exact ⟨hr, hd⟩) (by simp)]
    simp [parseSegs, Kind.comps, Kind.args, strArg, hk, tag_ne_1, tag_ne_2, tag_ne_3, tag_ne_4, tag_ne_5, tag_ne_6, tag_ne_7, tag_ne_8, tag_ne_9, tag_ne_10, file_ne_1, file_ne_2, file_ne_3, file_ne_4, file_ne_5, ksuid_f1, ksuid_f2, ksuid_f3, slash_1, slash_2, slash_3, slash_4, slash_5, slash_6, slash_7, slash_8, slash_9, slash_10, slash_11, slash_12, slash_13, slash_14]
  case splitInitial =>
    obtain ⟨hr, hd, hk, hs, hne⟩ := hv
    show parseArchivePath (joinSlash [tagDiamonds, p.repo, p.diamond, splitsDir, p.split, splitInitialFile]) = _
    rw [parseArchivePath_segs _ (by simp) (by simp [tag_ne_1, tag_ne_2, tag_ne_3, tag_ne_4, tag_ne_5, tag_ne_6, tag_ne_7, tag_ne_8, tag_ne_9, tag_ne_10, file_ne_1, file_ne_2, file_ne_3, file_ne_4, file_ne_5, ksuid_f1, ksuid_f2, ksuid_f3, slash_1, slash_2, slash_3, slash_4, slash_5, slash_6, slash_7, slash_8, slash_9, slash_10, slash_11, slash_12, slash_13, slash_14]; exact ⟨hr, hd, hs⟩) (by simp)]
    simp [parseSegs, Kind.comps, Kind.args, strArg, hk, hne, tag_ne_1, tag_ne_2, tag_ne_3, tag_ne_4, tag_ne_5, tag_ne_6, tag_ne_7, tag_ne_8, tag_ne_9, tag_ne_10, file_ne_1, file_ne_2, file_ne_3, file_ne_4, file_ne_5, ksuid_f1, ksuid_f2, ksuid_f3, slash_1, slash_2, slash_3, slash_4, slash_5, slash_6, slash_7, slash_8, slash_9, slash_10, slash_11, slash_12, slash_13, slash_14]
  case splitFinal =>
    obtain ⟨hr, hd, hk, hs, hne⟩ := hv
    show parseArchivePath (joinSlash [tagDiamonds, p.repo, p.diamond, splitsDir, p.split, splitFinalFile]) = _
    rw [parseArchivePath_segs _ (by simp) (by simp [tag_ne_1, tag_ne_2, tag_ne_3, tag_ne_4, tag_ne_5, tag_ne_6, tag_ne_7, tag_ne_8, tag_ne_9, tag_ne_10, file_ne_1, file_ne_2, file_ne_3, file_ne_4, file_ne_5, ksuid_f1, ksuid_f2, ksuid_f3, slash_1, slash_2, slash_3, slash_4, slash_5, slash_6, slash_7, slash_8, slash_9, slash_10, slash_11, slash_12, slash_13, slash_14]; exact ⟨hr, hd, hs⟩) (by simp)]
    simp [parseSegs, Kind.comps, Kind.args, strArg, hk, hne, tag_ne_1, tag_ne_2, tag_ne_3, tag_ne_4, tag_ne_5, tag_ne_6, tag_ne_7, tag_ne_8, tag_ne_9, tag_ne_10, file_ne_1, file_ne_2, file_ne_3, file_ne_4, file_ne_5, ksuid_f1, ksuid_f2, ksuid_f3, slash_1, slash_2, slash_3, slash_4, slash_5, slash_6, slash_7, slash_8, slash_9, slash_10, slash_11, slash_12, slash_13, slash_14]
  case splitFileList =>
    obtain ⟨hr, hd, hk, hs, hne, hg, hgk⟩ := hv
    show parseArchivePath (joinSlash [tagDiamonds, p.repo, p.diamond, splitsDir, p.split, p.gen, indexName p.index]) = _
    rw [parseArchivePath_segs _ (by simp) (by simp [tag_ne_1, tag_ne_2, tag_ne_3, tag_ne_4, tag_ne_5, tag_ne_6, tag_ne_7, tag_ne_8, tag_ne_9, tag_ne_10, file_ne_1, file_ne_2, file_ne_3, file_ne_4, file_ne_5, ksuid_f1, ksuid_f2, ksuid_f3, slash_1, slash_2, slash_3, slash_4, slash_5, slash_6, slash_7, slash_8, slash_9, slash_10, slash_11, slash_12, slash_13, slash_14, indexName_noSlash]; exact ⟨hr, hd, hs, hg⟩) (by simp)]
    have g1 : p.gen ≠ [] := ksuid_ne _ _ hgk ksuid_f3
    have g2 : p.gen ≠ splitInitialFile := ksuid_ne _ _ hgk ksuid_f1
    have g3 : p.gen ≠ splitFinalFile := ksuid_ne _ _ hgk ksuid_f2
    simp [parseSegs, Kind.comps, Kind.args, strArg, numArg, hk, hne, hgk, g1, g2, g3, isIndexFile_indexName, tag_ne_1, tag_ne_2, tag_ne_3, tag_ne_4, tag_ne_5, tag_ne_6, tag_ne_7, tag_ne_8, tag_ne_9, tag_ne_10, file_ne_1, file_ne_2, file_ne_3, file_ne_4, file_ne_5, ksuid_f1, ksuid_f2, ksuid_f3, slash_1, slash_2, slash_3, slash_4, slash_5, slash_6, slash_7, slash_8, slash_9, slash_10, slash_11, slash_12, slash_13, slash_14]
    rfl

/-! ### D. path.Join / path.Clean (the context path, conflict and checkpoint paths, index chunks) -/

theorem length_le_joinSlash (segs : List Str) : segs.length ≤ (joinSlash segs).length + 1 := by
  induction segs with
  | nil => simp
  | cons x t ih =>
    cases t with
    | nil => simp
    | cons y r =>
      simp only [joinSlash, joinWith, List.length_cons, List.length_append] at ih ⊢
      omega

theorem splitSlash_joinSlash (segs : List Str) (hne : segs ≠ []) (hs : ∀ s ∈ segs, '/' ∉ s) :
    splitSlash (joinSlash segs) = segs :=
  splitN_joinSlash segs _ hne hs (length_le_joinSlash segs)

/-- the components `path.Clean` keeps when there is no ".." -/
def keep (c : Str) : Bool := c ≠ [] && c ≠ dot

theorem foldl_cleanStep (rooted : Bool) (comps : List Str) (hdd : dotdot ∉ comps) :
    ∀ st, comps.foldl (cleanStep rooted) st = (comps.filter keep).reverse ++ st := by
  induction comps with
  | nil => intro st; rfl
  | cons c r ih =>
    intro st
    have hc : c ≠ dotdot := by intro e; apply hdd; simp [e]
    have hr : dotdot ∉ r := by intro e; apply hdd; simp [e]
    simp only [List.foldl_cons]
    rw [ih hr]
    by_cases h1 : c = []
    · simp [cleanStep, keep, h1]
    · by_cases h2 : c = dot
      · simp [cleanStep, keep, h2]
      · simp [cleanStep, keep, h1, h2, hc]

theorem joinSlash_ne_nil (x : Str) (t : List Str) (hx : x ≠ []) : joinSlash (x :: t) ≠ [] := by
  cases t with
  | nil => simpa [joinSlash, joinWith] using hx
  | cons y r => simp [joinSlash, joinWith, hx]

/-- `path.Clean` of a relative path without ".." components: the empty and "." components go -/
theorem clean_joinSlash (segs : List Str) (hne : segs ≠ []) (hs : ∀ s ∈ segs, '/' ∉ s)
    (hdd : dotdot ∉ segs) (hfirst : segs.head? ≠ some []) (hk : ∃ x t, segs.filter keep = x :: t) :
    clean (joinSlash segs) = joinSlash (segs.filter keep) := by
  obtain ⟨x, t, hxt⟩ := hk
  have hx : x ≠ [] := by
    have : x ∈ segs.filter keep := by rw [hxt]; simp
    have := (List.mem_filter.mp this).2
    simp only [keep, Bool.and_eq_true, decide_eq_true_eq] at this
    exact this.1
  obtain ⟨f, r, rfl⟩ : ∃ f r, segs = f :: r := by
    cases segs with
    | nil => exact absurd rfl hne
    | cons f r => exact ⟨f, r, rfl⟩
  have hf : f ≠ [] := by intro e; apply hfirst; simp [e]
  have hfs : '/' ∉ f := hs f (by simp)
  have hp : joinSlash (f :: r) ≠ [] := joinSlash_ne_nil f r hf
  have hroot : ((joinSlash (f :: r)).head? == some '/') = false := by
    obtain ⟨c, u, rfl⟩ : ∃ c u, f = c :: u := by
      cases f with
      | nil => exact absurd rfl hf
      | cons c u => exact ⟨c, u, rfl⟩
    have hc : c ≠ '/' := by intro e; apply hfs; simp [e]
    cases r <;> simp [joinSlash, joinWith, hc]
  unfold clean
  simp only [hp, if_false, hroot]
  rw [splitSlash_joinSlash _ hne hs, foldl_cleanStep _ _ hdd]
  simp only [List.append_nil, List.reverse_reverse, Bool.false_eq_true, if_false]
  rw [hxt]
  simp [joinSlash_ne_nil x t hx]

/-- tie to the source: `GetPathToContext` joins the contexts prefix, the name and the file name -/
theorem C20_facts_contextJ :
    Facts.pathToContextJ.map flat =
      [ofSegs [.const tagContexts, .const []], ofSegs [.var 0], ofSegs [.const contextFile]] := by
  decide +kernel

theorem build_context (c : Str) (hc : normalComp c) :
    Kind.build .context [.s c] = joinSlash [tagContexts, c, contextFile] := by
  obtain ⟨h1, h2, h3, h4⟩ := hc
  have hJ := C20_facts_contextJ
  obtain ⟨T0, T1, T2, hT⟩ : ∃ T0 T1 T2, Facts.pathToContextJ = [T0, T1, T2] := ⟨_, _, _, rfl⟩
  rw [hT] at hJ
  simp only [List.map_cons, List.map_nil, List.cons.injEq, and_true] at hJ
  obtain ⟨f0, f1, f2⟩ := hJ
  show pathJoin (Facts.pathToContextJ.map (render · [.s c])) = _
  rw [hT]
  simp only [List.map_cons, List.map_nil]
  rw [render_of_segs T0 _ _ f0, render_of_segs T1 _ _ f1, render_of_segs T2 _ _ f2]
  have e0 : tagContexts ≠ [] := by decide +kernel
  have e2 : contextFile ≠ [] := by decide +kernel
  have hj : joinSlash [joinSlash [tagContexts, []], joinSlash [c], joinSlash [contextFile]] =
      joinSlash [tagContexts, [], c, contextFile] := by
    simp [joinSlash, joinWith]
  have hne : ([joinSlash [tagContexts, ([] : Str)], joinSlash [c], joinSlash [contextFile]].filter (· ≠ [])) =
      [joinSlash [tagContexts, []], joinSlash [c], joinSlash [contextFile]] := by
    simp [joinSlash, joinWith, e0, e2, h2]
  simp only [List.map_cons, List.map_nil, Seg.render, strArg, List.getElem?_cons_zero, pathJoin]
  rw [hne]
  simp only [List.cons_ne_nil, if_false]
  rw [hj]
  have d1 : tagContexts ≠ dot ∧ tagContexts ≠ dotdot ∧ contextFile ≠ dot ∧ contextFile ≠ dotdot := by decide +kernel
  rw [clean_joinSlash]
  · simp [keep, e0, e2, h2, h3, d1.1, d1.2.2.1]
  · simp
  · simp [slash_4, slash_9, h1]
  · simp only [List.mem_cons, List.not_mem_nil, or_false, not_or]
    exact ⟨fun e => d1.2.1 e.symm, by decide +kernel, fun e => h4 e.symm, fun e => d1.2.2.2 e.symm⟩
  · simp [e0]
  · exact ⟨tagContexts, [c, contextFile], by simp [keep, e0, e2, h2, h3, d1.1, d1.2.2.1]⟩

theorem parse_render_context (p : PArgs) (hv : Kind.valid .context p) :
    parseArchivePath (Kind.build .context (Kind.args .context p)) = some (Kind.comps .context (Kind.args .context p)) := by
  show parseArchivePath (Kind.build .context [.s p.ctx]) = _
  rw [build_context _ hv]
  obtain ⟨h1, -⟩ := hv
  rw [parseArchivePath_segs _ (by simp) (by simp [slash_4, slash_9, h1]) (by simp)]
  simp [parseSegs, Kind.comps, Kind.args, strArg, tag_ne_4, tag_ne_5, tag_ne_6]

/-- **parse ∘ render = id** (`GetArchivePathComponents` after any `GetArchivePathTo…` builder):
    for every kind and all valid components the path parses back to exactly those components
    (the index through the file name, see `C20_fileIndex`). -/
theorem C20_parse_render (k : Kind) (p : PArgs) (hv : k.valid p) :
    parseArchivePath (k.build (k.args p)) = some (k.comps (k.args p)) := by
  by_cases hk : k = .context
  · subst hk; exact parse_render_context p hv
  · exact parse_render_concat k hk p hv

/-! ### E. paths of different objects never coincide -/

/-- which kind of object a parsed path denotes (decided by the file name, and for index files by
    the presence of a generation id) -/
def classifyFile (f : Str) (genEmpty : Bool) : Option Kind :=
  if f = labelFile then some .label
  else if f = repoFile then some .repo
  else if f = bundleFile then some .bundle
  else if f = contextFile then some .context
  else if f = diamondInitialFile then some .diamondInitial
  else if f = diamondFinalFile then some .diamondFinal
  else if f = splitInitialFile then some .splitInitial
  else if f = splitFinalFile then some .splitFinal
  else if isIndexFile f then (if genEmpty then some .bundleFileList else some .splitFileList)
  else none

def classify (c : Comps) : Option Kind := classifyFile c.archiveFileName (decide (c.generationID = []))

/-- on the file names of the source the classification is the intended one (so the names are
    pairwise different and none of them looks like an index file) -/
theorem C20_facts_classify : ∀ b,
    classifyFile labelFile b = some .label ∧ classifyFile repoFile b = some .repo
    ∧ classifyFile bundleFile b = some .bundle ∧ classifyFile contextFile b = some .context
    ∧ classifyFile diamondInitialFile b = some .diamondInitial ∧ classifyFile diamondFinalFile b = some .diamondFinal
    ∧ classifyFile splitInitialFile b = some .splitInitial ∧ classifyFile splitFinalFile b = some .splitFinal := by
  decide +kernel

theorem classifyFile_index (n : Nat) (b : Bool) :
    classifyFile (indexName n) b = some (if b then .bundleFileList else .splitFileList) := by
  have hc := C20_facts_constants.2.2
  have ne : ∀ f ∈ [[], labelFile, repoFile, bundleFile, contextFile, diamondInitialFile, diamondFinalFile,
      splitInitialFile, splitFinalFile, splitsDir], indexName n ≠ f :=
    fun f hf => indexName_ne_of_not_index n f (hc f hf).1
  have n1 := ne labelFile (by simp)
  have n2 := ne repoFile (by simp)
  have n3 := ne bundleFile (by simp)
  have n4 := ne contextFile (by simp)
  have n5 := ne diamondInitialFile (by simp)
  have n6 := ne diamondFinalFile (by simp)
  have n7 := ne splitInitialFile (by simp)
  have n8 := ne splitFinalFile (by simp)
  unfold classifyFile
  simp only [n1, n2, n3, n4, n5, n6, n7, n8, if_false, isIndexFile_indexName, if_true]
  cases b <;> rfl

theorem classify_comps (k : Kind) (p : PArgs) (hv : k.valid p) : classify (k.comps (k.args p)) = some k := by
  have hf := C20_facts_classify
  cases k
  case bundleFileList =>
    show classifyFile (indexName p.index) (decide (([] : Str) = [])) = _
    rw [classifyFile_index]; rfl
  case splitFileList =>
    obtain ⟨-, -, -, -, -, -, hgk⟩ := hv
    have g1 : p.gen ≠ [] := ksuid_ne _ _ hgk ksuid_f3
    show classifyFile (indexName p.index) (decide (p.gen = [])) = _
    rw [classifyFile_index]; simp [g1]
  case label => exact (hf _).1
  case repo => exact (hf _).2.1
  case bundle => exact (hf _).2.2.1
  case context => exact (hf _).2.2.2.1
  case diamondInitial => exact (hf _).2.2.2.2.1
  case diamondFinal => exact (hf _).2.2.2.2.2.1
  case splitInitial => exact (hf _).2.2.2.2.2.2.1
  case splitFinal => exact (hf _).2.2.2.2.2.2.2

/-- the components determine the kind and the values -/
theorem comps_inj (k k' : Kind) (p p' : PArgs) (hv : k.valid p) (hv' : k'.valid p')
    (h : k.comps (k.args p) = k'.comps (k'.args p')) : k = k' ∧ k.args p = k'.args p' := by
  have hk : k = k' := by
    have := congrArg classify h
    rw [classify_comps k p hv, classify_comps k' p' hv'] at this
    exact Option.some.inj this
  subst hk
  refine ⟨rfl, ?_⟩
  cases k <;>
    simp only [Kind.comps, Kind.args, strArg, numArg, List.getElem?_cons_zero, List.getElem?_cons_succ,
      Comps.mk.injEq] at h <;>
    simp only [Kind.args, List.cons.injEq, Arg.s.injEq, Arg.n.injEq, and_true]
  case label => exact ⟨h.1, h.2.2.2.1⟩
  case repo => exact h.1
  case bundle => exact ⟨h.1, h.2.1⟩
  case bundleFileList =>
    refine ⟨h.1, h.2.1, ?_⟩
    have := h.2.2.1
    simp only [List.append_cancel_right_eq, List.append_cancel_left_eq] at this
    exact dec_inj this
  case context => exact h.2.2.2.2.1
  case diamondInitial => exact ⟨h.1, h.2.2.2.2.2.1⟩
  case diamondFinal => exact ⟨h.1, h.2.2.2.2.2.1⟩
  case splitInitial => exact ⟨h.1, h.2.2.2.2.2.1, h.2.2.2.2.2.2.1⟩
  case splitFinal => exact ⟨h.1, h.2.2.2.2.2.1, h.2.2.2.2.2.2.1⟩
  case splitFileList =>
    refine ⟨h.1, h.2.2.2.2.2.1, h.2.2.2.2.2.2.1, h.2.2.2.2.2.2.2.1, ?_⟩
    have := h.2.2.1
    simp only [List.append_cancel_right_eq, List.append_cancel_left_eq] at this
    exact dec_inj this

/-- **render_disjoint**: two archive paths built from valid components are the same string only
    if they are of the same kind and were built from the same components — paths of different
    objects never coincide. -/
theorem C20_render_disjoint (k k' : Kind) (p p' : PArgs) (hv : k.valid p) (hv' : k'.valid p')
    (h : k.build (k.args p) = k'.build (k'.args p')) : k = k' ∧ k.args p = k'.args p' := by
  have h1 := C20_parse_render k p hv
  have h2 := C20_parse_render k' p' hv'
  rw [h, h2] at h1
  exact comps_inj k k' p p' hv hv' (Option.some.inj h1).symm

/-! ### F. consumable-store metadata paths -/

/-- tie to the source: the two consumable builders are prefix ++ id ++ [separator ++ index] ++
    suffix with the prefix, separator and suffix of the regular expressions of the inverse
    function; the index group is converted by `ParseUint(…, 10, 64)`. -/
theorem C20_facts_consumable :
    flat Facts.consumablePathToBundleT = metaPre.map .ch ++ [.param 0] ++ metaPost.map .ch
    ∧ flat Facts.consumablePathToBundleFileListT =
        metaPre.map .ch ++ [.param 0] ++ flSep.map .ch ++ [.num 1] ++ metaPost.map .ch
    ∧ Facts.re_metaRe = "^\\.datamon/(.*)\\.yaml$"
    ∧ Facts.re_flRe.toList = "^(.*)-".toList ++ Facts.bundleFilesIndexPrefix ++ "(.*)$".toList
    ∧ Facts.bundleFilesIndexPrefix.all (fun c => c.isAlphanum || c == '-') = true
    ∧ Facts.consumableIndexConversion = ["strconv.ParseUint/10/64"]
    ∧ Facts.pathBuilderInverseChecks =
        [("GetConsumablePathToBundle", ["inverse", "err", "Type=ConsumableStorePathTypeDescriptor", "BundleID=bundleID"]),
         ("GetConsumablePathToBundleFileList",
          ["inverse", "err", "Type=ConsumableStorePathTypeFileList", "BundleID=bundleID", "Index=index"])] := by
  decide +kernel

theorem render_consumableBundle (id : Str) :
    render Facts.consumablePathToBundleT [.s id] = metaPre ++ id ++ metaPost := by
  rw [render_flat, C20_facts_consumable.1]
  simp [renderF_append, renderF, flatMap_ch, renderAtom, strArg]

theorem render_consumableFileList (id : Str) (n : Nat) :
    render Facts.consumablePathToBundleFileListT [.s id, .n n] = metaPre ++ id ++ flSep ++ dec n ++ metaPost := by
  rw [render_flat, C20_facts_consumable.2.1]
  simp [renderF_append, renderF, flatMap_ch, renderAtom, strArg, numArg]

theorem splitLast_append_left (sep x s a b : Str) (h : splitLast sep s = some (a, b)) :
    splitLast sep (x ++ s) = some (x ++ a, b) := by
  induction x with
  | nil => simpa using h
  | cons c r ih => simp [splitLast, ih]

theorem splitLast_none_of_no_prefix (sep s : Str) (h : ∀ k, stripPrefix sep (s.drop k) = none) :
    splitLast sep s = none := by
  induction s with
  | nil => rfl
  | cons c r ih =>
    have hr : ∀ k, stripPrefix sep (r.drop k) = none := fun k => by simpa using h (k + 1)
    have h0 : stripPrefix sep (c :: r) = none := by simpa using h 0
    simp [splitLast, ih hr, h0]

/-- no occurrence of `sep` starts inside `sep ++ digits` after position 0, because the last
    character of `sep` is not a digit -/
theorem no_later_occurrence (sep d : Str) (hne : sep ≠ [])
    (hz : ∀ z, sep.getLast? = some z → z.isDigit = false) (hd : ∀ c ∈ d, c.isDigit = true) (k : Nat) :
    stripPrefix sep ((sep.tail ++ d).drop k) = none := by
  cases h : stripPrefix sep ((sep.tail ++ d).drop k) with
  | none => rfl
  | some r =>
    exfalso
    have e := (stripPrefix_eq_some _ _ _).mp h
    have hpos : 0 < sep.length := List.length_pos_iff.mpr hne
    have e2 := congrArg (fun l => l[sep.length - 1]?) e
    simp only [List.getElem?_drop] at e2
    rw [List.getElem?_append_right (by simp), List.getElem?_append_left (by omega)] at e2
    have hl : sep[sep.length - 1]? = sep.getLast? := by rw [List.getLast?_eq_getElem?]
    rw [hl] at e2
    cases hz' : sep.getLast? with
    | none => simp [List.getLast?_eq_none_iff] at hz'; exact hne hz'
    | some z =>
      rw [hz'] at e2
      have hm : z ∈ d := List.mem_of_getElem? e2
      have := hd z hm
      rw [hz z hz'] at this
      exact absurd this (by decide +kernel)

theorem splitLast_sep_digits (sep d : Str) (hne : sep ≠ [])
    (hz : ∀ z, sep.getLast? = some z → z.isDigit = false) (hd : ∀ c ∈ d, c.isDigit = true) :
    splitLast sep (sep ++ d) = some ([], d) := by
  obtain ⟨c, t, rfl⟩ : ∃ c t, sep = c :: t := by
    cases sep with
    | nil => exact absurd rfl hne
    | cons c t => exact ⟨c, t, rfl⟩
  have hnone : splitLast (c :: t) (t ++ d) = none :=
    splitLast_none_of_no_prefix _ _ (fun k => no_later_occurrence (c :: t) d hne hz hd k)
  have hp : stripPrefix (c :: t) (c :: (t ++ d)) = some d := by
    have := stripPrefix_append (c :: t) d
    simpa using this
  simp only [List.cons_append, splitLast, hnone, hp]

theorem splitLast_none_of_not_infix (sep s : Str) (h : ¬ sep <:+: s) : splitLast sep s = none := by
  apply splitLast_none_of_no_prefix
  intro k
  cases hk : stripPrefix sep (s.drop k) with
  | none => rfl
  | some r =>
    exfalso; apply h
    have e := (stripPrefix_eq_some _ _ _).mp hk
    refine ⟨s.take k, r, ?_⟩
    rw [List.append_assoc, ← e, List.take_append_drop]

theorem splitLast_some_of_infix (sep s : Str) (hne : sep ≠ []) (h : sep <:+: s) :
    (splitLast sep s).isSome = true := by
  obtain ⟨a, b, e⟩ := h
  subst e
  induction a with
  | nil =>
    obtain ⟨c, t, rfl⟩ : ∃ c t, sep = c :: t := by
      cases sep with
      | nil => exact absurd rfl hne
      | cons c t => exact ⟨c, t, rfl⟩
    simp only [List.nil_append, List.cons_append, splitLast]
    cases splitLast (c :: t) (t ++ b) with
    | some x => rfl
    | none =>
      have := stripPrefix_append (c :: t) b
      simp only [List.cons_append] at this
      simp [this]
  | cons x a ih =>
    simp only [List.cons_append, List.append_assoc, splitLast] at ih ⊢
    cases h2 : splitLast sep (a ++ (sep ++ b)) with
    | some y => rfl
    | none => rw [h2] at ih; exact absurd ih (by simp)

/-- the greedy split fails exactly when the separator does not occur -/
theorem splitLast_none_iff (sep s : Str) (hne : sep ≠ []) : splitLast sep s = none ↔ ¬ sep <:+: s := by
  constructor
  · intro h hi
    have := splitLast_some_of_infix sep s hne hi
    rw [h] at this; exact absurd this (by simp)
  · exact splitLast_none_of_not_infix sep s

theorem parseUint64_dec (n : Nat) (h : n < 2 ^ 64) : parseUint64 (dec n) = some n := by
  unfold parseUint64
  have : Nat.ofDigitChars 10 (dec n) 0 = n := by simp [dec]
  simp [dec_ne_nil, dec_all_isDigit, this, h]

theorem flSep_facts : flSep ≠ [] ∧ (∀ z, flSep.getLast? = some z → z.isDigit = false) ∧ '\n' ∉ flSep
    ∧ flSep.head? = some '-' := by
  decide +kernel

theorem parseConsumable_desc (id : Str) (hnl : '\n' ∉ id) (hsep : ¬ flSep <:+: id) :
    parseConsumable (metaPre ++ id ++ metaPost) = some (.desc id) := by
  unfold parseConsumable
  rw [List.append_assoc, stripPrefix_append]
  simp only [stripSuffix_append]
  simp [hnl, splitLast_none_of_not_infix _ _ hsep]

theorem parseConsumable_list (id : Str) (n : Nat) (hnl : '\n' ∉ id) (hn : n < 2 ^ 64) :
    parseConsumable (metaPre ++ id ++ flSep ++ dec n ++ metaPost) = some (.list id n) := by
  unfold parseConsumable
  have e : metaPre ++ id ++ flSep ++ dec n ++ metaPost = metaPre ++ ((id ++ (flSep ++ dec n)) ++ metaPost) := by
    simp
  rw [e, stripPrefix_append]
  simp only [stripSuffix_append]
  have hd : '\n' ∉ dec n := by intro h; have := dec_isDigit n _ h; revert this; decide +kernel
  obtain ⟨f1, f2, f3, -⟩ := flSep_facts
  have hs := splitLast_append_left flSep id _ _ _ (splitLast_sep_digits flSep (dec n) f1 f2 (dec_isDigit n))
  simp [hnl, hd, f3, hs, parseUint64_dec n hn]

/-- **consumable_roundtrip (descriptor)**: the inverse function recovers the bundle id from the
    path of a bundle descriptor, for every id without a newline that does not contain the
    file-list separator `-bundle-files-` (KSUIDs contain no hyphen at all, see the corollary). -/
theorem C20_consumable_roundtrip_desc (id : Str) (hnl : '\n' ∉ id) (hsep : ¬ flSep <:+: id) :
    parseConsumable (render Facts.consumablePathToBundleT [.s id]) = some (.desc id) := by
  rw [render_consumableBundle, parseConsumable_desc id hnl hsep]

/-- **consumable_roundtrip (file list)**: for every id without a newline — even one that contains
    the separator — and every 64-bit index the inverse function recovers both. -/
theorem C20_consumable_roundtrip_list (id : Str) (n : Nat) (hnl : '\n' ∉ id) (hn : n < 2 ^ 64) :
    parseConsumable (render Facts.consumablePathToBundleFileListT [.s id, .n n]) = some (.list id n) := by
  rw [render_consumableFileList, parseConsumable_list id n hnl hn]

/-- the builders never panic in their inverse check on that domain -/
theorem C20_consumable_builders_total (id : Str) (n : Nat) (hnl : '\n' ∉ id) (hn : n < 2 ^ 64) :
    buildConsumableFileList id n = some (render Facts.consumablePathToBundleFileListT [.s id, .n n])
    ∧ (¬ flSep <:+: id → buildConsumableBundle id = some (render Facts.consumablePathToBundleT [.s id])) := by
  constructor
  · simp [buildConsumableFileList, C20_consumable_roundtrip_list id n hnl hn]
  · intro hsep
    simp [buildConsumableBundle, C20_consumable_roundtrip_desc id hnl hsep]

theorem not_infix_of_no_hyphen (id : Str) (h : '-' ∉ id) : ¬ flSep <:+: id := by
  rintro ⟨a, b, e⟩
  apply h
  have hh := flSep_facts.2.2.2
  obtain ⟨t, ht⟩ : ∃ t, flSep = '-' :: t := by
    cases hf : flSep with
    | nil => rw [hf] at hh; simp at hh
    | cons c t => rw [hf] at hh; simp at hh; exact ⟨t, by rw [hh]⟩
  rw [← e, ht]; simp

/-- two consumable paths are equal only for the same object -/
theorem C20_consumable_disjoint (id id' : Str) (n n' : Nat) (h1 : '\n' ∉ id) (h2 : '\n' ∉ id')
    (hn : n < 2 ^ 64) (hn' : n' < 2 ^ 64) (hs : ¬ flSep <:+: id) :
    (render Facts.consumablePathToBundleFileListT [.s id, .n n] =
        render Facts.consumablePathToBundleFileListT [.s id', .n n'] → id = id' ∧ n = n')
    ∧ render Facts.consumablePathToBundleT [.s id] ≠ render Facts.consumablePathToBundleFileListT [.s id', .n n']
    ∧ (¬ flSep <:+: id' → render Facts.consumablePathToBundleT [.s id] = render Facts.consumablePathToBundleT [.s id'] →
        id = id') := by
  refine ⟨fun h => ?_, fun h => ?_, fun hs' h => ?_⟩
  · have := congrArg parseConsumable h
    rw [C20_consumable_roundtrip_list id n h1 hn, C20_consumable_roundtrip_list id' n' h2 hn'] at this
    simpa using this
  · have := congrArg parseConsumable h
    rw [C20_consumable_roundtrip_desc id h1 hs, C20_consumable_roundtrip_list id' n' h2 hn'] at this
    simp at this
  · have := congrArg parseConsumable h
    rw [C20_consumable_roundtrip_desc id h1 hs, C20_consumable_roundtrip_desc id' h2 hs'] at this
    simpa using this

/-- the hypotheses are needed: an id containing the separator, or a newline, makes the descriptor
    builder panic in its inverse check -/
theorem C20_neg_consumable_separator :
    buildConsumableBundle (['a'] ++ flSep ++ ['b']) = none ∧ buildConsumableBundle ['a', '\n', 'b'] = none := by
  decide +kernel

/-- the conversion used before the repair (`strconv.Atoi`, a signed 64-bit integer) restricted to
    digit strings: the round trip stopped at 2^63 -/
def atoiDigits (d : Str) : Option Nat :=
  if d ≠ [] ∧ d.all Char.isDigit then
    if Nat.ofDigitChars 10 d 0 < 2 ^ 63 then some (Nat.ofDigitChars 10 d 0) else none
  else none

theorem C20_neg_index_atoi : atoiDigits (dec (2 ^ 63)) = none ∧ parseUint64 (dec (2 ^ 63)) = some (2 ^ 63) := by
  decide +kernel

/-! ### G. IsGeneratedFile recognises exactly the reserved locations -/

def reservedNames : List Str := [rDatamon, rConflicts, rCheckpoints]
def rootPrefixes : List Str := [[], ['/'], ['.', '/']]

/-- `s` is the location `pfx ++ name` itself or lies below it -/
def AtOrBelow (pfx name : Str) (s : Str) : Prop :=
  s = pfx ++ name ∨ (pfx ++ name ++ ['/']) <+: s

/-- the reserved locations: `.datamon`, `.conflicts`, `.checkpoints` at the root of the data set
    (the root written "", "/" or "./"), and everything below them -/
def Reserved (s : Str) : Prop :=
  ∃ pfx ∈ rootPrefixes, ∃ name ∈ reservedNames, AtOrBelow pfx name s

theorem hasPrefix_iff (p : Str) (s : Str) : hasPrefix p s = true ↔ p <+: s := by
  unfold hasPrefix
  constructor
  · intro h
    obtain ⟨r, hr⟩ := Option.isSome_iff_exists.mp h
    exact ⟨r, ((stripPrefix_eq_some _ _ _).mp hr).symm⟩
  · rintro ⟨r, rfl⟩
    simp [stripPrefix_append]

theorem nameThen_iff (pfx name : Str) (s : Str) : nameThen pfx name s = true ↔ AtOrBelow pfx name s := by
  unfold nameThen AtOrBelow
  cases h : stripPrefix (pfx ++ name) s with
  | none =>
    simp only [Bool.false_eq_true, false_iff, not_or]
    constructor
    · intro e; rw [e] at h
      have := stripPrefix_append (pfx ++ name) []
      simp only [List.append_nil] at this
      rw [this] at h; exact absurd h (by simp)
    · rintro ⟨t, rfl⟩
      rw [List.append_assoc, stripPrefix_append] at h; exact absurd h (by simp)
  | some r =>
    have e := (stripPrefix_eq_some _ _ _).mp h
    subst e
    simp only [Bool.or_eq_true, decide_eq_true_eq, beq_iff_eq]
    constructor
    · rintro (h1 | h1)
      · left; simp [h1]
      · right
        cases r with
        | nil => simp at h1
        | cons c t =>
          simp only [List.head?_cons, Option.some.injEq] at h1
          subst h1
          exact ⟨t, by simp⟩
    · rintro (h1 | ⟨t, h1⟩)
      · left; simpa using h1
      · right
        rw [List.append_assoc, List.append_cancel_left_eq] at h1
        rw [← h1]; rfl

/-- **isGenerated_exact**: the eight alternatives of `genFileRe` accept exactly the reserved
    locations. -/
theorem C20_isGenerated_exact (s : Str) : isGenerated s = true ↔ Reserved s := by
  unfold isGenerated Reserved reservedAlt
  simp only [Bool.or_eq_true, hasPrefix_iff, nameThen_iff, beq_iff_eq, rootPrefixes, reservedNames,
    List.mem_cons, List.not_mem_nil, or_false, exists_eq_or_imp, exists_eq_left]
  unfold AtOrBelow
  simp only [List.nil_append, List.cons_append, or_assoc]
  generalize rDatamon = dm
  generalize rConflicts = cf
  generalize rCheckpoints = cp
  constructor
  · rintro (h | h | h | h | h | h | h | h | h | h | h | h | h | h | h | h | h | h) <;>
      (first | exact Or.inl h | exact Or.inr (Or.inl h) | exact Or.inr (Or.inr (Or.inl h)) | exact Or.inr (Or.inr (Or.inr (Or.inl h))) | exact Or.inr (Or.inr (Or.inr (Or.inr (Or.inl h)))) | exact Or.inr (Or.inr (Or.inr (Or.inr (Or.inr (Or.inl h))))) | exact Or.inr (Or.inr (Or.inr (Or.inr (Or.inr (Or.inr (Or.inl h)))))) | exact Or.inr (Or.inr (Or.inr (Or.inr (Or.inr (Or.inr (Or.inr (Or.inl h))))))) | exact Or.inr (Or.inr (Or.inr (Or.inr (Or.inr (Or.inr (Or.inr (Or.inr (Or.inl h)))))))) | exact Or.inr (Or.inr (Or.inr (Or.inr (Or.inr (Or.inr (Or.inr (Or.inr (Or.inr (Or.inl h))))))))) | exact Or.inr (Or.inr (Or.inr (Or.inr (Or.inr (Or.inr (Or.inr (Or.inr (Or.inr (Or.inr (Or.inl h)))))))))) | exact Or.inr (Or.inr (Or.inr (Or.inr (Or.inr (Or.inr (Or.inr (Or.inr (Or.inr (Or.inr (Or.inr (Or.inl h))))))))))) | exact Or.inr (Or.inr (Or.inr (Or.inr (Or.inr (Or.inr (Or.inr (Or.inr (Or.inr (Or.inr (Or.inr (Or.inr (Or.inl h)))))))))))) | exact Or.inr (Or.inr (Or.inr (Or.inr (Or.inr (Or.inr (Or.inr (Or.inr (Or.inr (Or.inr (Or.inr (Or.inr (Or.inr (Or.inl h))))))))))))) | exact Or.inr (Or.inr (Or.inr (Or.inr (Or.inr (Or.inr (Or.inr (Or.inr (Or.inr (Or.inr (Or.inr (Or.inr (Or.inr (Or.inr (Or.inl h)))))))))))))) | exact Or.inr (Or.inr (Or.inr (Or.inr (Or.inr (Or.inr (Or.inr (Or.inr (Or.inr (Or.inr (Or.inr (Or.inr (Or.inr (Or.inr (Or.inr (Or.inl h))))))))))))))) | exact Or.inr (Or.inr (Or.inr (Or.inr (Or.inr (Or.inr (Or.inr (Or.inr (Or.inr (Or.inr (Or.inr (Or.inr (Or.inr (Or.inr (Or.inr (Or.inr (Or.inl h)))))))))))))))) | exact Or.inr (Or.inr (Or.inr (Or.inr (Or.inr (Or.inr (Or.inr (Or.inr (Or.inr (Or.inr (Or.inr (Or.inr (Or.inr (Or.inr (Or.inr (Or.inr (Or.inr (h))))))))))))))))))
  · rintro (h | h | h | h | h | h | h | h | h | h | h | h | h | h | h | h | h | h) <;>
      (first | exact Or.inl h | exact Or.inr (Or.inl h) | exact Or.inr (Or.inr (Or.inl h)) | exact Or.inr (Or.inr (Or.inr (Or.inl h))) | exact Or.inr (Or.inr (Or.inr (Or.inr (Or.inl h)))) | exact Or.inr (Or.inr (Or.inr (Or.inr (Or.inr (Or.inl h))))) | exact Or.inr (Or.inr (Or.inr (Or.inr (Or.inr (Or.inr (Or.inl h)))))) | exact Or.inr (Or.inr (Or.inr (Or.inr (Or.inr (Or.inr (Or.inr (Or.inl h))))))) | exact Or.inr (Or.inr (Or.inr (Or.inr (Or.inr (Or.inr (Or.inr (Or.inr (Or.inl h)))))))) | exact Or.inr (Or.inr (Or.inr (Or.inr (Or.inr (Or.inr (Or.inr (Or.inr (Or.inr (Or.inl h))))))))) | exact Or.inr (Or.inr (Or.inr (Or.inr (Or.inr (Or.inr (Or.inr (Or.inr (Or.inr (Or.inr (Or.inl h)))))))))) | exact Or.inr (Or.inr (Or.inr (Or.inr (Or.inr (Or.inr (Or.inr (Or.inr (Or.inr (Or.inr (Or.inr (Or.inl h))))))))))) | exact Or.inr (Or.inr (Or.inr (Or.inr (Or.inr (Or.inr (Or.inr (Or.inr (Or.inr (Or.inr (Or.inr (Or.inr (Or.inl h)))))))))))) | exact Or.inr (Or.inr (Or.inr (Or.inr (Or.inr (Or.inr (Or.inr (Or.inr (Or.inr (Or.inr (Or.inr (Or.inr (Or.inr (Or.inl h))))))))))))) | exact Or.inr (Or.inr (Or.inr (Or.inr (Or.inr (Or.inr (Or.inr (Or.inr (Or.inr (Or.inr (Or.inr (Or.inr (Or.inr (Or.inr (Or.inl h)))))))))))))) | exact Or.inr (Or.inr (Or.inr (Or.inr (Or.inr (Or.inr (Or.inr (Or.inr (Or.inr (Or.inr (Or.inr (Or.inr (Or.inr (Or.inr (Or.inr (Or.inl h))))))))))))))) | exact Or.inr (Or.inr (Or.inr (Or.inr (Or.inr (Or.inr (Or.inr (Or.inr (Or.inr (Or.inr (Or.inr (Or.inr (Or.inr (Or.inr (Or.inr (Or.inr (Or.inl h)))))))))))))))) | exact Or.inr (Or.inr (Or.inr (Or.inr (Or.inr (Or.inr (Or.inr (Or.inr (Or.inr (Or.inr (Or.inr (Or.inr (Or.inr (Or.inr (Or.inr (Or.inr (Or.inr (h))))))))))))))))))

/-- the literal the predicate `isGenerated` was written for -/
theorem C20_facts_genFileRe :
    Facts.re_genFileRe =
      "^\\.datamon/.*|^/\\.datamon/.*|^/\\.datamon$|^\\.datamon$|^\\./\\.datamon/.*|^\\./\\.datamon$|^(\\./|/)?\\.conflicts(/.*|$)|^(\\./|/)?\\.checkpoints(/.*|$)" := by
  rfl

/-- before the repair the optional prefix of `.conflicts` / `.checkpoints` was `\.?/?`, which also
    accepts a lone dot: `..conflicts` was treated as generated although it is not a reserved
    location -/
def oldReservedAlt (name : Str) (s : Str) : Bool :=
  nameThen ['.', '/'] name s || nameThen ['.'] name s || nameThen ['/'] name s || nameThen [] name s

theorem C20_neg_old_genFileRe :
    oldReservedAlt rConflicts ('.' :: rConflicts ++ ['/', 'x']) = true ∧ ¬ Reserved ('.' :: rConflicts ++ ['/', 'x']) := by
  refine ⟨by decide +kernel, ?_⟩
  rw [← C20_isGenerated_exact]
  decide +kernel

/-! ### H. name validation accepts exactly the documented alphabets -/

theorem C20_facts_validation :
    Facts.validateRepoClasses = ["IsDigit", "IsLetter", "Hyphen"]
    ∧ Facts.validateLabelClasses = ["IsDigit", "IsLetter", "Hyphen", "Pc"] := by
  decide +kernel

/-- **validate_exact (repo)**: accepted iff name and description are not empty and every rune of
    the name is a decimal digit, a letter or a hyphen -/
theorem C20_validateRepo_exact (o : Classes) (name desc : Str) :
    validateRepo o name desc = true ↔
      name ≠ [] ∧ desc ≠ [] ∧ ∀ c ∈ name, isDigit o c = true ∨ isLetter o c = true ∨ isHyphen c = true := by
  unfold validateRepo
  by_cases h1 : name = []
  · simp [h1]
  · by_cases h2 : desc = []
    · simp [h1, h2]
    · simp [h1, h2, repoChar, List.all_eq_true, or_assoc]

/-- **validate_exact (label)**: accepted iff name and bundle id are not empty, every rune of the
    name is a decimal digit, a letter, a hyphen or a connector, and every contributor has a name and
    a well-formed e-mail address -/
theorem C20_validateLabel_exact (o : Classes) (name id : Str) (cs : List Contrib) :
    validateLabel o name id cs = true ↔
      name ≠ [] ∧ id ≠ [] ∧
      (∀ c ∈ name, isDigit o c = true ∨ isLetter o c = true ∨ isHyphen c = true ∨ isPc c = true) ∧
      ∀ c ∈ cs, c.name ≠ [] ∧ c.email ≠ [] ∧ c.mailOK = true := by
  unfold validateLabel
  by_cases h1 : name = []
  · simp [h1]
  · by_cases h2 : id = []
    · simp [h1, h2]
    · by_cases h3 : name.all (labelChar o) = true
      · have h3' := h3
        simp only [List.all_eq_true, labelChar, Bool.or_eq_true, or_assoc] at h3'
        simp [h1, h2, h3, and_assoc]
        exact fun _ => h3'
      · have h3b : name.all (labelChar o) = false := by simpa using h3
        simp only [h1, h2, h3b, if_false, if_true, Bool.false_eq_true, false_iff]
        intro hh
        apply h3
        simp only [List.all_eq_true, labelChar, Bool.or_eq_true, or_assoc]
        exact hh.2.2.1

theorem toNat_eq_iff (c : Char) (d : Char) : c = d ↔ c.toNat = d.toNat := by
  constructor
  · intro h; rw [h]
  · intro h; exact Char.ext (UInt32.toNat_inj.mp h)

/-- on ASCII the alphabets are concrete: `[0-9A-Za-z-]` for repositories, plus `_` for labels -/
theorem C20_ascii_alphabets (o : Classes) (c : Char) (h : c.toNat < 128) :
    repoChar o c = (c.isAlphanum || c == '-') ∧ labelChar o c = (c.isAlphanum || c == '-' || c == '_') := by
  have hh : isHyphen c = (c == '-') := by
    rw [Bool.eq_iff_iff]
    simp only [isHyphen, hyphenTable, List.contains_eq_mem, List.mem_cons, List.not_mem_nil, or_false,
      decide_eq_true_eq, beq_iff_eq, toNat_eq_iff c '-']
    constructor
    · rintro (h1 | h1 | h1 | h1 | h1 | h1 | h1 | h1 | h1 | h1 | h1) <;> first | exact h1 | omega
    · intro h1; exact Or.inl h1
  have hp : isPc c = (c == '_') := by
    rw [Bool.eq_iff_iff]
    simp only [isPc, pcTable, List.contains_eq_mem, List.mem_cons, List.not_mem_nil, or_false,
      decide_eq_true_eq, beq_iff_eq, toNat_eq_iff c '_']
    constructor
    · rintro (h1 | h1 | h1 | h1 | h1 | h1 | h1 | h1 | h1 | h1) <;> first | exact h1 | omega
    · intro h1; exact Or.inl h1
  simp only [repoChar, labelChar, isDigit, isLetter, h, if_true, hh, hp, Char.isAlphanum]
  constructor
  · cases c.isAlpha <;> cases c.isDigit <;> simp
  · cases c.isAlpha <;> cases c.isDigit <;> simp

theorem labelChar_special (o : Classes) :
    labelChar o '/' = false ∧ labelChar o '.' = false ∧ labelChar o '\n' = false := by
  simp [labelChar, isDigit, isLetter, isHyphen, isPc, hyphenTable, pcTable]

theorem repoChar_labelChar (o : Classes) (c : Char) (h : repoChar o c = true) : labelChar o c = true := by
  simp only [repoChar, labelChar, Bool.or_eq_true] at h ⊢
  exact Or.inl h

/-- a name accepted by validation is a plain path component without newline: the hypotheses of the
    round-trip theorems hold for every validated repository or label name -/
theorem validName_normal (o : Classes) (name : Str) (hne : name ≠ [])
    (h : ∀ c ∈ name, labelChar o c = true) : normalComp name ∧ '\n' ∉ name := by
  obtain ⟨s1, s2, s3⟩ := labelChar_special o
  have no (ch : Char) (hf : labelChar o ch = false) : ch ∉ name := by
    intro hm; rw [h ch hm] at hf; exact absurd hf (by decide +kernel)
  refine ⟨⟨no _ s1, hne, ?_, ?_⟩, no _ s3⟩
  · intro e; apply no _ s2; rw [e]; simp [dot]
  · intro e; apply no _ s2; rw [e]; simp [dotdot]

/-- **validated names round-trip**: for a repository accepted by `ValidateRepo` and a label
    accepted by `ValidateLabel` the label path parses back to exactly the two names -/
theorem C20_validated_label_roundtrip (o : Classes) (repo desc label id : Str) (cs : List Contrib)
    (hr : validateRepo o repo desc = true) (hl : validateLabel o label id cs = true) :
    parseArchivePath (Kind.build .label [.s repo, .s label]) =
      some { repo := repo, labelName := label, archiveFileName := labelFile } := by
  have hr' := (C20_validateRepo_exact o repo desc).mp hr
  have hl' := (C20_validateLabel_exact o label id cs).mp hl
  have n1 := validName_normal o repo hr'.1 (fun c hc => repoChar_labelChar o c (by
    simp only [repoChar, Bool.or_eq_true]
    rcases hr'.2.2 c hc with h | h | h
    · exact Or.inl (Or.inl h)
    · exact Or.inl (Or.inr h)
    · exact Or.inr h))
  have n2 := validName_normal o label hl'.1 (fun c hc => by
    simp only [labelChar, Bool.or_eq_true]
    rcases hl'.2.2.1 c hc with h | h | h | h
    · exact Or.inl (Or.inl (Or.inl h))
    · exact Or.inl (Or.inl (Or.inr h))
    · exact Or.inl (Or.inr h)
    · exact Or.inr h)
  exact C20_parse_render .label { repo := repo, label := label } ⟨n1.1.1, n2.1.1⟩

/-! ### I. the remaining ties to the source -/

/-- the parser constants the model was written for -/
theorem C20_facts_parser :
    Facts.apc_splitN = 7 ∧ Facts.apc_maxPos = 7 ∧ Facts.apc_labelPos = 3 ∧ Facts.apc_repoPos = 2
    ∧ Facts.apc_bundlePos = 3 ∧ Facts.apc_contextPos = 2 ∧ Facts.apc_diamondPos = 3 ∧ Facts.apc_splitPos = 5
    ∧ Facts.apc_indexPos = 6
    ∧ Facts.apc_kindTags = [tagLabels, tagRepos, tagBundles, tagContexts, tagDiamonds]
    ∧ Facts.re_isBundleFileIndexRe.toList = '^' :: Facts.bundleFilesIndexPrefix ++ "(\\d+)\\.yaml$".toList
    ∧ Facts.re_isSplitIndexFileRe = Facts.re_isBundleFileIndexRe
    ∧ Facts.splitFilesIndexPrefix = Facts.bundleFilesIndexPrefix := by
  decide +kernel

/-- the builders that switch on a state render exactly like the dedicated builders -/
theorem C20_facts_aliases :
    flat Facts.archivePathToDiamond_DiamondInitialized_T = flat Facts.archivePathToInitialDiamondT
    ∧ flat Facts.archivePathToDiamond_default_T = flat Facts.archivePathToFinalDiamondT
    ∧ flat Facts.archivePathToSplit_SplitRunning_T = flat Facts.archivePathToInitialSplitT
    ∧ flat Facts.archivePathToSplit_default_T = flat Facts.archivePathToFinalSplitT := by
  decide +kernel

theorem C20_alias_render (a : List Arg) :
    render Facts.archivePathToDiamond_DiamondInitialized_T a = render Facts.archivePathToInitialDiamondT a
    ∧ render Facts.archivePathToDiamond_default_T a = render Facts.archivePathToFinalDiamondT a
    ∧ render Facts.archivePathToSplit_SplitRunning_T a = render Facts.archivePathToInitialSplitT a
    ∧ render Facts.archivePathToSplit_default_T a = render Facts.archivePathToFinalSplitT a := by
  obtain ⟨h1, h2, h3, h4⟩ := C20_facts_aliases
  simp only [render_flat, h1, h2, h3, h4, and_self]

/-- every listing prefix is a prefix of the paths of the objects it lists (same leading
    arguments), so that `C20_render_prefix` applies -/
theorem C20_facts_prefixes :
    flat Facts.archivePathPrefixToBundlesT <+: flat Facts.archivePathToBundleT
    ∧ flat Facts.archivePathPrefixToBundlesT <+: flat Facts.archivePathToBundleFileListT
    ∧ flat Facts.archivePathPrefixToReposT <+: flat Facts.archivePathToRepoDescriptorT
    ∧ flat Facts.archivePathPrefixToDiamondsT <+: flat Facts.archivePathToInitialDiamondT
    ∧ flat Facts.archivePathPrefixToDiamondsT <+: flat Facts.archivePathToFinalDiamondT
    ∧ flat Facts.archivePathPrefixToSplitsT <+: flat Facts.archivePathToInitialSplitT
    ∧ flat Facts.archivePathPrefixToSplitsT <+: flat Facts.archivePathToFinalSplitT
    ∧ flat Facts.archivePathPrefixToSplitsT <+: flat Facts.archivePathToSplitFileListT
    ∧ flat Facts.archivePathToLabelsPrivT <+: flat Facts.archivePathToLabelT
    ∧ flat Facts.archivePathPrefixToContextsT = [Atom.ch 'c', .ch 'o', .ch 'n', .ch 't', .ch 'e', .ch 'x', .ch 't', .ch 's', .ch '/'] := by
  decide +kernel

/-- atoms that only read the first (string) argument -/
def firstArgOnly : Atom → Bool
  | .ch _ => true
  | .param i => i == 0
  | _ => false

theorem renderF_firstArgOnly (A : List Atom) (hA : A.all firstArgOnly = true) (x : Str) (r r' : List Arg) :
    renderF A (.s x :: r) = renderF A (.s x :: r') := by
  induction A with
  | nil => rfl
  | cons y t ih =>
    simp only [List.all_cons, Bool.and_eq_true] at hA
    have := ih hA.2
    simp only [renderF, List.flatMap_cons] at this ⊢
    rw [this]
    congr 1
    cases y with
    | ch c => rfl
    | param i =>
      have h0 : i = 0 := by simpa [firstArgOnly] using hA.1
      subst h0; rfl
    | num i => simp [firstArgOnly] at hA
    | sepBy i sep => simp [firstArgOnly] at hA

/-- the label listing prefix with no sub-prefix is a prefix of every label path of the repository -/
theorem C20_label_prefix (repo label : Str) :
    render Facts.archivePathPrefixToLabelsT [.s repo, .l []] <+: render Facts.archivePathToLabelT [.s repo, .s label] := by
  have h3 : ∃ A B, flat Facts.archivePathPrefixToLabelsT = A ++ [.sepBy 1 ['/']] ∧ flat Facts.archivePathToLabelT = A ++ B
      ∧ A.all firstArgOnly = true :=
    ⟨(flat Facts.archivePathPrefixToLabelsT).dropLast, (flat Facts.archivePathToLabelT).drop
      (flat Facts.archivePathPrefixToLabelsT).dropLast.length, by decide +kernel⟩
  obtain ⟨A, B, hA, hB, hall⟩ := h3
  rw [render_flat, render_flat, hA, hB, renderF_append, renderF_append]
  have hs : renderF [Atom.sepBy 1 ['/']] [Arg.s repo, Arg.l []] = [] := by
    simp [renderF, renderAtom, listArg, joinWith]
  rw [hs, List.append_nil, renderF_firstArgOnly A hall repo [.l []] [.s label]]
  exact List.prefix_append _ _

/-- every builder of pkg/model that the translator found: a new builder must be added to the
    kinds (or recognised as harmless) before this obligation holds again -/
theorem C20_facts_builders_covered :
    Facts.pathTemplates.map (·.1) =
      ["GetArchivePathPrefixToBundles", "GetArchivePathPrefixToContexts", "GetArchivePathPrefixToDiamonds",
       "GetArchivePathPrefixToLabels", "GetArchivePathPrefixToRepos", "GetArchivePathPrefixToSplits",
       "GetArchivePathToBundle", "GetArchivePathToBundleFileList", "GetArchivePathToDiamond/DiamondInitialized",
       "GetArchivePathToDiamond/default", "GetArchivePathToFinalDiamond", "GetArchivePathToFinalSplit",
       "GetArchivePathToInitialDiamond", "GetArchivePathToInitialSplit", "GetArchivePathToLabel",
       "GetArchivePathToRepoDescriptor", "GetArchivePathToSplit/SplitRunning", "GetArchivePathToSplit/default",
       "GetArchivePathToSplitFileList", "GetConsumablePathToBundle", "GetConsumablePathToBundleFileList",
       "GetPathToCategory", "GetPathToContainer", "GetPathToDataSetIn", "GetPathToDataSetOut", "GetPathToRun",
       "GetPathToRunStatus", "PurgeLock", "ReverseIndex", "getArchivePathToBundles", "getArchivePathToContexts",
       "getArchivePathToDiamonds", "getArchivePathToLabels", "getArchivePathToRepos"]
    ∧ Facts.joinPathTemplates.map (·.1) =
      ["GenerateCheckpointPath", "GenerateConflictPath", "GetPathToContext", "ReverseIndexFile", "ReverseIndexPrefix"] :=
  ⟨rfl, rfl⟩

/-! the run / category metadata builders (pkg/model/run.go) never produce an archive path -/

theorem parseArchivePath_unknown_tag (r rest : Str) (hs : '/' ∉ r)
    (ht : r ∉ [tagLabels, tagRepos, tagBundles, tagContexts, tagDiamonds]) :
    parseArchivePath (r ++ '/' :: rest) = none := by
  simp only [List.mem_cons, List.not_mem_nil, or_false, not_or] at ht
  obtain ⟨t1, t2, t3, t4, t5⟩ := ht
  unfold parseArchivePath
  have : splitN 7 (r ++ '/' :: rest) = r :: splitN 6 rest := by
    simp [splitN, cut_append r rest hs]
  rw [this]
  simp [parseSegs, t1, t2, t3, t4, t5]

def otherTags : List Str := [['r', 'u', 'n', 's'], ['c', 'a', 't', 'e', 'g', 'o', 'r', 'i', 'e', 's']]

/-- the run and category builders start with a literal first segment that is none of the archive
    tags -/
theorem C20_facts_other_builders :
    ∀ T ∈ [Facts.pathToCategoryT, Facts.pathToContainerT, Facts.pathToDataSetInT, Facts.pathToDataSetOutT,
      Facts.pathToRunT, Facts.pathToRunStatusT],
      ∃ t ∈ otherTags, (t.map Atom.ch ++ [.ch '/']) <+: flat T := by
  decide +kernel

theorem otherTags_facts : ∀ t ∈ otherTags,
    '/' ∉ t ∧ t ∉ [tagLabels, tagRepos, tagBundles, tagContexts, tagDiamonds] := by
  decide +kernel

/-- no run / category path equals an archive path of a valid object (whatever its arguments) -/
theorem C20_other_builders_disjoint (T : Template)
    (hT : T ∈ [Facts.pathToCategoryT, Facts.pathToContainerT, Facts.pathToDataSetInT, Facts.pathToDataSetOutT,
      Facts.pathToRunT, Facts.pathToRunStatusT])
    (a : List Arg) (k : Kind) (p : PArgs) (hv : k.valid p) : render T a ≠ k.build (k.args p) := by
  obtain ⟨t, ht, R, hR⟩ := C20_facts_other_builders T hT
  obtain ⟨h1, h2⟩ := otherTags_facts t ht
  intro e
  have hp := C20_parse_render k p hv
  rw [← e, render_flat, ← hR, renderF_append, renderF_append] at hp
  have : renderF (t.map Atom.ch) a ++ renderF [Atom.ch '/'] a ++ renderF R a = t ++ '/' :: renderF R a := by
    simp [renderF, flatMap_ch, renderAtom]
  rw [this, parseArchivePath_unknown_tag t _ h1 h2] at hp
  exact absurd hp (by simp)

/-! ### J. reverse-index chunks, conflict and checkpoint paths (`path.Join` builders) -/

def rixDir : Str := Facts.reverseIndexFile
def chunkName (n : Nat) : Str := chunkPre ++ dec n ++ indexPost

theorem C20_facts_joinBuilders :
    Facts.reverseIndexFileJ.map flat = [ofSegs [.const rixDir], ofSegs [.idx chunkPre 0 indexPost]]
    ∧ Facts.generateConflictPathJ.map flat = [ofSegs [.const rConflicts], ofSegs [.var 0], ofSegs [.var 1]]
    ∧ Facts.generateCheckpointPathJ.map flat = [ofSegs [.const rCheckpoints], ofSegs [.var 0], ofSegs [.var 1]]
    ∧ normalComp rixDir ∧ normalComp rConflicts ∧ normalComp rCheckpoints
    ∧ '/' ∉ chunkPre ∧ chunkPre ≠ [] ∧ stripPrefix chunkPre dot = none ∧ stripPrefix chunkPre dotdot = none := by
  unfold normalComp
  decide +kernel

theorem chunkName_ne (n : Nat) (f : Str) (hf : stripPrefix chunkPre f = none) : chunkName n ≠ f := by
  intro e
  rw [← e, chunkName, List.append_assoc, stripPrefix_append] at hf
  exact absurd hf (by simp)

theorem renderJoin_of_segs (J : List Template) (S : List (List Seg)) (a : List Arg)
    (h : J.map flat = S.map ofSegs) :
    renderJoin J a = pathJoin (S.map (fun segs => joinSlash (segs.map (Seg.render a)))) := by
  unfold renderJoin
  congr 1
  induction J generalizing S with
  | nil => cases S <;> simp_all
  | cons T r ih =>
    cases S with
    | nil => simp at h
    | cons s t =>
      simp only [List.map_cons, List.cons.injEq] at h ⊢
      exact ⟨render_of_segs T s a h.1, ih t h.2⟩

theorem build_reverseIndex (n : Nat) :
    renderJoin Facts.reverseIndexFileJ [.n n] = joinSlash [rixDir, chunkName n] := by
  obtain ⟨hJ, -, -, ⟨r1, r2, r3, r4⟩, -, -, c1, c2, c3, c4⟩ := C20_facts_joinBuilders
  rw [renderJoin_of_segs _ [[.const rixDir], [.idx chunkPre 0 indexPost]] _ (by simpa using hJ)]
  have hc : chunkName n ≠ [] := by simp [chunkName, c2]
  have hp : '/' ∉ indexPost := by decide +kernel
  have hcs : '/' ∉ chunkName n := by simp [chunkName, c1, hp, dec_noSlash]
  simp only [List.map_cons, List.map_nil, Seg.render, numArg, List.getElem?_cons_zero, joinSlash, joinWith, pathJoin]
  have e : ([rixDir, chunkPre ++ dec n ++ indexPost].filter (· ≠ [])) = [rixDir, chunkName n] := by
    simp [r2, chunkName]
    intro h; exact absurd h c2
  rw [e]
  simp only [List.cons_ne_nil, if_false]
  have := clean_joinSlash [rixDir, chunkName n] (by simp) (by simp [r1, hcs])
    (by simp only [List.mem_cons, List.not_mem_nil, or_false, not_or]
        exact ⟨fun e => r4 e.symm, fun e => chunkName_ne n _ c4 e.symm⟩)
    (by simp [r2])
    ⟨rixDir, [chunkName n], by simp [keep, r2, r3, hc, chunkName_ne n _ c3]⟩
  have hk : [rixDir, chunkName n].filter keep = [rixDir, chunkName n] := by
    simp [keep, r2, r3, hc, chunkName_ne n _ c3]
  rw [hk] at this
  simp only [joinSlash] at this
  rw [this]
  simp [joinWith]

/-- **index chunks round-trip**: the chunk number is recovered from `ReverseIndexFile(n)` -/
theorem C20_reverse_index_roundtrip (n : Nat) (h : n < 2 ^ 64) :
    parseChunk (renderJoin Facts.reverseIndexFileJ [.n n]) = some n := by
  obtain ⟨-, -, -, ⟨r1, -, -, -⟩, -, -, c1, -, -, -⟩ := C20_facts_joinBuilders
  have hp : '/' ∉ indexPost := by decide +kernel
  have hcs : '/' ∉ chunkName n := by simp [chunkName, c1, hp, dec_noSlash]
  rw [build_reverseIndex, parseChunk, splitSlash_joinSlash _ (by simp) (by simp [r1, hcs])]
  simp only [List.getLastD_cons, List.getLastD_nil]
  rw [chunkName, List.append_assoc, stripPrefix_append]
  simp only [stripSuffix_append]
  exact parseUint64_dec n h

theorem joinSlash_cons_join (a b : Str) (ps : List Str) (hps : ps ≠ []) :
    joinSlash [a, b, joinSlash ps] = joinSlash (a :: b :: ps) := by
  cases ps with
  | nil => exact absurd rfl hps
  | cons x t => simp [joinSlash, joinWith]

theorem filter_keep_normal (l : List Str) (h : ∀ c ∈ l, normalComp c) : l.filter keep = l := by
  apply List.filter_eq_self.mpr
  intro c hc
  obtain ⟨-, h2, h3, -⟩ := h c hc
  simp [keep, h2, h3]

theorem build_reserved (d : Str) (hd : normalComp d) (J : List Template)
    (hJ : J.map flat = [ofSegs [.const d], ofSegs [.var 0], ofSegs [.var 1]])
    (sid : Str) (ps : List Str) (hs : normalComp sid) (hps : ∀ c ∈ ps, normalComp c) (hne : ps ≠ []) :
    renderJoin J [.s sid, .s (joinSlash ps)] = joinSlash (d :: sid :: ps) := by
  rw [renderJoin_of_segs _ [[.const d], [.var 0], [.var 1]] _ (by simpa using hJ)]
  obtain ⟨x, t, rfl⟩ : ∃ x t, ps = x :: t := by
    cases ps with
    | nil => exact absurd rfl hne
    | cons x t => exact ⟨x, t, rfl⟩
  have hx := hps x (by simp)
  have hj : joinSlash (x :: t) ≠ [] := joinSlash_ne_nil x t hx.2.1
  simp only [List.map_cons, List.map_nil, Seg.render, strArg, List.getElem?_cons_zero, List.getElem?_cons_succ,
    pathJoin]
  have e1 : joinSlash [d] = d := rfl
  have e2 : joinSlash [sid] = sid := rfl
  have e3 : joinSlash [joinSlash (x :: t)] = joinSlash (x :: t) := rfl
  rw [e1, e2, e3]
  have e : ([d, sid, joinSlash (x :: t)].filter (· ≠ [])) = [d, sid, joinSlash (x :: t)] := by
    simp [hd.2.1, hs.2.1, hj]
  rw [e]
  simp only [List.cons_ne_nil, if_false]
  rw [joinSlash_cons_join d sid (x :: t) (by simp)]
  have hall : ∀ c ∈ d :: sid :: x :: t, normalComp c := by
    intro c hc
    simp only [List.mem_cons] at hc
    rcases hc with rfl | rfl | hc
    · exact hd
    · exact hs
    · exact hps c (by simpa using hc)
  rw [clean_joinSlash _ (by simp) (fun c hc => (hall c hc).1)
      (fun hm => (hall _ hm).2.2.2 rfl) (by simp [hd.2.1])
      ⟨d, sid :: x :: t, filter_keep_normal _ hall⟩,
    filter_keep_normal _ hall]

/-- **conflict and checkpoint copies are reserved**: for a split id and a file path made of plain
    components, `GenerateConflictPath` / `GenerateCheckpointPath` return a path that
    `IsGeneratedFile` recognises (it is never uploaded as data). -/
theorem C20_conflict_paths_reserved (sid : Str) (ps : List Str) (hs : normalComp sid)
    (hps : ∀ c ∈ ps, normalComp c) (hne : ps ≠ []) :
    isGenerated (renderJoin Facts.generateConflictPathJ [.s sid, .s (joinSlash ps)]) = true
    ∧ isGenerated (renderJoin Facts.generateCheckpointPathJ [.s sid, .s (joinSlash ps)]) = true := by
  obtain ⟨-, j1, j2, -, n1, n2, -⟩ := C20_facts_joinBuilders
  rw [build_reserved _ n1 _ j1 sid ps hs hps hne, build_reserved _ n2 _ j2 sid ps hs hps hne]
  constructor
  · rw [C20_isGenerated_exact]
    refine ⟨[], by simp [rootPrefixes], rConflicts, by simp [reservedNames], Or.inr ⟨joinSlash (sid :: ps), ?_⟩⟩
    simp [joinSlash, joinWith]
  · rw [C20_isGenerated_exact]
    refine ⟨[], by simp [rootPrefixes], rCheckpoints, by simp [reservedNames], Or.inr ⟨joinSlash (sid :: ps), ?_⟩⟩
    simp [joinSlash, joinWith]

/-! ### ids of KSUID shape are accepted by `ksuid.Parse` -/

/-- KSUID shape: 27 ASCII letters or digits, the first one a digit or an upper-case letter (true of
    every KSUID generated before the year 2106: the first base-62 digit of the timestamp) -/
def ksuidShape (s : Str) : Prop :=
  s.length = 27 ∧ (∀ c ∈ s, c.isAlphanum = true) ∧ ∃ c r, s = c :: r ∧ (c.isDigit = true ∨ c.isUpper = true)

theorem utf8_ascii (c : Char) (h : c.toNat < 128) : (String.utf8EncodeChar c).map UInt8.toNat = [c.toNat] := by
  have hv : c.val.toNat ≤ 127 := by
    have : c.toNat = c.val.toNat := rfl
    omega
  unfold String.utf8EncodeChar
  simp only [hv, if_true, List.map_cons, List.map_nil]
  have : c.toNat = c.val.toNat := rfl
  rw [this]
  simp only [UInt8.toNat_ofNat', Nat.reducePow]
  congr 1
  omega

theorem alnum_lt (c : Char) (h : c.isAlphanum = true) : c.toNat < 128 ∧ base62Value c.toNat ≤ 61 := by
  simp only [Char.isAlphanum, Char.isAlpha, Char.isUpper, Char.isLower, Char.isDigit, Bool.or_eq_true,
    Bool.and_eq_true, decide_eq_true_eq] at h
  have e : c.toNat = c.val.toNat := rfl
  simp only [UInt32.le_iff_toNat_le] at h
  simp only [base62Value]
  rw [e]
  have h' : (65 ≤ c.val.toNat ∧ c.val.toNat ≤ 90 ∨ 97 ≤ c.val.toNat ∧ c.val.toNat ≤ 122) ∨
      48 ≤ c.val.toNat ∧ c.val.toNat ≤ 57 := by simpa using h
  refine ⟨by omega, ?_⟩
  split
  · omega
  · split <;> omega

theorem first_le (c : Char) (h : c.isDigit = true ∨ c.isUpper = true) : base62Value c.toNat ≤ 35 := by
  simp only [Char.isUpper, Char.isDigit, Bool.and_eq_true, decide_eq_true_eq, UInt32.le_iff_toNat_le] at h
  have e : c.toNat = c.val.toNat := rfl
  simp only [base62Value]
  rw [e]
  have h' : 48 ≤ c.val.toNat ∧ c.val.toNat ≤ 57 ∨ 65 ≤ c.val.toNat ∧ c.val.toNat ≤ 90 := by simpa using h
  split
  · omega
  · split <;> omega

theorem utf8_alnum (s : Str) (h : ∀ c ∈ s, c.isAlphanum = true) : utf8 s = s.map Char.toNat := by
  induction s with
  | nil => rfl
  | cons c r ih =>
    have hc := (alnum_lt c (h c (by simp))).1
    have := ih (fun d hd => h d (by simp [hd]))
    simp only [utf8, List.flatMap_cons, List.map_cons] at this ⊢
    rw [this, utf8_ascii c hc]; rfl

theorem base62_fold_lt (bs : List Nat) (hb : ∀ b ∈ bs, base62Value b ≤ 61) :
    ∀ acc, bs.foldl (fun acc b => acc * 62 + base62Value b) acc < (acc + 1) * 62 ^ bs.length := by
  induction bs with
  | nil => intro acc; simp
  | cons b r ih =>
    intro acc
    have h1 := ih (fun x hx => hb x (by simp [hx])) (acc * 62 + base62Value b)
    have h2 := hb b (by simp)
    simp only [List.foldl_cons, List.length_cons]
    have h3 : (acc * 62 + base62Value b + 1) * 62 ^ r.length ≤ ((acc + 1) * 62) * 62 ^ r.length :=
      Nat.mul_le_mul_right _ (by omega)
    have h4 : (acc + 1) * 62 * 62 ^ r.length = (acc + 1) * 62 ^ (r.length + 1) := by
      rw [Nat.pow_succ, Nat.mul_assoc, Nat.mul_comm 62]
    omega

/-- **ids of KSUID shape are valid ids**: `ksuid.Parse` accepts them -/
theorem C20_ksuidOK_of_shape (s : Str) (h : ksuidShape s) : ksuidOK s = true := by
  obtain ⟨hl, ha, c, r, rfl, hc⟩ := h
  have hu := utf8_alnum (c :: r) ha
  unfold ksuidOK
  rw [hu]
  simp only [List.length_map, hl, beq_self_eq_true, Bool.true_and, decide_eq_true_eq, base62Num, List.map_cons,
    List.foldl_cons, Nat.zero_mul, Nat.zero_add]
  have hr : r.length = 26 := by simpa using hl
  have hb : ∀ b ∈ r.map Char.toNat, base62Value b ≤ 61 := by
    intro b hb
    obtain ⟨d, hd, rfl⟩ := List.mem_map.mp hb
    exact (alnum_lt d (ha d (by simp [hd]))).2
  have h1 := base62_fold_lt (r.map Char.toNat) hb (base62Value c.toNat)
  rw [List.length_map, hr] at h1
  have h2 := first_le c hc
  have h3 : (base62Value c.toNat + 1) * 62 ^ 26 ≤ 36 * 62 ^ 26 := Nat.mul_le_mul_right _ (by omega)
  have h4 : 36 * 62 ^ 26 < 2 ^ 160 := by decide +kernel
  have h5 := Nat.lt_of_lt_of_le h1 (Nat.le_of_lt (Nat.lt_of_le_of_lt h3 h4))
  have h6 : (c.toNat :: List.map Char.toNat r).length = 27 := by simp [hr]
  simp only [h6, beq_self_eq_true, Bool.true_and, decide_eq_true_eq]
  exact h5

/-- an id of KSUID shape satisfies every hypothesis the round-trip theorems put on ids -/
theorem C20_ksuidShape_valid (s : Str) (h : ksuidShape s) :
    noSlash s ∧ ksuidOK s = true ∧ '\n' ∉ s ∧ ¬ flSep <:+: s ∧ s ≠ [] := by
  have hk := C20_ksuidOK_of_shape s h
  obtain ⟨hl, ha, -⟩ := h
  have no (ch : Char) (hf : ch.isAlphanum = false) : ch ∉ s := by
    intro hm; rw [ha ch hm] at hf; exact absurd hf (by decide)
  refine ⟨no '/' (by decide), hk, no '\n' (by decide), not_infix_of_no_hyphen s (no '-' (by decide)), ?_⟩
  intro e; rw [e] at hl; simp at hl

/-! ### K. non-vacuity: the hypotheses are satisfiable, on the real shapes -/

def exampleArgs : PArgs :=
  { repo := "my-repo".toList, label := "v1_0".toList, bundle := "1INDVALGKfRIE64rYzMSZXJxvPK".toList,
    ctx := "dev".toList, diamond := "1INDVALGKfRIE64rYzMSZXJxvPK".toList, split := "split-a".toList,
    gen := "2BqcJ9XGGPX7MjZTZEYxAhZAxYr".toList, index := 2 ^ 64 - 1 }

example : ∀ k : Kind, k.valid exampleArgs := by
  intro k; cases k <;> decide +kernel

example : ksuidShape "2BqcJ9XGGPX7MjZTZEYxAhZAxYr".toList :=
  ⟨by decide +kernel, by decide +kernel, _, _, rfl, by decide +kernel⟩

example :
    Kind.build .splitFileList (Kind.args .splitFileList exampleArgs) =
      "diamonds/my-repo/1INDVALGKfRIE64rYzMSZXJxvPK/splits/split-a/2BqcJ9XGGPX7MjZTZEYxAhZAxYr/".toList ++
        Facts.splitFilesIndexPrefix ++ "18446744073709551615.yaml".toList := by
  decide +kernel

example : Kind.build .context (Kind.args .context exampleArgs) =
    "contexts/dev/".toList ++ Facts.contextDescriptorFile := by
  decide +kernel

example : validateRepo ⟨fun _ => false, fun _ => false⟩ "my-repo".toList "d".toList = true
    ∧ validateRepo ⟨fun _ => false, fun _ => false⟩ "my_repo".toList "d".toList = false
    ∧ validateLabel ⟨fun _ => false, fun _ => false⟩ "v1_0".toList "b".toList [] = true
    ∧ validateLabel ⟨fun _ => false, fun _ => false⟩ "a/b".toList "b".toList [] = false := by
  decide +kernel

example : isGenerated ".datamon/x".toList = true ∧ isGenerated "./.checkpoints".toList = true
    ∧ isGenerated ".datamonx".toList = false ∧ isGenerated "a/.conflicts/x".toList = false
    ∧ isGenerated "..conflicts".toList = false := by
  decide +kernel

example : parseConsumable (".datamon/1INDVALGKfRIE64rYzMSZXJxvPK-".toList ++ Facts.bundleFilesIndexPrefix ++
      "18446744073709551615.yaml".toList) =
    some (.list "1INDVALGKfRIE64rYzMSZXJxvPK".toList (2 ^ 64 - 1)) := by
  decide +kernel

/-- outside the domain the round trip does fail: a label name with a "/" parses back to other
    components (names are validated before they reach a path: `ValidateRepo`, `ValidateLabel`) -/
theorem C20_neg_slash_in_name :
    parseArchivePath (Kind.build .label [.s "r".toList, .s ("a/".toList ++ labelFile)]) =
      some { repo := "r".toList, labelName := "a".toList, archiveFileName := labelFile } := by
  decide +kernel

end Paths
