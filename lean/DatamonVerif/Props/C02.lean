import DatamonVerif.Lemmas.Cafs
import DatamonVerif.Generated.Facts
/-! C02 — object keys are a deterministic BLAKE2b tree hash of the content.

`H` is a parameter: with `H := BLAKE2b` (the driver's instantiation, compared with the Go code and
with the pinned testdata keys on every run) `specKey` IS the BLAKE2b unlimited-fanout tree-mode
root in datamon's layout. Collision-freeness appears only as explicit, local hypotheses. -/
namespace Cafs

/-- **key = specification**, for every chunking of the source and whatever the store held -/
theorem C02_key_spec (H : Hash) (crc : Bool) (L : Nat) (hL : 0 < L) (s : Store) (writes : List Bytes) :
    (put H crc L s writes).2.key = specKey H L writes.flatten := by
  have i1 := writes_inv L hL writes W.init [] (init_inv L hL)
  have l1 := leaves_eq_chunks L hL _ _ i1
  have k1 := keys_eq_leafKeysOf H L _ _ i1
  have e1 : (put H crc L s writes).2.key = rootKey H L ((writes.foldl (W.write L) W.init).keys H L) := rfl
  rw [e1, k1, l1]
  rfl

/-- the key depends only on content and leaf size: not on the chunking, the CRC capability of
    the store, nor on what the store already held -/
theorem C02_key_deterministic (H : Hash) (crc crc' : Bool) (L : Nat) (hL : 0 < L) (s s' : Store)
    (w w' : List Bytes) (h : w.flatten = w'.flatten) :
    (put H crc L s w).2.key = (put H crc' L s' w').2.key := by
  rw [C02_key_spec H crc L hL s w, C02_key_spec H crc' L hL s' w', h]

/-- the leaf keys returned by `Put` are the keys of the content's leaves in the on-disk layout -/
theorem C02_leafkeys_spec (H : Hash) (crc : Bool) (L : Nat) (hL : 0 < L) (s : Store) (writes : List Bytes) :
    (put H crc L s writes).2.keys = leafKeysOf H L (chunks L writes.flatten) := by
  have i1 := writes_inv L hL writes W.init [] (init_inv L hL)
  have l1 := leaves_eq_chunks L hL _ _ i1
  have k1 := keys_eq_leafKeysOf H L _ _ i1
  have e1 : (put H crc L s writes).2.keys = (writes.foldl (W.write L) W.init).keys H L := rfl
  rw [e1, k1, l1]
  rfl

/-! ### parallel flushes: completion order is irrelevant -/

theorem lookup_perm (k : Nat) (l l' : List (Nat × Bytes)) (hp : l.Perm l')
    (hd : l.Pairwise (fun a b => a.1 ≠ b.1)) : l.lookup k = l'.lookup k := by
  induction hp with
  | nil => rfl
  | cons x _ ih =>
    obtain ⟨a, b⟩ := x
    simp only [List.lookup_cons]
    rw [ih (List.pairwise_cons.mp hd).2]
  | swap x y l =>
    obtain ⟨xa, xb⟩ := x
    obtain ⟨ya, yb⟩ := y
    have hxy : ya ≠ xa := (List.pairwise_cons.mp hd).1 (xa, xb) (by simp)
    simp only [List.lookup_cons]
    by_cases h1 : k = ya
    · have h2 : ¬ k = xa := fun h2 => hxy (h1.symm.trans h2)
      have e1 : (k == ya) = true := by simpa using h1
      have e2 : (k == xa) = false := by simpa using h2
      simp only [e1, e2]
    · by_cases h2 : k = xa
      · have e1 : (k == ya) = false := by simpa using h1
        have e2 : (k == xa) = true := by simpa using h2
        simp only [e1, e2]
      · have e1 : (k == ya) = false := by simpa using h1
        have e2 : (k == xa) = false := by simpa using h2
        simp only [e1, e2]
  | trans h1 _ ih1 ih2 =>
    rw [ih1 hd, ih2 (h1.pairwise hd (fun h => Ne.symm h))]

/-- **flush concurrency**: `Flush` places every completed leaf by its count, so any arrival
    order (any permutation of the completions, counts being distinct) yields the same key list -/
theorem C02_flush_perm (n : Nat) (done done' : List (Nat × Bytes)) (hp : done.Perm done')
    (hd : done.Pairwise (fun a b => a.1 ≠ b.1)) : assemble n done = assemble n done' := by
  unfold assemble
  apply List.map_congr_left
  intro i _
  rw [lookup_perm (i + 1) done done' hp hd]

/-! ### stores: frame and idempotence -/

theorem get_cons_ne (s : Store) (k k' d : Bytes) (h : k' ≠ k) : Store.get ((k, d) :: s) k' = s.get k' := by
  unfold Store.get
  simp only [List.lookup_cons]
  have : (k' == k) = false := by simpa using h
  rw [this]

theorem get_cons_eq (s : Store) (k d : Bytes) : Store.get ((k, d) :: s) k = some d := by
  unfold Store.get; simp [List.lookup_cons]

/-- writing a blob never touches another key -/
theorem writeBlob_frame (crc : Bool) (s : Store) (k d k' : Bytes) (h : k' ≠ k) :
    (writeBlob crc s k d).get k' = s.get k' := by
  unfold writeBlob
  split
  · split
    · exact get_cons_ne s k k' d h
    · rfl
  · exact get_cons_ne s k k' d h

/-- a present, non-empty blob keeps its bytes unless the store reports a CRC and the bytes
    written under the same key differ (then the blob was damaged and is repaired) -/
theorem writeBlob_keeps (crc : Bool) (s : Store) (k d k' d' : Bytes) (hg : s.get k' = some d') (hne : d' ≠ [])
    (hc : k' = k → d' = d ∨ crc = false) :
    (writeBlob crc s k d).get k' = some d' := by
  by_cases hk : k' = k
  · subst hk
    unfold writeBlob
    rw [hg]
    rcases hc rfl with h | h
    · subst h
      by_cases hcond : d' = [] ∨ (crc = true ∧ d' ≠ d')
      · simp only [hcond, if_true]; exact get_cons_eq s k' d'
      · simp only [hcond, if_false]; exact hg
    · have : ¬ (d' = [] ∨ (crc = true ∧ d' ≠ d)) := by
        intro h'; cases h' with
        | inl h' => exact hne h'
        | inr h' => rw [h] at h'; exact absurd h'.1 (by simp)
      simp only [this, if_false]; exact hg
  · rw [writeBlob_frame crc s k d k' hk]; exact hg

/-- writing a blob that is already there with the same bytes changes nothing observable -/
theorem writeBlob_same (crc : Bool) (s : Store) (k d : Bytes) (hg : s.get k = some d) :
    ∀ k', (writeBlob crc s k d).get k' = s.get k' := by
  intro k'
  by_cases hk : k' = k
  · subst hk
    unfold writeBlob
    rw [hg]
    by_cases hcond : d = [] ∨ (crc = true ∧ d ≠ d)
    · simp only [hcond, if_true]; rw [get_cons_eq]
    · simp only [hcond, if_false]; exact hg
  · exact writeBlob_frame crc s k d k' hk

theorem writeBlobs_same (crc : Bool) (kvs : List (Bytes × Bytes)) :
    ∀ s : Store, (∀ kv ∈ kvs, s.get kv.1 = some kv.2) → ∀ k', (writeBlobs crc s kvs).get k' = s.get k' := by
  induction kvs with
  | nil => intro s _ k'; rfl
  | cons kv r ih =>
    intro s h k'
    obtain ⟨k, d⟩ := kv
    simp only [writeBlobs]
    have h1 := writeBlob_same crc s k d (h (k, d) (by simp))
    rw [ih (writeBlob crc s k d) (fun kv' hkv' => by rw [h1]; exact h kv' (by simp [hkv'])) k', h1]

/-- **storing content that is already present** returns the same key, reports a duplicate and
    leaves every object's bytes unchanged -/
theorem C02_put_idempotent (H : Hash) (crc : Bool) (L : Nat) (hL : 0 < L) (s : Store) (writes : List Bytes)
    (hpresent : ∀ kv ∈ ((put H crc L s writes).2.keys.zip (chunks L writes.flatten)), s.get kv.1 = some kv.2)
    (hroot : s.get (specKey H L writes.flatten) =
      some ((put H crc L s writes).2.keys.flatten ++ specKey H L writes.flatten)) :
    (put H crc L s writes).2.key = specKey H L writes.flatten ∧ (put H crc L s writes).2.found = true ∧
    ∀ k, (put H crc L s writes).1.get k = s.get k := by
  have hkey := C02_key_spec H crc L hL s writes
  have i1 := writes_inv L hL writes W.init [] (init_inv L hL)
  have l1 : (writes.foldl (W.write L) W.init).leaves = chunks L writes.flatten := leaves_eq_chunks L hL _ _ i1
  have ekeys : (put H crc L s writes).2.keys = (writes.foldl (W.write L) W.init).keys H L := rfl
  have ekey : (put H crc L s writes).2.key = rootKey H L ((writes.foldl (W.write L) W.init).keys H L) := rfl
  rw [ekeys] at hpresent hroot
  rw [ekey] at hkey
  have hs1 := writeBlobs_same crc (((writes.foldl (W.write L) W.init).keys H L).zip (writes.foldl (W.write L) W.init).leaves) s
    (by rw [l1]; exact hpresent)
  refine ⟨by rw [ekey]; exact hkey, ?_, ?_⟩
  · show ((writeBlobs crc s _).get (rootKey H L _)).isSome = true
    rw [hs1, hkey, hroot]; rfl
  · intro k
    show (writeBlob crc (writeBlobs crc s _) (rootKey H L _) _).get k = s.get k
    rw [writeBlob_same crc _ _ _ (by rw [hs1, hkey, hroot]), hs1]

/-- **frame**: a blob present before a `Put` (non-empty; on CRC stores: not a damaged copy of a
    blob being written) has the same bytes after it -/
theorem writeBlobs_keeps (crc : Bool) (kvs : List (Bytes × Bytes)) :
    ∀ (s : Store) (k' d' : Bytes), s.get k' = some d' → d' ≠ [] →
      (∀ kv ∈ kvs, k' = kv.1 → d' = kv.2 ∨ crc = false) → (writeBlobs crc s kvs).get k' = some d' := by
  induction kvs with
  | nil => intro s k' d' h _ _; exact h
  | cons kv r ih =>
    intro s k' d' h hne hc
    obtain ⟨k, d⟩ := kv
    simp only [writeBlobs]
    exact ih _ k' d' (writeBlob_keeps crc s k d k' d' h hne (hc (k, d) (by simp))) hne
      (fun kv' hkv' => hc kv' (by simp [hkv']))

theorem C02_put_frame (H : Hash) (crc : Bool) (L : Nat) (s : Store) (writes : List Bytes) (k' d' : Bytes)
    (hg : s.get k' = some d') (hne : d' ≠ [])
    (hvalid : crc = false ∨ ∀ d, d' = d ∨ ((k', d) ∉ ((put H crc L s writes).2.keys.zip (writes.foldl (W.write L) W.init).leaves)
        ∧ ¬ (k' = (put H crc L s writes).2.key ∧ d = (put H crc L s writes).2.keys.flatten ++ (put H crc L s writes).2.key))) :
    (put H crc L s writes).1.get k' = some d' := by
  show (writeBlob crc (writeBlobs crc s _) _ _).get k' = some d'
  apply writeBlob_keeps
  · apply writeBlobs_keeps crc _ s k' d' hg hne
    intro kv hkv hk
    rcases hvalid with h | h
    · right; exact h
    · rcases h kv.2 with h | h
      · left; exact h
      · exfalso; apply h.1
        have : kv = (k', kv.2) := by rw [hk]
        rw [← this]; exact hkv
  · exact hne
  · intro hk
    rcases hvalid with h | h
    · right; exact h
    · rcases h ((put H crc L s writes).2.keys.flatten ++ (put H crc L s writes).2.key) with h | h
      · left; exact h
      · exfalso; exact h.2 ⟨hk, rfl⟩

/-! ### different contents get different keys (under local no-collision hypotheses) -/

theorem leafKeysFrom_inj (H : Hash) (L : Nat) :
    ∀ (n n' i : Nat) (a b : List Bytes),
      (∀ p p' x y, x ∈ a → y ∈ b → H p x = H p' y → x = y) →
      a.length = b.length → leafKeysFrom H L n i a = leafKeysFrom H L n' i b → a = b := by
  intro n n' i a
  induction a generalizing i with
  | nil => intro b _ hl _; cases b with
    | nil => rfl
    | cons _ _ => simp at hl
  | cons x xs ih =>
    intro b hinj hl he
    cases b with
    | nil => simp at hl
    | cons y ys =>
      simp only [leafKeysFrom, List.cons.injEq] at he
      have hxy := hinj _ _ x y (by simp) (by simp) he.1
      have := ih (i + 1) ys (fun p p' u v hu hv => hinj p p' u v (by simp [hu]) (by simp [hv]))
        (by simpa using hl) he.2
      rw [hxy, this]

theorem flatten_inj_of_len (a b : List Bytes) (ha : ∀ x ∈ a, x.length = keySize) (hb : ∀ x ∈ b, x.length = keySize)
    (h : a.flatten = b.flatten) : a = b := by
  induction a generalizing b with
  | nil =>
    cases b with
    | nil => rfl
    | cons y ys =>
      have := hb y (by simp)
      simp only [List.flatten_nil, List.flatten_cons] at h
      have h0 : (y ++ ys.flatten).length = 0 := by rw [← h]; rfl
      rw [List.length_append, this] at h0
      simp only [keySize] at h0; omega
  | cons x xs ih =>
    cases b with
    | nil =>
      have := ha x (by simp)
      simp only [List.flatten_nil, List.flatten_cons] at h
      have h0 : (x ++ xs.flatten).length = 0 := by rw [h]; rfl
      rw [List.length_append, this] at h0
      simp only [keySize] at h0; omega
    | cons y ys =>
      simp only [List.flatten_cons] at h
      have hx := ha x (by simp)
      have hy := hb y (by simp)
      have := List.append_inj h (by rw [hx, hy])
      rw [this.1, ih ys (fun u hu => ha u (by simp [hu])) (fun u hu => hb u (by simp [hu])) this.2]

/-- **injectivity**: if no two leaves of the two contents collide under `H`, the root hash does
    not collide on the two key lists, and keys have the fixed size, equal keys mean equal contents -/
theorem C02_key_injective (H : Hash) (L : Nat) (hL : 0 < L) (c1 c2 : Bytes)
    (hlen : ∀ p b, (H p b).length = keySize)
    (hleaf : ∀ p p' x y, x ∈ chunks L c1 → y ∈ chunks L c2 → H p x = H p' y → x = y)
    (hroot : rootKey H L (leafKeysOf H L (chunks L c1)) = rootKey H L (leafKeysOf H L (chunks L c2)) →
      (leafKeysOf H L (chunks L c1)).flatten = (leafKeysOf H L (chunks L c2)).flatten)
    (h : specKey H L c1 = specKey H L c2) : c1 = c2 := by
  have hflat := hroot h
  have klen : ∀ (n i : Nat) (cs : List Bytes), ∀ x ∈ leafKeysFrom H L n i cs, x.length = keySize := by
    intro n i cs
    induction cs generalizing i with
    | nil => intro x hx; simp [leafKeysFrom] at hx
    | cons c r ih =>
      intro x hx
      simp only [leafKeysFrom, List.mem_cons] at hx
      rcases hx with rfl | hx
      · exact hlen _ _
      · exact ih (i + 1) x hx
  have hkeys := flatten_inj_of_len _ _ (klen _ 0 (chunks L c1)) (klen _ 0 (chunks L c2)) hflat
  have hlens : (chunks L c1).length = (chunks L c2).length := by
    have e1 : ∀ (n i : Nat) (cs : List Bytes), (leafKeysFrom H L n i cs).length = cs.length := by
      intro n i cs; induction cs generalizing i with
      | nil => rfl
      | cons c r ih => simp [leafKeysFrom, ih]
    have := congrArg List.length hkeys
    unfold leafKeysOf at this
    rwa [e1, e1] at this
  have hch := leafKeysFrom_inj H L _ _ 0 (chunks L c1) (chunks L c2) hleaf hlens hkeys
  rw [← flatten_chunks L hL c1, ← flatten_chunks L hL c2, hch]

/-- the tree parameters the model's `H` is instantiated with (driver: fanout 0, depth 2, inner
    size 64, leaf node depth 0 with the node offset and last-node flag passed in, root node depth 1
    offset 0 last-node) are the ones written in `pkg/cafs/hasher.go` NOW, and the leaf-size bounds
    are the ones the generators use (regenerated facts) -/
theorem C02_facts :
    Facts.cafsRootTree = "Fanout=0;MaxDepth=2;LeafSize=leafSize;NodeOffset=0;NodeDepth=1;InnerHashSize=blake2b.Size;IsLastNode=true" ∧
    Facts.cafsLeafTree = "Fanout=0;MaxDepth=2;LeafSize=leafSize;NodeOffset=n;NodeDepth=0;InnerHashSize=blake2b.Size;IsLastNode=isLastNode" ∧
    Facts.cafsMaxLeafSize = 5 * 1024 * 1024 ∧ Facts.cafsDefaultLeafSize = 2 * 1024 * 1024 ∧ rootParams 64 = ⟨64, 0, 1, true⟩ := by
  refine ⟨rfl, rfl, by decide, by decide, rfl⟩

/-- non-vacuity of the completion-order theorem -/
example : assemble 3 [(2, [2]), (3, [3]), (1, [1])] = [[1], [2], [3]] := by decide

end Cafs
