import DatamonVerif.Props.C01
import DatamonVerif.Generated.Facts
/-! C03 — reads never return corrupted content as if it were valid.

The store `s` below is ARBITRARY: it stands for the blob store after any damage whatsoever (bit
flips, truncation, emptied, swapped or missing blobs — or anything else). The theorems say that a
verified read either fails or returns exactly the stored content. The cryptographic assumption is
an explicit, local hypothesis `NoSecondPreimage`: no other byte string hashes (under the leaf's
parameters) to the key of leaf `i`. -/
namespace Cafs

/-- no byte string other than the stored leaf hashes to the leaf's key -/
def NoSecondPreimage (H : Hash) (L : Nat) (keys : List Bytes) (cs : List Bytes) : Prop :=
  ∀ i (h : i < cs.length) (b : Bytes), keys[i]? = some (H (leafParams L keys.length i b) b) → b = cs[i]

/-- a verified fetch returns a preimage of the key -/
theorem fetch_verified (H : Hash) (L : Nat) (s : Store) (keys : List Bytes) (i : Nat) (b : Bytes)
    (h : fetchLeaf H true L s keys i = .ok b) : keys[i]? = some (H (leafParams L keys.length i b) b) := by
  unfold fetchLeaf at h
  split at h
  · simp at h
  · rename_i k hk
    split at h
    · simp at h
    · rename_i b' _
      split at h
      · simp at h
      · rename_i hv
        simp only [Except.ok.injEq] at h
        subst h
        simp only [Bool.true_and, bne_iff_ne, ne_eq, Decidable.not_not] at hv
        rw [hk, hv]

/-- **every verified leaf is the stored leaf**, whatever the store contains -/
theorem C03_fetch_sound (H : Hash) (L : Nat) (s : Store) (keys cs : List Bytes) (hlen : keys.length = cs.length)
    (hnsp : NoSecondPreimage H L keys cs) (i : Nat) (b : Bytes)
    (h : fetchLeaf H true L s keys i = .ok b) : ∃ hi : i < cs.length, b = cs[i] := by
  have hk := fetch_verified H L s keys i b h
  have hi : i < cs.length := by
    rw [← hlen]
    by_cases hcon : i < keys.length
    · exact hcon
    · have : keys[i]? = none := List.getElem?_eq_none (by omega)
      rw [this] at hk; simp at hk
  exact ⟨hi, hnsp i hi b hk⟩

/-- the ideal fetch: leaf `i` of the stored content -/
def goodFetch (cs : List Bytes) (i : Nat) : Except RErr Bytes :=
  if h : i < cs.length then .ok cs[i] else .error .notfound

theorem serves_good (cs : List Bytes) : Serves (goodFetch cs) cs := by
  intro i h; simp [goodFetch, h]

/-- a read loop over ANY fetch function that only ever returns stored leaves, when it succeeds,
    returns what the loop over the ideal fetch returns -/
theorem readAtLoop_mono (fetch : Nat → Except RErr Bytes) (cs : List Bytes)
    (hf : ∀ i b, fetch i = .ok b → goodFetch cs i = .ok b) (nkeys : Nat) :
    ∀ fuel index offset need bs, readAtLoop fetch nkeys fuel index offset need = .ok bs →
      readAtLoop (goodFetch cs) nkeys fuel index offset need = .ok bs := by
  intro fuel
  induction fuel with
  | zero => intro index offset need bs h; simpa [readAtLoop] using h
  | succ f ih =>
    intro index offset need bs h
    simp only [readAtLoop] at h ⊢
    cases hfe : fetch index with
    | error e => rw [hfe] at h; simp at h
    | ok leaf =>
      rw [hfe] at h
      rw [hf index leaf hfe]
      simp only at h ⊢
      split at h
      · rename_i hc; simp only [hc, if_true]; exact h
      · rename_i hc
        simp only [hc, if_false]
        cases hrec : readAtLoop fetch nkeys f (index + 1) 0 (need - ((leaf.drop offset).take need).length) with
        | error e => rw [hrec] at h; simp at h
        | ok rest =>
          rw [hrec] at h
          rw [ih _ _ _ _ hrec]
          exact h

theorem readStream_mono (H : Hash) (L : Nat) (s : Store) (keys cs : List Bytes)
    (hf : ∀ i b, fetchLeaf H true L s keys i = .ok b → goodFetch cs i = .ok b) :
    ∀ fuel i bs, readStream H true L s keys fuel i = .ok bs →
      bs = ((cs.drop i).take (min fuel (keys.length - i))).flatten := by
  intro fuel
  induction fuel with
  | zero => intro i bs h; simp [readStream] at h; simp [h]
  | succ f ih =>
    intro i bs h
    simp only [readStream] at h
    by_cases hi : i ≥ keys.length
    · simp only [hi, if_true, Except.ok.injEq] at h
      have : keys.length - i = 0 := by omega
      simp [← h, this]
    · simp only [hi, if_false] at h
      cases hfe : fetchLeaf H true L s keys i with
      | error e => rw [hfe] at h; simp at h
      | ok leaf =>
        rw [hfe] at h
        have hg := hf i leaf hfe
        unfold goodFetch at hg
        split at hg
        · rename_i hic
          simp only [Except.ok.injEq] at hg
          cases hrec : readStream H true L s keys f (i + 1) with
          | error e => rw [hrec] at h; simp at h
          | ok rest =>
            rw [hrec] at h
            simp only [Except.ok.injEq] at h
            have := ih (i + 1) rest hrec
            rw [← h, this, ← hg]
            have hm : min (f + 1) (keys.length - i) = min f (keys.length - (i + 1)) + 1 := by omega
            rw [hm, List.drop_eq_getElem_cons hic, List.take_succ_cons, List.flatten_cons]
        · simp at hg

/-- **random access under arbitrary damage**: an error, or exactly the requested bytes -/
theorem C03_readAt_sound (H : Hash) (L : Nat) (hL : 0 < L) (s : Store) (c : Bytes) (keys : List Bytes)
    (hlen : keys.length = (chunks L c).length) (hnsp : NoSecondPreimage H L keys (chunks L c))
    (off n : Nat) (bs : Bytes) (h : readAt H true L s keys off n = .ok bs) :
    bs = (c.drop off).take n := by
  have hf : ∀ i b, fetchLeaf H true L s keys i = .ok b → goodFetch (chunks L c) i = .ok b := by
    intro i b hb
    obtain ⟨hi, e⟩ := C03_fetch_sound H L s keys (chunks L c) hlen hnsp i b hb
    simp [goodFetch, hi, e]
  have hL0 : L ≠ 0 := by omega
  unfold readAt at h
  simp only [hL0, if_false] at h
  by_cases hidx : off / L ≥ keys.length
  · simp only [hidx, if_true, Except.ok.injEq] at h
    have h1 := length_flatten_le L (chunks L c) (chunks_len_le L hL c)
    rw [flatten_chunks L hL c] at h1
    have : c.length ≤ off := by
      have h2' : keys.length * L ≤ off / L * L := Nat.mul_le_mul_right L hidx
      have h3 : off / L * L ≤ off := Nat.div_mul_le_self off L
      rw [hlen] at h2'; omega
    rw [List.drop_eq_nil_of_le this, ← h]; simp
  · simp only [hidx, if_false] at h
    -- the same loop over the ideal fetch succeeds with the same bytes, and returns the slice (C01)
    have h2 := readAtLoop_mono _ (chunks L c) hf _ _ _ _ _ _ h
    have hi : off / L < (chunks L c).length := by omega
    rw [hlen, readAtLoop_ok _ L (chunks L c) (serves_good _) (shape_chunks L hL c) _ _ _ _ hi (by omega) (Nat.mod_lt _ hL)] at h2
    rw [← flatten_drop_full L (chunks L c) (shape_chunks L hL c) _ hi, flatten_chunks L hL c, List.drop_drop] at h2
    have : off / L * L + off % L = off := by rw [Nat.mul_comm]; exact Nat.div_add_mod off L
    rw [this] at h2
    simp only [Except.ok.injEq] at h2
    exact h2.symm

/-- **sequential reads under arbitrary damage**: the stream as a whole fails, or it is exactly
    the stored content -/
theorem C03_readAll_sound (H : Hash) (L : Nat) (hL : 0 < L) (s : Store) (c : Bytes) (keys : List Bytes)
    (hlen : keys.length = (chunks L c).length) (hnsp : NoSecondPreimage H L keys (chunks L c))
    (bs : Bytes) (h : readAll H true L s keys = .ok bs) : bs = c := by
  have hf : ∀ i b, fetchLeaf H true L s keys i = .ok b → goodFetch (chunks L c) i = .ok b := by
    intro i b hb
    obtain ⟨hi, e⟩ := C03_fetch_sound H L s keys (chunks L c) hlen hnsp i b hb
    simp [goodFetch, hi, e]
  have := readStream_mono H L s keys (chunks L c) hf keys.length 0 bs h
  rw [this]
  simp only [Nat.sub_zero, Nat.min_self, List.drop_zero]
  rw [hlen, List.take_length, flatten_chunks L hL c]

/-- the root blob: a blob that passes `verifiedKeys` is self-consistent (its last key is the root
    hash of the others) — so a single altered key is accepted only on a root-hash collision -/
theorem C03_root_selfconsistent (H : Hash) (L : Nat) (blob : Bytes) (ks : List Bytes)
    (h : verifiedKeys H L blob = .ok ks) : rootKey H L ks = blob.drop (blob.length - keySize) := by
  unfold verifiedKeys at h
  split at h
  · simp at h
  · simp only at h
    split at h
    · simp at h
    · split at h
      · rename_i hk; simp only [Except.ok.injEq] at h; rw [← h]; exact hk
      · simp at h

/-- every reader path of `pkg/cafs/reader.go` (sequential Read, ReadAt/prefetch, WriteTo into a
    WriterAt) applies the short-last-leaf verification convention that `fetchLeaf` models
    (regenerated fact: three sites) -/
theorem C03_facts : Facts.cafsVerifyConventionSites = 3 := by decide

/-- a toy hash for witnesses: parameters and length are part of the digest -/
def toyH : Hash := fun p b => [UInt8.ofNat p.off, UInt8.ofNat b.length] ++ b

/-- negation witness for the UNVERIFIED path (what `WriteTo` into a `WriterAt` did before the
    repair): without verification a damaged leaf is returned as if valid; with verification it
    is rejected, and the undamaged one accepted -/
theorem C03_neg_unverified :
    (match fetchLeaf toyH false 2 [([1, 2, 7, 7], [9, 9])] [[1, 2, 7, 7]] 0 with | .ok b => b == [9, 9] | .error _ => false) = true ∧
    (match fetchLeaf toyH true 2 [([1, 2, 7, 7], [9, 9])] [[1, 2, 7, 7]] 0 with | .ok _ => false | .error _ => true) = true ∧
    (match fetchLeaf toyH true 2 [([1, 2, 7, 7], [7, 7])] [[1, 2, 7, 7]] 0 with | .ok b => b == [7, 7] | .error _ => false) = true := by
  decide

end Cafs
