import DatamonVerif.Model.List
import DatamonVerif.Generated.Facts
/-!
# C07 — listings are complete, exact and ordered

Theorems about `Model/List.lean` (the code after the two `fix:` commits), for EVERY store content,
page size `n ≥ 1` and completion order of the parallel fetches:

* `C07_fetch_complete` — the `fetchKeys` page loop returns every item exactly once, in order;
* `C07_repos/bundles/labels/diamonds/splits_complete_exact` — `ListX` and `ListXApply` return,
  as a multiset, exactly the existing objects of the kind (`C07_prefix_selects_repo`,
  `C07_other_repo_excluded`: nothing of a repository whose name extends the one asked for;
  `C07_missing_notfound`: an unknown repository is an error, not an empty list);
* `C07_full_ordered`, `C07_bundles_ordered` — `ListRepos/ListLabels/ListDiamonds/ListSplits` are
  sorted by the kind's sort field, `ListBundles(Apply)` by id, for every page size;
* `C07_list_perm` — the completion order of the fetches does not matter (up to ties);
* `C07_apply_ordered_iff` + `C07_neg_apply_order_depends_on_page_size` — the streaming variants are
  ordered iff no batch boundary is out of order (known finding `C07-apply-order`);
* `C07_neg_old_early_stop`, `C07_neg_old_order_depends_on_page_size` — what the code did before the fixes;
* `C07_restrict` — a listing only depends on the slice of the store under its prefix;
* `C07_facts_paths`, `C07_facts_calls` — facts regenerated from the Go sources on every run.
-/
namespace Listing

/-! ## order on keys (character lists): the lemmas of `String`, transported through `String.ofList` -/
namespace KO
theorem lt_iff_str {a b : List Char} : a < b ↔ String.ofList a < String.ofList b := by
  rw [String.lt_iff, String.toList_ofList, String.toList_ofList]
theorem le_iff_str {a b : List Char} : a ≤ b ↔ String.ofList a ≤ String.ofList b := by
  rw [← String.not_lt, ← lt_iff_str]; exact Iff.rfl
theorem lt_trans {a b c : List Char} (h1 : a < b) (h2 : b < c) : a < c :=
  lt_iff_str.mpr (String.lt_trans (lt_iff_str.mp h1) (lt_iff_str.mp h2))
theorem lt_irrefl (a : List Char) : ¬ a < a := fun h => String.lt_irrefl _ (lt_iff_str.mp h)
theorem lt_asymm {a b : List Char} (h : a < b) : ¬ b < a :=
  fun h2 => String.lt_asymm (lt_iff_str.mp h) (lt_iff_str.mp h2)
theorem not_lt {a b : List Char} : ¬ a < b ↔ b ≤ a := Iff.rfl
theorem not_le {a b : List Char} : ¬ a ≤ b ↔ b < a := Decidable.not_not
theorem le_refl (a : List Char) : a ≤ a := lt_irrefl a
theorem le_total (a b : List Char) : a ≤ b ∨ b ≤ a := by
  rw [le_iff_str, le_iff_str]; exact String.le_total _ _
theorem le_trans {a b c : List Char} (h1 : a ≤ b) (h2 : b ≤ c) : a ≤ c :=
  le_iff_str.mpr (String.le_trans (le_iff_str.mp h1) (le_iff_str.mp h2))
theorem le_antisymm {a b : List Char} (h1 : a ≤ b) (h2 : b ≤ a) : a = b := by
  have := String.le_antisymm (le_iff_str.mp h1) (le_iff_str.mp h2)
  have h3 := congrArg String.toList this
  simpa [String.toList_ofList] using h3
theorem ne_of_lt {a b : List Char} (h : a < b) : a ≠ b := fun e => lt_irrefl a (e ▸ h)
end KO

/-! ## A. the page loop returns every item, for every page size -/

theorem filter_ge_suffix (pre s : List Key) (a : Key) (h : Sorted (pre ++ a :: s)) :
    (pre ++ a :: s).filter (fun k => decide (a ≤ k)) = a :: s := by
  have hp := List.pairwise_append.mp h
  obtain ⟨_, hs, hcross⟩ := hp
  rw [List.filter_append]
  have h1 : pre.filter (fun k => decide (a ≤ k)) = [] := by
    apply List.filter_eq_nil_iff.mpr
    intro x hx
    have : x < a := hcross x hx a (by simp)
    simp only [decide_eq_true_eq]
    exact KO.not_le.mpr this
  have h2 : (a :: s).filter (fun k => decide (a ≤ k)) = a :: s := by
    apply List.filter_eq_self.mpr
    intro x hx
    simp only [decide_eq_true_eq]
    rcases List.mem_cons.mp hx with rfl | hx
    · exact KO.le_refl _
    · have := (List.pairwise_cons.mp hs).1 x hx
      exact KO.not_lt.mp (KO.lt_asymm this)
  rw [h1, h2]; rfl

theorem fetchPages_suffix (items : List Key) (count : Nat) (hc : 0 < count)
    (hne : ∀ k ∈ items, k ≠ []) (hs : Sorted items) :
    ∀ (n : Nat) (pre s : List Key) (a : Key), items = pre ++ a :: s → (a :: s).length ≤ n →
      (fetchPages items count n a).flatten = a :: s := by
  intro n
  induction n with
  | zero => intro pre s a _ hl; simp at hl
  | succ n ih =>
    intro pre s a hk hl
    have hf := filter_ge_suffix pre s a (hk ▸ hs)
    unfold fetchPages
    simp only [page, hk, hf]
    have htake : ((a :: s).take count).isEmpty = false := by
      cases count with
      | zero => omega
      | succ c => simp
    simp only [htake, Bool.false_eq_true, if_false]
    cases hd : (a :: s).drop count with
    | nil =>
      simp only [List.headD_nil, if_true]
      have : (a :: s).take count = a :: s := by
        have := List.take_append_drop count (a :: s)
        rw [hd] at this; simpa using this
      simp [this]
    | cons b t =>
      have hb : b ≠ [] := hne b (by
        rw [hk]; apply List.mem_append_right
        have : b ∈ (a :: s).drop count := by rw [hd]; simp
        exact List.mem_of_mem_drop this)
      simp only [List.headD_cons, hb, if_false]
      have hsplit : items = (pre ++ (a :: s).take count) ++ b :: t := by
        rw [hk, List.append_assoc, ← hd, List.take_append_drop]
      have hlen : (b :: t).length ≤ n := by
        have h1 : ((a :: s).drop count).length = (a :: s).length - count := List.length_drop
        rw [hd] at h1
        omega
      have := ih (pre ++ (a :: s).take count) t b hsplit hlen
      rw [hk] at this
      rw [List.flatten_cons, this, ← hd, List.take_append_drop]

/-- **pagination is complete**: whatever the page size `count ≥ 1`, the pages returned by the
    `fetchKeys` loop, concatenated, are exactly the items of the store (each once, in order). -/
theorem C07_fetch_complete (items : List Key) (count : Nat) (hc : 0 < count)
    (hne : ∀ k ∈ items, k ≠ []) (hs : Sorted items) :
    (fetchPages items count (items.length + 1) []).flatten = items := by
  cases items with
  | nil => simp [fetchPages, page]
  | cons a s =>
    have hall : (a :: s).filter (fun k => decide (([] : Key) ≤ k)) = a :: s := by
      apply List.filter_eq_self.mpr
      intro x _; simp only [decide_eq_true_eq]
      exact KO.not_lt.mp (by
        intro h
        simp at h)
    have hsame : page (a :: s) [] count = page (a :: s) a count := by
      have h2 := filter_ge_suffix [] s a (by simpa using hs)
      simp only [List.nil_append] at h2
      simp only [page, hall, h2]
    have key := fetchPages_suffix (a :: s) count hc hne hs ((a :: s).length + 1) [] s a (by simp) (by simp)
    unfold fetchPages at key ⊢
    simp only [hsame]
    exact key

/-! ## B. `sort.Sort`: sorted, and a permutation -/

theorem insertBy_perm (le : α → α → Bool) (x : α) (l : List α) : (insertBy le x l).Perm (x :: l) := by
  induction l with
  | nil => simp [insertBy]
  | cons a l ih =>
    unfold insertBy
    split
    · exact List.Perm.refl _
    · exact (List.Perm.cons a ih).trans (List.Perm.swap x a l)

theorem isort_perm (le : α → α → Bool) (l : List α) : (isort le l).Perm l := by
  induction l with
  | nil => simp [isort]
  | cons a l ih =>
    have : isort le (a :: l) = insertBy le a (isort le l) := rfl
    rw [this]
    exact (insertBy_perm le a _).trans (List.Perm.cons a ih)

theorem insertBy_sorted (le : α → α → Bool) (htot : ∀ a b, le a b = true ∨ le b a = true)
    (htr : ∀ a b c, le a b = true → le b c = true → le a c = true) (x : α) (l : List α)
    (h : l.Pairwise (fun a b => le a b = true)) : (insertBy le x l).Pairwise (fun a b => le a b = true) := by
  induction l with
  | nil => simp [insertBy]
  | cons a l ih =>
    unfold insertBy
    have ha := List.pairwise_cons.mp h
    split
    · rename_i hxa
      apply List.pairwise_cons.mpr
      refine ⟨?_, h⟩
      intro b hb
      rcases List.mem_cons.mp hb with rfl | hb
      · exact hxa
      · exact htr _ _ _ hxa (ha.1 b hb)
    · rename_i hxa
      have hax : le a x = true := by
        rcases htot x a with h1 | h1
        · exact absurd h1 hxa
        · exact h1
      apply List.pairwise_cons.mpr
      refine ⟨?_, ih ha.2⟩
      intro b hb
      have := (insertBy_perm le x l).mem_iff.mp hb
      rcases List.mem_cons.mp this with rfl | hb
      · exact hax
      · exact ha.1 b hb

theorem isort_sorted (le : α → α → Bool) (htot : ∀ a b, le a b = true ∨ le b a = true)
    (htr : ∀ a b c, le a b = true → le b c = true → le a c = true) (l : List α) :
    (isort le l).Pairwise (fun a b => le a b = true) := by
  induction l with
  | nil => simp [isort]
  | cons a l ih =>
    have : isort le (a :: l) = insertBy le a (isort le l) := rfl
    rw [this]
    exact insertBy_sorted le htot htr a _ ih

theorem skLe_iff (a b : SK) : skLe a b = true ↔ (a.1 < b.1 ∨ (a.1 = b.1 ∧ a.2 ≤ b.2)) := by
  simp [skLe]

theorem skLe_total (a b : SK) : skLe a b = true ∨ skLe b a = true := by
  rw [skLe_iff, skLe_iff]
  rcases Nat.lt_trichotomy a.1 b.1 with h | h | h
  · exact Or.inl (Or.inl h)
  · rcases KO.le_total a.2 b.2 with h2 | h2
    · exact Or.inl (Or.inr ⟨h, h2⟩)
    · exact Or.inr (Or.inr ⟨h.symm, h2⟩)
  · exact Or.inr (Or.inl h)

theorem skLe_trans (a b c : SK) (h1 : skLe a b = true) (h2 : skLe b c = true) : skLe a c = true := by
  rw [skLe_iff] at *
  rcases h1 with h1 | ⟨h1, h1'⟩ <;> rcases h2 with h2 | ⟨h2, h2'⟩
  · exact Or.inl (Nat.lt_trans h1 h2)
  · exact Or.inl (h2 ▸ h1)
  · exact Or.inl (h1 ▸ h2)
  · exact Or.inr ⟨h1.trans h2, KO.le_trans h1' h2'⟩

theorem skLe_antisymm (a b : SK) (h1 : skLe a b = true) (h2 : skLe b a = true) : a = b := by
  rw [skLe_iff] at *
  rcases h1 with h1 | ⟨h1, h1'⟩ <;> rcases h2 with h2 | ⟨h2, h2'⟩
  · omega
  · omega
  · omega
  · exact Prod.ext h1 (KO.le_antisymm h1' h2')

theorem entLe_total (a b : Entry) : entLe a b = true ∨ entLe b a = true := skLe_total _ _
theorem entLe_trans (a b c : Entry) : entLe a b = true → entLe b c = true → entLe a c = true := skLe_trans _ _ _

/-- sortedness by the kind's sort field -/
def SortedBySk (l : List Entry) : Prop := l.Pairwise (fun a b => entLe a b = true)

theorem isort_entLe_sorted (l : List Entry) : SortedBySk (isort entLe l) :=
  isort_sorted entLe entLe_total entLe_trans l

theorem sortedBySk_iff (l : List Entry) : sortedBySk l = true ↔ SortedBySk l := by
  induction l with
  | nil => simp [sortedBySk, SortedBySk]
  | cons a l ih =>
    simp only [sortedBySk, Bool.and_eq_true, List.all_eq_true, SortedBySk, List.pairwise_cons]
    exact and_congr Iff.rfl ih

/-- two lists sorted by the sort field that are permutations of each other show the same sequence
    of sort fields (they can differ only inside runs of equal fields). -/
theorem sorted_perm_sk_eq (l1 l2 : List Entry) (h1 : SortedBySk l1) (h2 : SortedBySk l2) (hp : l1.Perm l2) :
    l1.map sk = l2.map sk := by
  apply List.Perm.eq_of_pairwise (le := fun a b => skLe a b = true)
  · intro a b _ _ hab hba; exact skLe_antisymm a b hab hba
  · exact List.pairwise_map.mpr h1
  · exact List.pairwise_map.mpr h2
  · exact hp.map sk

/-! ## C. stores, `resolve`, and the stream of a listing as a multiset -/

theorem sorted_nodup {l : List Key} (h : Sorted l) : l.Nodup :=
  List.Pairwise.imp (fun hab => KO.ne_of_lt hab) h

theorem mem_of_lookup {st : Store} {k : Key} {d : Desc} (h : lookup st k = some d) : (k, d) ∈ st := by
  induction st with
  | nil => simp [lookup] at h
  | cons e rest ih =>
    unfold lookup at h
    split at h
    · rename_i hk
      cases h
      exact List.mem_cons.mpr (Or.inl (by rw [← hk]))
    · exact List.mem_cons_of_mem _ (ih h)

theorem lookup_of_mem {st : Store} (hn : (keysOf st).Nodup) {k : Key} {d : Desc} (h : (k, d) ∈ st) :
    lookup st k = some d := by
  induction st with
  | nil => simp at h
  | cons e rest ih =>
    have hn' : e.1 ∉ keysOf rest ∧ (keysOf rest).Nodup := List.nodup_cons.mp hn
    unfold lookup
    rcases List.mem_cons.mp h with rfl | hr
    · simp
    · have hne : e.1 ≠ k := by
        intro he
        apply hn'.1
        rw [he]
        exact List.mem_map.mpr ⟨(k, d), hr, rfl⟩
      simp only [hne, if_false]
      exact ih hn'.2 hr

theorem lookup_isSome_iff {st : Store} {k : Key} : (lookup st k).isSome = true ↔ k ∈ keysOf st := by
  induction st with
  | nil => simp [lookup, keysOf]
  | cons e rest ih =>
    unfold lookup
    by_cases he : e.1 = k
    · simp [he, keysOf]
    · simp only [he, if_false, ih, keysOf, List.map_cons, List.mem_cons]
      constructor
      · intro h; exact Or.inr h
      · intro h; rcases h with h | h
        · exact absurd h.symm he
        · exact h

theorem mem_resolve {st : Store} {res : Key → Key} {b : List Key} {e : Entry} :
    e ∈ resolve st res b ↔ ∃ k ∈ b, res k = e.1 ∧ lookup st e.1 = some e.2 := by
  unfold resolve
  simp only [List.mem_filterMap, Option.map_eq_some_iff]
  constructor
  · rintro ⟨k, hk, d, hd, rfl⟩
    exact ⟨k, hk, rfl, hd⟩
  · rintro ⟨k, hk, hr, hl⟩
    exact ⟨k, hk, e.2, by rw [hr]; exact hl, by rw [hr]⟩

theorem filterMap_eq_self_of {f : α → Option α} {l : List α} (h : ∀ x ∈ l, f x = some x) :
    l.filterMap f = l := by
  induction l with
  | nil => rfl
  | cons a l ih =>
    rw [List.filterMap_cons, h a (List.mem_cons_self)]
    simp only
    rw [ih (fun x hx => h x (List.mem_cons_of_mem _ hx))]

/-- reading back the store's own keys gives the store's own entries -/
theorem resolve_id_filter (st : Store) (hn : (keysOf st).Nodup) (p : Key → Bool) :
    resolve st id ((keysOf st).filter p) = st.filter (fun e => p e.1) := by
  have h1 : (keysOf st).filter p = (st.filter (fun e => p e.1)).map (·.1) := by
    unfold keysOf
    rw [List.filter_map]
    rfl
  rw [h1]
  unfold resolve
  rw [List.filterMap_map]
  have h2 : ∀ e ∈ st.filter (fun e => p e.1),
      ((fun k => (lookup st (id k)).map fun d => (id k, d)) ∘ (·.1)) e = some e := by
    intro e he
    have hm : e ∈ st := (List.mem_filter.mp he).1
    simp only [Function.comp, id]
    rw [lookup_of_mem hn (k := e.1) (d := e.2) hm]
    rfl
  exact filterMap_eq_self_of h2

theorem resolve_flatten (st : Store) (res : Key → Key) (bs : List (List Key)) :
    resolve st res bs.flatten = (bs.map (resolve st res)).flatten := by
  induction bs with
  | nil => simp [resolve]
  | cons b bs ih =>
    simp only [List.flatten_cons, List.map_cons]
    rw [← ih]
    unfold resolve
    rw [List.filterMap_append]

/-- a scheduler of the parallel fetch only permutes the batch -/
def IsSched (sched : Sched) : Prop := ∀ l, (sched l).Perm l

theorem fetchBatch_perm (st : Store) (res : Key → Key) (sched : Sched) (hs : IsSched sched) (b : List Key) :
    (fetchBatch st res sched b).Perm (resolve st res b) :=
  (isort_perm _ _).trans (hs _)

/-- as a multiset, the stream of a listing is what the batches resolve to -/
theorem stream_perm (st : Store) (res : Key → Key) (sched : Sched) (hs : IsSched sched) (bs : List (List Key)) :
    (stream st res sched bs).Perm (resolve st res bs.flatten) := by
  rw [resolve_flatten]
  unfold stream
  induction bs with
  | nil => simp
  | cons b bs ih =>
    simp only [List.map_cons, List.flatten_cons]
    exact List.Perm.append (fetchBatch_perm st res sched hs b) ih

/-- `fetchKeys` with a filter hands over, in order, exactly the items that pass the filter -/
theorem fetchBatches_flatten (items : List Key) (n : Nat) (hn : 0 < n) (filt : Key → Bool)
    (hne : ∀ k ∈ items, k ≠ []) (hs : Sorted items) :
    (fetchBatches items n filt).flatten = items.filter filt := by
  unfold fetchBatches
  rw [← List.filter_flatten, C07_fetch_complete items n hn hne hs]

theorem fetchBatches_flatten_all (items : List Key) (n : Nat) (hn : 0 < n)
    (hne : ∀ k ∈ items, k ≠ []) (hs : Sorted items) :
    (fetchBatches items n (fun _ => true)).flatten = items := by
  rw [fetchBatches_flatten items n hn _ hne hs]
  simp

/-! ## D. prefixes: a listing of `kind/<repo>/` sees that repository only -/

theorem hasPrefix_iff {p k : Key} : hasPrefix p k = true ↔ ∃ x, k = p ++ x := by
  unfold hasPrefix
  rw [List.isPrefixOf_iff_prefix]
  constructor
  · rintro ⟨t, ht⟩; exact ⟨t, ht.symm⟩
  · rintro ⟨t, ht⟩; exact ⟨t, ht.symm⟩

theorem hasPrefix_append (p x : Key) : hasPrefix p (p ++ x) = true :=
  hasPrefix_iff.mpr ⟨x, rfl⟩

theorem ne_empty_of_hasPrefix {p k : Key} (hp : p ≠ []) (h : hasPrefix p k = true) : k ≠ [] := by
  intro hk
  obtain ⟨x, hx⟩ := hasPrefix_iff.mp h
  subst hk
  exact hp (List.append_eq_nil_iff.mp hx.symm).1

/-- splitting at the first `/`: two slash-free heads followed by `/` agree -/
theorem slash_split_unique : ∀ (a b x y : List Char), '/' ∉ a → '/' ∉ b →
    a ++ '/' :: x = b ++ '/' :: y → a = b ∧ x = y := by
  intro a
  induction a with
  | nil =>
    intro b x y _ hb h
    cases b with
    | nil => simpa using h
    | cons c b =>
      simp only [List.nil_append, List.cons_append, List.cons.injEq] at h
      exact absurd (h.1 ▸ List.mem_cons_self) hb
  | cons c a ih =>
    intro b x y ha hb h
    cases b with
    | nil =>
      simp only [List.nil_append, List.cons_append, List.cons.injEq] at h
      exact absurd (h.1 ▸ List.mem_cons_self) ha
    | cons c' b =>
      simp only [List.cons_append, List.cons.injEq] at h
      have ha' : '/' ∉ a := fun hm => ha (List.mem_cons_of_mem _ hm)
      have hb' : '/' ∉ b := fun hm => hb (List.mem_cons_of_mem _ hm)
      obtain ⟨h1, h2⟩ := ih b x y ha' hb' h.2
      exact ⟨by rw [h.1, h1], h2⟩

/-- **a prefix `kind/<repo>/` selects exactly that repository**, also when another repository's
    name extends it (`a` vs `a-b`): names contain no `/`. -/
theorem C07_prefix_selects_repo (kind r r' rest : List Char) (hr : '/' ∉ r) (hr' : '/' ∉ r') :
    hasPrefix (kind ++ r ++ ['/']) (kind ++ r' ++ ['/'] ++ rest) = true ↔ r = r' := by
  constructor
  · intro h
    obtain ⟨x, hx⟩ := hasPrefix_iff.mp h
    simp only [List.append_assoc, List.cons_append, List.nil_append] at hx
    have h2 := List.append_cancel_left hx
    exact (slash_split_unique r' r rest x hr' hr h2).1.symm
  · rintro rfl
    exact hasPrefix_append _ _

theorem listItems_plain_sorted {keys : List Key} (hs : Sorted keys) (pfx : Key) :
    Sorted (listItems keys pfx false) := by
  simp only [listItems, Bool.false_eq_true, if_false]
  exact List.Pairwise.sublist List.filter_sublist hs

theorem listItems_plain_ne {keys : List Key} {pfx : Key} (hp : pfx ≠ []) :
    ∀ k ∈ listItems keys pfx false, k ≠ [] := by
  intro k hk
  simp only [listItems, Bool.false_eq_true, if_false] at hk
  exact ne_empty_of_hasPrefix hp (List.mem_filter.mp hk).2

/-- a listing that reads every key under a prefix (repos, labels): as a multiset, the stream is the
    set of store entries under the prefix. -/
theorem plain_stream_perm (st : Store) (hst : Sorted (keysOf st)) (pfx : Key) (hp : pfx ≠ [])
    (n : Nat) (hn : 0 < n) (sched : Sched) (hs : IsSched sched) :
    (stream st id sched (fetchBatches (listItems (keysOf st) pfx false) n (fun _ => true))).Perm
      (st.filter (fun e => hasPrefix pfx e.1)) := by
  have h1 := stream_perm st id sched hs (fetchBatches (listItems (keysOf st) pfx false) n (fun _ => true))
  rw [fetchBatches_flatten_all _ n hn (listItems_plain_ne hp) (listItems_plain_sorted hst pfx)] at h1
  have h2 : listItems (keysOf st) pfx false = (keysOf st).filter (hasPrefix pfx) := by
    simp [listItems]
  rw [h2, resolve_id_filter st (sorted_nodup hst)] at h1
  exact h1

/-! ## E. bundles: delimiter roll-up, one item per bundle directory -/

theorem mem_insertKey {x k : Key} {l : List Key} : x ∈ insertKey k l ↔ x = k ∨ x ∈ l := by
  induction l with
  | nil => simp [insertKey]
  | cons a l ih =>
    unfold insertKey
    split
    · simp
    · split
      · rename_i _ hka
        subst hka
        simp
      · simp only [List.mem_cons, ih]
        constructor
        · rintro (h | h | h)
          · exact Or.inr (Or.inl h)
          · exact Or.inl h
          · exact Or.inr (Or.inr h)
        · rintro (h | h | h)
          · exact Or.inr (Or.inl h)
          · exact Or.inl h
          · exact Or.inr (Or.inr h)

theorem string_lt_of_not_lt_of_ne {a k : Key} (h1 : ¬ k < a) (h2 : ¬ k = a) : a < k := by
  apply Classical.byContradiction
  intro h3
  exact h2 (KO.le_antisymm (KO.not_lt.mp h3) (KO.not_lt.mp h1))

theorem insertKey_sorted (k : Key) {l : List Key} (h : Sorted l) : Sorted (insertKey k l) := by
  induction l with
  | nil => simp [insertKey, Sorted]
  | cons a l ih =>
    have ha := List.pairwise_cons.mp h
    unfold insertKey
    split
    · rename_i hka
      apply List.pairwise_cons.mpr
      refine ⟨?_, h⟩
      intro b hb
      rcases List.mem_cons.mp hb with rfl | hb
      · exact hka
      · exact KO.lt_trans hka (ha.1 b hb)
    · split
      · exact h
      · rename_i h1 h2
        have hak : a < k := string_lt_of_not_lt_of_ne h1 h2
        apply List.pairwise_cons.mpr
        refine ⟨?_, ih ha.2⟩
        intro b hb
        rcases mem_insertKey.mp hb with rfl | hb
        · exact hak
        · exact ha.1 b hb

theorem mem_sortDedup {x : Key} {l : List Key} : x ∈ sortDedup l ↔ x ∈ l := by
  induction l with
  | nil => simp [sortDedup]
  | cons a l ih =>
    have : sortDedup (a :: l) = insertKey a (sortDedup l) := rfl
    rw [this, mem_insertKey, ih]
    simp

theorem sortDedup_sorted (l : List Key) : Sorted (sortDedup l) := by
  induction l with
  | nil => simp [sortDedup, Sorted]
  | cons a l ih =>
    have : sortDedup (a :: l) = insertKey a (sortDedup l) := rfl
    rw [this]
    exact insertKey_sorted a ih

theorem takeWhile_dropWhile_slash (a x : List Char) (ha : '/' ∉ a) :
    (a ++ '/' :: x).takeWhile (· != '/') = a ∧ (a ++ '/' :: x).dropWhile (· != '/') = '/' :: x := by
  induction a with
  | nil => simp
  | cons c a ih =>
    have hc : c ≠ '/' := fun h => ha (h ▸ List.mem_cons_self)
    have ha' : '/' ∉ a := fun hm => ha (List.mem_cons_of_mem _ hm)
    have hb : (c != '/') = true := by simp [hc]
    have := ih ha'
    simp [hb, this.1, this.2]

theorem not_mem_takeWhile_slash (l : List Char) : '/' ∉ l.takeWhile (· != '/') := by
  induction l with
  | nil => simp
  | cons c l ih =>
    rw [List.takeWhile_cons]
    split
    · rename_i hc
      intro hm
      rcases List.mem_cons.mp hm with h | h
      · simp [← h] at hc
      · exact ih h
    · simp

theorem exists_first_slash {l : List Char} (h : '/' ∈ l) : ∃ a x, l = a ++ '/' :: x ∧ '/' ∉ a := by
  refine ⟨l.takeWhile (· != '/'), (l.dropWhile (· != '/')).tail, ?_, not_mem_takeWhile_slash l⟩
  have h1 : l.dropWhile (· != '/') ≠ [] := by
    intro h0
    have : l.takeWhile (· != '/') = l := by
      have := List.takeWhile_append_dropWhile (p := (· != '/')) (l := l)
      rw [h0, List.append_nil] at this
      exact this
    have hh : '/' ∈ l.takeWhile (· != '/') := by rw [this]; exact h
    exact not_mem_takeWhile_slash l hh
  have h2 := List.head_dropWhile_not (· != '/') h1
  have h3 : (l.dropWhile (· != '/')).head h1 = '/' := by simpa using h2
  have h4 : l.dropWhile (· != '/') = '/' :: (l.dropWhile (· != '/')).tail := by
    have h5 := (List.cons_head_tail h1).symm
    rw [h3] at h5
    exact h5
  have := List.takeWhile_append_dropWhile (p := (· != '/')) (l := l)
  rw [h4] at this
  exact this.symm

theorem cutAt_of_slash (p k : Key) (a x : List Char) (ha : '/' ∉ a)
    (hk : k = p ++ (a ++ '/' :: x)) :
    cutAt p k = p ++ (a ++ ['/']) := by
  unfold cutAt
  simp only [hk, List.drop_left]
  have hc : (a ++ '/' :: x).contains '/' = true := by
    rw [List.contains_iff_mem]; simp
  simp only [hc, if_true, (takeWhile_dropWhile_slash a x ha).1]

/-- every key under `bundles/<repo>/` lies inside a bundle directory (`bundles/<repo>/<id>/...`) -/
def BundleDirs (m : Store) (r : Name) : Prop :=
  ∀ k ∈ keysOf m, hasPrefix (bundlePrefix r) k = true →
    ∃ i x, '/' ∉ i ∧ k = bundlePrefix r ++ (i ++ '/' :: x)

/-- `k` is `bundles/<repo>/<id>/bundle.yaml` for some slash-free `<id>` -/
def isBundleDesc (r : Name) (k : Key) : Bool :=
  hasPrefix (bundlePrefix r) k &&
    ((k.drop (bundlePrefix r).length).dropWhile (· != '/') == cl!"/bundle.yaml")

theorem isBundleDesc_iff (r : Name) (k : Key) :
    isBundleDesc r k = true ↔
      ∃ i : List Char, '/' ∉ i ∧ k = bundlePrefix r ++ (i ++ cl!"/bundle.yaml") := by
  unfold isBundleDesc
  rw [Bool.and_eq_true, beq_iff_eq]
  constructor
  · rintro ⟨hp, hd⟩
    obtain ⟨rest, hrest⟩ := hasPrefix_iff.mp hp
    rw [hrest, List.drop_left] at hd
    refine ⟨rest.takeWhile (· != '/'), not_mem_takeWhile_slash rest, ?_⟩
    rw [hrest, ← hd, List.takeWhile_append_dropWhile]
  · rintro ⟨i, hi, hk⟩
    refine ⟨hasPrefix_iff.mpr ⟨_, hk⟩, ?_⟩
    rw [hk, List.drop_left, (takeWhile_dropWhile_slash i _ hi).2]

/-- the key constructor gives such a key -/
theorem isBundleDesc_bundleKey (r i : Name) (hi : '/' ∉ i) : isBundleDesc r (bundleKey r i) = true := by
  rw [isBundleDesc_iff]
  exact ⟨i, hi, by simp [bundleKey]⟩

theorem resolve_keys_sublist (st : Store) (res : Key → Key) (b : List Key) :
    ((resolve st res b).map (·.1)).Sublist (b.map res) := by
  induction b with
  | nil => simp [resolve]
  | cons k b ih =>
    unfold resolve at ih ⊢
    rw [List.filterMap_cons]
    cases h : lookup st (res k) with
    | none => simp only [Option.map_none, List.map_cons]; exact List.Sublist.cons _ ih
    | some d => simp only [Option.map_some, List.map_cons]; exact List.Sublist.cons_cons _ ih

theorem nodup_of_map_nodup {f : α → β} {l : List α} (h : (l.map f).Nodup) : l.Nodup := by
  have := List.pairwise_map.mp h
  exact List.Pairwise.imp (fun hab he => hab (by rw [he])) this

theorem resolve_nodup (st : Store) (res : Key → Key) (hinj : ∀ a b, res a = res b → a = b)
    (b : List Key) (hb : b.Nodup) : (resolve st res b).Nodup := by
  apply nodup_of_map_nodup (f := (·.1))
  apply List.Nodup.sublist (resolve_keys_sublist st res b)
  exact List.Pairwise.map res (fun a b hab he => hab (hinj a b he)) hb

theorem store_nodup {st : Store} (h : Sorted (keysOf st)) : st.Nodup :=
  nodup_of_map_nodup (f := (·.1)) (show (st.map (·.1)).Nodup from sorted_nodup h)

theorem append_bundleYaml_inj (a b : Key) (h : a ++ bundleFile = b ++ bundleFile) : a = b :=
  List.append_cancel_right h

theorem cutAt_of_no_slash (p k : Key) (rest : List Char) (hk : k = p ++ rest)
    (h : '/' ∉ rest) : cutAt p k = k := by
  unfold cutAt
  simp only [hk, List.drop_left]
  have hc : rest.contains '/' = false := by
    cases hh : rest.contains '/'
    · rfl
    · exact absurd (List.contains_iff_mem.mp hh) h
  simp only [hc, Bool.false_eq_true, if_false]

theorem cutAt_hasPrefix {p k : Key} (h : hasPrefix p k = true) : hasPrefix p (cutAt p k) = true := by
  obtain ⟨rest, hrest⟩ := hasPrefix_iff.mp h
  by_cases hs : '/' ∈ rest
  · obtain ⟨a, x, hax, ha⟩ := exists_first_slash hs
    rw [cutAt_of_slash p k a x ha (by rw [hrest, hax])]
    exact hasPrefix_iff.mpr ⟨_, rfl⟩
  · rw [cutAt_of_no_slash p k rest hrest hs]; exact h

theorem bundlePrefix_ne (r : Name) : bundlePrefix r ≠ [] := by
  simp [bundlePrefix]

theorem bundle_items_ne (m : Store) (r : Name) :
    ∀ k ∈ listItems (keysOf m) (bundlePrefix r) true, k ≠ [] := by
  intro k hk
  simp only [listItems, if_true] at hk
  obtain ⟨k0, hk0, rfl⟩ := List.mem_map.mp (mem_sortDedup.mp hk)
  exact ne_empty_of_hasPrefix (bundlePrefix_ne r) (cutAt_hasPrefix (List.mem_filter.mp hk0).2)

/-- the bundles read by a listing of `<repo>`: exactly the `bundle.yaml` descriptors of that
    repository's bundle directories (a directory without descriptor — an interrupted upload — is
    skipped; file lists are never returned). -/
theorem bundles_resolve_mem (m : Store) (hm : Sorted (keysOf m)) (r : Name) (hd : BundleDirs m r) (e : Entry) :
    e ∈ resolve m (· ++ bundleFile) (listItems (keysOf m) (bundlePrefix r) true) ↔
      e ∈ m ∧ isBundleDesc r e.1 = true := by
  rw [mem_resolve, isBundleDesc_iff]
  simp only [listItems, if_true]
  constructor
  · rintro ⟨it, hit, hres, hl⟩
    obtain ⟨k0, hk0, rfl⟩ := List.mem_map.mp (mem_sortDedup.mp hit)
    obtain ⟨hk0m, hp⟩ := List.mem_filter.mp hk0
    obtain ⟨i, x, hi, hk⟩ := hd k0 hk0m hp
    refine ⟨mem_of_lookup hl, i, hi, ?_⟩
    rw [← hres, cutAt_of_slash _ _ i x hi hk]
    simp [bundleFile]
  · rintro ⟨hem, i, hi, hk⟩
    have hk' : e.1 = bundlePrefix r ++ (i ++ '/' :: bundleFile) := by
      rw [hk]; rfl
    refine ⟨cutAt (bundlePrefix r) e.1, ?_, ?_, lookup_of_mem (sorted_nodup hm) (k := e.1) (d := e.2) hem⟩
    · apply mem_sortDedup.mpr
      apply List.mem_map.mpr
      refine ⟨e.1, List.mem_filter.mpr ⟨List.mem_map.mpr ⟨e, hem, rfl⟩, hasPrefix_iff.mpr ⟨_, hk'⟩⟩, rfl⟩
    · rw [cutAt_of_slash _ _ i _ hi hk', hk']
      simp

theorem bundles_stream_perm (m : Store) (hm : Sorted (keysOf m)) (r : Name) (hd : BundleDirs m r)
    (n : Nat) (hn : 0 < n) (sched : Sched) (hs : IsSched sched) :
    (bundlesStream m r n sched).Perm (m.filter (fun e => isBundleDesc r e.1)) := by
  unfold bundlesStream
  have h1 := stream_perm m (· ++ bundleFile) sched hs
    (fetchBatches (listItems (keysOf m) (bundlePrefix r) true) n (fun _ => true))
  have hsorted : Sorted (listItems (keysOf m) (bundlePrefix r) true) := by
    simp only [listItems, if_true]; exact sortDedup_sorted _
  rw [fetchBatches_flatten_all _ n hn (bundle_items_ne m r) hsorted] at h1
  refine h1.trans ?_
  apply (List.perm_ext_iff_of_nodup ?_ ?_).mpr
  · intro e
    rw [bundles_resolve_mem m hm r hd e, List.mem_filter]
  · exact resolve_nodup m _ append_bundleYaml_inj _ (sorted_nodup hsorted)
  · exact List.Nodup.sublist List.filter_sublist (store_nodup hm)

/-! ## F. `mergeKeys`: one key per diamond / split, the final descriptor when there is one -/

theorem dir_base (k : Key) : k = dirName k ++ baseName k := by
  unfold dirName baseName
  rw [← List.reverse_append, List.takeWhile_append_dropWhile, List.reverse_reverse]

theorem not_slash_mem_baseName (k : Key) : '/' ∉ baseName k := by
  unfold baseName
  intro h
  exact not_mem_takeWhile_slash _ (List.mem_reverse.mp h)

theorem dir_base_of_append (k : Key) (a b : List Char) (hb : '/' ∉ b) (hk : k = a ++ '/' :: b) :
    dirName k = a ++ ['/'] ∧ baseName k = b := by
  have hb' : '/' ∉ b.reverse := fun h => hb (List.mem_reverse.mp h)
  have hr : k.reverse = b.reverse ++ '/' :: a.reverse := by
    rw [hk]; simp
  have := takeWhile_dropWhile_slash b.reverse a.reverse hb'
  unfold dirName baseName
  rw [hr, this.1, this.2]
  simp

theorem dir_base_of_dir (d b : List Char) (hd : ∃ a, d = a ++ ['/']) (hb : '/' ∉ b) :
    dirName (d ++ b) = d ∧ baseName (d ++ b) = b := by
  obtain ⟨a, rfl⟩ := hd
  exact dir_base_of_append (a ++ ['/'] ++ b) a b hb (by simp)

theorem dirName_ends (k : Key) (h : dirName k ≠ []) : ∃ a, dirName k = a ++ ['/'] := by
  unfold dirName at h ⊢
  have h1 : k.reverse.dropWhile (· != '/') ≠ [] := by
    intro h0; apply h; rw [h0]; rfl
  have h2 := List.head_dropWhile_not (· != '/') h1
  have h3 : (k.reverse.dropWhile (· != '/')).head h1 = '/' := by simpa using h2
  have h5 := (List.cons_head_tail h1).symm
  rw [h3] at h5
  refine ⟨(k.reverse.dropWhile (· != '/')).tail.reverse, ?_⟩
  rw [h5]; simp

theorem mmGet_erase_self (σ : MMap) (id : List Char) : mmGet (mmErase σ id) id = ⟨false, 0, []⟩ := by
  induction σ with
  | nil => rfl
  | cons p σ ih =>
    unfold mmErase at ih ⊢
    rw [List.filter_cons]
    split
    · rename_i hp
      have : p.1 ≠ id := by simpa using hp
      obtain ⟨i, s⟩ := p
      simp only [mmGet]
      rw [if_neg this]
      exact ih
    · exact ih

theorem mmGet_erase_other (σ : MMap) (id j : List Char) (h : j ≠ id) : mmGet (mmErase σ id) j = mmGet σ j := by
  induction σ with
  | nil => rfl
  | cons p σ ih =>
    obtain ⟨i, s⟩ := p
    unfold mmErase at ih ⊢
    rw [List.filter_cons]
    split
    · simp only [mmGet]
      split
      · rfl
      · exact ih
    · rename_i hp
      have hi : i = id := by simpa using hp
      simp only [mmGet]
      have : i ≠ j := by rw [hi]; exact fun e => h e.symm
      rw [if_neg this]
      exact ih

theorem mmGet_set_self (σ : MMap) (id : List Char) (s : MState) : mmGet (mmSet σ id s) id = s := by
  simp [mmSet, mmGet]

theorem mmGet_set_other (σ : MMap) (id j : List Char) (s : MState) (h : j ≠ id) :
    mmGet (mmSet σ id s) j = mmGet σ j := by
  simp only [mmSet, mmGet]
  rw [if_neg (fun e => h e.symm)]
  exact mmGet_erase_other σ id j h

theorem mergeBatch_append (doneF : List Char) (σ : MMap) (a b : List Key) :
    mergeBatch doneF σ (a ++ b) =
      ((mergeBatch doneF (mergeBatch doneF σ a).1 b).1,
        (mergeBatch doneF σ a).2 ++ (mergeBatch doneF (mergeBatch doneF σ a).1 b).2) := by
  induction a generalizing σ with
  | nil => simp [mergeBatch]
  | cons k a ih =>
    simp only [List.cons_append, mergeBatch]
    rw [ih]
    cases (mergeKey doneF σ k).2 <;> simp

/-- batching does not matter to `mergeKeys`: the map is carried over -/
theorem mergeBatches_flatten (doneF : List Char) (σ : MMap) (bs : List (List Key)) :
    (mergeBatches doneF σ bs).flatten = (mergeBatch doneF σ bs.flatten).2 := by
  induction bs generalizing σ with
  | nil => simp [mergeBatches, mergeBatch]
  | cons b bs ih =>
    simp only [mergeBatches, List.flatten_cons]
    rw [mergeBatch_append, ih]

theorem last_slash_unique (a a' b b' : List Char) (hb : '/' ∉ b) (hb' : '/' ∉ b')
    (h : a ++ '/' :: b = a' ++ '/' :: b') : a = a' ∧ b = b' := by
  have h1 : b.reverse ++ '/' :: a.reverse = b'.reverse ++ '/' :: a'.reverse := by
    have := congrArg List.reverse h
    simpa using this
  have h2 := slash_split_unique b.reverse b'.reverse a.reverse a'.reverse
    (fun hm => hb (List.mem_reverse.mp hm)) (fun hm => hb' (List.mem_reverse.mp hm)) h1
  exact ⟨List.reverse_inj.mp h2.2, List.reverse_inj.mp h2.1⟩

theorem append_left_lt (a b c : List Char) (h : b < c) : a ++ b < a ++ c := by
  induction a with
  | nil => exact h
  | cons x a ih =>
    simp only [List.cons_append]
    exact List.cons_lt_cons_iff.mpr (Or.inr ⟨rfl, ih⟩)

/-- the final-state key of the object a descriptor key belongs to -/
def doneKeyOf (doneF : List Char) (k : Key) : Key := dirName k ++ doneF

/-- the key handed over for a running key: the final descriptor if the scan holds one -/
def chosen (doneF : List Char) (F : List Key) (k : Key) : Key :=
  if doneKeyOf doneF k ∈ F then doneKeyOf doneF k else k

def emitOf (doneF runF : List Char) (F : List Key) (k : Key) : Option Key :=
  if baseName k = runF then some (chosen doneF F k) else none

/-- what `mergeKeys` may assume of the (filtered) scan `F` -/
structure MergeHyp (doneF runF : List Char) (F : List Key) : Prop where
  sorted : Sorted F
  shape : ∀ k ∈ F, baseName k = doneF ∨ baseName k = runF
  dirne : ∀ k ∈ F, dirName k ≠ []
  hD : '/' ∉ doneF
  hR : '/' ∉ runF
  hlt : doneF < runF

def pending (doneF runF : List Char) (P : List Key) (id : List Char) : Prop :=
  id ++ doneF ∈ P ∧ id ++ runF ∉ P

instance (doneF runF : List Char) (P : List Key) (id : List Char) : Decidable (pending doneF runF P id) := by
  unfold pending; infer_instance

/-- the `states` map holds exactly the final keys still waiting for their running key -/
def MInv (doneF runF : List Char) (σ : MMap) (P : List Key) : Prop :=
  ∀ a : List Char, mmGet σ (a ++ ['/']) =
    if pending doneF runF P (a ++ ['/']) then ⟨true, 1, a ++ ['/'] ++ doneF⟩
    else ⟨false, 0, []⟩

/-- pending status of another object does not change when a key of this object is processed -/
theorem pending_other (doneF runF : List Char) (hD : '/' ∉ doneF) (hR : '/' ∉ runF)
    (P : List Key) (a a' b : List Char) (hb : b = doneF ∨ b = runF) (hne : a' ≠ a) :
    pending doneF runF (P ++ [a ++ ['/'] ++ b]) (a' ++ ['/']) ↔
      pending doneF runF P (a' ++ ['/']) := by
  have hbs : '/' ∉ b := by rcases hb with rfl | rfl <;> assumption
  have key : ∀ c : List Char, '/' ∉ c →
      (a' ++ ['/'] ++ c ∈ P ++ [a ++ ['/'] ++ b] ↔ a' ++ ['/'] ++ c ∈ P) := by
    intro c hc
    rw [List.mem_append, List.mem_singleton]
    constructor
    · rintro (h | h)
      · exact h
      · exfalso
        simp only [List.append_assoc, List.cons_append, List.nil_append] at h
        exact hne (last_slash_unique a' a c b hc hbs h).1
    · intro h; exact Or.inl h
  unfold pending
  rw [key _ hD, key _ hR]

theorem mergeBatch_spec (doneF runF : List Char) (F : List Key) (H : MergeHyp doneF runF F) :
    ∀ (S P : List Key) (σ : MMap), P ++ S = F → MInv doneF runF σ P →
      (mergeBatch doneF σ S).2 = S.filterMap (emitOf doneF runF F) ∧
      MInv doneF runF (mergeBatch doneF σ S).1 F := by
  intro S
  induction S with
  | nil =>
    intro P σ hP hI
    simp only [List.append_nil] at hP
    subst hP
    exact ⟨rfl, hI⟩
  | cons k S ih =>
    intro P σ hP hI
    have hkF : k ∈ F := by rw [← hP]; simp
    obtain ⟨a, ha⟩ := dirName_ends k (H.dirne k hkF)
    have hsorted : Sorted (P ++ k :: S) := hP ▸ H.sorted
    obtain ⟨_, hS, hcross⟩ := List.pairwise_append.mp hsorted
    have hPlt : ∀ x ∈ P, x < k := fun x hx => hcross x hx k (List.mem_cons_self)
    have hSgt : ∀ x ∈ S, k < x := (List.pairwise_cons.mp hS).1
    have hkP : k ∉ P := fun h => KO.lt_irrefl k (hPlt k h)
    have hP' : (P ++ [k]) ++ S = F := by rw [← hP]; simp
    have hdl : a ++ ['/'] ++ doneF < a ++ ['/'] ++ runF := append_left_lt _ _ _ H.hlt
    have hdne : doneF ≠ runF := by
      intro e
      have := H.hlt
      rw [e] at this
      exact KO.lt_irrefl _ this
    rcases H.shape k hkF with hb | hb
    · -- a final-state key: parked in the map, nothing handed over
      have hk : k = a ++ ['/'] ++ doneF := by
        rw [← ha, ← hb]; exact dir_base k
      have hrunP : a ++ ['/'] ++ runF ∉ P := by
        intro h
        have := hPlt _ h
        rw [hk] at this
        exact KO.lt_asymm hdl this
      have hnp : ¬ pending doneF runF P (a ++ ['/']) := by
        intro h; apply hkP; rw [hk]; exact h.1
      have hst : mmGet σ (a ++ ['/']) = ⟨false, 0, []⟩ := by
        rw [hI a, if_neg hnp]
      have hstep : mergeKey doneF σ k = (mmSet σ (a ++ ['/']) ⟨true, 1, k⟩, none) := by
        unfold mergeKey
        simp [ha, hst, hb]
      have hI' : MInv doneF runF (mmSet σ (a ++ ['/']) ⟨true, 1, k⟩) (P ++ [k]) := by
        intro a'
        by_cases he : a' = a
        · subst he
          rw [mmGet_set_self]
          have hp : pending doneF runF (P ++ [k]) (a' ++ ['/']) := by
            refine ⟨by rw [← hk]; simp, ?_⟩
            intro h
            rcases List.mem_append.mp h with h | h
            · exact hrunP h
            · rw [List.mem_singleton, hk] at h
              exact hdne (List.append_cancel_left h).symm
          rw [if_pos hp, ← hk]
        · have hne : a' ++ ['/'] ≠ a ++ ['/'] := fun e => he (List.append_cancel_right e)
          rw [mmGet_set_other _ _ _ _ hne, hI a']
          have hpo := pending_other doneF runF H.hD H.hR P a a' doneF (Or.inl rfl) he
          rw [← hk] at hpo
          by_cases hpp : pending doneF runF P (a' ++ ['/'])
          · rw [if_pos hpp, if_pos (hpo.mpr hpp)]
          · rw [if_neg hpp, if_neg (fun h => hpp (hpo.mp h))]
      have hih := ih (P ++ [k]) _ hP' hI'
      simp only [mergeBatch, hstep]
      refine ⟨?_, hih.2⟩
      rw [hih.1, List.filterMap_cons]
      have he : emitOf doneF runF F k = none := by
        unfold emitOf; rw [hb, if_neg hdne]
      rw [he]
    · -- a running key: the object is settled now
      have hk : k = a ++ ['/'] ++ runF := by
        rw [← ha, ← hb]; exact dir_base k
      have hfin : (baseName k == doneF) = false := by
        have hne' : ¬ runF = doneF := fun e => hdne e.symm
        rw [hb]; simp [hne']
      have hdk : doneKeyOf doneF k = a ++ ['/'] ++ doneF := by
        unfold doneKeyOf; rw [ha]
      have hdk_ne : a ++ ['/'] ++ doneF ≠ k := by
        intro h
        rw [hk] at h
        exact hdne (List.append_cancel_left h)
      have hI'gen : MInv doneF runF (mmErase σ (a ++ ['/'])) (P ++ [k]) := by
        intro a'
        by_cases he : a' = a
        · subst he
          rw [mmGet_erase_self]
          have hp : ¬ pending doneF runF (P ++ [k]) (a' ++ ['/']) := by
            intro h; apply h.2; rw [← hk]; simp
          rw [if_neg hp]
        · have hne : a' ++ ['/'] ≠ a ++ ['/'] := fun e => he (List.append_cancel_right e)
          rw [mmGet_erase_other _ _ _ hne, hI a']
          have hpo := pending_other doneF runF H.hD H.hR P a a' runF (Or.inr rfl) he
          rw [← hk] at hpo
          by_cases hpp : pending doneF runF P (a' ++ ['/'])
          · rw [if_pos hpp, if_pos (hpo.mpr hpp)]
          · rw [if_neg hpp, if_neg (fun h => hpp (hpo.mp h))]
      have hih := ih (P ++ [k]) _ hP' hI'gen
      by_cases hd : a ++ ['/'] ++ doneF ∈ P
      · have hp : pending doneF runF P (a ++ ['/']) := ⟨hd, by rw [← hk]; exact hkP⟩
        have hst : mmGet σ (a ++ ['/']) = ⟨true, 1, a ++ ['/'] ++ doneF⟩ := by
          rw [hI a, if_pos hp]
        have hstep : mergeKey doneF σ k = (mmErase σ (a ++ ['/']), some (a ++ ['/'] ++ doneF)) := by
          unfold mergeKey
          simp [ha, hst, hfin]
        have he : emitOf doneF runF F k = some (a ++ ['/'] ++ doneF) := by
          unfold emitOf chosen
          rw [if_pos hb, hdk, if_pos (by rw [← hP]; exact List.mem_append_left _ hd)]
        simp only [mergeBatch, hstep]
        refine ⟨?_, hih.2⟩
        rw [hih.1, List.filterMap_cons, he]
      · have hp : ¬ pending doneF runF P (a ++ ['/']) := fun h => hd h.1
        have hst : mmGet σ (a ++ ['/']) = ⟨false, 0, []⟩ := by
          rw [hI a, if_neg hp]
        have hstep : mergeKey doneF σ k = (mmErase σ (a ++ ['/']), some k) := by
          unfold mergeKey
          simp [ha, hst, hfin]
        have hnotF : a ++ ['/'] ++ doneF ∉ F := by
          rw [← hP]
          intro h
          rcases List.mem_append.mp h with h | h
          · exact hd h
          · rcases List.mem_cons.mp h with h | h
            · exact hdk_ne h
            · have := hSgt _ h
              rw [hk] at this
              exact KO.lt_asymm hdl this
        have he : emitOf doneF runF F k = some k := by
          unfold emitOf chosen
          rw [if_pos hb, hdk, if_neg hnotF]
        simp only [mergeBatch, hstep]
        refine ⟨?_, hih.2⟩
        rw [hih.1, List.filterMap_cons, he]

/-- **`mergeKeys`, whatever the batches**: one key per running descriptor of the scan, namely the
    final descriptor's key when the scan holds one. -/
theorem mergeBatches_spec (doneF runF : List Char) (F : List Key) (H : MergeHyp doneF runF F)
    (bs : List (List Key)) (hbs : bs.flatten = F) :
    (mergeBatches doneF [] bs).flatten = F.filterMap (emitOf doneF runF F) := by
  rw [mergeBatches_flatten, hbs]
  have hI : MInv doneF runF [] [] := by
    intro a
    have : ¬ pending doneF runF [] (a ++ ['/']) := fun h => by simp [pending] at h
    rw [if_neg this]; rfl
  exact (mergeBatch_spec doneF runF F H F [] [] (by simp) hI).1

/-! ## G. diamonds and splits: deep scan, descriptor filter, merge -/

theorem filterMap_if_eq {p : α → Bool} {g : α → β} (l : List α) :
    l.filterMap (fun k => if p k = true then some (g k) else none) = (l.filter p).map g := by
  induction l with
  | nil => rfl
  | cons a l ih =>
    rw [List.filterMap_cons, List.filter_cons]
    by_cases h : p a = true
    · simp only [h, if_true, List.map_cons, ih]
    · simp only [h, Bool.false_eq_true, if_false, ih]

theorem filterMap_eq_map_of {f : α → Option β} {g : α → β} {l : List α} (h : ∀ x ∈ l, f x = some (g x)) :
    l.filterMap f = l.map g := by
  induction l with
  | nil => rfl
  | cons a l ih =>
    rw [List.filterMap_cons, h a (List.mem_cons_self)]
    simp only [List.map_cons]
    rw [ih (fun x hx => h x (List.mem_cons_of_mem _ hx))]

/-- a prefix ending with `/` is a prefix of the directory part of the key -/
theorem prefix_of_dirName (p0 : List Char) (k : Key) (x : List Char)
    (hk : k = p0 ++ ['/'] ++ x) : ∃ y, dirName k = p0 ++ ['/'] ++ y := by
  have hdb := dir_base k
  rw [hk] at hdb
  rw [← hk] at hdb
  have hdb' : p0 ++ ['/'] ++ x = dirName k ++ baseName k := by rw [← hk]; exact hdb
  rcases List.append_eq_append_iff.mp hdb' with ⟨a', h1, _⟩ | ⟨c', h1, h2⟩
  · exact ⟨a', h1⟩
  · cases c' with
    | nil => exact ⟨[], by rw [h1]; simp⟩
    | cons c cs =>
      exfalso
      have hmem : '/' ∈ c :: cs := by
        rcases List.append_eq_append_iff.mp h1 with ⟨a'', _, h4⟩ | ⟨c'', _, h4⟩
        · cases a'' with
          | nil =>
            simp only [List.nil_append] at h4
            rw [← h4]; simp
          | cons y ys =>
            have := congrArg List.length h4
            simp at this
        · rw [h4]; simp
      have : '/' ∈ baseName k := by rw [h2]; exact List.mem_append_left _ hmem
      exact not_slash_mem_baseName k this

theorem dirName_ne_of_slash (k : Key) (h : '/' ∈ k) : dirName k ≠ [] := by
  intro h0
  have := dir_base k
  rw [h0, List.nil_append] at this
  rw [this] at h
  exact not_slash_mem_baseName k h

/-- hypotheses of a merged listing (diamonds: `diamonds/<repo>/`, `diamond-`; splits:
    `diamonds/<repo>/<diamond>/splits/`, `split-`). `shape`: the descriptor files found under the
    prefix are in one of the two states (anything else is a parse error in the Go code). -/
structure MergedHyp (st : Store) (p0 : List Char) (filt doneF runF : List Char) : Prop where
  sorted : Sorted (keysOf st)
  shape : ∀ k ∈ keysOf st, hasPrefix (p0 ++ ['/']) k = true → baseFilter filt k = true →
    baseName k = doneF ∨ baseName k = runF
  hD : '/' ∉ doneF
  hR : '/' ∉ runF
  hlt : doneF < runF
  fD : filt.isPrefixOf doneF = true
  fR : filt.isPrefixOf runF = true

/-- the objects a merged listing must return: one per running descriptor under the prefix — the
    final descriptor when it exists. -/
def mergedSpec (st : Store) (pfx : Key) (doneF runF : List Char) : List Entry :=
  (st.filter (fun e => hasPrefix pfx e.1 && (baseName e.1 == runF))).map
    (fun e => match lookup st (doneKeyOf doneF e.1) with
              | some d => (doneKeyOf doneF e.1, d)
              | none => e)

theorem merged_scan_hyp (st : Store) (p0 : List Char) (filt doneF runF : List Char)
    (H : MergedHyp st p0 filt doneF runF) :
    MergeHyp doneF runF
      (((keysOf st).filter (hasPrefix (p0 ++ ['/']))).filter (baseFilter filt)) := by
  refine ⟨?_, ?_, ?_, H.hD, H.hR, H.hlt⟩
  · exact List.Pairwise.sublist (List.filter_sublist.trans List.filter_sublist) H.sorted
  · intro k hk
    obtain ⟨hk1, hf⟩ := List.mem_filter.mp hk
    obtain ⟨hk2, hp⟩ := List.mem_filter.mp hk1
    exact H.shape k hk2 hp hf
  · intro k hk
    obtain ⟨hk1, _⟩ := List.mem_filter.mp hk
    obtain ⟨_, hp⟩ := List.mem_filter.mp hk1
    obtain ⟨x, hx⟩ := hasPrefix_iff.mp hp
    apply dirName_ne_of_slash
    rw [hx]; simp

theorem merged_resolve (st : Store) (p0 : List Char) (filt doneF runF : List Char)
    (H : MergedHyp st p0 filt doneF runF) :
    let pfx := p0 ++ ['/']
    let F := ((keysOf st).filter (hasPrefix pfx)).filter (baseFilter filt)
    resolve st id (F.filterMap (emitOf doneF runF F)) = mergedSpec st pfx doneF runF := by
  intro pfx F
  have hnd : (keysOf st).Nodup := sorted_nodup H.sorted
  have hrunfilt : ∀ k : Key, (baseName k == runF) = true → baseFilter filt k = true := by
    intro k hk
    unfold baseFilter
    rw [beq_iff_eq.mp hk]; exact H.fR
  have h1 : F.filterMap (emitOf doneF runF F) =
      ((st.filter (fun e => hasPrefix pfx e.1 && (baseName e.1 == runF))).map (·.1)).map (chosen doneF F) := by
    have he : emitOf doneF runF F = fun k => if (baseName k == runF) = true then some (chosen doneF F k) else none := by
      funext k
      unfold emitOf
      by_cases h : baseName k = runF
      · simp [h]
      · simp [h]
    rw [he, filterMap_if_eq]
    congr 1
    show (((keysOf st).filter (hasPrefix pfx)).filter (baseFilter filt)).filter (fun k => baseName k == runF) = _
    rw [List.filter_filter, List.filter_filter]
    unfold keysOf
    rw [List.filter_map]
    congr 1
    apply List.filter_congr
    intro e _
    simp only [Function.comp]
    by_cases hr : (baseName e.1 == runF) = true
    · simp [hr, hrunfilt e.1 hr]
    · simp [hr]
  rw [h1, List.map_map]
  unfold resolve mergedSpec
  rw [List.filterMap_map]
  apply filterMap_eq_map_of
  intro e he
  obtain ⟨hem, hcond⟩ := List.mem_filter.mp he
  rw [Bool.and_eq_true] at hcond
  obtain ⟨hp, hrun⟩ := hcond
  simp only [Function.comp, id]
  obtain ⟨x, hx⟩ := hasPrefix_iff.mp hp
  obtain ⟨y, hy⟩ := prefix_of_dirName p0 e.1 x hx
  have hdend : ∃ a, dirName e.1 = a ++ ['/'] :=
    dirName_ends e.1 (dirName_ne_of_slash e.1 (by rw [hx]; simp [pfx]))
  have hdb := dir_base_of_dir (dirName e.1) doneF hdend H.hD
  have hdoneF : doneKeyOf doneF e.1 ∈ keysOf st → doneKeyOf doneF e.1 ∈ F := by
    intro hmem
    apply List.mem_filter.mpr
    refine ⟨List.mem_filter.mpr ⟨hmem, ?_⟩, ?_⟩
    · apply hasPrefix_iff.mpr
      refine ⟨y ++ doneF, ?_⟩
      unfold doneKeyOf
      rw [hy]
      simp [pfx]
    · unfold baseFilter doneKeyOf
      rw [hdb.2]; exact H.fD
  unfold chosen
  by_cases hin : doneKeyOf doneF e.1 ∈ F
  · rw [if_pos hin]
    have hk : doneKeyOf doneF e.1 ∈ keysOf st :=
      (List.mem_filter.mp (List.mem_filter.mp hin).1).1
    cases hl : lookup st (doneKeyOf doneF e.1) with
    | none =>
      have := lookup_isSome_iff.mpr hk
      rw [hl] at this
      simp at this
    | some d => rfl
  · rw [if_neg hin]
    have hk : doneKeyOf doneF e.1 ∉ keysOf st := fun h => hin (hdoneF h)
    have hl : lookup st (doneKeyOf doneF e.1) = none := by
      cases hl : lookup st (doneKeyOf doneF e.1) with
      | none => rfl
      | some d =>
        exfalso; apply hk
        apply lookup_isSome_iff.mp
        rw [hl]; rfl
    rw [hl, lookup_of_mem hnd (k := e.1) (d := e.2) hem]
    rfl

theorem merged_stream_perm (st : Store) (p0 : List Char) (filt doneF runF : List Char)
    (H : MergedHyp st p0 filt doneF runF) (n : Nat) (hn : 0 < n) (sched : Sched) (hs : IsSched sched) :
    (stream st id sched (mergeBatches doneF []
      (fetchBatches (listItems (keysOf st) (p0 ++ ['/']) false) n (baseFilter filt)))).Perm
      (mergedSpec st (p0 ++ ['/']) doneF runF) := by
  have hpne : p0 ++ ['/'] ≠ [] := by simp
  have hitems : listItems (keysOf st) (p0 ++ ['/']) false =
      (keysOf st).filter (hasPrefix (p0 ++ ['/'])) := by simp [listItems]
  have hflat := fetchBatches_flatten (listItems (keysOf st) (p0 ++ ['/']) false) n hn
    (baseFilter filt) (listItems_plain_ne hpne) (listItems_plain_sorted H.sorted _)
  have h1 := stream_perm st id sched hs (mergeBatches doneF []
      (fetchBatches (listItems (keysOf st) (p0 ++ ['/']) false) n (baseFilter filt)))
  rw [hitems] at hflat h1 ⊢
  rw [mergeBatches_spec doneF runF _ (merged_scan_hyp st p0 filt doneF runF H) _ hflat] at h1
  rw [merged_resolve st p0 filt doneF runF H] at h1
  exact h1

/-! ## H. the listings are complete and exact, for every page size -/

/-- the listing succeeds and returns, as a multiset, exactly `spec` -/
def OkPerm (res : Res) (spec : List Entry) : Prop := ∃ l, res = .ok l ∧ l.Perm spec

theorem okPerm_full_of_apply {k : Kind} {m v : Store} {r d : Name} {n : Nat} {sched : Sched}
    {spec : List Entry} (h : OkPerm (applyList k m v r d n sched) spec) :
    OkPerm (fullList k m v r d n sched) spec := by
  obtain ⟨l, hl, hp⟩ := h
  unfold fullList
  rw [hl]
  by_cases hk : k = .bundles
  · exact ⟨l, by simp [hk], hp⟩
  · exact ⟨isort entLe l, by simp [hk], (isort_perm _ _).trans hp⟩

/-- **repositories**: `ListRepos` / `ListReposApply` return every repository descriptor of the
    store exactly once and nothing else, for every page size and completion order. -/
theorem C07_repos_complete_exact (m v : Store) (r d : Name) (hm : Sorted (keysOf m))
    (n : Nat) (hn : 0 < n) (sched : Sched) (hs : IsSched sched) :
    OkPerm (applyList .repos m v r d n sched) (m.filter (fun e => hasPrefix reposPrefix e.1)) ∧
    OkPerm (fullList .repos m v r d n sched) (m.filter (fun e => hasPrefix reposPrefix e.1)) := by
  have h : OkPerm (applyList .repos m v r d n sched) (m.filter (fun e => hasPrefix reposPrefix e.1)) :=
    ⟨_, rfl, plain_stream_perm m hm reposPrefix (by decide) n hn sched hs⟩
  exact ⟨h, okPerm_full_of_apply h⟩

/-- **bundles**: `ListBundles` / `ListBundlesApply` of a repository return exactly the
    `bundles/<repo>/<id>/bundle.yaml` descriptors of that repository, each once — no file list, no
    interrupted upload, no bundle of a repository whose name extends `<repo>`. -/
theorem C07_bundles_complete_exact (m v : Store) (r d : Name) (hm : Sorted (keysOf m))
    (hr : repoExists m r = true) (hd : BundleDirs m r)
    (n : Nat) (hn : 0 < n) (sched : Sched) (hs : IsSched sched) :
    OkPerm (applyList .bundles m v r d n sched) (m.filter (fun e => isBundleDesc r e.1)) ∧
    OkPerm (fullList .bundles m v r d n sched) (m.filter (fun e => isBundleDesc r e.1)) := by
  have h : OkPerm (applyList .bundles m v r d n sched) (m.filter (fun e => isBundleDesc r e.1)) :=
    ⟨_, by simp [applyList, hr], bundles_stream_perm m hm r hd n hn sched hs⟩
  exact ⟨h, okPerm_full_of_apply h⟩

theorem labelPrefix_ne (r : Name) : labelPrefix r ≠ [] := by
  simp [labelPrefix]

/-- **labels**: every label descriptor under `labels/<repo>/`, each once. -/
theorem C07_labels_complete_exact (m v : Store) (r d : Name) (hv : Sorted (keysOf v))
    (hr : repoExists m r = true)
    (n : Nat) (hn : 0 < n) (sched : Sched) (hs : IsSched sched) :
    OkPerm (applyList .labels m v r d n sched) (v.filter (fun e => hasPrefix (labelPrefix r) e.1)) ∧
    OkPerm (fullList .labels m v r d n sched) (v.filter (fun e => hasPrefix (labelPrefix r) e.1)) := by
  have h : OkPerm (applyList .labels m v r d n sched) (v.filter (fun e => hasPrefix (labelPrefix r) e.1)) :=
    ⟨_, by simp [applyList, hr, labelsStream], plain_stream_perm v hv (labelPrefix r) (labelPrefix_ne r) n hn sched hs⟩
  exact ⟨h, okPerm_full_of_apply h⟩

theorem diamondPrefix_eq (r : Name) : diamondPrefix r = (cl!"diamonds/" ++ r) ++ ['/'] := by
  simp [diamondPrefix]

theorem splitPrefix_eq (r d : Name) : splitPrefix r d = (diamondPrefix r ++ d ++ cl!"/splits") ++ ['/'] := by
  simp [splitPrefix]

/-- what is assumed of the versioned metadata store for a listing of diamonds -/
def DiamondShape (v : Store) (r : Name) : Prop :=
  ∀ k ∈ keysOf v, hasPrefix (diamondPrefix r) k = true → baseFilter diamondFilter k = true →
    baseName k = diamondDone ∨ baseName k = diamondRunning

def SplitShape (v : Store) (r d : Name) : Prop :=
  ∀ k ∈ keysOf v, hasPrefix (splitPrefix r d) k = true → baseFilter splitFilter k = true →
    baseName k = splitDone ∨ baseName k = splitRunning

/-- **diamonds**: one entry per `diamond-running.yaml` under `diamonds/<repo>/` (an initialized
    diamond exists), the `diamond-done.yaml` descriptor when the diamond reached a final state —
    whatever the page size and however many split / index-file keys share the prefix. -/
theorem C07_diamonds_complete_exact (m v : Store) (r d : Name) (hv : Sorted (keysOf v))
    (hr : repoExists m r = true) (hshape : DiamondShape v r)
    (n : Nat) (hn : 0 < n) (sched : Sched) (hs : IsSched sched) :
    OkPerm (applyList .diamonds m v r d n sched)
      (mergedSpec v (diamondPrefix r) diamondDone diamondRunning) ∧
    OkPerm (fullList .diamonds m v r d n sched)
      (mergedSpec v (diamondPrefix r) diamondDone diamondRunning) := by
  have H : MergedHyp v (cl!"diamonds/" ++ r) diamondFilter diamondDone diamondRunning :=
    ⟨hv, by rw [← diamondPrefix_eq]; exact hshape, by decide, by decide, by decide, by decide, by decide⟩
  have hp := merged_stream_perm v _ _ _ _ H n hn sched hs
  rw [← diamondPrefix_eq] at hp
  have h : OkPerm (applyList .diamonds m v r d n sched)
      (mergedSpec v (diamondPrefix r) diamondDone diamondRunning) :=
    ⟨_, by simp [applyList, hr, diamondsStream], hp⟩
  exact ⟨h, okPerm_full_of_apply h⟩

/-- **splits** of a diamond: one entry per `split-running.yaml` under
    `diamonds/<repo>/<diamond>/splits/`, the `split-done.yaml` descriptor when the split is done —
    however many index files each split holds. -/
theorem C07_splits_complete_exact (m v : Store) (r d : Name) (hv : Sorted (keysOf v))
    (hr : repoExists m r = true) (hdia : (lookup v (diamondRunningKey r d)).isSome = true)
    (hshape : SplitShape v r d)
    (n : Nat) (hn : 0 < n) (sched : Sched) (hs : IsSched sched) :
    OkPerm (applyList .splits m v r d n sched)
      (mergedSpec v (splitPrefix r d) splitDone splitRunning) ∧
    OkPerm (fullList .splits m v r d n sched)
      (mergedSpec v (splitPrefix r d) splitDone splitRunning) := by
  have H : MergedHyp v (diamondPrefix r ++ d ++ cl!"/splits") splitFilter splitDone splitRunning :=
    ⟨hv, by rw [← splitPrefix_eq]; exact hshape, by decide, by decide, by decide, by decide, by decide⟩
  have hp := merged_stream_perm v _ _ _ _ H n hn sched hs
  rw [← splitPrefix_eq] at hp
  have h : OkPerm (applyList .splits m v r d n sched)
      (mergedSpec v (splitPrefix r d) splitDone splitRunning) :=
    ⟨_, by simp [applyList, hr, hdia, splitsStream], hp⟩
  exact ⟨h, okPerm_full_of_apply h⟩

/-- a listing of an unknown repository (or diamond) fails, it does not return an empty list -/
theorem C07_missing_notfound (k : Kind) (m v : Store) (r d : Name) (n : Nat) (sched : Sched)
    (hk : k ≠ .repos) (hr : repoExists m r = false) :
    applyList k m v r d n sched = .notfound ∧ fullList k m v r d n sched = .notfound := by
  cases k <;> simp_all [applyList, fullList]

/-! ## I. order -/

/-- **`ListRepos`, `ListLabels`, `ListDiamonds`, `ListSplits` are sorted** by the kind's sort field
    (name, bundle id, start time) for every page size and completion order. -/
theorem C07_full_ordered (k : Kind) (hk : k ≠ .bundles) (m v : Store) (r d : Name) (n : Nat)
    (sched : Sched) (l : List Entry) (h : fullList k m v r d n sched = .ok l) : SortedBySk l := by
  unfold fullList at h
  cases ha : applyList k m v r d n sched with
  | notfound => rw [ha] at h; simp at h
  | ok l0 =>
    rw [ha] at h
    simp only [hk, if_false, Res.ok.injEq] at h
    rw [← h]
    exact isort_entLe_sorted l0

theorem fetchBatch_sorted (st : Store) (res : Key → Key) (sched : Sched) (b : List Key) :
    SortedBySk (fetchBatch st res sched b) := isort_entLe_sorted _

/-- **the streaming variants are ordered exactly when no batch boundary is out of order**: the
    stream of a `*Apply` listing is sorted iff every object of an earlier batch sorts before (or
    like) every object of a later batch. -/
theorem C07_apply_ordered_iff (st : Store) (res : Key → Key) (sched : Sched) (bs : List (List Key)) :
    SortedBySk (stream st res sched bs) ↔
      (bs.map (fetchBatch st res sched)).Pairwise
        (fun b1 b2 => ∀ x ∈ b1, ∀ y ∈ b2, entLe x y = true) := by
  unfold SortedBySk stream
  rw [List.pairwise_flatten]
  constructor
  · intro h; exact h.2
  · intro h
    refine ⟨?_, h⟩
    intro l hl
    obtain ⟨b, _, rfl⟩ := List.mem_map.mp hl
    exact fetchBatch_sorted st res sched b

theorem stream_cons (st : Store) (res : Key → Key) (sched : Sched) (b : List Key) (bs : List (List Key)) :
    stream st res sched (b :: bs) = fetchBatch st res sched b ++ stream st res sched bs := by
  simp [stream]

theorem stream_sched_indep (st : Store) (res : Key → Key) (s1 s2 : Sched) (h1 : IsSched s1) (h2 : IsSched s2)
    (bs : List (List Key)) :
    (stream st res s1 bs).Perm (stream st res s2 bs) ∧
      (stream st res s1 bs).map sk = (stream st res s2 bs).map sk := by
  induction bs with
  | nil => simp [stream]
  | cons b bs ih =>
    rw [stream_cons, stream_cons]
    have hp : (fetchBatch st res s1 b).Perm (fetchBatch st res s2 b) :=
      (fetchBatch_perm st res s1 h1 b).trans (fetchBatch_perm st res s2 h2 b).symm
    have hk := sorted_perm_sk_eq _ _ (fetchBatch_sorted st res s1 b) (fetchBatch_sorted st res s2 b) hp
    exact ⟨List.Perm.append hp ih.1, by rw [List.map_append, List.map_append, hk, ih.2]⟩

/-- two results agree up to the order inside runs of equal sort fields -/
def SameUpToTies : Res → Res → Prop
  | .notfound, .notfound => True
  | .ok l1, .ok l2 => l1.Perm l2 ∧ l1.map sk = l2.map sk
  | _, _ => False

/-- **the completion order of the parallel fetches does not matter**: two runs of the same listing
    return the same objects, with the same sequence of sort fields. -/
theorem C07_list_perm (k : Kind) (m v : Store) (r d : Name) (n : Nat)
    (s1 s2 : Sched) (h1 : IsSched s1) (h2 : IsSched s2) :
    SameUpToTies (applyList k m v r d n s1) (applyList k m v r d n s2) ∧
    SameUpToTies (fullList k m v r d n s1) (fullList k m v r d n s2) := by
  have ha : SameUpToTies (applyList k m v r d n s1) (applyList k m v r d n s2) := by
    cases k
    · exact stream_sched_indep m id s1 s2 h1 h2 _
    · unfold applyList
      by_cases hr : repoExists m r = true
      · simp only [hr, if_true]; exact stream_sched_indep m _ s1 s2 h1 h2 _
      · simp only [hr]; trivial
    · unfold applyList
      by_cases hr : repoExists m r = true
      · simp only [hr, if_true]; exact stream_sched_indep v id s1 s2 h1 h2 _
      · simp only [hr]; trivial
    · unfold applyList
      by_cases hr : repoExists m r = true
      · simp only [hr, if_true]; exact stream_sched_indep v id s1 s2 h1 h2 _
      · simp only [hr]; trivial
    · unfold applyList
      by_cases hr : (repoExists m r && (lookup v (diamondRunningKey r d)).isSome) = true
      · simp only [hr, if_true]; exact stream_sched_indep v id s1 s2 h1 h2 _
      · simp only [hr]; trivial
  refine ⟨ha, ?_⟩
  unfold fullList
  cases e1 : applyList k m v r d n s1 with
  | notfound =>
    cases e2 : applyList k m v r d n s2 with
    | notfound => trivial
    | ok l2 => rw [e1, e2] at ha; exact ha.elim
  | ok l1 =>
    cases e2 : applyList k m v r d n s2 with
    | notfound => rw [e1, e2] at ha; exact ha.elim
    | ok l2 =>
      rw [e1, e2] at ha
      have ha' : l1.Perm l2 ∧ l1.map sk = l2.map sk := ha
      by_cases hk : k = .bundles
      · simp only [hk, if_true]; exact ha'
      · simp only [hk, if_false]
        have hp : (isort entLe l1).Perm (isort entLe l2) :=
          ((isort_perm _ l1).trans ha'.1).trans (isort_perm _ l2).symm
        exact ⟨hp, sorted_perm_sk_eq _ _ (isort_entLe_sorted l1) (isort_entLe_sorted l2) hp⟩

theorem lt_append_slash : ∀ (a b x y : List Char), (∀ c ∈ a, '/' < c) → (∀ c ∈ b, '/' < c) → a < b →
    a ++ '/' :: x < b ++ '/' :: y := by
  intro a
  induction a with
  | nil =>
    intro b x y _ hb h
    cases b with
    | nil => simp at h
    | cons c b =>
      simp only [List.nil_append, List.cons_append]
      exact List.cons_lt_cons_iff.mpr (Or.inl (hb c List.mem_cons_self))
  | cons c a ih =>
    intro b x y ha hb h
    cases b with
    | nil => simp at h
    | cons d b =>
      simp only [List.cons_append]
      rcases List.cons_lt_cons_iff.mp h with h | ⟨h1, h2⟩
      · exact List.cons_lt_cons_iff.mpr (Or.inl h)
      · exact List.cons_lt_cons_iff.mpr (Or.inr ⟨h1, ih b x y
          (fun c' hc => ha c' (List.mem_cons_of_mem _ hc)) (fun c' hc => hb c' (List.mem_cons_of_mem _ hc)) h2⟩)

/-- bundle descriptors carry the id of their directory (no start time), and bundle ids — KSUIDs:
    digits and letters — only hold characters above `/` -/
def BundleIds (m : Store) (r : Name) : Prop :=
  ∀ e ∈ m, ∀ i : List Char, '/' ∉ i →
    e.1 = bundlePrefix r ++ (i ++ cl!"/bundle.yaml") →
      e.2.s = i ∧ e.2.t = 0 ∧ ∀ c ∈ i, '/' < c

theorem bundle_entry_of_mem (m : Store) (r : Name) (hd : BundleDirs m r) (hid : BundleIds m r)
    (p : List Key) (hp : ∀ k ∈ p, k ∈ listItems (keysOf m) (bundlePrefix r) true)
    (sched : Sched) (hs : IsSched sched) (x : Entry)
    (hx : x ∈ fetchBatch m (· ++ bundleFile) sched (p.filter (fun _ => true))) :
    ∃ it ∈ p, ∃ i : List Char, it = bundlePrefix r ++ (i ++ ['/']) ∧
      x.2.s = i ∧ x.2.t = 0 ∧ ∀ c ∈ i, '/' < c := by
  have hx' := (fetchBatch_perm m _ sched hs _).mem_iff.mp hx
  obtain ⟨it, hit, hres, hl⟩ := mem_resolve.mp hx'
  have hitp : it ∈ p := (List.mem_filter.mp hit).1
  have hitem := hp it hitp
  simp only [listItems, if_true] at hitem
  obtain ⟨k0, hk0, hcut⟩ := List.mem_map.mp (mem_sortDedup.mp hitem)
  obtain ⟨hk0m, hpre⟩ := List.mem_filter.mp hk0
  obtain ⟨i, y, hi, hk⟩ := hd k0 hk0m hpre
  have hitl : it = bundlePrefix r ++ (i ++ ['/']) := by
    rw [← hcut, cutAt_of_slash _ _ i y hi hk]
  have hx1 : x.1 = bundlePrefix r ++ (i ++ cl!"/bundle.yaml") := by
    rw [← hres, hitl]; simp [bundleFile]
  obtain ⟨h1, h2, h3⟩ := hid x (mem_of_lookup hl) i hi hx1
  exact ⟨it, hitp, i, hitl, h1, h2, h3⟩

/-- **`ListBundles` / `ListBundlesApply` are sorted by bundle id for every page size**: key order
    is id order (ids hold no character below `/`), so batches sorted by id and handed over in key
    order stay sorted. -/
theorem C07_bundles_ordered (m : Store) (r : Name) (hd : BundleDirs m r)
    (hid : BundleIds m r) (n : Nat) (hn : 0 < n) (sched : Sched) (hs : IsSched sched) :
    SortedBySk (bundlesStream m r n sched) := by
  unfold bundlesStream
  rw [C07_apply_ordered_iff]
  have hsorted : Sorted (listItems (keysOf m) (bundlePrefix r) true) := by
    simp only [listItems, if_true]; exact sortDedup_sorted _
  have hpages := C07_fetch_complete _ n hn (bundle_items_ne m r) hsorted
  have hcross : (fetchPages (listItems (keysOf m) (bundlePrefix r) true) n
      ((listItems (keysOf m) (bundlePrefix r) true).length + 1) []).Pairwise
      (fun p1 p2 => ∀ a ∈ p1, ∀ b ∈ p2, a < b) := by
    have : Sorted (fetchPages (listItems (keysOf m) (bundlePrefix r) true) n
      ((listItems (keysOf m) (bundlePrefix r) true).length + 1) []).flatten := by rw [hpages]; exact hsorted
    exact (List.pairwise_flatten.mp this).2
  have hsub : ∀ p ∈ fetchPages (listItems (keysOf m) (bundlePrefix r) true) n
      ((listItems (keysOf m) (bundlePrefix r) true).length + 1) [],
      ∀ k ∈ p, k ∈ listItems (keysOf m) (bundlePrefix r) true := by
    intro p hp k hk
    rw [← hpages]
    exact List.mem_flatten.mpr ⟨p, hp, hk⟩
  unfold fetchBatches
  rw [List.map_map]
  apply List.pairwise_map.mpr
  apply List.Pairwise.imp_of_mem _ hcross
  intro p1 p2 hp1 hp2 h12 x hx y hy
  obtain ⟨itx, hitx, ix, hxl, hxs, hxt, hxc⟩ :=
    bundle_entry_of_mem m r hd hid p1 (hsub p1 hp1) sched hs x hx
  obtain ⟨ity, hity, iy, hyl, hys, hyt, hyc⟩ :=
    bundle_entry_of_mem m r hd hid p2 (hsub p2 hp2) sched hs y hy
  have hlt : itx < ity := h12 itx hitx ity hity
  unfold entLe
  rw [skLe_iff]
  right
  refine ⟨by simp [sk, hxt, hyt], ?_⟩
  apply KO.not_lt.mp
  intro hcontra
  have h1 : y.2.s < x.2.s := hcontra
  rw [hxs, hys] at h1
  have h2 := lt_append_slash iy ix [] [] hyc hxc h1
  have h3 : ity < itx := by
    rw [hxl, hyl]
    exact append_left_lt _ _ _ h2
  exact KO.lt_asymm hlt h3

/-- a bundle, label or diamond of ANOTHER repository is never under the prefix of `<repo>`, also
    when that other repository's name extends `<repo>` (`a` vs `a-b`). -/
theorem C07_other_repo_excluded (r r' x : Name) (hr : '/' ∉ r) (hr' : '/' ∉ r') (hne : r ≠ r') :
    hasPrefix (bundlePrefix r) (bundleKey r' x) = false ∧
    hasPrefix (labelPrefix r) (labelKey r' x) = false ∧
    hasPrefix (diamondPrefix r) (diamondRunningKey r' x) = false ∧
    hasPrefix (diamondPrefix r) (diamondDoneKey r' x) = false := by
  have key : ∀ (kind rest : List Char), hasPrefix (kind ++ r ++ ['/']) (kind ++ r' ++ ['/'] ++ rest) = false := by
    intro kind rest
    cases h : hasPrefix (kind ++ r ++ ['/']) (kind ++ r' ++ ['/'] ++ rest)
    · rfl
    · exact absurd ((C07_prefix_selects_repo kind r r' rest hr hr').mp h) hne
  refine ⟨?_, ?_, ?_, ?_⟩
  · have := key cl!"bundles/" (x ++ cl!"/bundle.yaml")
    simpa [bundlePrefix, bundleKey] using this
  · have := key cl!"labels/" (x ++ cl!"/label.yaml")
    simpa [labelPrefix, labelKey] using this
  · have := key cl!"diamonds/" (x ++ cl!"/diamond-running.yaml")
    simpa [diamondPrefix, diamondRunningKey] using this
  · have := key cl!"diamonds/" (x ++ cl!"/diamond-done.yaml")
    simpa [diamondPrefix, diamondDoneKey] using this

/-! ## I'. a listing only sees the slice of the store under its prefix -/

theorem lookup_restrict (st : Store) (pfx k : Key) (h : hasPrefix pfx k = true) :
    lookup (restrict st pfx) k = lookup st k := by
  induction st with
  | nil => rfl
  | cons e rest ih =>
    unfold restrict at ih ⊢
    rw [List.filter_cons]
    by_cases he : e.1 = k
    · have : hasPrefix pfx e.1 = true := by rw [he]; exact h
      rw [if_pos this]
      simp only [lookup, he, if_true]
    · by_cases hp : hasPrefix pfx e.1 = true
      · simp only [hp, if_true, lookup, he, if_false]; exact ih
      · simp only [hp, lookup, he, if_false]; exact ih

theorem keysOf_restrict (st : Store) (pfx : Key) :
    keysOf (restrict st pfx) = (keysOf st).filter (hasPrefix pfx) := by
  unfold keysOf restrict
  rw [List.filter_map]
  rfl

theorem listItems_restrict (st : Store) (pfx : Key) (delim : Bool) :
    listItems (keysOf (restrict st pfx)) pfx delim = listItems (keysOf st) pfx delim := by
  unfold listItems
  rw [keysOf_restrict, List.filter_filter]
  simp

theorem resolve_restrict (st : Store) (pfx : Key) (res : Key → Key) (b : List Key)
    (h : ∀ k ∈ b, hasPrefix pfx (res k) = true) :
    resolve (restrict st pfx) res b = resolve st res b := by
  induction b with
  | nil => rfl
  | cons k b ih =>
    unfold resolve at ih ⊢
    rw [List.filterMap_cons, List.filterMap_cons, lookup_restrict st pfx (res k) (h k List.mem_cons_self),
      ih (fun k' hk' => h k' (List.mem_cons_of_mem _ hk'))]

theorem stream_restrict (st : Store) (pfx : Key) (res : Key → Key) (sched : Sched) (bs : List (List Key))
    (h : ∀ b ∈ bs, ∀ k ∈ b, hasPrefix pfx (res k) = true) :
    stream (restrict st pfx) res sched bs = stream st res sched bs := by
  unfold stream
  congr 1
  apply List.map_congr_left
  intro b hb
  unfold fetchBatch
  rw [resolve_restrict st pfx res b (h b hb)]

theorem page_subset (items : List Key) (tok : Key) (n : Nat) : ∀ k ∈ (page items tok n).1, k ∈ items := by
  intro k hk
  unfold page at hk
  exact (List.mem_filter.mp (List.mem_of_mem_take hk)).1

theorem fetchPages_subset (items : List Key) (n : Nat) :
    ∀ (fuel : Nat) (tok : Key), ∀ p ∈ fetchPages items n fuel tok, ∀ k ∈ p, k ∈ items := by
  intro fuel
  induction fuel with
  | zero => intro tok p hp; simp [fetchPages] at hp
  | succ fuel ih =>
    intro tok p hp k hk
    unfold fetchPages at hp
    simp only at hp
    split at hp
    · simp at hp
    · split at hp
      · rw [List.mem_singleton] at hp; subst hp; exact page_subset items tok n k hk
      · rcases List.mem_cons.mp hp with rfl | hp
        · exact page_subset items tok n k hk
        · exact ih _ p hp k hk

theorem fetchBatches_subset (items : List Key) (n : Nat) (filt : Key → Bool) :
    ∀ b ∈ fetchBatches items n filt, ∀ k ∈ b, k ∈ items := by
  intro b hb k hk
  unfold fetchBatches at hb
  obtain ⟨p, hp, rfl⟩ := List.mem_map.mp hb
  exact fetchPages_subset items n _ _ p hp k (List.mem_filter.mp hk).1

theorem mem_listItems_hasPrefix (keys : List Key) (pfx : Key) (delim : Bool) :
    ∀ k ∈ listItems keys pfx delim, hasPrefix pfx k = true := by
  intro k hk
  unfold listItems at hk
  by_cases hd : delim = true
  · simp only [hd, if_true] at hk
    obtain ⟨k0, hk0, rfl⟩ := List.mem_map.mp (mem_sortDedup.mp hk)
    exact cutAt_hasPrefix (List.mem_filter.mp hk0).2
  · simp only [hd, Bool.false_eq_true, if_false] at hk
    exact (List.mem_filter.mp hk).2

/-- `mergeKeys` only hands over keys it was given -/
def MKeysP (P : Key → Prop) (σ : MMap) : Prop := ∀ id, (mmGet σ id).isFinal = true → P (mmGet σ id).key

theorem mergeKey_keys (P : Key → Prop) (doneF : List Char) (σ : MMap) (k : Key) (hσ : MKeysP P σ) (hk : P k) :
    MKeysP P (mergeKey doneF σ k).1 ∧ ∀ x, (mergeKey doneF σ k).2 = some x → P x := by
  have hret : P (if ((mmGet σ (dirName k)).isFinal && !(baseName k == doneF)) = true
      then (mmGet σ (dirName k)).key else k) := by
    split
    · rename_i h
      rw [Bool.and_eq_true] at h
      exact hσ _ h.1
    · exact hk
  unfold mergeKey
  simp only
  split
  · refine ⟨?_, ?_⟩
    · intro id hfin
      by_cases hid : id = dirName k
      · subst hid; rw [mmGet_erase_self] at hfin; simp at hfin
      · rw [mmGet_erase_other _ _ _ hid] at hfin ⊢; exact hσ id hfin
    · intro x hx
      simp only [Option.some.injEq] at hx
      rw [← hx]; exact hret
  · refine ⟨?_, ?_⟩
    · intro id hfin
      by_cases hid : id = dirName k
      · subst hid; rw [mmGet_set_self]; exact hret
      · rw [mmGet_set_other _ _ _ _ hid] at hfin ⊢; exact hσ id hfin
    · intro x hx; simp at hx

theorem mergeBatch_keys (P : Key → Prop) (doneF : List Char) :
    ∀ (b : List Key) (σ : MMap), MKeysP P σ → (∀ k ∈ b, P k) →
      MKeysP P (mergeBatch doneF σ b).1 ∧ ∀ x ∈ (mergeBatch doneF σ b).2, P x := by
  intro b
  induction b with
  | nil => intro σ hσ _; exact ⟨hσ, by simp [mergeBatch]⟩
  | cons k b ih =>
    intro σ hσ hb
    have h1 := mergeKey_keys P doneF σ k hσ (hb k List.mem_cons_self)
    have h2 := ih (mergeKey doneF σ k).1 h1.1 (fun k' hk' => hb k' (List.mem_cons_of_mem _ hk'))
    simp only [mergeBatch]
    refine ⟨h2.1, ?_⟩
    intro x hx
    cases hm : (mergeKey doneF σ k).2 with
    | none => rw [hm] at hx; exact h2.2 x hx
    | some y =>
      rw [hm] at hx
      rcases List.mem_cons.mp hx with rfl | hx
      · exact h1.2 _ hm
      · exact h2.2 x hx

theorem mergeBatches_keys (P : Key → Prop) (doneF : List Char) :
    ∀ (bs : List (List Key)) (σ : MMap), MKeysP P σ → (∀ b ∈ bs, ∀ k ∈ b, P k) →
      ∀ b ∈ mergeBatches doneF σ bs, ∀ x ∈ b, P x := by
  intro bs
  induction bs with
  | nil => intro σ _ _ b hb; simp [mergeBatches] at hb
  | cons b0 bs ih =>
    intro σ hσ hbs b hb x hx
    have h1 := mergeBatch_keys P doneF b0 σ hσ (hbs b0 List.mem_cons_self)
    simp only [mergeBatches] at hb
    rcases List.mem_cons.mp hb with rfl | hb
    · exact h1.2 x hx
    · exact ih _ h1.1 (fun b' hb' => hbs b' (List.mem_cons_of_mem _ hb')) b hb x hx

theorem MKeysP_nil (P : Key → Prop) : MKeysP P [] := by
  intro id h; simp [mmGet] at h

/-- **a listing only depends on the slice of the store under its prefix** (the driver replays the
    listings on that slice). -/
theorem C07_restrict (k : Kind) (m v : Store) (r d : Name) (n : Nat) (sched : Sched) :
    applyListFast k m v r d n sched = applyList k m v r d n sched ∧
    fullListFast k m v r d n sched = fullList k m v r d n sched := by
  have plain : ∀ (st : Store) (pfx : Key) (filt : Key → Bool),
      stream (restrict st pfx) id sched (fetchBatches (listItems (keysOf (restrict st pfx)) pfx false) n filt) =
      stream st id sched (fetchBatches (listItems (keysOf st) pfx false) n filt) := by
    intro st pfx filt
    rw [listItems_restrict]
    apply stream_restrict
    intro b hb k hk
    exact mem_listItems_hasPrefix _ pfx false k (fetchBatches_subset _ n filt b hb k hk)
  have merged : ∀ (st : Store) (pfx : Key) (filt doneF : List Char),
      stream (restrict st pfx) id sched (mergeBatches doneF []
        (fetchBatches (listItems (keysOf (restrict st pfx)) pfx false) n (baseFilter filt))) =
      stream st id sched (mergeBatches doneF []
        (fetchBatches (listItems (keysOf st) pfx false) n (baseFilter filt))) := by
    intro st pfx filt doneF
    rw [listItems_restrict]
    apply stream_restrict
    exact mergeBatches_keys (fun k => hasPrefix pfx k = true) doneF _ [] (MKeysP_nil _)
      (fun b hb k hk => mem_listItems_hasPrefix _ pfx false k (fetchBatches_subset _ n _ b hb k hk))
  have hb : bundlesStream (restrict m (bundlePrefix r)) r n sched = bundlesStream m r n sched := by
    unfold bundlesStream
    rw [listItems_restrict]
    apply stream_restrict
    intro b hb k hk
    have := mem_listItems_hasPrefix _ (bundlePrefix r) true k (fetchBatches_subset _ n _ b hb k hk)
    obtain ⟨x, hx⟩ := hasPrefix_iff.mp this
    exact hasPrefix_iff.mpr ⟨x ++ bundleFile, by rw [hx]; simp⟩
  have ha : applyListFast k m v r d n sched = applyList k m v r d n sched := by
    cases k
    · simp only [applyListFast, applyList, reposStream]; rw [plain]
    · simp only [applyListFast, applyList, hb]
    · simp only [applyListFast, applyList, labelsStream]; rw [plain]
    · simp only [applyListFast, applyList, diamondsStream]; rw [merged]
    · simp only [applyListFast, applyList, splitsStream]; rw [merged]
  exact ⟨ha, by unfold fullListFast fullList; rw [ha]⟩

/-! ## J. witnesses: the hypotheses are satisfiable, and what the code did before the fixes -/

def dsc (n : List Char) (t : Nat) (s : List Char) : Desc := ⟨n, t, s⟩

/-- three diamonds with one split each (DESIGN §5.0); start times decrease with the ids; the
    second diamond is done and its split holds index files -/
def vThree : Store := [
  (cl!"diamonds/a/d1/diamond-running.yaml", dsc cl!"d1" 3 []),
  (cl!"diamonds/a/d1/splits/s1/split-running.yaml", dsc cl!"s1" 1 []),
  (cl!"diamonds/a/d2/diamond-done.yaml", dsc cl!"d2" 2 []),
  (cl!"diamonds/a/d2/diamond-running.yaml", dsc cl!"d2" 2 []),
  (cl!"diamonds/a/d2/splits/s1/g1/bundle-files-0.yaml", dsc [] 0 []),
  (cl!"diamonds/a/d2/splits/s1/g1/bundle-files-1.yaml", dsc [] 0 []),
  (cl!"diamonds/a/d2/splits/s1/split-done.yaml", dsc cl!"s1" 1 []),
  (cl!"diamonds/a/d2/splits/s1/split-running.yaml", dsc cl!"s1" 1 []),
  (cl!"diamonds/a/d3/diamond-running.yaml", dsc cl!"d3" 1 []),
  (cl!"diamonds/a/d3/splits/s1/split-running.yaml", dsc cl!"s1" 1 [])]

/-- repositories `a`, `a-b`, `ab`, and some bundles (one interrupted upload, one bundle of `a-b`) -/
def mThree : Store := [
  (cl!"bundles/a-b/i9/bundle.yaml", dsc cl!"i9" 0 cl!"i9"),
  (cl!"bundles/a/i1/bundle-files-0.yaml", dsc [] 0 []),
  (cl!"bundles/a/i1/bundle.yaml", dsc cl!"i1" 0 cl!"i1"),
  (cl!"bundles/a/i2/bundle-files-0.yaml", dsc [] 0 []),
  (cl!"bundles/a/i3/bundle.yaml", dsc cl!"i3" 0 cl!"i3"),
  (cl!"repos/a-b/repo.yaml", dsc cl!"a-b" 0 cl!"a-b"),
  (cl!"repos/a/repo.yaml", dsc cl!"a" 0 cl!"a"),
  (cl!"repos/ab/repo.yaml", dsc cl!"ab" 0 cl!"ab")]

def names : Res → List String
  | .notfound => ["<notfound>"]
  | .ok l => l.map (fun e => String.ofList e.2.name)

example : Sorted (keysOf vThree) := by unfold Sorted; decide
example : Sorted (keysOf mThree) := by unfold Sorted; decide
example : DiamondShape vThree cl!"a" := by unfold DiamondShape; decide
example : SplitShape vThree cl!"a" cl!"d2" := by unfold SplitShape; decide
example : IsSched id := fun _ => List.Perm.refl _
example : IsSched List.reverse := fun l => List.reverse_perm l

example : BundleDirs mThree cl!"a" := by
  intro k hk hp
  simp only [keysOf, mThree, List.map_cons, List.map_nil, List.mem_cons, List.not_mem_nil, or_false] at hk
  rcases hk with rfl | rfl | rfl | rfl | rfl | rfl | rfl | rfl
  · exact absurd hp (by decide)
  · exact ⟨cl!"i1", cl!"bundle-files-0.yaml", by decide, by decide⟩
  · exact ⟨cl!"i1", cl!"bundle.yaml", by decide, by decide⟩
  · exact ⟨cl!"i2", cl!"bundle-files-0.yaml", by decide, by decide⟩
  · exact ⟨cl!"i3", cl!"bundle.yaml", by decide, by decide⟩
  · exact absurd hp (by decide)
  · exact absurd hp (by decide)
  · exact absurd hp (by decide)

/-- the hypotheses of `C07_bundles_ordered` are satisfiable -/
def mOne : Store := [
  (cl!"bundles/a/i1/bundle.yaml", dsc cl!"i1" 0 cl!"i1"),
  (cl!"repos/a/repo.yaml", dsc cl!"a" 0 cl!"a")]

example : BundleIds mOne cl!"a" := by
  intro e he i hi hk
  simp only [mOne, List.mem_cons, List.not_mem_nil, or_false] at he
  rcases he with rfl | rfl
  · have h1 : cl!"i1" ++ '/' :: cl!"bundle.yaml" = i ++ '/' :: cl!"bundle.yaml" := by
      have : bundlePrefix cl!"a" ++ (cl!"i1" ++ '/' :: cl!"bundle.yaml") =
          bundlePrefix cl!"a" ++ (i ++ cl!"/bundle.yaml") := hk
      exact List.append_cancel_left this
    have h2 := (slash_split_unique cl!"i1" i _ _ (by decide) hi h1).1
    subst h2
    exact ⟨rfl, rfl, by decide⟩
  · simp [bundlePrefix] at hk

example : BundleDirs mOne cl!"a" := by
  intro k hk hp
  simp only [keysOf, mOne, List.map_cons, List.map_nil, List.mem_cons, List.not_mem_nil, or_false] at hk
  rcases hk with rfl | rfl
  · exact ⟨cl!"i1", cl!"bundle.yaml", by decide, by decide⟩
  · exact absurd hp (by decide)

set_option maxRecDepth 100000

/-- the fixed code on the witnesses: every page size gives the same, complete, ordered answer -/
theorem C07_witness_fixed :
    names (fullList .diamonds mThree vThree cl!"a" [] 1 id) = ["d3", "d2", "d1"] ∧
    names (fullList .diamonds mThree vThree cl!"a" [] 2 id) = ["d3", "d2", "d1"] ∧
    names (fullList .diamonds mThree vThree cl!"a" [] 100 List.reverse) = ["d3", "d2", "d1"] ∧
    names (fullList .splits mThree vThree cl!"a" cl!"d2" 1 id) = ["s1"] ∧
    names (fullList .repos mThree vThree [] [] 1 id) = ["a", "a-b", "ab"] ∧
    names (fullList .repos mThree vThree [] [] 100 id) = ["a", "a-b", "ab"] ∧
    names (fullList .bundles mThree vThree cl!"a" [] 1 id) = ["i1", "i3"] ∧
    names (fullList .bundles mThree vThree cl!"a" [] 2 List.reverse) = ["i1", "i3"] ∧
    names (fullList .bundles mThree vThree cl!"a-b" [] 1 id) = ["i9"] ∧
    names (fullList .bundles mThree vThree cl!"zz" [] 1 id) = ["<notfound>"] := by decide +kernel

/-- **before `fix: diamond and split listings stop at a page left empty by the descriptor filter`**:
    with page size 1 the second page of the scan holds only a split key, is empty after the
    `diamond-` filter and ended the listing — one diamond of three; the splits of `d2` (first page:
    an index file) were not listed at all. -/
theorem C07_neg_old_early_stop :
    (diamondsStreamOld vThree cl!"a" 1 id).map (·.2.name) = [cl!"d1"] ∧
    (diamondsStreamOld vThree cl!"a" 100 id).map (·.2.name) = [cl!"d3", cl!"d2", cl!"d1"] ∧
    (splitsStreamOld vThree cl!"a" cl!"d2" 1 id).map (·.2.name) = [] ∧
    (splitsStream vThree cl!"a" cl!"d2" 1 id).map (·.2.name) = [cl!"s1"] := by decide +kernel

/-- **before `fix: full listings … are ordered whatever the batch size`** `ListRepos` returned the
    stream as is: `[a-b, a, ab]` with page size 1, `[a, a-b, ab]` with page size 100. -/
theorem C07_neg_old_order_depends_on_page_size :
    (reposStream mThree 1 id).map (·.2.name) = [cl!"a-b", cl!"a", cl!"ab"] ∧
    (reposStream mThree 100 id).map (·.2.name) = [cl!"a", cl!"a-b", cl!"ab"] := by decide +kernel

/-- **known finding C07-apply-order**: the streaming variants still hand over batches in key order;
    the order seen by the callback depends on the page size (repos by name, diamonds by start time). -/
theorem C07_neg_apply_order_depends_on_page_size :
    names (applyList .repos mThree vThree [] [] 1 id) = ["a-b", "a", "ab"] ∧
    names (applyList .repos mThree vThree [] [] 100 id) = ["a", "a-b", "ab"] ∧
    sortedBySk (reposStream mThree 1 id) = false ∧
    names (applyList .diamonds mThree vThree cl!"a" [] 1 id) = ["d1", "d2", "d3"] ∧
    names (applyList .diamonds mThree vThree cl!"a" [] 100 id) = ["d3", "d2", "d1"] ∧
    sortedBySk (diamondsStream vThree cl!"a" 1 id) = false := by decide +kernel

/-! ## K. facts regenerated from the Go sources on every run -/

/-- the path roots and descriptor file names of `pkg/model` are the ones the model uses -/
theorem C07_facts_paths :
    Facts.c07ReposRoot.toList = reposPrefix ∧
    (Facts.c07ReposRoot ++ "r" ++ "/" ++ Facts.c07RepoFile).toList = repoKey cl!"r" ∧
    (Facts.c07BundlesRoot ++ "r" ++ "/").toList = bundlePrefix cl!"r" ∧
    Facts.c07BundleFile.toList = bundleFile ∧
    (Facts.c07LabelsRoot ++ "r" ++ "/" ++ "l" ++ "/" ++ Facts.c07LabelFile).toList = labelKey cl!"r" cl!"l" ∧
    (Facts.c07DiamondsRoot ++ "r" ++ "/").toList = diamondPrefix cl!"r" ∧
    (Facts.c07DiamondsRoot ++ "r" ++ "/" ++ "d" ++ "/" ++ Facts.c07SplitsElem ++ "/").toList = splitPrefix cl!"r" cl!"d" ∧
    Facts.c07DiamondDone.toList = diamondDone ∧ Facts.c07DiamondRunning.toList = diamondRunning ∧
    Facts.c07SplitDone.toList = splitDone ∧ Facts.c07SplitRunning.toList = splitRunning := by decide

/-- the call sites of the listings: delimiters, base-name filters (handed to `fetchKeys`, which
    applies them after its empty-page test), final sorts — as modelled. The filters keep the two
    descriptor states and drop the index files. -/
theorem C07_facts_calls :
    Facts.c07Delims = [("repos", ""), ("bundles", "/"), ("labels", ""), ("diamonds", ""), ("splits", "")] ∧
    Facts.c07BaseFilters = [("diamonds", String.ofList diamondFilter), ("splits", String.ofList splitFilter)] ∧
    Facts.c07FilterAfterEmptyTest = true ∧
    Facts.c07FinalSort = ["ListDiamonds", "ListLabels", "ListRepos", "ListSplits"] ∧
    diamondFilter.isPrefixOf Facts.c07IndexFilePrefix.toList = false ∧
    splitFilter.isPrefixOf Facts.c07IndexFilePrefix.toList = false := by decide

end Listing
