import DatamonVerif.Model.WalSlots
import DatamonVerif.Generated.Facts
/-! C19: the WAL never starves itself — slots taken = reads in flight, whatever the reads' outcomes. -/
namespace WalSlots

theorem step_inv (s s' : St) (e : Ev) (h : step always s e = some s') (hinv : s.used = s.running) :
    s'.used = s'.running ∧ s'.cap = s.cap := by
  cases e with
  | issue =>
    simp only [step] at h
    split at h
    · cases h; exact ⟨by simp [hinv], rfl⟩
    · cases h
  | finish o =>
    simp only [step] at h
    split at h
    · cases h
    · cases h; exact ⟨by simp [always, hinv], rfl⟩

/-- **slots taken = reads in flight**, after any history of issued and finished reads with any
    outcomes: when no read is in flight every slot is free again, so a later listing can always
    start its reads -/
theorem C19_slots_exact (evs : List Ev) :
    ∀ s : St, s.used = s.running → ∀ s', run always s evs = some s' → s'.used = s'.running := by
  induction evs with
  | nil => intro s h s' hr; simp only [run] at hr; cases hr; exact h
  | cons e es ih =>
    intro s h s' hr
    simp only [run] at hr
    split at hr
    · cases hr
    · rename_i s1 hs1
      exact ih s1 (step_inv s s1 e hs1 h).1 s' hr

/-- regenerated from `pkg/wal/wal.go` on every run: `read` gives its slot back by a `defer` that is
    its first statement — on every path, which is the `always` of the model -/
theorem C19_facts_read_releases : Facts.walReadFirstStatement = "defer releaseConnection" := by decide

/-- a read that has a free slot in front of it is never refused: with nothing in flight an `issue` succeeds -/
theorem C19_idle_can_issue (s : St) (hcap : 0 < s.cap) (hinv : s.used = s.running) (hidle : s.running = 0) :
    (step always s .issue).isSome = true := by
  simp [step, hinv, hidle, hcap]

/-- the variant that releases only after a successful `Get`: two failed reads exhaust a WAL of
    capacity 2 for ever, although nothing is in flight -/
theorem C19_neg_leak_starves :
    run afterGetOnly ⟨2, 0, 0⟩ [.issue, .finish .getFailed, .issue, .finish .getFailed] = some ⟨2, 2, 0⟩ ∧
    step afterGetOnly ⟨2, 2, 0⟩ .issue = none := by decide

/-! ## Bounded concurrency and progress -/

theorem step_bound (rel : Outcome → Bool) (s s' : St) (e : Ev) (h : step rel s e = some s')
    (hb : s.used ≤ s.cap) : s'.used ≤ s'.cap ∧ s'.cap = s.cap := by
  cases e with
  | issue =>
    simp only [step] at h
    split at h
    · cases h; exact ⟨by simp; omega, rfl⟩
    · cases h
  | finish o =>
    simp only [step] at h
    split at h
    · cases h
    · cases h; refine ⟨?_, rfl⟩; simp only; split <;> omega

/-- **bounded read concurrency**: whatever the history and whatever the release discipline, never
    more slots are taken than the WAL's `maxConcurrency` — so with the code's discipline
    (`C19_slots_exact`) never more than `cap` reads are in flight -/
theorem C19_slots_bounded (rel : Outcome → Bool) (evs : List Ev) :
    ∀ s : St, s.used ≤ s.cap → ∀ s', run rel s evs = some s' → s'.used ≤ s'.cap ∧ s'.cap = s.cap := by
  induction evs with
  | nil => intro s h s' hr; simp only [run] at hr; cases hr; exact ⟨h, rfl⟩
  | cons e es ih =>
    intro s h s' hr
    simp only [run] at hr
    split at hr
    · cases hr
    · rename_i s1 hs1
      obtain ⟨b1, c1⟩ := step_bound rel s s1 e hs1 h
      obtain ⟨b2, c2⟩ := ih s1 b1 s' hr
      exact ⟨b2, c2.trans c1⟩

theorem C19_reads_in_flight_bounded (evs : List Ev) (cap : Nat) (s' : St)
    (hr : run always ⟨cap, 0, 0⟩ evs = some s') : s'.running ≤ cap := by
  have h1 := C19_slots_exact evs ⟨cap, 0, 0⟩ rfl s' hr
  obtain ⟨h2, h3⟩ := C19_slots_bounded always evs ⟨cap, 0, 0⟩ (Nat.zero_le _) s' hr
  simp only at h3
  omega

/-- **no deadlock**: in every state the code can reach, either a new read can be issued or a read
    is in flight whose end (with any outcome) is accepted — the issuer never waits for a slot that
    no running read will give back -/
theorem C19_slots_progress (s : St) (hcap : 0 < s.cap) (hinv : s.used = s.running) :
    (step always s .issue).isSome = true ∨ ∀ o, (step always s (.finish o)).isSome = true := by
  by_cases h : s.used < s.cap
  · left; simp [step, h]
  · right; intro o
    have : s.running ≠ 0 := by omega
    simp [step, this]

/-- the leaking variant reaches a state where neither is possible -/
theorem C19_neg_leak_deadlock :
    (step afterGetOnly ⟨2, 2, 0⟩ .issue).isSome = false ∧
    ∀ o, (step afterGetOnly ⟨2, 2, 0⟩ (.finish o)).isSome = false := by
  refine ⟨by decide, ?_⟩
  intro o; cases o <;> decide

example : run always ⟨2, 0, 0⟩ [.issue, .issue, .finish .getFailed, .issue] = some ⟨2, 2, 2⟩ := by decide

end WalSlots
