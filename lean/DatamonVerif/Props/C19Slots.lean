import DatamonVerif.Model.WalSlots
import DatamonVerif.Generated.Facts
/-! C19: the WAL never starves itself — slots taken = reads in flight, whatever the reads' outcomes. -/
namespace WalSlots

theorem step_inv (s s' : St) (e : Ev) (h : step always s e = some s') (hinv : s.used = s.running) :
    s'.used = s'.running ∧ s'.cap = s.cap := by
  cases e with
  | issue =>
    simp only [step] at h
    split at h
    · cases h; exact ⟨by simp [hinv], rfl⟩
    · cases h
  | finish o =>
    simp only [step] at h
    split at h
    · cases h
    · cases h; exact ⟨by simp [always, hinv], rfl⟩

/-- **slots taken = reads in flight**, after any history of issued and finished reads with any
    outcomes: when no read is in flight every slot is free again, so a later listing can always
    start its reads -/
theorem C19_slots_exact (evs : List Ev) :
    ∀ s : St, s.used = s.running → ∀ s', run always s evs = some s' → s'.used = s'.running := by
  induction evs with
  | nil => intro s h s' hr; simp only [run] at hr; cases hr; exact h
  | cons e es ih =>
    intro s h s' hr
    simp only [run] at hr
    split at hr
    · cases hr
    · rename_i s1 hs1
      exact ih s1 (step_inv s s1 e hs1 h).1 s' hr

/-- regenerated from `pkg/wal/wal.go` on every run: `read` gives its slot back by a `defer` that is
    its first statement — on every path, which is the `always` of the model -/
theorem C19_facts_read_releases : Facts.walReadFirstStatement = "defer releaseConnection" := by decide

/-- a read that has a free slot in front of it is never refused: with nothing in flight an `issue` succeeds -/
theorem C19_idle_can_issue (s : St) (hcap : 0 < s.cap) (hinv : s.used = s.running) (hidle : s.running = 0) :
    (step always s .issue).isSome = true := by
  simp [step, hinv, hidle, hcap]

/-- the variant that releases only after a successful `Get`: two failed reads exhaust a WAL of
    capacity 2 for ever, although nothing is in flight -/
theorem C19_neg_leak_starves :
    run afterGetOnly ⟨2, 0, 0⟩ [.issue, .finish .getFailed, .issue, .finish .getFailed] = some ⟨2, 2, 0⟩ ∧
    step afterGetOnly ⟨2, 2, 0⟩ .issue = none := by decide

end WalSlots
