import DatamonVerif.Model.Diff
import DatamonVerif.Generated.Facts

/-! C05 — bundle diff and in-place update are exact.

* `C05_diff_exact_general` / `C05_diff_exact`: the diff has every name once, and an entry is in
  the diff iff its path was removed, added, or changed its content key, with the right type and the
  right existing / additional entries.
* `C05_diffMaps_perm` / `C05_diff_perm`: as a set, the diff does not depend on the iteration order of
  the two Go maps nor on the order of the entries in the bundles.
* `C05_update_eq_download`: if the destination holds a download of `A`, then `Update` to `B`, with the
  diff entries processed in ANY order, succeeds and leaves exactly what a fresh download of `B` leaves
  (data files and `.datamon/` metadata).
* `C05_update_localfs_partial`: with a localfs directory as destination the same holds provided no
  path is a directory of another one (otherwise: recorded finding `C05-localfs-dir-file`, witnesses
  `C05_neg_localfs_dir_to_file`, `C05_neg_localfs_file_to_dir_order`).
* `C05_local_id`: the id of the local copy is found whatever the listing order of the store is
  (this fails for the code before `fix: … bundle id detection …`, see `C05_neg_unfixed_id_scan`). -/
namespace BundleDiff

/-! ## maps -/
section Maps
variable {α : Type}

theorem get_set (m : List (String × α)) (k : String) (v : α) (k' : String) :
    get (set m k v) k' = if k = k' then some v else get m k' := by
  induction m with
  | nil => simp [set, get]
  | cons p r ih =>
    obtain ⟨k0, v0⟩ := p
    by_cases h0 : k0 = k
    · subst h0; simp only [set, get, if_true]
      split <;> rfl
    · simp only [set, h0, if_false, get, ih]
      by_cases h1 : k0 = k'
      · subst h1; simp [Ne.symm h0]
      · simp [h1]

theorem mem_keys_set (m : List (String × α)) (k : String) (v : α) (x : String) :
    x ∈ keys (set m k v) ↔ x = k ∨ x ∈ keys m := by
  induction m with
  | nil => simp [set, keys]
  | cons p r ih =>
    obtain ⟨k0, v0⟩ := p
    by_cases h0 : k0 = k
    · subst h0; simp [set, keys]
    · simp only [keys] at ih
      simp [set, h0, keys, ih]
      constructor
      · rintro (h | h | h) <;> simp [h]
      · rintro (h | h | h) <;> simp [h]

theorem nodup_keys_set (m : List (String × α)) (k : String) (v : α) (h : (keys m).Nodup) :
    (keys (set m k v)).Nodup := by
  induction m with
  | nil => simp [set, keys]
  | cons p r ih =>
    obtain ⟨k0, v0⟩ := p
    simp only [keys, List.map_cons, List.nodup_cons] at h
    by_cases h0 : k0 = k
    · subst h0; simp only [set, if_true, keys, List.map_cons, List.nodup_cons]; exact h
    · simp only [set, h0, if_false, keys, List.map_cons, List.nodup_cons]
      refine ⟨?_, ih h.2⟩
      intro hm
      have := (mem_keys_set r k v k0).1 hm
      rcases this with h1 | h1
      · exact h0 h1
      · exact h.1 h1

theorem get_eq_none_iff (m : List (String × α)) (k : String) : get m k = none ↔ k ∉ keys m := by
  induction m with
  | nil => simp [get, keys]
  | cons p r ih =>
    obtain ⟨k0, v0⟩ := p
    simp only [keys] at ih
    by_cases h0 : k0 = k
    · subst h0; simp [get, keys]
    · simp [get, h0, keys, ih, Ne.symm h0]

theorem get_isSome_iff (m : List (String × α)) (k : String) : (get m k).isSome ↔ k ∈ keys m := by
  cases h : get m k with
  | none => simp [(get_eq_none_iff m k).1 h]
  | some v =>
    simp only [Option.isSome_some, true_iff]
    by_cases hk : k ∈ keys m
    · exact hk
    · rw [(get_eq_none_iff m k).2 hk] at h; cases h

theorem mem_of_get (m : List (String × α)) (k : String) (v : α) (h : get m k = some v) : (k, v) ∈ m := by
  induction m with
  | nil => simp [get] at h
  | cons p r ih =>
    obtain ⟨k0, v0⟩ := p
    by_cases h0 : k0 = k
    · subst h0; simp [get] at h; simp [h]
    · simp [get, h0] at h; exact List.mem_cons_of_mem _ (ih h)

theorem get_of_mem (m : List (String × α)) (k : String) (v : α) (hn : (keys m).Nodup) (h : (k, v) ∈ m) :
    get m k = some v := by
  induction m with
  | nil => cases h
  | cons p r ih =>
    obtain ⟨k0, v0⟩ := p
    simp only [keys, List.map_cons, List.nodup_cons] at hn
    rcases List.mem_cons.1 h with h1 | h1
    · cases h1; simp [get]
    · have hk : k ∈ keys r := List.mem_map.2 ⟨(k, v), h1, rfl⟩
      have h0 : k0 ≠ k := fun e => hn.1 (e ▸ hk)
      simp [get, h0]; exact ih hn.2 h1

theorem mem_iff_get (m : List (String × α)) (hn : (keys m).Nodup) (k : String) (v : α) :
    (k, v) ∈ m ↔ get m k = some v :=
  ⟨get_of_mem m k v hn, mem_of_get m k v⟩

theorem get_erase (m : List (String × α)) (k k' : String) :
    get (erase m k) k' = if k = k' then none else get m k' := by
  induction m with
  | nil => simp [erase, get]
  | cons p r ih =>
    obtain ⟨k0, v0⟩ := p
    by_cases h0 : k0 = k
    · subst h0; simp only [erase, if_true, ih, get]
      by_cases h1 : k0 = k' <;> simp [h1]
    · simp only [erase, h0, if_false, get, ih]
      by_cases h1 : k0 = k'
      · subst h1; simp [Ne.symm h0]
      · simp [h1]

theorem mem_keys_erase (m : List (String × α)) (k x : String) :
    x ∈ keys (erase m k) ↔ x ≠ k ∧ x ∈ keys m := by
  rw [← get_isSome_iff, ← get_isSome_iff, get_erase]
  by_cases h : k = x
  · subst h; simp
  · simp [h, Ne.symm h]

theorem nodup_keys_erase (m : List (String × α)) (k : String) (h : (keys m).Nodup) :
    (keys (erase m k)).Nodup := by
  induction m with
  | nil => simp [erase, keys]
  | cons p r ih =>
    obtain ⟨k0, v0⟩ := p
    simp only [keys, List.map_cons, List.nodup_cons] at h
    by_cases h0 : k0 = k
    · simp only [erase, h0, if_true]; exact ih h.2
    · simp only [erase, h0, if_false, keys, List.map_cons, List.nodup_cons]
      refine ⟨?_, ih h.2⟩
      intro hm
      exact h.1 ((mem_keys_erase r k k0).1 hm).2

theorem get_append (s t : List (String × α)) (k : String) :
    get (s ++ t) k = match get s k with
      | some v => some v
      | none => get t k := by
  induction s with
  | nil => simp [get]
  | cons p r ih =>
    obtain ⟨k0, v0⟩ := p
    by_cases h0 : k0 = k
    · simp [get, h0]
    · simp [get, h0, ih]

/-- two maps with the same lookups hold the same pairs -/
theorem perm_of_get_eq (s t : List (String × α)) (hs : (keys s).Nodup) (ht : (keys t).Nodup)
    (h : ∀ k, get s k = get t k) : s.Perm t := by
  induction s generalizing t with
  | nil =>
    cases t with
    | nil => exact List.Perm.refl _
    | cons p r =>
      obtain ⟨k0, v0⟩ := p
      have := h k0
      simp [get] at this
  | cons p r ih =>
    obtain ⟨k0, v0⟩ := p
    simp only [keys, List.map_cons, List.nodup_cons] at hs
    have hget : get t k0 = some v0 := by rw [← h k0]; simp [get]
    -- t is (k0, v0) plus the rest
    have hperm : ∀ (t : List (String × α)), (keys t).Nodup → get t k0 = some v0 →
        t.Perm ((k0, v0) :: erase t k0) := by
      intro t
      induction t with
      | nil => intro _ hg; simp [get] at hg
      | cons q u ihu =>
        obtain ⟨k1, v1⟩ := q
        intro hn hg
        simp only [keys, List.map_cons, List.nodup_cons] at hn
        by_cases h1 : k1 = k0
        · subst h1
          simp [get] at hg; subst hg
          have : erase u k1 = u := by
            have hnot : k1 ∉ keys u := hn.1
            clear ihu hn
            induction u with
            | nil => rfl
            | cons w x ihx =>
              obtain ⟨k2, v2⟩ := w
              simp only [keys, List.map_cons, List.mem_cons, not_or] at hnot
              simp only [erase, Ne.symm hnot.1, if_false]
              rw [ihx hnot.2]
          simp [erase, this]
        · simp only [get, h1, if_false] at hg
          simp only [erase, h1, if_false]
          exact (List.Perm.cons _ (ihu hn.2 hg)).trans (List.Perm.swap _ _ _)
    have h1 := hperm t ht hget
    refine List.Perm.trans ?_ h1.symm
    refine List.Perm.cons _ (ih (erase t k0) hs.2 (nodup_keys_erase t k0 ht) ?_)
    intro k
    rw [get_erase]
    by_cases hk : k0 = k
    · subst hk; simp; exact (get_eq_none_iff r k0).2 hs.1
    · have := h k; simp [get, hk] at this; simp [hk, this]

end Maps

/-! ## `mapOf`: the last entry of a path wins -/

/-- the paths of a bundle are pairwise distinct -/
def Distinct (es : List Entry) : Prop := (es.map (·.path)).Nodup

instance (es : List Entry) : Decidable (Distinct es) := by unfold Distinct; infer_instance

theorem get_foldl_set (es : List Entry) (m0 : List (String × Entry)) (p : String) :
    get (es.foldl (fun m e => set m e.path e) m0) p =
      match es.reverse.find? (fun e => decide (e.path = p)) with
      | some e => some e
      | none => get m0 p := by
  induction es generalizing m0 with
  | nil => simp
  | cons e r ih =>
    simp only [List.foldl_cons, ih, List.reverse_cons, List.find?_append]
    cases h : r.reverse.find? (fun e => decide (e.path = p)) with
    | some e' => simp
    | none =>
      by_cases hp : e.path = p
      · simp [get_set, hp]
      · simp [get_set, hp]

/-- closed form of the map lookup: the LAST entry with that path -/
theorem entryAt_eq (es : List Entry) (p : String) :
    entryAt es p = es.reverse.find? (fun e => decide (e.path = p)) := by
  unfold entryAt mapOf
  rw [get_foldl_set]
  cases es.reverse.find? (fun e => decide (e.path = p)) <;> simp [get]

theorem entryAt_some {es : List Entry} {p : String} {e : Entry} (h : entryAt es p = some e) :
    e ∈ es ∧ e.path = p := by
  rw [entryAt_eq] at h
  have h1 := List.mem_of_find?_eq_some h
  have h2 := List.find?_some h
  exact ⟨by simpa using h1, by simpa using h2⟩

theorem entryAt_none_iff {es : List Entry} {p : String} :
    entryAt es p = none ↔ ∀ e ∈ es, e.path ≠ p := by
  rw [entryAt_eq, List.find?_eq_none]; simp

theorem eq_of_path_eq {es : List Entry} (hd : Distinct es) {e e' : Entry} (h1 : e ∈ es) (h2 : e' ∈ es)
    (h : e.path = e'.path) : e = e' := by
  induction es with
  | nil => cases h1
  | cons x r ih =>
    simp only [Distinct, List.map_cons, List.nodup_cons] at hd
    rcases List.mem_cons.1 h1 with a | a <;> rcases List.mem_cons.1 h2 with b | b
    · rw [a, b]
    · subst a; exact absurd (List.mem_map.2 ⟨e', b, h.symm⟩) hd.1
    · subst b; exact absurd (List.mem_map.2 ⟨e, a, h⟩) hd.1
    · exact ih hd.2 a b

theorem entryAt_of_mem {es : List Entry} (hd : Distinct es) {e : Entry} (h : e ∈ es) :
    entryAt es e.path = some e := by
  cases h' : entryAt es e.path with
  | none => exact absurd rfl (entryAt_none_iff.1 h' e h)
  | some e' =>
    obtain ⟨hm, hp⟩ := entryAt_some h'
    rw [eq_of_path_eq hd hm h hp]

theorem entryAt_some_iff {es : List Entry} (hd : Distinct es) {p : String} {e : Entry} :
    entryAt es p = some e ↔ e ∈ es ∧ e.path = p :=
  ⟨entryAt_some, fun ⟨h1, h2⟩ => h2 ▸ entryAt_of_mem hd h1⟩

theorem nodup_keys_foldl_set (es : List Entry) (m0 : List (String × Entry)) (h : (keys m0).Nodup) :
    (keys (es.foldl (fun m e => set m e.path e) m0)).Nodup := by
  induction es generalizing m0 with
  | nil => exact h
  | cons e r ih => exact ih _ (nodup_keys_set m0 e.path e h)

theorem nodup_keys_mapOf (es : List Entry) : (keys (mapOf es)).Nodup :=
  nodup_keys_foldl_set es [] (by simp [keys])

/-! ## the diff is exact -/

theorem mem_diffMaps (mE mA : List (String × Entry)) (hE : (keys mE).Nodup) (hA : (keys mA).Nodup)
    (d : DiffEntry) :
    d ∈ diffMaps mE mA ↔
      (∃ e a, get mE d.name = some e ∧ get mA d.name = some a ∧ a.hash ≠ e.hash ∧ d = ⟨.dif, d.name, e, a⟩) ∨
      (∃ e, get mE d.name = some e ∧ get mA d.name = none ∧ d = ⟨.del, d.name, e, Entry.zero⟩) ∨
      (∃ a, get mE d.name = none ∧ get mA d.name = some a ∧ d = ⟨.add, d.name, Entry.zero, a⟩) := by
  unfold diffMaps
  simp only [List.mem_append, List.mem_filterMap]
  constructor
  · rintro (⟨⟨n, e⟩, hm, hf⟩ | ⟨⟨n, a⟩, hm, hf⟩)
    · have hg := (mem_iff_get mE hE n e).1 hm
      unfold delOrDif at hf
      simp only at hf
      split at hf
      · rename_i a ha
        split at hf
        · rename_i hne
          have := Option.some.inj hf; subst this
          exact Or.inl ⟨e, a, hg, ha, by simpa using hne, rfl⟩
        · cases hf
      · rename_i ha
        have := Option.some.inj hf; subst this
        exact Or.inr (Or.inl ⟨e, hg, ha, rfl⟩)
    · have hg := (mem_iff_get mA hA n a).1 hm
      unfold addOnly at hf
      simp only at hf
      split at hf
      · cases hf
      · rename_i he
        have := Option.some.inj hf; subst this
        exact Or.inr (Or.inr ⟨a, he, hg, rfl⟩)
  · rintro (⟨e, a, he, ha, hne, hd⟩ | ⟨e, he, ha, hd⟩ | ⟨a, he, ha, hd⟩)
    · refine Or.inl ⟨(d.name, e), (mem_iff_get mE hE _ _).2 he, ?_⟩
      unfold delOrDif
      simp only [ha]
      rw [if_pos (by simpa using hne), ← hd]
    · refine Or.inl ⟨(d.name, e), (mem_iff_get mE hE _ _).2 he, ?_⟩
      unfold delOrDif
      simp only [ha]
      rw [← hd]
    · refine Or.inr ⟨(d.name, a), (mem_iff_get mA hA _ _).2 ha, ?_⟩
      unfold addOnly
      simp only [he]
      rw [← hd]

theorem names_filterMap {α : Type} (l : List (String × α)) (f : String × α → Option DiffEntry)
    (hf : ∀ x d, f x = some d → d.name = x.1) (hn : (keys l).Nodup) :
    ((l.filterMap f).map (·.name)).Nodup ∧ ∀ n ∈ (l.filterMap f).map (·.name), n ∈ keys l := by
  induction l with
  | nil => simp [keys]
  | cons x r ih =>
    simp only [keys, List.map_cons, List.nodup_cons] at hn
    have ih' := ih hn.2
    rw [List.filterMap_cons]
    cases hx : f x with
    | none =>
      simp only
      exact ⟨ih'.1, fun n h => List.mem_cons_of_mem _ (ih'.2 n h)⟩
    | some d =>
      simp only [List.map_cons, List.nodup_cons, keys]
      have hname := hf x d hx
      refine ⟨⟨?_, ih'.1⟩, ?_⟩
      · intro hm
        exact hn.1 (hname ▸ ih'.2 _ hm)
      · intro n h
        rcases List.mem_cons.1 h with h1 | h1
        · rw [h1, hname]; exact List.mem_cons_self
        · exact List.mem_cons_of_mem _ (ih'.2 n h1)

theorem delOrDif_name (mA : List (String × Entry)) (x : String × Entry) (d : DiffEntry)
    (h : delOrDif mA x = some d) : d.name = x.1 := by
  unfold delOrDif at h
  split at h
  · split at h
    · have := Option.some.inj h; subst this; rfl
    · cases h
  · have := Option.some.inj h; subst this; rfl

theorem addOnly_name (mE : List (String × Entry)) (x : String × Entry) (d : DiffEntry)
    (h : addOnly mE x = some d) : d.name = x.1 ∧ get mE x.1 = none := by
  unfold addOnly at h
  split at h
  · cases h
  · rename_i he
    have := Option.some.inj h; subst this; exact ⟨rfl, he⟩

theorem nodup_names_diffMaps (mE mA : List (String × Entry)) (hE : (keys mE).Nodup) (hA : (keys mA).Nodup) :
    ((diffMaps mE mA).map (·.name)).Nodup := by
  unfold diffMaps
  rw [List.map_append, List.nodup_append]
  have h1 := names_filterMap mE (delOrDif mA) (delOrDif_name mA) hE
  have h2 := names_filterMap mA (addOnly mE) (fun x d h => (addOnly_name mE x d h).1) hA
  refine ⟨h1.1, h2.1, ?_⟩
  intro a ha b hb hab
  subst hab
  have hk : a ∈ keys mE := h1.2 a ha
  obtain ⟨d, hd, hname⟩ := List.mem_map.1 hb
  obtain ⟨x, _, hfx⟩ := List.mem_filterMap.1 hd
  have := addOnly_name mE x d hfx
  rw [← this.1, hname] at this
  exact (get_eq_none_iff mE a).1 this.2 hk

/-- **C05, diff part, for arbitrary entry lists** (a repeated path counts with its last entry, as in
    the Go maps): every name occurs once, and `d` is reported iff it is exactly the `U` entry of a
    path whose content key changed, the `D` entry of a removed path, or the `A` entry of an added path. -/
theorem C05_diff_exact_general (A B : List Entry) :
    ((diffBundles A B).map (·.name)).Nodup ∧
    ∀ d, d ∈ diffBundles A B ↔
      (∃ e a, entryAt A d.name = some e ∧ entryAt B d.name = some a ∧ a.hash ≠ e.hash ∧
          d = ⟨.dif, d.name, e, a⟩) ∨
      (∃ e, entryAt A d.name = some e ∧ entryAt B d.name = none ∧ d = ⟨.del, d.name, e, Entry.zero⟩) ∨
      (∃ a, entryAt A d.name = none ∧ entryAt B d.name = some a ∧ d = ⟨.add, d.name, Entry.zero, a⟩) :=
  ⟨nodup_names_diffMaps _ _ (nodup_keys_mapOf A) (nodup_keys_mapOf B),
   fun d => mem_diffMaps _ _ (nodup_keys_mapOf A) (nodup_keys_mapOf B) d⟩

/-- path `n` exists in both bundles with different content keys -/
def Changed (A B : List Entry) (n : String) : Prop :=
  ∃ e ∈ A, ∃ a ∈ B, e.path = n ∧ a.path = n ∧ e.hash ≠ a.hash
/-- path `n` exists in `A` only -/
def Removed (A B : List Entry) (n : String) : Prop := (∃ e ∈ A, e.path = n) ∧ ∀ a ∈ B, a.path ≠ n
/-- path `n` exists in `B` only -/
def Added (A B : List Entry) (n : String) : Prop := (∃ a ∈ B, a.path = n) ∧ ∀ e ∈ A, e.path ≠ n

/-- **C05, diff part.** For bundles with pairwise distinct paths: no name is reported twice; a name
    is reported iff the path was added, removed or changed its content key; and every reported entry
    has the right type and carries the right existing / additional bundle entries. -/
theorem C05_diff_exact (A B : List Entry) (hA : Distinct A) (hB : Distinct B) :
    ((diffBundles A B).map (·.name)).Nodup ∧
    (∀ n, n ∈ (diffBundles A B).map (·.name) ↔ Changed A B n ∨ Removed A B n ∨ Added A B n) ∧
    (∀ d, d ∈ diffBundles A B ↔
      (∃ e ∈ A, ∃ a ∈ B, e.path = d.name ∧ a.path = d.name ∧ e.hash ≠ a.hash ∧ d = ⟨.dif, d.name, e, a⟩) ∨
      (∃ e ∈ A, e.path = d.name ∧ (∀ a ∈ B, a.path ≠ d.name) ∧ d = ⟨.del, d.name, e, Entry.zero⟩) ∨
      (∃ a ∈ B, a.path = d.name ∧ (∀ e ∈ A, e.path ≠ d.name) ∧ d = ⟨.add, d.name, Entry.zero, a⟩)) := by
  have hg := C05_diff_exact_general A B
  have hmem : ∀ d, d ∈ diffBundles A B ↔
      (∃ e ∈ A, ∃ a ∈ B, e.path = d.name ∧ a.path = d.name ∧ e.hash ≠ a.hash ∧ d = ⟨.dif, d.name, e, a⟩) ∨
      (∃ e ∈ A, e.path = d.name ∧ (∀ a ∈ B, a.path ≠ d.name) ∧ d = ⟨.del, d.name, e, Entry.zero⟩) ∨
      (∃ a ∈ B, a.path = d.name ∧ (∀ e ∈ A, e.path ≠ d.name) ∧ d = ⟨.add, d.name, Entry.zero, a⟩) := by
    intro d
    rw [hg.2 d]
    constructor
    · rintro (⟨e, a, he, ha, hne, hd⟩ | ⟨e, he, ha, hd⟩ | ⟨a, he, ha, hd⟩)
      · obtain ⟨he1, he2⟩ := entryAt_some he
        obtain ⟨ha1, ha2⟩ := entryAt_some ha
        exact Or.inl ⟨e, he1, a, ha1, he2, ha2, fun h => hne h.symm, hd⟩
      · obtain ⟨he1, he2⟩ := entryAt_some he
        exact Or.inr (Or.inl ⟨e, he1, he2, entryAt_none_iff.1 ha, hd⟩)
      · obtain ⟨ha1, ha2⟩ := entryAt_some ha
        exact Or.inr (Or.inr ⟨a, ha1, ha2, entryAt_none_iff.1 he, hd⟩)
    · rintro (⟨e, he1, a, ha1, he2, ha2, hne, hd⟩ | ⟨e, he1, he2, ha, hd⟩ | ⟨a, ha1, ha2, he, hd⟩)
      · exact Or.inl ⟨e, a, (entryAt_some_iff hA).2 ⟨he1, he2⟩, (entryAt_some_iff hB).2 ⟨ha1, ha2⟩,
          fun h => hne h.symm, hd⟩
      · exact Or.inr (Or.inl ⟨e, (entryAt_some_iff hA).2 ⟨he1, he2⟩, entryAt_none_iff.2 ha, hd⟩)
      · exact Or.inr (Or.inr ⟨a, entryAt_none_iff.2 he, (entryAt_some_iff hB).2 ⟨ha1, ha2⟩, hd⟩)
  refine ⟨hg.1, ?_, hmem⟩
  intro n
  simp only [List.mem_map]
  constructor
  · rintro ⟨d, hd, rfl⟩
    rcases (hmem d).1 hd with ⟨e, he1, a, ha1, he2, ha2, hne, _⟩ | ⟨e, he1, he2, ha, _⟩ | ⟨a, ha1, ha2, he, _⟩
    · exact Or.inl ⟨e, he1, a, ha1, he2, ha2, hne⟩
    · exact Or.inr (Or.inl ⟨⟨e, he1, he2⟩, ha⟩)
    · exact Or.inr (Or.inr ⟨⟨a, ha1, ha2⟩, he⟩)
  · rintro (⟨e, he1, a, ha1, he2, ha2, hne⟩ | ⟨⟨e, he1, he2⟩, ha⟩ | ⟨⟨a, ha1, ha2⟩, he⟩)
    · exact ⟨⟨.dif, n, e, a⟩, (hmem _).2 (Or.inl ⟨e, he1, a, ha1, he2, ha2, hne, rfl⟩), rfl⟩
    · exact ⟨⟨.del, n, e, Entry.zero⟩, (hmem _).2 (Or.inr (Or.inl ⟨e, he1, he2, ha, rfl⟩)), rfl⟩
    · exact ⟨⟨.add, n, Entry.zero, a⟩, (hmem _).2 (Or.inr (Or.inr ⟨a, ha1, ha2, he, rfl⟩)), rfl⟩

/-! ## the diff does not depend on iteration order -/

theorem get_perm {α : Type} {m m' : List (String × α)} (hp : m.Perm m') (hn : (keys m).Nodup) (k : String) :
    get m k = get m' k := by
  have hn' : (keys m').Nodup := (hp.map _).nodup hn
  cases h : get m k with
  | none =>
    have : k ∉ keys m' := fun hk => (get_eq_none_iff m k).1 h (((hp.map (·.1)).mem_iff).2 hk)
    exact ((get_eq_none_iff m' k).2 this).symm
  | some v =>
    exact (get_of_mem m' k v hn' ((hp.mem_iff).1 (mem_of_get m k v h))).symm

/-- **C05, order independence (map iteration).** Whatever order the two Go maps are iterated in, the
    diff is the same collection of entries. -/
theorem C05_diffMaps_perm {mE mE' mA mA' : List (String × Entry)} (hE : mE.Perm mE') (hA : mA.Perm mA')
    (hnE : (keys mE).Nodup) (hnA : (keys mA).Nodup) :
    (diffMaps mE mA).Perm (diffMaps mE' mA') := by
  have h1 : delOrDif mA = delOrDif mA' := by
    funext x; unfold delOrDif; rw [get_perm hA hnA]
  have h2 : addOnly mE = addOnly mE' := by
    funext x; unfold addOnly; rw [get_perm hE hnE]
  unfold diffMaps
  rw [h1, h2]
  exact (hE.filterMap _).append (hA.filterMap _)

theorem entryAt_perm {A A' : List Entry} (hp : A.Perm A') (hd : Distinct A) (p : String) :
    entryAt A p = entryAt A' p := by
  have hd' : Distinct A' := (hp.map _).nodup hd
  cases h : entryAt A p with
  | none =>
    exact (entryAt_none_iff.2 fun e he => entryAt_none_iff.1 h e (hp.mem_iff.2 he)).symm
  | some e =>
    obtain ⟨h1, h2⟩ := entryAt_some h
    exact ((entryAt_some_iff hd').2 ⟨hp.mem_iff.1 h1, h2⟩).symm

/-- **C05, order independence (entry order).** Reordering the entries of either bundle (distinct
    paths) only reorders the diff. -/
theorem C05_diff_perm {A A' B B' : List Entry} (hA : A.Perm A') (hB : B.Perm B')
    (hdA : Distinct A) (hdB : Distinct B) :
    (diffBundles A B).Perm (diffBundles A' B') := by
  unfold diffBundles
  refine C05_diffMaps_perm ?_ ?_ (nodup_keys_mapOf A) (nodup_keys_mapOf B)
  · exact perm_of_get_eq _ _ (nodup_keys_mapOf A) (nodup_keys_mapOf A') (entryAt_perm hA hdA)
  · exact perm_of_get_eq _ _ (nodup_keys_mapOf B) (nodup_keys_mapOf B') (entryAt_perm hB hdB)

/-! ## consumable-store metadata paths are classified as the code that writes them intends -/

theorem stripPre_append (p x : List Char) : stripPre p (p ++ x) = some x := by
  induction p with
  | nil => cases x <;> rfl
  | cons a p ih => simp [stripPre, ih]

theorem stripSuf_append (p x : List Char) : stripSuf p (x ++ p) = some x := by
  simp [stripSuf, List.reverse_append, stripPre_append]

theorem beforeFirst_none (c0 : Char) (s l : List Char) (hc : c0 ∉ l) : beforeFirst (c0 :: s) l = none := by
  induction l with
  | nil => simp [beforeFirst]
  | cons c r ih =>
    simp only [List.mem_cons, not_or] at hc
    simp [beforeFirst, stripPre, hc.1, ih hc.2]

theorem beforeFirst_found (c0 : Char) (s x y : List Char) (hc : c0 ∉ x) :
    beforeFirst (c0 :: s) (x ++ c0 :: (s ++ y)) = some x := by
  induction x with
  | nil => simp [beforeFirst, stripPre, stripPre_append]
  | cons c r ih =>
    simp only [List.mem_cons, not_or] at hc
    simp [beforeFirst, stripPre, hc.1, ih hc.2]

theorem afterLast_none (sep : List Char) (c0 : Char) (s l : List Char) (hs : sep.reverse = c0 :: s)
    (hc : c0 ∉ l) : afterLast sep l = none := by
  simp [afterLast, hs, beforeFirst_none c0 s l.reverse (by simpa using hc)]

theorem afterLast_found (sep : List Char) (c0 : Char) (s x y : List Char) (hs : sep.reverse = c0 :: s)
    (hc : c0 ∉ y) : afterLast sep (x ++ sep ++ y) = some y := by
  have : (x ++ sep ++ y).reverse = y.reverse ++ c0 :: (s ++ x.reverse) := by
    simp [List.reverse_append, hs]
  rw [afterLast, this, hs, beforeFirst_found c0 s y.reverse x.reverse (by simpa using hc)]
  simp

theorem infix_reverse : fileListInfix.toList.reverse = '-' :: "selif-eldnub-".toList := by decide

theorem metaName_wrap (s : String) (h : '\n' ∉ s.toList) :
    metaName (metaPrefix ++ s ++ metaSuffix) = some s.toList := by
  unfold metaName
  simp only [String.toList_append, List.append_assoc, stripPre_append, stripSuf_append]
  simp [h]

/-- a well-formed bundle id (KSUIDs are alphanumeric) -/
def IdOK (id : String) : Prop := ∀ c ∈ id.toList, c ≠ '-' ∧ c ≠ '\n'

instance (id : String) : Decidable (IdOK id) := by unfold IdOK; infer_instance

theorem digit_props (i : Nat) (c : Char) (h : c ∈ Nat.toDigits 10 i) : c ≠ '-' ∧ c ≠ '\n' ∧ c ≠ '+' := by
  have hd := Nat.isDigit_of_mem_toDigits (by decide) (by decide) h
  refine ⟨?_, ?_, ?_⟩ <;> (intro e; subst e; revert hd; decide)

theorem atoiOk_toDigits (i : Nat) (hi : i < 2 ^ 63) : atoiOk (Nat.toDigits 10 i) = true := by
  have hne : Nat.toDigits 10 i ≠ [] := Nat.toDigits_ne_nil
  have hall : ∀ c ∈ Nat.toDigits 10 i, c.isDigit = true :=
    fun c h => Nat.isDigit_of_mem_toDigits (by decide) (by decide) h
  have hval : Nat.ofDigitChars 10 (Nat.toDigits 10 i) 0 = i := Nat.ofDigitChars_ten_toDigits
  generalize Nat.toDigits 10 i = l at hne hall hval
  cases l with
  | nil => exact absurd rfl hne
  | cons c r =>
    have hc := hall c List.mem_cons_self
    have h1 : c ≠ '-' := by intro e; subst e; revert hc; decide
    have h2 : c ≠ '+' := by intro e; subst e; revert hc; decide
    simp [atoiOk, h1, h2, hval, hi]
    exact ⟨hc, fun x hx => hall x (List.mem_cons_of_mem _ hx)⟩

theorem classify_descKey (id : String) (h : IdOK id) : classify (descKey id) = .descriptor := by
  unfold classify descKey
  rw [metaName_wrap id (fun hm => (h _ hm).2 rfl)]
  simp only
  rw [afterLast_none _ '-' _ id.toList infix_reverse (fun hm => (h _ hm).1 rfl)]

theorem descriptorId_descKey (id : String) (h : IdOK id) : descriptorId (descKey id) = some id := by
  unfold descriptorId descKey
  rw [metaName_wrap id (fun hm => (h _ hm).2 rfl)]
  simp only
  rw [afterLast_none _ '-' _ id.toList infix_reverse (fun hm => (h _ hm).1 rfl)]
  simp [String.ofList_toList]

theorem listKey_eq (id : String) (i : Nat) :
    listKey id i = metaPrefix ++ (id ++ fileListInfix ++ toString i) ++ metaSuffix := by
  simp [listKey, String.append_assoc]

theorem classify_listKey (id : String) (i : Nat) (h : IdOK id) (hi : i < 2 ^ 63) :
    classify (listKey id i) = .fileList := by
  unfold classify
  rw [listKey_eq, metaName_wrap]
  · simp only [String.toList_append, Nat.toString_eq_repr, Nat.toList_repr]
    rw [afterLast_found _ '-' _ id.toList (Nat.toDigits 10 i) infix_reverse
      (fun hm => (digit_props i _ hm).1 rfl)]
    simp [atoiOk_toDigits i hi]
  · simp only [String.toList_append, Nat.toString_eq_repr, Nat.toList_repr, List.mem_append, not_or]
    refine ⟨⟨fun hm => (h _ hm).2 rfl, by decide⟩, fun hm => (digit_props i _ hm).2.1 rfl⟩

theorem listKey_inj (id : String) (i j : Nat) (h : listKey id i = listKey id j) : i = j := by
  have h1 := congrArg String.toList h
  simp only [listKey, String.toList_append, Nat.toString_eq_repr, Nat.toList_repr, List.append_assoc] at h1
  have h2 := List.append_cancel_left (List.append_cancel_left (List.append_cancel_left h1))
  have h3 := List.append_cancel_right h2
  have := congrArg (fun l => Nat.ofDigitChars 10 l 0) h3
  simpa using this

/-! ## store operations -/
section Update
variable {β : Type}

theorem put_spec (s : Store β) (k : String) (v : β) (h : get s k = none) (hn : (keys s).Nodup) :
    ∃ s', put s k v = some s' ∧ (keys s').Nodup ∧
      ∀ k', get s' k' = if k = k' then some v else get s k' := by
  refine ⟨s ++ [(k, v)], by simp [put, h], ?_, ?_⟩
  · simp only [keys, List.map_append, List.map_cons, List.map_nil]
    rw [List.nodup_append]
    refine ⟨hn, by simp, ?_⟩
    intro a ha b hb hab
    simp at hb; subst hb; subst hab
    exact (get_eq_none_iff s a).1 h ha
  · intro k'
    rw [get_append]
    by_cases hk : k = k'
    · subst hk; simp [h, get]
    · cases hg : get s k' <;> simp [get, hk]

theorem delete_spec (s : Store β) (k : String) (h : (get s k).isSome = true) (hn : (keys s).Nodup) :
    ∃ s', delete s k = some s' ∧ (keys s').Nodup ∧
      ∀ k', get s' k' = if k = k' then none else get s k' :=
  ⟨erase s k, by simp [delete, h], nodup_keys_erase s k hn, get_erase s k⟩

/-- what the destination must hold under the name of a diff entry afterwards -/
def target (content : String → β) (d : DiffEntry) : Option β :=
  match d.kind with
  | .del => none
  | _ => some (content d.additional.hash)

/-- the store operation of a diff entry is applicable -/
def Pre (s : Store β) (d : DiffEntry) : Prop :=
  match d.kind with
  | .add => get s d.name = none
  | _ => (get s d.name).isSome = true

/-- the bundle entry a diff entry acts on is filed under the entry's name -/
def WF (d : DiffEntry) : Prop :=
  match d.kind with
  | .del => d.existing.path = d.name
  | _ => d.additional.path = d.name

theorem applyEntry_spec (content : String → β) (s : Store β) (d : DiffEntry) (hw : WF d) (hp : Pre s d)
    (hn : (keys s).Nodup) :
    ∃ s', applyEntry content s d = some s' ∧ (keys s').Nodup ∧
      ∀ k, get s' k = if d.name = k then target content d else get s k := by
  obtain ⟨kind, name, ex, ad⟩ := d
  cases kind with
  | add =>
    simp only [WF, Pre] at hw hp
    subst hw
    simpa [applyEntry, target] using put_spec s ad.path (content ad.hash) hp hn
  | del =>
    simp only [WF, Pre] at hw hp
    subst hw
    simpa [applyEntry, target] using delete_spec s ex.path hp hn
  | dif =>
    simp only [WF, Pre] at hw hp
    subst hw
    obtain ⟨s1, h1, n1, g1⟩ := delete_spec s ad.path hp hn
    obtain ⟨s2, h2, n2, g2⟩ := put_spec s1 ad.path (content ad.hash) (by rw [g1]; simp) n1
    refine ⟨s2, by simp [applyEntry, h1, h2], n2, ?_⟩
    intro k
    rw [g2, g1]
    by_cases hk : ad.path = k <;> simp [hk, target]

theorem applyDiff_spec (content : String → β) (ds : List DiffEntry) :
    ∀ (s : Store β), (ds.map (·.name)).Nodup → (∀ d ∈ ds, WF d ∧ Pre s d) → (keys s).Nodup →
    ∃ s', applyDiff content s ds = some s' ∧ (keys s').Nodup ∧
      ∀ k, get s' k = match ds.find? (fun d => decide (d.name = k)) with
        | some d => target content d
        | none => get s k := by
  induction ds with
  | nil => intro s _ _ hn; exact ⟨s, rfl, hn, fun k => by simp⟩
  | cons d r ih =>
    intro s hnd hall hn
    simp only [List.map_cons, List.nodup_cons] at hnd
    obtain ⟨hw, hp⟩ := hall d List.mem_cons_self
    obtain ⟨s1, h1, n1, g1⟩ := applyEntry_spec content s d hw hp hn
    have hall' : ∀ d' ∈ r, WF d' ∧ Pre s1 d' := by
      intro d' hd'
      obtain ⟨hw', hp'⟩ := hall d' (List.mem_cons_of_mem _ hd')
      refine ⟨hw', ?_⟩
      have hne : d.name ≠ d'.name := fun e => hnd.1 (e ▸ List.mem_map.2 ⟨d', hd', rfl⟩)
      unfold Pre at hp' ⊢
      rw [g1 d'.name]
      simp only [hne, if_false]
      exact hp'
    obtain ⟨s2, h2, n2, g2⟩ := ih s1 hnd.2 hall' n1
    refine ⟨s2, by simp [applyDiff, h1, h2], n2, ?_⟩
    intro k
    rw [g2 k, List.find?_cons]
    by_cases hk : d.name = k
    · have hnone : r.find? (fun d => decide (d.name = k)) = none := by
        rw [List.find?_eq_none]
        intro x hx
        simp only [decide_eq_true_eq]
        intro e
        exact hnd.1 (List.mem_map.2 ⟨x, hx, e.trans hk.symm⟩)
      rw [hnone]
      simp [hk, g1]
    · simp [hk, g1]

theorem deleteAll_spec (ks : List String) :
    ∀ (s : Store β), ks.Nodup → (∀ k ∈ ks, (get s k).isSome = true) → (keys s).Nodup →
    ∃ s', deleteAll s ks = some s' ∧ (keys s').Nodup ∧
      ∀ k, get s' k = if k ∈ ks then none else get s k := by
  induction ks with
  | nil => intro s _ _ hn; exact ⟨s, rfl, hn, fun k => by simp⟩
  | cons k r ih =>
    intro s hnd hall hn
    simp only [List.nodup_cons] at hnd
    obtain ⟨s1, h1, n1, g1⟩ := delete_spec s k (hall k List.mem_cons_self) hn
    have hall' : ∀ k' ∈ r, (get s1 k').isSome = true := by
      intro k' hk'
      have hne : k ≠ k' := fun e => hnd.1 (e ▸ hk')
      rw [g1]; simp only [hne, if_false]
      exact hall k' (List.mem_cons_of_mem _ hk')
    obtain ⟨s2, h2, n2, g2⟩ := ih s1 hnd.2 hall' n1
    refine ⟨s2, by simp [deleteAll, h1, h2], n2, ?_⟩
    intro x
    rw [g2, g1]
    by_cases hx : x ∈ r
    · simp [hx]
    · by_cases hk : k = x
      · simp [hk]
      · simp [hx, hk, Ne.symm hk]

theorem putAll_spec (kvs : List (String × β)) :
    ∀ (s : Store β), (keys kvs).Nodup → (∀ k ∈ keys kvs, get s k = none) → (keys s).Nodup →
    ∃ s', putAll s kvs = some s' ∧ (keys s').Nodup ∧
      ∀ k, get s' k = match get kvs k with
        | some v => some v
        | none => get s k := by
  induction kvs with
  | nil => intro s _ _ hn; exact ⟨s, rfl, hn, fun k => by simp [get]⟩
  | cons p r ih =>
    obtain ⟨k, v⟩ := p
    intro s hnd hall hn
    simp only [keys, List.map_cons, List.nodup_cons] at hnd
    obtain ⟨s1, h1, n1, g1⟩ := put_spec s k v (hall k (by simp [keys])) hn
    have hall' : ∀ k' ∈ keys r, get s1 k' = none := by
      intro k' hk'
      have hne : k ≠ k' := fun e => hnd.1 (e ▸ hk')
      rw [g1]; simp only [hne, if_false]
      exact hall k' (by simp only [keys, List.map_cons]; exact List.mem_cons_of_mem _ hk')
    obtain ⟨s2, h2, n2, g2⟩ := ih s1 hnd.2 hall' n1
    refine ⟨s2, by simp [putAll, h1, h2], n2, ?_⟩
    intro x
    rw [g2, g1]
    by_cases hk : k = x
    · subst hk
      have : get r k = none := (get_eq_none_iff r k).2 hnd.1
      simp [this, get]
    · simp [get, hk]

theorem filter_unique (l : List String) (P : String → Bool) (a : String) (hn : l.Nodup)
    (h : ∀ x, (x ∈ l ∧ P x = true) ↔ x = a) : l.filter P = [a] := by
  induction l with
  | nil => exact absurd ((h a).2 rfl).1 (by simp)
  | cons x r ih =>
    simp only [List.nodup_cons] at hn
    by_cases hp : P x = true
    · have hxa : x = a := (h x).1 ⟨List.mem_cons_self, hp⟩
      have hnil : r.filter P = [] := by
        rw [List.filter_eq_nil_iff]
        intro y hy hpy
        have : y = a := (h y).1 ⟨List.mem_cons_of_mem _ hy, hpy⟩
        exact hn.1 (hxa ▸ this ▸ hy)
      rw [List.filter_cons, if_pos hp, hnil, hxa]
    · have : (x :: r).filter P = r.filter P := by simp [hp]
      rw [this]
      refine ih hn.2 ?_
      intro y
      constructor
      · rintro ⟨hy, hpy⟩; exact (h y).1 ⟨List.mem_cons_of_mem _ hy, hpy⟩
      · intro hy
        obtain ⟨hm, hpy⟩ := (h y).2 hy
        rcases List.mem_cons.1 hm with e | e
        · exact absurd (e ▸ hpy) hp
        · exact ⟨e, hpy⟩

end Update

/-! ## downloads and their metadata files -/
section Main
variable {β : Type}

/-- well-formed archive metadata: a KSUID-like id and a file-list count `strconv.Atoi` can read back -/
structure MetaOK (m : BundleMeta β) : Prop where
  id : IdOK m.id
  count : m.lists.length ≤ 2 ^ 63

theorem mem_keys_listFiles (id : String) (l : List β) : ∀ (i : Nat) (k : String),
    k ∈ keys (listFiles id i l) ↔ ∃ j, i ≤ j ∧ j < i + l.length ∧ k = listKey id j := by
  induction l with
  | nil =>
    intro i k
    simp only [listFiles, keys, List.map_nil, List.not_mem_nil, List.length_nil, false_iff]
    rintro ⟨j, h1, h2, _⟩; omega
  | cons b r ih =>
    intro i k
    have := ih (i + 1) k
    simp only [keys] at this
    simp only [listFiles, keys, List.map_cons, List.mem_cons, List.length_cons, this]
    constructor
    · rintro (h | ⟨j, h1, h2, h3⟩)
      · exact ⟨i, Nat.le_refl _, by omega, h⟩
      · exact ⟨j, by omega, by omega, h3⟩
    · rintro ⟨j, h1, h2, h3⟩
      by_cases hj : j = i
      · left; rw [h3, hj]
      · right; exact ⟨j, by omega, by omega, h3⟩

theorem nodup_keys_listFiles (id : String) (l : List β) : ∀ (i : Nat), (keys (listFiles id i l)).Nodup := by
  induction l with
  | nil => intro i; simp [listFiles, keys]
  | cons b r ih =>
    intro i
    have h := ih (i + 1)
    simp only [keys] at h
    simp only [listFiles, keys, List.map_cons, List.nodup_cons]
    refine ⟨?_, h⟩
    intro hm
    obtain ⟨j, h1, _, h3⟩ := (mem_keys_listFiles id r (i + 1) (listKey id i)).1 hm
    have := listKey_inj id i j h3
    omega

theorem metaKeys_class (m : BundleMeta β) (h : MetaOK m) (k : String) (hk : k ∈ keys (metaFiles m)) :
    (k = descKey m.id ∧ classify k = .descriptor) ∨ (k ≠ descKey m.id ∧ classify k = .fileList) := by
  simp only [metaFiles, keys, List.map_cons, List.mem_cons] at hk
  rcases hk with hk | hk
  · exact Or.inl ⟨hk, hk ▸ classify_descKey m.id h.id⟩
  · obtain ⟨j, _, h2, h3⟩ := (mem_keys_listFiles m.id m.lists 0 k).1 hk
    have hc : classify k = .fileList := by
      rw [h3]; exact classify_listKey m.id j h.id (by have := h.count; omega)
    refine Or.inr ⟨?_, hc⟩
    intro e
    rw [e, classify_descKey m.id h.id] at hc
    cases hc

theorem nodup_keys_metaFiles (m : BundleMeta β) (h : MetaOK m) : (keys (metaFiles m)).Nodup := by
  have h1 := nodup_keys_listFiles m.id m.lists 0
  simp only [keys] at h1
  simp only [metaFiles, keys, List.map_cons, List.nodup_cons]
  refine ⟨?_, h1⟩
  intro hm
  have : descKey m.id ∈ keys (metaFiles m) := by
    simp only [metaFiles, keys, List.map_cons]; exact List.mem_cons_of_mem _ hm
  obtain ⟨j, _, h2, h3⟩ := (mem_keys_listFiles m.id m.lists 0 (descKey m.id)).1 hm
  have hc := classify_listKey m.id j h.id (by have := h.count; omega)
  rw [← h3, classify_descKey m.id h.id] at hc
  cases hc

theorem get_metaFiles_data (m : BundleMeta β) (h : MetaOK m) (k : String) (hk : classify k = .data) :
    get (metaFiles m) k = none := by
  rw [get_eq_none_iff]
  intro hm
  rcases metaKeys_class m h k hm with ⟨_, hc⟩ | ⟨_, hc⟩ <;> (rw [hk] at hc; cases hc)

theorem get_map_entries (g : Entry → β) (es : List Entry) (k : String) :
    get (es.map fun e => (e.path, g e)) k = (es.find? (fun e => decide (e.path = k))).map g := by
  induction es with
  | nil => rfl
  | cons e r ih => by_cases h : e.path = k <;> simp [get, h, ih]

theorem get_filesOf (content : String → β) (es : List Entry) (hd : Distinct es) (k : String) :
    get (filesOf content es) k = (entryAt es k).map (fun e => content e.hash) := by
  unfold filesOf
  rw [get_map_entries]
  congr 1
  cases h : es.find? (fun e => decide (e.path = k)) with
  | none =>
    rw [List.find?_eq_none] at h
    exact (entryAt_none_iff.2 fun e he => by simpa using h e he).symm
  | some e =>
    have h1 := List.mem_of_find?_eq_some h
    have h2 : e.path = k := by simpa using List.find?_some h
    exact ((entryAt_some_iff hd).2 ⟨h1, h2⟩).symm

theorem keys_filesOf (content : String → β) (es : List Entry) :
    keys (filesOf content es) = es.map (·.path) := by
  simp [keys, filesOf, List.map_map, Function.comp_def]

theorem get_download_data (content : String → β) (es : List Entry) (m : BundleMeta β) (hd : Distinct es)
    (hm : MetaOK m) (k : String) (hk : classify k = .data) :
    get (download content es m) k = (entryAt es k).map (fun e => content e.hash) := by
  unfold download
  rw [get_append, get_filesOf content es hd]
  cases entryAt es k with
  | none => simp [get_metaFiles_data m hm k hk]
  | some e => simp

theorem get_download_meta (content : String → β) (es : List Entry) (m : BundleMeta β)
    (hdata : ∀ e ∈ es, classify e.path = .data) (k : String) (hk : classify k ≠ .data) :
    get (download content es m) k = get (metaFiles m) k := by
  unfold download
  rw [get_append]
  have : get (filesOf content es) k = none := by
    rw [get_eq_none_iff, keys_filesOf]
    intro hm
    obtain ⟨e, he, hp⟩ := List.mem_map.1 hm
    exact hk (hp ▸ hdata e he)
  rw [this]

theorem nodup_keys_download (content : String → β) (es : List Entry) (m : BundleMeta β) (hd : Distinct es)
    (hdata : ∀ e ∈ es, classify e.path = .data) (hm : MetaOK m) :
    (keys (download content es m)).Nodup := by
  simp only [download, keys, List.map_append]
  rw [List.nodup_append]
  have h1 := keys_filesOf content es
  simp only [keys] at h1
  refine ⟨by rw [h1]; exact hd, nodup_keys_metaFiles m hm, ?_⟩
  intro a ha b hb hab
  subst hab
  rw [h1] at ha
  obtain ⟨e, he, hp⟩ := List.mem_map.1 ha
  have hc := hdata e he
  rw [hp] at hc
  rcases metaKeys_class m hm a hb with ⟨_, hc'⟩ | ⟨_, hc'⟩ <;> (rw [hc] at hc'; cases hc')

/-! ## what the diff entries say about the two bundles -/

theorem diff_entry_facts (A B : List Entry) (d : DiffEntry) (hd : d ∈ diffBundles A B) :
    WF d ∧
    ((d.kind = .add ∧ entryAt A d.name = none) ∨ (d.kind ≠ .add ∧ (entryAt A d.name).isSome = true)) ∧
    (∀ (content : String → β), target content d = (entryAt B d.name).map (fun e => content e.hash)) ∧
    ((∃ e ∈ A, e.path = d.name) ∨ (∃ e ∈ B, e.path = d.name)) := by
  have hm := ((C05_diff_exact_general A B).2 d).1 hd
  obtain ⟨kind, name, ex, ad⟩ := d
  simp only [DiffEntry.mk.injEq, true_and] at hm
  rcases hm with ⟨e, a, he, ha, _, hk, hex, had⟩ | ⟨e, he, ha, hk, hex, had⟩ | ⟨a, he, ha, hk, hex, had⟩
  · subst hk hex had
    obtain ⟨ha1, ha2⟩ := entryAt_some ha
    refine ⟨ha2, Or.inr ⟨by simp, by simp [he]⟩, fun content => by simp [target, ha], Or.inr ⟨ad, ha1, ha2⟩⟩
  · subst hk hex had
    obtain ⟨he1, he2⟩ := entryAt_some he
    refine ⟨he2, Or.inr ⟨by simp, by simp [he]⟩, fun content => by simp [target, ha], Or.inl ⟨ex, he1, he2⟩⟩
  · subst hk hex had
    obtain ⟨ha1, ha2⟩ := entryAt_some ha
    refine ⟨ha2, Or.inl ⟨rfl, he⟩, fun content => by simp [target, ha], Or.inr ⟨ad, ha1, ha2⟩⟩

theorem not_in_diff (content : String → β) (A B : List Entry) (k : String)
    (h : ∀ d ∈ diffBundles A B, d.name ≠ k) :
    (entryAt A k).map (fun e => content e.hash) = (entryAt B k).map (fun e => content e.hash) := by
  have hm := (C05_diff_exact_general A B).2
  cases hA : entryAt A k with
  | none =>
    cases hB : entryAt B k with
    | none => rfl
    | some a =>
      exact absurd rfl (h ⟨.add, k, Entry.zero, a⟩ ((hm _).2 (Or.inr (Or.inr ⟨a, hA, hB, rfl⟩))))
  | some e =>
    cases hB : entryAt B k with
    | none =>
      exact absurd rfl (h ⟨.del, k, e, Entry.zero⟩ ((hm _).2 (Or.inr (Or.inl ⟨e, hA, hB, rfl⟩))))
    | some a =>
      by_cases hh : a.hash = e.hash
      · simp [hh]
      · exact absurd rfl (h ⟨.dif, k, e, a⟩ ((hm _).2 (Or.inl ⟨e, a, hA, hB, hh, rfl⟩)))

/-! ## the update theorem -/

/-- **C05, update part.** `A`, `B`: bundles with pairwise distinct paths, none of which is a
    `.datamon/*.yaml` path (such files are never uploaded); `mA`, `mB`: their archive metadata.
    If the destination store holds exactly a download of `A` (`hl`, `hn`), then `Update` to `B`
    — the diff entries being processed in ANY order `ds` (map iteration, goroutine scheduling) —
    succeeds, and afterwards every key of the store holds exactly what a fresh download of `B`
    holds: the data files of `B` and the `.datamon/` metadata of `B`, nothing else. -/
theorem C05_update_eq_download (content : String → β) (A B : List Entry) (mA mB : BundleMeta β)
    (hA : Distinct A) (hB : Distinct B)
    (hdA : ∀ e ∈ A, classify e.path = .data) (hdB : ∀ e ∈ B, classify e.path = .data)
    (hmA : MetaOK mA) (hmB : MetaOK mB)
    (local_ : Store β) (hn : (keys local_).Nodup)
    (hl : ∀ k, get local_ k = get (download content A mA) k)
    (ds : List DiffEntry) (hds : ds.Perm (diffBundles A B)) :
    ∃ s', updateWith content mB local_ ds = some s' ∧ (keys s').Nodup ∧
      ∀ k, get s' k = get (download content B mB) k := by
  have hnames : (ds.map (·.name)).Nodup := ((hds.map _).nodup_iff).2 (C05_diff_exact_general A B).1
  have hfacts : ∀ d ∈ ds, _ := fun d hd => diff_entry_facts (β := β) A B d (hds.mem_iff.1 hd)
  have hname_data : ∀ d ∈ ds, classify d.name = .data := by
    intro d hd
    rcases (hfacts d hd).2.2.2 with ⟨e, he, hp⟩ | ⟨e, he, hp⟩
    · exact hp ▸ hdA e he
    · exact hp ▸ hdB e he
  have hlocal_data : ∀ k, classify k = .data →
      get local_ k = (entryAt A k).map (fun e => content e.hash) :=
    fun k hk => (hl k).trans (get_download_data content A mA hA hmA k hk)
  have hlocal_meta : ∀ k, classify k ≠ .data → get local_ k = get (metaFiles mA) k :=
    fun k hk => (hl k).trans (get_download_meta content A mA hdA k hk)
  -- every store operation of the diff is applicable
  have hpre : ∀ d ∈ ds, WF d ∧ Pre local_ d := by
    intro d hd
    obtain ⟨hw, hk, _, _⟩ := hfacts d hd
    refine ⟨hw, ?_⟩
    have hg := hlocal_data d.name (hname_data d hd)
    unfold Pre
    rcases hk with ⟨hk, he⟩ | ⟨hk, he⟩
    · rw [hk]; simp only; rw [hg, he]; rfl
    · cases hkind : d.kind with
      | add => exact absurd hkind hk
      | del =>
        simp only; rw [hg]
        cases hx : entryAt A d.name with
        | none => rw [hx] at he; cases he
        | some e => rfl
      | dif =>
        simp only; rw [hg]
        cases hx : entryAt A d.name with
        | none => rw [hx] at he; cases he
        | some e => rfl
  obtain ⟨s1, h1, n1, g1⟩ := applyDiff_spec content ds local_ hnames hpre hn
  -- the data files are now those of `B`
  have hs1_data : ∀ k, classify k = .data → get s1 k = (entryAt B k).map (fun e => content e.hash) := by
    intro k hk
    rw [g1 k]
    cases hf : ds.find? (fun d => decide (d.name = k)) with
    | some d =>
      have hdm := List.mem_of_find?_eq_some hf
      have hdn : d.name = k := by simpa using List.find?_some hf
      simp only
      rw [(hfacts d hdm).2.2.1 content, hdn]
    | none =>
      simp only
      rw [hlocal_data k hk]
      apply not_in_diff
      intro d hd hdn
      rw [List.find?_eq_none] at hf
      exact hf d (hds.mem_iff.2 hd) (by simpa using hdn)
  -- the metadata files are still those of `A`
  have hs1_meta : ∀ k, classify k ≠ .data → get s1 k = get (metaFiles mA) k := by
    intro k hk
    rw [g1 k]
    cases hf : ds.find? (fun d => decide (d.name = k)) with
    | some d =>
      have hdm := List.mem_of_find?_eq_some hf
      have hdn : d.name = k := by simpa using List.find?_some hf
      exact absurd (hdn ▸ hname_data d hdm) hk
    | none => exact hlocal_meta k hk
  have hkey_meta : ∀ k, k ∈ keys s1 → classify k ≠ .data → k ∈ keys (metaFiles mA) := by
    intro k hk hc
    rw [← get_isSome_iff] at hk ⊢
    rwa [hs1_meta k hc] at hk
  -- the scan of the destination finds the descriptor of `A` and its file lists
  have hbad : (keys s1).any (fun k => classify k == .bad) = false := by
    rw [List.any_eq_false]
    intro k hk hc
    have hc' : classify k = .bad := by simpa using hc
    have hm := hkey_meta k hk (by rw [hc']; simp)
    rcases metaKeys_class mA hmA k hm with ⟨_, h⟩ | ⟨_, h⟩ <;> (rw [hc'] at h; cases h)
  have hdesc : (keys s1).filter (fun k => classify k == .descriptor) = [descKey mA.id] := by
    apply filter_unique _ _ _ n1
    intro x
    constructor
    · rintro ⟨hx, hc⟩
      have hc' : classify x = .descriptor := by simpa using hc
      have hm := hkey_meta x hx (by rw [hc']; simp)
      rcases metaKeys_class mA hmA x hm with ⟨h, _⟩ | ⟨_, h⟩
      · exact h
      · rw [hc'] at h; cases h
    · intro hx
      subst hx
      have hc := classify_descKey mA.id hmA.id
      refine ⟨?_, by simp [hc]⟩
      rw [← get_isSome_iff, hs1_meta _ (by rw [hc]; simp)]
      simp [metaFiles, get]
  have hscan : scanMeta (keys s1) =
      some (descKey mA.id, (keys s1).filter (fun k => classify k == .fileList)) := by
    simp [scanMeta, hbad, hdesc]
  generalize hfls : (keys s1).filter (fun k => classify k == .fileList) = fls at hscan
  have hfls_mem : ∀ k, k ∈ fls ↔ k ∈ keys s1 ∧ classify k = .fileList := by
    intro k; rw [← hfls]; simp
  have hfls_nodup : fls.Nodup := by
    rw [← hfls]; exact n1.sublist List.filter_sublist
  have hdk : classify (descKey mA.id) = .descriptor := classify_descKey mA.id hmA.id
  have hd_in : (get s1 (descKey mA.id)).isSome = true := by
    rw [hs1_meta _ (by rw [hdk]; simp)]
    simp [metaFiles, get]
  obtain ⟨s2, h2, n2, g2⟩ := delete_spec s1 (descKey mA.id) hd_in n1
  have hfls_in : ∀ k ∈ fls, (get s2 k).isSome = true := by
    intro k hk
    obtain ⟨hk1, hk2⟩ := (hfls_mem k).1 hk
    have hne : descKey mA.id ≠ k := by
      intro e; rw [← e, hdk] at hk2; cases hk2
    rw [g2]; simp only [hne, if_false]
    exact (get_isSome_iff s1 k).2 hk1
  obtain ⟨s3, h3, n3, g3⟩ := deleteAll_spec fls s2 hfls_nodup hfls_in n2
  have hs3_data : ∀ k, classify k = .data → get s3 k = get s1 k := by
    intro k hk
    have h1 : k ∉ fls := fun hm => by
      have := ((hfls_mem k).1 hm).2; rw [hk] at this; cases this
    have h2 : descKey mA.id ≠ k := by
      intro e; rw [← e, hdk] at hk; cases hk
    rw [g3, g2]; simp [h1, h2]
  have hs3_meta : ∀ k, classify k ≠ .data → get s3 k = none := by
    intro k hk
    rw [g3, g2]
    by_cases h1 : k ∈ fls
    · simp [h1]
    · by_cases h2 : descKey mA.id = k
      · simp [h2]
      · simp only [h1, h2, if_false]
        cases hg : get s1 k with
        | none => rfl
        | some v =>
          have hks : k ∈ keys s1 := (get_isSome_iff s1 k).1 (by rw [hg]; rfl)
          rcases metaKeys_class mA hmA k (hkey_meta k hks hk) with ⟨h, _⟩ | ⟨_, h⟩
          · exact absurd h.symm h2
          · exact absurd ((hfls_mem k).2 ⟨hks, h⟩) h1
  have hput_free : ∀ k ∈ keys (metaFiles mB), get s3 k = none := by
    intro k hk
    apply hs3_meta
    rcases metaKeys_class mB hmB k hk with ⟨_, h⟩ | ⟨_, h⟩ <;> (rw [h]; simp)
  obtain ⟨s4, h4, n4, g4⟩ := putAll_spec (metaFiles mB) s3 (nodup_keys_metaFiles mB hmB) hput_free n3
  refine ⟨s4, ?_, n4, ?_⟩
  · simp [updateWith, h1, rewriteMeta, hscan, h2, h3, h4]
  · intro k
    rw [g4]
    by_cases hk : classify k = .data
    · rw [get_metaFiles_data mB hmB k hk]
      simp only
      rw [hs3_data k hk, hs1_data k hk, get_download_data content B mB hB hmB k hk]
    · rw [get_download_meta content B mB hdB k hk, hs3_meta k hk]
      cases get (metaFiles mB) k <;> rfl

/-- the same, for `update` itself (diff entries in the order the model produces them) and with the
    conclusion as a permutation: the store holds exactly the key/bytes pairs of a fresh download -/
theorem C05_update_perm_download (content : String → β) (A B : List Entry) (mA mB : BundleMeta β)
    (hA : Distinct A) (hB : Distinct B)
    (hdA : ∀ e ∈ A, classify e.path = .data) (hdB : ∀ e ∈ B, classify e.path = .data)
    (hmA : MetaOK mA) (hmB : MetaOK mB)
    (local_ : Store β) (hl : local_.Perm (download content A mA)) :
    ∃ s', update content A B mB local_ = some s' ∧ s'.Perm (download content B mB) := by
  have hnA := nodup_keys_download content A mA hA hdA hmA
  have hn : (keys local_).Nodup := by
    unfold keys at hnA ⊢
    exact ((hl.map _).nodup_iff).2 hnA
  obtain ⟨s', h1, h2, h3⟩ := C05_update_eq_download content A B mA mB hA hB hdA hdB hmA hmB local_ hn
    (get_perm hl hn) (diffBundles A B) (List.Perm.refl _)
  exact ⟨s', h1, perm_of_get_eq _ _ h2 (nodup_keys_download content B mB hB hdB hmB) h3⟩

/-! ## the id of the local copy -/

theorem localBundleId_spec (id : String) (ks : List String)
    (hbad : ∀ k ∈ ks, classify k ≠ .bad) (hex : ∃ k ∈ ks, classify k = .descriptor)
    (hid : ∀ k ∈ ks, classify k = .descriptor → descriptorId k = some id) :
    localBundleId ks = some id := by
  induction ks with
  | nil => obtain ⟨k, hk, _⟩ := hex; cases hk
  | cons k r ih =>
    have hrest : classify k ≠ .descriptor → localBundleId r = some id := by
      intro hc
      apply ih (fun k' h => hbad k' (List.mem_cons_of_mem _ h)) ?_
        (fun k' h => hid k' (List.mem_cons_of_mem _ h))
      obtain ⟨k', hk', hc'⟩ := hex
      rcases List.mem_cons.1 hk' with e | e
      · exact absurd (e ▸ hc') hc
      · exact ⟨k', e, hc'⟩
    unfold localBundleId
    cases hc : classify k with
    | descriptor => exact hid k List.mem_cons_self hc
    | bad => exact absurd hc (hbad k List.mem_cons_self)
    | data => exact hrest (by rw [hc]; simp)
    | fileList => exact hrest (by rw [hc]; simp)

/-- **C05, finding the local bundle.** Whatever order the destination store lists its keys in, and
    whatever the data files are called, the scan of a download of `A` yields the id of `A`. -/
theorem C05_local_id (content : String → β) (A : List Entry) (mA : BundleMeta β)
    (hdA : ∀ e ∈ A, classify e.path = .data) (hmA : MetaOK mA) (ks : List String)
    (hks : ∀ k, k ∈ ks ↔ k ∈ keys (download content A mA)) :
    localBundleId ks = some mA.id := by
  have hcls : ∀ k ∈ ks, classify k = .data ∨ k ∈ keys (metaFiles mA) := by
    intro k hk
    have := (hks k).1 hk
    simp only [download, keys, List.map_append, List.mem_append] at this
    rcases this with h | h
    · have h1 := keys_filesOf content A
      simp only [keys] at h1
      rw [h1] at h
      obtain ⟨e, he, hp⟩ := List.mem_map.1 h
      exact Or.inl (hp ▸ hdA e he)
    · exact Or.inr h
  apply localBundleId_spec
  · intro k hk hc
    rcases hcls k hk with h | h
    · rw [hc] at h; cases h
    · rcases metaKeys_class mA hmA k h with ⟨_, h'⟩ | ⟨_, h'⟩ <;> (rw [hc] at h'; cases h')
  · refine ⟨descKey mA.id, (hks _).2 ?_, classify_descKey mA.id hmA.id⟩
    simp [download, keys, metaFiles]
  · intro k hk hc
    rcases hcls k hk with h | h
    · rw [hc] at h; cases h
    · rcases metaKeys_class mA hmA k h with ⟨h', _⟩ | ⟨_, h'⟩
      · rw [h']; exact descriptorId_descKey mA.id hmA.id
      · rw [hc] at h'; cases h'

end Main

/-! ## a localfs directory as the destination (partial: no file ↔ directory change) -/
section Localfs
variable {β : Type}

theorem stripPre_some {x l r : List Char} (h : stripPre x l = some r) : l = x ++ r := by
  induction x generalizing l with
  | nil => cases l <;> simp_all [stripPre]
  | cons a p ih =>
    cases l with
    | nil => simp [stripPre] at h
    | cons b l' =>
      by_cases hab : a = b
      · simp only [stripPre, hab, if_true] at h
        rw [hab, ih h]; rfl
      · simp [stripPre, hab] at h

theorem mem_parents (d p : String) : d ∈ parents p ↔ isDirOf d p = true := by
  unfold parents
  rw [List.mem_filter]
  constructor
  · exact fun h => h.2
  · intro h
    refine ⟨?_, h⟩
    unfold isDirOf at h
    cases hs : stripPre (d.toList ++ ['/']) p.toList with
    | none => rw [hs] at h; cases h
    | some r =>
      have hp := stripPre_some hs
      rw [List.mem_map]
      refine ⟨d.toList.length, ?_, ?_⟩
      · rw [List.mem_range, hp]; simp
      · rw [hp, List.append_assoc, List.take_left, String.ofList_toList]

/-- every file and every directory of the destination lies on a path of `U` -/
def FsInv (U : List String) (fs : Fs β) : Prop :=
  (∀ k ∈ keys fs.files, k ∈ U) ∧ (∀ d ∈ fs.dirs, ∃ p ∈ U, isDirOf d p = true)

/-- no path of `U` is a directory of another one -/
def NoConflict (U : List String) : Prop := ∀ p ∈ U, ∀ q ∈ U, isDirOf p q = false

theorem fsPut_sim {U : List String} (hU : NoConflict U) (fs : Fs β) (hI : FsInv U fs) (k : String)
    (hk : k ∈ U) (v : β) (s' : Store β) (h : put fs.files k v = some s') :
    ∃ fs', fsPut fs k v = some fs' ∧ fs'.files = s' ∧ FsInv U fs' := by
  unfold put at h
  split at h
  · cases h
  · rename_i hex
    have hs := Option.some.inj h
    have c1 : (parents k).any (fun d => (get fs.files d).isSome) = false := by
      rw [List.any_eq_false]
      intro d hd hsome
      have hdU := hI.1 d ((get_isSome_iff fs.files d).1 hsome)
      have := hU d hdU k hk
      rw [(mem_parents d k).1 hd] at this
      cases this
    have c2 : k ∉ fs.dirs := by
      intro hd
      obtain ⟨p, hp, hdir⟩ := hI.2 k hd
      have := hU k hk p hp
      rw [hdir] at this
      cases this
    refine ⟨⟨fs.files ++ [(k, v)], fs.dirs ++ (parents k).filter (fun d => d ∉ fs.dirs)⟩, ?_, hs, ?_, ?_⟩
    · unfold fsPut
      rw [if_neg (by rw [c1]; simp), if_neg c2, if_neg hex]
    · intro x hx
      simp only [keys, List.map_append, List.map_cons, List.map_nil, List.mem_append, List.mem_singleton] at hx
      rcases hx with hx | hx
      · exact hI.1 x hx
      · exact hx ▸ hk
    · intro d hd
      rcases List.mem_append.1 hd with hd | hd
      · exact hI.2 d hd
      · exact ⟨k, hk, (mem_parents d k).1 (List.mem_filter.1 hd).1⟩

theorem fsDelete_inv {U : List String} (fs : Fs β) (hI : FsInv U fs) (k : String) : FsInv U (fsDelete fs k) :=
  ⟨fun x hx => hI.1 x ((mem_keys_erase fs.files k x).1 hx).2, hI.2⟩

theorem fsDelete_sim (fs : Fs β) (k : String) (s' : Store β) (h : delete fs.files k = some s') :
    (fsDelete fs k).files = s' := by
  unfold delete at h
  split at h
  · exact Option.some.inj h
  · cases h

/-- the key a diff entry acts on -/
def keyOf (d : DiffEntry) : String :=
  match d.kind with
  | .del => d.existing.path
  | _ => d.additional.path

theorem fsApplyEntry_sim {U : List String} (hU : NoConflict U) (content : String → β) (fs : Fs β)
    (hI : FsInv U fs) (d : DiffEntry) (hk : keyOf d ∈ U) (s' : Store β)
    (h : applyEntry content fs.files d = some s') :
    ∃ fs', fsApplyEntry content fs d = some fs' ∧ fs'.files = s' ∧ FsInv U fs' := by
  obtain ⟨kind, name, ex, ad⟩ := d
  cases kind with
  | add => exact fsPut_sim hU fs hI _ hk _ s' h
  | del => exact ⟨fsDelete fs ex.path, rfl, fsDelete_sim fs _ s' h, fsDelete_inv fs hI _⟩
  | dif =>
    simp only [applyEntry] at h
    obtain ⟨s1, h1, h2⟩ := Option.bind_eq_some_iff.1 h
    have hf := fsDelete_sim fs _ s1 h1
    have := fsPut_sim hU (fsDelete fs ad.path) (fsDelete_inv fs hI _) ad.path hk (content ad.hash) s'
      (by rw [hf]; exact h2)
    exact this

theorem fsApplyDiff_sim {U : List String} (hU : NoConflict U) (content : String → β) (ds : List DiffEntry) :
    ∀ (fs : Fs β), FsInv U fs → (∀ d ∈ ds, keyOf d ∈ U) → ∀ s', applyDiff content fs.files ds = some s' →
    ∃ fs', fsApplyDiff content fs ds = some fs' ∧ fs'.files = s' ∧ FsInv U fs' := by
  induction ds with
  | nil => intro fs hI _ s' h; exact ⟨fs, rfl, Option.some.inj h, hI⟩
  | cons d r ih =>
    intro fs hI hk s' h
    simp only [applyDiff] at h
    cases h1 : applyEntry content fs.files d with
    | none => rw [h1] at h; cases h
    | some s1 =>
      rw [h1] at h
      obtain ⟨fs1, e1, f1, i1⟩ := fsApplyEntry_sim hU content fs hI d (hk d List.mem_cons_self) s1 h1
      obtain ⟨fs2, e2, f2, i2⟩ := ih fs1 i1 (fun d' h' => hk d' (List.mem_cons_of_mem _ h')) s' (by rw [f1]; exact h)
      exact ⟨fs2, by simp [fsApplyDiff, e1, e2], f2, i2⟩

theorem fsDeleteAll_sim {U : List String} (ks : List String) :
    ∀ (fs : Fs β), FsInv U fs → ∀ s', deleteAll fs.files ks = some s' →
    (fsDeleteAll fs ks).files = s' ∧ FsInv U (fsDeleteAll fs ks) := by
  induction ks with
  | nil => intro fs hI s' h; exact ⟨Option.some.inj h, hI⟩
  | cons k r ih =>
    intro fs hI s' h
    simp only [deleteAll] at h
    cases h1 : delete fs.files k with
    | none => rw [h1] at h; cases h
    | some s1 =>
      rw [h1] at h
      have f1 := fsDelete_sim fs k s1 h1
      exact ih (fsDelete fs k) (fsDelete_inv fs hI k) s' (by rw [f1]; exact h)

theorem fsPutAll_sim {U : List String} (hU : NoConflict U) (kvs : List (String × β)) :
    ∀ (fs : Fs β), FsInv U fs → (∀ k ∈ keys kvs, k ∈ U) → ∀ s', putAll fs.files kvs = some s' →
    ∃ fs', fsPutAll fs kvs = some fs' ∧ fs'.files = s' ∧ FsInv U fs' := by
  induction kvs with
  | nil => intro fs hI _ s' h; exact ⟨fs, rfl, Option.some.inj h, hI⟩
  | cons p r ih =>
    obtain ⟨k, v⟩ := p
    intro fs hI hk s' h
    simp only [putAll] at h
    cases h1 : put fs.files k v with
    | none => rw [h1] at h; cases h
    | some s1 =>
      rw [h1] at h
      obtain ⟨fs1, e1, f1, i1⟩ := fsPut_sim hU fs hI k (hk k (by simp [keys])) v s1 h1
      obtain ⟨fs2, e2, f2, i2⟩ := ih fs1 i1
        (fun k' h' => hk k' (by simp only [keys, List.map_cons]; exact List.mem_cons_of_mem _ h')) s'
        (by rw [f1]; exact h)
      exact ⟨fs2, by simp [fsPutAll, e1, e2], f2, i2⟩

/-- **C05, update part, on a localfs directory (partial).** `U`: the paths that matter (everything
    in the directory, the paths of `B`, the metadata files of `B`). If no path of `U` is a directory
    of another one (`NoConflict`: the complement of the recorded finding `C05-localfs-dir-file`), the
    update of a localfs directory does exactly what the update of a flat object store does, hence
    (by `C05_update_eq_download`) leaves exactly a fresh download of `B`. -/
theorem C05_update_localfs_partial (content : String → β) (A B : List Entry) (mA mB : BundleMeta β)
    (hA : Distinct A) (hB : Distinct B)
    (hdA : ∀ e ∈ A, classify e.path = .data) (hdB : ∀ e ∈ B, classify e.path = .data)
    (hmA : MetaOK mA) (hmB : MetaOK mB)
    (fs : Fs β) (hn : (keys fs.files).Nodup)
    (hl : ∀ k, get fs.files k = get (download content A mA) k)
    (ds : List DiffEntry) (hds : ds.Perm (diffBundles A B))
    (U : List String) (hU : NoConflict U) (hI : FsInv U fs)
    (hAU : ∀ e ∈ A, e.path ∈ U) (hBU : ∀ e ∈ B, e.path ∈ U) (hMU : ∀ k ∈ keys (metaFiles mB), k ∈ U) :
    ∃ fs', fsUpdateWith content mB fs ds = some fs' ∧
      ∀ k, get fs'.files k = get (download content B mB) k := by
  obtain ⟨s', h1, _, h3⟩ :=
    C05_update_eq_download content A B mA mB hA hB hdA hdB hmA hmB fs.files hn hl ds hds
  unfold updateWith at h1
  obtain ⟨s1, ha, hr⟩ := Option.bind_eq_some_iff.1 h1
  have hkeys : ∀ d ∈ ds, keyOf d ∈ U := by
    intro d hd
    have hf := diff_entry_facts (β := β) A B d (hds.mem_iff.1 hd)
    obtain ⟨kind, name, ex, ad⟩ := d
    have hw := hf.1
    have hname : name ∈ U := by
      rcases hf.2.2.2 with ⟨e, he, hp⟩ | ⟨e, he, hp⟩
      · have hp' : e.path = name := hp
        exact hp' ▸ hAU e he
      · have hp' : e.path = name := hp
        exact hp' ▸ hBU e he
    cases kind <;> simp only [WF] at hw <;> simp only [keyOf, hw] <;> exact hname
  obtain ⟨fs1, e1, f1, i1⟩ := fsApplyDiff_sim hU content ds fs hI hkeys s1 ha
  unfold rewriteMeta at hr
  cases hsc : scanMeta (keys s1) with
  | none => rw [hsc] at hr; cases hr
  | some p =>
    obtain ⟨d, fls⟩ := p
    rw [hsc] at hr
    simp only at hr
    obtain ⟨s2, hd2, hr2⟩ := Option.bind_eq_some_iff.1 hr
    obtain ⟨s3, hd3, hr3⟩ := Option.bind_eq_some_iff.1 hr2
    have f2 : (fsDelete fs1 d).files = s2 := fsDelete_sim fs1 d s2 (by rw [f1]; exact hd2)
    obtain ⟨f3, i3⟩ := fsDeleteAll_sim (U := U) fls (fsDelete fs1 d) (fsDelete_inv fs1 i1 d) s3
      (by rw [f2]; exact hd3)
    obtain ⟨fs4, e4, f4, _⟩ := fsPutAll_sim hU (metaFiles mB) _ i3 hMU s' (by rw [f3]; exact hr3)
    refine ⟨fs4, ?_, fun k => by rw [f4]; exact h3 k⟩
    unfold fsUpdateWith
    rw [e1]
    simp only [Option.bind_some, f1, hsc]
    exact e4

end Localfs

/-! ## the Go source still says what the model assumes (facts regenerated on every run) -/

/-- `regexp.QuoteMeta` -/
def reQuote (s : String) : String :=
  String.ofList (s.toList.flatMap fun c => if c ∈ "\\.+*?()|[]{}^$".toList then ['\\', c] else [c])

theorem C05_facts_agree :
    Facts.c05MetaRe = "^" ++ reQuote metaPrefix ++ "(.*)" ++ reQuote metaSuffix ++ "$" ∧
    Facts.c05FileListRe = "^(.*)" ++ reQuote fileListInfix ++ "(.*)$" ∧
    Facts.c05ConsumableBundlePath = [metaPrefix, "<bundleID>", metaSuffix] ∧
    Facts.c05ConsumableFileListPath = [metaPrefix, "<bundleID>", fileListInfix, "<index>", metaSuffix] ∧
    -- nothing below `.datamon/` is ever uploaded: first alternative of `genFileRe`
    ("^" ++ reQuote metaPrefix ++ ".*|").toList.isPrefixOf Facts.c05GeneratedFileRe.toList = true ∧
    -- `diffBundles` keys both maps by the path and compares hashes only
    Facts.c05DiffKeyFields = ["NameWithPath", "NameWithPath"] ∧
    Facts.c05DiffComparisons = ["Hash!=Hash"] ∧
    -- `applyEntry`
    Facts.c05UpdateActions =
      ["DiffEntryTypeAdd:downloadBundleEntry:de.Additional:bundleDest",
       "DiffEntryTypeDel:deleteBundleEntry:de.Existing:bundleDest",
       "DiffEntryTypeDif:downloadBundleEntryOverwrite:de.Additional:bundleDest"] ∧
    Facts.c05EntryWorkers =
      ["downloadBundleEntrySync:overwrite=false", "downloadBundleEntryOverwrite:overwrite=true",
       "downloadBundleEntry:downloadBundleEntrySync"] ∧
    Facts.c05EntryStoreCalls = ["if overwrite: Delete", "Put(storage.NoOverWrite)"] ∧
    Facts.c05ReadTeePutFlag = "NoOverWrite" ∧
    -- `localBundleId` (not `localBundleIdUnfixed`) is the model of the scan
    Facts.c05IdScanSkipsDataFiles = true := by decide +kernel

/-! ## the hypotheses are satisfiable; a worked instance -/
section Examples

def exA : List Entry := [⟨"a", "h1", 1⟩, ⟨"d/b", "h2", 2⟩, ⟨"c x", "h3", 3⟩, ⟨"-", "h5", 0⟩]
def exB : List Entry := [⟨"d/b", "h2", 2⟩, ⟨"c x", "h4", 3⟩, ⟨"moved/a", "h1", 1⟩]
def exMA : BundleMeta Nat := ⟨"1aAzZ09", 100, [101]⟩
def exMB : BundleMeta Nat := ⟨"2bB", 200, [201, 202]⟩
def exContent (h : String) : Nat := h.length * 1000 + (h.toList.getLast?.map Char.toNat).getD 0

example : Distinct exA ∧ Distinct exB := by decide
example : (∀ e ∈ exA, classify e.path = .data) ∧ (∀ e ∈ exB, classify e.path = .data) := by decide
example : MetaOK exMA ∧ MetaOK exMB := ⟨⟨by decide, by decide⟩, ⟨by decide, by decide⟩⟩
example : diffBundles exA exB =
    [⟨.del, "a", ⟨"a", "h1", 1⟩, Entry.zero⟩, ⟨.dif, "c x", ⟨"c x", "h3", 3⟩, ⟨"c x", "h4", 3⟩⟩,
     ⟨.del, "-", ⟨"-", "h5", 0⟩, Entry.zero⟩, ⟨.add, "moved/a", Entry.zero, ⟨"moved/a", "h1", 1⟩⟩] := by decide
example : (update exContent exA exB exMB (download exContent exA exMA)).map
      (fun s => decide (∀ k ∈ keys s ++ keys (download exContent exB exMB),
        get s k = get (download exContent exB exMB) k)) = some true := by decide
/-- the hypotheses of the localfs theorem hold for the worked instance -/
example :
    let U := keys (download exContent exA exMA) ++ exB.map (·.path) ++ keys (metaFiles exMB)
    let fs : Fs Nat := ⟨download exContent exA exMA, ["d", ".datamon"]⟩
    NoConflict U ∧ FsInv U fs ∧ dirFileConflict exA exB = false := by
  unfold NoConflict FsInv
  decide
example : Changed exA exB "c x" ∧ Removed exA exB "a" ∧ Added exA exB "moved/a" := by
  refine ⟨⟨⟨"c x", "h3", 3⟩, by decide, ⟨"c x", "h4", 3⟩, by decide, rfl, rfl, by decide⟩,
    ⟨⟨⟨"a", "h1", 1⟩, by decide, rfl⟩, by decide⟩, ⟨⟨⟨"moved/a", "h1", 1⟩, by decide, rfl⟩, by decide⟩⟩

end Examples

/-! ## negation witnesses -/

/-- The code before `fix: … bundle id detection …`: a data file listed before `.datamon/` (here a
    file called `-`) aborted the scan, so `Diff` and `Update` failed on such a download; the
    repaired scan finds the id. -/
theorem C05_neg_unfixed_id_scan :
    localBundleIdUnfixed ["-", ".datamon/A-bundle-files-0.yaml", ".datamon/A.yaml", "z"] = none ∧
    localBundleId ["-", ".datamon/A-bundle-files-0.yaml", ".datamon/A.yaml", "z"] = some "A" := by decide

/-- With distinct paths dropped the diff part fails as stated (the last entry of a repeated path
    wins): order matters. -/
theorem C05_neg_duplicate_paths_order :
    diffBundles [⟨"a", "h1", 1⟩, ⟨"a", "h2", 1⟩] [⟨"a", "h2", 1⟩] = [] ∧
    diffBundles [⟨"a", "h2", 1⟩, ⟨"a", "h1", 1⟩] [⟨"a", "h2", 1⟩] ≠ [] := by decide

/-- Finding `C05-localfs-dir-file` (recorded, not repaired): on `localfs` a directory of `A` that is a
    file of `B` cannot be updated — the deleted file leaves its directory behind and the `Put` of the
    new file fails — although a fresh download of `B` succeeds. -/
theorem C05_neg_localfs_dir_to_file :
    let A : List Entry := [⟨"data/x", "h1", 1⟩]
    let B : List Entry := [⟨"data", "h2", 1⟩]
    (fsDownload exContent ⟨[], []⟩ A).bind (fun fs => fsApplyDiff exContent fs (diffBundles A B)) = none ∧
    (fsDownload exContent ⟨[], []⟩ B).isSome = true ∧
    dirFileConflict A B = true := by decide

/-- … and a file of `A` that is a directory of `B` is updated or not depending on which goroutine
    runs first. -/
theorem C05_neg_localfs_file_to_dir_order :
    let A : List Entry := [⟨"data", "h1", 1⟩]
    let B : List Entry := [⟨"data/x", "h2", 1⟩]
    ((fsDownload exContent ⟨[], []⟩ A).bind (fun fs => fsApplyDiff exContent fs (diffBundles A B))).isSome = true ∧
    (fsDownload exContent ⟨[], []⟩ A).bind (fun fs => fsApplyDiff exContent fs (diffBundles A B).reverse) = none ∧
    dirFileConflict A B = true := by decide

end BundleDiff
