import DatamonVerif.Model.Sidecar
import DatamonVerif.Generated.Facts

/-! C21 — sidecar parameters survive environment-variable encoding. -/
namespace Sidecar

/-! ### separators -/

theorem firstFreeF_ge (f : Nat) : ∀ (c : Nat) (used : List Nat), c ≤ firstFreeF f c used := by
  induction f with
  | zero => intro c used; exact Nat.le_refl _
  | succ f ih =>
    intro c used
    simp only [firstFreeF]
    split
    · have := ih (c + 1) (used.erase c); omega
    · exact Nat.le_refl _

theorem firstFreeF_not_mem (f : Nat) :
    ∀ (c : Nat) (used : List Nat), used.length ≤ f → firstFreeF f c used ∉ used := by
  induction f with
  | zero =>
    intro c used hl
    have : used = [] := List.eq_nil_of_length_eq_zero (by omega)
    subst this; simp
  | succ f ih =>
    intro c used hl
    simp only [firstFreeF]
    split
    · rename_i h
      intro hm
      have hge := firstFreeF_ge f (c + 1) (used.erase c)
      have hne : firstFreeF f (c + 1) (used.erase c) ≠ c := by omega
      have hlen : (used.erase c).length ≤ f := by
        rw [List.length_erase_of_mem h]; omega
      exact ih (c + 1) (used.erase c) hlen ((List.mem_erase_of_ne hne).mpr hm)
    · rename_i h; exact h

theorem firstFree_not_mem (c : Nat) (used : List Nat) : firstFree c used ∉ used :=
  firstFreeF_not_mem used.length c used (Nat.le_refl _)

/-- **separators_fresh**: the two separators are different and occur in none of the strings
    they were chosen against. -/
theorem C21_separators_fresh (used : List Nat) :
    (chooseSeps used).1 ∉ used ∧ (chooseSeps used).2 ∉ used ∧ (chooseSeps used).1 ≠ (chooseSeps used).2 := by
  unfold chooseSeps
  refine ⟨firstFree_not_mem _ _, ?_, ?_⟩
  · intro h
    exact firstFree_not_mem 48 (used ++ [firstFree 48 used]) (List.mem_append_left _ h)
  · intro h
    apply firstFree_not_mem 48 (used ++ [firstFree 48 used])
    simp only [List.mem_append, List.mem_singleton]
    right; exact h.symm

/-! ### splitting -/

theorem splitNE_append_nosep (sep : Nat) (it : Str) :
    ∀ (rest cur : Str), sep ∉ it → splitNE sep (it ++ rest) cur = splitNE sep rest (cur ++ it) := by
  induction it with
  | nil => intro rest cur _; simp
  | cons c r ih =>
    intro rest cur h
    have hc : c ≠ sep := by intro e; apply h; simp [e]
    have hr : sep ∉ r := by intro e; apply h; simp [e]
    simp only [List.cons_append, splitNE, hc, if_false]
    rw [ih rest (cur ++ [c]) hr]
    simp

theorem splitNE_trailing (sep : Nat) (l : Str) :
    ∀ cur, splitNE sep (l ++ [sep]) cur = splitNE sep l cur := by
  induction l with
  | nil => intro cur; by_cases h : cur = [] <;> simp [splitNE, h]
  | cons c r ih =>
    intro cur
    simp only [List.cons_append, splitNE]
    split
    · split <;> simp [ih]
    · exact ih _

theorem split_body (sep : Nat) (items : List Str) (h : ∀ it ∈ items, it ≠ [] ∧ sep ∉ it) :
    splitNE sep (items.map (· ++ [sep])).flatten [] = items := by
  induction items with
  | nil => simp [splitNE]
  | cons it r ih =>
    have h1 := h it (by simp)
    simp only [List.map_cons, List.flatten_cons, List.append_assoc]
    rw [splitNE_append_nosep sep it _ [] h1.2]
    simp only [List.nil_append, List.singleton_append, splitNE, if_true, h1.1, if_false]
    rw [ih (fun x hx => h x (by simp [hx]))]

theorem getLast_body (sep : Nat) (items : List Str) (h : items ≠ []) :
    ((items.map (· ++ [sep])).flatten).getLast? = some sep := by
  induction items with
  | nil => exact absurd rfl h
  | cons it r ih =>
    simp only [List.map_cons, List.flatten_cons]
    by_cases hr : r = []
    · subst hr; simp
    · have := ih hr
      rw [List.getLast?_append]
      simp [this]

/-! ### items -/

theorem takeWhile_ne_append (k : Nat) (a b : Str) (h : k ∉ a) :
    (a ++ k :: b).takeWhile (· != k) = a := by
  induction a with
  | nil => simp
  | cons c r ih =>
    have hc : c ≠ k := by intro e; apply h; simp [e]
    have hr : k ∉ r := by intro e; apply h; simp [e]
    have hck : (c != k) = true := by simp [hc]
    simp [List.takeWhile_cons, hck, ih hr]

theorem dropWhile_ne_append (k : Nat) (a b : Str) (h : k ∉ a) :
    (a ++ k :: b).dropWhile (· != k) = k :: b := by
  induction a with
  | nil => simp
  | cons c r ih =>
    have hc : c ≠ k := by intro e; apply h; simp [e]
    have hr : k ∉ r := by intro e; apply h; simp [e]
    have hck : (c != k) = true := by simp [hc]
    simp [List.dropWhile_cons, hck, ih hr]

theorem takeWhile_ne_all (k : Nat) (a : Str) (h : k ∉ a) : a.takeWhile (· != k) = a := by
  induction a with
  | nil => simp
  | cons c r ih =>
    have hc : c ≠ k := by intro e; apply h; simp [e]
    have hr : k ∉ r := by intro e; apply h; simp [e]
    have hck : (c != k) = true := by simp [hc]
    simp [List.takeWhile_cons, hck, ih hr]

theorem dropWhile_ne_all (k : Nat) (a : Str) (h : k ∉ a) : a.dropWhile (· != k) = [] := by
  induction a with
  | nil => simp
  | cons c r ih =>
    have hc : c ≠ k := by intro e; apply h; simp [e]
    have hr : k ∉ r := by intro e; apply h; simp [e]
    have hck : (c != k) = true := by simp [hc]
    simp [List.dropWhile_cons, hck, ih hr]

theorem parseItem_kv (ksep : Nat) (name val : Str) (hn : ksep ∉ name) (hv : ksep ∉ val) :
    parseItem ksep (name ++ [ksep] ++ val) = (name, some val) := by
  unfold parseItem
  simp only [List.append_assoc, List.singleton_append]
  rw [takeWhile_ne_append ksep name val hn, dropWhile_ne_append ksep name val hn]
  simp [takeWhile_ne_all ksep val hv]

theorem parseItem_flag (ksep : Nat) (name : Str) (hn : ksep ∉ name) :
    parseItem ksep name = (name, none) := by
  unfold parseItem
  rw [takeWhile_ne_all ksep name hn, dropWhile_ne_all ksep name hn]

/-! ### the encoder -/

def itemOf (ksep : Nat) (p : Str × Str) : Str := p.1 ++ [ksep] ++ p.2

def items (ksep : Nat) (ps : List (Str × Str)) : List Str :=
  (ps.filter (fun p => p.2 ≠ [])).map (itemOf ksep)

theorem fold_append (isep ksep : Nat) (ps : List (Str × Str))
    (hv : ∀ p ∈ ps, isep ∉ p.2 ∧ ksep ∉ p.2) :
    ∀ acc, ps.foldl (appendParam isep ksep) (some acc) =
      some (acc ++ ((items ksep ps).map (· ++ [isep])).flatten) := by
  induction ps with
  | nil => intro acc; simp [items]
  | cons p r ih =>
    intro acc
    have hp := hv p (by simp)
    have hr : ∀ q ∈ r, isep ∉ q.2 ∧ ksep ∉ q.2 := fun q hq => hv q (by simp [hq])
    simp only [List.foldl_cons, appendParam]
    by_cases he : p.2 = []
    · simp only [he, if_true]
      rw [ih hr acc]
      simp [items, List.filter_cons, he]
    · have hno : ¬ (isep ∈ p.2 ∨ ksep ∈ p.2) := by
        intro h; cases h with
        | inl h => exact hp.1 h
        | inr h => exact hp.2 h
      simp only [he, if_false, hno]
      rw [ih hr]
      simp [items, List.filter_cons, he, itemOf, List.append_assoc]

/-- the encoder rejects exactly when some non-empty value contains a separator
    ("encoding fails rather than produce an ambiguous string") -/
theorem C21_encode_rejects_iff (isep ksep : Nat) (flag : Bool) (ps : List (Str × Str)) :
    encode isep ksep flag ps = none ↔ ∃ p ∈ ps, p.2 ≠ [] ∧ (isep ∈ p.2 ∨ ksep ∈ p.2) := by
  unfold encode
  simp only [Option.map_eq_none_iff]
  generalize ([isep, ksep] ++ if flag = true then flagS ++ [isep] else []) = start
  induction ps generalizing start with
  | nil => simp
  | cons p r ih =>
    simp only [List.foldl_cons, appendParam]
    by_cases he : p.2 = []
    · simp only [he, if_true]
      rw [ih]
      constructor
      · rintro ⟨q, hq, h⟩; exact ⟨q, by simp [hq], h⟩
      · rintro ⟨q, hq, h⟩
        rcases List.mem_cons.mp hq with rfl | hq
        · exact absurd he h.1
        · exact ⟨q, hq, h⟩
    · simp only [he, if_false]
      by_cases hs : isep ∈ p.2 ∨ ksep ∈ p.2
      · simp only [hs, if_true]
        have hnone : ∀ l : List (Str × Str), l.foldl (appendParam isep ksep) none = none := by
          intro l; induction l with
          | nil => rfl
          | cons x xs ihx => simpa [appendParam] using ihx
        rw [hnone]
        simp only [true_iff]
        exact ⟨p, by simp, he, hs⟩
      · simp only [hs, if_false]
        rw [ih]
        constructor
        · rintro ⟨q, hq, h⟩; exact ⟨q, by simp [hq], h⟩
        · rintro ⟨q, hq, h⟩
          rcases List.mem_cons.mp hq with rfl | hq
          · exact absurd h.2 hs
          · exact ⟨q, hq, h⟩

theorem decode_trim (isep ksep : Nat) (hne : isep ≠ ksep) (B : Str)
    (hB : B = [] ∨ B.getLast? = some isep) :
    decode (trimSuffix isep (isep :: ksep :: B)) = some ((splitNE isep B []).map (parseItem ksep)) := by
  rcases hB with rfl | hB
  · have : trimSuffix isep [isep, ksep] = [isep, ksep] := by
      unfold trimSuffix
      have : ¬ (some ksep = some isep) := by intro h; injection h with h; exact hne h.symm
      simp [this]
    rw [this]; rfl
  · have hBne : B ≠ [] := by intro h; simp [h] at hB
    have hl : (isep :: ksep :: B).getLast? = some isep := by
      rw [show isep :: ksep :: B = [isep, ksep] ++ B from rfl, List.getLast?_append, hB]; rfl
    have hd : (isep :: ksep :: B).dropLast = isep :: ksep :: B.dropLast := by
      cases B with
      | nil => exact absurd rfl hBne
      | cons b bs => simp [List.dropLast]
    unfold trimSuffix
    simp only [hl, if_true, hd, decode]
    have hB' : B.dropLast ++ [isep] = B := by
      have h1 := List.dropLast_concat_getLast hBne
      have h2 : B.getLast hBne = isep := by
        have := List.getLast?_eq_some_getLast hBne
        rw [hB] at this; injection this with this; exact this.symm
      rw [h2] at h1; exact h1
    have := splitNE_trailing isep B.dropLast []
    rw [hB'] at this
    rw [this]

/-- **C21 round trip** (any separators that avoid names and values): the reference decoder
    recovers exactly the sleep flag and the non-empty parameters. -/
theorem C21_decode_encode (isep ksep : Nat) (flag : Bool) (ps : List (Str × Str))
    (hne : isep ≠ ksep) (hS : isep ≠ 83 ∧ ksep ≠ 83)
    (hn : ∀ p ∈ ps, p.1 ≠ [] ∧ isep ∉ p.1 ∧ ksep ∉ p.1)
    (hv : ∀ p ∈ ps, isep ∉ p.2 ∧ ksep ∉ p.2) :
    ∃ s, encode isep ksep flag ps = some s ∧ decode s = some (expected flag ps) := by
  unfold encode
  simp only []
  rw [fold_append isep ksep ps hv]
  simp only [Option.map_some]
  refine ⟨_, rfl, ?_⟩
  -- all items, including the flag
  let all : List Str := (if flag then [flagS] else []) ++ items ksep ps
  have hshape : ([isep, ksep] ++ (if flag = true then flagS ++ [isep] else [])) ++
      ((items ksep ps).map (· ++ [isep])).flatten = isep :: ksep :: ((all.map (· ++ [isep])).flatten) := by
    cases flag <;> simp [all]
  rw [hshape]
  have hitems : ∀ it ∈ all, it ≠ [] ∧ isep ∉ it := by
    intro it hit
    simp only [all, List.mem_append] at hit
    rcases hit with hit | hit
    · cases flag with
      | false => simp at hit
      | true =>
        simp only [if_true, List.mem_singleton] at hit
        subst hit
        refine ⟨by simp [flagS], ?_⟩
        simp only [flagS, List.mem_singleton]
        exact hS.1
    · simp only [items, List.mem_map, List.mem_filter] at hit
      obtain ⟨p, ⟨hp, _⟩, rfl⟩ := hit
      have h1 := hn p hp
      have h2 := hv p hp
      refine ⟨by simp [itemOf], ?_⟩
      simp only [itemOf, List.mem_append, List.mem_singleton, not_or]
      exact ⟨⟨h1.2.1, hne⟩, h2.1⟩
  have hB : (all.map (· ++ [isep])).flatten = [] ∨ ((all.map (· ++ [isep])).flatten).getLast? = some isep := by
    by_cases ha : all = []
    · left; simp [ha]
    · right; exact getLast_body isep all ha
  rw [decode_trim isep ksep hne _ hB, split_body isep all hitems]
  congr 1
  simp only [all, List.map_append, expected]
  congr 1
  · cases flag with
    | false => rfl
    | true =>
      simp only [if_true, List.map_cons, List.map_nil]
      rw [parseItem_flag ksep flagS (by simp only [flagS, List.mem_singleton]; exact hS.2)]
  · simp only [items, List.map_map]
    apply List.map_congr_left
    intro p hp
    have hp' := (List.mem_filter.mp hp).1
    simp only [Function.comp, itemOf]
    exact parseItem_kv ksep p.1 p.2 (hn p hp').2.2 (hv p hp').2

/-- **C21 end to end**: with the separators chosen by `setSeparators` against all values *and* the
    characters of the parameter names, encoding never rejects and the reference decoder returns
    exactly the non-empty parameters and the sleep flag. -/
theorem C21_roundtrip_auto (allValues : List Str) (excl : Str) (flag : Bool) (ps : List (Str × Str))
    (hnames : ∀ p ∈ ps, p.1 ≠ [] ∧ ∀ ch ∈ p.1, ch ∈ excl) (hSname : 83 ∈ excl)
    (hvals : ∀ p ∈ ps, p.2 ∈ allValues) :
    ∃ s, encodeAuto allValues excl flag ps = some s ∧ decode s = some (expected flag ps) := by
  unfold encodeAuto
  obtain ⟨h1, h2, h3⟩ := C21_separators_fresh (allValues.flatten ++ excl)
  have notinV : ∀ (c : Nat) (s : Str), c ∉ allValues.flatten ++ excl → s ∈ allValues → c ∉ s := by
    intro c s hc hs hcs
    apply hc
    simp only [List.mem_append, List.mem_flatten]
    left; exact ⟨s, hs, hcs⟩
  have notinE : ∀ (c : Nat), c ∉ allValues.flatten ++ excl → c ∉ excl := by
    intro c hc hce
    apply hc
    simp only [List.mem_append]
    right; exact hce
  apply C21_decode_encode _ _ flag ps h3
  · constructor
    · intro e; exact notinE _ h1 (e ▸ hSname)
    · intro e; exact notinE _ h2 (e ▸ hSname)
  · intro p hp
    have := hnames p hp
    refine ⟨this.1, ?_, ?_⟩
    · intro hm; exact notinE _ h1 (this.2 _ hm)
    · intro hm; exact notinE _ h2 (this.2 _ hm)
  · intro p hp
    have := hvals p hp
    exact ⟨notinV _ _ h1 this, notinV _ _ h2 this⟩

def strOf (s : String) : Str := s.toList.map Char.toNat

/-- the hypotheses of `C21_roundtrip_auto` about names hold for the names and the exclusion
    literal found in the Go source *now* (regenerated facts): every character of every parameter
    name is excluded from the separators. -/
theorem C21_facts_names_excluded :
    (∀ n ∈ Facts.sidecarParamNames, strOf n ≠ [] ∧ ∀ ch ∈ strOf n, ch ∈ strOf Facts.sidecarSepExclusions)
    ∧ 83 ∈ strOf Facts.sidecarSepExclusions ∧ Facts.sidecarFirstSep = 48 := by
  decide

/-- Without the parameter names in the exclusion set the claim is false: values that use up
    '0'…'b' push the item separator to 'c', which is also a parameter name, and the decoder
    gets something else back (the defect repaired in /repo by the `fix:` commit). -/
theorem C21_neg_names_not_excluded :
    let vals : Str := (List.range 51).map (· + 48)
    let ps : List (Str × Str) := [([99], vals)]
    ∃ s, encodeAuto [vals] [] false ps = some s ∧ decode s ≠ some (expected false ps) := by
  decide +kernel

/-- non-vacuity -/
example : encodeAuto [[120, 48]] [99, 83] true [([99], [120, 48])] = some [49, 50, 83, 49, 99, 50, 120, 48] := by
  decide

end Sidecar
