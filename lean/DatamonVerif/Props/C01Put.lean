import DatamonVerif.Props.C01
import DatamonVerif.Props.C01Seq
import DatamonVerif.Props.C02
/-! C01, end to end — `Put` then read: the store that `Put` leaves serves the object.

`C01_put_then_readAll` / `C01_put_then_readAt`: for every store, content, leaf size and write
chunking, after `put` the object's key resolves (root blob parsed and verified), every leaf
verifies, and sequential / random-access reads return exactly the content. Hypotheses: digests have
the key size; the blobs of this object do not collide with each other (equal keys ⇒ equal bytes —
a local no-collision hypothesis) and every blob of the object that the store already holds under
such a key holds the same bytes (no damaged or colliding leftovers). -/
namespace Cafs

/-- what `writeBlob` turns into the right bytes: the store has nothing under `k`, or the right bytes,
    or an EMPTY blob (what an interrupted upload leaves: `existsAndValidBlob` overwrites it), or — on
    stores that report a CRC — anything at all (a CRC mismatch is overwritten) -/
def Compat (crc : Bool) (s : Store) (k d : Bytes) : Prop :=
  s.get k = none ∨ s.get k = some d ∨ s.get k = some [] ∨ crc = true

theorem writeBlob_get_self (crc : Bool) (s : Store) (k d : Bytes) (h : Compat crc s k d) :
    (writeBlob crc s k d).get k = some d := by
  unfold writeBlob
  rcases h with h | h | h | h
  · rw [h]; exact get_cons_eq s k d
  · rw [h]
    by_cases hc : d = [] ∨ (crc = true ∧ d ≠ d)
    · simp only [hc, if_true]; exact get_cons_eq s k d
    · simp only [hc, if_false]; exact h
  · rw [h]
    simp only [true_or, if_true]; exact get_cons_eq s k d
  · cases hg : s.get k with
    | none => exact get_cons_eq s k d
    | some d' =>
      by_cases hc : d' = [] ∨ (crc = true ∧ d' ≠ d)
      · simp only [hc, if_true]; exact get_cons_eq s k d
      · simp only [hc, if_false]
        have : d' = d := by
          by_cases e : d' = d
          · exact e
          · exact absurd (Or.inr ⟨h, e⟩) hc
        rw [hg, this]

theorem writeBlob_compat (crc : Bool) (s : Store) (k d k1 d1 : Bytes) (h : Compat crc s k d) (h1 : Compat crc s k1 d1)
    (hco : k = k1 → d = d1) : Compat crc (writeBlob crc s k1 d1) k d := by
  by_cases hk : k = k1
  · subst hk
    have := hco rfl
    subst this
    right; left; exact writeBlob_get_self crc s k d h1
  · unfold Compat
    rw [writeBlob_frame crc s k1 d1 k hk]
    exact h

/-- bindings of one key agree -/
def Coherent (kvs : List (Bytes × Bytes)) : Prop := ∀ p ∈ kvs, ∀ q ∈ kvs, p.1 = q.1 → p.2 = q.2

theorem writeBlobs_compat (crc : Bool) (kvs : List (Bytes × Bytes)) :
    ∀ (s : Store) (k d : Bytes), Compat crc s k d → (∀ p ∈ kvs, Compat crc s p.1 p.2) → Coherent kvs →
      (∀ p ∈ kvs, k = p.1 → d = p.2) → Compat crc (writeBlobs crc s kvs) k d := by
  induction kvs with
  | nil => intro s k d h _ _ _; exact h
  | cons p r ih =>
    intro s k d h hall hco hk
    obtain ⟨k1, d1⟩ := p
    simp only [writeBlobs]
    apply ih
    · exact writeBlob_compat crc s k d k1 d1 h (hall (k1, d1) (by simp)) (hk (k1, d1) (by simp))
    · intro q hq
      exact writeBlob_compat crc s q.1 q.2 k1 d1 (hall q (by simp [hq])) (hall (k1, d1) (by simp))
        (fun e => hco q (by simp [hq]) (k1, d1) (by simp) e)
    · intro a ha b hb; exact hco a (by simp [ha]) b (by simp [hb])
    · intro q hq; exact hk q (by simp [hq])

theorem writeBlobs_stays (crc : Bool) (kvs : List (Bytes × Bytes)) :
    ∀ (s : Store) (k d : Bytes), s.get k = some d → (∀ p ∈ kvs, k = p.1 → d = p.2) →
      (writeBlobs crc s kvs).get k = some d := by
  induction kvs with
  | nil => intro s k d h _; exact h
  | cons p r ih =>
    intro s k d h hk
    obtain ⟨k1, d1⟩ := p
    simp only [writeBlobs]
    apply ih
    · by_cases e : k = k1
      · subst e
        have := hk (k, d1) (by simp) rfl
        subst this
        exact writeBlob_get_self crc s k d (Or.inr (Or.inl h))
      · rw [writeBlob_frame crc s k1 d1 k e]; exact h
    · intro q hq; exact hk q (by simp [hq])

/-- after writing coherent, compatible bindings every one of them is served -/
theorem writeBlobs_all (crc : Bool) (kvs : List (Bytes × Bytes)) :
    ∀ (s : Store), (∀ p ∈ kvs, Compat crc s p.1 p.2) → Coherent kvs →
      ∀ p ∈ kvs, (writeBlobs crc s kvs).get p.1 = some p.2 := by
  induction kvs with
  | nil => intro s _ _ p hp; simp at hp
  | cons q r ih =>
    intro s hall hco p hp
    obtain ⟨k1, d1⟩ := q
    simp only [writeBlobs]
    rcases List.mem_cons.mp hp with rfl | hp
    · apply writeBlobs_stays
      · exact writeBlob_get_self crc s k1 d1 (hall (k1, d1) (by simp))
      · intro x hx e; exact hco (k1, d1) (by simp) x (by simp [hx]) e
    · apply ih
      · intro x hx
        exact writeBlob_compat crc s x.1 x.2 k1 d1 (hall x (by simp [hx])) (hall (k1, d1) (by simp))
          (fun e => hco x (by simp [hx]) (k1, d1) (by simp) e)
      · intro a ha b hb; exact hco a (by simp [ha]) b (by simp [hb])
      · exact hp

theorem splitKeys_flatten (ks : List Bytes) (hk : ∀ k ∈ ks, k.length = keySize) :
    ∀ fuel, ks.length < fuel → splitKeys fuel ks.flatten = some ks := by
  induction ks with
  | nil => intro fuel h; cases fuel with
    | zero => omega
    | succ f => simp [splitKeys]
  | cons k r ih =>
    intro fuel h
    cases fuel with
    | zero => omega
    | succ f =>
      have hk1 := hk k (by simp)
      simp only [List.flatten_cons, splitKeys]
      have hne : k ++ r.flatten ≠ [] := by
        intro e
        have := congrArg List.length e
        simp [hk1, keySize] at this
      have hlen : ¬ (k ++ r.flatten).length < keySize := by simp [hk1]
      simp only [hne, if_false, hlen]
      rw [List.take_left' hk1, List.drop_left' hk1, ih (fun x hx => hk x (by simp [hx])) f (by simpa using h)]
      rfl

theorem length_le_flatten (ks : List Bytes) (h : ∀ k ∈ ks, k.length = keySize) : ks.length ≤ ks.flatten.length := by
  induction ks with
  | nil => simp
  | cons k r ih =>
    have h1 := h k (by simp)
    have := ih (fun x hx => h x (by simp [hx]))
    simp only [List.flatten_cons, List.length_append, List.length_cons, h1, keySize]; omega

theorem leafKeysFrom_getElem (H : Hash) (L n : Nat) (cs : List Bytes) :
    ∀ (i0 j : Nat) (h : j < cs.length), (leafKeysFrom H L n i0 cs)[j]? = some (H (leafParams L n (i0 + j) cs[j]) cs[j]) := by
  induction cs with
  | nil => intro i0 j h; simp at h
  | cons c r ih =>
    intro i0 j h
    cases j with
    | zero => simp [leafKeysFrom]
    | succ k =>
      simp only [leafKeysFrom, List.getElem?_cons_succ, List.getElem_cons_succ]
      rw [ih (i0 + 1) k (by simpa using h)]
      have e : i0 + 1 + k = i0 + (k + 1) := by omega
      rw [e]

theorem leafKeysFrom_length (H : Hash) (L n : Nat) (cs : List Bytes) : ∀ i, (leafKeysFrom H L n i cs).length = cs.length := by
  induction cs with
  | nil => intro i; rfl
  | cons c r ih => intro i; simp [leafKeysFrom, ih]

/-- the blobs of an object: its leaves under their keys, and the root blob under the root key -/
def objectBlobs (H : Hash) (L : Nat) (c : Bytes) : List (Bytes × Bytes) :=
  (leafKeysOf H L (chunks L c)).zip (chunks L c) ++
    [(specKey H L c, (leafKeysOf H L (chunks L c)).flatten ++ specKey H L c)]

/-- after `put`, the object's keys are read back from its root blob and every leaf is served
    (and verifies) from the resulting store -/
theorem put_serves (H : Hash) (crc : Bool) (L : Nat) (hL : 0 < L) (s : Store) (writes : List Bytes)
    (hlen : ∀ p b, (H p b).length = keySize)
    (hco : Coherent (objectBlobs H L writes.flatten))
    (hs : ∀ p ∈ objectBlobs H L writes.flatten, Compat crc s p.1 p.2) :
    ∃ keys, objectKeys H L (put H crc L s writes).1 (put H crc L s writes).2.key = .ok keys ∧
      keys.length = (chunks L writes.flatten).length ∧
      Serves (fetchLeaf H true L (put H crc L s writes).1 keys) (chunks L writes.flatten) := by
  -- unfold `put` to the chunk level
  have i1 := writes_inv L hL writes W.init [] (init_inv L hL)
  have l1 : (writes.foldl (W.write L) W.init).leaves = chunks L writes.flatten := leaves_eq_chunks L hL _ _ i1
  have k1 : (writes.foldl (W.write L) W.init).keys H L = leafKeysOf H L (chunks L writes.flatten) := by
    rw [keys_eq_leafKeysOf H L _ _ i1, l1]
  have eput : put H crc L s writes = putCore H crc L s (leafKeysOf H L (chunks L writes.flatten)) (chunks L writes.flatten)
      (writes.map List.length).sum := by
    show putCore H crc L s _ _ _ = _
    rw [k1, l1]
  rw [eput]
  generalize hc : writes.flatten = c at *
  let ks := leafKeysOf H L (chunks L c)
  let cs := chunks L c
  let root := rootKey H L ks
  let s1 := writeBlobs crc s (ks.zip cs)
  let s2 := writeBlob crc s1 root (ks.flatten ++ root)
  have hroot : root = specKey H L c := rfl
  have hleafmem : ∀ p ∈ ks.zip cs, p ∈ objectBlobs H L c := fun p hp => List.mem_append_left _ hp
  have hrootmem : (root, ks.flatten ++ root) ∈ objectBlobs H L c := by
    apply List.mem_append_right; simp [hroot, ks]
  have hcoL : Coherent (ks.zip cs) := fun a ha b hb e => hco a (hleafmem a ha) b (hleafmem b hb) e
  -- the leaves are served by s1, and still by s2
  have hserve1 : ∀ p ∈ ks.zip cs, s1.get p.1 = some p.2 :=
    writeBlobs_all crc (ks.zip cs) s (fun p hp => hs p (hleafmem p hp)) hcoL
  have hrootc : Compat crc s1 root (ks.flatten ++ root) :=
    writeBlobs_compat crc (ks.zip cs) s root _ (hs _ hrootmem) (fun p hp => hs p (hleafmem p hp)) hcoL
      (fun p hp e => hco _ hrootmem p (hleafmem p hp) e)
  have hgetroot : s2.get root = some (ks.flatten ++ root) := writeBlob_get_self crc s1 root _ hrootc
  have hserve2 : ∀ p ∈ ks.zip cs, s2.get p.1 = some p.2 := by
    intro p hp
    by_cases e : p.1 = root
    · have := hco p (hleafmem p hp) _ hrootmem e
      rw [e, this]; exact hgetroot
    · show (writeBlob crc s1 root _).get p.1 = some p.2
      rw [writeBlob_frame crc s1 root _ p.1 e]; exact hserve1 p hp
  -- the object's keys are read back from the root blob
  have klen : ∀ (n i : Nat) (xs : List Bytes), ∀ x ∈ leafKeysFrom H L n i xs, x.length = keySize := by
    intro n i xs
    induction xs generalizing i with
    | nil => intro x hx; simp [leafKeysFrom] at hx
    | cons y r ih =>
      intro x hx
      simp only [leafKeysFrom, List.mem_cons] at hx
      rcases hx with rfl | hx
      · exact hlen _ _
      · exact ih (i + 1) x hx
  have hklen : ∀ k ∈ ks, k.length = keySize := klen _ 0 cs
  have hkeys : objectKeys H L s2 root = .ok ks := by
    unfold objectKeys
    rw [hgetroot]
    unfold verifiedKeys
    have hrl : root.length = keySize := hlen _ _
    have hl : ¬ (ks.flatten ++ root).length < keySize := by simp [hrl]
    have e1 : (ks.flatten ++ root).length - keySize = ks.flatten.length := by simp [hrl]
    simp only [hl, if_false, e1, List.take_left', List.drop_left']
    rw [splitKeys_flatten ks hklen _ (by have := length_le_flatten ks hklen; omega)]
    simp [root]
  -- every leaf verifies
  have hlenks : ks.length = cs.length := leafKeysFrom_length H L cs.length cs 0
  have hfetch : Serves (fetchLeaf H true L s2 ks) cs := by
    intro i hi
    have hki := leafKeysFrom_getElem H L cs.length cs 0 i hi
    have hki' : ks[i]? = some (H (leafParams L cs.length i cs[i]) cs[i]) := by simpa [ks, leafKeysOf] using hki
    have hmem : (H (leafParams L cs.length i cs[i]) cs[i], cs[i]) ∈ ks.zip cs := by
      rw [List.mem_iff_getElem]
      refine ⟨i, by simp [hlenks, hi], ?_⟩
      simp only [List.getElem_zip]
      have : ks[i]'(by omega) = H (leafParams L cs.length i cs[i]) cs[i] := by
        have := List.getElem?_eq_getElem (l := ks) (i := i) (by omega)
        rw [this] at hki'; exact Option.some.inj hki'
      rw [this]
    have hg := hserve2 _ hmem
    unfold fetchLeaf
    rw [hki']
    simp only [hg, hlenks]
    simp
  exact ⟨ks, hkeys, hlenks, hfetch⟩

/-- **Put then read (sequential to completion, and random access)** -/
theorem C01_put_then_readAll (H : Hash) (crc : Bool) (L : Nat) (hL : 0 < L) (s : Store) (writes : List Bytes)
    (hlen : ∀ p b, (H p b).length = keySize)
    (hco : Coherent (objectBlobs H L writes.flatten))
    (hs : ∀ p ∈ objectBlobs H L writes.flatten, Compat crc s p.1 p.2) :
    ∃ keys, objectKeys H L (put H crc L s writes).1 (put H crc L s writes).2.key = .ok keys ∧
      readAll H true L (put H crc L s writes).1 keys = .ok writes.flatten ∧
      ∀ off n, readAt H true L (put H crc L s writes).1 keys off n = .ok ((writes.flatten.drop off).take n) := by
  obtain ⟨ks, hkeys, hlenks, hfetch⟩ := put_serves H crc L hL s writes hlen hco hs
  refine ⟨ks, hkeys, ?_, ?_⟩
  · exact C01_readAll_roundtrip H true L hL _ ks _ hlenks hfetch
  · intro off n
    exact C01_readAt_roundtrip H true L hL _ ks _ hlenks hfetch off n

/-- **Put then a read loop with any buffer sizes** (the `Read` state machine of
    `Model/CafsSeq.lean`, any blob-reader behaviour `m`): whatever the source's chunking and the
    caller's buffers, the loop delivers `content.take (sum bufs)` without error, the whole content
    once it reports `io.EOF`, and reports `io.EOF` as soon as the buffers exceed the content. -/
theorem C01_put_then_readSeq (m : RMode) (H : Hash) (crc : Bool) (L : Nat) (hL : 0 < L) (s : Store) (writes : List Bytes)
    (hlen : ∀ p b, (H p b).length = keySize)
    (hco : Coherent (objectBlobs H L writes.flatten))
    (hs : ∀ p ∈ objectBlobs H L writes.flatten, Compat crc s p.1 p.2) (bufs : List Nat) :
    ∃ keys, objectKeys H L (put H crc L s writes).1 (put H crc L s writes).2.key = .ok keys ∧
      (readSeq m H true L (put H crc L s writes).1 keys bufs SR.init).1 = writes.flatten.take bufs.sum ∧
      ((readSeq m H true L (put H crc L s writes).1 keys bufs SR.init).2 = .ok ∨
        (readSeq m H true L (put H crc L s writes).1 keys bufs SR.init).2 = .eof) ∧
      ((readSeq m H true L (put H crc L s writes).1 keys bufs SR.init).2 = .eof →
        (readSeq m H true L (put H crc L s writes).1 keys bufs SR.init).1 = writes.flatten) ∧
      (writes.flatten.length < bufs.sum →
        (readSeq m H true L (put H crc L s writes).1 keys bufs SR.init).2 = .eof) := by
  obtain ⟨ks, hkeys, hlenks, hfetch⟩ := put_serves H crc L hL s writes hlen hco hs
  exact ⟨ks, hkeys, C01_readSeq_roundtrip m H true L hL _ ks _ hlenks hfetch bufs⟩

end Cafs

namespace Cafs

/-- a toy hash with 64-byte digests: node depth and input length in the last two bytes -/
def toy64 : Hash := fun p b => List.replicate 62 0 ++ [UInt8.ofNat p.depth, UInt8.ofNat b.length]

/-- non-vacuity of `C01_put_then_readAll`: the hypotheses hold for a three-byte content with leaf
    size 2 on the empty store (digest length, coherence, compatibility) -/
example : (∀ p b, (toy64 p b).length = keySize) ∧ Coherent (objectBlobs toy64 2 [1, 2, 3]) ∧
    ∀ p ∈ objectBlobs toy64 2 [1, 2, 3], Compat false ([] : Store) p.1 p.2 := by
  refine ⟨fun p b => by simp [toy64, keySize], ?_, fun p _ => Or.inl rfl⟩
  have e : objectBlobs toy64 2 [1, 2, 3] =
      [(toy64 ⟨2, 1, 0, false⟩ [1, 2], [1, 2]), (toy64 ⟨2, 1, 0, true⟩ [3], [3]),
       (toy64 ⟨2, 0, 1, true⟩ (toy64 ⟨2, 1, 0, false⟩ [1, 2] ++ toy64 ⟨2, 1, 0, true⟩ [3]),
        toy64 ⟨2, 1, 0, false⟩ [1, 2] ++ toy64 ⟨2, 1, 0, true⟩ [3] ++
          toy64 ⟨2, 0, 1, true⟩ (toy64 ⟨2, 1, 0, false⟩ [1, 2] ++ toy64 ⟨2, 1, 0, true⟩ [3]))] := by
    simp [objectBlobs, specKey, rootKey, rootParams, leafKeysOf, leafKeysFrom, leafParams, chunks]
  rw [e]
  intro a ha b hb hk
  simp only [List.mem_cons, List.mem_nil_iff, or_false] at ha hb
  rcases ha with rfl | rfl | rfl <;> rcases hb with rfl | rfl | rfl <;>
    first | rfl | (exfalso; revert hk; simp [toy64])

/-- the crash-remnant case is covered (and is not vacuous): a store that holds an EMPTY blob under
    a leaf key of the object satisfies the hypothesis, on stores without CRC as well -/
example : Compat false ([(toy64 ⟨2, 1, 0, true⟩ [3], [])] : Store) (toy64 ⟨2, 1, 0, true⟩ [3]) [3] :=
  Or.inr (Or.inr (Or.inl (by simp [Store.get, List.lookup])))

end Cafs
