import DatamonVerif.Model.Purge
/-! C14 — purging removes exactly the unreferenced old blobs, one job at a time.

Theorems about `Model/Purge.lean` (the model of `pkg/core/purge.go`), for the configuration
`Cfg.code` read from the source on every run:

* `C14_index_exact`        : for every chunk size `n ≥ 1`, every interleaving of entry scans and
  ticker driven chunk uploads and every sequence of transient chunk `Put` failures, the union of the
  uploaded chunks is exactly the roots ∪ leaves of the scanned entries; every chunk has `≤ n` keys;
  the "until a chunk adds nothing" loop ends with the whole KV uploaded.
  (`C14_index_exact_bundles`: the same stated on bundles; `C14_index_schedule_independent`.)
* `C14_deleteUnused_exact` : a blob survives delete-unused iff it is indexed or newer than the index
  (`C14_deleted_iff`: deleted ⇔ not indexed ∧ not newer than the index time).
* `C14_lock_exclusive`     : in every interleaving of non-forced lock attempts exactly one — the
  first — succeeds; none while the lock is held (`C14_lock_one_winner`, `C14_lock_forced`,
  `C14_lock_after_unlock`).
* negation witnesses (`decide`): `C14_neg_stale_chunks` (defect (5), repaired), `C14_neg_chunk_size_zero`.
-/
namespace Purge


theorem kvHas_iff (kv : KV) (x : Key) : kvHas kv x = true ↔ ∃ m, (x, m) ∈ kv := by
  simp only [kvHas, List.any_eq_true, beq_iff_eq]
  constructor
  · rintro ⟨⟨a, m⟩, h, rfl⟩; exact ⟨m, h⟩
  · rintro ⟨m, h⟩; exact ⟨(x, m), h, rfl⟩

theorem mem_insSorted (kv : KV) (p y : Key × Bool) : y ∈ insSorted kv p ↔ y = p ∨ y ∈ kv := by
  induction kv with
  | nil => simp [insSorted]
  | cons q r ih =>
    simp only [insSorted]
    split
    · simp
    · simp only [List.mem_cons, ih]; grind

theorem mem_kvIns (kv : KV) (k x : Key) (m : Bool) :
    (x, m) ∈ kvIns kv k ↔ (x, m) ∈ kv ∨ (x = k ∧ m = false ∧ kvHas kv k = false) := by
  unfold kvIns
  split
  · simp_all
  · simp only [mem_insSorted]; simp_all; grind

theorem kvHas_kvIns (kv : KV) (k x : Key) : kvHas (kvIns kv k) x = true ↔ kvHas kv x = true ∨ x = k := by
  simp only [kvHas_iff, mem_kvIns]
  constructor
  · rintro ⟨m, h | h⟩
    · exact Or.inl ⟨m, h⟩
    · exact Or.inr h.1
  · rintro (⟨m, h⟩ | rfl)
    · exact ⟨m, Or.inl h⟩
    · by_cases hk : kvHas kv x = true
      · obtain ⟨m, h⟩ := (kvHas_iff kv x).1 hk; exact ⟨m, Or.inl h⟩
      · exact ⟨false, Or.inr ⟨rfl, rfl, by simpa using hk⟩⟩

theorem mem_true_kvIns (kv : KV) (k x : Key) : (x, true) ∈ kvIns kv k ↔ (x, true) ∈ kv := by
  rw [mem_kvIns]; simp

theorem kvHas_foldl_kvIns (ks : List Key) (kv : KV) (x : Key) :
    kvHas (ks.foldl kvIns kv) x = true ↔ kvHas kv x = true ∨ x ∈ ks := by
  induction ks generalizing kv with
  | nil => simp
  | cons k r ih => simp only [List.foldl_cons, ih, kvHas_kvIns, List.mem_cons]; grind

theorem mem_true_foldl_kvIns (ks : List Key) (kv : KV) (x : Key) :
    (x, true) ∈ ks.foldl kvIns kv ↔ (x, true) ∈ kv := by
  induction ks generalizing kv with
  | nil => simp
  | cons k r ih => simp only [List.foldl_cons, ih, mem_true_kvIns]

theorem mem_kvSetX (kv : KV) (k x : Key) (m : Bool) :
    (x, m) ∈ kvSetX kv k → (∃ m0, (x, m0) ∈ kv) ∨ x = k := by
  unfold kvSetX
  split
  · simp only [List.mem_map]
    rintro ⟨⟨a, b⟩, h, h2⟩
    split at h2
    · simp at h2; obtain ⟨rfl, _⟩ := h2; exact Or.inl ⟨b, h⟩
    · simp at h2; obtain ⟨rfl, rfl⟩ := h2; exact Or.inl ⟨b, h⟩
  · simp only [mem_insSorted]
    rintro (h | h)
    · simp at h; exact Or.inr h.1
    · exact Or.inl ⟨m, h⟩

theorem kvHas_kvSetX (kv : KV) (k x : Key) : kvHas (kvSetX kv k) x = true → kvHas kv x = true ∨ x = k := by
  rw [kvHas_iff, kvHas_iff]
  rintro ⟨m, h⟩
  exact mem_kvSetX kv k x m h

theorem kvHas_foldl_kvSetX (ks : List Key) (kv : KV) (x : Key) :
    kvHas (ks.foldl kvSetX kv) x = true → kvHas kv x = true ∨ x ∈ ks := by
  induction ks generalizing kv with
  | nil => simp
  | cons k r ih =>
    intro h
    rcases ih _ h with h | h
    · rcases kvHas_kvSetX _ _ _ h with h | h
      · exact Or.inl h
      · exact Or.inr (by simp [h])
    · exact Or.inr (by simp [h])

theorem kvHas_preload (chunks : List (List Key)) (x : Key) :
    kvHas (preload chunks) x = true → x ∈ chunks.flatten := by
  intro h
  rcases kvHas_foldl_kvSetX _ _ _ h with h | h
  · simp [kvHas] at h
  · exact h

theorem mem_markAll (ks : List Key) (kv : KV) (x : Key) (m : Bool) :
    (x, m) ∈ markAll ks kv ↔ ∃ m0, (x, m0) ∈ kv ∧ m = (m0 || ks.contains x) := by
  simp only [markAll, List.mem_map, Prod.mk.injEq]
  constructor
  · rintro ⟨⟨a, b⟩, h, rfl, rfl⟩; exact ⟨b, h, rfl⟩
  · rintro ⟨m0, h, rfl⟩; exact ⟨(x, m0), h, rfl, rfl⟩

theorem kvHas_markAll (ks : List Key) (kv : KV) (x : Key) : kvHas (markAll ks kv) x = kvHas kv x := by
  simp [kvHas, markAll, List.any_map, Function.comp_def]

theorem mem_unmarked (kv : KV) (x : Key) : x ∈ unmarked kv ↔ (x, false) ∈ kv := by
  simp only [unmarked, List.mem_map, List.mem_filter]
  constructor
  · rintro ⟨⟨a, b⟩, ⟨h, hb⟩, rfl⟩; simp at hb; subst hb; exact h
  · intro h; exact ⟨(x, false), ⟨h, rfl⟩, rfl⟩

theorem unmarked_markAll (ks : List Key) (kv : KV) :
    unmarked (markAll ks kv) = (unmarked kv).filter (fun x => !ks.contains x) := by
  induction kv with
  | nil => rfl
  | cons p r ih =>
    obtain ⟨a, m⟩ := p
    simp only [unmarked, markAll] at ih ⊢
    cases m <;> cases h : ks.contains a <;> simp_all

theorem length_filter_lt {α} (p : α → Bool) (l : List α) (x : α) (hx : x ∈ l) (hp : p x = false) :
    (l.filter p).length < l.length := by
  induction l with
  | nil => cases hx
  | cons a r ih =>
    simp only [List.filter_cons]
    rcases List.mem_cons.1 hx with rfl | h
    · simp [hp]; exact Nat.lt_succ_of_le (List.length_filter_le _ _)
    · have := ih h
      split
      · simp only [List.length_cons]; omega
      · have := List.length_filter_le p r; simp only [List.length_cons]; omega


/-! ### chunk upload, scan and the build invariant -/

theorem chunkCall_fixed (cfg : Cfg) (hm : cfg.markEarly = false) (n f : Nat) (kv : KV) :
    chunkCall cfg n f kv = ((unmarked kv).take n, markAll ((unmarked kv).take n) kv) := by
  simp [chunkCall, hm]

def Closed (E : List Entry) (kv : KV) : Prop :=
  ∀ e ∈ E, kvHas kv e.root = true → ∀ l ∈ e.leaves, kvHas kv l = true

theorem wf_leaves {E : List Entry} (h : wfEntries E = true) {e e' : Entry} (he : e ∈ E) (he' : e' ∈ E)
    (hr : e.root = e'.root) : e.leaves = e'.leaves := by
  simp only [wfEntries, List.all_eq_true, Bool.and_eq_true, Bool.or_eq_true] at h
  have := (h e he e' he').1
  rcases this with h1 | h1
  · simp [hr] at h1
  · simpa using h1

theorem wf_disjoint {E : List Entry} (h : wfEntries E = true) {e e' : Entry} (he : e ∈ E) (he' : e' ∈ E) :
    e'.root ∉ e.leaves := by
  simp only [wfEntries, List.all_eq_true, Bool.and_eq_true, Bool.or_eq_true] at h
  have := (h e he e' he').2
  simpa using this

structure RunInv (n : Nat) (skip : Bool) (E : List Entry) (kv0 : KV) (done : List Entry)
    (s : KV × List (List Key)) : Prop where
  marked : ∀ x, (x, true) ∈ s.1 → (x, true) ∈ kv0 ∨ x ∈ s.2.flatten
  sound : ∀ x ∈ s.2.flatten, kvHas s.1 x = true
  fit : ∀ c ∈ s.2, c.length ≤ n
  closed : skip = true → Closed E s.1
  keys : ∀ x, kvHas s.1 x = true → kvHas kv0 x = true ∨ ∃ e ∈ E, x ∈ e.keys
  done : ∀ e ∈ done, ∀ x ∈ e.keys, kvHas s.1 x = true

theorem RunInv.tick {n skip E kv0 done s} (cfg : Cfg) (hm : cfg.markEarly = false) (f : Nat)
    (h : RunInv n skip E kv0 done s) :
    RunInv n skip E kv0 done ((chunkCall cfg n f s.1).2, s.2 ++ [(chunkCall cfg n f s.1).1]) := by
  rw [chunkCall_fixed cfg hm]
  obtain ⟨kv, cs⟩ := s
  refine ⟨?_, ?_, ?_, ?_, ?_, ?_⟩
  · intro x hx
    obtain ⟨m0, h1, h2⟩ := (mem_markAll _ _ _ _).1 hx
    cases m0 with
    | true =>
      rcases h.marked x h1 with h3 | h3
      · exact Or.inl h3
      · exact Or.inr (by simp only [List.flatten_append, List.mem_append]; exact Or.inl h3)
    | false =>
      simp at h2
      exact Or.inr (by simp only [List.flatten_append, List.mem_append]; exact Or.inr (by simpa using h2))
  · intro x hx
    simp only [List.flatten_append, List.mem_append] at hx
    rw [kvHas_markAll]
    rcases hx with hx | hx
    · exact h.sound x hx
    · simp at hx
      have := List.mem_of_mem_take hx
      exact (kvHas_iff _ _).2 ⟨false, (mem_unmarked _ _).1 this⟩
  · intro c hc
    rcases List.mem_append.1 hc with hc | hc
    · exact h.fit c hc
    · simp at hc; subst hc; exact List.length_take_le _ _
  · intro hs e he hr l hl
    rw [kvHas_markAll] at hr ⊢
    exact h.closed hs e he hr l hl
  · intro x hx
    rw [kvHas_markAll] at hx
    exact h.keys x hx
  · intro e he x hx
    rw [kvHas_markAll]
    exact h.done e he x hx

theorem RunInv.scan {n skip E kv0 done s} (hwf : skip = true → wfEntries E = true) (e : Entry) (he : e ∈ E)
    (h : RunInv n skip E kv0 done s) :
    RunInv n skip E kv0 (done ++ [e]) (scanEntry skip s.1 e, s.2) := by
  obtain ⟨kv, cs⟩ := s
  unfold scanEntry
  split
  · -- the root is known: nothing is added
    rename_i hsk
    simp only [Bool.and_eq_true] at hsk
    refine ⟨h.marked, h.sound, h.fit, h.closed, h.keys, ?_⟩
    intro e' he' x hx
    rcases List.mem_append.1 he' with he' | he'
    · exact h.done e' he' x hx
    · simp at he'; subst he'
      rcases List.mem_cons.1 hx with rfl | hx
      · exact hsk.2
      · exact h.closed hsk.1 e' he hsk.2 x hx
  · rename_i hsk
    refine ⟨?_, ?_, h.fit, ?_, ?_, ?_⟩
    · intro x hx
      exact h.marked x ((mem_true_foldl_kvIns _ _ _).1 hx)
    · intro x hx
      exact (kvHas_foldl_kvIns _ _ _).2 (Or.inl (h.sound x hx))
    · intro hs e' he' hr l hl
      rw [kvHas_foldl_kvIns] at hr ⊢
      rcases hr with hr | hr
      · exact Or.inl (h.closed hs e' he' hr l hl)
      · rcases List.mem_cons.1 hr with hr | hr
        · have := wf_leaves (hwf hs) he' he hr
          exact Or.inr (List.mem_cons_of_mem _ (this ▸ hl))
        · exact absurd hr (wf_disjoint (hwf hs) he he')
    · intro x hx
      rcases (kvHas_foldl_kvIns _ _ _).1 hx with hx | hx
      · exact h.keys x hx
      · exact Or.inr ⟨e, he, hx⟩
    · intro e' he' x hx
      rw [kvHas_foldl_kvIns]
      rcases List.mem_append.1 he' with he' | he'
      · exact Or.inl (h.done e' he' x hx)
      · simp at he'; subst he'; exact Or.inr hx

theorem scanEntriesOf_mem {evs : List Ev} {e : Entry} : e ∈ scanEntriesOf evs ↔ Ev.scan e ∈ evs := by
  induction evs with
  | nil => simp [scanEntriesOf]
  | cons a r ih =>
    cases a with
    | scan e' => simp [scanEntriesOf, ih]
    | tick f => simp [scanEntriesOf, ih]

theorem RunInv.run {n skip E kv0} (cfg : Cfg) (hm : cfg.markEarly = false)
    (hwf : skip = true → wfEntries E = true) (evs : List Ev) :
    ∀ done s, (∀ e, Ev.scan e ∈ evs → e ∈ E) → RunInv n skip E kv0 done s →
      RunInv n skip E kv0 (done ++ scanEntriesOf evs) (evs.foldl (runEv cfg n skip) s) := by
  induction evs with
  | nil => intro done s _ h; simpa [scanEntriesOf] using h
  | cons a r ih =>
    intro done s hE h
    simp only [List.foldl_cons]
    cases a with
    | scan e =>
      have := ih (done ++ [e]) _ (fun e' he' => hE e' (List.mem_cons_of_mem _ he'))
        (RunInv.scan hwf e (hE e (List.mem_cons_self ..)) h)
      simpa [scanEntriesOf, runEv] using this
    | tick f =>
      have := ih done _ (fun e' he' => hE e' (List.mem_cons_of_mem _ he')) (RunInv.tick cfg hm f h)
      simpa [scanEntriesOf, runEv] using this

theorem flush_spec {n skip E kv0 done} (cfg : Cfg) (hm : cfg.markEarly = false) (hn : 1 ≤ n) :
    ∀ fuel fs kv cs, (unmarked kv).length < fuel → RunInv n skip E kv0 done (kv, cs) →
      RunInv n skip E kv0 done (flush cfg n fuel fs kv cs) ∧ unmarked (flush cfg n fuel fs kv cs).1 = [] := by
  intro fuel
  induction fuel with
  | zero => intro fs kv cs h; omega
  | succ fuel ih =>
    intro fs kv cs hlt h
    simp only [flush]
    have ht := RunInv.tick cfg hm (fs.headD 0) h
    rw [chunkCall_fixed cfg hm] at ht ⊢
    simp only at ht ⊢
    split
    · rename_i hemp
      refine ⟨ht, ?_⟩
      have : unmarked kv = [] := by
        cases hu : unmarked kv with
        | nil => rfl
        | cons a r =>
          rw [hu] at hemp
          cases n with
          | zero => omega
          | succ n => simp at hemp
      rw [unmarked_markAll, this]; rfl
    · rename_i hne
      apply ih
      · rw [unmarked_markAll]
        cases hu : unmarked kv with
        | nil => rw [hu] at hne; simp at hne
        | cons a r =>
          have hlen : ((a :: r).filter (fun x => !(List.take n (a :: r)).contains x)).length < (a :: r).length := by
            apply length_filter_lt _ _ a (List.mem_cons_self ..)
            cases n with
            | zero => omega
            | succ n => simp
          rw [hu] at hlt
          omega
      · exact ht

theorem unmarked_length_le (kv : KV) : (unmarked kv).length ≤ kv.length := by
  simp only [unmarked, List.length_map]; exact List.length_filter_le _ _

theorem RunInv.init (n : Nat) (skip : Bool) (E : List Entry) (kv0 : KV) (hc : skip = true → Closed E kv0) :
    RunInv n skip E kv0 [] (kv0, []) :=
  ⟨fun _ h => Or.inl h, by simp, by simp, hc, fun _ h => Or.inl h, by simp⟩

/-- what a complete build guarantees, for every schedule of scans and ticker chunks, every
    sequence of transient `Put` failures and every chunk size `≥ 1` -/
theorem build_spec (cfg : Cfg) (hm : cfg.markEarly = false) {n : Nat} (hn : 1 ≤ n) (skip : Bool) (E : List Entry)
    (hwf : skip = true → wfEntries E = true) (evs : List Ev) (fs : List Nat) (kv0 : KV)
    (hc : skip = true → Closed E kv0) (hE : ∀ e, Ev.scan e ∈ evs → e ∈ E) :
    RunInv n skip E kv0 (scanEntriesOf evs) (build cfg n skip evs fs kv0) ∧
      unmarked (build cfg n skip evs fs kv0).1 = [] := by
  have h1 := RunInv.run (n := n) cfg hm hwf evs [] (kv0, []) hE (RunInv.init n skip E kv0 hc)
  simp only [List.nil_append] at h1
  unfold build
  exact flush_spec cfg hm hn _ fs _ _ (Nat.lt_succ_of_le (unmarked_length_le _)) h1

theorem all_marked_of_unmarked_nil {kv : KV} (h : unmarked kv = []) {x : Key} (hx : kvHas kv x = true) :
    (x, true) ∈ kv := by
  obtain ⟨m, hm⟩ := (kvHas_iff _ _).1 hx
  cases m with
  | true => exact hm
  | false => have := (mem_unmarked kv x).2 hm; rw [h] at this; cases this

theorem closed_nil (E : List Entry) : Closed E [] := by
  intro e _ h; simp [kvHas] at h

/-- **C14 (index).** Without faults or with any transient chunk `Put` failures `fs`, for every
    chunk size `n ≥ 1` and every interleaving `evs` of entry scans and ticker driven chunk uploads:
    the union of the uploaded chunks is exactly the set of root and leaf keys of the scanned
    entries, no chunk exceeds `n` keys, and the "until a chunk adds nothing" loop ends with every
    key of the local KV uploaded. -/
theorem index_exact_fixed {n : Nat} (hn : 1 ≤ n) (evs : List Ev) (fs : List Nat)
    (hwf : wfEntries (scanEntriesOf evs) = true) :
    (∀ x, x ∈ (build Cfg.fixed n true evs fs []).2.flatten ↔ ∃ e ∈ scanEntriesOf evs, x ∈ e.keys) ∧
    (∀ c ∈ (build Cfg.fixed n true evs fs []).2, c.length ≤ n) ∧
    unmarked (build Cfg.fixed n true evs fs []).1 = [] := by
  obtain ⟨hI, hU⟩ := build_spec Cfg.fixed rfl hn true (scanEntriesOf evs) (fun _ => hwf) evs fs []
    (fun _ => closed_nil _) (fun e he => scanEntriesOf_mem.2 he)
  refine ⟨?_, hI.fit, hU⟩
  intro x
  constructor
  · intro hx
    rcases hI.keys x (hI.sound x hx) with h | h
    · simp [kvHas] at h
    · exact h
  · rintro ⟨e, he, hx⟩
    have := all_marked_of_unmarked_nil hU (hI.done e he x hx)
    rcases hI.marked x this with h | h
    · cases h
    · exact h

theorem scanEntriesOf_map (l : List Entry) : scanEntriesOf (l.map Ev.scan) = l := by
  induction l with
  | nil => rfl
  | cons a r ih => simp [scanEntriesOf, ih]

/-- C14 (index), stated on bundles: the index built by a sequential scan of `bs` is exactly the
    set of keys (roots and leaves) referenced by the bundles of `bs`. -/
theorem index_exact_bundles_fixed {n : Nat} (hn : 1 ≤ n) (bs : List Bundle) (fs : List Nat)
    (hwf : wfEntries (bs.flatMap (·.entries)) = true) (x : Key) :
    x ∈ (build Cfg.fixed n true (seqEvs bs) fs []).2.flatten ↔ ∃ b ∈ bs, x ∈ b.keys := by
  have h := (index_exact_fixed hn (seqEvs bs) fs (by simpa [seqEvs, scanEntriesOf_map] using hwf)).1 x
  rw [h]
  simp only [seqEvs, scanEntriesOf_map, List.mem_flatMap, Bundle.keys]
  constructor
  · rintro ⟨e, ⟨b, hb, he⟩, hx⟩; exact ⟨b, hb, e, he, hx⟩
  · rintro ⟨b, hb, e, he, hx⟩; exact ⟨e, ⟨b, hb, he⟩, hx⟩

/-- the index does not depend on the schedule: any two interleavings scanning the same entries
    produce the same set of indexed keys -/
theorem index_schedule_independent_fixed {n m : Nat} (hn : 1 ≤ n) (hm : 1 ≤ m) (evs evs' : List Ev) (fs fs' : List Nat)
    (hwf : wfEntries (scanEntriesOf evs) = true) (hwf' : wfEntries (scanEntriesOf evs') = true)
    (hsame : ∀ e, e ∈ scanEntriesOf evs ↔ e ∈ scanEntriesOf evs') (x : Key) :
    x ∈ (build Cfg.fixed n true evs fs []).2.flatten ↔ x ∈ (build Cfg.fixed m true evs' fs' []).2.flatten := by
  rw [(index_exact_fixed hn evs fs hwf).1 x, (index_exact_fixed hm evs' fs' hwf').1 x]
  constructor <;> rintro ⟨e, he, hx⟩
  · exact ⟨e, (hsame e).1 he, hx⟩
  · exact ⟨e, (hsame e).2 he, hx⟩

/-! ### delete-unused -/

/-- **C14 (delete-unused).** A blob survives iff it is indexed or was updated after the index
    time; i.e. it is deleted iff it is neither indexed nor newer than the index. Update times of the
    survivors are unchanged. Transient `GetAttr` failures (`attrFail`) make no difference. -/
theorem deleteUnused_exact_fixed (idx : List Key) (t0 : Time) (attrFail : List Key) (bs : Blobs) (k : Key) :
    (bHas (deleteUnused Cfg.fixed idx t0 attrFail bs) k = true ↔ bHas bs k = true ∧ (k ∈ idx ∨ t0 < bs.time k)) ∧
    (deleteUnused Cfg.fixed idx t0 attrFail bs).time = bs.time := by
  simp [bHas, deleteUnused, keepBlob, Cfg.fixed]

theorem deleted_iff_fixed (idx : List Key) (t0 : Time) (attrFail : List Key) (bs : Blobs) (k : Key) :
    (bHas bs k = true ∧ bHas (deleteUnused Cfg.fixed idx t0 attrFail bs) k = false) ↔
      (bHas bs k = true ∧ k ∉ idx ∧ bs.time k ≤ t0) := by
  simp [bHas, deleteUnused, keepBlob, Cfg.fixed]
  grind

/-! ### purge lock -/

theorem lockRun_held (sched : List (Nat × Bool)) (hnf : ∀ a ∈ sched, a.2 = false) :
    (lockRun true sched).1 = true ∧ ∀ r ∈ (lockRun true sched).2, r.2 = false := by
  induction sched with
  | nil => simp [lockRun]
  | cons a r ih =>
    obtain ⟨j, f⟩ := a
    have hf : f = false := hnf (j, f) (List.mem_cons_self ..)
    subst hf
    have := ih (fun a ha => hnf a (List.mem_cons_of_mem _ ha))
    simp only [lockRun, lockAttempt]
    refine ⟨by simpa using this.1, ?_⟩
    intro r hr
    rcases List.mem_cons.1 hr with rfl | hr
    · rfl
    · exact this.2 r (by simpa using hr)

/-- **C14 (lock).** In every schedule (= interleaving of the atomic create-if-absent puts) of
    lock attempts none of which is forced, starting from a free lock: exactly one attempt succeeds —
    the first one of the schedule — and the lock is held afterwards; starting from a held lock none
    succeeds. -/
theorem C14_lock_exclusive (sched : List (Nat × Bool)) (hnf : ∀ a ∈ sched, a.2 = false) :
    (∀ j f rest, sched = (j, f) :: rest →
        (lockRun false sched).1 = true ∧
        ((lockRun false sched).2.filter (·.2)) = [(j, true)]) ∧
    ((lockRun true sched).2.filter (·.2)) = [] := by
  constructor
  · intro j f rest hs
    subst hs
    have hf : f = false := hnf (j, f) (List.mem_cons_self ..)
    subst hf
    obtain ⟨h1, h2⟩ := lockRun_held rest (fun a ha => hnf a (List.mem_cons_of_mem _ ha))
    simp only [lockRun, lockAttempt]
    refine ⟨by simpa using h1, ?_⟩
    have : List.filter (fun x => x.2) (lockRun true rest).2 = [] := by
      apply List.filter_eq_nil_iff.2
      intro a ha; simp [h2 a ha]
    simp [this]
  · obtain ⟨_, h2⟩ := lockRun_held sched hnf
    apply List.filter_eq_nil_iff.2
    intro a ha; simp [h2 a ha]

/-- the number of winners does not depend on the interleaving -/
theorem C14_lock_one_winner (sched : List (Nat × Bool)) (hnf : ∀ a ∈ sched, a.2 = false) (hne : sched ≠ []) :
    ((lockRun false sched).2.filter (·.2)).length = 1 := by
  cases sched with
  | nil => exact absurd rfl hne
  | cons a r =>
    obtain ⟨j, f⟩ := a
    rw [((C14_lock_exclusive _ hnf).1 j f r rfl).2]; rfl

/-- a forced attempt always succeeds (this is what `--force` is for): exclusion only holds "unless forced" -/
theorem C14_lock_forced (held : Bool) : lockAttempt held true = (true, true) := by
  simp [lockAttempt]

/-- after an unlock (lock free again) the next plain attempt succeeds -/
theorem C14_lock_after_unlock : lockAttempt false false = (true, true) := by
  simp [lockAttempt]

/-! ### the code is the repaired configuration (facts regenerated from purge.go on every run) -/

theorem C14_code_cfg : Cfg.code = Cfg.fixed := by decide

/-- `PurgeLock` without force is one create-if-absent put (`storage.NoOverWrite`) -/
theorem C14_lock_is_create_if_absent : Facts.purgeLockNoOverwrite = true := by decide

/-- **C14 (index).** For every chunk size `n ≥ 1`, every interleaving `evs` of entry scans and
    ticker driven chunk uploads and every sequence `fs` of transient chunk `Put` failures: the union
    of the uploaded chunks is exactly the set of root and leaf keys of the scanned entries, no chunk
    exceeds `n` keys, and the "until a chunk adds nothing" loop ends with every key uploaded. -/
theorem C14_index_exact {n : Nat} (hn : 1 ≤ n) (evs : List Ev) (fs : List Nat)
    (hwf : wfEntries (scanEntriesOf evs) = true) :
    (∀ x, x ∈ (build Cfg.code n true evs fs []).2.flatten ↔ ∃ e ∈ scanEntriesOf evs, x ∈ e.keys) ∧
    (∀ c ∈ (build Cfg.code n true evs fs []).2, c.length ≤ n) ∧
    unmarked (build Cfg.code n true evs fs []).1 = [] := by
  rw [C14_code_cfg]; exact index_exact_fixed hn evs fs hwf

/-- C14 (index) on bundles: the index built by scanning `bs` = the keys referenced by `bs`. -/
theorem C14_index_exact_bundles {n : Nat} (hn : 1 ≤ n) (bs : List Bundle) (fs : List Nat)
    (hwf : wfEntries (bs.flatMap (·.entries)) = true) (x : Key) :
    x ∈ (build Cfg.code n true (seqEvs bs) fs []).2.flatten ↔ ∃ b ∈ bs, x ∈ b.keys := by
  rw [C14_code_cfg]; exact index_exact_bundles_fixed hn bs fs hwf x

/-- the index does not depend on the chunk size, the schedule or the failures -/
theorem C14_index_schedule_independent {n m : Nat} (hn : 1 ≤ n) (hm : 1 ≤ m) (evs evs' : List Ev) (fs fs' : List Nat)
    (hwf : wfEntries (scanEntriesOf evs) = true) (hwf' : wfEntries (scanEntriesOf evs') = true)
    (hsame : ∀ e, e ∈ scanEntriesOf evs ↔ e ∈ scanEntriesOf evs') (x : Key) :
    x ∈ (build Cfg.code n true evs fs []).2.flatten ↔ x ∈ (build Cfg.code m true evs' fs' []).2.flatten := by
  rw [C14_code_cfg]; exact index_schedule_independent_fixed hn hm evs evs' fs fs' hwf hwf' hsame x

/-- **C14 (delete-unused).** A blob survives iff it is indexed or was updated after the index
    time; update times are unchanged; transient `GetAttr` failures make no difference. -/
theorem C14_deleteUnused_exact (idx : List Key) (t0 : Time) (attrFail : List Key) (bs : Blobs) (k : Key) :
    (bHas (deleteUnused Cfg.code idx t0 attrFail bs) k = true ↔ bHas bs k = true ∧ (k ∈ idx ∨ t0 < bs.time k)) ∧
    (deleteUnused Cfg.code idx t0 attrFail bs).time = bs.time := by
  rw [C14_code_cfg]; exact deleteUnused_exact_fixed idx t0 attrFail bs k

/-- deleted ⇔ present, not indexed, not newer than the index time -/
theorem C14_deleted_iff (idx : List Key) (t0 : Time) (attrFail : List Key) (bs : Blobs) (k : Key) :
    (bHas bs k = true ∧ bHas (deleteUnused Cfg.code idx t0 attrFail bs) k = false) ↔
      (bHas bs k = true ∧ k ∉ idx ∧ bs.time k ≤ t0) := by
  rw [C14_code_cfg]; exact deleted_iff_fixed idx t0 attrFail bs k

/-- the scan reads the leaf keys from the root blobs: when every scanned root blob is present (no
    corrupted root — the no-fault statement) the entries are scanned as they are; otherwise an entry
    whose root blob is missing is indexed as `root ↦ []` ("indexing the root, skipping unavailable
    leaves", by design) and `C14_index_exact` applies to these effective entries. -/
theorem C14_scan_reads_present_roots (bs : Blobs) (evs : List Ev)
    (h : ∀ e, Ev.scan e ∈ evs → bHas bs e.root = true) : effEvs bs evs = evs := by
  unfold effEvs
  conv => rhs; rw [← List.map_id evs]
  apply List.map_congr_left
  intro ev hev
  cases ev with
  | scan e => simp [effEntry, h e hev]
  | tick f => rfl

/-! ### non-vacuity and negation witnesses -/

def exB1 : Bundle := ⟨0, 0, 1, [⟨10, [11, 12]⟩, ⟨20, []⟩]⟩
def exB2 : Bundle := ⟨1, 0, 2, [⟨10, [11, 12]⟩, ⟨30, [11]⟩]⟩

example : wfEntries ((([exB1, exB2] : List Bundle)).flatMap (·.entries)) = true := by decide

/-- chunk size 2, a ticker chunk between the scans, one transient failure: the chunks -/
example : (build Cfg.fixed 2 true [.scan ⟨10, [11, 12]⟩, .tick 0, .scan ⟨20, []⟩, .scan ⟨30, [11]⟩] [1] []).2
    = [[10, 11], [12, 20], [30], []] := by decide

/-- a chunk size of `0` is outside the theorem: the first chunk is empty, the loop stops and
    nothing is indexed (`WithPurgeIndexChunkSize(0)` is accepted by the code; the CLI never passes it) -/
theorem C14_neg_chunk_size_zero :
    (build Cfg.fixed 0 true (seqEvs [exB1]) [] []).2.flatten = [] := by decide

/-- defect (5), repaired by "fix: purge index rebuild keeps the trailing chunks of the previous
    index": with the old behaviour a rebuild after deleting the only bundle leaves key `11` in the
    index although no scanned bundle references it. -/
theorem C14_neg_stale_chunks :
    let cfg : Cfg := { Cfg.fixed with keepStale := true }
    let st := run cfg {} [.up exB1, .index 1 [0] (seqEvs [exB1]) [], .keep 0 0 [], .index 1000 [0] [] []]
    st.live = [] ∧ 11 ∈ st.chunks.flatten := by decide

/-- … and the repaired code indexes nothing in that history -/
example :
    (run Cfg.fixed {} [.up exB1, .index 1 [0] (seqEvs [exB1]) [], .keep 0 0 [], .index 1000 [0] [] []]).chunks.flatten = [] := by
  decide

/-- two jobs, both orders: one winner each time -/
example : (lockRun false [(0, false), (1, false)]).2 = [(0, true), (1, false)] ∧
    (lockRun false [(1, false), (0, false)]).2 = [(1, true), (0, false)] := by decide

end Purge
