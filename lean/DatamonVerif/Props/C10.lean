import DatamonVerif.Model.Squash
import DatamonVerif.Generated.Facts

/-! C10 — squash keeps exactly the requested bundles, intact.

Theorems about `Squash.squash false …` (the code that exists: the first listing only returns ids
that have a descriptor), for ALL repositories (any number of bundles, leftovers, labels), every
`N ≥ 1` and every retain option. -/
namespace Squash

/-! ### sorted, duplicate-free listings -/

theorem mem_insertUniq {x y : Nat} {l : List Nat} : y ∈ insertUniq x l ↔ y = x ∨ y ∈ l := by
  induction l with
  | nil => simp [insertUniq]
  | cons a t ih =>
    simp only [insertUniq]
    split
    · simp
    · split
      · rename_i h; subst h; simp
      · simp only [List.mem_cons, ih]
        constructor
        · rintro (h | h | h)
          · right; left; exact h
          · left; exact h
          · right; right; exact h
        · rintro (h | h | h)
          · right; left; exact h
          · left; exact h
          · right; right; exact h

theorem mem_sortDedup {y : Nat} {l : List Nat} : y ∈ sortDedup l ↔ y ∈ l := by
  induction l with
  | nil => simp [sortDedup]
  | cons a t ih =>
    have : sortDedup (a :: t) = insertUniq a (sortDedup t) := rfl
    rw [this, mem_insertUniq, ih]; simp

theorem pairwise_insertUniq {x : Nat} {l : List Nat} (h : l.Pairwise (· < ·)) :
    (insertUniq x l).Pairwise (· < ·) := by
  induction l with
  | nil => simp [insertUniq]
  | cons a t ih =>
    simp only [insertUniq]
    rw [List.pairwise_cons] at h
    split
    · rename_i hxa
      rw [List.pairwise_cons]
      refine ⟨?_, List.pairwise_cons.mpr h⟩
      intro b hb
      rcases List.mem_cons.mp hb with rfl | hb
      · exact hxa
      · exact Nat.lt_trans hxa (h.1 b hb)
    · split
      · exact List.pairwise_cons.mpr h
      · rename_i h1 h2
        rw [List.pairwise_cons]
        refine ⟨?_, ih h.2⟩
        intro b hb
        rcases mem_insertUniq.mp hb with rfl | hb
        · omega
        · exact h.1 b hb

theorem pairwise_sortDedup (l : List Nat) : (sortDedup l).Pairwise (· < ·) := by
  induction l with
  | nil => simp [sortDedup]
  | cons a t ih => exact pairwise_insertUniq ih

/-- how many elements of `l` are greater than `x` -/
def newer (l : List Nat) (x : Nat) : Nat := (l.filter (fun y => decide (x < y))).length

theorem newer_lt_length_of_mem {l : List Nat} {x : Nat} (h : x ∈ l) : newer l x < l.length := by
  unfold newer
  apply List.length_filter_lt_length_iff_exists.mpr
  exact ⟨x, h, by simp⟩

/-- in an ascending list, the elements that survive `drop k` are those with fewer than
    `length - k` greater elements -/
theorem mem_drop_sorted {l : List Nat} (hs : l.Pairwise (· < ·)) :
    ∀ (k : Nat) (x : Nat), x ∈ l.drop k ↔ x ∈ l ∧ newer l x < l.length - k := by
  induction l with
  | nil => intro k x; simp
  | cons a t ih =>
    intro k x
    rw [List.pairwise_cons] at hs
    cases k with
    | zero =>
      simp only [List.drop_zero, Nat.sub_zero]
      constructor
      · intro h; exact ⟨h, newer_lt_length_of_mem h⟩
      · intro h; exact h.1
    | succ k =>
      simp only [List.drop_succ_cons, List.length_cons]
      rw [ih hs.2 k x]
      by_cases hxa : x = a
      · subst hxa
        have hnt : x ∉ t := fun hm => Nat.lt_irrefl _ (hs.1 x hm)
        have hall : newer (x :: t) x = t.length := by
          unfold newer
          rw [List.filter_cons]
          simp only [Nat.lt_irrefl, decide_false, Bool.false_eq_true, if_false]
          rw [List.filter_eq_self.mpr]
          intro b hb; simp [hs.1 b hb]
        constructor
        · intro h; exact absurd h.1 hnt
        · intro h; rw [hall] at h; omega
      · have hnew : newer (a :: t) x = newer t x ∨ (x < a) := by
          by_cases hlt : x < a
          · right; exact hlt
          · left; unfold newer; rw [List.filter_cons]; simp [hlt]
        constructor
        · intro h
          have hax : a < x := hs.1 x h.1
          have : newer (a :: t) x = newer t x := by
            unfold newer; rw [List.filter_cons]; simp [Nat.lt_asymm hax]
          refine ⟨List.mem_cons_of_mem _ h.1, ?_⟩
          rw [this]; omega
        · intro h
          have hxt : x ∈ t := by
            rcases List.mem_cons.mp h.1 with h1 | h1
            · exact absurd h1 hxa
            · exact h1
          have hax : a < x := hs.1 x hxt
          have : newer (a :: t) x = newer t x := by
            unfold newer; rw [List.filter_cons]; simp [Nat.lt_asymm hax]
          refine ⟨hxt, ?_⟩
          rw [this] at h; omega

theorem nodup_of_pairwise_lt {l : List Nat} (hs : l.Pairwise (· < ·)) : l.Nodup := by
  apply List.Pairwise.imp _ hs
  intro a b h; exact Nat.ne_of_lt h

/-- the elements of the prefix `take k` are exactly those that do not survive `drop k` -/
theorem mem_take_iff_not_mem_drop {l : List Nat} (hs : l.Pairwise (· < ·)) (k : Nat) (x : Nat) :
    x ∈ l.take k ↔ x ∈ l ∧ x ∉ l.drop k := by
  have hnd : (l.take k ++ l.drop k).Nodup := by
    rw [List.take_append_drop]; exact nodup_of_pairwise_lt hs
  have hdis := (List.nodup_append.mp hnd).2.2
  constructor
  · intro h
    refine ⟨List.mem_of_mem_take h, ?_⟩
    intro hd; exact hdis x h x hd rfl
  · intro h
    have : x ∈ l.take k ++ l.drop k := by rw [List.take_append_drop]; exact h.1
    rcases List.mem_append.mp this with h1 | h1
    · exact h1
    · exact absurd h1 h.2

/-! ### DeleteBundle -/

theorem mem_removeKey {k x : Key} {s : List Key} : x ∈ removeKey s k ↔ x ∈ s ∧ x ≠ k := by
  simp [removeKey]

theorem delLoop_subset (id : Id) (s : List Key) (i : Nat) : ∀ x, x ∈ delLoop id s i → x ∈ s := by
  fun_induction delLoop id s i with
  | case1 s i h ih => intro x hx; exact (mem_removeKey.mp (ih x hx)).1
  | case2 s i h => intro x hx; exact hx

theorem delLoop_other (id : Id) (s : List Key) (i : Nat) :
    ∀ x, x ∈ s → x.1 ≠ id → x ∈ delLoop id s i := by
  fun_induction delLoop id s i with
  | case1 s i h ih =>
    intro x hx hne
    apply ih x _ hne
    rw [mem_removeKey]
    refine ⟨hx, ?_⟩
    intro he; apply hne; rw [he]
  | case2 s i h => intro x hx _; exact hx

theorem countOf_some {r : Repo} {v : Id} {c : Nat} (h : countOf r v = some c) : (v, c) ∈ r.descs := by
  unfold countOf at h
  cases hf : r.descs.find? (fun d => d.1 == v) with
  | none => rw [hf] at h; simp at h
  | some d =>
    rw [hf] at h
    simp only [Option.map_some, Option.some.injEq] at h
    have hm := List.mem_of_find?_eq_some hf
    have hp := List.find?_some hf
    simp only [beq_iff_eq] at hp
    have : d = (v, c) := by
      cases d with
      | mk a b => simp only at hp h; subst hp; subst h; rfl
    rw [← this]; exact hm

theorem countOf_none {r : Repo} {v : Id} (h : countOf r v = none) : ∀ c, (v, c) ∉ r.descs := by
  unfold countOf at h
  simp only [Option.map_eq_none_iff, List.find?_eq_none] at h
  intro c hm
  have := h (v, c) hm
  simp at this

@[simp] theorem deleteBundle_descs (r : Repo) (v : Id) :
    (deleteBundle r v).descs = r.descs.filter (fun d => d.1 != v) := rfl

@[simp] theorem deleteBundle_labels (r : Repo) (v : Id) : (deleteBundle r v).labels = r.labels := rfl

theorem deleteBundle_idx_subset (r : Repo) (v : Id) : ∀ x, x ∈ (deleteBundle r v).idx → x ∈ r.idx := by
  intro x hx
  simp only [deleteBundle] at hx
  split at hx
  · exact delLoop_subset _ _ _ x hx
  · exact (List.mem_filter.mp hx).1

theorem deleteBundle_idx_other (r : Repo) (v : Id) :
    ∀ x, x ∈ r.idx → x.1 ≠ v → x ∈ (deleteBundle r v).idx := by
  intro x hx hne
  simp only [deleteBundle]
  split
  · exact delLoop_other _ _ _ x hx hne
  · rw [List.mem_filter]
    refine ⟨hx, ?_⟩
    simp [hne]

/-- every index file of a bundle has a number below the count its descriptor records -/
def IdxLt (r : Repo) : Prop := ∀ id c i, (id, c) ∈ r.descs → (id, i) ∈ r.idx → i < c

theorem IdxLt_deleteBundle {r : Repo} (h : IdxLt r) (v : Id) : IdxLt (deleteBundle r v) := by
  intro id c i hd hi
  rw [deleteBundle_descs] at hd
  exact h id c i (List.mem_filter.mp hd).1 (deleteBundle_idx_subset r v _ hi)

/-- with a descriptor whose count covers the index files (or no keys at all), `DeleteBundle` leaves
    no key of the bundle -/
theorem deleteBundle_idx_gone {r : Repo} (hlt : IdxLt r) {v : Id}
    (hv : (∃ c, (v, c) ∈ r.descs) ∨ ∀ k ∈ r.idx, k.1 ≠ v) :
    ∀ x ∈ (deleteBundle r v).idx, x.1 ≠ v := by
  intro x hx hxv
  have hsub := deleteBundle_idx_subset r v x hx
  rcases hv with ⟨c0, hc0⟩ | hno
  · cases hc : countOf r v with
    | none => exact countOf_none hc c0 hc0
    | some c =>
      have hdc := countOf_some hc
      have hxi : (v, x.2) ∈ r.idx := by rw [← hxv]; exact hsub
      have hlt' := hlt v c x.2 hdc hxi
      simp only [deleteBundle, hc, Option.getD_some] at hx
      split at hx
      · rename_i h0; omega
      · have := (List.mem_filter.mp hx).2
        simp [hxv, hlt'] at this
  · exact hno x hsub hxv

/-! ### the sequence of deletions -/

theorem foldl_descs (vs : List Id) : ∀ (r : Repo) (d : Id × Nat),
    d ∈ (vs.foldl deleteBundle r).descs ↔ d ∈ r.descs ∧ d.1 ∉ vs := by
  induction vs with
  | nil => intro r d; simp
  | cons v t ih =>
    intro r d
    rw [List.foldl_cons, ih, deleteBundle_descs, List.mem_filter]
    simp only [bne_iff_ne, ne_eq, List.mem_cons, not_or]
    constructor
    · rintro ⟨⟨h1, h2⟩, h3⟩; exact ⟨h1, h2, h3⟩
    · rintro ⟨h1, h2, h3⟩; exact ⟨⟨h1, h2⟩, h3⟩

theorem foldl_labels (vs : List Id) : ∀ (r : Repo), (vs.foldl deleteBundle r).labels = r.labels := by
  induction vs with
  | nil => intro r; rfl
  | cons v t ih => intro r; rw [List.foldl_cons, ih, deleteBundle_labels]

theorem foldl_idx_subset (vs : List Id) : ∀ (r : Repo) (x : Key),
    x ∈ (vs.foldl deleteBundle r).idx → x ∈ r.idx := by
  induction vs with
  | nil => intro r x h; exact h
  | cons v t ih =>
    intro r x h
    rw [List.foldl_cons] at h
    exact deleteBundle_idx_subset r v x (ih _ x h)

theorem foldl_idx_other (vs : List Id) : ∀ (r : Repo) (x : Key),
    x ∈ r.idx → x.1 ∉ vs → x ∈ (vs.foldl deleteBundle r).idx := by
  induction vs with
  | nil => intro r x h _; exact h
  | cons v t ih =>
    intro r x h hn
    rw [List.foldl_cons]
    simp only [List.mem_cons, not_or] at hn
    exact ih _ x (deleteBundle_idx_other r v x h hn.1) hn.2

theorem foldl_idx_gone (vs : List Id) : ∀ (r : Repo), IdxLt r →
    (∀ v ∈ vs, (∃ c, (v, c) ∈ r.descs) ∨ ∀ k ∈ r.idx, k.1 ≠ v) →
    ∀ x ∈ (vs.foldl deleteBundle r).idx, x.1 ∉ vs := by
  induction vs with
  | nil => intro r _ _ x _; simp
  | cons v t ih =>
    intro r hlt hv x hx
    rw [List.foldl_cons] at hx
    have hgone := deleteBundle_idx_gone hlt (hv v (List.mem_cons_self))
    have hv' : ∀ w ∈ t, (∃ c, (w, c) ∈ (deleteBundle r v).descs) ∨ ∀ k ∈ (deleteBundle r v).idx, k.1 ≠ w := by
      intro w hw
      by_cases hwv : w = v
      · right; rw [hwv]; exact hgone
      · rcases hv w (List.mem_cons_of_mem _ hw) with ⟨c, hc⟩ | hno
        · left; refine ⟨c, ?_⟩
          rw [deleteBundle_descs, List.mem_filter]
          exact ⟨hc, by simp [hwv]⟩
        · right; intro k hk; exact hno k (deleteBundle_idx_subset r v k hk)
    have h1 := ih (deleteBundle r v) (IdxLt_deleteBundle hlt v) hv' x hx
    have h2 := hgone x (foldl_idx_subset t _ x hx)
    simp only [List.mem_cons, not_or]
    exact ⟨h2, h1⟩

/-! ### listings -/

theorem mem_committedIds {r : Repo} {x : Id} : x ∈ committedIds r ↔ ∃ c, (x, c) ∈ r.descs := by
  unfold committedIds
  rw [mem_sortDedup, List.mem_map]
  constructor
  · rintro ⟨d, hd, rfl⟩; exact ⟨d.2, hd⟩
  · rintro ⟨c, hc⟩; exact ⟨(x, c), hc, rfl⟩

theorem mem_keyIds {r : Repo} {x : Id} :
    x ∈ keyIds r ↔ (∃ c, (x, c) ∈ r.descs) ∨ (∃ i, (x, i) ∈ r.idx) := by
  unfold keyIds
  rw [mem_sortDedup, List.mem_append, List.mem_map, List.mem_map]
  constructor
  · rintro (⟨d, hd, rfl⟩ | ⟨d, hd, rfl⟩)
    · left; exact ⟨d.2, hd⟩
    · right; exact ⟨d.2, hd⟩
  · rintro (⟨c, hc⟩ | ⟨c, hc⟩)
    · left; exact ⟨(x, c), hc, rfl⟩
    · right; exact ⟨(x, c), hc, rfl⟩

theorem committedIds_sorted (r : Repo) : (committedIds r).Pairwise (· < ·) := pairwise_sortDedup _

/-- the victims of a squash: listed, not among the `n` most recent, not retained by a label -/
theorem mem_victims {l : List Id} (hs : l.Pairwise (· < ·)) {n : Nat} (hn : n ≤ l.length)
    {keep : List Id} {x : Id} :
    x ∈ victims l n keep ↔ x ∈ l ∧ ¬ newer l x < n ∧ x ∉ keep := by
  unfold victims
  rw [List.mem_filter, mem_take_iff_not_mem_drop hs, mem_drop_sorted hs]
  have : l.length - (l.length - n) = n := by omega
  rw [this]
  simp only [decide_eq_true_eq]
  constructor
  · rintro ⟨⟨h1, h2⟩, h3⟩
    exact ⟨h1, fun h => h2 ⟨h1, h⟩, h3⟩
  · rintro ⟨h1, h2, h3⟩
    exact ⟨⟨h1, fun h => h2 h.2⟩, h3⟩

/-! ### the theorems -/

/-- the repository after `RepoSquash` (the code that exists: `byKey = false`) -/
abbrev squashed (isSemver : String → Bool) (n : Nat) (opt : Retain) (r : Repo) : Repo :=
  squash false isSemver n opt r

/-- `id` is one of the `n` most recent committed bundles: fewer than `n` committed bundles are newer -/
def mostRecent (n : Nat) (r : Repo) (id : Id) : Prop := newer (committedIds r) id < n

/-- what the squash does when it does not return early -/
theorem squash_unfold {isSemver : String → Bool} {n : Nat} {opt : Retain} {r : Repo}
    (h : ¬ (committedIds r).length < n + 1) :
    squashed isSemver n opt r =
      { (victims (committedIds r) n (retained isSemver opt r.labels)).foldl deleteBundle r with
        labels := ((victims (committedIds r) n (retained isSemver opt r.labels)).foldl deleteBundle r).labels.filter
          (fun l => decide (l.2 ∈ keyIds ((victims (committedIds r) n (retained isSemver opt r.labels)).foldl deleteBundle r))) } := by
  simp only [squashed, squash, listBundles, Bool.false_eq_true, if_false, h]

theorem squash_early {isSemver : String → Bool} {n : Nat} {opt : Retain} {r : Repo}
    (h : (committedIds r).length < n + 1) : squashed isSemver n opt r = r := by
  simp only [squashed, squash, listBundles, Bool.false_eq_true, if_false, h, if_true]

/-- **kept bundles.** After the squash the committed bundles are exactly: the `n` most recent committed
    bundles, plus the committed bundles retained by a label under the chosen option. (No hypothesis on the
    repository: leftovers, dangling labels … are allowed.) -/
theorem C10_squash_kept (isSemver : String → Bool) (n : Nat) (opt : Retain) (r : Repo) (id : Id) :
    id ∈ committedIds (squashed isSemver n opt r) ↔
      id ∈ committedIds r ∧ (mostRecent n r id ∨ id ∈ retained isSemver opt r.labels) := by
  by_cases h : (committedIds r).length < n + 1
  · rw [squash_early h]
    constructor
    · intro hm
      refine ⟨hm, Or.inl ?_⟩
      have := newer_lt_length_of_mem hm
      unfold mostRecent; omega
    · intro hm; exact hm.1
  · rw [squash_unfold h]
    have hn : n ≤ (committedIds r).length := by omega
    rw [mem_committedIds]
    simp only [foldl_descs]
    constructor
    · rintro ⟨c, hc, hv⟩
      have hm : id ∈ committedIds r := mem_committedIds.mpr ⟨c, hc⟩
      refine ⟨hm, ?_⟩
      rw [mem_victims (committedIds_sorted r) hn] at hv
      by_cases h1 : newer (committedIds r) id < n
      · exact Or.inl h1
      · by_cases h2 : id ∈ retained isSemver opt r.labels
        · exact Or.inr h2
        · exact absurd ⟨hm, h1, h2⟩ hv
    · rintro ⟨hm, hk⟩
      obtain ⟨c, hc⟩ := mem_committedIds.mp hm
      refine ⟨c, hc, ?_⟩
      rw [mem_victims (committedIds_sorted r) hn]
      rintro ⟨_, h1, h2⟩
      rcases hk with hk | hk
      · exact h1 hk
      · exact h2 hk

/-- **kept bundles are intact.** Every metadata key of a kept bundle (descriptor with its count, every
    index file) is present after the squash iff it was present before; squash never touches the blob store
    (`C10_fact_no_blob_access`), so a kept bundle downloads exactly as before. -/
theorem C10_squash_kept_intact (isSemver : String → Bool) (n : Nat) (opt : Retain) (r : Repo) (id : Id)
    (hk : id ∈ committedIds (squashed isSemver n opt r)) :
    (∀ c, (id, c) ∈ (squashed isSemver n opt r).descs ↔ (id, c) ∈ r.descs) ∧
    (∀ i, (id, i) ∈ (squashed isSemver n opt r).idx ↔ (id, i) ∈ r.idx) := by
  by_cases h : (committedIds r).length < n + 1
  · rw [squash_early h]; exact ⟨fun _ => Iff.rfl, fun _ => Iff.rfl⟩
  · rw [squash_unfold h] at hk ⊢
    rw [mem_committedIds] at hk
    simp only [foldl_descs] at hk
    obtain ⟨c0, _, hv⟩ := hk
    constructor
    · intro c
      simp only [foldl_descs]
      exact ⟨fun h => h.1, fun h => ⟨h, hv⟩⟩
    · intro i
      exact ⟨foldl_idx_subset _ r (id, i), fun h => foldl_idx_other _ r (id, i) h hv⟩

/-- well-formed metadata: index files are numbered below the count of their descriptor (true of every
    committed upload; an interrupted upload has no descriptor), and every label points at an id that
    has keys (a committed bundle or a leftover) -/
structure WF (r : Repo) : Prop where
  idx_lt : IdxLt r
  labels_live : ∀ l ∈ r.labels, l.2 ∈ keyIds r

theorem victims_committed {isSemver : String → Bool} {n : Nat} {opt : Retain} {r : Repo}
    (hn : n ≤ (committedIds r).length) :
    ∀ v ∈ victims (committedIds r) n (retained isSemver opt r.labels), ∃ c, (v, c) ∈ r.descs := by
  intro v hv
  rw [mem_victims (committedIds_sorted r) hn] at hv
  exact mem_committedIds.mp hv.1

/-- **removed bundles are removed completely**: no key of a removed bundle remains. -/
theorem C10_squash_removed_gone (isSemver : String → Bool) (n : Nat) (opt : Retain) (r : Repo)
    (hwf : IdxLt r) (id : Id) (hb : id ∈ committedIds r)
    (hr : id ∉ committedIds (squashed isSemver n opt r)) :
    id ∉ keyIds (squashed isSemver n opt r) := by
  by_cases h : (committedIds r).length < n + 1
  · rw [squash_early h] at hr; exact absurd hb hr
  · have hn : n ≤ (committedIds r).length := by omega
    intro hkey
    rw [mem_keyIds] at hkey
    rcases hkey with hd | ⟨i, hi⟩
    · exact hr (mem_committedIds.mpr hd)
    · rw [squash_unfold h] at hi hr
      have hgone := foldl_idx_gone _ r hwf
        (fun v hv => Or.inl (victims_committed (isSemver := isSemver) (opt := opt) hn v hv)) (id, i) hi
      apply hr
      rw [mem_committedIds]
      obtain ⟨c, hc⟩ := mem_committedIds.mp hb
      exact ⟨c, (foldl_descs _ r (id, c)).mpr ⟨hc, hgone⟩⟩

/-- **labels.** The labels that remain are exactly the labels that did not point at a removed bundle. -/
theorem C10_squash_labels (isSemver : String → Bool) (n : Nat) (opt : Retain) (r : Repo) (hwf : WF r)
    (l : String × Id) :
    l ∈ (squashed isSemver n opt r).labels ↔
      l ∈ r.labels ∧ ¬ (l.2 ∈ committedIds r ∧ l.2 ∉ committedIds (squashed isSemver n opt r)) := by
  by_cases h : (committedIds r).length < n + 1
  · rw [squash_early h]
    constructor
    · intro hl; exact ⟨hl, fun hc => hc.2 hc.1⟩
    · intro hl; exact hl.1
  · have hn : n ≤ (committedIds r).length := by omega
    have hgone := C10_squash_removed_gone isSemver n opt r hwf.idx_lt l.2
    rw [squash_unfold h] at hgone ⊢
    simp only [List.mem_filter, foldl_labels, decide_eq_true_eq]
    constructor
    · rintro ⟨hl, hkey⟩
      refine ⟨hl, ?_⟩
      rintro ⟨hb, hr⟩
      exact hgone hb hr hkey
    · rintro ⟨hl, hnot⟩
      refine ⟨hl, ?_⟩
      have hlive := hwf.labels_live l hl
      by_cases hb : l.2 ∈ committedIds r
      · have hkept : l.2 ∈ committedIds _ := Classical.not_not.mp (fun hr => hnot ⟨hb, hr⟩)
        rw [mem_committedIds] at hkept
        exact mem_keyIds.mpr (Or.inl hkept)
      · rw [mem_keyIds] at hlive
        rcases hlive with hd | ⟨i, hi⟩
        · exact absurd (mem_committedIds.mpr hd) hb
        · have hnv : l.2 ∉ victims (committedIds r) n (retained isSemver opt r.labels) := by
            intro hv
            rw [mem_victims (committedIds_sorted r) hn] at hv
            exact hb hv.1
          exact mem_keyIds.mpr (Or.inr ⟨i, foldl_idx_other _ r (l.2, i) hi hnv⟩)

/-- **C10, first sentence.** For every well-formed repository, every `n` and every retain option: the
    committed bundles after the squash are exactly the `n` most recent ones and those retained by label;
    each of them keeps all its metadata keys; every other bundle is removed with all its keys; the labels
    that remain are exactly those that pointed at a bundle that is still there (or at no bundle). -/
theorem C10_squash_exact (isSemver : String → Bool) (n : Nat) (opt : Retain) (r : Repo) (hwf : WF r) :
    (∀ id, id ∈ committedIds (squashed isSemver n opt r) ↔
        id ∈ committedIds r ∧ (mostRecent n r id ∨ id ∈ retained isSemver opt r.labels)) ∧
    (∀ id, id ∈ committedIds (squashed isSemver n opt r) →
        (∀ c, (id, c) ∈ (squashed isSemver n opt r).descs ↔ (id, c) ∈ r.descs) ∧
        (∀ i, (id, i) ∈ (squashed isSemver n opt r).idx ↔ (id, i) ∈ r.idx)) ∧
    (∀ id, id ∈ committedIds r → id ∉ committedIds (squashed isSemver n opt r) →
        id ∉ keyIds (squashed isSemver n opt r)) ∧
    (∀ l, l ∈ (squashed isSemver n opt r).labels ↔
        l ∈ r.labels ∧ ¬ (l.2 ∈ committedIds r ∧ l.2 ∉ committedIds (squashed isSemver n opt r))) :=
  ⟨C10_squash_kept isSemver n opt r, C10_squash_kept_intact isSemver n opt r,
   C10_squash_removed_gone isSemver n opt r hwf.idx_lt, C10_squash_labels isSemver n opt r hwf⟩

/-- when every label points at a committed bundle, the remaining labels are exactly those pointing at a
    kept bundle -/
theorem C10_squash_labels_committed (isSemver : String → Bool) (n : Nat) (opt : Retain) (r : Repo)
    (hwf : WF r) (hlab : ∀ l ∈ r.labels, l.2 ∈ committedIds r) (l : String × Id) :
    l ∈ (squashed isSemver n opt r).labels ↔
      l ∈ r.labels ∧ l.2 ∈ committedIds (squashed isSemver n opt r) := by
  rw [C10_squash_labels isSemver n opt r hwf]
  constructor
  · rintro ⟨hl, hnot⟩
    exact ⟨hl, Classical.not_not.mp (fun hr => hnot ⟨hlab l hl, hr⟩)⟩
  · rintro ⟨hl, hk⟩
    exact ⟨hl, fun hc => hc.2 hk⟩

/-- **C10, second sentence.** Squash never removes the most recent committed bundle — whatever else the
    repository holds (leftovers of interrupted uploads with greater or smaller ids, labels on anything):
    no hypothesis on `r`. -/
theorem C10_squash_keeps_latest (isSemver : String → Bool) (n : Nat) (opt : Retain) (r : Repo)
    (hn : 1 ≤ n) (m : Id) (hm : m ∈ committedIds r) (hmax : ∀ x ∈ committedIds r, x ≤ m) :
    m ∈ committedIds (squashed isSemver n opt r) ∧
    (∀ c, (m, c) ∈ (squashed isSemver n opt r).descs ↔ (m, c) ∈ r.descs) ∧
    (∀ i, (m, i) ∈ (squashed isSemver n opt r).idx ↔ (m, i) ∈ r.idx) := by
  have hk : m ∈ committedIds (squashed isSemver n opt r) := by
    rw [C10_squash_kept]
    refine ⟨hm, Or.inl ?_⟩
    unfold mostRecent newer
    have : (committedIds r).filter (fun y => decide (m < y)) = [] := by
      rw [List.filter_eq_nil_iff]
      intro x hx
      have := hmax x hx
      simp; omega
    rw [this]; exact hn
  exact ⟨hk, C10_squash_kept_intact isSemver n opt r m hk⟩

/-! ### facts of the source the theorems rest on (regenerated on every run) -/

/-- the first listing of `RepoSquash` fetches descriptors (`byKey = false` is the code that exists) -/
theorem C10_fact_first_listing_sees_descriptors : Facts.squashFirstListingByKeyOnly = false := by decide

/-- the loop of `DeleteBundle` is the guarded one (`delLoop`, `NewLoop`) -/
theorem C10_fact_delete_loop_guarded : Facts.deleteLoopChecksPresence = true := by decide

/-- `RepoSquash`, `DeleteBundle`, `DeleteLabel` never mention the blob store -/
theorem C10_fact_no_blob_access : Facts.squashTouchesBlobStore = false := by decide

/-- the retain count in effect is at least 1 whatever the caller passes (`WithRetainNLatest` ignores 0) -/
theorem C10_effectiveN_pos (n : Nat) : 1 ≤ effectiveN Facts.squashDefaultRetain n := by
  unfold effectiveN
  split
  · decide
  · omega

/-- the second sentence for the retain count in effect, for every value the caller may pass -/
theorem C10_squash_keeps_latest_any_n (isSemver : String → Bool) (n : Nat) (opt : Retain) (r : Repo)
    (m : Id) (hm : m ∈ committedIds r) (hmax : ∀ x ∈ committedIds r, x ≤ m) :
    m ∈ committedIds (squashed isSemver (effectiveN Facts.squashDefaultRetain n) opt r) :=
  (C10_squash_keeps_latest isSemver _ opt r (C10_effectiveN_pos n) m hm hmax).1

/-! ### the loop of DeleteBundle -/

/-- **termination.** On every store (reporting or silent about missing keys) the loop that exists runs to
    completion from every state, and `delLoop` — a total function, accepted by Lean without fuel because
    each round removes a key that is present — computes its final state. -/
theorem C10_deleteBundle_terminates (silent : Bool) (id : Id) (s : List Key) (i : Nat) :
    NewLoop silent id s i (delLoop id s i) := by
  fun_induction delLoop id s i with
  | case1 s i h ih =>
    exact NewLoop.step h (by simp [storeDelete, h]) ih
  | case2 s i h => exact NewLoop.absent h

/-- the loop is deterministic: `delLoop` is its only outcome -/
theorem C10_deleteBundle_loop_unique {silent : Bool} {id : Id} {s s' : List Key} {i : Nat}
    (h : NewLoop silent id s i s') : s' = delLoop id s i := by
  induction h with
  | absent hn => rw [delLoop]; simp [hn]
  | failed hm hf => simp [storeDelete, hm] at hf
  | step hm _ _ ih =>
    rw [ih]
    conv => rhs; rw [delLoop]; simp [hm, storeDelete]
    rfl

/-- the loop before the `fix:` terminates on a store that reports missing keys … -/
theorem C10_oldloop_terminates_reporting (id : Id) (s : List Key) (i : Nat) :
    OldLoop false id s i (delLoop id s i) := by
  fun_induction delLoop id s i with
  | case1 s i h ih => exact OldLoop.step (by simp [storeDelete, h]) ih
  | case2 s i h => exact OldLoop.stop (by simp [storeDelete, h])

/-- … and has NO terminating run, from any state, on a store that deletes missing keys silently. -/
theorem C10_oldloop_diverges_silent (id : Id) (s s' : List Key) (i : Nat) :
    ¬ OldLoop true id s i s' := by
  intro h
  induction h with
  | stop hf => simp [storeDelete] at hf
  | step _ _ ih => exact ih

/-! ### refutation for the listing by key only, non-vacuity -/

/-- two committed bundles (two index files each), a third upload killed after its first index file -/
def witnessRepo : Repo :=
  { descs := [(0, 2), (1, 2)], idx := [(0, 0), (0, 1), (1, 0), (1, 1), (2, 0)], labels := [] }

/-- with the first listing by key only (the code before the `fix:`), retain-1 deletes BOTH committed bundles -/
theorem C10_neg_by_key_deletes_everything :
    committedIds (squash true (fun _ => false) 1 ⟨false, false⟩ witnessRepo) = [] := by decide

/-- hence "never removes the most recent committed bundle" is false of the listing by key only -/
theorem C10_neg_keeps_latest_by_key :
    ¬ (∀ (r : Repo) (m : Id), m ∈ committedIds r → (∀ x ∈ committedIds r, x ≤ m) →
        m ∈ committedIds (squash true (fun _ => false) 1 ⟨false, false⟩ r)) := by
  intro h
  have h1 := h witnessRepo 1 (by decide) (by decide)
  rw [C10_neg_by_key_deletes_everything] at h1
  exact absurd h1 (by simp)

/-- the code that exists keeps bundle 1 on the same repository and leaves the leftover alone -/
example : committedIds (squashed (fun _ => false) 1 ⟨false, false⟩ witnessRepo) = [1] ∧
    (squashed (fun _ => false) 1 ⟨false, false⟩ witnessRepo).idx = [(1, 0), (1, 1), (2, 0)] := by decide

/-- a repository with three committed bundles, a leftover (id 2) and labels -/
def wfExample : Repo :=
  { descs := [(0, 1), (1, 2), (3, 1)], idx := [(0, 0), (1, 0), (1, 1), (2, 0), (3, 0)],
    labels := [("v1.0.0", 0), ("latest", 3), ("onleft", 2)] }

/-- the hypotheses of `C10_squash_exact` are satisfiable by a repository with a leftover and labels -/
theorem C10_wf_satisfiable : WF wfExample := by
  refine ⟨?_, by decide⟩
  intro id c i hd hi
  simp [wfExample] at hd hi
  rcases hd with ⟨h1, h2⟩ | ⟨h1, h2⟩ | ⟨h1, h2⟩ <;>
    rcases hi with ⟨h3, h4⟩ | ⟨h3, h4⟩ | ⟨h3, h4⟩ | ⟨h3, h4⟩ | ⟨h3, h4⟩ <;> simp_all

/-- retain semver labels, n = 1: bundle 0 (label v1.0.0) and bundle 3 (most recent) stay, bundle 1 goes,
    the label on the leftover stays, no label pointed at bundle 1 -/
example :
    let r : Repo := { descs := [(0, 1), (1, 2), (3, 1)], idx := [(0, 0), (1, 0), (1, 1), (2, 0), (3, 0)],
                      labels := [("v1.0.0", 0), ("latest", 3), ("onleft", 2), ("old", 1)] }
    let q := squashed (fun s => s == "v1.0.0") 1 ⟨false, true⟩ r
    committedIds q = [0, 3] ∧ q.idx = [(0, 0), (2, 0), (3, 0)] ∧
      q.labels = [("v1.0.0", 0), ("latest", 3), ("onleft", 2)] := by decide

end Squash
