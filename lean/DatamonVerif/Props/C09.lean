import DatamonVerif.Model.Repo
import DatamonVerif.Generated.Facts

/-! # C09 — repository operations affect exactly their own repository

Theorems about the model `Model/Repo.lean` of `CreateRepo`, `DeleteRepo`, `RenameRepo`,
`DeleteEntriesFromRepo` (pkg/core) on the real key strings of pkg/model:

* `C09_create_unique` — any number of creators of one name, each doing its single atomic
  no-overwrite `Put`, in every order of those store calls: exactly one `ok` (the first to reach
  the store), the stored descriptor is the winner's, nothing else changes; `C09_create_taken`.
* `C09_delete_exact` — descriptor, visible bundles (descriptor + every file list) and labels of
  the repository are gone, every key whose repository component differs is untouched, nothing is
  created or modified.  Needs a name without `/` (`C09_neg_frame_needs_noSlash`), which is all
  `CreateRepo` ever creates (`validName_noSlash`).
* `C09_rename_exact` (`RenameExact`) — same ids, same descriptors, same file lists, same labels
  under the new name and nothing else there; the old name removed; other repositories untouched.
  Needs an unused new name (`C09_neg_rename_needs_fresh`).
* `C09_deleteEntries_exact`, `C09_pruned_entries` — every file list of every visible bundle =
  its former entries, in order, minus the given paths; every other key unchanged.
* `C09_deleteLoop_terminates` / `C09_neg_deleteLoop_silent_delete`,
  `C09_obs_delete_leaves_uncommitted` — the recorded observations.
* `C09_facts_*` — the key templates, `CreateRepo`'s single no-overwrite `Put`, the accepted
  character classes and `DeleteRepo`'s bundle options are the ones found in the Go sources. -/
namespace Repo

/-! ### the object store -/

theorem get_del (m : Store) (k k' : Str) : get (del m k) k' = if k' = k then none else get m k' := by
  induction m with
  | nil => simp [del, get]
  | cons p m ih =>
    obtain ⟨a, v⟩ := p
    simp only [del]
    by_cases h : k = a
    · subst h
      simp only [if_true, ih, get]
      by_cases h2 : k' = k <;> simp [h2]
    · simp only [h, if_false, get, ih]
      by_cases h2 : k' = a
      · subst h2
        have : ¬ k' = k := fun e => h e.symm
        simp [this]
      · simp [h2]

theorem get_ins (m : Store) (k : Str) (v : Val) (k' : Str) :
    get (ins k v m) k' = if k' = k then some v else get m k' := by
  induction m with
  | nil => simp [ins, get]
  | cons p m ih =>
    obtain ⟨a, w⟩ := p
    simp only [ins]
    by_cases hlt : a < k
    · have hne : a ≠ k := fun e => by subst e; exact List.lt_irrefl _ hlt
      simp only [hlt, if_true, get, ih]
      by_cases h2 : k' = a
      · subst h2; simp [hne]
      · simp [h2]
    · simp only [hlt, if_false, get]

theorem get_put (m : Store) (k : Str) (v : Val) (k' : Str) :
    get (put m k v) k' = if k' = k then some v else get m k' := by
  unfold put
  rw [get_ins, get_del]
  by_cases h : k' = k <;> simp [h]

theorem get_put_same (m : Store) (k : Str) (v : Val) : get (put m k v) k = some v := by
  simp [get_put]

theorem get_put_ne (m : Store) (k : Str) (v : Val) (k' : Str) (h : k' ≠ k) :
    get (put m k v) k' = get m k' := by
  simp [get_put, h]

theorem get_del_same (m : Store) (k : Str) : get (del m k) k = none := by simp [get_del]

theorem get_del_ne (m : Store) (k k' : Str) (h : k' ≠ k) : get (del m k) k' = get m k' := by
  simp [get_del, h]

theorem mem_keys_iff (m : Store) (k : Str) : k ∈ keys m ↔ get m k ≠ none := by
  induction m with
  | nil => simp [keys, get]
  | cons p m ih =>
    obtain ⟨a, v⟩ := p
    simp only [keys, List.map_cons, List.mem_cons, get] at *
    by_cases h : k = a
    · simp [h]
    · simp [h, ih]

theorem has_iff (m : Store) (k : Str) : has m k = true ↔ get m k ≠ none := by
  unfold has
  cases get m k <;> simp

theorem has_false_iff (m : Store) (k : Str) : has m k = false ↔ get m k = none := by
  unfold has
  cases get m k <;> simp

/-! ### keys: components and prefixes -/

theorem takeWhile_noSlash (r rest : Str) (h : '/' ∉ r) :
    (r ++ '/' :: rest).takeWhile notSlash = r := by
  induction r with
  | nil => simp [notSlash]
  | cons c r ih =>
    have hc : c ≠ '/' := fun e => h (by simp [e])
    have hr : '/' ∉ r := fun e => h (by simp [e])
    simp [List.takeWhile_cons, notSlash, hc, ih hr]

theorem dropWhile_noSlash (r rest : Str) (h : '/' ∉ r) :
    (r ++ '/' :: rest).dropWhile notSlash = '/' :: rest := by
  induction r with
  | nil => simp [notSlash]
  | cons c r ih =>
    have hc : c ≠ '/' := fun e => h (by simp [e])
    have hr : '/' ∉ r := fun e => h (by simp [e])
    simp [List.dropWhile_cons, notSlash, hc, ih hr]

theorem takeWhile_notSlash_noSlash (l : Str) : '/' ∉ l.takeWhile notSlash := by
  induction l with
  | nil => simp
  | cons c l ih =>
    simp only [List.takeWhile]
    by_cases hc : notSlash c = true
    · simp only [hc, List.mem_cons, not_or]
      refine ⟨?_, ih⟩
      intro e; subst e; simp [notSlash] at hc
    · simp [hc]

theorem dropWhile_head (l : Str) (c : Char) (rest : Str) (h : l.dropWhile notSlash = c :: rest) :
    c = '/' := by
  induction l with
  | nil => simp at h
  | cons d l ih =>
    simp only [List.dropWhile] at h
    by_cases hd : notSlash d = true
    · simp only [hd] at h; exact ih h
    · simp only [hd] at h
      have : d = c := by injection h
      subst this
      simpa [notSlash] using hd

theorem repoOf_repos (r rest : Str) (h : '/' ∉ r) : repoOf (sRepos ++ (r ++ '/' :: rest)) = some r := by
  have e1 : (sRepos ++ (r ++ '/' :: rest)).takeWhile notSlash = ['r', 'e', 'p', 'o', 's'] := by
    simp [sRepos, List.takeWhile, notSlash]
  have e2 : (sRepos ++ (r ++ '/' :: rest)).dropWhile notSlash = '/' :: (r ++ '/' :: rest) := by
    simp [sRepos, List.dropWhile, notSlash]
  unfold repoOf
  simp only [e1, e2, dropWhile_noSlash r rest h, takeWhile_noSlash r rest h]
  simp [sRepos]

theorem repoOf_bundles (r rest : Str) (h : '/' ∉ r) : repoOf (sBundles ++ (r ++ '/' :: rest)) = some r := by
  have e1 : (sBundles ++ (r ++ '/' :: rest)).takeWhile notSlash = ['b', 'u', 'n', 'd', 'l', 'e', 's'] := by
    simp [sBundles, List.takeWhile, notSlash]
  have e2 : (sBundles ++ (r ++ '/' :: rest)).dropWhile notSlash = '/' :: (r ++ '/' :: rest) := by
    simp [sBundles, List.dropWhile, notSlash]
  unfold repoOf
  simp only [e1, e2, dropWhile_noSlash r rest h, takeWhile_noSlash r rest h]
  simp [sBundles]

theorem repoOf_labels (r rest : Str) (h : '/' ∉ r) : repoOf (sLabels ++ (r ++ '/' :: rest)) = some r := by
  have e1 : (sLabels ++ (r ++ '/' :: rest)).takeWhile notSlash = ['l', 'a', 'b', 'e', 'l', 's'] := by
    simp [sLabels, List.takeWhile, notSlash]
  have e2 : (sLabels ++ (r ++ '/' :: rest)).dropWhile notSlash = '/' :: (r ++ '/' :: rest) := by
    simp [sLabels, List.dropWhile, notSlash]
  unfold repoOf
  simp only [e1, e2, dropWhile_noSlash r rest h, takeWhile_noSlash r rest h]
  simp [sLabels]

theorem repoOf_repoKey (r : Str) (h : '/' ∉ r) : repoOf (repoKey r) = some r :=
  repoOf_repos r sRepoFile h

/-- every key under `bundles/<r>/` belongs to `r` -/
theorem repoOf_of_bundlePrefix (r k : Str) (h : '/' ∉ r) (hp : bundlePrefix r <+: k) :
    repoOf k = some r := by
  obtain ⟨t, rfl⟩ := hp
  have : bundlePrefix r ++ t = sBundles ++ (r ++ '/' :: t) := by simp [bundlePrefix]
  rw [this]; exact repoOf_bundles r t h

/-- every key under `labels/<r>/` belongs to `r` -/
theorem repoOf_of_labelPrefix (r k : Str) (h : '/' ∉ r) (hp : labelPrefix r <+: k) :
    repoOf k = some r := by
  obtain ⟨t, rfl⟩ := hp
  have : labelPrefix r ++ t = sLabels ++ (r ++ '/' :: t) := by simp [labelPrefix]
  rw [this]; exact repoOf_labels r t h

theorem bundlePrefix_prefix_bundleKey (r id : Str) : bundlePrefix r <+: bundleKey r id :=
  ⟨_, rfl⟩

theorem bundlePrefix_prefix_filesKey (r id : Str) (i : Nat) : bundlePrefix r <+: filesKey r id i :=
  ⟨_, rfl⟩

theorem labelPrefix_prefix_labelKey (r n : Str) : labelPrefix r <+: labelKey r n :=
  ⟨_, rfl⟩

theorem repoOf_bundleKey (r id : Str) (h : '/' ∉ r) : repoOf (bundleKey r id) = some r :=
  repoOf_of_bundlePrefix r _ h (bundlePrefix_prefix_bundleKey r id)

theorem repoOf_filesKey (r id : Str) (i : Nat) (h : '/' ∉ r) : repoOf (filesKey r id i) = some r :=
  repoOf_of_bundlePrefix r _ h (bundlePrefix_prefix_filesKey r id i)

theorem repoOf_labelKey (r n : Str) (h : '/' ∉ r) : repoOf (labelKey r n) = some r :=
  repoOf_of_labelPrefix r _ h (labelPrefix_prefix_labelKey r n)

theorem compAfter_app (p id rest : Str) (h : '/' ∉ id) :
    compAfter p (p ++ (id ++ '/' :: rest)) = some id := by
  unfold compAfter
  have hp : p.isPrefixOf (p ++ (id ++ '/' :: rest)) = true := by
    rw [List.isPrefixOf_iff_prefix]; exact ⟨_, rfl⟩
  simp only [hp, if_true, List.drop_left, dropWhile_noSlash id rest h, takeWhile_noSlash id rest h]

theorem compAfter_some (p k id : Str) (h : compAfter p k = some id) :
    '/' ∉ id ∧ ∃ rest, k = p ++ (id ++ '/' :: rest) := by
  unfold compAfter at h
  by_cases hp : p.isPrefixOf k = true
  · simp only [hp, if_true] at h
    rw [List.isPrefixOf_iff_prefix] at hp
    obtain ⟨t, rfl⟩ := hp
    simp only [List.drop_left] at h
    cases hd : t.dropWhile notSlash with
    | nil => simp [hd] at h
    | cons c rest =>
      simp only [hd] at h
      have hid : t.takeWhile notSlash = id := by injection h
      have hc := dropWhile_head t c rest hd
      subst hc
      refine ⟨hid ▸ takeWhile_notSlash_noSlash t, rest, ?_⟩
      have := List.takeWhile_append_dropWhile (p := notSlash) (l := t)
      rw [hid, hd] at this
      rw [this]
  · simp [hp] at h

theorem compAfter_prefix (p k id : Str) (h : compAfter p k = some id) : p <+: k := by
  obtain ⟨_, rest, rfl⟩ := compAfter_some p k id h
  exact ⟨_, rfl⟩

theorem mem_dedup (l : List Str) (x : Str) : x ∈ dedup l ↔ x ∈ l := by
  induction l with
  | nil => simp [dedup]
  | cons y l ih =>
    simp only [dedup, List.mem_cons, List.mem_filter, ih]
    constructor
    · rintro (h | ⟨h, _⟩)
      · exact Or.inl h
      · exact Or.inr h
    · intro h
      by_cases e : x = y
      · exact Or.inl e
      · rcases h with h | h
        · exact Or.inl h
        · exact Or.inr ⟨h, by simpa using e⟩

/-! ### key injectivity -/

theorem bundleKey_inj (r id id' : Str) (h : bundleKey r id = bundleKey r id') : id = id' := by
  unfold bundleKey at h
  have h1 := List.append_cancel_left h
  have : id ++ ('/' :: sBundleFile) = id' ++ ('/' :: sBundleFile) := h1
  exact List.append_cancel_right this

theorem filesKey_ne_bundleKey (r id id' : Str) (i : Nat) (h1 : '/' ∉ id) (h2 : '/' ∉ id') :
    filesKey r id' i ≠ bundleKey r id := by
  intro h
  unfold filesKey bundleKey at h
  have h3 := List.append_cancel_left h
  have e1 := congrArg (List.dropWhile notSlash) h3
  rw [dropWhile_noSlash _ _ h2, dropWhile_noSlash _ _ h1] at e1
  simp [sFilesPrefix, sBundleFile] at e1

/-! ### listings -/

theorem mem_bundleIds (m : Store) (r id : Str) :
    id ∈ bundleIds m r ↔ ∃ k ∈ keys m, compAfter (bundlePrefix r) k = some id := by
  unfold bundleIds
  rw [mem_dedup, List.mem_filterMap]

theorem fetchBundles_spec (m : Store) (r : Str) :
    ∀ (ids : List Str) (bs : List (Str × Nat × Nat)), fetchBundles m r ids = some bs →
      (∀ b ∈ bs, b.1 ∈ ids ∧ get m (bundleKey r b.1) = some (.bundle b.2.1 b.2.2)) ∧
      (∀ id n a, id ∈ ids → get m (bundleKey r id) = some (.bundle n a) → (id, n, a) ∈ bs) := by
  intro ids
  induction ids with
  | nil =>
    intro bs h
    simp only [fetchBundles, Option.some.injEq] at h
    subst h
    simp
  | cons id t ih =>
    intro bs h
    simp only [fetchBundles] at h
    cases hg : get m (bundleKey r id) with
    | none =>
      simp only [hg] at h
      obtain ⟨i1, i2⟩ := ih bs h
      refine ⟨fun b hb => ⟨List.mem_cons_of_mem _ (i1 b hb).1, (i1 b hb).2⟩, ?_⟩
      intro id' n a hm hget
      rcases List.mem_cons.mp hm with e | hm'
      · subst e; rw [hg] at hget; cases hget
      · exact i2 id' n a hm' hget
    | some v =>
      cases v with
      | bundle n0 a0 =>
        simp only [hg] at h
        cases ht : fetchBundles m r t with
        | none => simp [ht] at h
        | some bt =>
          simp only [ht, Option.map_some, Option.some.injEq] at h
          subst h
          obtain ⟨i1, i2⟩ := ih bt ht
          constructor
          · intro b hb
            rcases List.mem_cons.mp hb with e | hb'
            · subst e; exact ⟨List.mem_cons_self, hg⟩
            · exact ⟨List.mem_cons_of_mem _ (i1 b hb').1, (i1 b hb').2⟩
          · intro id' n a hm hget
            rcases List.mem_cons.mp hm with e | hm'
            · subst e
              rw [hg] at hget
              injection hget with hv
              injection hv with e1 e2
              subst e1; subst e2
              exact List.mem_cons_self
            · exact List.mem_cons_of_mem _ (i2 id' n a hm' hget)
      | repo _ _ => simp [hg] at h
      | files _ => simp [hg] at h
      | label _ _ => simp [hg] at h
      | junk _ => simp [hg] at h

/-- what `ListBundles` returns: exactly the ids (without `/`) that have a bundle descriptor -/
theorem listBundles_spec (m : Store) (r : Str) (bs : List (Str × Nat × Nat))
    (h : listBundles m r = some bs) :
    (∀ b ∈ bs, '/' ∉ b.1 ∧ get m (bundleKey r b.1) = some (.bundle b.2.1 b.2.2)) ∧
    (∀ id n a, '/' ∉ id → get m (bundleKey r id) = some (.bundle n a) → (id, n, a) ∈ bs) := by
  unfold listBundles at h
  split at h
  · cases h
  · obtain ⟨i1, i2⟩ := fetchBundles_spec m r _ bs h
    constructor
    · intro b hb
      obtain ⟨hm, hg⟩ := i1 b hb
      rw [mem_bundleIds] at hm
      obtain ⟨k, _, hk⟩ := hm
      exact ⟨(compAfter_some _ _ _ hk).1, hg⟩
    · intro id n a hid hg
      apply i2 id n a _ hg
      rw [mem_bundleIds]
      refine ⟨bundleKey r id, ?_, ?_⟩
      · rw [mem_keys_iff, hg]; simp
      · exact compAfter_app (bundlePrefix r) id sBundleFile hid

theorem fetchLabels_spec (v : Store) (r : Str) :
    ∀ (ks : List Str) (ls : List (Str × Str × Nat)), fetchLabels v r ks = some ls →
      (∀ l ∈ ls, '/' ∉ l.1 ∧ get v (labelKey r l.1) = some (.label l.2.1 l.2.2)) ∧
      (∀ k ∈ ks, labelPrefix r <+: k → ∃ l ∈ ls, k = labelKey r l.1) := by
  intro ks
  induction ks with
  | nil =>
    intro ls h
    simp only [fetchLabels, Option.some.injEq] at h
    subst h
    simp
  | cons k t ih =>
    intro ls h
    simp only [fetchLabels] at h
    by_cases hp : (labelPrefix r).isPrefixOf k = true
    · simp only [hp, if_true] at h
      cases hc : compAfter (labelPrefix r) k with
      | none => simp [hc] at h
      | some name =>
        simp only [hc] at h
        by_cases hk : k = labelKey r name
        · simp only [hk, if_true] at h
          cases hg : get v (labelKey r name) with
          | none => simp [hg] at h
          | some val =>
            cases val with
            | label b a =>
              simp only [hg] at h
              cases ht : fetchLabels v r t with
              | none => simp [ht] at h
              | some lt =>
                simp only [ht, Option.map_some, Option.some.injEq] at h
                subst h
                obtain ⟨i1, i2⟩ := ih lt ht
                constructor
                · intro l hl
                  rcases List.mem_cons.mp hl with e | hl'
                  · subst e; exact ⟨(compAfter_some _ _ _ hc).1, hg⟩
                  · exact i1 l hl'
                · intro k' hk' hpre
                  rcases List.mem_cons.mp hk' with e | hk''
                  · exact ⟨(name, b, a), List.mem_cons_self, by rw [e, hk]⟩
                  · obtain ⟨l, hl, e⟩ := i2 k' hk'' hpre
                    exact ⟨l, List.mem_cons_of_mem _ hl, e⟩
            | repo _ _ => simp [hg] at h
            | files _ => simp [hg] at h
            | bundle _ _ => simp [hg] at h
            | junk _ => simp [hg] at h
        · simp [hk] at h
    · simp only [hp] at h
      obtain ⟨i1, i2⟩ := ih ls h
      refine ⟨i1, ?_⟩
      intro k' hk' hpre
      rcases List.mem_cons.mp hk' with e | hk''
      · subst e
        rw [← List.isPrefixOf_iff_prefix] at hpre
        exact absurd hpre hp
      · exact i2 k' hk'' hpre

/-- what `ListLabels` returns: every key under `labels/<r>/` is the key of a listed label -/
theorem listLabels_spec (v : Store) (r : Str) (ls : List (Str × Str × Nat))
    (h : listLabels v r = some ls) :
    (∀ l ∈ ls, '/' ∉ l.1 ∧ get v (labelKey r l.1) = some (.label l.2.1 l.2.2)) ∧
    (∀ k, get v k ≠ none → labelPrefix r <+: k → ∃ l ∈ ls, k = labelKey r l.1) := by
  obtain ⟨i1, i2⟩ := fetchLabels_spec v r _ ls h
  exact ⟨i1, fun k hk hp => i2 k ((mem_keys_iff v k).mpr hk) hp⟩

/-! ### deletions -/

/-- `m'` is `m` with some keys satisfying `P` deleted -/
def OnlyDel (P : Str → Prop) (m m' : Store) : Prop :=
  ∀ k, get m' k = get m k ∨ (get m' k = none ∧ P k)

theorem OnlyDel.refl (P : Str → Prop) (m : Store) : OnlyDel P m m := fun _ => Or.inl rfl

theorem OnlyDel.trans {P : Str → Prop} {m m1 m2 : Store} (h1 : OnlyDel P m m1) (h2 : OnlyDel P m1 m2) :
    OnlyDel P m m2 := by
  intro k
  rcases h2 k with e2 | ⟨e2, p2⟩
  · rcases h1 k with e1 | ⟨e1, p1⟩
    · exact Or.inl (e2.trans e1)
    · exact Or.inr ⟨e2.trans e1, p1⟩
  · exact Or.inr ⟨e2, p2⟩

theorem OnlyDel.mono {P Q : Str → Prop} {m m' : Store} (h : OnlyDel P m m') (hpq : ∀ k, P k → Q k) :
    OnlyDel Q m m' := by
  intro k
  rcases h k with e | ⟨e, p⟩
  · exact Or.inl e
  · exact Or.inr ⟨e, hpq k p⟩

theorem OnlyDel.del {P : Str → Prop} (m : Store) (k : Str) (hk : P k) : OnlyDel P m (del m k) := by
  intro k'
  rw [get_del]
  by_cases h : k' = k
  · subst h; exact Or.inr ⟨by simp, hk⟩
  · exact Or.inl (by simp [h])

theorem OnlyDel.none {P : Str → Prop} {m m' : Store} (h : OnlyDel P m m') (k : Str) (hk : get m k = none) :
    get m' k = none := by
  rcases h k with e | ⟨e, _⟩
  · rw [e, hk]
  · exact e

theorem OnlyDel.keep {P : Str → Prop} {m m' : Store} (h : OnlyDel P m m') (k : Str) (hk : ¬ P k) :
    get m' k = get m k := by
  rcases h k with e | ⟨_, p⟩
  · exact e
  · exact absurd p hk

/-- the keys `DeleteBundle` may delete: the descriptor and the file lists of that bundle -/
def BundleKeyOf (r id : Str) (k : Str) : Prop := k = bundleKey r id ∨ ∃ i, k = filesKey r id i

theorem delFiles_onlyDel (m : Store) (r id : Str) (n : Nat) :
    OnlyDel (BundleKeyOf r id) m (delFiles m r id n) := by
  induction n with
  | zero => exact OnlyDel.refl _ _
  | succ n ih => exact ih.trans (OnlyDel.del _ _ (Or.inr ⟨n, rfl⟩))

theorem delFiles_gone (m : Store) (r id : Str) (n : Nat) :
    ∀ i < n, get (delFiles m r id n) (filesKey r id i) = none := by
  induction n with
  | zero => intro i hi; omega
  | succ n ih =>
    intro i hi
    simp only [delFiles, get_del]
    split
    · rfl
    · have : i < n := by
        rcases Nat.lt_succ_iff_lt_or_eq.mp hi with h | h
        · exact h
        · subst h; rename_i hne; exact absurd rfl hne
      exact ih i this

theorem delUntilMissing_onlyDel (r id : Str) :
    ∀ (fuel i : Nat) (m : Store), OnlyDel (BundleKeyOf r id) m (delUntilMissing r id fuel i m) := by
  intro fuel
  induction fuel with
  | zero => intro i m; exact OnlyDel.refl _ _
  | succ f ih =>
    intro i m
    simp only [delUntilMissing]
    split
    · exact (OnlyDel.del m _ (Or.inr ⟨i, rfl⟩)).trans (ih (i + 1) _)
    · exact OnlyDel.refl _ _

theorem deleteBundle_onlyDel (m : Store) (r id : Str) :
    OnlyDel (BundleKeyOf r id) m (deleteBundle m r id) := by
  unfold deleteBundle
  refine OnlyDel.trans ?_ (OnlyDel.del _ _ (Or.inl rfl))
  by_cases hn : bundleCount m r id = 0
  · simp only [hn, if_true]; exact delUntilMissing_onlyDel r id _ _ _
  · simp only [hn, if_false]; exact delFiles_onlyDel m r id _

theorem deleteBundle_gone (m : Store) (r id : Str) (n a : Nat)
    (h : get m (bundleKey r id) = some (.bundle n a)) :
    get (deleteBundle m r id) (bundleKey r id) = none ∧
    ∀ i < n, get (deleteBundle m r id) (filesKey r id i) = none := by
  have hc : bundleCount m r id = n := by simp [bundleCount, h]
  unfold deleteBundle
  simp only [hc]
  refine ⟨get_del_same _ _, ?_⟩
  intro i hi
  have hn : n ≠ 0 := by omega
  simp only [hn, if_false, get_del]
  split
  · rfl
  · exact delFiles_gone m r id n i hi

/-- a listed bundle is either still intact or completely gone -/
def IntactOrGone (m : Store) (r : Str) (b : Str × Nat × Nat) : Prop :=
  get m (bundleKey r b.1) = some (.bundle b.2.1 b.2.2) ∨
  (get m (bundleKey r b.1) = none ∧ ∀ i < b.2.1, get m (filesKey r b.1 i) = none)

def Gone (m : Store) (r : Str) (b : Str × Nat × Nat) : Prop :=
  get m (bundleKey r b.1) = none ∧ ∀ i < b.2.1, get m (filesKey r b.1 i) = none

theorem Gone.onlyDel {P : Str → Prop} {m m' : Store} {r : Str} {b : Str × Nat × Nat}
    (h : Gone m r b) (hd : OnlyDel P m m') : Gone m' r b :=
  ⟨hd.none _ h.1, fun i hi => hd.none _ (h.2 i hi)⟩

theorem deleteBundles_onlyDel (r : Str) :
    ∀ (bs : List (Str × Nat × Nat)) (m : Store),
      OnlyDel (fun k => ∃ b ∈ bs, BundleKeyOf r b.1 k) m (deleteBundles m r bs) := by
  intro bs
  induction bs with
  | nil => intro m; exact OnlyDel.refl _ _
  | cons b t ih =>
    intro m
    simp only [deleteBundles, List.foldl_cons]
    have h1 : OnlyDel (fun k => ∃ b' ∈ b :: t, BundleKeyOf r b'.1 k) m (deleteBundle m r b.1) :=
      (deleteBundle_onlyDel m r b.1).mono (fun k hk => ⟨b, List.mem_cons_self, hk⟩)
    have h2 := (ih (deleteBundle m r b.1)).mono
      (Q := fun k => ∃ b' ∈ b :: t, BundleKeyOf r b'.1 k)
      (fun k ⟨b', hb', hk⟩ => ⟨b', List.mem_cons_of_mem _ hb', hk⟩)
    exact h1.trans h2

theorem deleteBundles_gone (r : Str) :
    ∀ (bs : List (Str × Nat × Nat)) (m : Store),
      (∀ b ∈ bs, '/' ∉ b.1) → (∀ b ∈ bs, IntactOrGone m r b) →
      ∀ b ∈ bs, Gone (deleteBundles m r bs) r b := by
  intro bs
  induction bs with
  | nil => intro m _ _ b hb; cases hb
  | cons b0 t ih =>
    intro m hns hio b hb
    simp only [deleteBundles, List.foldl_cons]
    have hd0 := deleteBundle_onlyDel m r b0.1
    have hdt := deleteBundles_onlyDel r t (deleteBundle m r b0.1)
    -- the head is gone after its own step
    have hhead : Gone (deleteBundle m r b0.1) r b0 := by
      rcases hio b0 List.mem_cons_self with h | h
      · exact deleteBundle_gone m r b0.1 b0.2.1 b0.2.2 h
      · exact Gone.onlyDel h hd0
    -- the tail is still intact-or-gone
    have htail : ∀ b' ∈ t, IntactOrGone (deleteBundle m r b0.1) r b' := by
      intro b' hb'
      rcases hio b' (List.mem_cons_of_mem _ hb') with h | h
      · rcases hd0 (bundleKey r b'.1) with e | ⟨e, p⟩
        · exact Or.inl (e.trans h)
        · -- the descriptor of b' was deleted by the step for b0: then b' has b0's id
          rcases p with p | ⟨i, p⟩
          · have hid : b'.1 = b0.1 := bundleKey_inj r _ _ p
            have h0 : get m (bundleKey r b0.1) = some (.bundle b'.2.1 b'.2.2) := by rw [← hid]; exact h
            have hg := deleteBundle_gone m r b0.1 b'.2.1 b'.2.2 h0
            right
            rw [hid]
            exact hg
          · exact absurd p.symm (filesKey_ne_bundleKey r b'.1 b0.1 i
              (hns b' (List.mem_cons_of_mem _ hb')) (hns b0 List.mem_cons_self))
      · exact Or.inr (Gone.onlyDel h hd0)
    rcases List.mem_cons.mp hb with e | hb'
    · subst e; exact Gone.onlyDel hhead hdt
    · exact ih (deleteBundle m r b0.1) (fun b' hb' => hns b' (List.mem_cons_of_mem _ hb')) htail b hb'

theorem deleteLabels_onlyDel (r : Str) :
    ∀ (ls : List (Str × Str × Nat)) (v : Store),
      OnlyDel (fun k => ∃ l ∈ ls, k = labelKey r l.1) v (deleteLabels v r ls) := by
  intro ls
  induction ls with
  | nil => intro v; exact OnlyDel.refl _ _
  | cons l t ih =>
    intro v
    simp only [deleteLabels, List.foldl_cons]
    have h1 : OnlyDel (fun k => ∃ l' ∈ l :: t, k = labelKey r l'.1) v (del v (labelKey r l.1)) :=
      OnlyDel.del _ _ ⟨l, List.mem_cons_self, rfl⟩
    have h2 := (ih (del v (labelKey r l.1))).mono
      (Q := fun k => ∃ l' ∈ l :: t, k = labelKey r l'.1)
      (fun k ⟨l', hl', hk⟩ => ⟨l', List.mem_cons_of_mem _ hl', hk⟩)
    exact h1.trans h2

theorem deleteLabels_gone (r : Str) :
    ∀ (ls : List (Str × Str × Nat)) (v : Store), ∀ l ∈ ls, get (deleteLabels v r ls) (labelKey r l.1) = none := by
  intro ls
  induction ls with
  | nil => intro v l hl; cases hl
  | cons l0 t ih =>
    intro v l hl
    simp only [deleteLabels, List.foldl_cons]
    rcases List.mem_cons.mp hl with e | hl'
    · subst e
      exact (deleteLabels_onlyDel r t _).none _ (get_del_same _ _)
    · exact ih _ l hl'

/-! ### DeleteRepo -/

theorem BundleKeyOf.prefix {r id k : Str} (h : BundleKeyOf r id k) : bundlePrefix r <+: k := by
  rcases h with h | ⟨i, h⟩
  · rw [h]; exact bundlePrefix_prefix_bundleKey r id
  · rw [h]; exact bundlePrefix_prefix_filesKey r id i

/-- the keys `DeleteRepo r` may delete -/
def RepoKeyOf (r : Str) (k : Str) : Prop :=
  k = repoKey r ∨ bundlePrefix r <+: k ∨ labelPrefix r <+: k

theorem RepoKeyOf.repoOf {r k : Str} (hr : '/' ∉ r) (h : RepoKeyOf r k) : repoOf k = some r := by
  rcases h with h | h | h
  · rw [h]; exact repoOf_repoKey r hr
  · exact repoOf_of_bundlePrefix r k hr h
  · exact repoOf_of_labelPrefix r k hr h

theorem deleteRepo_unfold (s s' : St) (r : Str) (h : deleteRepo s r = (s', .ok)) :
    ∃ bs ls, get s.md (repoKey r) ≠ none ∧ listBundles s.md r = some bs ∧ listLabels s.vmd r = some ls ∧
      s'.md = del (deleteBundles s.md r bs) (repoKey r) ∧ s'.vmd = deleteLabels s.vmd r ls := by
  unfold deleteRepo at h
  by_cases he : repoExists s r = true
  · simp only [he, Bool.not_true] at h
    cases hb : listBundles s.md r with
    | none => simp [hb] at h
    | some bs =>
      simp only [hb] at h
      cases hl : listLabels s.vmd r with
      | none => simp [hl] at h
      | some ls =>
        simp only [hl] at h
        refine ⟨bs, ls, (has_iff _ _).mp he, rfl, rfl, ?_, ?_⟩
        · have := congrArg Prod.fst h; simp at this; rw [← this]
        · have := congrArg Prod.fst h; simp at this; rw [← this]
  · simp [he] at h

/-- the effect of a successful `DeleteRepo` on the two stores -/
theorem deleteRepo_effect (s s' : St) (r : Str) (h : deleteRepo s r = (s', .ok)) :
    OnlyDel (RepoKeyOf r) s.md s'.md ∧ OnlyDel (RepoKeyOf r) s.vmd s'.vmd ∧
    get s'.md (repoKey r) = none ∧
    (∀ id n a, '/' ∉ id → get s.md (bundleKey r id) = some (.bundle n a) →
      get s'.md (bundleKey r id) = none ∧ ∀ i < n, get s'.md (filesKey r id i) = none) ∧
    (∀ k, labelPrefix r <+: k → get s'.vmd k = none) := by
  obtain ⟨bs, ls, _, hb, hl, e1, e2⟩ := deleteRepo_unfold s s' r h
  obtain ⟨b1, b2⟩ := listBundles_spec s.md r bs hb
  obtain ⟨_, l2⟩ := listLabels_spec s.vmd r ls hl
  have hdb : OnlyDel (RepoKeyOf r) s.md (deleteBundles s.md r bs) :=
    (deleteBundles_onlyDel r bs s.md).mono (fun k ⟨b, _, hk⟩ => Or.inr (Or.inl hk.prefix))
  have hmd : OnlyDel (RepoKeyOf r) s.md s'.md := by
    rw [e1]; exact hdb.trans (OnlyDel.del _ _ (Or.inl rfl))
  have hvmd : OnlyDel (RepoKeyOf r) s.vmd s'.vmd := by
    rw [e2]
    exact (deleteLabels_onlyDel r ls s.vmd).mono
      (fun k ⟨l, _, hk⟩ => Or.inr (Or.inr (hk ▸ labelPrefix_prefix_labelKey r l.1)))
  refine ⟨hmd, hvmd, ?_, ?_, ?_⟩
  · rw [e1]; exact get_del_same _ _
  · intro id n a hid hg
    have hmem := b2 id n a hid hg
    have hgone := deleteBundles_gone r bs s.md (fun b hb' => (b1 b hb').1)
      (fun b hb' => Or.inl (b1 b hb').2) (id, n, a) hmem
    have hd : OnlyDel (RepoKeyOf r) (deleteBundles s.md r bs) s'.md := by
      rw [e1]; exact OnlyDel.del _ _ (Or.inl rfl)
    exact Gone.onlyDel hgone hd
  · intro k hp
    cases hk : get s.vmd k with
    | none => exact hvmd.none k hk
    | some v =>
      obtain ⟨l, hl', e⟩ := l2 k (by rw [hk]; simp) hp
      rw [e2, e]
      exact deleteLabels_gone r ls s.vmd l hl'

/-- **C09_delete_exact.**  After a successful `DeleteRepo r` (`r` without `/`):
    the descriptor of `r`, the descriptor and every file list of every visible bundle of `r`
    and every key under `labels/<r>/` are gone; every key whose repository component is not
    `r` holds exactly what it held before; and no key is created or modified. -/
theorem C09_delete_exact (s s' : St) (r : Str) (hr : '/' ∉ r) (h : deleteRepo s r = (s', .ok)) :
    get s'.md (repoKey r) = none ∧
    (∀ id n a, '/' ∉ id → get s.md (bundleKey r id) = some (.bundle n a) →
      get s'.md (bundleKey r id) = none ∧ ∀ i < n, get s'.md (filesKey r id i) = none) ∧
    (∀ k, labelPrefix r <+: k → get s'.vmd k = none) ∧
    (∀ k, repoOf k ≠ some r → get s'.md k = get s.md k ∧ get s'.vmd k = get s.vmd k) ∧
    (∀ k, (get s'.md k = get s.md k ∨ get s'.md k = none) ∧
          (get s'.vmd k = get s.vmd k ∨ get s'.vmd k = none)) := by
  obtain ⟨hmd, hvmd, h1, h2, h3⟩ := deleteRepo_effect s s' r h
  refine ⟨h1, h2, h3, ?_, ?_⟩
  · intro k hk
    exact ⟨hmd.keep k (fun p => hk (p.repoOf hr)), hvmd.keep k (fun p => hk (p.repoOf hr))⟩
  · intro k
    constructor
    · rcases hmd k with e | ⟨e, _⟩
      · exact Or.inl e
      · exact Or.inr e
    · rcases hvmd k with e | ⟨e, _⟩
      · exact Or.inl e
      · exact Or.inr e


/-! ### concurrent creators -/

theorem createRepo_ok_of_fresh (s : St) (r d : Str) (a : Nat) (hv : validName r = true) (hd : d ≠ [])
    (hf : get s.md (repoKey r) = none) :
    createRepo s r d a = ({ s with md := put s.md (repoKey r) (.repo d a) }, .ok) := by
  unfold createRepo
  have h1 : (d == []) = false := by simpa using hd
  have h2 : has s.md (repoKey r) = false := (has_false_iff _ _).mpr hf
  simp [hv, h1, h2]

theorem createRepo_err_of_present (s : St) (r d : Str) (a : Nat) (hp : get s.md (repoKey r) ≠ none) :
    createRepo s r d a = (s, .err) := by
  unfold createRepo
  have h2 : has s.md (repoKey r) = true := (has_iff _ _).mpr hp
  split
  · rfl
  · simp

/-- invariant of a run of creators: `seen` is the part of the schedule already executed -/
structure InvC (r : Str) (cs : List Creator) (s0 : St) (seen : List Nat) (acc : St × List (Nat × Res)) : Prop where
  all_in : ∀ i ∈ seen, i < cs.length → i ∈ acc.2.map (·.1)
  nodup : (acc.2.map (·.1)).Nodup
  lt : ∀ i ∈ acc.2.map (·.1), i < cs.length
  shape : (acc.2 = [] ∧ acc.1 = s0 ∧ ∀ i ∈ seen, ¬ i < cs.length) ∨
    (∃ w c rest, cs[w]? = some c ∧ acc.2 = (w, .ok) :: rest ∧ (∀ p ∈ rest, p.2 = .err) ∧
      get acc.1.md (repoKey r) = some (.repo c.desc c.aux) ∧
      (∀ k, k ≠ repoKey r → get acc.1.md k = get s0.md k) ∧ acc.1.vmd = s0.vmd ∧
      seen.find? (fun i => decide (i < cs.length)) = some w)

theorem InvC.step {r : Str} {cs : List Creator} {s0 : St} {seen : List Nat} {acc : St × List (Nat × Res)}
    (hv : validName r = true) (hd : ∀ c ∈ cs, c.desc ≠ []) (hf : get s0.md (repoKey r) = none)
    (inv : InvC r cs s0 seen acc) (i : Nat) :
    InvC r cs s0 (seen ++ [i]) (stepCreate r cs acc i) := by
  unfold stepCreate
  cases hc : cs[i]? with
  | none =>
    have hge : ¬ i < cs.length := by
      intro hlt
      rw [List.getElem?_eq_getElem hlt] at hc
      cases hc
    simp only
    refine ⟨?_, inv.nodup, inv.lt, ?_⟩
    · intro j hj hjl
      rcases List.mem_append.mp hj with h | h
      · exact inv.all_in j h hjl
      · simp at h; subst h; exact absurd hjl hge
    · rcases inv.shape with ⟨e1, e2, e3⟩ | ⟨w, c, rest, h1, h2, h3, h4, h5, h6, h7⟩
      · left
        refine ⟨e1, e2, ?_⟩
        intro j hj
        rcases List.mem_append.mp hj with h | h
        · exact e3 j h
        · simp at h; subst h; exact hge
      · right
        refine ⟨w, c, rest, h1, h2, h3, h4, h5, h6, ?_⟩
        rw [List.find?_append, h7]; rfl
  | some c =>
    have hlt : i < cs.length := by
      rcases Nat.lt_or_ge i cs.length with h | h
      · exact h
      · rw [List.getElem?_eq_none h] at hc; cases hc
    have hcm : c ∈ cs := List.mem_of_getElem? hc
    simp only
    by_cases hany : acc.2.any (fun p => p.1 == i) = true
    · -- already acted
      simp only [hany, if_true]
      have himem : i ∈ acc.2.map (·.1) := by
        rw [List.any_eq_true] at hany
        obtain ⟨p, hp, e⟩ := hany
        rw [List.mem_map]
        exact ⟨p, hp, by simpa using e⟩
      refine ⟨?_, inv.nodup, inv.lt, ?_⟩
      · intro j hj hjl
        rcases List.mem_append.mp hj with h | h
        · exact inv.all_in j h hjl
        · simp at h; subst h; exact himem
      · rcases inv.shape with ⟨e1, _, _⟩ | ⟨w, c', rest, h1, h2, h3, h4, h5, h6, h7⟩
        · rw [e1] at himem; simp at himem
        · right
          refine ⟨w, c', rest, h1, h2, h3, h4, h5, h6, ?_⟩
          rw [List.find?_append, h7]; rfl
    · have hnot : i ∉ acc.2.map (·.1) := by
        intro hm
        apply hany
        rw [List.any_eq_true]
        rw [List.mem_map] at hm
        obtain ⟨p, hp, e⟩ := hm
        exact ⟨p, hp, by simpa using e⟩
      simp only [hany, Bool.false_eq_true, if_false]
      have hall : ∀ j ∈ seen ++ [i], j < cs.length →
          j ∈ (acc.2 ++ [(i, (createRepo acc.1 r c.desc c.aux).2)]).map (·.1) := by
        intro j hj hjl
        simp only [List.map_append, List.mem_append]
        rcases List.mem_append.mp hj with h | h
        · exact Or.inl (inv.all_in j h hjl)
        · simp at h; subst h; right; simp
      have hnd : ((acc.2 ++ [(i, (createRepo acc.1 r c.desc c.aux).2)]).map (·.1)).Nodup := by
        simp only [List.map_append, List.map_cons, List.map_nil]
        rw [List.nodup_append]
        refine ⟨inv.nodup, by simp, ?_⟩
        intro a ha b hb
        simp at hb; subst hb
        intro e; subst e; exact hnot ha
      have hl : ∀ j ∈ (acc.2 ++ [(i, (createRepo acc.1 r c.desc c.aux).2)]).map (·.1), j < cs.length := by
        intro j hj
        simp only [List.map_append, List.mem_append] at hj
        rcases hj with h | h
        · exact inv.lt j h
        · simp at h; subst h; exact hlt
      refine ⟨hall, hnd, hl, ?_⟩
      rcases inv.shape with ⟨e1, e2, e3⟩ | ⟨w, c', rest, h1, h2, h3, h4, h5, h6, h7⟩
      · -- the first creator to reach the store wins
        right
        have hfr : get acc.1.md (repoKey r) = none := by rw [e2]; exact hf
        rw [createRepo_ok_of_fresh acc.1 r c.desc c.aux hv (hd c hcm) hfr]
        refine ⟨i, c, [], hc, by simp [e1], by simp, by simp [get_put_same], ?_, by simp [e2], ?_⟩
        · intro k hk
          simp only
          rw [get_put_ne _ _ _ _ hk, e2]
        · rw [List.find?_append]
          have : seen.find? (fun j => decide (j < cs.length)) = none := by
            rw [List.find?_eq_none]
            intro j hj
            simpa using e3 j hj
          rw [this]
          simp [hlt]
      · -- every later one fails and changes nothing
        right
        have hpr : get acc.1.md (repoKey r) ≠ none := by rw [h4]; simp
        rw [createRepo_err_of_present acc.1 r c.desc c.aux hpr]
        refine ⟨w, c', rest ++ [(i, .err)], h1, by simp [h2], ?_, h4, h5, h6, ?_⟩
        · intro p hp
          rcases List.mem_append.mp hp with h | h
          · exact h3 p h
          · simp at h; subst h; rfl
        · rw [List.find?_append, h7]; rfl

theorem InvC.run {r : Str} {cs : List Creator} {s0 : St}
    (hv : validName r = true) (hd : ∀ c ∈ cs, c.desc ≠ []) (hf : get s0.md (repoKey r) = none) :
    ∀ (sched seen : List Nat) (acc : St × List (Nat × Res)), InvC r cs s0 seen acc →
      InvC r cs s0 (seen ++ sched) (sched.foldl (stepCreate r cs) acc) := by
  intro sched
  induction sched with
  | nil => intro seen acc inv; simpa using inv
  | cons i t ih =>
    intro seen acc inv
    have := ih (seen ++ [i]) _ (inv.step hv hd hf i)
    simpa [List.append_assoc] using this

/-- **C09_create_unique.**  Any number of creators of the same (valid, unused) name, each
    performing its one atomic put-if-absent, in ANY order of those store calls (`sched`, in which
    every creator occurs at least once): exactly one creator returns `ok` — the one whose store
    call comes first —, every other one returns `err`, every creator returns exactly once, and
    the stored descriptor is the winner's; nothing else changes. -/
theorem C09_create_unique (s : St) (r : Str) (cs : List Creator) (sched : List Nat)
    (hv : validName r = true) (hd : ∀ c ∈ cs, c.desc ≠ []) (hf : get s.md (repoKey r) = none)
    (hne : cs ≠ []) (hall : ∀ i, i < cs.length → i ∈ sched) :
    ∃ w c rest, cs[w]? = some c ∧
      sched.find? (fun i => decide (i < cs.length)) = some w ∧
      (runCreates r cs sched s).2 = (w, .ok) :: rest ∧ (∀ p ∈ rest, p.2 = .err) ∧
      ((runCreates r cs sched s).2.filter (fun p => p.2 == .ok)).length = 1 ∧
      (∀ i, i < cs.length → i ∈ (runCreates r cs sched s).2.map (·.1)) ∧
      ((runCreates r cs sched s).2.map (·.1)).Nodup ∧
      get (runCreates r cs sched s).1.md (repoKey r) = some (.repo c.desc c.aux) ∧
      (∀ k, k ≠ repoKey r → get (runCreates r cs sched s).1.md k = get s.md k) ∧
      (runCreates r cs sched s).1.vmd = s.vmd := by
  have inv0 : InvC r cs s [] (s, []) :=
    ⟨by simp, by simp, by simp, Or.inl ⟨rfl, rfl, by simp⟩⟩
  have inv := InvC.run hv hd hf sched [] (s, []) inv0
  simp only [List.nil_append] at inv
  have hrun : runCreates r cs sched s = sched.foldl (stepCreate r cs) (s, []) := rfl
  rw [hrun]
  rcases inv.shape with ⟨e1, _, e3⟩ | ⟨w, c, rest, h1, h2, h3, h4, h5, h6, h7⟩
  · exfalso
    have hpos : 0 < cs.length := List.length_pos_iff.mpr hne
    exact e3 0 (hall 0 hpos) hpos
  · refine ⟨w, c, rest, h1, h7, h2, h3, ?_, fun i hi => inv.all_in i (hall i hi) hi, inv.nodup, h4, h5, h6⟩
    rw [h2]
    have : rest.filter (fun p => p.2 == Res.ok) = [] := by
      rw [List.filter_eq_nil_iff]
      intro p hp
      rw [h3 p hp]; decide
    simp [this]

/-- when the name is already taken nobody wins and nothing changes -/
theorem C09_create_taken (s : St) (r : Str) (cs : List Creator) (sched : List Nat)
    (hp : get s.md (repoKey r) ≠ none) :
    (runCreates r cs sched s).1 = s ∧ ∀ p ∈ (runCreates r cs sched s).2, p.2 = .err := by
  have key : ∀ (sched : List Nat) (acc : St × List (Nat × Res)), acc.1 = s → (∀ p ∈ acc.2, p.2 = .err) →
      (sched.foldl (stepCreate r cs) acc).1 = s ∧ ∀ p ∈ (sched.foldl (stepCreate r cs) acc).2, p.2 = .err := by
    intro sched
    induction sched with
    | nil => intro acc h1 h2; exact ⟨h1, h2⟩
    | cons i t ih =>
      intro acc h1 h2
      simp only [List.foldl_cons]
      apply ih
      · unfold stepCreate
        split
        · exact h1
        · split
          · exact h1
          · rw [createRepo_err_of_present _ _ _ _ (by rw [h1]; exact hp)]; exact h1
      · unfold stepCreate
        split
        · exact h2
        · split
          · exact h2
          · rw [createRepo_err_of_present _ _ _ _ (by rw [h1]; exact hp)]
            intro p hp'
            rcases List.mem_append.mp hp' with h | h
            · exact h2 p h
            · simp at h; subst h; rfl
  exact key sched (s, []) rfl (by simp)

/-- a successful `CreateRepo` only ever creates names without `/` -/
theorem validName_noSlash (r : Str) (h : validName r = true) : '/' ∉ r := by
  unfold validName at h
  simp only [Bool.and_eq_true, List.all_eq_true] at h
  intro hm
  have := h.2 '/' hm
  revert this
  decide


/-! ### DeleteEntriesFromRepo -/

/-- a file list without the given paths; any other value unchanged -/
def pruneOpt (paths : List Str) : Option Val → Option Val
  | some (.files es) => some (.files (es.filter (keepEntry paths)))
  | x => x

theorem pruneOpt_idem (paths : List Str) (x : Option Val) :
    pruneOpt paths (pruneOpt paths x) = pruneOpt paths x := by
  cases x with
  | none => rfl
  | some v => cases v <;> simp [pruneOpt, List.filter_filter]

/-- `m'` is `m` with some file lists under keys satisfying `P` pruned -/
def Pruned (paths : List Str) (P : Str → Prop) (m m' : Store) : Prop :=
  ∀ k, get m' k = get m k ∨ (P k ∧ get m' k = pruneOpt paths (get m k))

theorem Pruned.refl (paths : List Str) (P : Str → Prop) (m : Store) : Pruned paths P m m :=
  fun _ => Or.inl rfl

theorem Pruned.trans {paths : List Str} {P : Str → Prop} {m m1 m2 : Store}
    (h1 : Pruned paths P m m1) (h2 : Pruned paths P m1 m2) : Pruned paths P m m2 := by
  intro k
  rcases h2 k with e2 | ⟨p2, e2⟩
  · rcases h1 k with e1 | ⟨p1, e1⟩
    · exact Or.inl (e2.trans e1)
    · exact Or.inr ⟨p1, e2.trans e1⟩
  · rcases h1 k with e1 | ⟨_, e1⟩
    · exact Or.inr ⟨p2, by rw [e2, e1]⟩
    · exact Or.inr ⟨p2, by rw [e2, e1, pruneOpt_idem]⟩

theorem Pruned.mono {paths : List Str} {P Q : Str → Prop} {m m' : Store} (h : Pruned paths P m m')
    (hpq : ∀ k, P k → Q k) : Pruned paths Q m m' := by
  intro k
  rcases h k with e | ⟨p, e⟩
  · exact Or.inl e
  · exact Or.inr ⟨hpq k p, e⟩

/-- a key already pruned stays pruned -/
theorem Pruned.done {paths : List Str} {P : Str → Prop} {m m1 m2 : Store} (h2 : Pruned paths P m1 m2)
    (k : Str) (hk : get m1 k = pruneOpt paths (get m k)) : get m2 k = pruneOpt paths (get m k) := by
  rcases h2 k with e | ⟨_, e⟩
  · rw [e, hk]
  · rw [e, hk, pruneOpt_idem]

/-- being a file list is not affected by pruning -/
theorem Pruned.files_back {paths : List Str} {P : Str → Prop} {m m1 : Store} (h : Pruned paths P m m1)
    (k : Str) (es1 : List (Str × Nat)) (hk : get m1 k = some (.files es1)) :
    ∃ es, get m k = some (.files es) := by
  rcases h k with e | ⟨_, e⟩
  · exact ⟨es1, by rw [← e, hk]⟩
  · rw [hk] at e
    cases hg : get m k with
    | none => rw [hg] at e; simp [pruneOpt] at e
    | some v =>
      cases v with
      | files es => exact ⟨es, rfl⟩
      | repo _ _ => rw [hg] at e; simp [pruneOpt] at e
      | bundle _ _ => rw [hg] at e; simp [pruneOpt] at e
      | label _ _ => rw [hg] at e; simp [pruneOpt] at e
      | junk _ => rw [hg] at e; simp [pruneOpt] at e

theorem filter_keep_of_all (paths : List Str) (es : List (Str × Nat)) (h : es.all (keepEntry paths) = true) :
    es.filter (keepEntry paths) = es := by
  rw [List.filter_eq_self]
  intro a ha
  rw [List.all_eq_true] at h
  exact h a ha

theorem pruneFiles_spec (r id : Str) (paths : List Str) (m : Store) :
    ∀ (n : Nat) (m' : Store), pruneFiles m r id paths n = some m' →
      Pruned paths (fun k => ∃ i, i < n ∧ k = filesKey r id i) m m' ∧
      ∀ i, i < n → (∃ es, get m (filesKey r id i) = some (.files es)) ∧
        get m' (filesKey r id i) = pruneOpt paths (get m (filesKey r id i)) := by
  intro n
  induction n with
  | zero =>
    intro m' h
    simp only [pruneFiles, Option.some.injEq] at h
    subst h
    exact ⟨Pruned.refl _ _ _, fun i hi => by omega⟩
  | succ n ih =>
    intro m' h
    simp only [pruneFiles] at h
    cases h1 : pruneFiles m r id paths n with
    | none => simp [h1] at h
    | some m1 =>
      simp only [h1] at h
      obtain ⟨p1, c1⟩ := ih m1 h1
      have p1' : Pruned paths (fun k => ∃ i, i < n + 1 ∧ k = filesKey r id i) m m1 :=
        p1.mono (fun k ⟨i, hi, e⟩ => ⟨i, by omega, e⟩)
      cases hg : get m1 (filesKey r id n) with
      | none => simp [hg] at h
      | some v =>
        cases v with
        | files es1 =>
          simp only [hg] at h
          -- the step from m1 to m'
          have hstep : Pruned paths (fun k => ∃ i, i < n + 1 ∧ k = filesKey r id i) m1 m' ∧
              get m' (filesKey r id n) = pruneOpt paths (get m1 (filesKey r id n)) := by
            by_cases hall : es1.all (keepEntry paths) = true
            · simp only [hall, if_true, Option.some.injEq] at h
              subst h
              refine ⟨Pruned.refl _ _ _, ?_⟩
              rw [hg]; simp [pruneOpt, filter_keep_of_all paths es1 hall]
            · simp only [hall, Bool.false_eq_true, if_false, Option.some.injEq] at h
              subst h
              constructor
              · intro k
                by_cases hk : k = filesKey r id n
                · right
                  refine ⟨⟨n, by omega, hk⟩, ?_⟩
                  rw [hk, get_put_same, hg]; rfl
                · left; exact get_put_ne _ _ _ _ hk
              · rw [get_put_same, hg]; rfl
          obtain ⟨p2, c2⟩ := hstep
          refine ⟨p1'.trans p2, ?_⟩
          intro i hi
          rcases Nat.lt_succ_iff_lt_or_eq.mp hi with hlt | heq
          · exact ⟨(c1 i hlt).1, p2.done _ (c1 i hlt).2⟩
          · subst heq
            refine ⟨p1.files_back _ es1 hg, ?_⟩
            rw [c2]
            rcases p1 (filesKey r id i) with e | ⟨_, e⟩
            · rw [e]
            · rw [e, pruneOpt_idem]
        | repo _ _ => simp [hg] at h
        | bundle _ _ => simp [hg] at h
        | label _ _ => simp [hg] at h
        | junk _ => simp [hg] at h

/-- the file-list keys of the listed bundles -/
def FilesOf (r : Str) (bs : List (Str × Nat × Nat)) (k : Str) : Prop :=
  ∃ b ∈ bs, ∃ i, i < b.2.1 ∧ k = filesKey r b.1 i

theorem pruneBundles_spec (r : Str) (paths : List Str) :
    ∀ (bs : List (Str × Nat × Nat)) (m m' : Store), pruneBundles m r paths bs = some m' →
      Pruned paths (FilesOf r bs) m m' ∧
      ∀ b ∈ bs, ∀ i, i < b.2.1 → (∃ es, get m (filesKey r b.1 i) = some (.files es)) ∧
        get m' (filesKey r b.1 i) = pruneOpt paths (get m (filesKey r b.1 i)) := by
  intro bs
  induction bs with
  | nil =>
    intro m m' h
    simp only [pruneBundles, Option.some.injEq] at h
    subst h
    exact ⟨Pruned.refl _ _ _, fun b hb => by cases hb⟩
  | cons b0 t ih =>
    intro m m' h
    simp only [pruneBundles] at h
    cases h1 : pruneFiles m r b0.1 paths b0.2.1 with
    | none => simp [h1] at h
    | some m1 =>
      simp only [h1] at h
      obtain ⟨p1, c1⟩ := pruneFiles_spec r b0.1 paths m b0.2.1 m1 h1
      obtain ⟨p2, c2⟩ := ih m1 m' h
      have p1' : Pruned paths (FilesOf r (b0 :: t)) m m1 :=
        p1.mono (fun k ⟨i, hi, e⟩ => ⟨b0, List.mem_cons_self, i, hi, e⟩)
      have p2' : Pruned paths (FilesOf r (b0 :: t)) m1 m' :=
        p2.mono (fun k ⟨b, hb, i, hi, e⟩ => ⟨b, List.mem_cons_of_mem _ hb, i, hi, e⟩)
      refine ⟨p1'.trans p2', ?_⟩
      intro b hb i hi
      rcases List.mem_cons.mp hb with e | hb'
      · subst e
        exact ⟨(c1 i hi).1, p2.done _ (c1 i hi).2⟩
      · obtain ⟨⟨es1, he1⟩, c⟩ := c2 b hb' i hi
        refine ⟨p1.files_back _ es1 he1, ?_⟩
        rw [c]
        rcases p1 (filesKey r b.1 i) with e | ⟨_, e⟩
        · rw [e]
        · rw [e, pruneOpt_idem]

/-- **C09_deleteEntries_exact.**  After a successful `DeleteEntriesFromRepo r paths`:
    every file list of every visible bundle of `r` holds its former entries, in their former
    order, minus those whose path is in `paths`; every other key of the metadata store — and
    in particular (for `r` without `/`) every key whose repository component is not `r` — holds
    exactly what it held before; the label store is untouched. -/
theorem C09_deleteEntries_exact (s s' : St) (r : Str) (paths : List Str)
    (h : deleteEntries s r paths = (s', .ok)) :
    s'.vmd = s.vmd ∧
    (∀ id n a, '/' ∉ id → get s.md (bundleKey r id) = some (.bundle n a) → ∀ i, i < n →
      ∃ es, get s.md (filesKey r id i) = some (.files es) ∧
        get s'.md (filesKey r id i) = some (.files (es.filter (fun e => !paths.contains e.1)))) ∧
    (∀ k, get s'.md k = get s.md k ∨
      ∃ id n a i es, '/' ∉ id ∧ get s.md (bundleKey r id) = some (.bundle n a) ∧ i < n ∧
        k = filesKey r id i ∧ get s.md k = some (.files es) ∧
        get s'.md k = some (.files (es.filter (fun e => !paths.contains e.1)))) ∧
    ('/' ∉ r → ∀ k, repoOf k ≠ some r → get s'.md k = get s.md k) := by
  unfold deleteEntries at h
  by_cases he : repoExists s r = true
  · simp only [he, Bool.not_true] at h
    cases hb : listBundles s.md r with
    | none => simp [hb] at h
    | some bs =>
      simp only [hb] at h
      cases hp : pruneBundles s.md r paths bs with
      | none => simp [hp] at h
      | some m1 =>
        simp only [hp] at h
        have hs : s' = { s with md := m1 } := by
          have := congrArg Prod.fst h; simpa using this.symm
        subst hs
        obtain ⟨b1, b2⟩ := listBundles_spec s.md r bs hb
        obtain ⟨pr, cp⟩ := pruneBundles_spec r paths bs s.md m1 hp
        have hchg : ∀ k, get m1 k = get s.md k ∨
            ∃ id n a i es, '/' ∉ id ∧ get s.md (bundleKey r id) = some (.bundle n a) ∧ i < n ∧
              k = filesKey r id i ∧ get s.md k = some (.files es) ∧
              get m1 k = some (.files (es.filter (fun e => !paths.contains e.1))) := by
          intro k
          rcases pr k with e | ⟨⟨b, hbm, i, hi, ek⟩, e⟩
          · exact Or.inl e
          · obtain ⟨⟨es, hes⟩, _⟩ := cp b hbm i hi
            right
            refine ⟨b.1, b.2.1, b.2.2, i, es, (b1 b hbm).1, (b1 b hbm).2, hi, ek, ek ▸ hes, ?_⟩
            rw [e, ek, hes]; rfl
        refine ⟨rfl, ?_, hchg, ?_⟩
        · intro id n a hid hg i hi
          obtain ⟨⟨es, hes⟩, c⟩ := cp (id, n, a) (b2 id n a hid hg) i hi
          exact ⟨es, hes, by rw [c, hes]; rfl⟩
        · intro hr k hk
          rcases hchg k with e | ⟨id, n, a, i, es, _, _, _, ek, _, _⟩
          · exact e
          · exact absurd (ek ▸ repoOf_filesKey r id i hr) hk
  · simp [he] at h

/-- what "minus the given paths" means: a sub-list (same order) with exactly the entries whose
    path is not listed -/
theorem C09_pruned_entries (paths : List Str) (es : List (Str × Nat)) :
    (es.filter (fun e => !paths.contains e.1)).Sublist es ∧
    ∀ e, e ∈ es.filter (fun e => !paths.contains e.1) ↔ e ∈ es ∧ e.1 ∉ paths := by
  refine ⟨List.filter_sublist, ?_⟩
  intro e
  simp [List.mem_filter]


/-! ### RenameRepo -/

/-- `m'` is `m` plus some keys satisfying `P` that were absent from `m` -/
def Added (P : Str → Prop) (m m' : Store) : Prop :=
  ∀ k, get m' k = get m k ∨ (get m k = none ∧ P k)

theorem Added.refl (P : Str → Prop) (m : Store) : Added P m m := fun _ => Or.inl rfl

theorem Added.trans {P : Str → Prop} {m m1 m2 : Store} (h1 : Added P m m1) (h2 : Added P m1 m2) :
    Added P m m2 := by
  intro k
  rcases h2 k with e2 | ⟨e2, p2⟩
  · rcases h1 k with e1 | ⟨e1, p1⟩
    · exact Or.inl (e2.trans e1)
    · exact Or.inr ⟨e1, p1⟩
  · rcases h1 k with e1 | ⟨e1, _⟩
    · exact Or.inr ⟨e1 ▸ e2, p2⟩
    · exact Or.inr ⟨e1, p2⟩

theorem Added.mono {P Q : Str → Prop} {m m' : Store} (h : Added P m m') (hpq : ∀ k, P k → Q k) :
    Added Q m m' := by
  intro k
  rcases h k with e | ⟨e, p⟩
  · exact Or.inl e
  · exact Or.inr ⟨e, hpq k p⟩

theorem Added.present {P : Str → Prop} {m m' : Store} (h : Added P m m') (k : Str)
    (hk : get m k ≠ none) : get m' k = get m k := by
  rcases h k with e | ⟨e, _⟩
  · exact e
  · exact absurd e hk

theorem Added.keep {P : Str → Prop} {m m' : Store} (h : Added P m m') (k : Str) (hk : ¬ P k) :
    get m' k = get m k := by
  rcases h k with e | ⟨_, p⟩
  · exact e
  · exact absurd p hk

theorem Added.put {P : Str → Prop} (m : Store) (k : Str) (v : Val) (ha : get m k = none) (hp : P k) :
    Added P m (put m k v) := by
  intro k'
  by_cases h : k' = k
  · subst h; exact Or.inr ⟨ha, hp⟩
  · exact Or.inl (get_put_ne _ _ _ _ h)

/-- the keys of one bundle with `n` file lists under repository `r` -/
def BundleKeysOf (r id : Str) (n : Nat) (k : Str) : Prop :=
  k = bundleKey r id ∨ ∃ i, i < n ∧ k = filesKey r id i

theorem BundleKeysOf.repoOf {r id : Str} {n : Nat} {k : Str} (hr : '/' ∉ r) (h : BundleKeysOf r id n k) :
    repoOf k = some r := by
  rcases h with h | ⟨i, _, h⟩
  · rw [h]; exact repoOf_bundleKey r id hr
  · rw [h]; exact repoOf_filesKey r id i hr

theorem labelKey_inj (r n1 n2 : Str) (h : labelKey r n1 = labelKey r n2) : n1 = n2 := by
  unfold labelKey at h
  have h1 := List.append_cancel_left h
  have : n1 ++ ('/' :: sLabelFile) = n2 ++ ('/' :: sLabelFile) := h1
  exact List.append_cancel_right this

theorem copyFiles_spec (r r' id : Str) (hr : '/' ∉ r) (hr' : '/' ∉ r') (hne : r ≠ r') (m : Store) :
    ∀ (n : Nat) (m' : Store), copyFiles m r r' id n = some m' →
      Added (fun k => ∃ i, i < n ∧ k = filesKey r' id i) m m' ∧
      ∀ i, i < n → get m (filesKey r id i) ≠ none ∧
        get m' (filesKey r' id i) = get m (filesKey r id i) := by
  intro n
  induction n with
  | zero =>
    intro m' h
    simp only [copyFiles, Option.some.injEq] at h
    subst h
    exact ⟨Added.refl _ _, fun i hi => by omega⟩
  | succ n ih =>
    intro m' h
    simp only [copyFiles] at h
    cases h1 : copyFiles m r r' id n with
    | none => simp [h1] at h
    | some m1 =>
      simp only [h1] at h
      obtain ⟨a1, c1⟩ := ih m1 h1
      cases hg : get m1 (filesKey r id n) with
      | none => simp [hg] at h
      | some v =>
        simp only [hg] at h
        by_cases hh : has m1 (filesKey r' id n) = true
        · simp [hh] at h
        · simp only [hh, Bool.false_eq_true, if_false, Option.some.injEq] at h
          subst h
          have hab : get m1 (filesKey r' id n) = none := by
            rw [← has_false_iff]; simpa using hh
          -- the source key is not one of the copies
          have hsrc : get m1 (filesKey r id n) = get m (filesKey r id n) := by
            apply a1.keep
            rintro ⟨i, _, e⟩
            have e1 := repoOf_filesKey r id n hr
            rw [e, repoOf_filesKey r' id i hr'] at e1
            injection e1 with e1
            exact hne e1.symm
          have a2 : Added (fun k => ∃ i, i < n + 1 ∧ k = filesKey r' id i) m1
              (put m1 (filesKey r' id n) v) :=
            Added.put m1 _ v hab ⟨n, by omega, rfl⟩
          refine ⟨(a1.mono (fun k ⟨i, hi, e⟩ => ⟨i, by omega, e⟩)).trans a2, ?_⟩
          intro i hi
          rcases Nat.lt_succ_iff_lt_or_eq.mp hi with hlt | heq
          · obtain ⟨s1, s2⟩ := c1 i hlt
            refine ⟨s1, ?_⟩
            rw [← s2]
            exact a2.present _ (by rw [s2]; exact s1)
          · subst heq
            refine ⟨by rw [← hsrc, hg]; simp, ?_⟩
            rw [get_put_same, ← hsrc, hg]

theorem copyBundle_spec (r r' : Str) (hr : '/' ∉ r) (hr' : '/' ∉ r') (hne : r ≠ r') (m m' : Store)
    (b : Str × Nat × Nat) (h : copyBundle m r r' b = some m') :
    Added (BundleKeysOf r' b.1 b.2.1) m m' ∧
    get m' (bundleKey r' b.1) = some (.bundle b.2.1 b.2.2) ∧
    ∀ i, i < b.2.1 → get m (filesKey r b.1 i) ≠ none ∧
      get m' (filesKey r' b.1 i) = get m (filesKey r b.1 i) := by
  unfold copyBundle at h
  by_cases hh : has m (bundleKey r' b.1) = true
  · simp [hh] at h
  · simp only [hh, Bool.false_eq_true, if_false] at h
    have hab : get m (bundleKey r' b.1) = none := by
      rw [← has_false_iff]; simpa using hh
    obtain ⟨a1, c1⟩ := copyFiles_spec r r' b.1 hr hr' hne _ b.2.1 m' h
    have a0 : Added (BundleKeysOf r' b.1 b.2.1) m (put m (bundleKey r' b.1) (.bundle b.2.1 b.2.2)) :=
      Added.put m _ _ hab (Or.inl rfl)
    refine ⟨a0.trans (a1.mono (fun k hk => Or.inr hk)), ?_, ?_⟩
    · rw [a1.present _ (by rw [get_put_same]; simp), get_put_same]
    · intro i hi
      have hsrc : get (put m (bundleKey r' b.1) (.bundle b.2.1 b.2.2)) (filesKey r b.1 i) =
          get m (filesKey r b.1 i) := by
        apply get_put_ne
        intro e
        have e1 := repoOf_filesKey r b.1 i hr
        rw [e, repoOf_bundleKey r' b.1 hr'] at e1
        injection e1 with e1
        exact hne e1.symm
      obtain ⟨s1, s2⟩ := c1 i hi
      exact ⟨hsrc ▸ s1, s2.trans hsrc⟩

/-- the keys of the listed bundles under repository `r` -/
def BundlesKeysOf (r : Str) (bs : List (Str × Nat × Nat)) (k : Str) : Prop :=
  ∃ b ∈ bs, BundleKeysOf r b.1 b.2.1 k

theorem copyBundles_spec (r r' : Str) (hr : '/' ∉ r) (hr' : '/' ∉ r') (hne : r ≠ r') :
    ∀ (bs : List (Str × Nat × Nat)) (m m' : Store), copyBundles m r r' bs = some m' →
      Added (BundlesKeysOf r' bs) m m' ∧
      ∀ b ∈ bs, get m' (bundleKey r' b.1) = some (.bundle b.2.1 b.2.2) ∧
        ∀ i, i < b.2.1 → get m (filesKey r b.1 i) ≠ none ∧
          get m' (filesKey r' b.1 i) = get m (filesKey r b.1 i) := by
  intro bs
  induction bs with
  | nil =>
    intro m m' h
    simp only [copyBundles, Option.some.injEq] at h
    subst h
    exact ⟨Added.refl _ _, fun b hb => by cases hb⟩
  | cons b0 t ih =>
    intro m m' h
    simp only [copyBundles] at h
    cases h1 : copyBundle m r r' b0 with
    | none => simp [h1] at h
    | some m1 =>
      simp only [h1] at h
      obtain ⟨a1, d1, c1⟩ := copyBundle_spec r r' hr hr' hne m m1 b0 h1
      obtain ⟨a2, c2⟩ := ih m1 m' h
      have a1' : Added (BundlesKeysOf r' (b0 :: t)) m m1 :=
        a1.mono (fun k hk => ⟨b0, List.mem_cons_self, hk⟩)
      have a2' : Added (BundlesKeysOf r' (b0 :: t)) m1 m' :=
        a2.mono (fun k ⟨b, hb, hk⟩ => ⟨b, List.mem_cons_of_mem _ hb, hk⟩)
      refine ⟨a1'.trans a2', ?_⟩
      -- keys of the old repository are not touched by the step for b0
      have hold : ∀ k, repoOf k = some r → get m1 k = get m k := by
        intro k hk
        apply a1.keep
        intro hp
        rw [hp.repoOf hr'] at hk
        injection hk with hk
        exact hne hk.symm
      intro b hb
      rcases List.mem_cons.mp hb with e | hb'
      · subst e
        refine ⟨by rw [a2.present _ (by rw [d1]; simp), d1], ?_⟩
        intro i hi
        obtain ⟨s1, s2⟩ := c1 i hi
        refine ⟨s1, ?_⟩
        rw [a2.present _ (by rw [s2]; exact s1), s2]
      · obtain ⟨d2, c2'⟩ := c2 b hb'
        refine ⟨d2, ?_⟩
        intro i hi
        obtain ⟨s1, s2⟩ := c2' i hi
        have e := hold (filesKey r b.1 i) (repoOf_filesKey r b.1 i hr)
        exact ⟨e ▸ s1, s2.trans e⟩

/-- `v'` is `v` with the listed labels written under repository `r'` -/
theorem copyLabels_touched (r' : Str) :
    ∀ (ls : List (Str × Str × Nat)) (v : Store) (k : Str),
      get (copyLabels v r' ls) k = get v k ∨
      ∃ l ∈ ls, k = labelKey r' l.1 ∧ get (copyLabels v r' ls) k = some (.label l.2.1 l.2.2) := by
  intro ls
  induction ls with
  | nil => intro v k; exact Or.inl rfl
  | cons l0 t ih =>
    intro v k
    simp only [copyLabels, List.foldl_cons]
    rcases ih (put v (labelKey r' l0.1) (.label l0.2.1 l0.2.2)) k with e | ⟨l, hl, e1, e2⟩
    · by_cases hk : k = labelKey r' l0.1
      · right
        refine ⟨l0, List.mem_cons_self, hk, ?_⟩
        have e' := e
        simp only [copyLabels] at e'
        rw [e', hk, get_put_same]
      · left
        have e' := e
        simp only [copyLabels] at e'
        rw [e', get_put_ne _ _ _ _ hk]
    · exact Or.inr ⟨l, List.mem_cons_of_mem _ hl, e1, e2⟩

theorem copyLabels_written (r' : Str) :
    ∀ (ls : List (Str × Str × Nat)) (v : Store), ∀ l ∈ ls,
      ∃ l2 ∈ ls, l2.1 = l.1 ∧ get (copyLabels v r' ls) (labelKey r' l.1) = some (.label l2.2.1 l2.2.2) := by
  intro ls
  induction ls with
  | nil => intro v l hl; cases hl
  | cons l0 t ih =>
    intro v l hl
    rcases List.mem_cons.mp hl with e | hl'
    · subst e
      have hc : copyLabels v r' (l :: t) = copyLabels (put v (labelKey r' l.1) (.label l.2.1 l.2.2)) r' t := rfl
      rw [hc]
      rcases copyLabels_touched r' t (put v (labelKey r' l.1) (.label l.2.1 l.2.2)) (labelKey r' l.1) with e | ⟨l2, hl2, e1, e2⟩
      · exact ⟨l, List.mem_cons_self, rfl, by rw [e, get_put_same]⟩
      · exact ⟨l2, List.mem_cons_of_mem _ hl2, (labelKey_inj r' _ _ e1).symm, e2⟩
    · obtain ⟨l2, hl2, e1, e2⟩ := ih (put v (labelKey r' l0.1) (.label l0.2.1 l0.2.2)) l hl'
      exact ⟨l2, List.mem_cons_of_mem _ hl2, e1, e2⟩

theorem createRepo_ok (s s1 : St) (r d : Str) (a : Nat) (h : createRepo s r d a = (s1, .ok)) :
    validName r = true ∧ get s.md (repoKey r) = none ∧
    s1 = { s with md := put s.md (repoKey r) (.repo d a) } := by
  unfold createRepo at h
  split at h
  · cases h
  · split at h
    · cases h
    · rename_i h1 h2
      refine ⟨?_, ?_, ?_⟩
      · simp only [Bool.or_eq_true, Bool.not_eq_true', not_or] at h1
        simpa using h1.1
      · rw [← has_false_iff]; simpa using h2
      · have := congrArg Prod.fst h; simpa using this.symm

/-- what a successful rename establishes -/
structure RenameExact (s s' : St) (r r' : Str) : Prop where
  /-- the new name is a valid repository name, different from the old one -/
  new_valid : validName r' = true ∧ r ≠ r'
  /-- the repository descriptor moved (same description and other fields) -/
  descriptor : ∃ d a, get s.md (repoKey r) = some (.repo d a) ∧ get s'.md (repoKey r') = some (.repo d a)
  /-- every visible bundle is under the new name with the same id, the same descriptor and the same file lists -/
  bundles : ∀ id n a, '/' ∉ id → get s.md (bundleKey r id) = some (.bundle n a) →
    get s'.md (bundleKey r' id) = some (.bundle n a) ∧
    ∀ i, i < n → get s.md (filesKey r id i) ≠ none ∧ get s'.md (filesKey r' id i) = get s.md (filesKey r id i)
  /-- every label is under the new name with the same content, and no other label is -/
  labels : ∀ name, get s'.vmd (labelKey r' name) = get s.vmd (labelKey r name)
  /-- the new name holds nothing else (metadata store) -/
  only_md : ∀ k, repoOf k = some r' → get s'.md k ≠ none →
    k = repoKey r' ∨ ∃ id n a, '/' ∉ id ∧ get s.md (bundleKey r id) = some (.bundle n a) ∧
      (k = bundleKey r' id ∨ ∃ i, i < n ∧ k = filesKey r' id i)
  /-- the new name holds nothing else (label store) -/
  only_vmd : ∀ k, repoOf k = some r' → get s'.vmd k ≠ none →
    ∃ name, k = labelKey r' name ∧ get s.vmd (labelKey r name) ≠ none
  /-- the old name is removed: descriptor, visible bundles with their file lists, labels -/
  old_descriptor : get s'.md (repoKey r) = none
  old_bundles : ∀ id n a, '/' ∉ id → get s.md (bundleKey r id) = some (.bundle n a) →
    get s'.md (bundleKey r id) = none ∧ ∀ i, i < n → get s'.md (filesKey r id i) = none
  old_labels : ∀ k, labelPrefix r <+: k → get s'.vmd k = none
  /-- every key of any other repository is untouched -/
  frame : ∀ k, repoOf k ≠ some r → repoOf k ≠ some r' →
    get s'.md k = get s.md k ∧ get s'.vmd k = get s.vmd k

theorem renameRepo_unfold (s s' : St) (r r' : Str) (h : renameRepo s r r' = (s', .ok)) :
    ∃ d a s1 bs m2 ls, get s.md (repoKey r) = some (.repo d a) ∧ get s.md (repoKey r') = none ∧
      createRepo s r' d a = (s1, .ok) ∧ listBundles s1.md r = some bs ∧
      copyBundles s1.md r r' bs = some m2 ∧ listLabels s1.vmd r = some ls ∧
      deleteRepo { md := m2, vmd := copyLabels s1.vmd r' ls } r = (s', .ok) := by
  unfold renameRepo at h
  by_cases he : repoExists s r = true
  · simp only [he, Bool.not_true, Bool.false_eq_true, if_false] at h
    by_cases hn : repoExists s r' = true
    · simp [hn] at h
    · simp only [hn, Bool.false_eq_true, if_false] at h
      have hn' : get s.md (repoKey r') = none := by
        rw [← has_false_iff]; simpa [repoExists] using hn
      cases hg : get s.md (repoKey r) with
      | none => simp [hg] at h
      | some v =>
        cases v with
        | repo d a =>
          simp only [hg] at h
          cases hc : createRepo s r' d a with
          | mk s1 res =>
            cases res with
            | err => simp [hc] at h
            | ok =>
              simp only [hc] at h
              cases hb : listBundles s1.md r with
              | none => simp [hb] at h
              | some bs =>
                simp only [hb] at h
                cases hcb : copyBundles s1.md r r' bs with
                | none => simp [hcb] at h
                | some m2 =>
                  simp only [hcb] at h
                  cases hl : listLabels s1.vmd r with
                  | none => simp [hl] at h
                  | some ls =>
                    simp only [hl] at h
                    exact ⟨d, a, s1, bs, m2, ls, rfl, hn', hc, hb, hcb, hl, h⟩
        | bundle _ _ => simp [hg] at h
        | files _ => simp [hg] at h
        | label _ _ => simp [hg] at h
        | junk _ => simp [hg] at h
  · simp [he] at h


/-- **C09_rename_exact.**  A successful `RenameRepo r r'` (`r` without `/`, nothing stored
    under the new name beforehand) moves the descriptor, every visible bundle (same id, same
    descriptor, same file lists) and every label to `r'`, leaves nothing else under `r'`,
    removes `r` (as `C09_delete_exact`) and touches no key of any other repository. -/
theorem C09_rename_exact (s s' : St) (r r' : Str) (hr : '/' ∉ r)
    (hfresh : ∀ k, repoOf k = some r' → get s.md k = none ∧ get s.vmd k = none)
    (h : renameRepo s r r' = (s', .ok)) : RenameExact s s' r r' := by
  obtain ⟨d, a, s1, bs, m2, ls, hd, hn, hc, hb, hcb, hl, hdel⟩ := renameRepo_unfold s s' r r' h
  obtain ⟨hv, _, hs1⟩ := createRepo_ok s s1 r' d a hc
  have hr' : '/' ∉ r' := validName_noSlash r' hv
  have hne : r ≠ r' := by
    intro e; subst e; rw [hd] at hn; cases hn
  have hne' : some r ≠ some r' := fun e => hne (by injection e)
  subst hs1
  simp only at hb hcb hl hdel
  -- store after CreateRepo
  have f1 : ∀ k, k ≠ repoKey r' → get (put s.md (repoKey r') (.repo d a)) k = get s.md k :=
    fun k hk => get_put_ne _ _ _ _ hk
  have f1' : ∀ k, repoOf k ≠ some r' → get (put s.md (repoKey r') (.repo d a)) k = get s.md k := by
    intro k hk
    apply f1
    intro e
    exact hk (e ▸ repoOf_repoKey r' hr')
  -- listings
  obtain ⟨b1, b2⟩ := listBundles_spec _ r bs hb
  obtain ⟨l1, l2⟩ := listLabels_spec s.vmd r ls hl
  -- copies
  obtain ⟨ca, cc⟩ := copyBundles_spec r r' hr hr' hne bs _ m2 hcb
  have f2 : ∀ k, repoOf k ≠ some r' → get m2 k = get s.md k := by
    intro k hk
    rw [ca.keep k (fun ⟨b, _, hp⟩ => hk (hp.repoOf hr')), f1' k hk]
  have f3 : ∀ k, repoOf k ≠ some r' → get (copyLabels s.vmd r' ls) k = get s.vmd k := by
    intro k hk
    rcases copyLabels_touched r' ls s.vmd k with e | ⟨l, _, e, _⟩
    · exact e
    · exact absurd (e ▸ repoOf_labelKey r' l.1 hr') hk
  -- the final DeleteRepo
  obtain ⟨dm, dv, g1, g2, g3⟩ := deleteRepo_effect _ s' r hdel
  simp only at dm dv g2
  have k1 : ∀ k, repoOf k = some r' → get s'.md k = get m2 k := by
    intro k hk
    apply dm.keep
    intro p
    rw [p.repoOf hr] at hk
    exact hne' hk
  have k2 : ∀ k, repoOf k = some r' → get s'.vmd k = get (copyLabels s.vmd r' ls) k := by
    intro k hk
    apply dv.keep
    intro p
    rw [p.repoOf hr] at hk
    exact hne' hk
  -- a visible bundle of r in s is listed
  have vis : ∀ id n a', '/' ∉ id → get s.md (bundleKey r id) = some (.bundle n a') → (id, n, a') ∈ bs := by
    intro id n a' hid hg
    apply b2 id n a' hid
    rw [f1' _ (by rw [repoOf_bundleKey r id hr]; exact hne'), hg]
  have oldf : ∀ id i, get (put s.md (repoKey r') (.repo d a)) (filesKey r id i) = get s.md (filesKey r id i) :=
    fun id i => f1' _ (by rw [repoOf_filesKey r id i hr]; exact hne')
  refine
    { new_valid := ⟨hv, hne⟩
      descriptor := ?_
      bundles := ?_
      labels := ?_
      only_md := ?_
      only_vmd := ?_
      old_descriptor := g1
      old_bundles := ?_
      old_labels := g3
      frame := ?_ }
  · -- descriptor
    refine ⟨d, a, hd, ?_⟩
    rw [k1 _ (repoOf_repoKey r' hr'), ca.present _ (by rw [get_put_same]; simp), get_put_same]
  · -- bundles
    intro id n a' hid hg
    obtain ⟨c1, c2⟩ := cc (id, n, a') (vis id n a' hid hg)
    refine ⟨by rw [k1 _ (repoOf_bundleKey r' id hr')]; exact c1, ?_⟩
    intro i hi
    obtain ⟨s1, s2⟩ := c2 i hi
    simp only at s1 s2
    rw [oldf] at s1 s2
    exact ⟨s1, by rw [k1 _ (repoOf_filesKey r' id i hr')]; exact s2⟩
  · -- labels
    intro name
    rw [k2 _ (repoOf_labelKey r' name hr')]
    cases hg : get s.vmd (labelKey r name) with
    | some v =>
      obtain ⟨l, hlm, e⟩ := l2 _ (by rw [hg]; simp) (labelPrefix_prefix_labelKey r name)
      have en : name = l.1 := labelKey_inj r _ _ e
      subst en
      obtain ⟨l', hl', e1, e2⟩ := copyLabels_written r' ls s.vmd l hlm
      rw [e2]
      have h1 := (l1 l' hl').2
      rw [e1, hg] at h1
      exact h1.symm
    | none =>
      rcases copyLabels_touched r' ls s.vmd (labelKey r' name) with e | ⟨l, hlm, e, _⟩
      · rw [e]; exact (hfresh _ (repoOf_labelKey r' name hr')).2
      · have en : name = l.1 := labelKey_inj r' _ _ e
        have h1 := (l1 l hlm).2
        rw [← en, hg] at h1
        cases h1
  · -- nothing else under the new name (metadata)
    intro k hk hpres
    rw [k1 k hk] at hpres
    rcases ca k with e | ⟨_, b, hbm, hp⟩
    · left
      refine Classical.byContradiction (fun hne2 => ?_)
      rw [e, f1 k hne2, (hfresh k hk).1] at hpres
      exact hpres rfl
    · right
      have hb' := (b1 b hbm)
      refine ⟨b.1, b.2.1, b.2.2, hb'.1, ?_, hp⟩
      rw [← f1' _ (by rw [repoOf_bundleKey r b.1 hr]; exact hne')]
      exact hb'.2
  · -- nothing else under the new name (labels)
    intro k hk hpres
    rw [k2 k hk] at hpres
    rcases copyLabels_touched r' ls s.vmd k with e | ⟨l, hlm, e, _⟩
    · rw [e, (hfresh k hk).2] at hpres
      exact absurd rfl hpres
    · exact ⟨l.1, e, by rw [(l1 l hlm).2]; simp⟩
  · -- old bundles
    intro id n a' hid hg
    apply g2 id n a' hid
    rw [f2 _ (by rw [repoOf_bundleKey r id hr]; exact hne'), hg]
  · -- frame
    intro k hk hk'
    constructor
    · rw [dm.keep k (fun p => hk (p.repoOf hr)), f2 k hk']
    · rw [dv.keep k (fun p => hk (p.repoOf hr)), f3 k hk']


/-! ### non-vacuity, necessity of the hypotheses, recorded observations -/

namespace Ex
def a : Str := ['a']
def ab : Str := ['a', '-', 'b']
def c : Str := ['c']
def b1 : Str := ['B', '1']
def b2 : Str := ['B', '2']
def v1 : Str := ['v', '1']
def x : Str := ['x']
def y : Str := ['y']

/-- two repositories with prefix-related names sharing a bundle id and a file; `a` also holds the
    file list of a never-committed bundle `B2` -/
def st : St :=
  { md := [(bundleKey a b1, .bundle 1 7), (filesKey a b1 0, .files [(x, 1), (y, 2)]),
           (filesKey a b2 0, .files [(y, 2)]),
           (bundleKey ab b1, .bundle 1 7), (filesKey ab b1 0, .files [(x, 1)]),
           (repoKey a, .repo ['d'] 1), (repoKey ab, .repo ['e'] 1)],
    vmd := [(labelKey a v1, .label b1 3), (labelKey ab v1, .label b1 4)] }
end Ex

open Ex in
/-- the hypotheses of `C09_delete_exact` are satisfiable, and this is what remains -/
example : deleteRepo st a =
    ({ md := [(filesKey a b2 0, .files [(y, 2)]),
              (bundleKey ab b1, .bundle 1 7), (filesKey ab b1 0, .files [(x, 1)]),
              (repoKey ab, .repo ['e'] 1)],
       vmd := [(labelKey ab v1, .label b1 4)] }, .ok) := by decide

open Ex in
/-- **observation** (outside the statement): the file list of the never-committed bundle `B2`
    survives `DeleteRepo` -/
theorem C09_obs_delete_leaves_uncommitted :
    (deleteRepo st a).2 = .ok ∧ get (deleteRepo st a).1.md (filesKey a b2 0) ≠ none := by decide

open Ex in
/-- the hypotheses of `C09_rename_exact` are satisfiable -/
example : (renameRepo st a c).2 = .ok ∧ '/' ∉ a ∧
    get (renameRepo st a c).1.md (filesKey c b1 0) = some (.files [(x, 1), (y, 2)]) ∧
    get (renameRepo st a c).1.vmd (labelKey c v1) = some (.label b1 3) := by decide

open Ex in
/-- the hypotheses of `C09_deleteEntries_exact` are satisfiable -/
example : (deleteEntries st a [x]).2 = .ok ∧
    get (deleteEntries st a [x]).1.md (filesKey a b1 0) = some (.files [(y, 2)]) ∧
    get (deleteEntries st a [x]).1.md (filesKey ab b1 0) = some (.files [(x, 1)]) := by decide

open Ex in
/-- the hypotheses of `C09_create_unique` are satisfiable: three creators, the second moves first -/
example : runCreates c [⟨['p'], 0⟩, ⟨['q'], 0⟩, ⟨['r'], 0⟩] [1, 0, 1, 2] st =
    ({ st with md := put st.md (repoKey c) (.repo ['q'] 0) }, [(1, .ok), (0, .err), (2, .err)]) := by
  decide

/-- **the hypothesis `'/' ∉ r` of the frame clause is needed.**  For the name `a/b` the keys that
    `DeleteRepo` removes are, read component-wise (`repoOf`, i.e. `GetArchivePathComponents`),
    keys of repository `a`.  (`CreateRepo` never creates such a name: `validName_noSlash`.) -/
theorem C09_neg_frame_needs_noSlash :
    ∃ (s s' : St) (r k : Str), deleteRepo s r = (s', .ok) ∧ repoOf k ≠ some r ∧ get s'.md k ≠ get s.md k := by
  refine ⟨{ md := [(bundleKey ['a', '/', 'b'] ['B', '1'], .bundle 0 0), (repoKey ['a', '/', 'b'], .repo ['d'] 0)], vmd := [] },
    { md := [], vmd := [] }, ['a', '/', 'b'], bundleKey ['a', '/', 'b'] ['B', '1'], ?_, ?_, ?_⟩ <;> decide

open Ex in
/-- **the hypothesis "nothing is stored under the new name" of `C09_rename_exact` is needed**:
    `RenameRepo` only checks the descriptor of the new name; a label left under it survives and
    becomes a label of the renamed repository. -/
theorem C09_neg_rename_needs_fresh :
    ∃ (s s' : St) (r r' name : Str), renameRepo s r r' = (s', .ok) ∧
      get s.vmd (labelKey r name) = none ∧ get s'.vmd (labelKey r' name) ≠ none := by
  refine ⟨{ md := [(repoKey a, .repo ['d'] 1)], vmd := [(labelKey c v1, .label b1 9)] },
    { md := [(repoKey c, .repo ['d'] 1)], vmd := [(labelKey c v1, .label b1 9)] }, a, c, v1, ?_, ?_, ?_⟩ <;> decide

/-! ### the "delete until an error is found" loop of DeleteBundle -/

theorem length_del_le (m : Store) (k : Str) : (del m k).length ≤ m.length := by
  induction m with
  | nil => simp [del]
  | cons p m ih =>
    obtain ⟨a, v⟩ := p
    simp only [del]
    split
    · simp only [List.length_cons]; omega
    · simp only [List.length_cons]; omega

theorem length_del_lt (m : Store) (k : Str) (h : get m k ≠ none) : (del m k).length < m.length := by
  induction m with
  | nil => simp [get] at h
  | cons p m ih =>
    obtain ⟨a, v⟩ := p
    simp only [del]
    by_cases hk : k = a
    · simp only [hk, if_true, List.length_cons]
      have := length_del_le m a
      omega
    · simp only [hk, if_false, List.length_cons]
      have h' : get m k ≠ none := by simpa [get, hk] using h
      have := ih h'
      omega

/-- does the bounded loop stop because the bound is reached (rather than at a missing index)? -/
def loopExhausted (r id : Str) : Nat → Nat → Store → Bool
  | 0, _, _ => true
  | fuel + 1, i, m =>
    if has m (filesKey r id i) then loopExhausted r id fuel (i + 1) (del m (filesKey r id i)) else false

/-- On a store whose `Delete` reports a missing key, the loop of `DeleteBundle` for a descriptor
    with `count = 0` stops at a missing index before the bound `length + 1` used by the model
    (`deleteBundle`) is reached: the model's bound never cuts the loop short. -/
theorem C09_deleteLoop_terminates (r id : Str) :
    ∀ (fuel i : Nat) (m : Store), m.length < fuel → loopExhausted r id fuel i m = false := by
  intro fuel
  induction fuel with
  | zero => intro i m h; omega
  | succ f ih =>
    intro i m h
    simp only [loopExhausted]
    split
    · rename_i hh
      apply ih
      have := length_del_lt m _ ((has_iff _ _).mp hh)
      omega
    · rfl

/-- The same loop on a store whose `Delete` of a missing key SUCCEEDS (pkg/storage/localfs): the
    error it waits for never comes, every bound is exhausted.  (Reproduced on the real code:
    `DeleteRepo` of a repository holding one committed empty bundle does not return.) -/
def loopSilentExhausted (r id : Str) : Nat → Nat → Store → Bool
  | 0, _, _ => true
  | fuel + 1, i, m => loopSilentExhausted r id fuel (i + 1) (del m (filesKey r id i))

theorem C09_neg_deleteLoop_silent_delete (r id : Str) :
    ∀ (fuel i : Nat) (m : Store), loopSilentExhausted r id fuel i m = true := by
  intro fuel
  induction fuel with
  | zero => intro i m; rfl
  | succ f ih => intro i m; exact ih _ _


/-! ### facts regenerated from the Go sources on every run (extract/c09.go)

The key templates of the model are the ones `pkg/model` renders, `CreateRepo` makes a single
store call (a no-overwrite `Put`), `ValidateRepo` accepts exactly digits, letters and hyphens,
`DeleteRepo` calls `DeleteBundle` with the options the model assumes.  A source change in any
of these breaks this section of the build. -/

/-- instantiate a key template: a piece that is a parameter marker is replaced by its value -/
def instT (env : List (Str × Str)) (tpl : List Str) : Str :=
  (tpl.map fun p => match env.find? (fun q => q.1 == p) with
    | some q => q.2
    | none => p).flatten

def pRepo : Str := ['<', 'r', 'e', 'p', 'o', '>']
def pBundleID : Str := ['<', 'b', 'u', 'n', 'd', 'l', 'e', 'I', 'D', '>']
def pIndex : Str := ['<', 'i', 'n', 'd', 'e', 'x', '>']
def pLabelName : Str := ['<', 'l', 'a', 'b', 'e', 'l', 'N', 'a', 'm', 'e', '>']

theorem C09_facts_repoKey (r : Str) :
    repoKey r = instT [(pRepo, r)] Facts.c09RepoKeyTemplate := rfl

theorem C09_facts_bundlePrefix (r : Str) :
    bundlePrefix r = instT [(pRepo, r)] Facts.c09BundlePrefixTemplate := rfl

theorem C09_facts_bundleKey (r id : Str) :
    bundleKey r id = instT [(pRepo, r), (pBundleID, id)] Facts.c09BundleKeyTemplate := by
  have e : instT [(pRepo, r), (pBundleID, id)] Facts.c09BundleKeyTemplate =
      sBundles ++ (r ++ (['/'] ++ (id ++ ('/' :: sBundleFile ++ [])))) := rfl
  rw [e]; simp [bundleKey, bundlePrefix]

theorem C09_facts_filesKey (r id : Str) (i : Nat) :
    filesKey r id i = instT [(pRepo, r), (pBundleID, id), (pIndex, natStr i)] Facts.c09FilesKeyTemplate := by
  have e : instT [(pRepo, r), (pBundleID, id), (pIndex, natStr i)] Facts.c09FilesKeyTemplate =
      sBundles ++ (r ++ (['/'] ++ (id ++ ('/' :: sFilesPrefix ++ (natStr i ++ (sYaml ++ [])))))) := rfl
  rw [e]; simp [filesKey, bundlePrefix]

theorem C09_facts_labelPrefix (r : Str) :
    labelPrefix r = instT [(pRepo, r)] Facts.c09LabelPrefixTemplate := rfl

theorem C09_facts_labelKey (r n : Str) :
    labelKey r n = instT [(pRepo, r), (pLabelName, n)] Facts.c09LabelKeyTemplate := by
  have e : instT [(pRepo, r), (pLabelName, n)] Facts.c09LabelKeyTemplate =
      sLabels ++ (r ++ (['/'] ++ (n ++ ('/' :: sLabelFile ++ [])))) := rfl
  rw [e]; simp [labelKey, labelPrefix]

theorem C09_facts_calls :
    Facts.c09CreateRepoStoreCalls = ["Put"] ∧ Facts.c09CreateRepoPutFlag = "NoOverWrite" ∧
    Facts.c09RepoNameClasses = ["IsDigit", "IsLetter", "Is:Hyphen"] ∧
    Facts.c09DeleteRepoBundleOpts = ["WithDeleteSkipCheckRepo(true)", "WithDeleteSkipDeleteLabel(true)",
      "WithDeleteIgnoreBundleError(true)"] := ⟨rfl, rfl, rfl, rfl⟩

end Repo
