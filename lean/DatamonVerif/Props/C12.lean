import DatamonVerif.Model.Diamond

/-! C12 — a diamond commits at most once, from completed splits only.

The model (`Model/Diamond.lean`) is the protocol AS IT IS, so the headline "at most one bundle" is
FALSE of it; what is proved here, for any number of actors, any schedule of any length and any crash
points (no bounds):

* `C12_done_unique_immutable`   — the terminal descriptor and every split-done record are written at
                                   most once and never rewritten; one winner each.
* `C12_refused_after_terminal`  — an actor whose first step comes after the terminal write writes nothing.
* `C12_done_split_not_rerun`    — a run whose split-done check comes after the split is done writes nothing.
* `C12_commit_content`, `C12_commit_listing` — a committed bundle = merge of the generations recorded in
                                   split-done for the splits that were done when the commit listed them;
                                   a run that lost the split-done race contributes nothing.
* `C12_at_most_one_bundle_serial`, `C12_at_most_one_bundle_crash_aware` — at most one bundle when no
                                   commit passes its ready check while another one sits in its section.
* `C12_crash_is_never_scheduled` — explicit crash events = the actor is never scheduled again.
* `C12_neg_overlapping_commits`, `C12_neg_crash_before_done_then_retry` — the two findings, by `decide`.
* `C12_facts_no_overwrite`, `C12_facts_call_order` — call-site facts regenerated from the Go sources. -/
namespace Diamond

@[simp] theorem nxDiamond_true : nxDiamond = true := rfl
@[simp] theorem nxSplit_true : nxSplit = true := rfl

theorem run_nil (s : Sys) : run s [] = s := rfl
theorem run_cons (s : Sys) (i : Nat) (l : List Nat) : run s (i :: l) = run (step s i) l := rfl
theorem run_append (s : Sys) (l₁ l₂ : List Nat) : run s (l₁ ++ l₂) = run (run s l₁) l₂ := by
  simp [run, List.foldl_append]

theorem run_induct {P : Sys → Prop} (h : ∀ s i, P s → P (step s i)) :
    ∀ (sched : List Nat) (s : Sys), P s → P (run s sched)
  | [], _, hs => hs
  | i :: l, s, hs => run_induct h l (step s i) (h s i hs)

theorem step_none (s : Sys) (i : Nat) (h : s.actors[i]? = none) : step s i = s := by
  simp [step, h]

theorem step_store (s : Sys) (i : Nat) (a : Actor) (h : s.actors[i]? = some a) :
    (step s i).store = (act s.store i a).1 := by
  simp [step, h]

theorem step_actors (s : Sys) (i : Nat) (a : Actor) (h : s.actors[i]? = some a) :
    (step s i).actors = s.actors.set i (act s.store i a).2 := by
  simp [step, h]

theorem step_actor_self (s : Sys) (i : Nat) (a : Actor) (h : s.actors[i]? = some a) :
    (step s i).actors[i]? = some (act s.store i a).2 := by
  have hlt : i < s.actors.length := by
    rcases Nat.lt_or_ge i s.actors.length with h' | h'
    · exact h'
    · simp [List.getElem?_eq_none h'] at h
  simp [step_actors s i a h, hlt]

theorem step_actor_ne (s : Sys) (i j : Nat) (hne : i ≠ j) : (step s i).actors[j]? = s.actors[j]? := by
  unfold step
  split
  · rfl
  · simp [hne]

theorem step_length (s : Sys) (i : Nat) : (step s i).actors.length = s.actors.length := by
  unfold step
  split <;> simp

/-- the terminal descriptor is never rewritten by a local transition -/
theorem act_term (st : Store) (i : Nat) (a : Actor) (t : Term) (h : st.term = some t) :
    (act st i a).1.term = some t := by
  rcases a with ⟨kind, pc, snap⟩
  cases kind <;> cases pc <;> simp [act, putTerm, h] <;> (try split) <;> simp_all

theorem step_term (s : Sys) (i : Nat) (t : Term) (h : s.store.term = some t) :
    (step s i).store.term = some t := by
  unfold step
  split
  · exact h
  · exact act_term _ _ _ _ h

theorem act_kind (st : Store) (i : Nat) (a : Actor) : (act st i a).2.kind = a.kind := by
  rcases a with ⟨kind, pc, snap⟩
  cases kind <;> cases pc <;> simp [act, putTerm] <;> (repeat' split) <;> simp_all

theorem lookup_cons_stable (l : List (Nat × Nat)) (k k' g i : Nat) (h : l.lookup k = some g)
    (hn : l.lookup k' = none) : List.lookup k ((k', i) :: l) = some g := by
  have hne : (k == k') = false := by
    cases hk : k == k'
    · rfl
    · have : k = k' := by simpa using hk
      subst this; rw [h] at hn; cases hn
  rw [List.lookup_cons, hne]; exact h

theorem act_splitDone_lookup (st : Store) (i : Nat) (a : Actor) (k g : Nat)
    (h : st.splitDone.lookup k = some g) : (act st i a).1.splitDone.lookup k = some g := by
  rcases a with ⟨kind, pc, snap⟩
  cases kind with
  | run k' f =>
    cases pc with
    | putdone =>
      simp only [act]
      cases hl : st.splitDone.lookup k' with
      | none => simp only []; exact lookup_cons_stable _ _ _ _ _ h hl
      | some x => simp [h]
    | _ => simp [act, h] <;> (repeat' split) <;> simp_all
  | _ => cases pc <;> simp [act, putTerm, h] <;> (repeat' split) <;> simp_all

theorem step_splitDone_lookup (s : Sys) (i k g : Nat) (h : s.store.splitDone.lookup k = some g) :
    (step s i).store.splitDone.lookup k = some g := by
  unfold step
  split
  · exact h
  · exact act_splitDone_lookup _ _ _ _ _ h


/-! ### refusal after the terminal write -/

theorem act_refused (st : Store) (i : Nat) (a : Actor) (ht : st.term.isSome = true)
    (hp : a.pc = .start ∨ a.pc = .refused) : (act st i a).1 = st ∧ (act st i a).2.pc = .refused := by
  rcases a with ⟨kind, pc, snap⟩
  rcases hp with hp | hp <;> simp only at hp <;> subst hp <;> cases kind <;> simp [act, ht]

/-- invariant behind `C12_refused_after_terminal` -/
def Late (i : Nat) (s : Sys) : Prop :=
  s.store.term.isSome = true ∧ ∃ a, s.actors[i]? = some a ∧ (a.pc = .start ∨ a.pc = .refused)

theorem Late_step (i : Nat) (s : Sys) (j : Nat) (h : Late i s) : Late i (step s j) := by
  obtain ⟨ht, a, ha, hp⟩ := h
  obtain ⟨t, ht'⟩ := Option.isSome_iff_exists.mp ht
  refine ⟨by rw [step_term s j t ht']; rfl, ?_⟩
  by_cases hji : j = i
  · subst hji
    exact ⟨_, step_actor_self s j a ha, Or.inr (act_refused _ _ _ ht hp).2⟩
  · exact ⟨a, by rw [step_actor_ne s j i hji]; exact ha, hp⟩

theorem C12_refused_after_terminal (s : Sys) (i : Nat) (a : Actor)
    (ht : s.store.term.isSome = true) (ha : s.actors[i]? = some a) (hp : a.pc = .start)
    (pre : List Nat) :
    (step (run s pre) i).store = (run s pre).store ∧
    ∃ a', (step (run s pre) i).actors[i]? = some a' ∧ a'.pc = .refused := by
  have hL : Late i (run s pre) := run_induct (P := Late i) (fun s j h => Late_step i s j h) pre s ⟨ht, a, ha, Or.inl hp⟩
  obtain ⟨ht', a', ha', hp'⟩ := hL
  have := act_refused (run s pre).store i a' ht' hp'
  exact ⟨by rw [step_store _ i a' ha']; exact this.1, _, step_actor_self _ i a' ha', this.2⟩

/-! ### a completed split is not rerun -/

def Pc.noRerun : Pc → Bool
  | .start | .chk | .refused | .already => true
  | _ => false

theorem act_noRerun (st : Store) (i : Nat) (a : Actor) (k g : Nat) (f : Files)
    (hd : st.splitDone.lookup k = some g) (hk : a.kind = .run k f) (hp : a.pc.noRerun = true) :
    (act st i a).1 = st ∧ (act st i a).2.pc.noRerun = true := by
  rcases a with ⟨kind, pc, snap⟩
  simp only at hk; subst hk
  cases pc <;> simp [Pc.noRerun] at hp <;> simp [act, hd, Pc.noRerun] <;> split <;> simp [afterReady]

def Rerun (i k g : Nat) (f : Files) (s : Sys) : Prop :=
  s.store.splitDone.lookup k = some g ∧
  ∃ a, s.actors[i]? = some a ∧ a.kind = .run k f ∧ a.pc.noRerun = true

theorem Rerun_step (i k g : Nat) (f : Files) (s : Sys) (j : Nat) (h : Rerun i k g f s) :
    Rerun i k g f (step s j) := by
  obtain ⟨hd, a, ha, hk, hp⟩ := h
  refine ⟨step_splitDone_lookup s j k g hd, ?_⟩
  by_cases hji : j = i
  · subst hji
    exact ⟨_, step_actor_self s j a ha, by rw [act_kind]; exact hk, (act_noRerun _ _ _ k g f hd hk hp).2⟩
  · exact ⟨a, by rw [step_actor_ne s j i hji]; exact ha, hk, hp⟩

theorem C12_done_split_not_rerun (s : Sys) (i k g : Nat) (f : Files) (a : Actor)
    (hd : s.store.splitDone.lookup k = some g) (ha : s.actors[i]? = some a)
    (hk : a.kind = .run k f) (hp : a.pc = .start ∨ a.pc = .chk) (pre : List Nat) :
    (step (run s pre) i).store = (run s pre).store ∧
    ∃ a', (step (run s pre) i).actors[i]? = some a' ∧
      (a'.pc = .start ∨ a'.pc = .chk ∨ a'.pc = .refused ∨ a'.pc = .already) := by
  have hR : Rerun i k g f (run s pre) :=
    run_induct (P := Rerun i k g f) (fun s j h => Rerun_step i k g f s j h) pre s
      ⟨hd, a, ha, hk, by rcases hp with hp | hp <;> simp [hp, Pc.noRerun]⟩
  obtain ⟨hd', a', ha', hk', hp'⟩ := hR
  have := act_noRerun (run s pre).store i a' k g f hd' hk' hp'
  refine ⟨by rw [step_store _ i a' ha']; exact this.1, _, step_actor_self _ i a' ha', ?_⟩
  have h2 := this.2
  revert h2
  cases (act (run s pre).store i a').2.pc <;> simp [Pc.noRerun]


/-! ### at most one winner of the terminal descriptor -/

/-- whoever is at `won` is the one recorded in the terminal descriptor -/
def InvT (s : Sys) : Prop :=
  ∀ j a, s.actors[j]? = some a → a.pc = .won →
    (a.kind = .commit ∧ s.store.term = some (.done j)) ∨ (a.kind = .cancel ∧ s.store.term = some (.canceled j))

theorem act_won (st : Store) (i : Nat) (a : Actor) (h : (act st i a).2.pc = .won) :
    (a.pc = .won ∧ act st i a = (st, a)) ∨
    (a.kind = .commit ∧ (act st i a).1.term = some (.done i)) ∨
    (a.kind = .cancel ∧ (act st i a).1.term = some (.canceled i)) := by
  rcases a with ⟨kind, pc, snap⟩
  revert h
  cases kind <;> cases pc <;> simp [act, putTerm, afterReady] <;> (repeat' split) <;> simp_all

theorem InvT_step (s : Sys) (i : Nat) (h : InvT s) : InvT (step s i) := by
  cases hi : s.actors[i]? with
  | none => rw [step_none s i hi]; exact h
  | some a =>
    intro j b hb hpc
    rw [step_store s i a hi]
    by_cases hij : i = j
    · subst hij
      rw [step_actor_self s i a hi] at hb
      cases hb
      rcases act_won _ _ _ hpc with ⟨hp, he⟩ | ⟨hk, ht⟩ | ⟨hk, ht⟩
      · rw [he]; exact h i a hi hp
      · left; exact ⟨by rw [act_kind]; exact hk, ht⟩
      · right; exact ⟨by rw [act_kind]; exact hk, ht⟩
    · rw [step_actor_ne s i j hij] at hb
      rcases h j b hb hpc with ⟨hk, ht⟩ | ⟨hk, ht⟩
      · left; exact ⟨hk, act_term _ _ _ _ ht⟩
      · right; exact ⟨hk, act_term _ _ _ _ ht⟩

theorem InvT_init (kinds : List Kind) : InvT (init kinds) := by
  intro j a ha hp
  simp [init] at ha
  obtain ⟨k, _, rfl⟩ := ha
  cases hp


/-! ### split records -/

theorem act_split_cases (st : Store) (i : Nat) (a : Actor) :
    ((act st i a).1.splitDone = st.splitDone ∧ (act st i a).1.gens = st.gens ∧
      ((act st i a).2.pc = a.pc ∨ ((act st i a).2.pc ≠ .sdone ∧ (act st i a).2.pc ≠ .putdone))) ∨
    (∃ k f, a.kind = .run k f ∧ a.pc = .gen ∧ (act st i a).1.splitDone = st.splitDone ∧
      (act st i a).1.gens = (i, f) :: st.gens ∧ (act st i a).2.pc = .putdone) ∨
    (∃ k f, a.kind = .run k f ∧ a.pc = .putdone ∧ st.splitDone.lookup k = none ∧
      (act st i a).1.splitDone = (k, i) :: st.splitDone ∧ (act st i a).1.gens = st.gens ∧
      (act st i a).2.pc = .sdone) := by
  rcases a with ⟨kind, pc, snap⟩
  cases kind with
  | run k f =>
    cases pc with
    | putdone =>
      cases hl : st.splitDone.lookup k with
      | none => right; right; exact ⟨k, f, rfl, rfl, hl, by simp [act, hl], by simp [act, hl], by simp [act, hl]⟩
      | some x => left; simp [act, hl]
    | gen => right; left; exact ⟨k, f, rfl, rfl, by simp [act], by simp [act], by simp [act]⟩
    | _ => left; simp [act] <;> (repeat' split) <;> simp_all [afterReady]
  | _ => left; cases pc <;> simp [act, putTerm] <;> (repeat' split) <;> simp_all [afterReady]


structure InvS (s : Sys) : Prop where
  /-- every split-done record names a run of that split that finished at `sdone`, whose index files exist -/
  recd : ∀ k g, (k, g) ∈ s.store.splitDone →
    ∃ a f, s.actors[g]? = some a ∧ a.kind = .run k f ∧ a.pc = .sdone ∧ s.store.gens.lookup g = some f
  /-- one record per split -/
  keys : s.store.splitDone.Pairwise (fun x y => x.1 ≠ y.1)
  /-- a run at `sdone` is the one recorded -/
  win : ∀ j a, s.actors[j]? = some a → a.pc = .sdone → ∃ k f, a.kind = .run k f ∧ (k, j) ∈ s.store.splitDone
  /-- a run about to write split-done has written its index files -/
  pend : ∀ j a, s.actors[j]? = some a → a.pc = .putdone →
    ∃ k f, a.kind = .run k f ∧ s.store.gens.lookup j = some f

theorem lookup_none_keys (l : List (Nat × Nat)) (k : Nat) (h : l.lookup k = none) :
    ∀ y ∈ l, k ≠ y.1 := by
  induction l with
  | nil => simp
  | cons x xs ih =>
    obtain ⟨a, b⟩ := x
    rw [List.lookup_cons] at h
    cases hk : k == a
    · rw [hk] at h
      intro y hy
      rcases List.mem_cons.mp hy with rfl | hy
      · simpa using hk
      · exact ih h y hy
    · rw [hk] at h; cases h

theorem lookup_of_mem (l : List (Nat × Nat)) (hp : l.Pairwise (fun x y => x.1 ≠ y.1)) (k g : Nat)
    (h : (k, g) ∈ l) : l.lookup k = some g := by
  induction l with
  | nil => cases h
  | cons x xs ih =>
    obtain ⟨a, b⟩ := x
    rw [List.pairwise_cons] at hp
    rw [List.lookup_cons]
    rcases List.mem_cons.mp h with heq | hm
    · cases heq; simp
    · have : a ≠ k := hp.1 (k, g) hm
      have hk : (k == a) = false := by simp; omega
      rw [hk]; exact ih hp.2 hm

theorem mem_of_lookup (l : List (Nat × Nat)) (k g : Nat) (h : l.lookup k = some g) : (k, g) ∈ l := by
  induction l with
  | nil => cases h
  | cons x xs ih =>
    obtain ⟨a, b⟩ := x
    rw [List.lookup_cons] at h
    cases hk : k == a
    · rw [hk] at h; exact List.mem_cons_of_mem _ (ih h)
    · rw [hk] at h; cases h
      have : k = a := by simpa using hk
      subst this; exact List.mem_cons_self

theorem InvS_step (s : Sys) (i : Nat) (h : InvS s) : InvS (step s i) := by
  cases hi : s.actors[i]? with
  | none => rw [step_none s i hi]; exact h
  | some a =>
    have hst := step_store s i a hi
    have hself := step_actor_self s i a hi
    have hne := fun j (hij : i ≠ j) => step_actor_ne s i j hij
    have hkind := act_kind s.store i a
    rcases act_split_cases s.store i a with ⟨hsd, hg, hpc⟩ | ⟨k, f, hk, hp, hsd, hg, hpc⟩ | ⟨k, f, hk, hp, hl, hsd, hg, hpc⟩
    · -- nothing split-related changes
      refine ⟨?_, ?_, ?_, ?_⟩
      · intro k g hm
        rw [hst, hsd] at hm
        obtain ⟨b, f, hb, hbk, hbp, hbg⟩ := h.recd k g hm
        by_cases hig : i = g
        · subst hig
          rw [hi] at hb; cases hb
          refine ⟨_, f, hself, by rw [hkind]; exact hbk, ?_, by rw [hst, hg]; exact hbg⟩
          rcases hpc with hpc | hpc
          · rw [hpc]; exact hbp
          · -- the actor was at sdone: a final pc, it cannot have moved
            have : (act s.store i a).2.pc = .sdone := by
              clear hpc hkind hself hst hsd hg hi
              rcases a with ⟨kind, pc, snap⟩
              simp only at hbp hbk; subst hbp; subst hbk; simp [act]
            exact this
        · exact ⟨b, f, by rw [hne g hig]; exact hb, hbk, hbp, by rw [hst, hg]; exact hbg⟩
      · rw [hst, hsd]; exact h.keys
      · intro j b hb hbp
        rw [hst, hsd]
        by_cases hij : i = j
        · subst hij
          rw [hself] at hb; cases hb
          rcases hpc with hpc | hpc
          · rw [hpc] at hbp
            obtain ⟨k, f, hk, hm⟩ := h.win i a hi hbp
            exact ⟨k, f, by rw [hkind]; exact hk, hm⟩
          · exact absurd hbp hpc.1
        · rw [hne j hij] at hb; exact h.win j b hb hbp
      · intro j b hb hbp
        rw [hst, hg]
        by_cases hij : i = j
        · subst hij
          rw [hself] at hb; cases hb
          rcases hpc with hpc | hpc
          · rw [hpc] at hbp
            obtain ⟨k, f, hk, hm⟩ := h.pend i a hi hbp
            exact ⟨k, f, by rw [hkind]; exact hk, hm⟩
          · exact absurd hbp hpc.2
        · rw [hne j hij] at hb; exact h.pend j b hb hbp
    · -- the run writes its index files
      have hlk : ∀ g, g ≠ i → List.lookup g ((i, f) :: s.store.gens) = s.store.gens.lookup g := by
        intro g hgi
        rw [List.lookup_cons]
        have : (g == i) = false := by simp; exact hgi
        rw [this]
      refine ⟨?_, ?_, ?_, ?_⟩
      · intro k' g hm
        rw [hst, hsd] at hm
        obtain ⟨b, f', hb, hbk, hbp, hbg⟩ := h.recd k' g hm
        have hig : i ≠ g := by
          intro e; subst e; rw [hi] at hb; cases hb; rw [hp] at hbp; cases hbp
        exact ⟨b, f', by rw [hne g hig]; exact hb, hbk, hbp, by rw [hst, hg, hlk g (Ne.symm hig)]; exact hbg⟩
      · rw [hst, hsd]; exact h.keys
      · intro j b hb hbp
        rw [hst, hsd]
        by_cases hij : i = j
        · subst hij; rw [hself] at hb; cases hb; rw [hpc] at hbp; cases hbp
        · rw [hne j hij] at hb; exact h.win j b hb hbp
      · intro j b hb hbp
        rw [hst, hg]
        by_cases hij : i = j
        · subst hij; rw [hself] at hb; cases hb
          exact ⟨k, f, by rw [hkind]; exact hk, by simp⟩
        · rw [hne j hij] at hb
          obtain ⟨k', f', hk', hm⟩ := h.pend j b hb hbp
          exact ⟨k', f', hk', by rw [hlk j (Ne.symm hij)]; exact hm⟩
    · -- the run wins the put-if-absent of split-done
      obtain ⟨k0, f0, hk0, hgl⟩ := h.pend i a hi hp
      rw [hk] at hk0; cases hk0
      refine ⟨?_, ?_, ?_, ?_⟩
      · intro k' g hm
        rw [hst, hsd] at hm
        rcases List.mem_cons.mp hm with heq | hm
        · cases heq
          exact ⟨_, f, hself, by rw [hkind]; exact hk, hpc, by rw [hst, hg]; exact hgl⟩
        · obtain ⟨b, f', hb, hbk, hbp, hbg⟩ := h.recd k' g hm
          have hig : i ≠ g := by
            intro e; subst e; rw [hi] at hb; cases hb; rw [hp] at hbp; cases hbp
          exact ⟨b, f', by rw [hne g hig]; exact hb, hbk, hbp, by rw [hst, hg]; exact hbg⟩
      · rw [hst, hsd, List.pairwise_cons]
        exact ⟨fun y hy => lookup_none_keys _ _ hl y hy, h.keys⟩
      · intro j b hb hbp
        rw [hst, hsd]
        by_cases hij : i = j
        · subst hij; rw [hself] at hb; cases hb
          exact ⟨k, f, by rw [hkind]; exact hk, List.mem_cons_self⟩
        · rw [hne j hij] at hb
          obtain ⟨k', f', hk', hm⟩ := h.win j b hb hbp
          exact ⟨k', f', hk', List.mem_cons_of_mem _ hm⟩
      · intro j b hb hbp
        rw [hst, hg]
        by_cases hij : i = j
        · subst hij; rw [hself] at hb; cases hb; rw [hpc] at hbp; cases hbp
        · rw [hne j hij] at hb; exact h.pend j b hb hbp

theorem InvS_init (kinds : List Kind) : InvS (init kinds) := by
  refine ⟨?_, ?_, ?_, ?_⟩
  · intro k g hm; simp [init, emptyStore] at hm
  · simp [init, emptyStore]
  · intro j a ha hp
    simp [init] at ha
    obtain ⟨k, _, rfl⟩ := ha
    cases hp
  · intro j a ha hp
    simp [init] at ha
    obtain ⟨k, _, rfl⟩ := ha
    cases hp


/-! ### what a committed bundle contains -/

def kindFiles : Option Kind → Files
  | some (.run _ f) => f
  | _ => []

/-- the file list of the run with index `g` (its generation) -/
def filesOf (s : Sys) (g : Nat) : Files := kindFiles ((s.actors[g]?).map (·.kind))

theorem step_kindOf (s : Sys) (i g : Nat) :
    ((step s i).actors[g]?).map (·.kind) = (s.actors[g]?).map (·.kind) := by
  cases hi : s.actors[i]? with
  | none => rw [step_none s i hi]
  | some a =>
    by_cases hig : i = g
    · subst hig; rw [step_actor_self s i a hi, hi]; simp [act_kind]
    · rw [step_actor_ne s i g hig]

theorem step_filesOf (s : Sys) (i g : Nat) : filesOf (step s i) g = filesOf s g := by
  unfold filesOf; rw [step_kindOf]

theorem act_bundle_cases (st : Store) (i : Nat) (a : Actor) :
    ((act st i a).1.bundles = st.bundles ∧
      ((act st i a).2.snap = a.snap ∨
        ((act st i a).2.snap = st.splitDone ∧ (act st i a).1.splitDone = st.splitDone))) ∨
    ((act st i a).1.bundles = st.bundles ++ [{ owner := i, snap := a.snap, content := contentOf st.gens a.snap }] ∧
      (act st i a).2.snap = a.snap ∧ (act st i a).1.splitDone = st.splitDone ∧ (act st i a).1.gens = st.gens) := by
  rcases a with ⟨kind, pc, snap⟩
  cases kind <;> cases pc <;> simp [act, putTerm] <;> (repeat' split) <;> simp_all

theorem act_splitDone_suffix (st : Store) (i : Nat) (a : Actor) :
    st.splitDone <:+ (act st i a).1.splitDone := by
  rcases act_split_cases st i a with ⟨h, _⟩ | ⟨_, _, _, _, h, _⟩ | ⟨_, _, _, _, _, h, _⟩
  · rw [h]; exact List.suffix_refl _
  · rw [h]; exact List.suffix_refl _
  · rw [h]; exact List.suffix_cons _ _

structure InvB (s : Sys) : Prop where
  /-- what a commit listed is a (past) value of the split-done records -/
  snaps : ∀ (j : Nat) (a : Actor), s.actors[j]? = some a → a.snap <:+ s.store.splitDone
  bund : ∀ b ∈ s.store.bundles, b.snap <:+ s.store.splitDone ∧
    b.content = mergeFiles (b.snap.map fun kg => filesOf s kg.2)

theorem InvB_step (s : Sys) (i : Nat) (hS : InvS s) (h : InvB s) : InvB (step s i) := by
  cases hi : s.actors[i]? with
  | none => rw [step_none s i hi]; exact h
  | some a =>
    have hst := step_store s i a hi
    have hself := step_actor_self s i a hi
    have hne := fun j (hij : i ≠ j) => step_actor_ne s i j hij
    have hsuf := act_splitDone_suffix s.store i a
    have hfiles : ∀ g, filesOf (step s i) g = filesOf s g := step_filesOf s i
    have hold : ∀ b ∈ s.store.bundles, b.snap <:+ (step s i).store.splitDone ∧
        b.content = mergeFiles (b.snap.map fun kg => filesOf (step s i) kg.2) := by
      intro b hb
      obtain ⟨h1, h2⟩ := h.bund b hb
      refine ⟨by rw [hst]; exact List.IsSuffix.trans h1 hsuf, ?_⟩
      rw [h2]; congr 1; apply List.map_congr_left; intro kg _; rw [hfiles]
    rcases act_bundle_cases s.store i a with ⟨hb, hsn⟩ | ⟨hb, hsn, hsd, hg⟩
    · refine ⟨?_, ?_⟩
      · intro j b hj
        rw [hst]
        by_cases hij : i = j
        · subst hij; rw [hself] at hj; cases hj
          rcases hsn with hsn | ⟨hsn, hsd⟩
          · rw [hsn]; exact List.IsSuffix.trans (h.snaps i a hi) hsuf
          · rw [hsn, hsd]; exact List.suffix_refl _
        · rw [hne j hij] at hj; exact List.IsSuffix.trans (h.snaps j b hj) hsuf
      · intro b hbm
        rw [hst, hb] at hbm
        exact hold b hbm
    · refine ⟨?_, ?_⟩
      · intro j b hj
        rw [hst]
        by_cases hij : i = j
        · subst hij; rw [hself] at hj; cases hj
          rw [hsn]; exact List.IsSuffix.trans (h.snaps i a hi) hsuf
        · rw [hne j hij] at hj; exact List.IsSuffix.trans (h.snaps j b hj) hsuf
      · intro b hbm
        rw [hst, hb] at hbm
        rcases List.mem_append.mp hbm with hbm | hbm
        · exact hold b hbm
        · simp at hbm; subst hbm
          refine ⟨by rw [hst, hsd]; exact h.snaps i a hi, ?_⟩
          simp only [contentOf]
          congr 1; apply List.map_congr_left
          intro kg hkg
          rw [hfiles]
          obtain ⟨k, g⟩ := kg
          have hm : (k, g) ∈ s.store.splitDone := (h.snaps i a hi).subset hkg
          obtain ⟨b, f, hb, hbk, _, hbg⟩ := hS.recd k g hm
          simp [hbg, filesOf, hb, hbk, kindFiles]

theorem InvB_init (kinds : List Kind) : InvB (init kinds) := by
  refine ⟨?_, ?_⟩
  · intro j a ha
    simp [init] at ha
    obtain ⟨k, _, rfl⟩ := ha
    exact List.nil_suffix
  · intro b hb; simp [init, emptyStore] at hb


/-! ### at most one bundle on serial schedules (crash-aware) -/

def Pc.pre : Pc → Bool
  | .ready | .listed => true
  | _ => false

def Pc.post : Pc → Bool
  | .bundled | .bundledDead => true
  | _ => false

theorem filter_length_set {α : Type} (p : α → Bool) :
    ∀ (l : List α) (i : Nat) (a v : α), l[i]? = some a →
      ((l.set i v).filter p).length + (if p a then 1 else 0) = (l.filter p).length + (if p v then 1 else 0)
  | [], i, a, v, h => by simp at h
  | x :: xs, 0, a, v, h => by
      simp at h; subst h
      simp only [List.set_cons_zero, List.filter_cons]
      cases p x <;> cases p v <;> simp <;> omega
  | x :: xs, i + 1, a, v, h => by
      have ih := filter_length_set p xs i a v (by simpa using h)
      simp only [List.set_cons_succ, List.filter_cons]
      cases p x <;> simp <;> omega

/-- counting on the actor list only (the store is irrelevant for `cntPc`) -/
def cntA (l : List Actor) (p : Pc → Bool) : Nat := (l.filter fun a => p a.pc).length

theorem cntPc_def (s : Sys) (p : Pc → Bool) : cntPc s p = cntA s.actors p := rfl

theorem cntA_set (l : List Actor) (p : Pc → Bool) (i : Nat) (a v : Actor) (h : l[i]? = some a) :
    cntA (l.set i v) p + (if p a.pc then 1 else 0) = cntA l p + (if p v.pc then 1 else 0) := by
  simpa [cntA] using filter_length_set (fun a => p a.pc) l i a v h

theorem filter_length_or {α : Type} (p q r : α → Bool) (h : ∀ x, p x = (q x || r x))
    (hd : ∀ x, (q x && r x) = false) (l : List α) :
    (l.filter p).length = (l.filter q).length + (l.filter r).length := by
  induction l with
  | nil => simp
  | cons x xs ih =>
    simp only [List.filter_cons]
    have h1 := h x; have h2 := hd x
    cases hq : q x <;> cases hr : r x <;> simp_all <;> omega

theorem inCrit_eq (s : Sys) : inCrit s = cntPc s Pc.pre + cntPc s Pc.post := by
  unfold inCrit cntPc
  apply filter_length_or
  · intro a; cases a.pc <;> rfl
  · intro a; cases a.pc <;> rfl

theorem act_J_cases (st : Store) (i : Nat) (a : Actor) :
    -- (A) nothing the counting invariant looks at changes
    ((act st i a).1.bundles = st.bundles ∧ (act st i a).1.term = st.term ∧
      (act st i a).2.pc.pre = a.pc.pre ∧ (act st i a).2.pc.post = a.pc.post) ∨
    -- (B) a commit passes its ready check
    (a.kind = .commit ∧ a.pc = .start ∧ st.term = none ∧ (act st i a).1 = st ∧ (act st i a).2.pc = .ready) ∨
    -- (C) a commit leaves its section without a bundle
    (a.pc.pre = true ∧ (act st i a).2.pc.pre = false ∧ (act st i a).2.pc.post = false ∧ (act st i a).1 = st) ∨
    -- (D) bundle.yaml
    (a.pc.pre = true ∧ (act st i a).2.pc.pre = false ∧ (act st i a).2.pc.post = true ∧
      (act st i a).1.bundles.length = st.bundles.length + 1 ∧ (act st i a).1.term = st.term) ∨
    -- (E) a commit's put-if-absent of diamond-done
    (a.pc.pre = false ∧ a.pc.post = true ∧ (act st i a).2.pc.pre = false ∧ (act st i a).2.pc.post = false ∧
      (act st i a).1.bundles = st.bundles ∧ (act st i a).1.term.isSome = true) ∨
    -- (F) a cancel's put-if-absent of diamond-done
    (a.pc.pre = false ∧ a.pc.post = false ∧ (act st i a).2.pc.pre = false ∧ (act st i a).2.pc.post = false ∧
      (act st i a).1.bundles = st.bundles ∧ (act st i a).1.term.isSome = true) := by
  rcases a with ⟨kind, pc, snap⟩
  cases kind <;> cases pc <;> simp [act, putTerm, Pc.pre, Pc.post, afterReady] <;> (repeat' split) <;>
    simp_all


/-- the counting invariant of serial schedules -/
def J (s : Sys) : Prop :=
  cntPc s Pc.pre + cntPc s Pc.post ≤ 1 ∧
  s.store.bundles.length + cntPc s Pc.pre ≤ 1 ∧
  (s.store.term = none → s.store.bundles.length = cntPc s Pc.post)

theorem passesReady_iff (s : Sys) (i : Nat) (a : Actor) (ha : s.actors[i]? = some a) :
    passesReady s i = true ↔ a.kind = .commit ∧ a.pc = .start ∧ s.store.term = none := by
  simp [passesReady, ha, and_assoc]

theorem J_step (s : Sys) (i : Nat) (hJ : J s) (hser : serialStep s i = true) : J (step s i) := by
  cases hi : s.actors[i]? with
  | none => rw [step_none s i hi]; exact hJ
  | some a =>
    obtain ⟨h1, h2, h3⟩ := hJ
    have cpre := cntA_set s.actors Pc.pre i a (act s.store i a).2 hi
    have cpost := cntA_set s.actors Pc.post i a (act s.store i a).2 hi
    have hstep : step s i = { store := (act s.store i a).1, actors := s.actors.set i (act s.store i a).2 } := by
      simp [step, hi]
    rw [hstep]
    unfold J
    simp only [cntPc_def] at h1 h2 h3 ⊢
    rcases act_J_cases s.store i a with ⟨hb, ht, hp, hq⟩ | ⟨hk, hp, ht, hst, hp'⟩ | ⟨hp, hp', hq', hst⟩ |
        ⟨hp, hp', hq', hb, ht⟩ | ⟨hp, hq, hp', hq', hb, ht⟩ | ⟨hp, hq, hp', hq', hb, ht⟩
    · rw [hp] at cpre
      rw [hq] at cpost
      rw [hb, ht]
      refine ⟨by omega, by omega, fun h => ?_⟩
      have := h3 h; omega
    · -- passes the ready check: the schedule is serial, nobody is inside a section
      have hpr : passesReady s i = true := (passesReady_iff s i a hi).mpr ⟨hk, hp, ht⟩
      have hcrit : inCrit s = 0 := by
        simpa [serialStep, hpr] using hser
      rw [inCrit_eq] at hcrit
      simp only [cntPc_def] at hcrit
      have h30 := h3 ht
      rw [hp, hp'] at cpre cpost
      simp [Pc.pre, Pc.post] at cpre cpost
      rw [hst]
      refine ⟨by omega, by omega, fun _ => by omega⟩
    · rw [hp, hp'] at cpre
      rw [hq'] at cpost
      have hq : a.pc.post = false := by
        revert hp; cases a.pc <;> simp [Pc.pre, Pc.post]
      rw [hq] at cpost
      simp at cpre cpost
      rw [hst]
      refine ⟨by omega, by omega, fun h => ?_⟩
      have := h3 h; omega
    · rw [hp, hp'] at cpre
      rw [hq'] at cpost
      have hq : a.pc.post = false := by
        revert hp; cases a.pc <;> simp [Pc.pre, Pc.post]
      rw [hq] at cpost
      simp at cpre cpost
      rw [hb, ht]
      refine ⟨by omega, by omega, fun h => ?_⟩
      have := h3 h; omega
    · rw [hp, hp'] at cpre
      rw [hq, hq'] at cpost
      simp at cpre cpost
      rw [hb]
      refine ⟨by omega, by omega, fun h => ?_⟩
      rw [h] at ht; cases ht
    · rw [hp, hp'] at cpre
      rw [hq, hq'] at cpost
      simp at cpre cpost
      rw [hb]
      refine ⟨by omega, by omega, fun h => ?_⟩
      rw [h] at ht; cases ht


theorem crashPc_pre (p : Pc) : (crashPc p).pre = true → p.pre = true := by
  cases p <;> simp [crashPc, Pc.pre]

theorem crashPc_post (p : Pc) : (crashPc p).post = p.post := by
  cases p <;> simp [crashPc, Pc.post]

theorem J_stepE (s : Sys) (e : Ev) (hJ : J s) (hser : serialStepE s e = true) : J (stepE s e) := by
  cases e with
  | step i => exact J_step s i hJ hser
  | crash i =>
    simp only [stepE]
    cases hi : s.actors[i]? with
    | none => exact hJ
    | some a =>
      obtain ⟨h1, h2, h3⟩ := hJ
      have cpre := cntA_set s.actors Pc.pre i a { a with pc := crashPc a.pc } hi
      have cpost := cntA_set s.actors Pc.post i a { a with pc := crashPc a.pc } hi
      simp only [crashPc_post] at cpost
      dsimp only at cpre
      unfold J
      simp only [cntPc_def] at h1 h2 h3 ⊢
      have hle : (if (crashPc a.pc).pre = true then 1 else 0) ≤ (if a.pc.pre = true then 1 else 0) := by
        cases h : (crashPc a.pc).pre
        · simp
        · simp [crashPc_pre _ h]
      refine ⟨by omega, by omega, fun h => ?_⟩
      have := h3 h; omega

theorem runE_nil (s : Sys) : runE s [] = s := rfl
theorem runE_cons (s : Sys) (e : Ev) (l : List Ev) : runE s (e :: l) = runE (stepE s e) l := rfl

theorem J_runE : ∀ (evs : List Ev) (s : Sys), J s → serialE s evs = true → J (runE s evs)
  | [], _, hJ, _ => hJ
  | e :: rest, s, hJ, hs => by
      simp only [serialE, Bool.and_eq_true] at hs
      exact J_runE rest (stepE s e) (J_stepE s e hJ hs.1) hs.2

theorem cntA_init (kinds : List Kind) (p : Pc → Bool) (hp : p .start = false) :
    cntA (init kinds).actors p = 0 := by
  simp [cntA, init, List.filter_map, hp]

theorem J_init (kinds : List Kind) : J (init kinds) := by
  unfold J
  simp only [cntPc_def]
  rw [cntA_init kinds Pc.pre rfl, cntA_init kinds Pc.post rfl]
  simp [init, emptyStore]

/-- a schedule without crashes is a list of step events -/
theorem runE_steps (s : Sys) (sched : List Nat) : runE s (sched.map .step) = run s sched := by
  induction sched generalizing s with
  | nil => rfl
  | cons i l ih => simp only [List.map_cons, runE_cons, stepE, run_cons, ih]

theorem serialE_steps (s : Sys) (sched : List Nat) : serialE s (sched.map .step) = serial s sched := by
  induction sched generalizing s with
  | nil => rfl
  | cons i l ih => simp only [List.map_cons, serialE, serial, serialStepE, stepE, ih]

/-- **At most one bundle, crash-aware.** For any number of commits, cancels and split runs, any
schedule of any length with crashes anywhere: if no commit passes its ready check while a live
commit is inside its section [ready check … diamond-done write) or a crashed commit has written
`bundle.yaml` without `diamond-done` — the complement of the two finding triggers — the diamond has at
most one bundle. -/
theorem C12_at_most_one_bundle_crash_aware (kinds : List Kind) (evs : List Ev)
    (hs : serialE (init kinds) evs = true) :
    (runE (init kinds) evs).store.bundles.length ≤ 1 := by
  obtain ⟨_, h2, _⟩ := J_runE evs (init kinds) (J_init kinds) hs
  omega

/-- **At most one bundle on serial schedules** (crash = an actor never scheduled again: a commit that
stops inside its section blocks every later commit's ready check, so crash-then-retry is excluded
by the same hypothesis). -/
theorem C12_at_most_one_bundle_serial (kinds : List Kind) (sched : List Nat)
    (hs : serial (init kinds) sched = true) :
    (run (init kinds) sched).store.bundles.length ≤ 1 := by
  rw [← runE_steps, ]
  exact C12_at_most_one_bundle_crash_aware kinds _ (by rw [serialE_steps]; exact hs)


/-! ### reachable states -/

theorem step_kinds (s : Sys) (i : Nat) : (step s i).actors.map (·.kind) = s.actors.map (·.kind) := by
  apply List.ext_getElem?
  intro g
  simp only [List.getElem?_map]
  exact step_kindOf s i g

theorem run_kinds (kinds : List Kind) (sched : List Nat) :
    (run (init kinds) sched).actors.map (·.kind) = kinds := by
  have := run_induct (P := fun s => s.actors.map (·.kind) = kinds)
    (fun s i h => by rw [step_kinds]; exact h) sched (init kinds) (by simp [init, Function.comp_def])
  exact this

theorem run_filesOf (kinds : List Kind) (sched : List Nat) (g : Nat) :
    filesOf (run (init kinds) sched) g = kindFiles kinds[g]? := by
  unfold filesOf
  rw [← List.getElem?_map, run_kinds]

theorem reach_inv (kinds : List Kind) (sched : List Nat) :
    InvT (run (init kinds) sched) ∧ InvS (run (init kinds) sched) ∧ InvB (run (init kinds) sched) := by
  have := run_induct (P := fun s => InvT s ∧ InvS s ∧ InvB s)
    (fun s i h => ⟨InvT_step s i h.1, InvS_step s i h.2.1, InvB_step s i h.2.1 h.2.2⟩) sched (init kinds)
    ⟨InvT_init kinds, InvS_init kinds, InvB_init kinds⟩
  exact this

/-- **Terminal descriptors are unique and immutable.** For every state `s` (reachable or not) and every
continuation: the terminal descriptor of the diamond, once written, is never rewritten (1), and neither
is the split-done record of any split (2). In every reachable state at most one actor ever succeeded in
writing the terminal descriptor (3) — it is the one the descriptor names (4) — and at most one run
per split succeeded in writing split-done (5). -/
theorem C12_done_unique_immutable (kinds : List Kind) (sched : List Nat) :
    (∀ (s : Sys) (more : List Nat) (t : Term), s.store.term = some t → (run s more).store.term = some t) ∧
    (∀ (s : Sys) (more : List Nat) (k g : Nat), s.store.splitDone.lookup k = some g →
      (run s more).store.splitDone.lookup k = some g) ∧
    (∀ (j j' : Nat) (a a' : Actor), (run (init kinds) sched).actors[j]? = some a → (run (init kinds) sched).actors[j']? = some a' →
      a.pc = .won → a'.pc = .won → j = j') ∧
    (∀ (j : Nat) (a : Actor), (run (init kinds) sched).actors[j]? = some a → a.pc = .won →
      (run (init kinds) sched).store.term = some (.done j) ∨ (run (init kinds) sched).store.term = some (.canceled j)) ∧
    (∀ (j j' : Nat) (a a' : Actor) (k : Nat) (f f' : Files), (run (init kinds) sched).actors[j]? = some a → (run (init kinds) sched).actors[j']? = some a' →
      a.kind = .run k f → a'.kind = .run k f' → a.pc = .sdone → a'.pc = .sdone → j = j') := by
  obtain ⟨hT, hS, _⟩ := reach_inv kinds sched
  refine ⟨?_, ?_, ?_, ?_, ?_⟩
  · intro s more t h
    exact run_induct (P := fun s => s.store.term = some t) (fun s i h => step_term s i t h) more s h
  · intro s more k g h
    exact run_induct (P := fun s => s.store.splitDone.lookup k = some g)
      (fun s i h => step_splitDone_lookup s i k g h) more s h
  · intro j j' a a' ha ha' hp hp'
    rcases hT j a ha hp with ⟨_, h1⟩ | ⟨_, h1⟩ <;> rcases hT j' a' ha' hp' with ⟨_, h2⟩ | ⟨_, h2⟩ <;>
      rw [h1] at h2 <;> cases h2 <;> rfl
  · intro j a ha hp
    rcases hT j a ha hp with ⟨_, h1⟩ | ⟨_, h1⟩
    · exact Or.inl h1
    · exact Or.inr h1
  · intro j j' a a' k f f' ha ha' hk hk' hp hp'
    obtain ⟨k1, f1, hk1, hm1⟩ := hS.win j a ha hp
    obtain ⟨k2, f2, hk2, hm2⟩ := hS.win j' a' ha' hp'
    rw [hk] at hk1; cases hk1
    rw [hk'] at hk2; cases hk2
    have h1 := lookup_of_mem _ hS.keys _ _ hm1
    have h2 := lookup_of_mem _ hS.keys _ _ hm2
    rw [h1] at h2; cases h2; rfl

/-- **Content of a committed bundle.** In every reachable state, for every bundle `b`:
(1) its entries are the merge of the file lists of the generations `b.snap` — the (split, generation)
pairs its commit read from the split-done descriptors it listed (see `C12_commit_listing`);
(2) each such pair is what split-done records for that split, now and for ever, and the generation is
the run of that split that won the put-if-absent of split-done;
(3) a run that lost that race contributes nothing. -/
theorem C12_commit_content (kinds : List Kind) (sched : List Nat) (b : Bundle)
    (hb : b ∈ (run (init kinds) sched).store.bundles) :
    b.content = mergeFiles (b.snap.map fun kg => kindFiles kinds[kg.2]?) ∧
    (∀ k g, (k, g) ∈ b.snap →
      (∀ more, (run (run (init kinds) sched) more).store.splitDone.lookup k = some g) ∧
      ∃ (a : Actor) (f : Files), (run (init kinds) sched).actors[g]? = some a ∧ a.kind = .run k f ∧ a.pc = .sdone) ∧
    (∀ (j : Nat) (a : Actor), (run (init kinds) sched).actors[j]? = some a → a.pc = .slost → ∀ kg ∈ b.snap, kg.2 ≠ j) := by
  obtain ⟨_, hS, hB⟩ := reach_inv kinds sched
  obtain ⟨hsuf, hc⟩ := hB.bund b hb
  have h2 : ∀ k g, (k, g) ∈ b.snap →
      (∀ more, (run (run (init kinds) sched) more).store.splitDone.lookup k = some g) ∧
      ∃ (a : Actor) (f : Files), (run (init kinds) sched).actors[g]? = some a ∧ a.kind = .run k f ∧ a.pc = .sdone := by
    intro k g hm
    have hm' := hsuf.subset hm
    refine ⟨fun more => ?_, ?_⟩
    · exact (C12_done_unique_immutable kinds sched).2.1 _ more k g (lookup_of_mem _ hS.keys _ _ hm')
    · obtain ⟨a, f, ha, hk, hp, _⟩ := hS.recd k g hm'
      exact ⟨a, f, ha, hk, hp⟩
  refine ⟨?_, h2, ?_⟩
  · rw [hc]; congr 1; apply List.map_congr_left; intro kg _; exact run_filesOf kinds sched kg.2
  · intro j a ha hp kg hkg heq
    obtain ⟨k, g⟩ := kg
    simp only at heq; subst heq
    obtain ⟨_, a', f, ha', _, hp'⟩ := h2 k g hkg
    rw [ha] at ha'; cases ha'; rw [hp] at hp'; cases hp'


/-! ### the snapshot of a bundle is the set of done splits at the moment its commit listed them -/

theorem act_listed (st : Store) (i : Nat) (a : Actor) (h : (act st i a).2.pc = .listed) :
    (a.pc = .listed ∧ (act st i a).2.snap = a.snap) ∨
    (a.kind = .commit ∧ a.pc = .ready ∧ (act st i a).2.snap = st.splitDone) := by
  rcases a with ⟨kind, pc, snap⟩
  revert h
  cases kind <;> cases pc <;> simp [act, putTerm, afterReady] <;> (repeat' split) <;> simp_all

theorem act_new_bundle (st : Store) (i : Nat) (a : Actor) :
    (act st i a).1.bundles = st.bundles ∨
    (a.kind = .commit ∧ a.pc = .listed ∧
      (act st i a).1.bundles = st.bundles ++ [{ owner := i, snap := a.snap, content := contentOf st.gens a.snap }]) := by
  rcases a with ⟨kind, pc, snap⟩
  cases kind <;> cases pc <;> simp [act, putTerm] <;> (repeat' split) <;> simp_all

/-- actor `i` performed its listing step somewhere in `sched` (started from `s0`) and saw `snap` -/
def ListedAt (s0 : Sys) (sched : List Nat) (i : Nat) (snap : List (Nat × Nat)) : Prop :=
  ∃ pre post, sched = pre ++ i :: post ∧
    (∃ a : Actor, (run s0 pre).actors[i]? = some a ∧ a.kind = .commit ∧ a.pc = .ready) ∧
    snap = (run s0 pre).store.splitDone

theorem listing_aux : ∀ (sched : List Nat) (s0 : Sys) (b : Bundle), b ∈ (run s0 sched).store.bundles →
    b ∈ s0.store.bundles ∨
    (∃ a : Actor, s0.actors[b.owner]? = some a ∧ a.pc = .listed ∧ a.snap = b.snap) ∨
    ListedAt s0 sched b.owner b.snap
  | [], s0, b, hb => Or.inl hb
  | j :: l, s0, b, hb => by
    rw [run_cons] at hb
    cases hj : s0.actors[j]? with
    | none =>
      rw [step_none s0 j hj] at hb
      rcases listing_aux l s0 b hb with h | h | ⟨pre, post, he, ha, hs⟩
      · exact Or.inl h
      · exact Or.inr (Or.inl h)
      · refine Or.inr (Or.inr ⟨j :: pre, post, by simp [he], ?_, ?_⟩)
        · rw [run_cons, step_none s0 j hj]; exact ha
        · rw [run_cons, step_none s0 j hj]; exact hs
    | some a =>
      rcases listing_aux l (step s0 j) b hb with h | ⟨a1, ha1, hp1, hs1⟩ | ⟨pre, post, he, ha, hs⟩
      · rw [step_store s0 j a hj] at h
        rcases act_new_bundle s0.store j a with hnb | ⟨hk, hp, hnb⟩
        · rw [hnb] at h; exact Or.inl h
        · rw [hnb] at h
          rcases List.mem_append.mp h with h | h
          · exact Or.inl h
          · simp at h; subst h
            exact Or.inr (Or.inl ⟨a, hj, hp, rfl⟩)
      · by_cases hjo : j = b.owner
        · subst hjo
          rw [step_actor_self s0 _ a hj] at ha1; cases ha1
          rcases act_listed _ _ _ hp1 with ⟨hp, hs⟩ | ⟨hk, hp, hs⟩
          · exact Or.inr (Or.inl ⟨a, hj, hp, by rw [← hs]; exact hs1⟩)
          · refine Or.inr (Or.inr ⟨[], l, rfl, ⟨a, hj, hk, hp⟩, ?_⟩)
            rw [← hs1, hs]; rfl
        · rw [step_actor_ne s0 j _ hjo] at ha1
          exact Or.inr (Or.inl ⟨a1, ha1, hp1, hs1⟩)
      · exact Or.inr (Or.inr ⟨j :: pre, post, by simp [he], ha, hs⟩)

/-- **The committed snapshot = the splits that were done when the commit listed them.** Every bundle
of a reachable state was written by a commit actor that, at some earlier point `pre` of the schedule,
stood at its listing step, and the (split, generation) pairs the bundle is built from are exactly the
split-done records of that moment: splits completed later, and runs that were not (yet) recorded,
contribute nothing. -/
theorem C12_commit_listing (kinds : List Kind) (sched : List Nat) (b : Bundle)
    (hb : b ∈ (run (init kinds) sched).store.bundles) :
    ∃ pre post, sched = pre ++ b.owner :: post ∧
      (∃ a : Actor, (run (init kinds) pre).actors[b.owner]? = some a ∧ a.kind = .commit ∧ a.pc = .ready) ∧
      b.snap = (run (init kinds) pre).store.splitDone := by
  rcases listing_aux sched (init kinds) b hb with h | ⟨a, ha, hp, _⟩ | h
  · simp [init, emptyStore] at h
  · simp [init] at ha
    obtain ⟨k, _, rfl⟩ := ha
    cases hp
  · exact h


/-! ### explicit crashes = never being scheduled again -/

def Pc.stuck : Pc → Bool
  | .refused | .won | .lost | .nosplit | .sdone | .slost | .already | .createlost | .crashed | .bundledDead => true
  | _ => false

theorem act_stuck (st : Store) (i : Nat) (a : Actor) (h : a.pc.stuck = true) : act st i a = (st, a) := by
  rcases a with ⟨kind, pc, snap⟩
  cases kind <;> cases pc <;> simp [Pc.stuck] at h <;> simp [act]

theorem crashPc_stuck (p : Pc) : (crashPc p).stuck = true := by
  cases p <;> simp [crashPc, Pc.stuck]

theorem set_self {α : Type} (l : List α) (i : Nat) (a : α) (h : l[i]? = some a) : l.set i a = l := by
  apply List.ext_getElem?
  intro j
  rw [List.getElem?_set]
  split
  · rename_i hij; subst hij
    split
    · exact h.symm
    · rename_i hlt; rw [List.getElem?_eq_none (by omega)]
  · rfl

theorem step_stuck (s : Sys) (i : Nat) (a : Actor) (ha : s.actors[i]? = some a) (h : a.pc.stuck = true) :
    step s i = s := by
  simp only [step, ha, act_stuck _ _ _ h, set_self _ _ _ ha]

/-- the schedule a crash-free observer sees: steps of crashed actors and the crash events removed -/
def eraseDead : List Nat → List Ev → List Nat
  | _, [] => []
  | dead, .step i :: r => if dead.contains i then eraseDead dead r else i :: eraseDead dead r
  | dead, .crash i :: r => eraseDead (i :: dead) r

structure Sim (dead : List Nat) (sE sB : Sys) : Prop where
  store : sE.store = sB.store
  live : ∀ j, j ∉ dead → sE.actors[j]? = sB.actors[j]?
  stuck : ∀ j, j ∈ dead → ∀ a : Actor, sE.actors[j]? = some a → a.pc.stuck = true

theorem sim_run : ∀ (evs : List Ev) (dead : List Nat) (sE sB : Sys), Sim dead sE sB →
    (runE sE evs).store = (run sB (eraseDead dead evs)).store
  | [], _, _, _, h => h.store
  | .step i :: r, dead, sE, sB, h => by
    rw [runE_cons]
    simp only [eraseDead, stepE]
    by_cases hd : i ∈ dead
    · have hc : dead.contains i = true := by simpa using hd
      rw [hc]; simp only [if_true]
      cases ha : sE.actors[i]? with
      | none => rw [step_none sE i ha]; exact sim_run r dead sE sB h
      | some a => rw [step_stuck sE i a ha (h.stuck i hd a ha)]; exact sim_run r dead sE sB h
    · have hc : dead.contains i = false := by simpa using hd
      rw [hc]; simp only [Bool.false_eq_true, if_false, run_cons]
      apply sim_run r dead
      have hl := h.live i hd
      cases ha : sE.actors[i]? with
      | none =>
        rw [step_none sE i ha, step_none sB i (by rw [← hl]; exact ha)]; exact h
      | some a =>
        have hb : sB.actors[i]? = some a := by rw [← hl]; exact ha
        refine ⟨?_, ?_, ?_⟩
        · rw [step_store sE i a ha, step_store sB i a hb, h.store]
        · intro j hj
          by_cases hij : i = j
          · subst hij; rw [step_actor_self sE i a ha, step_actor_self sB i a hb, h.store]
          · rw [step_actor_ne sE i j hij, step_actor_ne sB i j hij]; exact h.live j hj
        · intro j hj b hb'
          have hij : i ≠ j := fun e => hd (e ▸ hj)
          rw [step_actor_ne sE i j hij] at hb'
          exact h.stuck j hj b hb'
  | .crash i :: r, dead, sE, sB, h => by
    rw [runE_cons]
    simp only [eraseDead, stepE]
    apply sim_run r (i :: dead)
    cases ha : sE.actors[i]? with
    | none =>
      simp only []
      refine ⟨h.store, fun j hj => h.live j (fun hm => hj (List.mem_cons_of_mem _ hm)), ?_⟩
      intro j hj b hb
      rcases List.mem_cons.mp hj with rfl | hj
      · rw [ha] at hb; cases hb
      · exact h.stuck j hj b hb
    | some a =>
      simp only []
      have hlt : i < sE.actors.length := by
        rcases Nat.lt_or_ge i sE.actors.length with h' | h'
        · exact h'
        · simp [List.getElem?_eq_none h'] at ha
      refine ⟨h.store, ?_, ?_⟩
      · intro j hj
        have hij : i ≠ j := fun e => hj (e ▸ List.mem_cons_self)
        simp only [List.getElem?_set_ne hij]
        exact h.live j (fun hm => hj (List.mem_cons_of_mem _ hm))
      · intro j hj b hb
        by_cases hij : i = j
        · subst hij
          simp only [List.getElem?_set_self hlt] at hb
          cases hb; exact crashPc_stuck _
        · simp only [List.getElem?_set_ne hij] at hb
          rcases List.mem_cons.mp hj with rfl | hj
          · exact absurd rfl hij
          · exact h.stuck j hj b hb

/-- **Explicit crashes are faithful**: the store reached with explicit crash events is the store reached
by the plain schedule in which crashed actors are simply never scheduled again. -/
theorem C12_crash_is_never_scheduled (s : Sys) (evs : List Ev) :
    (runE s evs).store = (run s (eraseDead [] evs)).store :=
  sim_run evs [] s s ⟨rfl, fun _ _ => rfl, fun j hj => by cases hj⟩


/-! ### the full claim is false of the protocol: negation witnesses, and non-vacuity -/

/-- one split run (split 1, one file), two commits -/
def wKinds : List Kind := [.run 1 [(0, 0)], .commit, .commit]

/-- **Finding `C12-overlapping-commits`**: the run completes, then two commits interleave: both pass the
ready check, both list the split, both write `bundle.yaml`; the loser of the put-if-absent of diamond-done
only gets an error. Two bundles. The schedule is not serial. -/
theorem C12_neg_overlapping_commits :
    (run (init wKinds) [0, 0, 0, 0, 0, 0, 1, 2, 1, 2, 1, 2, 1, 2]).store.bundles.length = 2 ∧
    serial (init wKinds) [0, 0, 0, 0, 0, 0, 1, 2, 1, 2, 1, 2, 1, 2] = false ∧
    trigE (init wKinds) ([0, 0, 0, 0, 0, 0, 1, 2, 1, 2, 1, 2, 1, 2].map .step) ⟨false, false⟩ = ⟨true, false⟩ := by
  decide

/-- **Finding `C12-crash-before-done-then-retry`**: commit 1 writes `bundle.yaml` and crashes before
diamond-done; the retry (commit 2) finds the diamond still initialized and commits again. Two bundles. -/
theorem C12_neg_crash_before_done_then_retry :
    (run (init wKinds) [0, 0, 0, 0, 0, 0, 1, 1, 1, 2, 2, 2, 2]).store.bundles.length = 2 ∧
    serial (init wKinds) [0, 0, 0, 0, 0, 0, 1, 1, 1, 2, 2, 2, 2] = false ∧
    (runE (init wKinds) ([0, 0, 0, 0, 0, 0, 1, 1, 1].map .step ++ [.crash 1] ++ [2, 2, 2, 2].map .step)).store.bundles.length = 2 ∧
    trigE (init wKinds) ([0, 0, 0, 0, 0, 0, 1, 1, 1].map .step ++ [.crash 1] ++ [2, 2, 2, 2].map .step) ⟨false, false⟩
      = ⟨false, true⟩ := by
  decide

/-- non-vacuity of the serial hypothesis: two commits one after the other — one bundle, the second is
refused; and a commit that crashes BEFORE `bundle.yaml` followed by a retry is crash-aware serial. -/
example : serial (init wKinds) [0, 0, 0, 0, 0, 0, 1, 1, 1, 1, 2] = true ∧
    (run (init wKinds) [0, 0, 0, 0, 0, 0, 1, 1, 1, 1, 2]).store.bundles.length = 1 ∧
    ((run (init wKinds) [0, 0, 0, 0, 0, 0, 1, 1, 1, 1, 2]).actors.map (·.pc)) = [.sdone, .won, .refused] := by
  decide

example : serialE (init wKinds) ([0, 0, 0, 0, 0, 0, 1, 1].map .step ++ [.crash 1] ++ [2, 2, 2, 2].map .step) = true ∧
    (runE (init wKinds) ([0, 0, 0, 0, 0, 0, 1, 1].map .step ++ [.crash 1] ++ [2, 2, 2, 2].map .step)).store.bundles.length = 1 := by
  decide

/-- non-vacuity of `C12_commit_content` / `C12_done_split_not_rerun`: two runs of split 1 race; the
loser's files are not in the bundle; a third run that starts afterwards is refused (`already`). -/
example :
    let k : List Kind := [.run 1 [(0, 10)], .run 1 [(0, 20)], .commit, .run 1 [(0, 30)]]
    let s := run (init k) [0, 1, 0, 1, 0, 0, 1, 1, 1, 0, 0, 2, 2, 2, 2, 3]
    s.store.bundles = [{ owner := 2, snap := [(1, 1)], content := [(0, 20)] }] ∧
    s.actors.map (·.pc) = [.slost, .sdone, .won, .refused] := by
  decide

example :
    let k : List Kind := [.run 1 [(0, 10)], .run 1 [(0, 30)]]
    (run (init k) [0, 0, 0, 0, 0, 0, 1, 1]).actors.map (·.pc) = [.sdone, .already] := by
  decide

/-- a cancel inside a commit's section: one bundle exists although the diamond ends canceled -/
example :
    let k : List Kind := [.run 1 [(0, 10)], .commit, .cancel]
    let s := run (init k) [0, 0, 0, 0, 0, 0, 1, 1, 2, 2, 1, 1]
    s.store.term = some (.canceled 2) ∧ s.store.bundles.length = 1 ∧
    serial (init k) [0, 0, 0, 0, 0, 0, 1, 1, 2, 2, 1, 1] = true := by
  decide

/-! ### facts regenerated from the Go sources -/

/-- the put-if-absent steps of the model are the code's: both descriptors are written with
`storage.NoOverWrite` (a change of either call site breaks this theorem and every proof above that
uses `nxDiamond_true` / `nxSplit_true`). -/
theorem C12_facts_no_overwrite :
    Facts.c12DiamondDescriptorNoOverwrite = true ∧ Facts.c12SplitDescriptorNoOverwrite = true := by
  decide

/-- the order of the protocol-relevant calls in the four entry points is the order of the model's
program counters: ready check before listing before `bundle.yaml`, diamond-done written by the deferred
closure; Cancel reads then writes; CreateSplit checks the diamond, reads the split, writes
split-running; Upload writes the index files before split-done. -/
theorem C12_facts_call_order :
    Facts.c12CallsImplCommit = ["diamondReady", "defer:uploadDescriptor", "collectSplits", "Upload", "uploadBundleDescriptor"] ∧
    Facts.c12CallsCancel = ["downloadDescriptor", "uploadDescriptor"] ∧
    Facts.c12CallsCreateSplit = ["diamondReady", "downloadDescriptor", "uploadDescriptor"] ∧
    Facts.c12CallsImplUpload = ["Upload", "uploadDescriptor"] := by
  decide

end Diamond
