import DatamonVerif.Props.C01Put
/-! C01 over store histories: `Fs.Delete`, then the same content stored again (through any instance,
with any chunking) reads back exactly — and so does a content stored over the remnants of an
interrupted upload (`Compat`, third case). -/
namespace Cafs

theorem get_filter_ne (s : Store) (k k' : Bytes) (h : k' ≠ k) :
    Store.get (s.filter (·.1 != k)) k' = s.get k' := by
  unfold Store.get
  induction s with
  | nil => rfl
  | cons p r ih =>
    obtain ⟨a, b⟩ := p
    by_cases ha : a = k
    · subst ha
      have hne : (k' == a) = false := by simpa using h
      simp [List.filter_cons, List.lookup_cons, hne, ih]
    · have hk : (a != k) = true := by simpa using ha
      simp only [List.filter_cons, hk, if_true, List.lookup_cons]
      by_cases e : k' = a
      · subst e; simp
      · have : (k' == a) = false := by simpa using e
        simp [this, ih]

theorem get_filter_self (s : Store) (k : Bytes) : Store.get (s.filter (·.1 != k)) k = none := by
  unfold Store.get
  induction s with
  | nil => rfl
  | cons p r ih =>
    obtain ⟨a, b⟩ := p
    by_cases ha : a = k
    · subst ha; simp [List.filter_cons, ih]
    · have hk : (a != k) = true := by simpa using ha
      have hne : (k == a) = false := by simpa using (fun e : k = a => ha e.symm)
      simp [List.filter_cons, hk, List.lookup_cons, hne, ih]

/-- deleting never touches a key outside the list -/
theorem deleteKeys_frame (ks : List Bytes) : ∀ (s : Store) (k : Bytes), k ∉ ks →
    (deleteKeys s ks).1.get k = s.get k := by
  induction ks with
  | nil => intro s k _; rfl
  | cons a r ih =>
    intro s k hk
    simp only [List.mem_cons, not_or] at hk
    simp only [deleteKeys]
    split
    · rw [ih _ k hk.2, get_filter_ne s a k hk.1]
    · rfl

/-- a deletion that reports success leaves none of the keys -/
theorem deleteKeys_removes (ks : List Bytes) : ∀ (s : Store), (deleteKeys s ks).2 = true →
    ∀ k ∈ ks, (deleteKeys s ks).1.get k = none := by
  induction ks with
  | nil => intro s _ k hk; simp at hk
  | cons a r ih =>
    intro s hok k hk
    simp only [deleteKeys] at hok ⊢
    split at hok
    · rename_i hsome
      simp only [hsome, if_true]
      by_cases hin : k ∈ r
      · exact ih _ hok k hin
      · have : k = a := by
          rcases List.mem_cons.mp hk with e | e
          · exact e
          · exact absurd e hin
        subst this
        rw [deleteKeys_frame r _ k hin]
        exact get_filter_self s k
    · simp at hok

/-- **delete, then store again**: after a successful `delete` of the object, a `put` of the same
    content (any chunking, through any instance — no cache is part of the model's contract) is
    served again: keys read back from the root blob, every leaf verified, so every read style
    returns the content (`C01_readAll_roundtrip`, `C01_readAt_roundtrip`, `C01_readSeq_roundtrip`).
    The blobs of the object are exactly the deleted keys (`hkeys`: what the root blob listed). -/
theorem C01_delete_then_put (H : Hash) (crc : Bool) (L : Nat) (hL : 0 < L) (s : Store) (writes : List Bytes)
    (hlen : ∀ p b, (H p b).length = keySize)
    (hco : Coherent (objectBlobs H L writes.flatten))
    (hkeys : objectKeys H L s (specKey H L writes.flatten) = .ok (leafKeysOf H L (chunks L writes.flatten)))
    (hok : (delete H L s (specKey H L writes.flatten)).2 = true) :
    let s' := (delete H L s (specKey H L writes.flatten)).1
    ∃ keys, objectKeys H L (put H crc L s' writes).1 (put H crc L s' writes).2.key = .ok keys ∧
      readAll H true L (put H crc L s' writes).1 keys = .ok writes.flatten ∧
      ∀ off n, readAt H true L (put H crc L s' writes).1 keys off n = .ok ((writes.flatten.drop off).take n) := by
  intro s'
  apply C01_put_then_readAll H crc L hL s' writes hlen hco
  intro p hp
  left
  have hdel : delete H L s (specKey H L writes.flatten) =
      deleteKeys s (leafKeysOf H L (chunks L writes.flatten) ++ [specKey H L writes.flatten]) := by
    unfold delete; rw [hkeys]
  have hmem : p.1 ∈ leafKeysOf H L (chunks L writes.flatten) ++ [specKey H L writes.flatten] := by
    unfold objectBlobs at hp
    rcases List.mem_append.mp hp with h | h
    · exact List.mem_append_left _ (List.of_mem_zip h).1
    · simp only [List.mem_singleton] at h
      subst h
      exact List.mem_append_right _ (by simp)
  show s'.get p.1 = none
  have := deleteKeys_removes _ s (by rw [← hdel]; exact hok) p.1 hmem
  simpa [s', hdel] using this

end Cafs
