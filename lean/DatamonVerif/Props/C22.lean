import DatamonVerif.Model.Tracker

/-! C22 — the write-range tracker records exactly the written ranges.

Main theorem `C22_tracker_exact`: after ANY sequence of writes, for EVERY offset and request
length, `getRangeToRead` reports "modified" iff some write covered the offset, and the
contiguous length it returns is positive, at most the request, and never crosses a boundary
between modified and unmodified data. -/
namespace Tracker

/-- interval view of a well-formed marker list -/
def ofIvs : List (Nat × Nat) → Markers
  | [] => []
  | (a, b) :: r => (a, true) :: (b, false) :: ofIvs r

/-- intervals are non-empty, sorted and pairwise non-touching -/
def Good : Nat → List (Nat × Nat) → Prop
  | _, [] => True
  | lo, (a, b) :: r => lo ≤ a ∧ a < b ∧ Good (b + 1) r

def cov (ivs : List (Nat × Nat)) (x : Nat) : Bool :=
  ivs.any fun p => decide (p.1 ≤ x) && decide (x < p.2)

def mergeIv (s e : Nat) : List (Nat × Nat) → List (Nat × Nat)
  | [] => [(s, e)]
  | (a, b) :: r =>
    if b < s then (a, b) :: mergeIv s e r
    else if e < a then (s, e) :: (a, b) :: r
    else mergeIv (min s a) (max e b) r

theorem track_ofIvs (ivs : List (Nat × Nat)) : ∀ s e, track s e (ofIvs ivs) = ofIvs (mergeIv s e ivs) := by
  induction ivs with
  | nil => intro s e; simp [ofIvs, track, mergeIv]
  | cons p r ih =>
    intro s e
    obtain ⟨a, b⟩ := p
    simp only [ofIvs, track, mergeIv]
    split
    · simp [ofIvs, ih]
    · split
      · simp [ofIvs]
      · exact ih _ _

theorem Good_mono {lo lo' : Nat} {ivs : List (Nat × Nat)} (h : Good lo ivs) (hl : lo' ≤ lo) : Good lo' ivs := by
  cases ivs with
  | nil => trivial
  | cons p r => obtain ⟨a, b⟩ := p; exact ⟨Nat.le_trans hl h.1, h.2⟩

theorem mergeIv_good (ivs : List (Nat × Nat)) :
    ∀ lo s e, s < e → Good lo ivs → Good (min lo s) (mergeIv s e ivs) := by
  induction ivs with
  | nil => intro lo s e hse _; simp [mergeIv, Good]; omega
  | cons p r ih =>
    intro lo s e hse hg
    obtain ⟨a, b⟩ := p
    obtain ⟨h1, h2, h3⟩ := hg
    simp only [mergeIv]
    split
    · rename_i hbs
      refine ⟨by omega, h2, ?_⟩
      have := ih (b + 1) s e hse h3
      have hm : min (b + 1) s = b + 1 := by omega
      rwa [hm] at this
    · split
      · rename_i hea
        exact ⟨by omega, hse, by omega, h2, h3⟩
      · have := ih (b + 1) (min s a) (max e b) (by omega) h3
        exact Good_mono this (by omega)

theorem cov_lt_lo (ivs : List (Nat × Nat)) : ∀ lo y, Good lo ivs → y < lo → cov ivs y = false := by
  induction ivs with
  | nil => intros; rfl
  | cons p r ih =>
    intro lo y hg hy
    obtain ⟨a, b⟩ := p
    obtain ⟨h1, h2, h3⟩ := hg
    have := ih (b + 1) y h3 (by omega)
    simp only [cov, List.any_cons] at this ⊢
    rw [this]
    simp; omega

theorem mergeIv_cov (ivs : List (Nat × Nat)) :
    ∀ lo s e x, s < e → Good lo ivs →
      cov (mergeIv s e ivs) x = (cov ivs x || (decide (s ≤ x) && decide (x < e))) := by
  induction ivs with
  | nil => intro lo s e x _ _; simp [mergeIv, cov]
  | cons p r ih =>
    intro lo s e x hse hg
    obtain ⟨a, b⟩ := p
    obtain ⟨h1, h2, h3⟩ := hg
    simp only [mergeIv]
    split
    · have := ih (b + 1) s e x hse h3
      simp only [cov, List.any_cons] at this ⊢
      rw [this, Bool.or_assoc]
    · split
      · simp only [cov, List.any_cons]
        rw [Bool.or_comm]
      · rename_i hbs hea
        have := ih (b + 1) (min s a) (max e b) x (by omega) h3
        rw [this]
        simp only [cov, List.any_cons]
        by_cases hc : List.any r (fun p => decide (p.1 ≤ x) && decide (x < p.2)) = true
        · simp [hc]
        · have hc' : List.any r (fun p => decide (p.1 ≤ x) && decide (x < p.2)) = false := by
            simpa using hc
          rw [hc']
          simp only [Bool.false_or, Bool.or_false]
          rw [Bool.eq_iff_iff]
          simp only [Bool.and_eq_true, Bool.or_eq_true, decide_eq_true_eq]
          omega

/-- what the Go walk of `getRangeToRead` computes on well-formed markers -/
theorem getRange_spec (ivs : List (Nat × Nat)) :
    ∀ lo x n, 0 < n → Good lo ivs →
      (getRangeGo x n (ofIvs ivs) n false).2 = cov ivs x ∧
      0 < (getRangeGo x n (ofIvs ivs) n false).1 ∧
      (getRangeGo x n (ofIvs ivs) n false).1 ≤ n ∧
      ∀ y, x ≤ y → y < x + (getRangeGo x n (ofIvs ivs) n false).1 → cov ivs y = cov ivs x := by
  induction ivs with
  | nil => intro lo x n hn _; simp [ofIvs, getRangeGo, cov, hn]
  | cons p r ih =>
    intro lo x n hn hg
    obtain ⟨a, b⟩ := p
    obtain ⟨h1, h2, h3⟩ := hg
    simp only [ofIvs, getRangeGo]
    by_cases hax : a ≤ x
    · simp only [hax, if_true, Bool.false_eq_true, if_false]
      by_cases hbx : b ≤ x
      · simp only [hbx, if_true]
        obtain ⟨i1, i2, i3, i4⟩ := ih (b + 1) x n hn h3
        have hhead : ∀ y, x ≤ y → cov ((a, b) :: r) y = cov r y := by
          intro y hy
          simp only [cov, List.any_cons]
          have : (decide (a ≤ y) && decide (y < b)) = false := by simp; omega
          rw [this, Bool.false_or]
        refine ⟨by rw [i1, hhead x (Nat.le_refl _)], i2, i3, ?_⟩
        intro y hy1 hy2
        rw [hhead y hy1, hhead x (Nat.le_refl _)]
        exact i4 y hy1 hy2
      · simp only [hbx, if_false]
        have hin : ∀ y, x ≤ y → y < b → cov ((a, b) :: r) y = true := by
          intro y hy1 hy2
          simp only [cov, List.any_cons]
          have : (decide (a ≤ y) && decide (y < b)) = true := by simp; omega
          rw [this, Bool.true_or]
        refine ⟨(hin x (Nat.le_refl _) (by omega)).symm, by omega, by omega, ?_⟩
        intro y hy1 hy2
        rw [hin y hy1 (by omega), hin x (Nat.le_refl _) (by omega)]
    · simp only [hax, if_false, if_true]
      have hout : ∀ y, y < a → cov ((a, b) :: r) y = false := by
        intro y hy
        simp only [cov, List.any_cons]
        have h1' : (decide (a ≤ y) && decide (y < b)) = false := by simp; omega
        have h2' := cov_lt_lo r (b + 1) y h3 (by omega)
        simp only [cov] at h2'
        rw [h1', h2']; rfl
      refine ⟨(hout x (by omega)).symm, by omega, by omega, ?_⟩
      intro y hy1 hy2
      rw [hout y (by omega), hout x (by omega)]

theorem covered_append (ws : List (Nat × Nat)) (w : Nat × Nat) (x : Nat) :
    covered (ws ++ [w]) x = (covered ws x || (decide (w.1 ≤ x) && decide (x < w.1 + w.2))) := by
  simp [covered, List.any_append]

/-- the reachable-state invariant: the markers are the interval encoding of exactly the union of the writes -/
theorem run_inv (ws : List (Nat × Nat)) :
    ∀ (pre : List (Nat × Nat)) (ivs : List (Nat × Nat)), Good 0 ivs → (∀ x, cov ivs x = covered pre x) →
      ∃ ivs', ws.foldl (fun t w => trackWrite t w.1 w.2) (ofIvs ivs) = ofIvs ivs' ∧ Good 0 ivs' ∧
        ∀ x, cov ivs' x = covered (pre ++ ws) x := by
  induction ws with
  | nil => intro pre ivs hg hc; exact ⟨ivs, rfl, hg, by simpa using hc⟩
  | cons w ws ih =>
    intro pre ivs hg hc
    simp only [List.foldl_cons]
    by_cases hl : w.2 = 0
    · have h0 : trackWrite (ofIvs ivs) w.1 w.2 = ofIvs ivs := by simp [trackWrite, hl]
      rw [h0]
      obtain ⟨ivs', e1, e2, e3⟩ := ih (pre ++ [w]) ivs hg (by
        intro x; rw [covered_append, hc x]
        have : (decide (w.1 ≤ x) && decide (x < w.1 + w.2)) = false := by simp [hl]
        rw [this, Bool.or_false])
      exact ⟨ivs', e1, e2, by simpa [List.append_assoc] using e3⟩
    · have h0 : trackWrite (ofIvs ivs) w.1 w.2 = ofIvs (mergeIv w.1 (w.1 + w.2) ivs) := by
        simp [trackWrite, hl, track_ofIvs]
      rw [h0]
      have hse : w.1 < w.1 + w.2 := by omega
      have hg' := mergeIv_good ivs 0 w.1 (w.1 + w.2) hse hg
      simp only [Nat.zero_min] at hg'
      obtain ⟨ivs', e1, e2, e3⟩ := ih (pre ++ [w]) _ hg' (by
        intro x; rw [covered_append, mergeIv_cov ivs 0 _ _ x hse hg, hc x])
      exact ⟨ivs', e1, e2, by simpa [List.append_assoc] using e3⟩

/-- **C22** (full statement, every write history, every query). -/
theorem C22_tracker_exact (ws : List (Nat × Nat)) (x n : Nat) (hn : 0 < n) :
    (getRangeToRead (run ws) x n).2 = covered ws x ∧
    0 < (getRangeToRead (run ws) x n).1 ∧
    (getRangeToRead (run ws) x n).1 ≤ n ∧
    ∀ y, x ≤ y → y < x + (getRangeToRead (run ws) x n).1 → covered ws y = covered ws x := by
  obtain ⟨ivs, e1, e2, e3⟩ := run_inv ws [] [] trivial (by intro x; rfl)
  simp only [List.nil_append] at e3
  have hrun : run ws = ofIvs ivs := e1
  unfold getRangeToRead
  rw [hrun]
  obtain ⟨i1, i2, i3, i4⟩ := getRange_spec ivs 0 x n hn e2
  refine ⟨by rw [i1, e3], i2, i3, ?_⟩
  intro y hy1 hy2
  rw [← e3 y, ← e3 x]
  exact i4 y hy1 hy2

/-- the number of markers is even and they alternate start/end (what `TestTrackWrite` counts) -/
theorem C22_markers_wellformed (ws : List (Nat × Nat)) : ∃ ivs, run ws = ofIvs ivs ∧ Good 0 ivs := by
  obtain ⟨ivs, e1, e2, _⟩ := run_inv ws [] [] trivial (by intro x; rfl)
  exact ⟨ivs, e1, e2⟩

/-- non-vacuity: touching, overlapping, preceding and zero-length writes (the histories the
    unrepaired code got wrong). -/
example : run [(0, 1), (1, 1)] = [(0, true), (2, false)] := by decide
example : run [(10, 10), (0, 5)] = [(0, true), (5, false), (10, true), (20, false)] := by decide
example : (getRangeToRead (run [(0, 1), (1, 1), (5, 0)]) 0 10) = (2, true) := by decide

/-! ## Canonical state: order independence and idempotence -/

theorem cov_cons (a b : Nat) (r : List (Nat × Nat)) (x : Nat) :
    cov ((a, b) :: r) x = ((decide (a ≤ x) && decide (x < b)) || cov r x) := by
  simp [cov, List.any_cons]

/-- a well-formed interval list is determined by the set it covers -/
theorem good_unique (ivs : List (Nat × Nat)) :
    ∀ (lo : Nat) (ivs' : List (Nat × Nat)), Good lo ivs → Good lo ivs' →
      (∀ x, cov ivs x = cov ivs' x) → ivs = ivs' := by
  induction ivs with
  | nil =>
    intro lo ivs' _ hg' h
    cases ivs' with
    | nil => rfl
    | cons p r' =>
      obtain ⟨a', b'⟩ := p
      obtain ⟨_, h2, _⟩ := hg'
      have := h a'
      rw [cov_cons] at this
      simp [cov, h2] at this
  | cons p r ih =>
    intro lo ivs' hg hg' h
    obtain ⟨a, b⟩ := p
    obtain ⟨g1, g2, g3⟩ := hg
    cases ivs' with
    | nil =>
      have := h a
      rw [cov_cons] at this
      simp [cov, g2] at this
    | cons p' r' =>
      obtain ⟨a', b'⟩ := p'
      obtain ⟨g1', g2', g3'⟩ := hg'
      have hr : ∀ y, y ≤ b → cov r y = false := fun y hy => cov_lt_lo r (b + 1) y g3 (by omega)
      have hr' : ∀ y, y ≤ b' → cov r' y = false := fun y hy => cov_lt_lo r' (b' + 1) y g3' (by omega)
      have haa : a = a' := by
        rcases Nat.lt_trichotomy a a' with hlt | heq | hgt
        · have := h a
          rw [cov_cons, cov_cons, hr' a (by omega)] at this
          simp [g2] at this; omega
        · exact heq
        · have := h a'
          rw [cov_cons, cov_cons, hr a' (by omega)] at this
          simp [g2'] at this; omega
      subst haa
      have hbb : b = b' := by
        rcases Nat.lt_trichotomy b b' with hlt | heq | hgt
        · have := h b
          rw [cov_cons, cov_cons, hr b (by omega)] at this
          simp at this; omega
        · exact heq
        · have := h b'
          rw [cov_cons, cov_cons, hr' b' (by omega)] at this
          simp at this; omega
      subst hbb
      have hrr : ∀ x, cov r x = cov r' x := by
        intro x
        by_cases hx : x ≤ b
        · rw [hr x hx, hr' x hx]
        · have := h x
          rw [cov_cons, cov_cons] at this
          have hf : (decide (a ≤ x) && decide (x < b)) = false := by simp; omega
          rw [hf] at this
          simpa using this
      rw [ih (b + 1) r' g3 g3' hrr]

/-- **C22, canonical state**: the tracker's markers depend only on WHICH offsets were written —
    not on the order of the writes, their split into calls, or repetitions. -/
theorem C22_tracker_canonical (ws ws' : List (Nat × Nat))
    (h : ∀ x, covered ws x = covered ws' x) : run ws = run ws' := by
  obtain ⟨ivs, e1, e2, e3⟩ := run_inv ws [] [] trivial (by intro x; rfl)
  obtain ⟨ivs', e1', e2', e3'⟩ := run_inv ws' [] [] trivial (by intro x; rfl)
  simp only [List.nil_append] at e3 e3'
  have : ivs = ivs' := good_unique ivs 0 ivs' e2 e2' (fun x => by rw [e3 x, e3' x, h x])
  show run ws = run ws'
  rw [show run ws = ofIvs ivs from e1, show run ws' = ofIvs ivs' from e1', this]

theorem covered_perm {ws ws' : List (Nat × Nat)} (hp : ws.Perm ws') (x : Nat) :
    covered ws x = covered ws' x := by
  unfold covered
  induction hp with
  | nil => rfl
  | cons a _ ih => simp [List.any_cons, ih]
  | swap a b l => simp only [List.any_cons]; rw [← Bool.or_assoc, ← Bool.or_assoc, Bool.or_comm (_ && _) (_ && _)]
  | trans _ _ ih1 ih2 => rw [ih1, ih2]

/-- order independence: any reordering of the same writes leaves the same markers -/
theorem C22_tracker_order_independent (ws ws' : List (Nat × Nat)) (hp : ws.Perm ws') :
    run ws = run ws' := C22_tracker_canonical ws ws' (covered_perm hp)

/-- idempotence: repeating a write changes nothing -/
theorem C22_tracker_idempotent (ws : List (Nat × Nat)) (w : Nat × Nat) (hw : w ∈ ws) :
    run (ws ++ [w]) = run ws := by
  apply C22_tracker_canonical
  intro x
  rw [covered_append]
  cases hc : (decide (w.1 ≤ x) && decide (x < w.1 + w.2))
  · simp
  · have : covered ws x = true := by
      unfold covered; rw [List.any_eq_true]; exact ⟨w, hw, hc⟩
    simp [this]

example : run [(4, 2), (0, 3), (3, 1)] = run [(0, 6)] := by decide

end Tracker
