import DatamonVerif.Model.CafsSeq
import DatamonVerif.Props.C01
/-! C01 (sequential reads with ANY buffer sizes): the `Read` state machine of `Model/CafsSeq.lean`
delivers exactly the stored content, for every sequence of buffer sizes and every behaviour of the
store's blob reader (EOF convention, short reads). -/
namespace Cafs

theorem innerRead_le (m : RMode) (b : Bytes) (pos room : Nat) :
    (innerRead m b pos room).1 ≤ room ∧ (innerRead m b pos room).1 ≤ b.length - pos := by
  unfold innerRead
  by_cases h : b.length - pos = 0
  · simp [h]
  · simp only [h, if_false]
    by_cases hc : m.cap = 0 <;> simp only [hc, if_true, if_false] <;> constructor <;> omega

theorem innerRead_eof (m : RMode) (b : Bytes) (pos room : Nat) (hp : pos ≤ b.length)
    (h : (innerRead m b pos room).2 = true) : pos + (innerRead m b pos room).1 = b.length := by
  unfold innerRead at *
  by_cases h0 : b.length - pos = 0
  · simp only [h0, if_true] at h ⊢; omega
  · simp only [h0, if_false, Bool.and_eq_true, beq_iff_eq] at h ⊢
    by_cases hc : m.cap = 0 <;> simp only [hc, if_true, if_false] at h ⊢ <;> omega

theorem innerRead_progress (m : RMode) (b : Bytes) (pos room : Nat)
    (h : (innerRead m b pos room).2 = false) : room = 0 ∨ 0 < (innerRead m b pos room).1 := by
  unfold innerRead at *
  by_cases h0 : b.length - pos = 0
  · simp only [h0, if_true, Bool.or_eq_false_iff, bne_eq_false_iff_eq] at h
    exact Or.inl h.1
  · simp only [h0, if_false] at h ⊢
    by_cases hr : room = 0
    · exact Or.inl hr
    · right
      by_cases hc : m.cap = 0
      · simp only [hc, if_true]; omega
      · simp only [hc, if_false]; omega

/-- what the store serves for leaf `i`, unfolded -/
theorem serves_unfold (H : Hash) (v : Bool) (L : Nat) (s : Store) (keys cs : List Bytes)
    (hs : Serves (fetchLeaf H v L s keys) cs) (i : Nat) (hi : i < cs.length) :
    ∃ k, keys[i]? = some k ∧ s.get k = some cs[i] ∧
      (v && H (leafParams L keys.length i cs[i]) cs[i] != k) = false := by
  have h := hs i hi
  unfold fetchLeaf at h
  split at h
  · simp at h
  · rename_i k hk
    split at h
    · simp at h
    · rename_i b hb
      split at h
      · simp at h
      · rename_i hv
        simp only [Except.ok.injEq] at h
        subst h
        exact ⟨k, hk, hb, by simpa using hv⟩

/-- what is still to be delivered in state `st` -/
def rem (cs : List Bytes) (st : SR) : Bytes := ((cs.drop st.idx).flatten).drop st.pos

/-- states between two `Read` calls -/
def SInv (cs : List Bytes) (st : SR) : Prop :=
  (st.idx = cs.length ∧ st.opened = false ∧ (st.last = true ∨ cs.length = 0)) ∨
  (∃ h : st.idx < cs.length, st.sofar = 0 ∧ st.last = false ∧ st.pos ≤ (cs[st.idx]).length)

theorem rem_decomp (cs : List Bytes) (i pos : Nat) (hi : i < cs.length) (hp : pos ≤ (cs[i]).length) :
    ((cs.drop i).flatten).drop pos = (cs[i]).drop pos ++ (cs.drop (i + 1)).flatten := by
  rw [List.drop_eq_getElem_cons hi, List.flatten_cons, List.drop_append_of_le_length hp]

theorem take_split (l : Bytes) (n k : Nat) : l.take (n + k) = l.take n ++ (l.drop n).take k := by
  induction l generalizing n with
  | nil => simp
  | cons x xs ih =>
    cases n with
    | zero => simp
    | succ n =>
      have : n + 1 + k = (n + k) + 1 := by omega
      rw [this]
      simp [ih]

theorem loop_spec (m : RMode) (H : Hash) (v : Bool) (L : Nat) (s : Store) (keys cs : List Bytes) (want : Nat)
    (hlen : keys.length = cs.length) (hs : Serves (fetchLeaf H v L s keys) cs) :
    ∀ fuel (st : SR) (acc : Bytes), (hi : st.idx < cs.length) → st.pos ≤ (cs[st.idx]).length → st.sofar ≤ want →
      st.last = false → (want - st.sofar) + 2 * (cs.length - st.idx) ≤ fuel →
      (SR.loop m H v L s keys want fuel st acc).2.1 = acc ++ (rem cs st).take (want - st.sofar) ∧
      ((SR.loop m H v L s keys want fuel st acc).2.2 = .ok ∨ (SR.loop m H v L s keys want fuel st acc).2.2 = .eof) ∧
      ((SR.loop m H v L s keys want fuel st acc).2.2 = .ok → ((rem cs st).take (want - st.sofar)).length = want - st.sofar) ∧
      SInv cs (SR.loop m H v L s keys want fuel st acc).1 ∧
      rem cs (SR.loop m H v L s keys want fuel st acc).1 = (rem cs st).drop (want - st.sofar) ∧
      ((SR.loop m H v L s keys want fuel st acc).2.2 = .eof → rem cs (SR.loop m H v L s keys want fuel st acc).1 = []) := by
  intro fuel
  induction fuel with
  | zero => intro st acc hi _ _ _ hf; omega
  | succ f ih =>
    intro st acc hi hp hsf hlast hf
    obtain ⟨k, hk, hg, hv⟩ := serves_unfold H v L s keys cs hs st.idx hi
    have hR : rem cs st = (cs[st.idx]).drop st.pos ++ (cs.drop (st.idx + 1)).flatten := rem_decomp cs st.idx st.pos hi hp
    have hle := innerRead_le m (cs[st.idx]) st.pos (want - st.sofar)
    simp only [SR.loop, hk, hg]
    generalize hr : innerRead m (cs[st.idx]) st.pos (want - st.sofar) = r at *
    by_cases he : r.2 = true
    · -- end of blob
      have hfull : st.pos + r.1 = (cs[st.idx]).length := by
        have := innerRead_eof m (cs[st.idx]) st.pos (want - st.sofar) hp (by rw [hr]; exact he)
        rw [hr] at this; exact this
      have htake : (cs[st.idx]).take (st.pos + r.1) = cs[st.idx] := by rw [hfull]; exact List.take_length
      have hpiece : ((cs[st.idx]).drop st.pos).take r.1 = (cs[st.idx]).drop st.pos := by
        apply List.take_of_length_le; simp [List.length_drop]; omega
      have hdl : ((cs[st.idx]).drop st.pos).length = r.1 := by simp [List.length_drop]; omega
      simp only [he, if_true, htake, hv, Bool.false_eq_true, if_false, hpiece]
      by_cases hl : st.idx + 1 = keys.length
      · -- last blob
        have hrest : cs.drop (st.idx + 1) = [] := List.drop_eq_nil_of_le (by omega)
        have hR' : rem cs st = (cs[st.idx]).drop st.pos := by rw [hR, hrest]; simp
        have hRl : (rem cs st).length = r.1 := by rw [hR', hdl]
        have htk : (rem cs st).take (want - st.sofar) = rem cs st := List.take_of_length_le (by omega)
        have hl' : (st.idx + 1 == keys.length) = true := by simpa using hl
        simp only [hl', if_true]
        refine ⟨?_, ?_, ?_, ?_, ?_, ?_⟩
        · rw [htk, hR']
        · by_cases hn : r.1 = want <;> simp [hn]
        · intro hok
          by_cases hn : r.1 = want
          · rw [htk, hRl]; omega
          · simp [hn] at hok
        · left; exact ⟨by simp; omega, rfl, Or.inl rfl⟩
        · have : rem cs { idx := st.idx + 1, opened := false, pos := st.pos + r.1, last := true, sofar := st.sofar + r.1 } = [] := by
            unfold rem; simp [hrest]
          rw [this]; symm; apply List.drop_eq_nil_of_le; omega
        · intro _; unfold rem; simp [hrest]
      · -- move on to the next key
        have hl' : (st.idx + 1 == keys.length) = false := by simpa using hl
        have hi' : st.idx + 1 < cs.length := by omega
        simp only [hl', Bool.false_eq_true, if_false]
        have := ih { idx := st.idx + 1, opened := false, pos := 0, last := false, sofar := st.sofar + r.1 }
          (acc ++ (cs[st.idx]).drop st.pos) hi' (Nat.zero_le _) (by simp only; omega) rfl (by simp only; omega)
        have hrem' : rem cs { idx := st.idx + 1, opened := false, pos := 0, last := false, sofar := st.sofar + r.1 }
            = (cs.drop (st.idx + 1)).flatten := by unfold rem; simp
        simp only [hrem'] at this
        obtain ⟨h1, h2, h3, h4, h5, h6⟩ := this
        have hsplit : (rem cs st).take (want - st.sofar) = (cs[st.idx]).drop st.pos ++
            ((cs.drop (st.idx + 1)).flatten).take (want - (st.sofar + r.1)) := by
          rw [hR, List.take_append, hdl]
          have : ((cs[st.idx]).drop st.pos).take (want - st.sofar) = (cs[st.idx]).drop st.pos :=
            List.take_of_length_le (by omega)
          rw [this]
          congr 2; omega
        have hdsplit : (rem cs st).drop (want - st.sofar) =
            ((cs.drop (st.idx + 1)).flatten).drop (want - (st.sofar + r.1)) := by
          rw [hR, List.drop_append, hdl]
          have : ((cs[st.idx]).drop st.pos).drop (want - st.sofar) = [] := List.drop_eq_nil_of_le (by omega)
          rw [this]; simp only [List.nil_append]
          congr 1; omega
        refine ⟨?_, h2, ?_, h4, ?_, h6⟩
        · rw [h1, hsplit, List.append_assoc]
        · intro hok
          have := h3 hok
          rw [hsplit, List.length_append, hdl, this]; omega
        · rw [h5, hdsplit]
    · -- more of this blob remains (or nothing was asked)
      have he' : r.2 = false := by simpa using he
      have hprog : want - st.sofar = 0 ∨ 0 < r.1 := by
        have := innerRead_progress m (cs[st.idx]) st.pos (want - st.sofar) (by rw [hr]; exact he')
        rw [hr] at this; exact this
      have hpieceR : ((cs[st.idx]).drop st.pos).take r.1 = (rem cs st).take r.1 := by
        rw [hR, List.take_append_of_le_length]; simp [List.length_drop]; omega
      simp only [he', Bool.false_eq_true, if_false]
      by_cases hd : st.sofar + r.1 ≥ want
      · have hn : r.1 = want - st.sofar := by omega
        simp only [hd, if_true]
        have hremS : rem cs { st with opened := true, pos := st.pos + r.1, sofar := 0 } = (rem cs st).drop r.1 := by
          unfold rem; simp only [List.drop_drop]
        refine ⟨?_, Or.inl trivial, ?_, ?_, ?_, ?_⟩
        · rw [hpieceR, hn]
        · intro _
          rw [← hn, ← hpieceR]; simp [List.length_take, List.length_drop]; omega
        · right; exact ⟨hi, rfl, hlast, by simp only; omega⟩
        · rw [hremS, hn]
        · intro h; simp at h
      · simp only [hd, if_false]
        have hpos : 0 < r.1 := by omega
        have := ih { st with opened := true, pos := st.pos + r.1, sofar := st.sofar + r.1 }
          (acc ++ ((cs[st.idx]).drop st.pos).take r.1) hi (by simp only; omega) (by simp only; omega) hlast (by simp only; omega)
        have hremS : rem cs { st with opened := true, pos := st.pos + r.1, sofar := st.sofar + r.1 } = (rem cs st).drop r.1 := by
          unfold rem; simp only [List.drop_drop]
        simp only [hremS] at this
        obtain ⟨h1, h2, h3, h4, h5, h6⟩ := this
        have hsum : want - st.sofar = r.1 + (want - (st.sofar + r.1)) := by omega
        refine ⟨?_, h2, ?_, h4, ?_, h6⟩
        · rw [h1, hpieceR, List.append_assoc]
          congr 1
          conv => rhs; rw [hsum, take_split]
        · intro hok
          have h3' := h3 hok
          conv => lhs; rw [hsum, take_split]
          rw [List.length_append, h3']
          have : ((rem cs st).take r.1).length = r.1 := by
            rw [← hpieceR]; simp [List.length_take, List.length_drop]; omega
          rw [this]; omega
        · rw [h5, List.drop_drop]; congr 1; omega

/-- one `Read(data)` between two calls: delivers the next `len(data)` bytes of what remains;
    `nil` only with a full buffer; `io.EOF` only when nothing remains afterwards -/
theorem read_spec (m : RMode) (H : Hash) (v : Bool) (L : Nat) (s : Store) (keys cs : List Bytes) (want : Nat)
    (hlen : keys.length = cs.length) (hs : Serves (fetchLeaf H v L s keys) cs) (st : SR) (hinv : SInv cs st) :
    (SR.read m H v L s keys want st).2.1 = (rem cs st).take want ∧
    ((SR.read m H v L s keys want st).2.2 = .ok ∨ (SR.read m H v L s keys want st).2.2 = .eof) ∧
    ((SR.read m H v L s keys want st).2.2 = .ok → (SR.read m H v L s keys want st).2.1.length = want) ∧
    SInv cs (SR.read m H v L s keys want st).1 ∧
    rem cs (SR.read m H v L s keys want st).1 = (rem cs st).drop want ∧
    ((SR.read m H v L s keys want st).2.2 = .eof → rem cs (SR.read m H v L s keys want st).1 = []) := by
  rcases hinv with ⟨hidx, hop, hl⟩ | ⟨hi, hsf, hl, hp⟩
  · have hrem : rem cs st = [] := by
      have : cs.drop st.idx = [] := List.drop_eq_nil_of_le (by omega)
      unfold rem; rw [this]; simp
    have hc : ((st.last || keys.length == 0) && !st.opened) = true := by
      rcases hl with h | h
      · simp [h, hop]
      · simp [hlen, h, hop]
    simp only [SR.read, hc, if_true, hrem]
    refine ⟨by simp, Or.inr trivial, by intro h; simp at h, Or.inl ⟨hidx, hop, hl⟩, by simp, fun _ => trivial⟩
  · have hc : ((st.last || keys.length == 0) && !st.opened) = false := by
      have : keys.length ≠ 0 := by omega
      simp [hl, this]
    simp only [SR.read, hc, Bool.false_eq_true, if_false, hsf, List.replicate_zero]
    have := loop_spec m H v L s keys cs want hlen hs (want + 2 * keys.length + 2) st [] hi hp (by omega) hl (by omega)
    simp only [hsf, Nat.sub_zero, List.nil_append] at this
    obtain ⟨h1, h2, h3, h4, h5, h6⟩ := this
    exact ⟨h1, h2, fun hok => by rw [h1]; exact h3 hok, h4, h5, h6⟩

/-- **a caller's read loop with ANY buffer sizes** (zero-length buffers included): the bytes
    delivered are the next `sum bufs` bytes of the object; the loop never fails; it stops with
    `io.EOF` only after the whole remainder was delivered, and does so as soon as the buffers
    exceed the remainder. -/
theorem readSeq_spec (m : RMode) (H : Hash) (v : Bool) (L : Nat) (s : Store) (keys cs : List Bytes)
    (hlen : keys.length = cs.length) (hs : Serves (fetchLeaf H v L s keys) cs) :
    ∀ (bufs : List Nat) (st : SR), SInv cs st →
      (readSeq m H v L s keys bufs st).1 = (rem cs st).take bufs.sum ∧
      ((readSeq m H v L s keys bufs st).2 = .ok ∨ (readSeq m H v L s keys bufs st).2 = .eof) ∧
      ((readSeq m H v L s keys bufs st).2 = .ok → (readSeq m H v L s keys bufs st).1.length = bufs.sum) ∧
      ((readSeq m H v L s keys bufs st).2 = .eof → (readSeq m H v L s keys bufs st).1 = rem cs st) := by
  intro bufs
  induction bufs with
  | nil => intro st _; simp [readSeq]
  | cons w ws ih =>
    intro st hinv
    obtain ⟨h1, h2, h3, h4, h5, h6⟩ := read_spec m H v L s keys cs w hlen hs st hinv
    simp only [readSeq, List.sum_cons]
    generalize hr : SR.read m H v L s keys w st = res at *
    obtain ⟨st', out, r⟩ := res
    simp only at h1 h2 h3 h4 h5 h6
    rcases h2 with h2 | h2
    · subst h2
      obtain ⟨i1, i2, i3, i4⟩ := ih st' h4
      simp only
      refine ⟨?_, i2, ?_, ?_⟩
      · rw [i1, h1, h5, take_split]
      · intro hok; rw [List.length_append, h3 rfl, i3 hok]
      · intro he
        rw [i4 he, h1, h5]; exact List.take_append_drop _ _
    · subst h2
      simp only
      have hnil := h6 rfl
      rw [h5] at hnil
      have hle : (rem cs st).length ≤ w := by
        have := congrArg List.length hnil; simp at this; omega
      refine ⟨?_, Or.inr trivial, by intro h; simp at h, ?_⟩
      · rw [h1, List.take_of_length_le hle, List.take_of_length_le (by omega)]
      · intro _; rw [h1, List.take_of_length_le hle]

theorem sinv_init (cs : List Bytes) : SInv cs SR.init := by
  by_cases h : cs.length = 0
  · left; exact ⟨by simp [SR.init, h], rfl, Or.inr h⟩
  · right; exact ⟨by simp [SR.init]; omega, rfl, rfl, by simp [SR.init]⟩

/-- **C01, sequential reads with any buffer sizes**: for every object the store serves leaf by
    leaf (as `put` leaves it: `C01_put_then_readSeq`), every list of buffer sizes and every blob
    reader behaviour, the read loop delivers exactly `content.take (sum bufs)` without error, the
    whole content once it reports `io.EOF`, and it does report `io.EOF` once the buffers exceed
    the content. -/
theorem C01_readSeq_roundtrip (m : RMode) (H : Hash) (v : Bool) (L : Nat) (hL : 0 < L) (s : Store) (keys : List Bytes)
    (c : Bytes) (hlen : keys.length = (chunks L c).length) (hs : Serves (fetchLeaf H v L s keys) (chunks L c))
    (bufs : List Nat) :
    (readSeq m H v L s keys bufs SR.init).1 = c.take bufs.sum ∧
    ((readSeq m H v L s keys bufs SR.init).2 = .ok ∨ (readSeq m H v L s keys bufs SR.init).2 = .eof) ∧
    ((readSeq m H v L s keys bufs SR.init).2 = .eof → (readSeq m H v L s keys bufs SR.init).1 = c) ∧
    (c.length < bufs.sum → (readSeq m H v L s keys bufs SR.init).2 = .eof) := by
  have hrem : rem (chunks L c) SR.init = c := by
    unfold rem; simp [SR.init, flatten_chunks L hL c]
  obtain ⟨h1, h2, h3, h4⟩ := readSeq_spec m H v L s keys (chunks L c) hlen hs bufs SR.init (sinv_init _)
  rw [hrem] at h1 h4
  refine ⟨h1, h2, h4, ?_⟩
  intro hlt
  rcases h2 with h2 | h2
  · have := h3 h2
    rw [h1, List.length_take] at this
    omega
  · exact h2

end Cafs
