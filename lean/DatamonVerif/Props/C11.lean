import DatamonVerif.Model.Merge
import DatamonVerif.Generated.Facts

/-! C11 — diamond commit merges splits by latest write, keeping every losing version. -/
namespace Merge

/-! ### association lists -/

section AList
variable {κ ν : Type} [DecidableEq κ]

theorem aget_aset_same (k : κ) (v : ν) (l : List (κ × ν)) : aget k (aset k v l) = some v := by
  induction l with
  | nil => simp [aset, aget]
  | cons a r ih =>
    obtain ⟨k', v'⟩ := a
    by_cases h : k' = k
    · simp [aset, aget, h]
    · simp [aset, aget, h, ih]

theorem aget_aset_ne {k k' : κ} (h : k ≠ k') (v : ν) (l : List (κ × ν)) :
    aget k' (aset k v l) = aget k' l := by
  induction l with
  | nil => simp [aset, aget, h]
  | cons a r ih =>
    obtain ⟨k'', v'⟩ := a
    by_cases h1 : k'' = k
    · subst h1; simp [aset, aget, h]
    · by_cases h2 : k'' = k'
      · subst h2; simp [aset, aget, h1]
      · simp [aset, aget, h1, h2, ih]

theorem aget_aset (k k' : κ) (v : ν) (l : List (κ × ν)) :
    aget k' (aset k v l) = if k = k' then some v else aget k' l := by
  by_cases h : k = k'
  · subst h; simp [aget_aset_same]
  · simp [h, aget_aset_ne h]

theorem aset_absent (k : κ) (v : ν) (l : List (κ × ν)) (h : aget k l = none) :
    aset k v l = l ++ [(k, v)] := by
  induction l with
  | nil => simp [aset]
  | cons a r ih =>
    obtain ⟨k', v'⟩ := a
    by_cases h1 : k' = k
    · simp [aget, h1] at h
    · simp [aget, h1] at h
      simp [aset, h1, ih h]

end AList

/-! ### one iteration of the loop, by cases -/

/-- what the loop does to the main tree, whatever the mode -/
def mainStep (m : List (String × Upload)) (u : Upload) : List (String × Upload) :=
  match aget u.path m with
  | none => aset u.path u m
  | some ex => if ex.time < u.time then aset u.path u m else m

theorem keeps_iff (mode : Mode) : mode.keeps = true ↔ mode = .conflicts ∨ mode = .checkpoints := by
  cases mode <;> simp [Mode.keeps]

theorem step_cases {mode : Mode} {st st' : State} {u : Upload} (h : step mode st u = some st') :
    (aget u.path st.main = none ∧ st' = { st with main := aset u.path u st.main }) ∨
    (∃ ex, aget u.path st.main = some ex ∧ u.hash = ex.hash ∧
        st'.main = mainStep st.main u ∧ st'.conf = st.conf ∧ st'.flag = st.flag) ∨
    (∃ ex, aget u.path st.main = some ex ∧ u.hash ≠ ex.hash ∧ (mode = .ignore ∨ u.split = ex.split) ∧
        st'.main = mainStep st.main u ∧ st'.conf = st.conf ∧ st'.flag = st.flag) ∨
    (∃ ex, aget u.path st.main = some ex ∧ u.hash ≠ ex.hash ∧ u.split ≠ ex.split ∧ mode.keeps = true ∧
        ex.time < u.time ∧ st'.main = aset u.path u st.main ∧
        st'.conf = aset (ex.split, u.path) ex st.conf ∧ st'.flag = true) ∨
    (∃ ex, aget u.path st.main = some ex ∧ u.hash ≠ ex.hash ∧ u.split ≠ ex.split ∧ mode.keeps = true ∧
        ¬ ex.time < u.time ∧ st'.main = st.main ∧
        st'.conf = aset (u.split, u.path) u st.conf ∧ st'.flag = true) := by
  unfold step at h
  cases hg : aget u.path st.main with
  | none =>
    left
    simp only [hg] at h
    exact ⟨rfl, (Option.some.inj h).symm⟩
  | some ex =>
    right
    simp only [hg] at h
    by_cases hh : u.hash = ex.hash
    · left
      refine ⟨ex, rfl, hh, ?_⟩
      simp only [hh, if_true] at h
      by_cases ht : ex.time < u.time
      · simp only [ht, if_true] at h
        have := (Option.some.inj h).symm
        subst this
        simp [mainStep, hg, ht]
      · simp only [ht, if_false] at h
        have := (Option.some.inj h).symm
        subst this
        simp [mainStep, hg, ht]
    · right
      simp only [hh, if_false] at h
      by_cases ht : ex.time < u.time
      · simp only [ht, if_true] at h
        by_cases hi : mode = .ignore ∨ u.split = ex.split
        · left
          simp only [hi, if_true] at h
          have := (Option.some.inj h).symm
          subst this
          exact ⟨ex, rfl, hh, hi, by simp [mainStep, hg, ht], rfl, rfl⟩
        · right; left
          simp only [hi, if_false] at h
          have hi' := not_or.mp hi
          by_cases hf : mode = .forbid
          · simp [hf] at h
          · simp only [hf, if_false] at h
            have := (Option.some.inj h).symm
            subst this
            refine ⟨ex, rfl, hh, hi'.2, ?_, ht, rfl, rfl, rfl⟩
            cases mode <;> simp_all [Mode.keeps]
      · simp only [ht, if_false] at h
        by_cases hs : u.split = ex.split
        · left
          simp only [hs, if_true] at h
          have := (Option.some.inj h).symm
          subst this
          exact ⟨ex, rfl, hh, Or.inr hs, by simp [mainStep, hg, ht], rfl, rfl⟩
        · simp only [hs, if_false] at h
          cases mode with
          | ignore =>
            left
            have := (Option.some.inj h).symm
            subst this
            exact ⟨ex, rfl, hh, Or.inl rfl, by simp [mainStep, hg, ht], rfl, rfl⟩
          | forbid => simp at h
          | conflicts =>
            right; right
            have := (Option.some.inj h).symm
            subst this
            exact ⟨ex, rfl, hh, hs, rfl, ht, rfl, rfl, rfl⟩
          | checkpoints =>
            right; right
            have := (Option.some.inj h).symm
            subst this
            exact ⟨ex, rfl, hh, hs, rfl, ht, rfl, rfl, rfl⟩

theorem step_main {mode : Mode} {st st' : State} {u : Upload} (h : step mode st u = some st') :
    st'.main = mainStep st.main u := by
  rcases step_cases h with ⟨hg, rfl⟩ | ⟨ex, hg, _, hm, _⟩ | ⟨ex, hg, _, _, hm, _⟩ |
      ⟨ex, hg, _, _, _, ht, hm, _⟩ | ⟨ex, hg, _, _, _, ht, hm, _⟩
  · simp [mainStep, hg]
  · exact hm
  · exact hm
  · simp [mainStep, hg, ht, hm]
  · simp [mainStep, hg, ht, hm]

/-- the loop gives up only in forbid mode, on an entry whose content differs from the stored
    version of another split -/
theorem step_none {mode : Mode} {st : State} {u : Upload} :
    step mode st u = none ↔
      mode = .forbid ∧ ∃ ex, aget u.path st.main = some ex ∧ u.hash ≠ ex.hash ∧ u.split ≠ ex.split := by
  unfold step
  cases hg : aget u.path st.main with
  | none => simp
  | some ex =>
    by_cases hh : u.hash = ex.hash
    · by_cases ht : ex.time < u.time <;> simp [hh, ht]
    · by_cases ht : ex.time < u.time
      · by_cases hs : u.split = ex.split
        · simp [hh, ht, hs]
        · cases mode <;> simp [hh, ht, hs]
      · by_cases hs : u.split = ex.split
        · simp [hh, ht, hs]
        · cases mode <;> simp [hh, ht, hs]

theorem run_nil (mode : Mode) (st : State) : run mode st [] = some st := rfl

theorem run_cons {mode : Mode} {st st' : State} {u : Upload} {us : List Upload} :
    run mode st (u :: us) = some st' ↔ ∃ st1, step mode st u = some st1 ∧ run mode st1 us = some st' := by
  simp only [run]
  cases step mode st u with
  | none => simp
  | some st1 => simp

theorem run_append {mode : Mode} {st st' : State} {us vs : List Upload} :
    run mode st (us ++ vs) = some st' ↔ ∃ st1, run mode st us = some st1 ∧ run mode st1 vs = some st' := by
  induction us generalizing st with
  | nil => simp [run]
  | cons u us ih =>
    simp only [List.cons_append, run_cons, ih]
    constructor
    · rintro ⟨a, ha, b, hb, hc⟩; exact ⟨b, ⟨a, ha, hb⟩, hc⟩
    · rintro ⟨b, ⟨a, ha, hb⟩, hc⟩; exact ⟨a, ha, b, hb, hc⟩

/-- the main tree evolves in the same way in every mode -/
theorem run_main {mode : Mode} {st st' : State} {us : List Upload} (h : run mode st us = some st') :
    st'.main = us.foldl mainStep st.main := by
  induction us generalizing st with
  | nil => simp [run] at h; subst h; rfl
  | cons u us ih =>
    obtain ⟨st1, h1, h2⟩ := run_cons.mp h
    rw [List.foldl_cons, ← step_main h1]
    exact ih h2

/-- outside forbid mode the loop never gives up -/
theorem run_total {mode : Mode} (hm : mode ≠ .forbid) (st : State) (us : List Upload) :
    ∃ st', run mode st us = some st' := by
  induction us generalizing st with
  | nil => exact ⟨st, rfl⟩
  | cons u us ih =>
    cases hs : step mode st u with
    | none => exact absurd (step_none.mp hs).1 hm
    | some st1 =>
      obtain ⟨st', h⟩ := ih st1
      exact ⟨st', run_cons.mpr ⟨st1, hs, h⟩⟩

/-! ### the main tree holds the latest upload of every path -/

/-- `m` holds, for every path uploaded in `done`, an upload of that path with the greatest time -/
def MainInv (m : List (String × Upload)) (done : List Upload) : Prop :=
  (∀ p x, aget p m = some x → x ∈ done ∧ x.path = p ∧ ∀ v ∈ done, v.path = p → v.time ≤ x.time) ∧
  (∀ p, aget p m = none → ∀ v ∈ done, v.path ≠ p)

theorem MainInv_congr {m : List (String × Upload)} {a b : List Upload} (hab : ∀ x, x ∈ a ↔ x ∈ b)
    (h : MainInv m a) : MainInv m b := by
  refine ⟨fun p x hx => ?_, fun p hp v hv => h.2 p hp v ((hab v).mpr hv)⟩
  obtain ⟨h1, h2, h3⟩ := h.1 p x hx
  exact ⟨(hab x).mp h1, h2, fun v hv => h3 v ((hab v).mpr hv)⟩

theorem MainInv_nil : MainInv [] [] := by
  refine ⟨fun p x hx => ?_, fun p _ v hv => ?_⟩
  · simp [aget] at hx
  · simp at hv

theorem mainStep_inv {m : List (String × Upload)} {done : List Upload} (u : Upload)
    (h : MainInv m done) : MainInv (mainStep m u) (u :: done) := by
  unfold mainStep
  cases hg : aget u.path m with
  | none =>
    simp only
    refine ⟨fun p x hx => ?_, fun p hp v hv => ?_⟩
    · rw [aget_aset] at hx
      by_cases hp : u.path = p
      · simp only [hp, if_true] at hx
        have := Option.some.inj hx; subst this
        refine ⟨by simp, hp, fun v hv hvp => ?_⟩
        rcases List.mem_cons.mp hv with rfl | hv
        · exact Nat.le_refl _
        · exact absurd (hvp.trans hp.symm) (h.2 _ hg v hv)
      · simp only [hp, if_false] at hx
        obtain ⟨h1, h2, h3⟩ := h.1 p x hx
        refine ⟨List.mem_cons_of_mem _ h1, h2, fun v hv hvp => ?_⟩
        rcases List.mem_cons.mp hv with rfl | hv
        · exact absurd hvp hp
        · exact h3 v hv hvp
    · rw [aget_aset] at hp
      by_cases hpp : u.path = p
      · simp [hpp] at hp
      · simp only [hpp, if_false] at hp
        rcases List.mem_cons.mp hv with rfl | hv
        · exact hpp
        · exact h.2 p hp v hv
  | some ex =>
    simp only
    obtain ⟨e1, e2, e3⟩ := h.1 _ _ hg
    by_cases ht : ex.time < u.time
    · simp only [ht, if_true]
      refine ⟨fun p x hx => ?_, fun p hp v hv => ?_⟩
      · rw [aget_aset] at hx
        by_cases hp : u.path = p
        · simp only [hp, if_true] at hx
          have := Option.some.inj hx; subst this
          refine ⟨by simp, hp, fun v hv hvp => ?_⟩
          rcases List.mem_cons.mp hv with rfl | hv
          · exact Nat.le_refl _
          · have := e3 v hv (hvp.trans hp.symm); omega
        · simp only [hp, if_false] at hx
          obtain ⟨h1, h2, h3⟩ := h.1 p x hx
          refine ⟨List.mem_cons_of_mem _ h1, h2, fun v hv hvp => ?_⟩
          rcases List.mem_cons.mp hv with rfl | hv
          · exact absurd hvp hp
          · exact h3 v hv hvp
      · rw [aget_aset] at hp
        by_cases hpp : u.path = p
        · simp [hpp] at hp
        · simp only [hpp, if_false] at hp
          rcases List.mem_cons.mp hv with rfl | hv
          · exact hpp
          · exact h.2 p hp v hv
    · simp only [ht, if_false]
      refine ⟨fun p x hx => ?_, fun p hp v hv => ?_⟩
      · obtain ⟨h1, h2, h3⟩ := h.1 p x hx
        refine ⟨List.mem_cons_of_mem _ h1, h2, fun v hv hvp => ?_⟩
        rcases List.mem_cons.mp hv with rfl | hv
        · have : x = ex := by
            rw [← hvp] at hx; rw [hx] at hg; exact Option.some.inj hg
          subst this; omega
        · exact h3 v hv hvp
      · rcases List.mem_cons.mp hv with rfl | hv
        · intro hvp; rw [← hvp] at hp; rw [hp] at hg; cases hg
        · exact h.2 p hp v hv

theorem foldl_mainStep_inv {m : List (String × Upload)} {done : List Upload} (us : List Upload)
    (h : MainInv m done) : MainInv (us.foldl mainStep m) (done ++ us) := by
  induction us generalizing m done with
  | nil => simpa using h
  | cons u us ih =>
    rw [List.foldl_cons]
    have := ih (mainStep_inv u h)
    refine MainInv_congr (fun x => ?_) this
    simp only [List.mem_append, List.mem_cons]
    constructor
    · rintro ((rfl | h) | h)
      · exact Or.inr (Or.inl rfl)
      · exact Or.inl h
      · exact Or.inr (Or.inr h)
    · rintro (h | rfl | h)
      · exact Or.inl (Or.inr h)
      · exact Or.inl (Or.inl rfl)
      · exact Or.inr h

/-! ### the specification function `latest` -/

theorem latest_none {p : String} {us : List Upload} :
    latest p us = none ↔ ∀ v ∈ us, v.path ≠ p := by
  induction us with
  | nil => simp [latest]
  | cons u us ih =>
    unfold latest
    by_cases hp : u.path = p
    · simp only [hp, if_true]
      constructor
      · intro h; cases hl : latest p us <;> simp [hl] at h
      · intro h; exact absurd hp (h u (by simp))
    · simp only [hp, if_false, ih, List.mem_cons]
      constructor
      · rintro h v (rfl | hv)
        · exact hp
        · exact h v hv
      · intro h v hv; exact h v (Or.inr hv)

theorem latest_some {p : String} {us : List Upload} {w : Upload} (h : latest p us = some w) :
    w ∈ us ∧ w.path = p ∧ ∀ v ∈ us, v.path = p → v.time ≤ w.time := by
  induction us generalizing w with
  | nil => simp [latest] at h
  | cons u us ih =>
    unfold latest at h
    by_cases hp : u.path = p
    · simp only [hp, if_true] at h
      cases hl : latest p us with
      | none =>
        simp only [hl] at h
        have := Option.some.inj h; subst this
        refine ⟨by simp, hp, fun v hv hvp => ?_⟩
        rcases List.mem_cons.mp hv with rfl | hv
        · exact Nat.le_refl _
        · exact absurd hvp (latest_none.mp hl v hv)
      | some x =>
        simp only [hl] at h
        obtain ⟨x1, x2, x3⟩ := ih hl
        have hw := (Option.some.inj h).symm
        unfold better at hw
        by_cases ht : u.time < x.time
        · simp only [ht, if_true] at hw; subst hw
          refine ⟨List.mem_cons_of_mem _ x1, x2, fun v hv hvp => ?_⟩
          rcases List.mem_cons.mp hv with rfl | hv
          · omega
          · exact x3 v hv hvp
        · simp only [ht, if_false] at hw; subst hw
          refine ⟨by simp, hp, fun v hv hvp => ?_⟩
          rcases List.mem_cons.mp hv with rfl | hv
          · exact Nat.le_refl _
          · have := x3 v hv hvp; omega
    · simp only [hp, if_false] at h
      obtain ⟨x1, x2, x3⟩ := ih h
      refine ⟨List.mem_cons_of_mem _ x1, x2, fun v hv hvp => ?_⟩
      rcases List.mem_cons.mp hv with rfl | hv
      · exact absurd hvp hp
      · exact x3 v hv hvp

/-- with distinct times the latest upload of a path is unique -/
theorem latest_unique {us : List Upload} (hd : TimesDistinct us) {p : String} {a b : Upload}
    (ha : a ∈ us ∧ a.path = p ∧ ∀ v ∈ us, v.path = p → v.time ≤ a.time)
    (hb : b ∈ us ∧ b.path = p ∧ ∀ v ∈ us, v.path = p → v.time ≤ b.time) : a = b := by
  have h1 := ha.2.2 b hb.1 hb.2.1
  have h2 := hb.2.2 a ha.1 ha.2.1
  exact hd a ha.1 b hb.1 (ha.2.1.trans hb.2.1.symm) (by omega)

/-- a map satisfying `MainInv` is the map `latest` (with distinct times) -/
theorem MainInv_latest {m : List (String × Upload)} {us : List Upload} (hd : TimesDistinct us)
    (h : MainInv m us) (p : String) : aget p m = latest p us := by
  cases hg : aget p m with
  | none => exact (latest_none.mpr (h.2 p hg)).symm
  | some x =>
    cases hl : latest p us with
    | none => exact absurd (h.1 p x hg).2.1 (latest_none.mp hl x (h.1 p x hg).1)
    | some w => rw [latest_unique hd (h.1 p x hg) (latest_some hl)]

theorem run_MainInv {mode : Mode} {st' : State} {us : List Upload}
    (h : run mode State.empty us = some st') : MainInv st'.main us := by
  rw [run_main h]
  have := foldl_mainStep_inv us MainInv_nil
  simpa [State.empty] using this

/-! ### lookups after one step of the main tree -/

theorem aget_mainStep_ne {m : List (String × Upload)} {u : Upload} {p : String} (hp : u.path ≠ p) :
    aget p (mainStep m u) = aget p m := by
  unfold mainStep
  cases aget u.path m with
  | none => simp only; exact aget_aset_ne hp _ _
  | some ex =>
    simp only
    by_cases ht : ex.time < u.time
    · simp only [ht, if_true]; exact aget_aset_ne hp _ _
    · simp only [ht, if_false]

theorem aget_mainStep_self {m : List (String × Upload)} {u ex : Upload} (hg : aget u.path m = some ex) :
    aget u.path (mainStep m u) = some (if ex.time < u.time then u else ex) := by
  unfold mainStep
  simp only [hg]
  by_cases ht : ex.time < u.time
  · simp only [ht, if_true]; exact aget_aset_same _ _ _
  · simp only [ht, if_false]; exact hg

/-! ### conflict entries and the conflict flag: what holds for every input -/

theorem HasConflict_mono {a b : List Upload} (hab : ∀ x ∈ a, x ∈ b) (h : HasConflict a) : HasConflict b := by
  obtain ⟨u, hu, v, hv, hh⟩ := h
  exact ⟨u, hab u hu, v, hab v hv, hh⟩

/-- every deconflicted entry is an upload filed under its own split and path, and some other split
    uploaded different content for that path; the flag is raised only on such a conflict -/
structure Sound (mode : Mode) (st : State) (done : List Upload) : Prop where
  conf : ∀ k v, aget k st.conf = some v → v ∈ done ∧ k = (v.split, v.path) ∧ mode.keeps = true ∧
      ∃ w ∈ done, w.path = v.path ∧ w.hash ≠ v.hash ∧ w.split ≠ v.split
  flag : st.flag = true → mode.keeps = true ∧ HasConflict done

theorem Sound_empty (mode : Mode) : Sound mode State.empty [] :=
  ⟨fun k v h => by simp [State.empty, aget] at h, fun h => by simp [State.empty] at h⟩

theorem Sound_mono {mode : Mode} {st st' : State} {a b : List Upload} (hab : ∀ x ∈ a, x ∈ b)
    (hc : st'.conf = st.conf) (hf : st'.flag = st.flag) (h : Sound mode st a) : Sound mode st' b := by
  refine ⟨fun k v hk => ?_, fun hfl => ?_⟩
  · rw [hc] at hk
    obtain ⟨h1, h2, h3, w, hw, h4⟩ := h.conf k v hk
    exact ⟨hab v h1, h2, h3, w, hab w hw, h4⟩
  · rw [hf] at hfl
    exact ⟨(h.flag hfl).1, HasConflict_mono hab (h.flag hfl).2⟩

theorem step_Sound {mode : Mode} {st st' : State} {u : Upload} {done : List Upload}
    (hI : MainInv st.main done) (hS : Sound mode st done) (h : step mode st u = some st') :
    Sound mode st' (u :: done) := by
  have hsub : ∀ x ∈ done, x ∈ u :: done := fun x hx => List.mem_cons_of_mem _ hx
  rcases step_cases h with ⟨hg, rfl⟩ | ⟨ex, hg, _, hm, hc, hf⟩ | ⟨ex, hg, _, _, hm, hc, hf⟩ |
      ⟨ex, hg, hh, hs, hk, ht, hm, hc, hf⟩ | ⟨ex, hg, hh, hs, hk, ht, hm, hc, hf⟩
  · exact Sound_mono (st := st) hsub rfl rfl hS
  · exact Sound_mono hsub hc hf hS
  · exact Sound_mono hsub hc hf hS
  · obtain ⟨e1, e2, _⟩ := hI.1 _ _ hg
    have hconf : HasConflict (u :: done) :=
      ⟨u, by simp, ex, hsub ex e1, e2.symm, hs, hh⟩
    refine ⟨fun k v hkv => ?_, fun _ => ⟨hk, hconf⟩⟩
    rw [hc, aget_aset] at hkv
    by_cases hkey : (ex.split, u.path) = k
    · simp only [hkey, if_true] at hkv
      have := Option.some.inj hkv; subst this
      exact ⟨hsub _ e1, by rw [← hkey, e2], hk, u, by simp, e2.symm, hh, hs⟩
    · simp only [hkey, if_false] at hkv
      obtain ⟨h1, h2, h3, w, hw, h4⟩ := hS.conf k v hkv
      exact ⟨hsub v h1, h2, h3, w, hsub w hw, h4⟩
  · obtain ⟨e1, e2, _⟩ := hI.1 _ _ hg
    have hconf : HasConflict (u :: done) :=
      ⟨u, by simp, ex, hsub ex e1, e2.symm, hs, hh⟩
    refine ⟨fun k v hkv => ?_, fun _ => ⟨hk, hconf⟩⟩
    rw [hc, aget_aset] at hkv
    by_cases hkey : (u.split, u.path) = k
    · simp only [hkey, if_true] at hkv
      have := Option.some.inj hkv; subst this
      exact ⟨by simp, hkey.symm, hk, ex, hsub _ e1, e2, fun e => hh e.symm, fun e => hs e.symm⟩
    · simp only [hkey, if_false] at hkv
      obtain ⟨h1, h2, h3, w, hw, h4⟩ := hS.conf k v hkv
      exact ⟨hsub v h1, h2, h3, w, hsub w hw, h4⟩

/-- invariants of a whole run from the empty index -/
theorem run_Sound_aux {mode : Mode} {st st' : State} {done us : List Upload}
    (hI : MainInv st.main done) (hS : Sound mode st done) (h : run mode st us = some st') :
    MainInv st'.main (done ++ us) ∧ Sound mode st' (done ++ us) := by
  induction us generalizing st done with
  | nil => simp [run] at h; subst h; simpa using ⟨hI, hS⟩
  | cons u us ih =>
    obtain ⟨st1, h1, h2⟩ := run_cons.mp h
    have hI1 : MainInv st1.main (u :: done) := by rw [step_main h1]; exact mainStep_inv u hI
    have hS1 := step_Sound hI hS h1
    obtain ⟨a, b⟩ := ih hI1 hS1 h2
    have hmem : ∀ x, x ∈ u :: done ++ us ↔ x ∈ done ++ u :: us := by
      intro x; simp only [List.cons_append, List.mem_cons, List.mem_append]
      constructor
      · rintro (rfl | h | h)
        · exact Or.inr (Or.inl rfl)
        · exact Or.inl h
        · exact Or.inr (Or.inr h)
      · rintro (h | rfl | h)
        · exact Or.inr (Or.inl h)
        · exact Or.inl rfl
        · exact Or.inr (Or.inr h)
    refine ⟨MainInv_congr hmem a, ?_⟩
    exact Sound_mono (fun x hx => (hmem x).mp hx) rfl rfl b

theorem run_Sound {mode : Mode} {st' : State} {us : List Upload}
    (h : run mode State.empty us = some st') : Sound mode st' us := by
  have := (run_Sound_aux (done := []) MainInv_nil (Sound_empty mode) h).2
  simpa using this

/-! ### with `SplitUnique`: as long as no conflict was met, all uploads of a path are identical -/

/-- every upload seen so far has the content of the stored version of its path -/
def AllSame (st : State) (done : List Upload) : Prop :=
  ∀ v ∈ done, ∀ m, aget v.path st.main = some m → v.hash = m.hash

theorem step_AllSame {mode : Mode} {st st' : State} {u : Upload} {done : List Upload}
    (hm : mode ≠ .ignore)
    (hsu : ∀ ex ∈ done, u.split = ex.split → u.path = ex.path → u = ex)
    (hI : MainInv st.main done) (hA : st.flag = false → AllSame st done)
    (h : step mode st u = some st') : st'.flag = false → AllSame st' (u :: done) := by
  intro hf'
  rcases step_cases h with ⟨hg, rfl⟩ | ⟨ex, hg, hh, hmn, hc, hf⟩ | ⟨ex, hg, hh, hi, hmn, hc, hf⟩ |
      ⟨ex, hg, hh, hs, hk, ht, hmn, hc, hf⟩ | ⟨ex, hg, hh, hs, hk, ht, hmn, hc, hf⟩
  · -- absent
    intro v hv m hgm
    simp only at hgm
    rw [aget_aset] at hgm
    by_cases hp : u.path = v.path
    · simp only [hp, if_true] at hgm
      have := Option.some.inj hgm; subst this
      rcases List.mem_cons.mp hv with rfl | hv
      · rfl
      · exact absurd hp.symm (hI.2 _ hg v hv)
    · simp only [hp, if_false] at hgm
      rcases List.mem_cons.mp hv with rfl | hv
      · exact absurd rfl hp
      · exact hA hf' v hv m hgm
  · -- identical content
    rw [hf] at hf'
    intro v hv m hgm
    rw [hmn] at hgm
    by_cases hp : u.path = v.path
    · rw [← hp, aget_mainStep_self hg] at hgm
      have hmh : m.hash = ex.hash := by
        have := (Option.some.inj hgm).symm; subst this
        by_cases ht : ex.time < u.time <;> simp [ht, hh]
      rcases List.mem_cons.mp hv with rfl | hv
      · rw [hmh, hh]
      · rw [hmh]; exact hA hf' v hv ex (by rw [← hp]; exact hg)
    · rw [aget_mainStep_ne hp] at hgm
      rcases List.mem_cons.mp hv with rfl | hv
      · exact absurd rfl hp
      · exact hA hf' v hv m hgm
  · -- different content, conflict not considered: impossible here
    obtain ⟨e1, e2, _⟩ := hI.1 _ _ hg
    rcases hi with hi | hi
    · exact absurd hi hm
    · have := hsu ex e1 hi e2.symm
      subst this; exact absurd rfl hh
  · rw [hf] at hf'; cases hf'
  · rw [hf] at hf'; cases hf'

theorem run_AllSame_aux {mode : Mode} {st st' : State} {done us : List Upload}
    (hm : mode ≠ .ignore) (hsu : SplitUnique (done ++ us))
    (hI : MainInv st.main done) (hA : st.flag = false → AllSame st done)
    (h : run mode st us = some st') : st'.flag = false → AllSame st' (done ++ us) := by
  induction us generalizing st done with
  | nil => simp [run] at h; subst h; simpa using hA
  | cons u us ih =>
    obtain ⟨st1, h1, h2⟩ := run_cons.mp h
    have hI1 : MainInv st1.main (u :: done) := by rw [step_main h1]; exact mainStep_inv u hI
    have hsu1 : ∀ ex ∈ done, u.split = ex.split → u.path = ex.path → u = ex :=
      fun ex hex => hsu u (by simp) ex (by simp [hex])
    have hA1 := step_AllSame hm hsu1 hI hA h1
    have hmem : ∀ x, x ∈ u :: done ++ us ↔ x ∈ done ++ u :: us := by
      intro x; simp only [List.cons_append, List.mem_cons, List.mem_append]
      constructor
      · rintro (rfl | h | h)
        · exact Or.inr (Or.inl rfl)
        · exact Or.inl h
        · exact Or.inr (Or.inr h)
      · rintro (h | rfl | h)
        · exact Or.inr (Or.inl h)
        · exact Or.inl rfl
        · exact Or.inr (Or.inr h)
    have hsu' : SplitUnique (u :: done ++ us) :=
      fun a ha b hb => hsu a ((hmem a).mp ha) b ((hmem b).mp hb)
    intro hf v hv
    exact ih hsu' hI1 hA1 h2 hf v ((hmem v).mpr hv)

theorem run_AllSame {mode : Mode} {st' : State} {us : List Upload}
    (hm : mode ≠ .ignore) (hsu : SplitUnique us)
    (h : run mode State.empty us = some st') (hf : st'.flag = false) : AllSame st' us := by
  have := run_AllSame_aux (done := []) (st := State.empty) hm (by simpa using hsu) MainInv_nil
    (fun _ v hv => by simp at hv) h hf
  simpa using this

/-- no conflict among uploads that all have the content of the stored version -/
theorem AllSame_no_conflict {st : State} {us : List Upload} (hI : MainInv st.main us)
    (hA : AllSame st us) : ¬ HasConflict us := by
  rintro ⟨u, hu, v, hv, hp, _, hh⟩
  cases hg : aget u.path st.main with
  | none => exact hI.2 _ hg u hu rfl
  | some m =>
    have h1 := hA u hu m hg
    have h2 := hA v hv m (by rw [← hp]; exact hg)
    exact hh (h1.trans h2.symm)

/-! ### forbid mode -/

theorem run_forbid_succeeds_aux {st : State} {done us : List Upload}
    (hI : MainInv st.main done) (hn : ¬ HasConflict (done ++ us)) :
    ∃ st', run .forbid st us = some st' := by
  induction us generalizing st done with
  | nil => exact ⟨st, rfl⟩
  | cons u us ih =>
    cases hs : step .forbid st u with
    | none =>
      obtain ⟨_, ex, hg, hh, hsp⟩ := step_none.mp hs
      obtain ⟨e1, e2, _⟩ := hI.1 _ _ hg
      exact absurd ⟨u, by simp, ex, by simp [e1], e2.symm, hsp, hh⟩ hn
    | some st1 =>
      have hI1 : MainInv st1.main (u :: done) := by rw [step_main hs]; exact mainStep_inv u hI
      have hn1 : ¬ HasConflict (u :: done ++ us) := by
        intro hc; apply hn
        refine HasConflict_mono (fun x hx => ?_) hc
        simp only [List.cons_append, List.mem_cons, List.mem_append] at hx ⊢
        rcases hx with rfl | h | h
        · exact Or.inr (Or.inl rfl)
        · exact Or.inl h
        · exact Or.inr (Or.inr h)
      obtain ⟨st', h⟩ := ih hI1 hn1
      exact ⟨st', run_cons.mpr ⟨st1, hs, h⟩⟩

/-! ### conflict / checkpoint modes on the domain of the known finding -/

/-- the deconflicted entries are exactly the uploads whose content differs from the stored version
    of their path, each under its own split -/
structure Exact (st : State) (done : List Upload) : Prop where
  complete : ∀ v ∈ done, ∀ m, aget v.path st.main = some m → v.hash ≠ m.hash →
      aget (v.split, v.path) st.conf = some v
  only : ∀ k v, aget k st.conf = some v → ∃ m, aget v.path st.main = some m ∧ v.hash ≠ m.hash

theorem step_Exact {mode : Mode} {st st' : State} {u : Upload} {done all : List Upload}
    (hk : mode.keeps = true) (hsu : SplitUnique all) (hnt : ¬ Trigger all)
    (hsub : ∀ x ∈ done, x ∈ all) (hu : u ∈ all)
    (hI : MainInv st.main done) (hS : Sound mode st done) (hE : Exact st done)
    (h : step mode st u = some st') : Exact st' (u :: done) := by
  rcases step_cases h with ⟨hg, rfl⟩ | ⟨ex, hg, hh, hmn, hc, hf⟩ | ⟨ex, hg, hh, hi, hmn, hc, hf⟩ |
      ⟨ex, hg, hh, hs, _, ht, hmn, hc, hf⟩ | ⟨ex, hg, hh, hs, _, ht, hmn, hc, hf⟩
  · -- absent
    refine ⟨fun v hv m hgm hne => ?_, fun k v hkv => ?_⟩
    · simp only at hgm ⊢
      rw [aget_aset] at hgm
      by_cases hp : u.path = v.path
      · simp only [hp, if_true] at hgm
        have := Option.some.inj hgm; subst this
        rcases List.mem_cons.mp hv with rfl | hv
        · exact absurd rfl hne
        · exact absurd hp.symm (hI.2 _ hg v hv)
      · simp only [hp, if_false] at hgm
        rcases List.mem_cons.mp hv with rfl | hv
        · exact absurd rfl hp
        · exact hE.complete v hv m hgm hne
    · simp only at hkv ⊢
      obtain ⟨m, hm1, hm2⟩ := hE.only k v hkv
      have hp : u.path ≠ v.path := by intro e; rw [← e, hg] at hm1; cases hm1
      exact ⟨m, by rw [aget_aset_ne hp]; exact hm1, hm2⟩
  · -- identical content
    have hnew : ∀ m', aget u.path st'.main = some m' → m'.hash = ex.hash := by
      intro m' hm'
      rw [hmn, aget_mainStep_self hg] at hm'
      have := (Option.some.inj hm').symm; subst this
      by_cases ht : ex.time < u.time <;> simp [ht, hh]
    refine ⟨fun v hv m hgm hne => ?_, fun k v hkv => ?_⟩
    · rw [hc]
      by_cases hp : u.path = v.path
      · have hmh := hnew m (by rw [hp]; exact hgm)
        rcases List.mem_cons.mp hv with rfl | hv
        · exact absurd (hh.trans hmh.symm) hne
        · exact hE.complete v hv ex (by rw [← hp]; exact hg) (by rw [← hmh]; exact hne)
      · rw [hmn, aget_mainStep_ne hp] at hgm
        rcases List.mem_cons.mp hv with rfl | hv
        · exact absurd rfl hp
        · exact hE.complete v hv m hgm hne
    · rw [hc] at hkv
      obtain ⟨m, hm1, hm2⟩ := hE.only k v hkv
      by_cases hp : u.path = v.path
      · rw [← hp, hg] at hm1
        have := (Option.some.inj hm1).symm; subst this
        rw [hmn, ← hp, aget_mainStep_self hg]
        refine ⟨_, rfl, ?_⟩
        by_cases ht : m.time < u.time <;> simp [ht, hh, hm2]
      · exact ⟨m, by rw [hmn, aget_mainStep_ne hp]; exact hm1, hm2⟩
  · -- different content, conflict not considered: impossible here
    obtain ⟨e1, e2, _⟩ := hI.1 _ _ hg
    rcases hi with hi | hi
    · subst hi; simp [Mode.keeps] at hk
    · have := hsu u hu ex (hsub ex e1) hi e2.symm
      subst this; exact absurd rfl hh
  · -- more recent: the stored version is filed under its own split
    obtain ⟨e1, e2, e3⟩ := hI.1 _ _ hg
    refine ⟨fun v hv m hgm hne => ?_, fun k v hkv => ?_⟩
    · rw [hc]
      rw [hmn, aget_aset] at hgm
      by_cases hp : u.path = v.path
      · simp only [hp, if_true] at hgm
        have := (Option.some.inj hgm).symm; subst this
        rcases List.mem_cons.mp hv with rfl | hv
        · exact absurd rfl hne
        · by_cases hve : v = ex
          · subst hve; rw [← hp]; exact aget_aset_same _ _ _
          · by_cases hvh : v.hash = ex.hash
            · exfalso; apply hnt
              refine ⟨v, hsub v hv, ex, hsub ex e1, m, hu, ?_, hp, hve, hvh, ?_, ?_⟩
              · rw [e2, hp]
              · rw [hvh]; exact hh
              · have := e3 v hv hp.symm; omega
            · have hold := hE.complete v hv ex (by rw [← hp]; exact hg) hvh
              have hkey : (ex.split, m.path) ≠ (v.split, v.path) := by
                intro e
                have es : ex.split = v.split := congrArg Prod.fst e
                exact hve (hsu v (hsub v hv) ex (hsub ex e1) es.symm (by rw [e2, hp]))
              rw [aget_aset_ne hkey]; exact hold
      · simp only [hp, if_false] at hgm
        rcases List.mem_cons.mp hv with rfl | hv
        · exact absurd rfl hp
        · have hold := hE.complete v hv m hgm hne
          have hkey : (ex.split, u.path) ≠ (v.split, v.path) := by
            intro e; exact hp (congrArg Prod.snd e)
          rw [aget_aset_ne hkey]; exact hold
    · rw [hc, aget_aset] at hkv
      by_cases hkey : (ex.split, u.path) = k
      · simp only [hkey, if_true] at hkv
        have := Option.some.inj hkv; subst this
        refine ⟨u, ?_, fun e => hh e.symm⟩
        rw [hmn, e2]; exact aget_aset_same _ _ _
      · simp only [hkey, if_false] at hkv
        obtain ⟨m, hm1, hm2⟩ := hE.only k v hkv
        obtain ⟨v1, _, _, _⟩ := hS.conf k v hkv
        by_cases hp : u.path = v.path
        · rw [← hp, hg] at hm1
          have := (Option.some.inj hm1).symm; subst this
          refine ⟨u, by rw [hmn, ← hp]; exact aget_aset_same _ _ _, ?_⟩
          intro hvu
          have hvne : v ≠ u := by
            intro e; subst e
            have := e3 v v1 rfl; omega
          apply hnt
          refine ⟨v, hsub v v1, u, hu, m, hsub m e1, hp, ?_, hvne, hvu, fun e => hm2 e.symm, e3 v v1 hp.symm⟩
          rw [e2, hp]
        · exact ⟨m, by rw [hmn, aget_aset_ne hp]; exact hm1, hm2⟩
  · -- not more recent: the incoming version is filed under its own split
    obtain ⟨e1, e2, e3⟩ := hI.1 _ _ hg
    refine ⟨fun v hv m hgm hne => ?_, fun k v hkv => ?_⟩
    · rw [hc]
      rw [hmn] at hgm
      rcases List.mem_cons.mp hv with rfl | hv
      · exact aget_aset_same _ _ _
      · have hold := hE.complete v hv m hgm hne
        by_cases hkey : (u.split, u.path) = (v.split, v.path)
        · have := hsu u hu v (hsub v hv) (congrArg Prod.fst hkey) (congrArg Prod.snd hkey)
          subst this; exact aget_aset_same _ _ _
        · rw [aget_aset_ne hkey]; exact hold
    · rw [hc, aget_aset] at hkv
      rw [hmn]
      by_cases hkey : (u.split, u.path) = k
      · simp only [hkey, if_true] at hkv
        have := Option.some.inj hkv; subst this
        exact ⟨ex, hg, hh⟩
      · simp only [hkey, if_false] at hkv
        exact hE.only k v hkv

theorem Exact_congr {st : State} {a b : List Upload} (hab : ∀ x, x ∈ a ↔ x ∈ b) (h : Exact st a) :
    Exact st b :=
  ⟨fun v hv => h.complete v ((hab v).mpr hv), h.only⟩

theorem Exact_empty : Exact State.empty [] :=
  ⟨fun v hv => by simp at hv, fun k v h => by simp [State.empty, aget] at h⟩

theorem run_Exact_aux {mode : Mode} {st st' : State} {done us all : List Upload}
    (hk : mode.keeps = true) (hsu : SplitUnique all) (hnt : ¬ Trigger all)
    (hsub : ∀ x ∈ done ++ us, x ∈ all)
    (hI : MainInv st.main done) (hS : Sound mode st done) (hE : Exact st done)
    (h : run mode st us = some st') : Exact st' (done ++ us) := by
  induction us generalizing st done with
  | nil => simp [run] at h; subst h; simpa using hE
  | cons u us ih =>
    obtain ⟨st1, h1, h2⟩ := run_cons.mp h
    have hI1 : MainInv st1.main (u :: done) := by rw [step_main h1]; exact mainStep_inv u hI
    have hS1 := step_Sound hI hS h1
    have hE1 := step_Exact hk hsu hnt (fun x hx => hsub x (by simp [hx])) (hsub u (by simp)) hI hS hE h1
    have hmem : ∀ x, x ∈ u :: done ++ us ↔ x ∈ done ++ u :: us := by
      intro x; simp only [List.cons_append, List.mem_cons, List.mem_append]
      constructor
      · rintro (rfl | h | h)
        · exact Or.inr (Or.inl rfl)
        · exact Or.inl h
        · exact Or.inr (Or.inr h)
      · rintro (h | rfl | h)
        · exact Or.inr (Or.inl h)
        · exact Or.inl rfl
        · exact Or.inr (Or.inr h)
    exact Exact_congr hmem (ih (fun x hx => hsub x ((hmem x).mp hx)) hI1 hS1 hE1 h2)

theorem run_Exact {mode : Mode} {st' : State} {us : List Upload}
    (hk : mode.keeps = true) (hsu : SplitUnique us) (hnt : ¬ Trigger us)
    (h : run mode State.empty us = some st') : Exact st' us := by
  have := run_Exact_aux (done := []) hk hsu hnt (by simp) MainInv_nil (Sound_empty mode) Exact_empty h
  simpa using this

/-- characterisation of the deconflicted entries on the domain: the entry under `(s, p)` is the upload
    of `p` by `s`, provided its content differs from the main tree's version -/
theorem conf_char {mode : Mode} {st : State} {us : List Upload}
    (hS : Sound mode st us) (hE : Exact st us) (s p : String) (v : Upload) :
    aget (s, p) st.conf = some v ↔
      v ∈ us ∧ v.split = s ∧ v.path = p ∧ ∃ m, aget p st.main = some m ∧ v.hash ≠ m.hash := by
  constructor
  · intro h
    obtain ⟨h1, h2, _, _⟩ := hS.conf _ _ h
    obtain ⟨m, hm1, hm2⟩ := hE.only _ _ h
    have e1 : s = v.split := congrArg Prod.fst h2
    have e2 : p = v.path := congrArg Prod.snd h2
    exact ⟨h1, e1.symm, e2.symm, m, by rw [e2]; exact hm1, hm2⟩
  · rintro ⟨h1, rfl, rfl, m, hm1, hm2⟩
    exact hE.complete v h1 m hm1 hm2

theorem option_ext {α : Type} {a b : Option α} (h : ∀ v, a = some v ↔ b = some v) : a = b := by
  cases a with
  | none =>
    cases b with
    | none => rfl
    | some y => exact absurd ((h y).mpr rfl) (by simp)
  | some x => exact ((h x).mp rfl).symm

/-! ### the specification state `mergeSpec`, through lookups -/

theorem aget_filterMap {κ : Type} [DecidableEq κ] (c : Upload → Bool) (key : Upload → κ) (k : κ)
    (l : List Upload) :
    aget k (l.filterMap fun u => if c u then some (key u, u) else none)
      = l.find? (fun u => c u && decide (key u = k)) := by
  induction l with
  | nil => simp [aget]
  | cons a r ih =>
    by_cases hc : c a = true
    · by_cases hk : key a = k
      · simp [hc, hk, aget]
      · simp [hc, hk, aget, ih]
    · simp [hc, ih]

theorem find?_some_iff {l : List Upload} {q : Upload → Bool}
    (huniq : ∀ a ∈ l, ∀ b ∈ l, q a = true → q b = true → a = b) (v : Upload) :
    l.find? q = some v ↔ v ∈ l ∧ q v = true := by
  constructor
  · intro h; exact ⟨List.mem_of_find?_eq_some h, List.find?_some h⟩
  · rintro ⟨hv, hq⟩
    cases hf : l.find? q with
    | none => exact absurd hq (List.find?_eq_none.mp hf v hv)
    | some w =>
      rw [huniq w (List.mem_of_find?_eq_some hf) v hv (List.find?_some hf) hq]

theorem specMain_aget (us : List Upload) (p : String) :
    aget p (us.filterMap fun u => if latest u.path us = some u then some (u.path, u) else none)
      = latest p us := by
  have := aget_filterMap (fun u => decide (latest u.path us = some u)) (fun u => u.path) p us
  simp only [decide_eq_true_eq] at this
  rw [this]
  apply option_ext
  intro v
  rw [find?_some_iff]
  · simp only [Bool.and_eq_true, decide_eq_true_eq]
    constructor
    · rintro ⟨_, h1, h2⟩; rw [← h2]; exact h1
    · intro h
      obtain ⟨h1, h2, _⟩ := latest_some h
      exact ⟨h1, by rw [h2]; exact h, h2⟩
  · intro a _ b _ ha hb
    simp only [Bool.and_eq_true, decide_eq_true_eq] at ha hb
    have h1 := ha.1; have h2 := hb.1
    rw [ha.2] at h1; rw [hb.2] at h2
    exact Option.some.inj (h1.symm.trans h2)

theorem isLoser_iff (us : List Upload) (v : Upload) :
    isLoser us v = true ↔ ∃ w, latest v.path us = some w ∧ v.hash ≠ w.hash := by
  unfold isLoser
  cases latest v.path us with
  | none => simp
  | some w => simp

theorem specConf_aget {us : List Upload} (hsu : SplitUnique us) (s p : String) (v : Upload) :
    aget (s, p) (us.filterMap fun v => if isLoser us v then some ((v.split, v.path), v) else none) = some v
      ↔ v ∈ us ∧ v.split = s ∧ v.path = p ∧ ∃ w, latest p us = some w ∧ v.hash ≠ w.hash := by
  rw [aget_filterMap (isLoser us) (fun v => (v.split, v.path)) (s, p) us, find?_some_iff]
  · simp only [Bool.and_eq_true, decide_eq_true_eq, isLoser_iff, Prod.mk.injEq]
    constructor
    · rintro ⟨h1, ⟨w, hw1, hw2⟩, h2, h3⟩; exact ⟨h1, h2, h3, w, by rw [← h3]; exact hw1, hw2⟩
    · rintro ⟨h1, h2, h3, w, hw1, hw2⟩; exact ⟨h1, ⟨w, by rw [h3]; exact hw1, hw2⟩, h2, h3⟩
  · intro a ha b hb qa qb
    simp only [Bool.and_eq_true, decide_eq_true_eq, Prod.mk.injEq] at qa qb
    exact hsu a ha b hb (qa.2.1.trans qb.2.1.symm) (qa.2.2.trans qb.2.2.symm)

theorem hasConflict_iff (us : List Upload) : hasConflict us = true ↔ HasConflict us := by
  unfold hasConflict HasConflict
  simp only [List.any_eq_true, Bool.and_eq_true, decide_eq_true_eq, bne_iff_ne, ne_eq]
  constructor
  · rintro ⟨u, hu, v, hv, ⟨h1, h2⟩, h3⟩; exact ⟨u, hu, v, hv, h1, h2, h3⟩
  · rintro ⟨u, hu, v, hv, h1, h2, h3⟩; exact ⟨u, hu, v, hv, ⟨h1, h2⟩, h3⟩

/-! ## The theorems of C11 -/

/-- two states are the same commit: same main tree, same deconflicted entries, same flag (as maps) -/
def State.Equiv (a b : State) : Prop :=
  (∀ p, aget p a.main = aget p b.main) ∧ (∀ k, aget k a.conf = aget k b.conf) ∧ a.flag = b.flag

/-- same outcome: both give up, or both commit the same state -/
def SameOutcome : Option State → Option State → Prop
  | none, none => True
  | some a, some b => a.Equiv b
  | _, _ => False

theorem alist_eq_nil {κ ν : Type} [DecidableEq κ] {l : List (κ × ν)} (h : ∀ k v, aget k l ≠ some v) :
    l = [] := by
  cases l with
  | nil => rfl
  | cons a r => exact absurd (by simp [aget]) (h a.1 a.2)

theorem flatten_perm {b1 b2 : List Batch} (h : b1.Perm b2) : (flatten b1).Perm (flatten b2) :=
  List.Perm.flatten (List.Perm.map _ h)

/-- **Latest write wins** (all modes, all inputs with distinct upload times, every arrival order):
    whenever the commit goes through, the main tree holds, for each path, the upload of that path
    with the greatest time, and nothing for paths nobody uploaded. -/
theorem C11_main_latest {mode : Mode} {us : List Upload} {st : State} (hd : TimesDistinct us)
    (h : run mode State.empty us = some st) (p : String) : aget p st.main = latest p us :=
  MainInv_latest hd (run_MainInv h) p

/-- without the hypothesis on times: the main tree holds an upload of the path with maximal time -/
theorem C11_main_maximal {mode : Mode} {us : List Upload} {st : State}
    (h : run mode State.empty us = some st) (p : String) :
    (∀ x, aget p st.main = some x → x ∈ us ∧ x.path = p ∧ ∀ v ∈ us, v.path = p → v.time ≤ x.time) ∧
    (aget p st.main = none → ∀ v ∈ us, v.path ≠ p) :=
  ⟨fun x hx => (run_MainInv h).1 p x hx, fun hn => (run_MainInv h).2 p hn⟩

/-- **The main tree is the same in every mode** (same arrival order: literally the same list; this
    includes forbid mode whenever it does not give up). -/
theorem C11_main_tree_mode_independent {m1 m2 : Mode} {us : List Upload} {st1 st2 : State}
    (h1 : run m1 State.empty us = some st1) (h2 : run m2 State.empty us = some st2) :
    st1.main = st2.main := by
  rw [run_main h1, run_main h2]

/-- … and for any two arrival orders and any two modes (distinct times) -/
theorem C11_main_tree_mode_order_independent {m1 m2 : Mode} {us1 us2 : List Upload} {st1 st2 : State}
    (hp : us1.Perm us2) (hd : TimesDistinct us1)
    (h1 : run m1 State.empty us1 = some st1) (h2 : run m2 State.empty us2 = some st2) (p : String) :
    aget p st1.main = aget p st2.main := by
  rw [C11_main_latest hd h1 p]
  exact (MainInv_latest hd (MainInv_congr (fun x => (hp.mem_iff).symm) (run_MainInv h2)) p).symm

/-- **Ignore mode adds nothing**: it never fails, files no deconflicted entry, raises no flag. -/
theorem C11_ignore_adds_nothing (us : List Upload) :
    ∃ st, run .ignore State.empty us = some st ∧ st.conf = [] ∧ st.flag = false := by
  obtain ⟨st, h⟩ := run_total (mode := .ignore) (by decide) State.empty us
  have hS := run_Sound h
  refine ⟨st, h, alist_eq_nil fun k v hkv => ?_, ?_⟩
  · have := (hS.conf k v hkv).2.2.1; simp [Mode.keeps] at this
  · cases hf : st.flag with
    | false => rfl
    | true => have := (hS.flag hf).1; simp [Mode.keeps] at this

/-- forbid mode, when it commits, adds nothing either -/
theorem C11_forbid_adds_nothing {us : List Upload} {st : State}
    (h : run .forbid State.empty us = some st) : st.conf = [] ∧ st.flag = false := by
  have hS := run_Sound h
  refine ⟨alist_eq_nil fun k v hkv => ?_, ?_⟩
  · have := (hS.conf k v hkv).2.2.1; simp [Mode.keeps] at this
  · cases hf : st.flag with
    | false => rfl
    | true => have := (hS.flag hf).1; simp [Mode.keeps] at this

/-- **A deconflicted entry is always a genuine conflict** (all inputs, all modes, all orders): the
    entry found under `(s, p)` was uploaded by split `s` for path `p`, and another split uploaded
    different content for `p`. -/
theorem C11_conflict_entry_sound {mode : Mode} {us : List Upload} {st : State}
    (h : run mode State.empty us = some st) (s p : String) (v : Upload)
    (hv : aget (s, p) st.conf = some v) :
    v ∈ us ∧ v.split = s ∧ v.path = p ∧ ∃ w ∈ us, w.path = p ∧ w.hash ≠ v.hash ∧ w.split ≠ s := by
  obtain ⟨h1, h2, _, w, hw, h3, h4, h5⟩ := (run_Sound h).conf _ _ hv
  have e1 : s = v.split := congrArg Prod.fst h2
  have e2 : p = v.path := congrArg Prod.snd h2
  exact ⟨h1, e1.symm, e2.symm, w, hw, by rw [e2]; exact h3, h4, by rw [e1]; exact h5⟩

/-- **Identical contents never count as conflicts**: if all uploads of path `p` carry the same
    content, nothing is filed for `p` under any split (all inputs, all modes, all orders) … -/
theorem C11_identical_never_conflict {mode : Mode} {us : List Upload} {st : State}
    (h : run mode State.empty us = some st) (p : String)
    (hid : ∀ v ∈ us, ∀ w ∈ us, v.path = p → w.path = p → v.hash = w.hash) (s : String) :
    aget (s, p) st.conf = none := by
  cases hg : aget (s, p) st.conf with
  | none => rfl
  | some v =>
    obtain ⟨h1, _, h3, w, hw, h4, h5, _⟩ := C11_conflict_entry_sound h s p v hg
    exact absurd (hid w hw v h1 h4 h3) h5

/-- … and the conflict flag is raised only if two splits uploaded different content for a path. -/
theorem C11_flag_sound {mode : Mode} {us : List Upload} {st : State}
    (h : run mode State.empty us = some st) (hf : st.flag = true) : mode.keeps = true ∧ HasConflict us :=
  (run_Sound h).flag hf

/-- **Forbid mode fails exactly when two splits uploaded different content for a path** (every
    arrival order; a split lists a path at most once). -/
theorem C11_forbid_iff_conflict {us : List Upload} (hsu : SplitUnique us) :
    run .forbid State.empty us = none ↔ HasConflict us := by
  constructor
  · intro h
    apply Classical.byContradiction
    intro hn
    obtain ⟨st', h'⟩ := run_forbid_succeeds_aux (st := State.empty) (done := []) (us := us) MainInv_nil
      (by simpa using hn)
    rw [h] at h'; cases h'
  · intro hc
    cases h : run .forbid State.empty us with
    | none => rfl
    | some st =>
      have hf := (C11_forbid_adds_nothing h).2
      exact absurd hc (AllSame_no_conflict (run_MainInv h) (run_AllSame (by decide) hsu h hf))

/-- in conflicts / checkpoints mode the flag is raised exactly on a conflict -/
theorem C11_flag_iff_conflict {mode : Mode} {us : List Upload} {st : State} (hk : mode.keeps = true)
    (hsu : SplitUnique us) (h : run mode State.empty us = some st) :
    st.flag = true ↔ HasConflict us := by
  constructor
  · intro hf; exact (C11_flag_sound h hf).2
  · intro hc
    cases hf : st.flag with
    | true => rfl
    | false =>
      have hm : mode ≠ .ignore := by intro e; subst e; simp [Mode.keeps] at hk
      exact absurd hc (AllSame_no_conflict (run_MainInv h) (run_AllSame hm hsu h hf))

/-! ### single-split diamond = plain upload -/

theorem aget_append_none {κ ν : Type} [DecidableEq κ] {k k' : κ} {v : ν} {l : List (κ × ν)}
    (h : aget k l = none) (hk : k' ≠ k) : aget k (l ++ [(k', v)]) = none := by
  induction l with
  | nil => simp [aget, hk]
  | cons a r ih =>
    obtain ⟨k'', v'⟩ := a
    by_cases h1 : k'' = k
    · simp [aget, h1] at h
    · simp only [aget, h1, if_false] at h
      simp [aget, h1, ih h]

theorem single_aux (mode : Mode) (s : String) (es : List Entry) (st : State)
    (hc : st.conf = []) (hf : st.flag = false)
    (hdis : ∀ e ∈ es, aget e.path st.main = none) (hnd : (es.map (·.path)).Nodup) :
    ∃ st', run mode st (es.map (Entry.toUpload s)) = some st' ∧
      st'.main = st.main ++ es.map (fun e => (e.path, e.toUpload s)) ∧ st'.conf = [] ∧ st'.flag = false := by
  induction es generalizing st with
  | nil => exact ⟨st, rfl, by simp, hc, hf⟩
  | cons e es ih =>
    have hg : aget (Entry.toUpload s e).path st.main = none := hdis e (by simp)
    have hstep : step mode st (e.toUpload s)
        = some { st with main := st.main ++ [(e.path, e.toUpload s)] } := by
      unfold step
      simp only [hg]
      rw [aset_absent _ _ _ hg]
      rfl
    rw [List.map_cons, List.nodup_cons] at hnd
    obtain ⟨st', h1, h2, h3, h4⟩ := ih { st with main := st.main ++ [(e.path, e.toUpload s)] } hc hf
      (fun e' he' => by
        apply aget_append_none (hdis e' (by simp [he']))
        intro heq
        exact hnd.1 (by rw [heq]; exact List.mem_map_of_mem he'))
      hnd.2
    refine ⟨st', ?_, ?_, h3, h4⟩
    · rw [List.map_cons]; exact run_cons.mpr ⟨_, hstep, h1⟩
    · rw [h2]; simp

/-- **A single-split diamond yields the file list of a plain upload of the same files**, in every
    mode: the commit goes through, the main tree lists exactly the split's entries (same paths,
    hashes, sizes, in the same order), nothing is deconflicted, no flag is raised. -/
theorem C11_single_split_eq_upload (mode : Mode) (s : String) (es : List Entry)
    (hnd : (es.map (·.path)).Nodup) :
    ∃ st, merge mode [(s, es)] = some st ∧
      st.main.map (fun kv => (kv.1, kv.2.hash, kv.2.size)) = uploadList es ∧
      st.conf = [] ∧ st.flag = false := by
  obtain ⟨st, h1, h2, h3, h4⟩ := single_aux mode s es State.empty rfl rfl
    (fun e _ => by simp [State.empty, aget]) hnd
  refine ⟨st, ?_, ?_, h3, h4⟩
  · simpa [merge, flatten] using h1
  · rw [h2]; simp [State.empty, uploadList, Entry.toUpload, Function.comp_def]

/-- the split's file list may come in several index files -/
theorem C11_single_split_chunks (mode : Mode) (s : String) (ess : List (List Entry)) :
    merge mode (ess.map fun es => (s, es)) = merge mode [(s, ess.flatten)] := by
  unfold merge flatten
  congr 1
  simp [List.map_flatten, Function.comp_def]

/-! ### the whole commit on the domain left by the known finding -/

theorem TimesDistinct_perm {a b : List Upload} (h : a.Perm b) (hd : TimesDistinct a) : TimesDistinct b :=
  fun u hu v hv => hd u (h.mem_iff.mpr hu) v (h.mem_iff.mpr hv)

theorem SplitUnique_perm {a b : List Upload} (h : a.Perm b) (hd : SplitUnique a) : SplitUnique b :=
  fun u hu v hv => hd u (h.mem_iff.mpr hu) v (h.mem_iff.mpr hv)

theorem Trigger_perm {a b : List Upload} (h : a.Perm b) (ht : Trigger b) : Trigger a := by
  obtain ⟨x, hx, x', hx', y, hy, r⟩ := ht
  exact ⟨x, h.mem_iff.mpr hx, x', h.mem_iff.mpr hx', y, h.mem_iff.mpr hy, r⟩

theorem HasConflict_perm {a b : List Upload} (h : a.Perm b) : HasConflict a ↔ HasConflict b :=
  ⟨HasConflict_mono fun _ hx => h.mem_iff.mp hx, HasConflict_mono fun _ hx => h.mem_iff.mpr hx⟩

theorem bool_eq_of_iff {a b : Bool} (h : a = true ↔ b = true) : a = b := by
  cases a <;> cases b <;> simp_all

/-- a committed state is the specification state (distinct times, a split lists a path once, outside
    the trigger of the known finding) -/
theorem run_equiv_spec {mode : Mode} {us : List Upload} {st : State}
    (hd : TimesDistinct us) (hsu : SplitUnique us) (hnt : ¬ Trigger us)
    (h : run mode State.empty us = some st) : st.Equiv (specState mode us) := by
  have hmain : ∀ p, aget p st.main = latest p us := C11_main_latest hd h
  refine ⟨fun p => ?_, fun k => ?_, ?_⟩
  · rw [hmain p]; exact (specMain_aget us p).symm
  · cases hk : mode.keeps with
    | true =>
      obtain ⟨s, p⟩ := k
      apply option_ext
      intro v
      rw [conf_char (run_Sound h) (run_Exact hk hsu hnt h)]
      simp only [specState, hk, if_true]
      rw [specConf_aget hsu, hmain p]
    | false =>
      have hnil : st.conf = [] := alist_eq_nil fun k v hkv => by
        have := ((run_Sound h).conf k v hkv).2.2.1; rw [hk] at this; cases this
      simp [specState, hk, hnil]
  · cases hk : mode.keeps with
    | true =>
      apply bool_eq_of_iff
      rw [C11_flag_iff_conflict hk hsu h]
      simp [specState, hk, hasConflict_iff]
    | false =>
      cases hf : st.flag with
      | false => simp [specState, hk]
      | true => have := (C11_flag_sound h hf).1; rw [hk] at this; cases this

/-- **The commit is what the property demands** — on the domain: distinct upload times per path, a
    split lists a path at most once, and the input is outside the trigger of the known finding
    `merge-identical-copies`. Holds for every mode and every arrival order (`us` is the arrival
    sequence; the domain predicates and `mergeSpec` (through lookups) do not depend on the order). -/
theorem C11_merge_eq_spec_partial (mode : Mode) (us : List Upload)
    (hd : TimesDistinct us) (hsu : SplitUnique us) (hnt : ¬ Trigger us) :
    SameOutcome (run mode State.empty us) (mergeSpec mode us) := by
  unfold mergeSpec
  by_cases hm : mode = .forbid
  · subst hm
    by_cases hc : HasConflict us
    · rw [(C11_forbid_iff_conflict hsu).mpr hc]
      simp [(hasConflict_iff us).mpr hc, SameOutcome]
    · have hb : hasConflict us = false := by
        cases hx : hasConflict us with
        | false => rfl
        | true => exact absurd ((hasConflict_iff us).mp hx) hc
      cases h : run .forbid State.empty us with
      | none => exact absurd ((C11_forbid_iff_conflict hsu).mp h) hc
      | some st =>
        simp only [hb, Bool.false_eq_true, and_false, if_false, SameOutcome]
        exact run_equiv_spec hd hsu hnt h
  · obtain ⟨st, h⟩ := run_total hm State.empty us
    rw [h]
    simp only [hm, false_and, if_false, SameOutcome]
    exact run_equiv_spec hd hsu hnt h

/-- **The result does not depend on the order in which the split file lists are read** (same
    domain): two arrival sequences that are permutations of each other give the same outcome. -/
theorem C11_merge_order_independent_partial (mode : Mode) {us1 us2 : List Upload} (hp : us1.Perm us2)
    (hd : TimesDistinct us1) (hsu : SplitUnique us1) (hnt : ¬ Trigger us1) :
    SameOutcome (run mode State.empty us1) (run mode State.empty us2) := by
  have hd2 := TimesDistinct_perm hp hd
  have hsu2 := SplitUnique_perm hp hsu
  have hnt2 : ¬ Trigger us2 := fun ht => hnt (Trigger_perm hp ht)
  have key : ∀ st1 st2, run mode State.empty us1 = some st1 → run mode State.empty us2 = some st2 →
      st1.Equiv st2 := by
    intro st1 st2 h1 h2
    have hmain : ∀ p, aget p st1.main = aget p st2.main :=
      C11_main_tree_mode_order_independent hp hd h1 h2
    refine ⟨hmain, fun k => ?_, ?_⟩
    · cases hk : mode.keeps with
      | true =>
        obtain ⟨s, p⟩ := k
        apply option_ext
        intro v
        rw [conf_char (run_Sound h1) (run_Exact hk hsu hnt h1),
          conf_char (run_Sound h2) (run_Exact hk hsu2 hnt2 h2), hmain p, hp.mem_iff]
      | false =>
        have hnil : ∀ (st : State) (us : List Upload), run mode State.empty us = some st → st.conf = [] :=
          fun st us h => alist_eq_nil fun k v hkv => by
            have := ((run_Sound h).conf k v hkv).2.2.1; rw [hk] at this; cases this
        rw [hnil st1 us1 h1, hnil st2 us2 h2]
    · cases hk : mode.keeps with
      | true =>
        apply bool_eq_of_iff
        rw [C11_flag_iff_conflict hk hsu h1, C11_flag_iff_conflict hk hsu2 h2]
        exact HasConflict_perm hp
      | false =>
        have hfl : ∀ (st : State) (us : List Upload), run mode State.empty us = some st → st.flag = false := by
          intro st us h
          cases hf : st.flag with
          | false => rfl
          | true => have := (C11_flag_sound h hf).1; rw [hk] at this; cases this
        rw [hfl st1 us1 h1, hfl st2 us2 h2]
  by_cases hm : mode = .forbid
  · subst hm
    cases h1 : run .forbid State.empty us1 with
    | none =>
      have hc := (HasConflict_perm hp).mp ((C11_forbid_iff_conflict hsu).mp h1)
      rw [(C11_forbid_iff_conflict hsu2).mpr hc]; trivial
    | some st1 =>
      cases h2 : run .forbid State.empty us2 with
      | none =>
        have hc := (HasConflict_perm hp).mpr ((C11_forbid_iff_conflict hsu2).mp h2)
        rw [(C11_forbid_iff_conflict hsu).mpr hc] at h1; cases h1
      | some st2 => exact key st1 st2 h1 h2
  · obtain ⟨st1, h1⟩ := run_total hm State.empty us1
    obtain ⟨st2, h2⟩ := run_total hm State.empty us2
    rw [h1, h2]
    exact key st1 st2 h1 h2

/-- the same, stated for the batches (split index files) as the commit receives them -/
theorem C11_merge_eq_spec_batches (mode : Mode) (bs : List Batch)
    (hd : TimesDistinct (flatten bs)) (hsu : SplitUnique (flatten bs)) (hnt : ¬ Trigger (flatten bs)) :
    SameOutcome (merge mode bs) (mergeSpec mode (flatten bs)) :=
  C11_merge_eq_spec_partial mode (flatten bs) hd hsu hnt

/-- the same for batches (split index files) arriving in any order -/
theorem C11_merge_order_independent_batches (mode : Mode) {b1 b2 : List Batch} (hp : b1.Perm b2)
    (hd : TimesDistinct (flatten b1)) (hsu : SplitUnique (flatten b1)) (hnt : ¬ Trigger (flatten b1)) :
    SameOutcome (merge mode b1) (merge mode b2) :=
  C11_merge_order_independent_partial mode (flatten_perm hp) hd hsu hnt

/-- forbid mode fails or not independently of the arrival order, for every input -/
theorem C11_forbid_order_independent {us1 us2 : List Upload} (hp : us1.Perm us2) (hsu : SplitUnique us1) :
    run .forbid State.empty us1 = none ↔ run .forbid State.empty us2 = none := by
  rw [C11_forbid_iff_conflict hsu, C11_forbid_iff_conflict (SplitUnique_perm hp hsu)]
  exact HasConflict_perm hp

/-! ### the source still has the shape the model describes (regenerated facts) -/

/-- `mergeSplits` files a clobbered version under `existing.ID` and a losing incoming version under
    `splitID`; an identical copy only refreshes the stored upload when it is more recent; arbitration
    is `Timestamp.After`; the hidden folders and the mode → renaming function table are as modelled
    by `confDir`. A source change to any of these breaks this theorem (and the build). -/
theorem C11_facts_source_shape :
    Facts.mergeDeconflictSplitArgs = ["existing.ID", "splitID", "splitID"] ∧
    Facts.mergeIdenticalBranch =
      ["if file.Timestamp.After(existing.Timestamp)", "file.Timestamp.After", "mergeIndex.Insert", "continue"] ∧
    Facts.mergeArbitration =
      ["file.Timestamp.After(existing.Timestamp)", "file.Timestamp.After(existing.Timestamp)"] ∧
    Facts.mergeConflictDir = ".conflicts" ∧ Facts.mergeCheckpointDir = ".checkpoints" ∧
    Facts.mergeModeDeconflicter =
      ["model.EnableCheckpoints => model.GenerateCheckpointPath", "model.ForbidConflicts => func",
       "model.EnableConflicts => fallthrough", "default => model.GenerateConflictPath"] := by
  decide

/-! ### non-vacuity and refutations outside the domain -/

/-- what one sees of an outcome at a path and a deconflicted key -/
def obsAt (o : Option State) (p : String) (k : String × String) : Option (Option Upload × Option Upload × Bool) :=
  o.map fun st => (aget p st.main, aget k st.conf, st.flag)

theorem SameOutcome_obsAt {a b : Option State} (h : SameOutcome a b) (p : String) (k : String × String) :
    obsAt a p k = obsAt b p k := by
  cases a <;> cases b <;> simp_all [SameOutcome, obsAt, State.Equiv]

def mk (s h : String) (t : Nat) : Upload := ⟨s, "p", h, 1, t⟩

/-- the domain of the partial theorems is inhabited, with a real conflict among three versions
    and an identical copy of the winner -/
example : TimesDistinct [mk "s1" "A" 1, mk "s2" "B" 2, mk "s3" "C" 3, mk "s4" "C" 4] ∧
    SplitUnique [mk "s1" "A" 1, mk "s2" "B" 2, mk "s3" "C" 3, mk "s4" "C" 4] ∧
    ¬ Trigger [mk "s1" "A" 1, mk "s2" "B" 2, mk "s3" "C" 3, mk "s4" "C" 4] ∧
    HasConflict [mk "s1" "A" 1, mk "s2" "B" 2, mk "s3" "C" 3, mk "s4" "C" 4] := by decide

example : (run .conflicts State.empty [mk "s3" "C" 3, mk "s1" "A" 1, mk "s4" "C" 4, mk "s2" "B" 2]).map
      (dump .conflicts)
    = some [(".conflicts/s1/p", "A", 1), (".conflicts/s2/p", "B", 1), ("p", "C", 1)] := by decide

/-- **Known finding `merge-identical-copies`, identical losing copies**: `A@1 (s1), A@2 (s2), B@3 (s3)`.
    The property demands `.conflicts/s1/p` and `.conflicts/s2/p`; read in this order the merge files only
    the more recent copy (`s2`), read with `B` first it files both: the result depends on the order. -/
theorem C11_neg_order_dependent_identical_losers :
    let us1 := [mk "s1" "A" 1, mk "s2" "A" 2, mk "s3" "B" 3]
    let us2 := [mk "s3" "B" 3, mk "s1" "A" 1, mk "s2" "A" 2]
    us1.Perm us2 ∧ TimesDistinct us1 ∧ SplitUnique us1 ∧ Trigger us1 ∧
    ¬ SameOutcome (run .conflicts State.empty us1) (run .conflicts State.empty us2) ∧
    ¬ SameOutcome (run .conflicts State.empty us1) (mergeSpec .conflicts us1) := by
  refine ⟨by decide, by decide, by decide, by decide, fun h => ?_, fun h => ?_⟩
  · exact absurd (SameOutcome_obsAt h "p" ("s1", "p")) (by decide)
  · exact absurd (SameOutcome_obsAt h "p" ("s1", "p")) (by decide)

/-- **Known finding `merge-identical-copies`, a copy of the winner older than another version**:
    `B@2 (s2), A@1 (s1), A@3 (s3)`. `A` wins, so nothing identical to `A` may be filed; read in this order
    the merge files `A` under `.conflicts/s1/p`; read as `A@1, A@3, B@2` it does not. -/
theorem C11_neg_order_dependent_identical_winner :
    let us1 := [mk "s2" "B" 2, mk "s1" "A" 1, mk "s3" "A" 3]
    let us2 := [mk "s1" "A" 1, mk "s3" "A" 3, mk "s2" "B" 2]
    us1.Perm us2 ∧ TimesDistinct us1 ∧ SplitUnique us1 ∧ Trigger us1 ∧
    ¬ SameOutcome (run .conflicts State.empty us1) (run .conflicts State.empty us2) ∧
    ¬ SameOutcome (run .conflicts State.empty us1) (mergeSpec .conflicts us1) ∧
    SameOutcome (run .ignore State.empty us1) (mergeSpec .ignore us1) := by
  refine ⟨by decide, by decide, by decide, by decide, fun h => ?_, fun h => ?_, ?_⟩
  · exact absurd (SameOutcome_obsAt h "p" ("s1", "p")) (by decide)
  · exact absurd (SameOutcome_obsAt h "p" ("s1", "p")) (by decide)
  · -- the main tree is right even there (theorem `C11_main_latest` needs no trigger hypothesis)
    obtain ⟨st, h1, h2, h3⟩ := C11_ignore_adds_nothing [mk "s2" "B" 2, mk "s1" "A" 1, mk "s3" "A" 3]
    show SameOutcome (run .ignore State.empty [mk "s2" "B" 2, mk "s1" "A" 1, mk "s3" "A" 3]) _
    rw [h1]
    simp only [mergeSpec, SameOutcome]
    refine ⟨fun p => ?_, fun k => ?_, ?_⟩
    · rw [C11_main_latest (by decide) h1 p]; exact (specMain_aget _ p).symm
    · simp [h2, specState, Mode.keeps, aget]
    · simp [h3, specState, Mode.keeps]

/-- **Equal upload times are outside the property**: with `A@2 (s1)` and `B@2 (s2)` the version that
    arrives first stays in the main tree (`Timestamp.After` is strict) — `TimesDistinct` is needed. -/
theorem C11_neg_tie_order_dependent :
    let us1 := [mk "s1" "A" 2, mk "s2" "B" 2]
    let us2 := [mk "s2" "B" 2, mk "s1" "A" 2]
    us1.Perm us2 ∧ ¬ TimesDistinct us1 ∧ SplitUnique us1 ∧ ¬ Trigger us1 ∧
    ¬ SameOutcome (run .ignore State.empty us1) (run .ignore State.empty us2) := by
  refine ⟨by decide, by decide, by decide, by decide, fun h => ?_⟩
  exact absurd (SameOutcome_obsAt h "p" ("s1", "p")) (by decide)

/-! ### the two repaired defects, on a model of the code before the `fix:` commits -/

/-- the loop body before the repairs: `ownSplit = false` files a clobbered version under the incoming
    split (`deconflicter(splitID, existing…)`), `refresh = false` skips an identical copy altogether -/
def stepOld (ownSplit refresh : Bool) (mode : Mode) (st : State) (u : Upload) : Option State :=
  match aget u.path st.main with
  | none => some { st with main := aset u.path u st.main }
  | some ex =>
    if u.hash = ex.hash then
      if refresh && decide (ex.time < u.time) then some { st with main := aset u.path u st.main }
      else some st
    else if ex.time < u.time then
      if mode = .ignore ∨ u.split = ex.split then
        some { st with main := aset u.path u st.main }
      else if mode = .forbid then none
      else
        some { main := aset u.path u st.main,
               conf := aset (if ownSplit then ex.split else u.split, u.path) ex st.conf, flag := true }
    else
      if u.split = ex.split then some st
      else match mode with
        | .conflicts | .checkpoints => some { st with conf := aset (u.split, u.path) u st.conf, flag := true }
        | .forbid => none
        | .ignore => some st

def runOld (ownSplit refresh : Bool) (mode : Mode) : State → List Upload → Option State
  | st, [] => some st
  | st, u :: us =>
    match stepOld ownSplit refresh mode st u with
    | none => none
    | some st' => runOld ownSplit refresh mode st' us

/-- with both repairs `stepOld` is the model -/
theorem stepOld_fixed (mode : Mode) (st : State) (u : Upload) : stepOld true true mode st u = step mode st u := by
  unfold stepOld step
  cases aget u.path st.main with
  | none => rfl
  | some ex => cases mode <;> simp

/-- fixed defect 1: `[A@1 (s1), B@2 (s2)]` filed the loser `A` under the winner's split `s2`; the
    reverse arrival filed it under `s1` -/
theorem C11_neg_unfixed_loser_under_winner_split :
    (runOld false false .conflicts State.empty [mk "s1" "A" 1, mk "s2" "B" 2]).map (dump .conflicts)
      = some [(".conflicts/s2/p", "A", 1), ("p", "B", 1)] ∧
    (runOld false false .conflicts State.empty [mk "s2" "B" 2, mk "s1" "A" 1]).map (dump .conflicts)
      = some [(".conflicts/s1/p", "A", 1), ("p", "B", 1)] := by decide

/-- fixed defect 2: `A@1, A@3, B@2` committed `B` although the latest upload is `A`; read as
    `A@3, B@2, A@1` it committed `A` -/
theorem C11_neg_unfixed_identical_copy_time :
    (runOld true false .ignore State.empty [mk "s1" "A" 1, mk "s3" "A" 3, mk "s2" "B" 2]).map (dump .ignore)
      = some [("p", "B", 1)] ∧
    (runOld true false .ignore State.empty [mk "s3" "A" 3, mk "s2" "B" 2, mk "s1" "A" 1]).map (dump .ignore)
      = some [("p", "A", 1)] := by decide

/-! ### the two-map representation: the rendering of deconflicted paths does not confuse keys -/

theorem split_at_sep {c : Char} : ∀ {a a' b b' : List Char}, c ∉ a → c ∉ a' →
    a ++ c :: b = a' ++ c :: b' → a = a' ∧ b = b'
  | [], [], _, _, _, _, h => by simpa using h
  | [], x :: a', _, _, _, h', h => by
    simp only [List.nil_append, List.cons_append, List.cons.injEq] at h
    exact absurd (by simp [h.1]) h'
  | x :: a, [], _, _, h', _, h => by
    simp only [List.nil_append, List.cons_append, List.cons.injEq] at h
    exact absurd (by simp [h.1]) h'
  | x :: a, y :: a', b, b', h1, h2, h => by
    simp only [List.cons_append, List.cons.injEq] at h
    have := split_at_sep (a := a) (a' := a') (fun m => h1 (List.mem_cons_of_mem _ m))
      (fun m => h2 (List.mem_cons_of_mem _ m)) h.2
    exact ⟨by rw [h.1, this.1], this.2⟩

theorem deconflict_toList (mode : Mode) (s p : String) :
    (deconflict mode s p).toList = (confDir mode).toList ++ '/' :: (s.toList ++ '/' :: p.toList) := by
  simp [deconflict, String.toList_append]

/-- the rendering of deconflicted paths is injective on split IDs without '/' -/
theorem C11_deconflict_injective (mode : Mode) {s s' p p' : String} (hs : '/' ∉ s.toList) (hs' : '/' ∉ s'.toList)
    (h : deconflict mode s p = deconflict mode s' p') : s = s' ∧ p = p' := by
  have := congrArg String.toList h
  rw [deconflict_toList, deconflict_toList] at this
  have := List.append_cancel_left this
  simp only [List.cons.injEq, true_and] at this
  obtain ⟨h1, h2⟩ := split_at_sep hs hs' this
  exact ⟨String.toList_inj.mp h1, String.toList_inj.mp h2⟩

/-- a deconflicted path lies under the hidden folder -/
theorem C11_deconflict_prefix (mode : Mode) (s p : String) :
    (confDir mode).toList ++ ['/'] <+: (deconflict mode s p).toList := by
  rw [deconflict_toList]
  exact ⟨s.toList ++ '/' :: p.toList, by simp⟩

end Merge
