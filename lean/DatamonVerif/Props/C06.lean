import DatamonVerif.Model.Crash
import DatamonVerif.Generated.Facts
/-! C06 — bundles become visible atomically and are never altered afterwards. -/
namespace Crash

theorem get_put_ne (s : Store) (w : Write) (k : Key) (h : k ≠ w.key) : get (put s w) k = get s k := by
  unfold put
  split
  · rfl
  · unfold get
    simp only [List.lookup_cons]
    have : (k == w.key) = false := by simpa using h
    rw [this]

/-- a write never changes another key, whatever it is -/
theorem get_apply_frame (ws : List Write) : ∀ (s : Store) (k : Key), (∀ w ∈ ws, w.key ≠ k) → get (apply s ws) k = get s k := by
  induction ws with
  | nil => intro s k _; rfl
  | cons w r ih =>
    intro s k h
    simp only [apply, List.foldl_cons]
    have := ih (put s w) k (fun x hx => h x (by simp [hx]))
    simp only [apply] at this
    rw [this, get_put_ne s w k (fun e => h w (by simp) e.symm)]

/-- a create-if-absent write never changes an existing key -/
theorem get_put_noOverwrite (s : Store) (w : Write) (k : Key) (v : Nat) (hw : w.noOverwrite = true)
    (hg : get s k = some v) : get (put s w) k = some v := by
  by_cases hk : k = w.key
  · subst hk
    unfold put
    simp [hw, hg]
  · rw [get_put_ne s w k hk]; exact hg

/-- **immutable once visible**: whatever sequence of writes follows (any operation, any crash
    prefix of it), a metadata key (bundle descriptor or index file) that exists keeps its value,
    provided every write to a metadata key is create-if-absent — which is what the call sites in
    the Go source do (`C06_facts`). -/
theorem C06_immutable_once_visible (ws : List Write) (hno : ∀ w ∈ ws, isMeta w.key = true → w.noOverwrite = true) :
    ∀ (s : Store) (k : Key) (v : Nat), isMeta k = true → get s k = some v → get (apply s ws) k = some v := by
  induction ws with
  | nil => intro s k v _ h; exact h
  | cons w r ih =>
    intro s k v hm hg
    simp only [apply, List.foldl_cons]
    have hstep : get (put s w) k = some v := by
      by_cases hk : k = w.key
      · exact get_put_noOverwrite s w k v (hno w (by simp) (hk ▸ hm)) hg
      · rw [get_put_ne s w k hk]; exact hg
    have := ih (fun x hx => hno x (by simp [hx])) (put s w) k v hm hstep
    simpa [apply] using this

/-- … and the same for every crash prefix of the operation -/
theorem C06_immutable_under_crash (ws : List Write) (hno : ∀ w ∈ ws, isMeta w.key = true → w.noOverwrite = true)
    (s : Store) (n : Nat) (k : Key) (v : Nat) (hm : isMeta k = true) (hg : get s k = some v) :
    get (crashed s ws n) k = some v :=
  C06_immutable_once_visible (ws.take n) (fun w hw => hno w (List.mem_of_mem_take hw)) s k v hm hg

theorem uploadWrites_keys (b : Nat) (blobs : List (Nat × Nat)) (idx : List Nat) (dv : Nat) :
    ∀ w ∈ uploadWrites b blobs idx dv, (∃ h, w.key = .blob h) ∨ (∃ i, w.key = .index b i) ∨ w.key = .desc b := by
  intro w hw
  unfold uploadWrites at hw
  simp only [List.mem_append, List.mem_map, List.mem_singleton] at hw
  rcases hw with (⟨p, _, rfl⟩ | ⟨p, _, rfl⟩) | rfl
  · left; exact ⟨p.1, rfl⟩
  · right; left; exact ⟨p.1, rfl⟩
  · right; right; rfl

theorem uploadWrites_length (b : Nat) (blobs : List (Nat × Nat)) (idx : List Nat) (dv : Nat) :
    (uploadWrites b blobs idx dv).length = blobs.length + idx.length + 1 := by
  unfold uploadWrites
  simp [List.length_zip]; omega

/-- the descriptor is the LAST write: any proper prefix contains no descriptor write -/
theorem uploadWrites_take_no_desc (b : Nat) (blobs : List (Nat × Nat)) (idx : List Nat) (dv : Nat) (n : Nat)
    (hn : n < (uploadWrites b blobs idx dv).length) :
    ∀ w ∈ (uploadWrites b blobs idx dv).take n, ∀ b', w.key ≠ .desc b' := by
  intro w hw b'
  rw [uploadWrites_length] at hn
  unfold uploadWrites at hw
  rw [List.take_append_of_le_length (by simp [List.length_zip]; omega)] at hw
  have := List.mem_of_mem_take hw
  simp only [List.mem_append, List.mem_map] at this
  rcases this with ⟨p, _, rfl⟩ | ⟨p, _, rfl⟩ <;> simp [blobWrite, indexWrite]

/-- **invisible until done**: after a crash at ANY point before the descriptor write landed,
    every bundle is visible exactly as before (in particular the new one is not), and every
    metadata key of every other bundle and every label is untouched. -/
theorem C06_upload_invisible_until_done (s : Store) (b : Nat) (blobs : List (Nat × Nat)) (idx : List Nat) (dv : Nat)
    (n : Nat) (hn : n < (uploadWrites b blobs idx dv).length) :
    (∀ b', visible (crashed s (uploadWrites b blobs idx dv) n) b' = visible s b') ∧
    (∀ k, ofBundle b k = false → (∀ h, k ≠ .blob h) → get (crashed s (uploadWrites b blobs idx dv) n) k = get s k) := by
  constructor
  · intro b'
    unfold visible crashed
    rw [get_apply_frame _ s (.desc b') (fun w hw => uploadWrites_take_no_desc b blobs idx dv n hn w hw b')]
  · intro k hk hb
    unfold crashed
    apply get_apply_frame
    intro w hw e
    rcases uploadWrites_keys b blobs idx dv w (List.mem_of_mem_take hw) with ⟨h, hh⟩ | ⟨i, hi⟩ | hd
    · exact hb h (e ▸ hh)
    · rw [← e, hi] at hk; simp [ofBundle] at hk
    · rw [← e, hd] at hk; simp [ofBundle] at hk

theorem get_apply_mem_fresh (ws : List Write) :
    ∀ (s : Store) (w : Write), w ∈ ws → get s w.key = none → (∀ w' ∈ ws, w'.key = w.key → w' = w) →
      get (apply s ws) w.key = some w.val := by
  induction ws with
  | nil => intro s w h; simp at h
  | cons x r ih =>
    intro s w hw hfresh huniq
    simp only [apply, List.foldl_cons]
    by_cases hx : x = w
    · subst hx
      have hput : get (put s x) x.key = some x.val := by
        unfold put
        rw [hfresh]
        simp [get, List.lookup_cons]
      -- later writes to this key (if any) are the same write; create-if-absent or overwrite, the value stays
      have : ∀ (r' : List Write) (s' : Store), (∀ w' ∈ r', w'.key = x.key → w' = x) → get s' x.key = some x.val →
          get (apply s' r') x.key = some x.val := by
        intro r'
        induction r' with
        | nil => intro s' _ h; exact h
        | cons y ys ihy =>
          intro s' hu hg
          simp only [apply, List.foldl_cons]
          have hstep : get (put s' y) x.key = some x.val := by
            by_cases hk : x.key = y.key
            · have hy : y = x := hu y (by simp) hk.symm
              subst hy
              unfold put
              split
              · exact hg
              · simp [get, List.lookup_cons]
            · rw [get_put_ne s' y x.key hk]; exact hg
          have := ihy (put s' y) (fun w' hw' => hu w' (by simp [hw'])) hstep
          simpa [apply] using this
      have := this r (put s x) (fun w' hw' => huniq w' (by simp [hw'])) hput
      simpa [apply] using this
    · have hw' : w ∈ r := by
        rcases List.mem_cons.mp hw with h | h
        · exact absurd h.symm hx
        · exact h
      have hkey : x.key ≠ w.key := fun e => hx (huniq x (by simp) e)
      have := ih (put s x) w hw' (by rw [get_put_ne s x w.key (fun e => hkey e.symm)]; exact hfresh)
        (fun w'' hw'' => huniq w'' (by simp [hw'']))
      simpa [apply] using this

/-- **visible when done**: once every write landed the new bundle is visible and all of its index
    files exist with the values written (fresh bundle id: none of its keys existed before) -/
theorem C06_upload_visible_when_done (s : Store) (b : Nat) (blobs : List (Nat × Nat)) (idx : List Nat) (dv : Nat)
    (hfresh : ∀ k, ofBundle b k = true → get s k = none) :
    visible (apply s (uploadWrites b blobs idx dv)) b = true ∧
    ∀ i (h : i < idx.length), get (apply s (uploadWrites b blobs idx dv)) (.index b i) = some idx[i] := by
  have huniq : ∀ (w : Write), w ∈ uploadWrites b blobs idx dv → isMeta w.key = true →
      ∀ w' ∈ uploadWrites b blobs idx dv, w'.key = w.key → w' = w := by
    intro w hw hm w' hw' hk
    unfold uploadWrites at hw hw'
    simp only [List.mem_append, List.mem_map, List.mem_singleton] at hw hw'
    rcases hw with (⟨p, hp, rfl⟩ | ⟨p, hp, rfl⟩) | rfl
    · simp [isMeta, blobWrite] at hm
    · rcases hw' with (⟨q, _, rfl⟩ | ⟨q, hq, rfl⟩) | rfl
      · simp [blobWrite, indexWrite] at hk
      · simp only [indexWrite, Key.index.injEq, true_and] at hk
        obtain ⟨a, ha, hpa⟩ := List.mem_iff_getElem.mp hp
        obtain ⟨c, hc, hqc⟩ := List.mem_iff_getElem.mp hq
        simp only [List.getElem_zip, List.getElem_range] at hpa hqc
        rw [← hpa, ← hqc] at hk ⊢
        simp only at hk
        subst hk
        rfl
      · simp [descWrite, indexWrite] at hk
    · rcases hw' with (⟨q, _, rfl⟩ | ⟨q, _, rfl⟩) | rfl
      · simp [blobWrite, descWrite] at hk
      · simp [indexWrite, descWrite] at hk
      · rfl
  constructor
  · unfold visible
    have hmem : descWrite b dv ∈ uploadWrites b blobs idx dv := by
      unfold uploadWrites; simp
    have := get_apply_mem_fresh _ s _ hmem (hfresh _ (by simp [ofBundle, descWrite])) (huniq _ hmem rfl)
    simp only [descWrite] at this
    rw [this]; rfl
  · intro i hi
    have hmem : indexWrite b (i, idx[i]) ∈ uploadWrites b blobs idx dv := by
      unfold uploadWrites
      simp only [List.mem_append, List.mem_map, List.mem_singleton]
      left; right
      refine ⟨(i, idx[i]), ?_, rfl⟩
      rw [List.mem_iff_getElem]
      exact ⟨i, by simp [List.length_zip, hi], by simp⟩
    have := get_apply_mem_fresh _ s _ hmem (hfresh _ (by simp [ofBundle, indexWrite])) (huniq _ hmem rfl)
    simpa [indexWrite] using this

/-- a label set is ONE atomic overwrite: a crash leaves the old target or the new one, and no
    bundle key changes either way -/
theorem C06_label_atomic (s : Store) (n v : Nat) (k : Nat) :
    let ws : List Write := [{ key := .label n, val := v, noOverwrite := false }]
    (crashed s ws k = s ∨ get (crashed s ws k) (.label n) = some v) ∧
    ∀ key, isMeta key = true → get (crashed s ws k) key = get s key := by
  intro ws
  constructor
  · cases k with
    | zero => left; rfl
    | succ j => right; simp [ws, crashed, apply, put, get, List.lookup_cons]
  · intro key hm
    unfold crashed
    apply get_apply_frame
    intro w hw e
    have : w.key = .label n := by
      have := List.mem_of_mem_take hw
      simp only [ws, List.mem_singleton] at this
      rw [this]
    rw [← e, this] at hm; simp [isMeta] at hm

/-- the observation the driver computes is the one the theorems describe: the new bundle counts
    as visible exactly when a descriptor write is among the landed writes -/
theorem C06_newVisible_iff (kinds : List String) (applied : Nat) :
    newVisible kinds applied = true ↔ ∃ i, i < applied ∧ kinds[i]? = some "d" := by
  unfold newVisible
  rw [List.contains_iff_mem, List.mem_iff_getElem?]
  constructor
  · rintro ⟨i, hi⟩
    rw [List.getElem?_take] at hi
    split at hi
    · exact ⟨i, by assumption, hi⟩
    · simp at hi
  · rintro ⟨i, h1, h2⟩
    exact ⟨i, by rw [List.getElem?_take]; simp [h1, h2]⟩

/-- call-site facts regenerated from the Go source on every run: bundle descriptors and index
    files are written create-if-absent; labels overwrite; in `uploadBundle` the descriptor upload
    is the last store write (after every index file); in the diamond commit the bundle descriptor
    is written before the diamond's final state. -/
theorem C06_facts :
    Facts.c06BundleDescriptorNoOverwrite = true ∧ Facts.c06FileListNoOverwrite = true ∧
    Facts.c06LabelOverwrites = true ∧ Facts.c06DescriptorAfterFileLists = true ∧
    Facts.c06CommitBundleBeforeDone = true := by
  decide

/-- negation witness: were the descriptor written FIRST, a crash after it would leave a visible
    bundle without its index files -/
theorem C06_neg_descriptor_first :
    let ws : List Write := [{ key := .desc 7, val := 1, noOverwrite := true }, { key := .index 7 0, val := 2, noOverwrite := true }]
    visible (crashed [] ws 1) 7 = true ∧ get (crashed [] ws 1) (.index 7 0) = none := by
  decide

/-- non-vacuity: a two-blob, two-index upload into a store holding bundle 1 -/
example : visible (crashed [(.desc 1, 5)] (uploadWrites 2 [(10, 1), (11, 2)] [20, 21] 9) 4) 2 = false ∧
    visible (crashed [(.desc 1, 5)] (uploadWrites 2 [(10, 1), (11, 2)] [20, 21] 9) 5) 2 = true := by decide

end Crash
