import DatamonVerif.Props.C09
/-! C09, `DeleteRepo` killed at any store write and run again.

The deletion order of `DeleteBundle` — the file lists first, the descriptor `bundle.yaml` last — is
what makes an interrupted deletion resumable: while anything of a bundle is left, its descriptor is
left, so the bundle is still listed and the next run finishes the job. `DelStep` is that
discipline; `WF` says every metadata key of the repository is accounted for by the repository
descriptor or by a listed bundle; `WF` survives every step, and `C09_delete_exact` then clears
everything on the re-run. The order "descriptor first" breaks `WF` (`C09_neg_descriptor_first`). -/
namespace Repo

/-- every metadata key of repository `r` is its descriptor, the descriptor of a committed bundle,
    or one of the file lists that descriptor counts -/
def WF (m : Store) (r : Str) : Prop :=
  ∀ k, repoOf k = some r → get m k ≠ none →
    k = repoKey r ∨ ∃ id n a, '/' ∉ id ∧ get m (bundleKey r id) = some (.bundle n a) ∧
      (k = bundleKey r id ∨ ∃ i, i < n ∧ k = filesKey r id i)

/-- one store delete of `DeleteRepo`'s bundle phase: a file list of a bundle whose descriptor is
    still there, or a descriptor all of whose file lists are gone -/
inductive DelStep (r : Str) : Store → Store → Prop
  | file (m : Store) (id : Str) (n a i : Nat) : '/' ∉ id → get m (bundleKey r id) = some (.bundle n a) → i < n →
      DelStep r m (del m (filesKey r id i))
  | desc (m : Store) (id : Str) (n a : Nat) : '/' ∉ id → get m (bundleKey r id) = some (.bundle n a) →
      (∀ i, i < n → get m (filesKey r id i) = none) → DelStep r m (del m (bundleKey r id))

/-- the states a killed `DeleteRepo` can leave behind: any number of steps -/
inductive Reach (r : Str) : Store → Store → Prop
  | refl (m : Store) : Reach r m m
  | step {m m1 m2 : Store} : Reach r m m1 → DelStep r m1 m2 → Reach r m m2

theorem WF.step {m m' : Store} {r : Str} (h : WF m r) (st : DelStep r m m') : WF m' r := by
  intro k hk hpres
  cases st with
  | file id n a i hid hdesc hi =>
    rw [get_del] at hpres
    split at hpres
    · exact absurd rfl hpres
    · rename_i hne
      rcases h k hk hpres with e | ⟨id0, n0, a0, hid0, hd0, hform⟩
      · exact Or.inl e
      · refine Or.inr ⟨id0, n0, a0, hid0, ?_, hform⟩
        rw [get_del_ne _ _ _ (fun e => filesKey_ne_bundleKey r id0 id i hid0 hid e.symm)]
        exact hd0
  | desc id n a hid hdesc hgone =>
    rw [get_del] at hpres
    split at hpres
    · exact absurd rfl hpres
    · rename_i hne
      rcases h k hk hpres with e | ⟨id0, n0, a0, hid0, hd0, hform⟩
      · exact Or.inl e
      · by_cases hsame : id0 = id
        · subst hsame
          rw [hdesc] at hd0
          cases hd0
          rcases hform with e | ⟨i0, hi0, e⟩
          · exact absurd e hne
          · exact absurd (hgone i0 hi0) (e ▸ hpres)
        · refine Or.inr ⟨id0, n0, a0, hid0, ?_, hform⟩
          rw [get_del_ne _ _ _ (fun e => hsame (bundleKey_inj r id0 id e))]
          exact hd0

theorem WF.reach {m m' : Store} {r : Str} (h : WF m r) (hr : Reach r m m') : WF m' r := by
  induction hr with
  | refl => exact h
  | step _ st ih => exact ih.step st

/-- the file-list deletions of `DeleteBundle`, any prefix of them, follow the discipline -/
theorem delFiles_reach (m : Store) (r id : Str) (n a : Nat) (hid : '/' ∉ id)
    (hd : get m (bundleKey r id) = some (.bundle n a)) :
    ∀ j, j ≤ n → Reach r m (delFiles m r id j) ∧ get (delFiles m r id j) (bundleKey r id) = some (.bundle n a) := by
  intro j
  induction j with
  | zero => intro _; exact ⟨Reach.refl m, hd⟩
  | succ j ih =>
    intro hj
    obtain ⟨hr, hd'⟩ := ih (by omega)
    refine ⟨Reach.step hr (DelStep.file _ id n a j hid hd' (by omega)), ?_⟩
    simp only [delFiles]
    rw [get_del_ne _ _ _ (fun e => filesKey_ne_bundleKey r id id j hid hid e.symm)]
    exact hd'

/-- …and so does the whole `DeleteBundle` of a bundle with file lists -/
theorem deleteBundle_reach (m : Store) (r id : Str) (n a : Nat) (hid : '/' ∉ id) (hn : n ≠ 0)
    (hd : get m (bundleKey r id) = some (.bundle n a)) : Reach r m (deleteBundle m r id) := by
  obtain ⟨hr, hd'⟩ := delFiles_reach m r id n a hid hd n (Nat.le_refl n)
  have hc : bundleCount m r id = n := by simp [bundleCount, hd]
  simp only [deleteBundle, hc, hn, if_false]
  exact Reach.step hr (DelStep.desc _ id n a hid hd' (delFiles_gone m r id n))

/-- **kill `DeleteRepo` anywhere in its bundle phase and run it again**: if every metadata key of
    the repository was accounted for (committed bundles only), then whatever state `mj` the killed
    run left, a re-run that reports success leaves no metadata key of the repository at all. -/
theorem C09_delete_crash_rerun (m mj v : Store) (r : Str) (hr : '/' ∉ r) (hwf : WF m r)
    (hreach : Reach r m mj) (s' : St) (h : deleteRepo ⟨mj, v⟩ r = (s', .ok)) :
    ∀ k, repoOf k = some r → get s'.md k = none := by
  intro k hk
  have hwfj := hwf.reach hreach
  obtain ⟨h1, h2, _, _, h5⟩ := C09_delete_exact ⟨mj, v⟩ s' r hr h
  rcases (h5 k).1 with e | e
  · by_cases hp : get mj k = none
    · rw [e]; exact hp
    · rcases hwfj k hk hp with rfl | ⟨id, n, a, hid, hd, hform⟩
      · exact h1
      · obtain ⟨g1, g2⟩ := h2 id n a hid hd
        rcases hform with rfl | ⟨i, hi, rfl⟩
        · exact g1
        · exact g2 i hi
  · exact e

/-- regenerated from `pkg/core/delete.go` on every run: `DeleteBundle` deletes the file lists (both
    loops) before the descriptor, which is its last store delete -/
theorem C09_facts_deleteBundle_order :
    Facts.c09DeleteBundleDeletes = ["archivePathToBundleFileList", "archivePathToBundleFileList", "pth"] := by decide

/-- the other order — descriptor first — is not a step of the discipline, and for a reason: after
    it a file list is left that no listed bundle accounts for (nothing will ever delete it) -/
theorem C09_neg_descriptor_first :
    let r : Str := ['a']
    let id : Str := ['b']
    let m : Store := [(bundleKey r id, .bundle 1 0), (filesKey r id 0, .files [])]
    WF m r ∧ ¬ WF (del m (bundleKey r id)) r := by
  intro r id m
  have hr : '/' ∉ r := by decide
  have hid : '/' ∉ id := by decide
  constructor
  · intro k _ hp
    refine Or.inr ⟨id, 1, 0, hid, by decide, ?_⟩
    by_cases e1 : k = bundleKey r id
    · exact Or.inl e1
    · by_cases e2 : k = filesKey r id 0
      · exact Or.inr ⟨0, by omega, e2⟩
      · exfalso; apply hp
        simp only [m, get, e1, e2, if_false]
  · intro hwf
    have hp : get (del m (bundleKey r id)) (filesKey r id 0) ≠ none := by decide
    rcases hwf (filesKey r id 0) (repoOf_filesKey r id 0 hr) hp with e | ⟨id0, n0, a0, _, hd0, _⟩
    · revert e; decide
    · have hnone : ∀ k', get (del m (bundleKey r id)) k' = none ∨ k' = filesKey r id 0 := by
        intro k'
        by_cases e : k' = filesKey r id 0
        · exact Or.inr e
        · left
          rw [get_del]
          split
          · rfl
          · rename_i hne
            simp only [m, get, hne, e, if_false]
      rcases hnone (bundleKey r id0) with e | e
      · rw [e] at hd0; cases hd0
      · rw [e] at hd0
        have hv : get (del m (bundleKey r id)) (filesKey r id 0) = some (.files []) := by decide
        rw [hv] at hd0
        cases hd0

end Repo
