import DatamonVerif.Props.C01Seq
import DatamonVerif.Props.C03
/-! C03 for the sequential `Read` state machine (`Model/CafsSeq.lean`), over an ARBITRARY store:
a read loop that reaches `io.EOF` has delivered exactly the stored content; under any damage it
ends with an error instead. (`Read` hands out the bytes of a leaf before that leaf's hash is
checked at its end — streaming; `C03_neg_seq_partial` exhibits it — so the guarantee is about the
read as a whole, as the property states it: the read of a damaged object fails.) -/
namespace Cafs

/-- the leaf under the cursor is the stored one -/
def Genuine (s : Store) (keys cs : List Bytes) (st : SR) : Prop :=
  ∀ h : st.idx < cs.length, ∃ k, keys[st.idx]? = some k ∧ s.get k = some (cs[st.idx])

/-- states between two `Read` calls, arbitrary store -/
def SInvA (s : Store) (keys cs : List Bytes) (st : SR) : Prop :=
  (st.idx = cs.length ∧ st.opened = false ∧ (st.last = true ∨ cs.length = 0)) ∨
  (st.idx < cs.length ∧ st.sofar = 0 ∧ st.last = false ∧
    ∀ k b, keys[st.idx]? = some k → s.get k = some b → st.pos ≤ b.length)

theorem loop_sound (m : RMode) (H : Hash) (L : Nat) (s : Store) (keys cs : List Bytes) (want : Nat)
    (hlen : keys.length = cs.length) (hnsp : NoSecondPreimage H L keys cs) :
    ∀ fuel (st : SR) (acc : Bytes), (hi : st.idx < cs.length) → st.last = false →
      (∀ k b, keys[st.idx]? = some k → s.get k = some b → st.pos ≤ b.length) →
      ((SR.loop m H true L s keys want fuel st acc).2.2 = .ok ∨ (SR.loop m H true L s keys want fuel st acc).2.2 = .eof) →
      ∃ D, (SR.loop m H true L s keys want fuel st acc).2.1 = acc ++ D ∧
        SInvA s keys cs (SR.loop m H true L s keys want fuel st acc).1 ∧
        (Genuine s keys cs (SR.loop m H true L s keys want fuel st acc).1 →
          Genuine s keys cs st ∧ D ++ rem cs (SR.loop m H true L s keys want fuel st acc).1 = rem cs st) ∧
        ((SR.loop m H true L s keys want fuel st acc).2.2 = .eof →
          (SR.loop m H true L s keys want fuel st acc).1.idx = cs.length) := by
  intro fuel
  induction fuel with
  | zero => intro st acc _ _ _ hr; simp [SR.loop] at hr
  | succ f ih =>
    intro st acc hi hlast hpos hr
    have hik : st.idx < keys.length := by omega
    have hk : keys[st.idx]? = some (keys[st.idx]) := List.getElem?_eq_getElem hik
    simp only [SR.loop, hk] at hr ⊢
    cases hg : s.get (keys[st.idx]) with
    | none => simp [hg] at hr
    | some b =>
      have hp : st.pos ≤ b.length := hpos _ b hk hg
      simp only [hg] at hr ⊢
      have hle := innerRead_le m b st.pos (want - st.sofar)
      generalize hrr : innerRead m b st.pos (want - st.sofar) = r at *
      by_cases he : r.2 = true
      · have hfull : st.pos + r.1 = b.length := by
          have := innerRead_eof m b st.pos (want - st.sofar) hp (by rw [hrr]; exact he)
          rw [hrr] at this; exact this
        have htake : b.take (st.pos + r.1) = b := by rw [hfull]; exact List.take_length
        have hpiece : (b.drop st.pos).take r.1 = b.drop st.pos := by
          apply List.take_of_length_le; simp [List.length_drop]; omega
        simp only [he, if_true, htake, hpiece, Bool.true_and] at hr ⊢
        by_cases hv : (H (leafParams L keys.length st.idx b) b != keys[st.idx]) = true
        · simp [hv] at hr
        · have hveq : H (leafParams L keys.length st.idx b) b = keys[st.idx] := by simpa using hv
          have hb : b = cs[st.idx] := hnsp st.idx hi b (by rw [hk, hveq])
          have hgen : Genuine s keys cs st := fun _ => ⟨keys[st.idx], hk, by rw [hg, hb]⟩
          have hR : rem cs st = b.drop st.pos ++ (cs.drop (st.idx + 1)).flatten := by
            have := rem_decomp cs st.idx st.pos hi (by rw [← hb]; exact hp)
            rw [← hb] at this; exact this
          simp only [hv, Bool.false_eq_true, if_false] at hr ⊢
          by_cases hl : st.idx + 1 = keys.length
          · have hl' : (st.idx + 1 == keys.length) = true := by simpa using hl
            have hrest : cs.drop (st.idx + 1) = [] := List.drop_eq_nil_of_le (by omega)
            simp only [hl', if_true] at hr ⊢
            refine ⟨b.drop st.pos, rfl, Or.inl ⟨by show st.idx + 1 = cs.length; omega, rfl, Or.inl rfl⟩, ?_, fun _ => by show st.idx + 1 = cs.length; omega⟩
            intro _
            refine ⟨hgen, ?_⟩
            rw [hR, hrest]; unfold rem; simp [hrest]
          · have hl' : (st.idx + 1 == keys.length) = false := by simpa using hl
            have hi' : st.idx + 1 < cs.length := by omega
            simp only [hl', Bool.false_eq_true, if_false] at hr ⊢
            obtain ⟨D1, h1, h2, h3, h4⟩ := ih
              { idx := st.idx + 1, opened := false, pos := 0, last := false, sofar := st.sofar + r.1 }
              (acc ++ b.drop st.pos) hi' rfl (fun _ _ _ _ => Nat.zero_le _) hr
            refine ⟨b.drop st.pos ++ D1, by rw [h1, List.append_assoc], h2, ?_, h4⟩
            intro hG
            obtain ⟨_, h3b⟩ := h3 hG
            refine ⟨hgen, ?_⟩
            rw [List.append_assoc, h3b, hR]
            unfold rem; simp
      · have he' : r.2 = false := by simpa using he
        simp only [he', Bool.false_eq_true, if_false] at hr ⊢
        have hposb : ∀ k b', keys[st.idx]? = some k → s.get k = some b' → st.pos + r.1 ≤ b'.length := by
          intro k b' hk' hg'
          rw [hk] at hk'; cases hk'
          rw [hg] at hg'; cases hg'
          omega
        by_cases hd : st.sofar + r.1 ≥ want
        · simp only [hd, if_true] at hr ⊢
          refine ⟨(b.drop st.pos).take r.1, rfl, Or.inr ⟨hi, rfl, hlast, hposb⟩, ?_, by intro h; simp at h⟩
          intro hG
          obtain ⟨k, hk2, hg2⟩ := hG hi
          simp only at hk2 hg2
          rw [hk] at hk2; cases hk2
          have hb : b = cs[st.idx] := by rw [hg] at hg2; exact Option.some.inj hg2
          refine ⟨fun _ => ⟨keys[st.idx], hk, by rw [hg, hb]⟩, ?_⟩
          have hR : rem cs st = b.drop st.pos ++ (cs.drop (st.idx + 1)).flatten := by
            have := rem_decomp cs st.idx st.pos hi (by rw [← hb]; exact hp)
            rw [← hb] at this; exact this
          have hremS : rem cs { st with opened := true, pos := st.pos + r.1, sofar := 0 } = (rem cs st).drop r.1 := by
            unfold rem; simp only [List.drop_drop]
          have hpieceR : (b.drop st.pos).take r.1 = (rem cs st).take r.1 := by
            rw [hR, List.take_append_of_le_length]; simp [List.length_drop]; omega
          rw [hremS, hpieceR]; exact List.take_append_drop _ _
        · simp only [hd, if_false] at hr ⊢
          obtain ⟨D1, h1, h2, h3, h4⟩ := ih
            { st with opened := true, pos := st.pos + r.1, sofar := st.sofar + r.1 }
            (acc ++ (b.drop st.pos).take r.1) hi hlast hposb hr
          refine ⟨(b.drop st.pos).take r.1 ++ D1, by rw [h1, List.append_assoc], h2, ?_, h4⟩
          intro hG
          obtain ⟨hG1, h3b⟩ := h3 hG
          obtain ⟨k, hk2, hg2⟩ := hG1 hi
          simp only at hk2 hg2
          rw [hk] at hk2; cases hk2
          have hb : b = cs[st.idx] := by rw [hg] at hg2; exact Option.some.inj hg2
          refine ⟨fun _ => ⟨keys[st.idx], hk, by rw [hg, hb]⟩, ?_⟩
          have hR : rem cs st = b.drop st.pos ++ (cs.drop (st.idx + 1)).flatten := by
            have := rem_decomp cs st.idx st.pos hi (by rw [← hb]; exact hp)
            rw [← hb] at this; exact this
          have hremS : rem cs { st with opened := true, pos := st.pos + r.1, sofar := st.sofar + r.1 } = (rem cs st).drop r.1 := by
            unfold rem; simp only [List.drop_drop]
          have hpieceR : (b.drop st.pos).take r.1 = (rem cs st).take r.1 := by
            rw [hR, List.take_append_of_le_length]; simp [List.length_drop]; omega
          rw [List.append_assoc, h3b, hremS, hpieceR]; exact List.take_append_drop _ _

theorem read_sound (m : RMode) (H : Hash) (L : Nat) (s : Store) (keys cs : List Bytes) (want : Nat)
    (hlen : keys.length = cs.length) (hnsp : NoSecondPreimage H L keys cs) (st : SR) (hinv : SInvA s keys cs st)
    (hr : (SR.read m H true L s keys want st).2.2 = .ok ∨ (SR.read m H true L s keys want st).2.2 = .eof) :
    SInvA s keys cs (SR.read m H true L s keys want st).1 ∧
    (Genuine s keys cs (SR.read m H true L s keys want st).1 →
      Genuine s keys cs st ∧ (SR.read m H true L s keys want st).2.1 ++ rem cs (SR.read m H true L s keys want st).1 = rem cs st) ∧
    ((SR.read m H true L s keys want st).2.2 = .eof → (SR.read m H true L s keys want st).1.idx = cs.length) := by
  rcases hinv with ⟨hidx, hop, hl⟩ | ⟨hi, hsf, hl, hp⟩
  · have hc : ((st.last || keys.length == 0) && !st.opened) = true := by
      rcases hl with h | h
      · simp [h, hop]
      · simp [hlen, h, hop]
    simp only [SR.read, hc, if_true]
    exact ⟨Or.inl ⟨hidx, hop, hl⟩, fun hG => ⟨hG, by simp⟩, fun _ => hidx⟩
  · have hc : ((st.last || keys.length == 0) && !st.opened) = false := by
      have : keys.length ≠ 0 := by omega
      simp [hl, this]
    simp only [SR.read, hc, Bool.false_eq_true, if_false, hsf, List.replicate_zero] at hr ⊢
    obtain ⟨D, h1, h2, h3, h4⟩ := loop_sound m H L s keys cs want hlen hnsp _ st [] hi hl hp hr
    refine ⟨h2, ?_, h4⟩
    intro hG
    obtain ⟨g1, g2⟩ := h3 hG
    exact ⟨g1, by rw [h1, List.nil_append]; exact g2⟩

theorem readSeq_sound (m : RMode) (H : Hash) (L : Nat) (s : Store) (keys cs : List Bytes)
    (hlen : keys.length = cs.length) (hnsp : NoSecondPreimage H L keys cs) :
    ∀ (bufs : List Nat) (st : SR), SInvA s keys cs st → (readSeq m H true L s keys bufs st).2 = .eof →
      Genuine s keys cs st ∧ (readSeq m H true L s keys bufs st).1 = rem cs st := by
  intro bufs
  induction bufs with
  | nil => intro st _ h; simp [readSeq] at h
  | cons w ws ih =>
    intro st hinv hfin
    have hrs := read_sound m H L s keys cs w hlen hnsp st hinv
    simp only [readSeq] at hfin ⊢
    generalize hr : SR.read m H true L s keys w st = res at *
    obtain ⟨st', out, r⟩ := res
    cases r with
    | ok =>
      simp only at hfin hrs ⊢
      obtain ⟨h2, h3, _⟩ := hrs (Or.inl trivial)
      obtain ⟨g1, g2⟩ := ih st' h2 hfin
      obtain ⟨g3, g4⟩ := h3 g1
      exact ⟨g3, by rw [g2]; exact g4⟩
    | eof =>
      simp only at hfin hrs ⊢
      obtain ⟨_, h3, h4⟩ := hrs (Or.inr trivial)
      have hidx := h4 trivial
      have hG : Genuine s keys cs st' := fun h => by omega
      obtain ⟨g3, g4⟩ := h3 hG
      have hrem : rem cs st' = [] := by
        have : cs.drop st'.idx = [] := List.drop_eq_nil_of_le (by omega)
        unfold rem; rw [this]; simp
      rw [hrem, List.append_nil] at g4
      exact ⟨g3, g4⟩
    | err e => simp at hfin
    | panic => simp at hfin
    | fuel => simp at hfin

/-- **C03, sequential reads under arbitrary damage**: with verification on, whatever the store
    contains (altered, truncated, emptied, swapped or missing blobs), whatever the buffer sizes and
    the blob reader's behaviour, a read loop that reaches `io.EOF` has delivered exactly the stored
    content — every other run ends with an error (`ROut.err`) or was cut short by the caller. -/
theorem C03_readSeq_sound (m : RMode) (H : Hash) (L : Nat) (hL : 0 < L) (s : Store) (c : Bytes) (keys : List Bytes)
    (hlen : keys.length = (chunks L c).length) (hnsp : NoSecondPreimage H L keys (chunks L c)) (bufs : List Nat)
    (h : (readSeq m H true L s keys bufs SR.init).2 = .eof) :
    (readSeq m H true L s keys bufs SR.init).1 = c := by
  have hinit : SInvA s keys (chunks L c) SR.init := by
    by_cases h0 : (chunks L c).length = 0
    · left; exact ⟨by simp [SR.init, h0], rfl, Or.inr h0⟩
    · right; exact ⟨by simp [SR.init]; omega, rfl, rfl, fun _ _ _ _ => by simp [SR.init]⟩
  have := (readSeq_sound m H L s keys (chunks L c) hlen hnsp bufs SR.init hinit h).2
  rw [this]; unfold rem; simp [SR.init, flatten_chunks L hL c]

/-- the streaming caveat, exhibited: with a 2-byte buffer the first bytes of a damaged 4-byte leaf
    are handed out (`nil` error) before the hash check at the end of the leaf fails the read -/
theorem C03_neg_seq_partial :
    let store : Store := [([1], [9, 9, 9, 9])]
    (SR.read ⟨true, false, 0⟩ toyH true 4 store [[1]] 2 SR.init).2 = ([9, 9], .ok) ∧
    (readSeq ⟨true, false, 0⟩ toyH true 4 store [[1]] [2, 2, 2] SR.init).2 = .err .corrupt := by
  decide

end Cafs
