import DatamonVerif.Model.Bundle
import DatamonVerif.Generated.Facts
/-! C04 — bundle upload then download reproduces the uploaded tree.

The content store is abstract (`key`, `fetch`, with `fetch (key c) = some c` — that is C01/C02);
these theorems are about the metadata flow for EVERY tree, key list, completion order, number of
entries per index file and selection predicate. -/
namespace Bundle

/-! ### index files: batching and reassembly by position -/

theorem batches_nil {α : Type} (n : Nat) : batches n ([] : List α) = [] := by
  rw [batches]; simp

theorem batches_cons {α : Type} (n : Nat) (hn : 0 < n) (l : List α) (hl : l ≠ []) :
    batches n l = l.take n :: batches n (l.drop n) := by
  rw [batches]
  have : ¬ (l = [] ∨ n = 0) := by
    intro h; cases h with
    | inl h => exact hl h
    | inr h => omega
  simp only [this, dite_false]

/-- concatenating the index files in index order gives back the entry list -/
theorem C04_batches_flatten {α : Type} (n : Nat) (hn : 0 < n) (l : List α) : (batches n l).flatten = l := by
  induction hk : l.length using Nat.strongRecOn generalizing l with
  | ind k ih =>
    by_cases hl : l = []
    · subst hl; rw [batches_nil]; rfl
    · rw [batches_cons n hn l hl, List.flatten_cons]
      have hpos : 0 < l.length := List.length_pos_iff.mpr hl
      rw [ih (l.drop n).length (by simp [List.length_drop]; omega) (l.drop n) rfl]
      exact List.take_append_drop n l

/-- every index file but the last holds exactly `n` entries; the last at most `n` -/
theorem C04_batches_shape {α : Type} (n : Nat) (hn : 0 < n) (l : List α) :
    ∀ i (h : i < (batches n l).length),
      (if i + 1 = (batches n l).length then ((batches n l)[i]).length ≤ n else ((batches n l)[i]).length = n) := by
  induction hk : l.length using Nat.strongRecOn generalizing l with
  | ind k ih =>
    intro i h
    by_cases hl : l = []
    · subst hl; rw [batches_nil] at h; simp at h
    · have e := batches_cons n hn l hl
      have hpos : 0 < l.length := List.length_pos_iff.mpr hl
      -- rewrite everything through the equation
      have key : ∀ (bs : List (List α)), bs = l.take n :: batches n (l.drop n) → ∀ (h' : i < bs.length),
          (if i + 1 = bs.length then (bs[i]).length ≤ n else (bs[i]).length = n) := by
        intro bs hbs h'
        subst hbs
        cases i with
        | zero =>
          simp only [List.getElem_cons_zero, List.length_cons, List.length_take]
          by_cases hr : batches n (l.drop n) = []
          · simp [hr]; omega
          · have hne : l.drop n ≠ [] := by
              intro e'; rw [e', batches_nil] at hr; exact hr rfl
            have : n < l.length := by
              have := List.length_pos_iff.mpr hne
              simp [List.length_drop] at this; omega
            have hlen : 0 < (batches n (l.drop n)).length := List.length_pos_iff.mpr hr
            have : ¬ (0 + 1 = (batches n (l.drop n)).length + 1) := by omega
            simp only [this, if_false]; omega
        | succ j =>
          simp only [List.getElem_cons_succ, List.length_cons]
          have := ih (l.drop n).length (by simp [List.length_drop]; omega) (l.drop n) rfl j (by simpa using h')
          by_cases hj : j + 1 = (batches n (l.drop n)).length
          · simp only [hj, if_true] at this ⊢; exact this
          · have h2 : ¬ (j + 1 + 1 = (batches n (l.drop n)).length + 1) := by omega
            simp only [hj, if_false, h2] at this ⊢; exact this
      exact key (batches n l) e h

/-- **reassembly**: whatever the order in which the index files arrive, placing them by index
    and concatenating gives back exactly the uploaded entry list (no entry lost, duplicated or
    reordered), for every number of entries per file and every entry count — including exact
    multiples and zero -/
theorem C04_reassemble_batches {α : Type} (n : Nat) (hn : 0 < n) (l : List α) (arrived : List (Nat × List α))
    (harr : ∀ i (h : i < (batches n l).length), arrived.lookup i = some (batches n l)[i]) :
    reassemble n (batches n l).length arrived = some l := by
  unfold reassemble
  have hplaced : ((List.range (batches n l).length).map fun i => (arrived.lookup i).getD []) = batches n l := by
    apply List.ext_getElem
    · simp
    · intro i h1 h2
      simp only [List.getElem_map, List.getElem_range]
      rw [harr i (by simpa using h1)]; rfl
  have hok : ((List.range (batches n l).length).all fun i =>
      let b := (arrived.lookup i).getD []
      if i + 1 = (batches n l).length then decide (b.length ≤ n) else decide (b.length = n)) = true := by
    rw [List.all_eq_true]
    intro i hi
    have hi' : i < (batches n l).length := by simpa using hi
    have hs := C04_batches_shape n hn l i hi'
    simp only [harr i hi', Option.getD_some]
    by_cases hlast : i + 1 = (batches n l).length
    · simp only [hlast, if_true] at hs ⊢; simpa using hs
    · simp only [hlast, if_false] at hs ⊢; simpa using hs
  simp only [hplaced]
  have hok' : ((List.range (batches n l).length).all fun i =>
      if i + 1 = (batches n l).length then decide (((arrived.lookup i).getD []).length ≤ n)
      else decide (((arrived.lookup i).getD []).length = n)) = true := hok
  simp only [hok', if_true, C04_batches_flatten n hn l]

/-! ### which files are uploaded -/

def uploaded (tree : List (String × Bytes)) (f : String) : Bool := !isGenerated f && (tree.lookup f).isSome

/-- **entries ↔ files, one to one**: the entries are exactly the listed files that exist and are
    not generated paths, in order, each with the key and the length of its content -/
theorem C04_entries_exact {K : Type} (key : Bytes → K) (tree : List (String × Bytes)) (skip : Bool) :
    ∀ (files : List String) (es : List (Entry K)), uploadEntries key tree files skip = some es →
      es.map (·.name) = files.filter (uploaded tree) ∧
      ∀ e ∈ es, ∃ c, tree.lookup e.name = some c ∧ e.hash = key c ∧ e.size = c.length := by
  intro files
  induction files with
  | nil => intro es h; simp [uploadEntries] at h; subst h; simp
  | cons f r ih =>
    intro es h
    simp only [uploadEntries] at h
    by_cases hg : isGenerated f = true
    · simp only [hg, if_true] at h
      obtain ⟨h1, h2⟩ := ih es h
      refine ⟨?_, h2⟩
      rw [h1, List.filter_cons]; simp [uploaded, hg]
    · simp only [hg, Bool.false_eq_true, if_false] at h
      cases hl : tree.lookup f with
      | none =>
        rw [hl] at h
        cases skip with
        | false => simp at h
        | true =>
          simp only [if_true] at h
          obtain ⟨h1, h2⟩ := ih es h
          refine ⟨?_, h2⟩
          rw [h1, List.filter_cons]; simp [uploaded, hl]
      | some c =>
        rw [hl] at h
        cases hr : uploadEntries key tree r skip with
        | none => rw [hr] at h; simp at h
        | some es' =>
          rw [hr] at h
          simp only [Option.map_some, Option.some.injEq] at h
          subst h
          obtain ⟨h1, h2⟩ := ih es' hr
          refine ⟨?_, ?_⟩
          · simp only [List.map_cons, List.filter_cons]
            have : uploaded tree f = true := by simp [uploaded, hg, hl]
            rw [this, h1]; rfl
          · intro e he
            rcases List.mem_cons.mp he with rfl | he
            · exact ⟨c, hl, rfl, rfl⟩
            · exact h2 e he

/-- without skip-missing the upload fails exactly when a listed, non-generated file is missing -/
theorem C04_upload_fails_iff {K : Type} (key : Bytes → K) (tree : List (String × Bytes)) :
    ∀ files : List String, uploadEntries key tree files false = none ↔
      ∃ f ∈ files, isGenerated f = false ∧ tree.lookup f = none := by
  intro files
  induction files with
  | nil => simp [uploadEntries]
  | cons f r ih =>
    simp only [uploadEntries]
    by_cases hg : isGenerated f = true
    · simp only [hg, if_true, ih]
      constructor
      · rintro ⟨x, hx, h⟩; exact ⟨x, by simp [hx], h⟩
      · rintro ⟨x, hx, h⟩
        rcases List.mem_cons.mp hx with rfl | hx
        · rw [hg] at h; simp at h
        · exact ⟨x, hx, h⟩
    · have hg' : isGenerated f = false := by simpa using hg
      simp only [hg', Bool.false_eq_true, if_false]
      cases hl : tree.lookup f with
      | none =>
        simp only [Bool.false_eq_true, if_false, true_iff]
        exact ⟨f, by simp, hg', hl⟩
      | some c =>
        simp only [Option.map_eq_none_iff, ih]
        constructor
        · rintro ⟨x, hx, h⟩; exact ⟨x, by simp [hx], h⟩
        · rintro ⟨x, hx, h⟩
          rcases List.mem_cons.mp hx with rfl | hx
          · rw [hl] at h; simp at h
          · exact ⟨x, hx, h⟩

/-- with skip-missing the upload never fails -/
theorem C04_upload_skip_ok {K : Type} (key : Bytes → K) (tree : List (String × Bytes)) :
    ∀ files : List String, (uploadEntries key tree files true).isSome = true := by
  intro files
  induction files with
  | nil => simp [uploadEntries]
  | cons f r ih =>
    simp only [uploadEntries]
    split
    · exact ih
    · split
      · simpa using ih
      · cases h : uploadEntries key tree r true with
        | none => rw [h] at ih; simp at ih
        | some _ => simp

/-! ### download -/

theorem lookup_none_of_ne (dst : List (String × Bytes)) (k : String) (h : ∀ p ∈ dst, p.1 ≠ k) : dst.lookup k = none := by
  induction dst with
  | nil => rfl
  | cons p r ih =>
    obtain ⟨a, b⟩ := p
    have hne : a ≠ k := h (a, b) (by simp)
    simp only [List.lookup_cons]
    have : (k == a) = false := by simpa using fun e => hne e.symm
    rw [this]
    exact ih (fun q hq => h q (by simp [hq]))

/-- what a download writes: the selected entries, each under its name with its bytes -/
def written {K : Type} (fetch : K → Option Bytes) (sel : String → Bool) (es : List (Entry K)) : List (String × Bytes) :=
  (es.filter (fun e => sel e.name)).filterMap fun e => (fetch e.hash).map (e.name, ·)

/-- **download = the selected entries**: with distinct names and every blob readable, the
    destination receives exactly the selected files (a filtered or single-file download yields
    exactly the selected subset) -/
theorem C04_download_exact {K : Type} (fetch : K → Option Bytes) (sel : String → Bool) :
    ∀ (es : List (Entry K)) (dst : List (String × Bytes)),
      (∀ e ∈ es, (fetch e.hash).isSome = true) →
      (es.map (·.name)).Nodup → (∀ e ∈ es, ∀ p ∈ dst, p.1 ≠ e.name) →
      download fetch sel es dst = some (dst ++ written fetch sel es) := by
  intro es
  induction es with
  | nil => intro dst _ _ _; simp [download, written]
  | cons e r ih =>
    intro dst hf hnd hdis
    simp only [download]
    have hnd' := List.nodup_cons.mp hnd
    by_cases hs : sel e.name = true
    · simp only [hs, if_true]
      cases hfe : fetch e.hash with
      | none => have := hf e (by simp); rw [hfe] at this; simp at this
      | some c =>
        simp only
        rw [lookup_none_of_ne dst e.name (hdis e (by simp))]
        simp only [Option.isSome_none, Bool.false_eq_true, if_false]
        rw [ih (dst ++ [(e.name, c)]) (fun x hx => hf x (by simp [hx])) hnd'.2 (by
          intro x hx p hp
          rcases List.mem_append.mp hp with hp | hp
          · exact hdis x (by simp [hx]) p hp
          · simp only [List.mem_singleton] at hp
            subst hp
            intro heq
            apply hnd'.1
            simp only [List.mem_map]
            exact ⟨x, hx, heq.symm⟩)]
        simp [written, List.filter_cons, hs, hfe, List.append_assoc]
    · have hs' : sel e.name = false := by simpa using hs
      simp only [hs', Bool.false_eq_true, if_false]
      rw [ih dst (fun x hx => hf x (by simp [hx])) hnd'.2 (fun x hx => hdis x (by simp [hx]))]
      simp [written, List.filter_cons, hs']

theorem mem_of_lookup (l : List (String × Bytes)) (k : String) (v : Bytes) (h : l.lookup k = some v) : (k, v) ∈ l := by
  induction l with
  | nil => simp at h
  | cons p r ih =>
    obtain ⟨a, b⟩ := p
    simp only [List.lookup_cons] at h
    by_cases hk : k = a
    · have : (k == a) = true := by simpa using hk
      rw [this] at h
      simp only [Option.some.injEq] at h
      subst h; subst hk; simp
    · have : (k == a) = false := by simpa using hk
      rw [this] at h
      exact List.mem_cons_of_mem _ (ih h)

theorem lookup_of_mem_nodup : ∀ (l : List (String × Bytes)), (l.map (·.1)).Nodup → ∀ p ∈ l, l.lookup p.1 = some p.2 := by
  intro l
  induction l with
  | nil => intro _ p hp; simp at hp
  | cons q r ih =>
    intro hnd p hp
    obtain ⟨a, b⟩ := q
    simp only [List.map_cons, List.nodup_cons] at hnd
    rcases List.mem_cons.mp hp with rfl | hp
    · simp [List.lookup_cons]
    · have hne : p.1 ≠ a := by
        intro e; apply hnd.1; simp only [List.mem_map]; exact ⟨p, hp, e⟩
      simp only [List.lookup_cons]
      have : (p.1 == a) = false := by simpa using hne
      rw [this]
      exact ih hnd.2 p hp

theorem filter_true' {α : Type} (l : List α) : l.filter (fun _ => true) = l :=
  List.filter_eq_self.mpr (by simp)

theorem written_names {K : Type} (fetch : K → Option Bytes) :
    ∀ es : List (Entry K), (∀ e ∈ es, (fetch e.hash).isSome = true) →
      (written fetch (fun _ => true) es).map (·.1) = es.map (·.name) := by
  intro es
  induction es with
  | nil => intro _; rfl
  | cons e r ih =>
    intro hf
    have h1 := hf e (by simp)
    cases hfe : fetch e.hash with
    | none => rw [hfe] at h1; simp at h1
    | some c =>
      have := ih (fun x hx => hf x (by simp [hx]))
      unfold written at this ⊢
      rw [filter_true'] at this ⊢
      simp only [List.filterMap_cons, hfe, Option.map_some, List.map_cons, this]

/-- **completion order**: entries are recorded in the order in which the parallel uploads
    complete; whatever that order (any permutation of the entries), the download succeeds and
    writes the same set of files -/
theorem C04_download_perm {K : Type} (fetch : K → Option Bytes) (sel : String → Bool)
    (es es' : List (Entry K)) (hp : es'.Perm es)
    (hf : ∀ e ∈ es, (fetch e.hash).isSome = true) (hnd : (es.map (·.name)).Nodup) :
    ∃ out out', download fetch sel es [] = some out ∧ download fetch sel es' [] = some out' ∧ out'.Perm out := by
  have hf' : ∀ e ∈ es', (fetch e.hash).isSome = true := fun e he => hf e (hp.subset he)
  have hnd' : (es'.map (·.name)).Nodup := (hp.map _).nodup_iff.mpr hnd
  refine ⟨written fetch sel es, written fetch sel es', ?_, ?_, ?_⟩
  · simpa using C04_download_exact fetch sel es [] hf hnd (by intro _ _ p hp'; simp at hp')
  · simpa using C04_download_exact fetch sel es' [] hf' hnd' (by intro _ _ p hp'; simp at hp')
  · unfold written
    exact (hp.filter _).filterMap _

/-- **round trip**: uploading a tree (all its files, distinct paths) and downloading the bundle
    writes exactly the non-generated files, each with its original bytes -/
theorem C04_roundtrip {K : Type} (key : Bytes → K) (fetch : K → Option Bytes)
    (tree : List (String × Bytes)) (hnd : (tree.map (·.1)).Nodup)
    (hcas : ∀ p ∈ tree, fetch (key p.2) = some p.2)
    (es : List (Entry K)) (hup : uploadEntries key tree (tree.map (·.1)) false = some es) :
    ∃ out, download fetch (fun _ => true) es [] = some out ∧
      out.map (·.1) = (tree.map (·.1)).filter (fun f => !isGenerated f) ∧
      ∀ p ∈ out, tree.lookup p.1 = some p.2 := by
  obtain ⟨hnames, hent⟩ := C04_entries_exact key tree false _ es hup
  have hlk := lookup_of_mem_nodup tree hnd
  have hfetch : ∀ e ∈ es, (fetch e.hash).isSome = true := by
    intro e he
    obtain ⟨c, h1, h2, _⟩ := hent e he
    have hmem : (e.name, c) ∈ tree := mem_of_lookup tree _ _ h1
    rw [h2, hcas (e.name, c) hmem]; rfl
  have hndes : (es.map (·.name)).Nodup := by
    rw [hnames]; exact hnd.filter _
  have hd := C04_download_exact fetch (fun _ => true) es [] hfetch hndes (by intro _ _ p hp; simp at hp)
  refine ⟨written fetch (fun _ => true) es, by simpa using hd, ?_, ?_⟩
  · have := written_names fetch es hfetch
    rw [this, hnames]
    apply List.filter_congr
    intro f hf
    simp only [uploaded]
    have : (tree.lookup f).isSome = true := by
      simp only [List.mem_map] at hf
      obtain ⟨p, hp, rfl⟩ := hf
      rw [hlk p hp]; rfl
    rw [this, Bool.and_true]
  · intro p hp
    unfold written at hp
    rw [filter_true'] at hp
    simp only [List.mem_filterMap] at hp
    obtain ⟨e, he, hm⟩ := hp
    obtain ⟨c, h1, h2, _⟩ := hent e he
    have hmem : (e.name, c) ∈ tree := mem_of_lookup tree _ _ h1
    rw [h2, hcas (e.name, c) hmem] at hm
    simp only [Option.map_some, Option.some.injEq] at hm
    subst hm
    exact h1

/-- **repeated keys** in an explicit key list are uploaded once -/
theorem C04_dedup_nodup : ∀ l : List String, (dedup l).Nodup := by
  intro l
  induction l with
  | nil => simp [dedup]
  | cons k r ih =>
    simp only [dedup, List.nodup_cons]
    refine ⟨?_, ih.filter _⟩
    simp [List.mem_filter]

theorem C04_dedup_mem (l : List String) : ∀ x, x ∈ dedup l ↔ x ∈ l := by
  induction l with
  | nil => simp [dedup]
  | cons k r ih =>
    intro x
    simp only [dedup, List.mem_cons, List.mem_filter, ih]
    constructor
    · rintro (h | ⟨h, _⟩)
      · exact Or.inl h
      · exact Or.inr h
    · rintro (h | h)
      · exact Or.inl h
      · by_cases hx : x = k
        · exact Or.inl hx
        · exact Or.inr ⟨h, by simpa using hx⟩

/-- negation witness: WITHOUT de-duplication a repeated key yields two entries for one path and
    the download fails on its create-if-absent write (the defect repaired in /repo) -/
theorem C04_neg_repeated_key :
    let tree : List (String × Bytes) := [("a", [1]), ("b", [2])]
    (uploadEntries id tree ["a", "b", "a"] false).bind (fun es => download (fun c => some c) (fun _ => true) es []) = none ∧
    ((uploadEntries id tree (dedup ["a", "b", "a"]) false).bind (fun es => download (fun c => some c) (fun _ => true) es [])).isSome = true := by
  decide

/-- the regular expression `isGenerated` was written for is the one in the Go source NOW
    (regenerated fact), and the production number of entries per index file is positive -/
theorem C04_facts :
    Facts.re_genFileRe =
      "^\\.datamon/.*|^/\\.datamon/.*|^/\\.datamon$|^\\.datamon$|^\\./\\.datamon/.*|^\\./\\.datamon$|^(\\./|/)?\\.conflicts(/.*|$)|^(\\./|/)?\\.checkpoints(/.*|$)" := by
  rfl

/-- non-vacuity: generated-path decoys -/
example : [".datamon/x", ".conflicts", "./.checkpoints/s/p", "a/.datamon/x", ".datamonx", ".conflictsx", "..conflicts/x", "x"].map isGenerated
    = [true, true, true, false, false, false, false, false] := by decide


/-! ### the source calls made explicit: a failing existence check changes nothing -/

/-- **existence checks may fail at will**: as long as the reads are served, an upload whose
    existence checks (`skipFile` → `Has`) fail on any set of files — or answer truthfully — produces
    exactly the entries of the fault-free upload, with and without skip-missing -/
theorem C04_has_fault_same {K : Type} (key : Bytes → K) (tree : List (String × Bytes)) (src : SrcCalls)
    (hget : ∀ f, src.get f = some (tree.lookup f))
    (hhas : ∀ f, src.has f = none ∨ src.has f = some (tree.lookup f).isSome) (skip : Bool) :
    ∀ files : List String, uploadEntriesF key src files skip = uploadEntries key tree files skip := by
  intro files
  induction files with
  | nil => simp [uploadEntriesF, uploadEntries]
  | cons f r ih =>
    simp only [uploadEntriesF, uploadEntries]
    by_cases hg : isGenerated f = true
    · simp only [hg, if_true]; exact ih
    · simp only [hg, Bool.false_eq_true, if_false, hget f]
      cases hl : tree.lookup f with
      | none =>
        rcases hhas f with hh | hh
        · cases skip <;> simp [hh, ih]
        · rw [hl] at hh
          cases skip <;> simp [hh, ih]
      | some c =>
        rcases hhas f with hh | hh
        · cases skip <;> simp [hh, ih]
        · rw [hl] at hh
          cases skip <;> simp [hh, ih]

/-- **a failed read is never a silent skip** unless skip-missing asks for it: without skip-missing
    the upload fails as soon as one considered file cannot be read -/
theorem C04_get_fault_fails {K : Type} (key : Bytes → K) (src : SrcCalls) :
    ∀ files : List String, (∃ f ∈ files, isGenerated f = false ∧ src.get f = none) →
      uploadEntriesF key src files false = none := by
  intro files
  induction files with
  | nil => intro h; simp at h
  | cons f r ih =>
    intro h
    simp only [uploadEntriesF, Bool.false_and, Bool.false_eq_true, if_false]
    by_cases hg : isGenerated f = true
    · simp only [hg, if_true]
      apply ih
      obtain ⟨x, hx, hxg, hxe⟩ := h
      rcases List.mem_cons.mp hx with rfl | hx'
      · rw [hg] at hxg; cases hxg
      · exact ⟨x, hx', hxg, hxe⟩
    · simp only [hg, Bool.false_eq_true, if_false]
      cases hgf : src.get f with
      | none => rfl
      | some o =>
        cases o with
        | none => rfl
        | some c =>
          have : uploadEntriesF key src r false = none := by
            apply ih
            obtain ⟨x, hx, hxg, hxe⟩ := h
            rcases List.mem_cons.mp hx with rfl | hx'
            · rw [hgf] at hxe; cases hxe
            · exact ⟨x, hx', hxg, hxe⟩
          simp [this]

end Bundle
