import DatamonVerif.Model.Labels
/-! C08 — labels resolve to the bundle most recently assigned to them.

Theorems about `Model/Labels.lean` (the model of pkg/core label.go, label_list.go, delete.go and of the
label paths of pkg/model), for ALL histories, names, prefixes and every unicode oracle `U`:

* `C08_refines` / `C08_history`: the object-store model refines the map `repo → name → bundle`
  (`Spec`): after every operation the abstraction of the store equals the abstract step, and
  the result of the operation is the one the map demands (`specOut`): get = last assignment or
  not found, list = exactly the live labels with the prefix, no duplicates;
* `C08_get_last_set`, `C08_list_last_set`, `C08_get_after_delete`: the readable corollaries over histories;
* `C08_label_frame`: set/delete change no metadata key (repos, bundles) and no other label;
* `C08_list_exact`, `C08_list_eq_spec`: prefix-filtered listing;
* `C08_accepted_resolvable`: a name the API accepts is afterwards resolved and listed;
* `C08_delete_bundle_labels`, `C08_no_label_on_deleted_bundle`: a successful `DeleteBundle` removes exactly
  the labels last set to that bundle, whatever their number;
* `C08_neg_…`: what goes wrong without name validation, and for prefixes `<name>/label.yaml`.
-/
namespace Labels

abbrev noSlash (s : Str) : Prop := 47 ∉ s

/-! ## the archive paths -/
theorem labelKey_eq (r n : Str) :
    labelKey r n = labelsDir ++ 47 :: (r ++ 47 :: (n ++ 47 :: labelFile)) := rfl
theorem listPrefix_eq (r p : Str) :
    listPrefix r p = labelsDir ++ 47 :: (r ++ 47 :: p) := rfl
theorem repoKey_eq (r : Str) :
    repoKey r = [114, 101, 112, 111, 115, 47] ++ (r ++ [47, 114, 101, 112, 111, 46, 121, 97, 109, 108]) := rfl
theorem bundleKey_head (r b : Str) : ∃ t, bundleKey r b = 98 :: t := ⟨_, rfl⟩
theorem splitSlash_append (a b : Str) (h : noSlash a) : splitSlash (a ++ 47 :: b) = a :: splitSlash b := by
  induction a with
  | nil => simp [splitSlash]
  | cons c cs ih =>
    have hc : c ≠ 47 := fun e => h (by simp [e])
    have hcs : noSlash cs := fun m => h (List.mem_cons_of_mem _ m)
    simp only [List.cons_append, splitSlash, hc, if_false, ih hcs]

theorem splitSlash_noSlash (a : Str) (h : noSlash a) : splitSlash a = [a] := by
  induction a with
  | nil => simp [splitSlash]
  | cons c cs ih =>
    have hc : c ≠ 47 := fun e => h (by simp [e])
    have hcs : noSlash cs := fun m => h (List.mem_cons_of_mem _ m)
    simp only [splitSlash, hc, if_false, ih hcs]

theorem append_slash_inj (a b x y : Str) (ha : noSlash a) (hb : noSlash b)
    (h : a ++ 47 :: x = b ++ 47 :: y) : a = b ∧ x = y := by
  induction a generalizing b with
  | nil =>
    cases b with
    | nil => simpa using h
    | cons d b' =>
      simp at h
      exact absurd h.1.symm (fun e => hb (by simp [e]))
  | cons c a' ih =>
    cases b with
    | nil =>
      simp at h
      exact absurd h.1 (fun e => ha (by simp [e]))
    | cons d b' =>
      simp at h
      have := ih b' (fun m => ha (List.mem_cons_of_mem _ m)) (fun m => hb (List.mem_cons_of_mem _ m)) h.2
      exact ⟨by rw [h.1, this.1], this.2⟩

theorem prefix_slash_iff (a b x y : Str) (ha : noSlash a) (hb : noSlash b) :
    (a ++ 47 :: x) <+: (b ++ 47 :: y) ↔ a = b ∧ x <+: y := by
  induction a generalizing b with
  | nil =>
    cases b with
    | nil => simp [List.cons_prefix_cons]
    | cons d b' =>
      have hd : d ≠ 47 := fun e => hb (by simp [e])
      simp [List.cons_prefix_cons, Ne.symm hd]
  | cons c a' ih =>
    have hc : c ≠ 47 := fun e => ha (by simp [e])
    cases b with
    | nil => simp [List.cons_prefix_cons, hc]
    | cons d b' =>
      have := ih b' (fun m => ha (List.mem_cons_of_mem _ m)) (fun m => hb (List.mem_cons_of_mem _ m))
      simp only [List.cons_append, List.cons_prefix_cons, this, List.cons.injEq]
      constructor
      · rintro ⟨h1, h2, h3⟩; exact ⟨⟨h1, h2⟩, h3⟩
      · rintro ⟨⟨h1, h2⟩, h3⟩; exact ⟨h1, h2, h3⟩

theorem prefix_noSlash_append (p n y : Str) (hp : noSlash p) : p <+: (n ++ 47 :: y) ↔ p <+: n := by
  induction p generalizing n with
  | nil => simp
  | cons c p' ih =>
    have hc : c ≠ 47 := fun e => hp (by simp [e])
    cases n with
    | nil => simp [List.cons_prefix_cons, hc]
    | cons d n' =>
      simp only [List.cons_append, List.cons_prefix_cons, ih n' (fun m => hp (List.mem_cons_of_mem _ m))]

theorem noSlash_dir : noSlash labelsDir := by decide
theorem noSlash_file : noSlash labelFile := by decide

theorem parse_labelKey (r n : Str) (hr : noSlash r) (hn : noSlash n) :
    parseLabelKey (labelKey r n) = some (r, n) := by
  have h : splitSlash (labelKey r n) = [labelsDir, r, n, labelFile] := by
    rw [labelKey_eq, splitSlash_append _ _ noSlash_dir, splitSlash_append _ _ hr, splitSlash_append _ _ hn,
      splitSlash_noSlash _ noSlash_file]
  simp [parseLabelKey, h]

theorem labelKey_inj (r n r' n' : Str) (hr : noSlash r) (hr' : noSlash r')
    (h : labelKey r n = labelKey r' n') : r = r' ∧ n = n' := by
  rw [labelKey_eq, labelKey_eq] at h
  have h1 := List.append_cancel_left h
  simp only [List.cons.injEq, true_and] at h1
  have h2 := append_slash_inj _ _ _ _ hr hr' h1
  refine ⟨h2.1, ?_⟩
  have h3 : n ++ 47 :: labelFile = n' ++ 47 :: labelFile := h2.2
  exact List.append_cancel_right h3

theorem repoKey_inj (r r' : Str) (h : repoKey r = repoKey r') : r = r' := by
  rw [repoKey_eq, repoKey_eq] at h
  exact List.append_cancel_right (List.append_cancel_left h)

theorem bundleKey_ne_repoKey (r b r' : Str) : bundleKey r b ≠ repoKey r' := by
  obtain ⟨t, ht⟩ := bundleKey_head r b
  rw [ht, repoKey_eq]; simp

/-! store lemmas -/
section store
variable {β : Type}

def Distinct (l : Store β) : Prop := l.Pairwise (fun a b => a.1 ≠ b.1)

theorem get_filter_ne (k k' : Str) (l : Store β) (h : k' ≠ k) :
    get k' (l.filter (fun e => e.1 != k)) = get k' l := by
  induction l with
  | nil => rfl
  | cons e t ih =>
    obtain ⟨ke, ve⟩ := e
    by_cases hk : ke = k
    · have : ke ≠ k' := fun e => h (e.symm.trans hk)
      simp [hk, get, ih]
      intro e; exact absurd e.symm h
    · simp [hk, get, ih]

theorem get_filter_same (k : Str) (l : Store β) : get k (l.filter (fun e => e.1 != k)) = none := by
  induction l with
  | nil => rfl
  | cons e t ih =>
    obtain ⟨ke, ve⟩ := e
    by_cases hk : ke = k
    · simp [hk, ih]
    · simp [hk, get, ih]

theorem get_put_same (k : Str) (v : β) (l : Store β) : get k (put k v l) = some v := by
  simp [put, get]

theorem get_put_ne (k k' : Str) (v : β) (l : Store β) (h : k' ≠ k) : get k' (put k v l) = get k' l := by
  have : k ≠ k' := fun e => h e.symm
  simp [put, get, this, get_filter_ne k k' l h]

theorem get_del_same (k : Str) (l : Store β) : get k (del k l) = none := get_filter_same k l
theorem get_del_ne (k k' : Str) (l : Store β) (h : k' ≠ k) : get k' (del k l) = get k' l := get_filter_ne k k' l h

theorem mem_of_get (k : Str) (v : β) (l : Store β) (h : get k l = some v) : (k, v) ∈ l := by
  induction l with
  | nil => simp [get] at h
  | cons e t ih =>
    obtain ⟨ke, ve⟩ := e
    by_cases hk : ke = k
    · simp [get, hk] at h; simp [hk, h]
    · simp [get, hk] at h; exact List.mem_cons_of_mem _ (ih h)

theorem get_of_mem (k : Str) (v : β) (l : Store β) (hd : Distinct l) (h : (k, v) ∈ l) : get k l = some v := by
  induction l with
  | nil => simp at h
  | cons e t ih =>
    obtain ⟨ke, ve⟩ := e
    have hd' := List.pairwise_cons.mp hd
    rcases List.mem_cons.mp h with h | h
    · cases h; simp [get]
    · have : ke ≠ k := hd'.1 (k, v) h
      simp [get, this, ih hd'.2 h]

theorem distinct_put (k : Str) (v : β) (l : Store β) (hd : Distinct l) : Distinct (put k v l) := by
  unfold put Distinct
  apply List.pairwise_cons.mpr
  constructor
  · intro e he
    have := (List.mem_filter.mp he).2
    simp at this
    exact fun e' => this e'.symm
  · exact List.Pairwise.filter _ hd

theorem distinct_del (k : Str) (l : Store β) (hd : Distinct l) : Distinct (del k l) :=
  List.Pairwise.filter _ hd

theorem mem_put (k : Str) (v : β) (l : Store β) (e : Str × β) (h : e ∈ put k v l) : e = (k, v) ∨ e ∈ l := by
  unfold put at h
  rcases List.mem_cons.mp h with h | h
  · exact Or.inl h
  · exact Or.inr (List.mem_filter.mp h).1

theorem mem_del (k : Str) (l : Store β) (e : Str × β) (h : e ∈ del k l) : e ∈ l :=
  (List.mem_filter.mp h).1

end store

/-! ## validation -/

theorem validName_noSlash (n : Str) (h : validName n = true) : noSlash n := by
  simp [validName] at h
  exact h.1.1.2

theorem validName_ne_nil (n : Str) (h : validName n = true) : n ≠ [] := by
  simp [validName] at h
  exact h.1.1.1

theorem validRepo_noSlash (U : Nat → Bool) (r : Str) (h : validRepo U r = true) : noSlash r := by
  simp [validRepo] at h
  intro hm
  have := h.2 47 hm
  simp [repoChar] at this

/-! ## the invariant of reachable states -/

structure Inv (s : St) : Prop where
  distinct : Distinct s.vmd
  wf : ∀ e ∈ s.vmd, ∃ r n, noSlash r ∧ noSlash n ∧ e.1 = labelKey r n ∧ e.2.name = n
  repos : ∀ r, repoExists s r = true → noSlash r

theorem inv_empty : Inv St.empty := by
  refine ⟨List.Pairwise.nil, ?_, ?_⟩
  · intro e he; cases he
  · intro r h; simp [repoExists, has, get, St.empty] at h

theorem has_put_same {β : Type} (k : Str) (v : β) (l : Store β) : has k (put k v l) = true := by
  simp [has, get_put_same]

theorem has_put_ne {β : Type} (k k' : Str) (v : β) (l : Store β) (h : k' ≠ k) : has k' (put k v l) = has k' l := by
  simp [has, get_put_ne k k' v l h]

theorem inv_mkRepo (U : Nat → Bool) (s : St) (r : Str) (hI : Inv s) : Inv (mkRepo U s r).1 := by
  unfold mkRepo
  split
  · exact hI
  · split
    · exact hI
    · rename_i hv _
      refine ⟨hI.distinct, hI.wf, ?_⟩
      intro r' h
      by_cases e : r' = r
      · subst e
        exact validRepo_noSlash U r' (by simpa using hv)
      · have hk : repoKey r' ≠ repoKey r := fun h' => e (repoKey_inj _ _ h')
        have : repoExists s r' = true := by
          simpa [repoExists, has_put_ne _ _ _ _ hk] using h
        exact hI.repos r' this

theorem inv_mkBundle (s : St) (r b : Str) (hI : Inv s) : Inv (mkBundle s r b).1 := by
  unfold mkBundle
  split
  · exact hI
  · refine ⟨hI.distinct, hI.wf, ?_⟩
    intro r' h
    have hk : repoKey r' ≠ bundleKey r b := fun h' => bundleKey_ne_repoKey r b r' h'.symm
    have : repoExists s r' = true := by
      simpa [repoExists, has_put_ne _ _ _ _ hk] using h
    exact hI.repos r' this

theorem inv_setLabel (s : St) (r n b : Str) (hI : Inv s) : Inv (setLabel s r n b).1 := by
  unfold setLabel setLabelV
  split
  · exact hI
  · split
    · exact hI
    · rename_i hv hr
      have hv' : validName n = true := by simpa using hv
      have hr' : repoExists s r = true := by simpa using hr
      refine ⟨distinct_put _ _ _ hI.distinct, ?_, hI.repos⟩
      intro e he
      rcases mem_put _ _ _ _ he with h | h
      · subst h
        exact ⟨r, n, hI.repos r hr', validName_noSlash n hv', rfl, rfl⟩
      · exact hI.wf e h

theorem inv_deleteLabel (s : St) (r n : Str) (hI : Inv s) : Inv (deleteLabel s r n).1 := by
  unfold deleteLabel
  split
  · exact hI
  · split
    · exact hI
    · exact ⟨distinct_del _ _ hI.distinct, fun e he => hI.wf e (mem_del _ _ _ he), hI.repos⟩

theorem inv_step (U : Nat → Bool) (s : St) (op : Op) (hI : Inv s) : Inv (step U s op).1 := by
  cases op with
  | mkRepo r => exact inv_mkRepo U s r hI
  | mkBundle r b => exact inv_mkBundle s r b hI
  | set r n b => exact inv_setLabel s r n b hI
  | del r n => exact inv_deleteLabel s r n hI
  | get r n => exact hI
  | list r p => exact hI

theorem inv_run (U : Nat → Bool) (ops : List Op) : ∀ s, Inv s → Inv (run U s ops) := by
  induction ops with
  | nil => intro s h; exact h
  | cons op ops ih => intro s h; exact ih _ (inv_step U s op h)

/-- every state reachable from the empty context satisfies the invariant -/
theorem C08_reachable_inv (U : Nat → Bool) (ops : List Op) : Inv (run U St.empty ops) :=
  inv_run U ops _ inv_empty

/-! ## abstraction to the label map -/

/-- the label map a state stands for: `repo ↦ name ↦ bundle` (repositories are slash-free names) -/
def abs (s : St) : Spec :=
  ⟨fun r => repoExists s r, fun r n => if 47 ∈ r then none else (get (labelKey r n) s.vmd).map (·.bundle)⟩

theorem spec_ext (a b : Spec) (h1 : ∀ r, a.repos r = b.repos r) (h2 : ∀ r n, a.labels r n = b.labels r n) : a = b := by
  cases a; cases b
  simp only [Spec.mk.injEq]
  exact ⟨funext h1, funext fun r => funext fun n => h2 r n⟩

theorem abs_labels_of_noSlash (s : St) (r n : Str) (h : noSlash r) :
    (abs s).labels r n = (get (labelKey r n) s.vmd).map (·.bundle) := by
  simp [abs, h]

/-- listing prefixes for which the property is claimed (all prefixes without `/`, and more) -/
def opOK : Op → Prop
  | .list _ p => prefixTrigger p = false
  | _ => True

theorem refines_mkRepo (U : Nat → Bool) (s : St) (r : Str) :
    abs (mkRepo U s r).1 = specStep U (abs s) (.mkRepo r) ∧ specOut U (abs s) (.mkRepo r) (mkRepo U s r).2 := by
  unfold mkRepo
  by_cases hv : validRepo U r = true
  · by_cases hx : repoExists s r = true
    · simp [hv, hx, specStep, specOut, abs]
    · have hx' : repoExists s r = false := by simpa using hx
      simp only [hv, hx', Bool.not_true, Bool.false_eq_true, if_false, specOut, abs]
      refine ⟨?_, by simp⟩
      simp only [specStep, hv, hx', Bool.not_false, Bool.and_self, if_true]
      apply spec_ext
      · intro x
        by_cases e : x = r
        · subst e; simp [repoExists, has_put_same]
        · have hk : repoKey x ≠ repoKey r := fun h' => e (repoKey_inj _ _ h')
          simp [repoExists, has_put_ne _ _ _ _ hk, e]
      · intro x y; rfl
  · have hv' : validRepo U r = false := by simpa using hv
    simp [hv', specStep, specOut]

theorem refines_mkBundle (U : Nat → Bool) (s : St) (r b : Str) :
    abs (mkBundle s r b).1 = specStep U (abs s) (.mkBundle r b) ∧ specOut U (abs s) (.mkBundle r b) (mkBundle s r b).2 := by
  unfold mkBundle
  by_cases hx : repoExists s r = true
  · simp only [hx, Bool.not_true, Bool.false_eq_true, if_false, specStep, specOut, abs, if_true, and_true]
    apply spec_ext
    · intro x
      have hk : repoKey x ≠ bundleKey r b := fun h' => bundleKey_ne_repoKey r b x h'.symm
      simp [repoExists, has_put_ne _ _ _ _ hk]
    · intro x y; rfl
  · have hx' : repoExists s r = false := by simpa using hx
    simp [hx', specStep, specOut, abs]

theorem refines_set (U : Nat → Bool) (s : St) (r n b : Str) (hI : Inv s) :
    abs (setLabel s r n b).1 = specStep U (abs s) (.set r n b) ∧ specOut U (abs s) (.set r n b) (setLabel s r n b).2 := by
  unfold setLabel setLabelV
  by_cases hv : validName n = true
  · by_cases hx : repoExists s r = true
    · have hr : noSlash r := hI.repos r hx
      simp only [hv, hx, Bool.not_true, Bool.and_false, Bool.false_eq_true, if_false, specOut, abs, and_true]
      simp only [specStep, hv, hx, Bool.and_self, if_true]
      apply spec_ext
      · intro x; rfl
      · intro x y
        by_cases hs : 47 ∈ x
        · have : x ≠ r := fun e => hr (e ▸ hs)
          simp [hs, this]
        · by_cases hk : labelKey x y = labelKey r n
          · have := labelKey_inj _ _ _ _ hs hr hk
            simp [hr, get_put_same, this.1, this.2]
          · have hne : ¬ (x = r ∧ y = n) := fun h => hk (by rw [h.1, h.2])
            simp [hs, get_put_ne _ _ _ _ hk, hne]
    · have hx' : repoExists s r = false := by simpa using hx
      simp [hv, hx', specStep, specOut, abs]
  · have hv' : validName n = false := by simpa using hv
    simp [hv', specStep, specOut]

theorem refines_del (U : Nat → Bool) (s : St) (r n : Str) (hI : Inv s) :
    abs (deleteLabel s r n).1 = specStep U (abs s) (.del r n) ∧ specOut U (abs s) (.del r n) (deleteLabel s r n).2 := by
  unfold deleteLabel
  by_cases hx : repoExists s r = true
  · have hr : noSlash r := hI.repos r hx
    by_cases hh : has (labelKey r n) s.vmd = true
    · have hsome : (get (labelKey r n) s.vmd).isSome = true := hh
      simp only [hx, hh, Bool.not_true, Bool.false_eq_true, if_false, specOut, abs]
      constructor
      · simp only [specStep, hx, if_true]
        apply spec_ext
        · intro x; rfl
        · intro x y
          by_cases hs : 47 ∈ x
          · have : x ≠ r := fun e => hr (e ▸ hs)
            simp [hs, this]
          · by_cases hk : labelKey x y = labelKey r n
            · have := labelKey_inj _ _ _ _ hs hr hk
              simp [hr, get_del_same, this.1, this.2]
            · have hne : ¬ (x = r ∧ y = n) := fun h => hk (by rw [h.1, h.2])
              simp [hs, get_del_ne _ _ _ hk, hne]
      · obtain ⟨d, hd⟩ := Option.isSome_iff_exists.mp hsome
        simp [hr, hd]
    · have hh' : has (labelKey r n) s.vmd = false := by simpa using hh
      have hnone : get (labelKey r n) s.vmd = none := by
        simpa [has] using hh'
      simp only [hx, hh', Bool.not_true, Bool.false_eq_true, if_false, Bool.not_false, if_true, specOut, abs]
      constructor
      · simp only [specStep, hx, if_true]
        apply spec_ext
        · intro x; rfl
        · intro x y
          by_cases hxy : x = r ∧ y = n
          · simp [hxy, hnone]
          · simp [hxy]
      · simp [hr, hnone]
  · have hx' : repoExists s r = false := by simpa using hx
    simp [hx', specStep, specOut, abs]

theorem refines_get (U : Nat → Bool) (s : St) (r n : Str) (hI : Inv s) :
    specOut U (abs s) (.get r n) (getLabel s r n) := by
  unfold getLabel
  by_cases hx : repoExists s r = true
  · have hr : noSlash r := hI.repos r hx
    simp only [specOut, abs, hx, Bool.not_true, Bool.false_eq_true, if_false, hr]
    cases get (labelKey r n) s.vmd <;> simp
  · have hx' : repoExists s r = false := by simpa using hx
    simp [hx', specOut, abs]

/-! ## listing -/

theorem afterSlash_none (p : Str) (h : afterSlash p = none) : noSlash p := by
  induction p with
  | nil => intro hm; cases hm
  | cons c t ih =>
    by_cases hc : c = 47
    · simp [afterSlash, hc] at h
    · simp only [afterSlash, hc, if_false] at h
      intro hm
      rcases List.mem_cons.mp hm with e | e
      · exact hc e.symm
      · exact ih h e

theorem afterSlash_some (p q : Str) (h : afterSlash p = some q) : ∃ a, noSlash a ∧ p = a ++ 47 :: q := by
  induction p with
  | nil => simp [afterSlash] at h
  | cons c t ih =>
    by_cases hc : c = 47
    · simp [afterSlash, hc] at h
      exact ⟨[], (by intro hm; cases hm), by simp [hc, h]⟩
    · simp only [afterSlash, hc, if_false] at h
      obtain ⟨a, ha, e⟩ := ih h
      refine ⟨c :: a, ?_, by simp [e]⟩
      intro hm
      rcases List.mem_cons.mp hm with e' | e'
      · exact hc e'.symm
      · exact ha e'

/-- a key prefix selects the keys of the repository's labels whose name *followed by `/label.yaml`*
    starts with the prefix -/
theorem key_prefix_iff (r p r' n' : Str) (hr : noSlash r) (hr' : noSlash r') :
    (listPrefix r p) <+: (labelKey r' n') ↔ r = r' ∧ p <+: (n' ++ 47 :: labelFile) := by
  rw [listPrefix_eq, labelKey_eq, List.prefix_append_right_inj, List.cons_prefix_cons]
  simp only [true_and]
  exact prefix_slash_iff r r' p _ hr hr'

/-- outside the trigger region this is the same as: the name starts with the prefix -/
theorem name_prefix_iff (p n' : Str) (hn' : noSlash n') (ht : prefixTrigger p = false) :
    p <+: (n' ++ 47 :: labelFile) ↔ p <+: n' := by
  unfold prefixTrigger at ht
  cases h : afterSlash p with
  | none => exact prefix_noSlash_append p n' _ (afterSlash_none p h)
  | some q =>
    obtain ⟨a, ha, e⟩ := afterSlash_some p q h
    simp only [h] at ht
    have hq : ¬ q <+: labelFile := by
      intro hq
      rw [← List.isPrefixOf_iff_prefix] at hq
      simp [hq] at ht
    subst e
    constructor
    · intro hp
      exact absurd ((prefix_slash_iff a n' q _ ha hn').mp hp).2 hq
    · intro hp
      exact absurd (hp.subset (by simp)) hn'

theorem collect_map_some {α β : Type} (g : α → β) (l : List α) :
    collect (l.map (fun x => some (g x))) = some (l.map g) := by
  induction l with
  | nil => rfl
  | cons a t ih => simp [collect, ih]

theorem fetchOne_entry (s : St) (hI : Inv s) (r p : Str) (hr : noSlash r) (e : Str × Desc) (he : e ∈ s.vmd)
    (hpre : (listPrefix r p).isPrefixOf e.1 = true) : fetchOne s r e.1 = some (e.2.name, e.2.bundle) := by
  obtain ⟨r', n', hr', hn', hk, hname⟩ := hI.wf e he
  rw [List.isPrefixOf_iff_prefix, hk] at hpre
  have hrr : r = r' := ((key_prefix_iff r p r' n' hr hr').mp hpre).1
  subst hrr
  have hmem : (labelKey r n', e.2) ∈ s.vmd := by
    rw [← hk]; exact he
  have hget := get_of_mem _ _ _ hI.distinct hmem
  unfold fetchOne
  rw [hk, parse_labelKey r n' hr hn']
  simp only [hget, hname]
  by_cases hnil : n' = [] <;> simp [hnil]

/-- the listing of a reachable state, in closed form: no key fails, the result is the entries under
    the key prefix -/
theorem listLabels_eq (s : St) (hI : Inv s) (r p : Str) (hx : repoExists s r = true) :
    listLabels s r p = .labels ((s.vmd.filter (fun e => (listPrefix r p).isPrefixOf e.1)).map
      (fun e => (e.2.name, e.2.bundle))) := by
  have hr : noSlash r := hI.repos r hx
  unfold listLabels keysPrefix
  simp only [hx, Bool.not_true, Bool.false_eq_true, if_false]
  rw [List.filter_map, List.map_map]
  have : (s.vmd.filter ((fun k => (listPrefix r p).isPrefixOf k) ∘ fun x => x.1)).map (fetchOne s r ∘ fun x => x.1)
      = (s.vmd.filter ((fun k => (listPrefix r p).isPrefixOf k) ∘ fun x => x.1)).map
          (fun e => some ((fun e : Str × Desc => (e.2.name, e.2.bundle)) e)) := by
    apply List.map_congr_left
    intro e he
    have h1 := List.mem_filter.mp he
    exact fetchOne_entry s hI r p hr e h1.1 h1.2
  rw [this, collect_map_some]
  rfl

/-- `specList` is the same list outside the trigger region -/
theorem C08_list_eq_spec (s : St) (hI : Inv s) (r p : Str) (ht : prefixTrigger p = false) :
    listLabels s r p = specList s r p := by
  by_cases hx : repoExists s r = true
  · rw [listLabels_eq s hI r p hx]
    have hr : noSlash r := hI.repos r hx
    unfold specList
    simp only [hx, Bool.not_true, Bool.false_eq_true, if_false]
    congr 2
    apply List.filter_congr
    intro e he
    obtain ⟨r', n', hr', hn', hk, hname⟩ := hI.wf e he
    rw [Bool.eq_iff_iff]
    simp only [Bool.and_eq_true, beq_iff_eq, List.isPrefixOf_iff_prefix]
    rw [hk, hname, key_prefix_iff r p r' n' hr hr', name_prefix_iff p n' hn' ht]
    constructor
    · rintro ⟨h1, h2⟩; exact ⟨by rw [h1], h2⟩
    · rintro ⟨h1, h2⟩; exact ⟨(labelKey_inj _ _ _ _ hr' hr h1).1.symm, h2⟩
  · have hx' : repoExists s r = false := by simpa using hx
    simp [listLabels, specList, hx']

/-- membership in `specList`'s result = live in the label map and starting with the prefix -/
theorem specList_mem (s : St) (hI : Inv s) (r p : Str) (hr : noSlash r) (n b : Str) :
    (n, b) ∈ (s.vmd.filter (fun e => e.1 == labelKey r e.2.name && p.isPrefixOf e.2.name)).map (fun e => (e.2.name, e.2.bundle))
      ↔ ((abs s).labels r n = some b ∧ p <+: n) := by
  rw [abs_labels_of_noSlash s r n hr]
  constructor
  · intro h
    obtain ⟨e, he, heq⟩ := List.mem_map.mp h
    have h1 := List.mem_filter.mp he
    simp only [Bool.and_eq_true, beq_iff_eq, List.isPrefixOf_iff_prefix] at h1
    simp only [Prod.mk.injEq] at heq
    have hmem : (labelKey r n, e.2) ∈ s.vmd := by
      rw [← heq.1, ← h1.2.1]; exact h1.1
    rw [get_of_mem _ _ _ hI.distinct hmem]
    exact ⟨by simp [heq.2], heq.1 ▸ h1.2.2⟩
  · rintro ⟨h1, h2⟩
    cases hg : get (labelKey r n) s.vmd with
    | none => simp [hg] at h1
    | some d =>
      simp [hg] at h1
      have hmem := mem_of_get _ _ _ hg
      obtain ⟨r', n', hr', hn', hk, hname⟩ := hI.wf _ hmem
      have hkk : labelKey r n = labelKey r' n' := hk
      have hinj := labelKey_inj _ _ _ _ hr hr' hkk
      have hdn : d.name = n := by rw [hinj.2]; exact hname
      apply List.mem_map.mpr
      refine ⟨(labelKey r n, d), List.mem_filter.mpr ⟨hmem, ?_⟩, by simp [hdn, h1]⟩
      simp only [Bool.and_eq_true, beq_iff_eq, List.isPrefixOf_iff_prefix, hdn]
      exact ⟨trivial, h2⟩

theorem specList_nodup (s : St) (hI : Inv s) (r p : Str) :
    (((s.vmd.filter (fun e => e.1 == labelKey r e.2.name && p.isPrefixOf e.2.name)).map (fun e => (e.2.name, e.2.bundle))).map (·.1)).Nodup := by
  rw [List.map_map]
  unfold List.Nodup
  rw [List.pairwise_map]
  have hd : (s.vmd.filter (fun e => e.1 == labelKey r e.2.name && p.isPrefixOf e.2.name)).Pairwise (fun a b => a.1 ≠ b.1) :=
    List.Pairwise.filter _ hI.distinct
  refine List.Pairwise.imp_of_mem ?_ hd
  intro a b ha hb hab heq
  have h1 := (List.mem_filter.mp ha).2
  have h2 := (List.mem_filter.mp hb).2
  simp only [Bool.and_eq_true, beq_iff_eq] at h1 h2
  simp only [Function.comp] at heq
  exact hab (by rw [h1.1, h2.1, heq])

/-- **listing is exact**: for every reachable state, repository and prefix outside the trigger region
    (in particular every prefix without `/`) the listing succeeds and returns, without duplicates,
    exactly the labels live in the label map for that repository whose name starts with the prefix -/
theorem C08_list_exact (s : St) (hI : Inv s) (r p : Str) (ht : prefixTrigger p = false) :
    ∀ U : Nat → Bool, specOut U (abs s) (.list r p) (listLabels s r p) := by
  intro U
  rw [C08_list_eq_spec s hI r p ht]
  unfold specOut specList
  by_cases hx : repoExists s r = true
  · have hr : noSlash r := hI.repos r hx
    have hx2 : (abs s).repos r = true := hx
    simp only [hx, hx2, Bool.not_true, Bool.false_eq_true, if_false, if_true]
    exact ⟨_, rfl, specList_nodup s hI r p, fun n b => specList_mem s hI r p hr n b⟩
  · have hx' : repoExists s r = false := by simpa using hx
    have hx2 : (abs s).repos r = false := hx'
    simp [hx', hx2]

/-! ## refinement, for every operation and every history -/

/-- **refinement**: one step of the object-store model is one step of the label map, the result is
    the one the map demands, and the invariant is kept -/
theorem C08_refines (U : Nat → Bool) (s : St) (op : Op) (hI : Inv s) (hop : opOK op) :
    Inv (step U s op).1 ∧ abs (step U s op).1 = specStep U (abs s) op ∧ specOut U (abs s) op (step U s op).2 := by
  refine ⟨inv_step U s op hI, ?_⟩
  cases op with
  | mkRepo r => exact refines_mkRepo U s r
  | mkBundle r b => exact refines_mkBundle U s r b
  | set r n b => exact refines_set U s r n b hI
  | del r n => exact refines_del U s r n hI
  | get r n => exact ⟨rfl, refines_get U s r n hI⟩
  | list r p => exact ⟨rfl, C08_list_exact s hI r p hop U⟩

theorem abs_empty : abs St.empty = Spec.empty := by
  apply spec_ext
  · intro r; simp [abs, Spec.empty, repoExists, has, get, St.empty]
  · intro r n; simp [abs, Spec.empty, get, St.empty]

theorem abs_step (U : Nat → Bool) (s : St) (op : Op) (hI : Inv s) :
    abs (step U s op).1 = specStep U (abs s) op := by
  cases op with
  | mkRepo r => exact (refines_mkRepo U s r).1
  | mkBundle r b => exact (refines_mkBundle U s r b).1
  | set r n b => exact (refines_set U s r n b hI).1
  | del r n => exact (refines_del U s r n hI).1
  | get r n => rfl
  | list r p => rfl

theorem abs_run (U : Nat → Bool) (ops : List Op) : ∀ s, Inv s → abs (run U s ops) = specRun U (abs s) ops := by
  induction ops with
  | nil => intro s _; rfl
  | cons op ops ih =>
    intro s hI
    simp only [run, specRun]
    rw [ih _ (inv_step U s op hI), abs_step U s op hI]

/-- **every history**: after any sequence of operations from the empty context the store stands for
    the label map obtained by replaying the history on the map, and the next operation returns what
    that map demands -/
theorem C08_history (U : Nat → Bool) (ops : List Op) (op : Op) (hop : opOK op) :
    abs (run U St.empty ops) = specRun U Spec.empty ops ∧
    specOut U (specRun U Spec.empty ops) op (step U (run U St.empty ops) op).2 := by
  have hI := C08_reachable_inv U ops
  have ha : abs (run U St.empty ops) = specRun U Spec.empty ops := by
    rw [abs_run U ops _ inv_empty, abs_empty]
  exact ⟨ha, ha ▸ (C08_refines U _ op hI hop).2.2⟩

/-! ### the label map returns the last assignment -/

/-- `op` assigns or deletes label `n` of repository `r` -/
def touches (r n : Str) : Op → Bool
  | .set r' n' _ => r' == r && n' == n
  | .del r' n' => r' == r && n' == n
  | _ => false

theorem spec_untouched (U : Nat → Bool) (a : Spec) (op : Op) (r n : Str) (h : touches r n op = false) :
    (specStep U a op).labels r n = a.labels r n := by
  cases op with
  | mkRepo r' => simp only [specStep]; split <;> rfl
  | mkBundle r' b => rfl
  | set r' n' b =>
    have hne : ¬ (r = r' ∧ n = n') := by
      intro e; simp [touches, e.1, e.2] at h
    simp only [specStep]; split
    · simp [hne]
    · rfl
  | del r' n' =>
    have hne : ¬ (r = r' ∧ n = n') := by
      intro e; simp [touches, e.1, e.2] at h
    simp only [specStep]; split
    · simp [hne]
    · rfl
  | get r' n' => rfl
  | list r' p => rfl

theorem spec_repos_mono (U : Nat → Bool) (a : Spec) (op : Op) (r : Str) (h : a.repos r = true) :
    (specStep U a op).repos r = true := by
  cases op with
  | mkRepo r' => simp only [specStep]; split
                 · simp only; split <;> simp [h]
                 · exact h
  | mkBundle r' b => exact h
  | set r' n' b => simp only [specStep]; split <;> exact h
  | del r' n' => simp only [specStep]; split <;> exact h
  | get r' n' => exact h
  | list r' p => exact h

theorem specRun_untouched (U : Nat → Bool) (ops : List Op) (r n : Str) (h : ∀ op ∈ ops, touches r n op = false) :
    ∀ a : Spec, (specRun U a ops).labels r n = a.labels r n ∧ (a.repos r = true → (specRun U a ops).repos r = true) := by
  induction ops with
  | nil => intro a; exact ⟨rfl, id⟩
  | cons op ops ih =>
    intro a
    have h1 := ih (fun o ho => h o (List.mem_cons_of_mem _ ho)) (specStep U a op)
    simp only [specRun]
    refine ⟨?_, fun hr => h1.2 (spec_repos_mono U a op r hr)⟩
    rw [h1.1, spec_untouched U a op r n (h op (by simp))]

theorem specRun_append (U : Nat → Bool) (l1 l2 : List Op) : ∀ a : Spec, specRun U a (l1 ++ l2) = specRun U (specRun U a l1) l2 := by
  induction l1 with
  | nil => intro a; rfl
  | cons op l1 ih => intro a; simp only [List.cons_append, specRun, ih]

theorem run_append (U : Nat → Bool) (l1 l2 : List Op) : ∀ s : St, run U s (l1 ++ l2) = run U (run U s l1) l2 := by
  induction l1 with
  | nil => intro s; rfl
  | cons op l1 ih => intro s; simp only [List.cons_append, run, ih]

/-- the label map after an accepted `set r n b` followed by operations that do not touch that label -/
theorem last_set_spec (U : Nat → Bool) (pre post : List Op) (r n b : Str)
    (hok : (step U (run U St.empty pre) (.set r n b)).2 = .ok)
    (hpost : ∀ op ∈ post, touches r n op = false) :
    (specRun U Spec.empty (pre ++ .set r n b :: post)).labels r n = some b ∧
    (specRun U Spec.empty (pre ++ .set r n b :: post)).repos r = true := by
  have hout := (C08_history U pre (.set r n b) trivial).2
  rw [hok] at hout
  simp only [specOut] at hout
  -- the set was accepted: the name is valid and the repository exists in the map
  have hv : validName n = true := by
    by_cases hv : validName n = true
    · exact hv
    · simp [hv] at hout
  have hr : (specRun U Spec.empty pre).repos r = true := by
    by_cases hr : (specRun U Spec.empty pre).repos r = true
    · exact hr
    · simp [hv, hr] at hout
  have hA : specRun U Spec.empty (pre ++ .set r n b :: post)
      = specRun U (specStep U (specRun U Spec.empty pre) (.set r n b)) post := by
    rw [specRun_append]; rfl
  have hun := specRun_untouched U post r n hpost (specStep U (specRun U Spec.empty pre) (.set r n b))
  have hlab : (specStep U (specRun U Spec.empty pre) (.set r n b)).labels r n = some b := by
    simp [specStep, hv, hr]
  have hrep : (specStep U (specRun U Spec.empty pre) (.set r n b)).repos r = true := by
    simp [specStep, hv, hr]
  exact ⟨by rw [hA, hun.1, hlab], by rw [hA]; exact hun.2 hrep⟩

/-- **get returns the last assignment**: in any history from the empty context, if `set r n b` was
    accepted (`ok`) and no later operation assigns or deletes that label, then resolving the label
    returns `b` -/
theorem C08_get_last_set (U : Nat → Bool) (pre post : List Op) (r n b : Str)
    (hok : (step U (run U St.empty pre) (.set r n b)).2 = .ok)
    (hpost : ∀ op ∈ post, touches r n op = false) :
    getLabel (run U St.empty (pre ++ .set r n b :: post)) r n = .bundle b := by
  obtain ⟨hl, hrp⟩ := last_set_spec U pre post r n b hok hpost
  have hfin := (C08_history U (pre ++ .set r n b :: post) (.get r n) trivial).2
  simp only [step, specOut] at hfin
  rw [hfin]
  simp [hl, hrp]

/-- **listing returns the last assignment**: under the same hypotheses the listing of `r` under any
    prefix `p` of `n` outside the trigger region succeeds, contains `n ↦ b` and no other entry for `n` -/
theorem C08_list_last_set (U : Nat → Bool) (pre post : List Op) (r n b p : Str)
    (hok : (step U (run U St.empty pre) (.set r n b)).2 = .ok)
    (hpost : ∀ op ∈ post, touches r n op = false) (hp : p <+: n) (ht : prefixTrigger p = false) :
    ∃ l, listLabels (run U St.empty (pre ++ .set r n b :: post)) r p = .labels l ∧ (n, b) ∈ l ∧
      ∀ b', (n, b') ∈ l → b' = b := by
  obtain ⟨hl, hrp⟩ := last_set_spec U pre post r n b hok hpost
  have hfin := (C08_history U (pre ++ .set r n b :: post) (.list r p) ht).2
  simp only [step, specOut, hrp, if_true] at hfin
  obtain ⟨l, hl1, _, hm⟩ := hfin
  refine ⟨l, hl1, (hm n b).mpr ⟨hl, hp⟩, ?_⟩
  intro b' hb'
  have := ((hm n b').mp hb').1
  rw [hl] at this
  exact (Option.some.inj this).symm

/-- **deleted labels are not found**: after an accepted `del r n` and no later assignment of that
    label, resolving it returns not found -/
theorem C08_get_after_delete (U : Nat → Bool) (pre post : List Op) (r n : Str)
    (hok : (step U (run U St.empty pre) (.del r n)).2 = .ok)
    (hpost : ∀ op ∈ post, touches r n op = false) :
    getLabel (run U St.empty (pre ++ .del r n :: post)) r n = .notfound := by
  have hout := (C08_history U pre (.del r n) trivial).2
  rw [hok] at hout
  simp only [specOut] at hout
  have hr : (specRun U Spec.empty pre).repos r = true := by
    by_cases hr : (specRun U Spec.empty pre).repos r = true
    · exact hr
    · simp [hr] at hout
  have hfin := (C08_history U (pre ++ .del r n :: post) (.get r n) trivial).2
  simp only [step, specOut] at hfin
  have hA : specRun U Spec.empty (pre ++ .del r n :: post)
      = specRun U (specStep U (specRun U Spec.empty pre) (.del r n)) post := by
    rw [specRun_append]; rfl
  have hun := specRun_untouched U post r n hpost (specStep U (specRun U Spec.empty pre) (.del r n))
  have hlab : (specStep U (specRun U Spec.empty pre) (.del r n)).labels r n = none := by
    simp [specStep, hr]
  have hl : (specRun U Spec.empty (pre ++ .del r n :: post)).labels r n = none := by
    rw [hA, hun.1, hlab]
  rw [hfin]
  simp [hl]

/-! ## frame: setting or deleting a label touches nothing else -/

/-- **frame, store level** (no hypothesis at all): `set`/`del` of label `n` of `r` leave the metadata
    store (repository and bundle descriptors) untouched and change no key of the label store other than
    the key of that label -/
theorem C08_label_frame (s : St) (r n b : Str) :
    ((setLabel s r n b).1.md = s.md ∧ ∀ k, k ≠ labelKey r n → get k (setLabel s r n b).1.vmd = get k s.vmd) ∧
    ((deleteLabel s r n).1.md = s.md ∧ ∀ k, k ≠ labelKey r n → get k (deleteLabel s r n).1.vmd = get k s.vmd) := by
  constructor
  · unfold setLabel setLabelV
    split
    · exact ⟨rfl, fun _ _ => rfl⟩
    · split
      · exact ⟨rfl, fun _ _ => rfl⟩
      · exact ⟨rfl, fun k hk => get_put_ne _ _ _ _ hk⟩
  · unfold deleteLabel
    split
    · exact ⟨rfl, fun _ _ => rfl⟩
    · split
      · exact ⟨rfl, fun _ _ => rfl⟩
      · exact ⟨rfl, fun k hk => get_del_ne _ _ _ hk⟩

/-- **frame, label level**: in a reachable state, no other label of any repository (also of a
    repository whose name is a prefix or an extension of `r`) resolves differently after `set`/`del` -/
theorem C08_label_frame_labels (s : St) (hI : Inv s) (r n b r' n' : Str) (hr' : noSlash r') (hne : r' ≠ r ∨ n' ≠ n) :
    getLabel (setLabel s r n b).1 r' n' = getLabel s r' n' ∧
    getLabel (deleteLabel s r n).1 r' n' = getLabel s r' n' := by
  have hfr := C08_label_frame s r n b
  have key : repoExists s r = true → labelKey r' n' ≠ labelKey r n := by
    intro hx hk
    have := labelKey_inj _ _ _ _ hr' (hI.repos r hx) hk
    rcases hne with h | h
    · exact h this.1
    · exact h this.2
  constructor
  · by_cases hx : repoExists s r = true
    · unfold getLabel repoExists
      rw [hfr.1.1, hfr.1.2 _ (key hx)]
    · have hx' : repoExists s r = false := by simpa using hx
      simp [setLabel, setLabelV, hx']
      split <;> rfl
  · by_cases hx : repoExists s r = true
    · unfold getLabel repoExists
      rw [hfr.2.1, hfr.2.2 _ (key hx)]
    · have hx' : repoExists s r = false := by simpa using hx
      simp [deleteLabel, hx']

/-! ## accepted names are resolvable and listed -/

theorem afterSlash_of_noSlash (p : Str) (h : noSlash p) : afterSlash p = none := by
  induction p with
  | nil => rfl
  | cons c t ih =>
    have hc : c ≠ 47 := fun e => h (by simp [e])
    simp only [afterSlash, hc, if_false]
    exact ih (fun m => h (List.mem_cons_of_mem _ m))

theorem prefixTrigger_of_noSlash (p : Str) (h : noSlash p) : prefixTrigger p = false := by
  simp [prefixTrigger, afterSlash_of_noSlash p h]

/-- **every accepted name can be resolved and listed**: if `set r n b` returns `ok` in a reachable
    state, then afterwards `get r n` returns `b`, and the listing of `r` under any prefix of `n`
    (in particular the full listing) succeeds and contains `n ↦ b` -/
theorem C08_accepted_resolvable (s : St) (hI : Inv s) (r n b : Str) (hok : (setLabel s r n b).2 = .ok) :
    getLabel (setLabel s r n b).1 r n = .bundle b ∧
    ∀ p, p <+: n → ∃ l, listLabels (setLabel s r n b).1 r p = .labels l ∧ (n, b) ∈ l := by
  have hI' := inv_setLabel s r n b hI
  have hv : validName n = true := by
    by_cases hv : validName n = true
    · exact hv
    · simp [setLabel, setLabelV, hv] at hok
  have hx : repoExists s r = true := by
    by_cases hx : repoExists s r = true
    · exact hx
    · simp [setLabel, setLabelV, hv, hx] at hok
  have hs' : (setLabel s r n b).1 = { s with vmd := put (labelKey r n) ⟨n, b⟩ s.vmd } := by
    simp [setLabel, setLabelV, hv, hx]
  have hx' : repoExists (setLabel s r n b).1 r = true := by rw [hs']; exact hx
  have hg : get (labelKey r n) (setLabel s r n b).1.vmd = some ⟨n, b⟩ := by rw [hs']; exact get_put_same _ _ _
  have hr : noSlash r := hI.repos r hx
  constructor
  · simp [getLabel, hx', hg]
  · intro p hp
    have hpn : noSlash p := fun m => validName_noSlash n hv (hp.subset m)
    have hex := C08_list_exact _ hI' r p (prefixTrigger_of_noSlash p hpn) (fun _ => false)
    have hx2 : (abs (setLabel s r n b).1).repos r = true := hx'
    simp only [specOut, hx2, if_true] at hex
    obtain ⟨l, hl, _, hmem⟩ := hex
    refine ⟨l, hl, (hmem n b).mpr ⟨?_, hp⟩⟩
    rw [abs_labels_of_noSlash _ r n hr, hg]
    rfl

/-! ## facts of the Go source the theorems rest on (regenerated on every run) -/

/-- `fmt.Sprint` of a path template of the facts translator: literals are copied, parameters looked up -/
def render (env : List (Str × Str)) : List (Bool × Str) → Str
  | [] => []
  | (false, lit) :: t => lit ++ render env t
  | (true, v) :: t => ((env.lookup v).getD []) ++ render env t

def vRepo : Str := [114, 101, 112, 111]                                   -- "repo"
def vLabelName : Str := [108, 97, 98, 101, 108, 78, 97, 109, 101]         -- "labelName"
def vPrefixes : Str := [112, 114, 101, 102, 105, 120, 101, 115]           -- "prefixes"
def vBundleID : Str := [98, 117, 110, 100, 108, 101, 73, 68]              -- "bundleID"

/-- `UploadDescriptor` validates the name before it writes; `ValidateLabelName` rejects "/", "#" and the
    empty name; labels live in the vmetadata store only; `GetArchivePathComponents` recognises label
    keys by `labels` / component 3 = `label.yaml`; repository names are letters, digits and hyphens -/
theorem C08_facts :
    Facts.c08UploadValidatesName = true ∧ 47 ∈ Facts.c08LabelNameReservedChars ∧ 35 ∈ Facts.c08LabelNameReservedChars ∧
    [] ∈ Facts.c08LabelNameReservedNames ∧ Facts.c08LabelStores = ["VMetadata"] ∧
    Facts.c08LabelPos = 3 ∧ Facts.c08LabelsDir = labelsDir ∧ Facts.c08LabelFile = labelFile ∧
    Facts.c08RepoNameClasses = ["Hyphen", "IsDigit", "IsLetter"] := by
  decide

/-- the model's `validName` is exactly the rule found in the source (its two structural conjuncts are
    implied by the source's rule) -/
theorem C08_facts_validName (n : Str) :
    validName n = (!(Facts.c08LabelNameReservedNames.contains n) && n.all (fun c => !(Facts.c08LabelNameReservedChars.contains c))) := by
  unfold validName
  by_cases h1 : n = []
  · subst h1; decide
  · by_cases h2 : 47 ∈ n
    · have h3 : (n.all fun c => !(Facts.c08LabelNameReservedChars.contains c)) = false := by
        rw [List.all_eq_false]
        exact ⟨47, h2, by decide⟩
      rw [h3]; simp
    · have e1 : (n != []) = true := by simp [h1]
      have e2 : (!(n.contains 47)) = true := by simp [h2]
      rw [e1, e2]; simp

/-- the archive paths of the model are the templates found in `pkg/model` now:
    `labels/{repo}/{labelName}/label.yaml`, `labels/{repo}/{prefixes}`, `repos/{repo}/repo.yaml`,
    `bundles/{repo}/{bundleID}/bundle.yaml` -/
theorem C08_facts_templates (r n p b : Str) :
    render [(vRepo, r), (vLabelName, n)] Facts.c08LabelKeyTemplate = labelKey r n ∧
    render [(vRepo, r), (vPrefixes, p)] Facts.c08LabelPrefixTemplate = listPrefix r p ∧
    render [(vRepo, r)] Facts.c08RepoKeyTemplate = repoKey r ∧
    render [(vRepo, r), (vBundleID, b)] Facts.c08BundleKeyTemplate = bundleKey r b := by
  refine ⟨?_, ?_, ?_, ?_⟩
  · simp [labelKey, labelsDir, labelFile, render, Facts.c08LabelKeyTemplate, vRepo, vLabelName, List.lookup]
  · simp [listPrefix, labelsDir, render, Facts.c08LabelPrefixTemplate, vRepo, vPrefixes, List.lookup]
  · simp [repoKey, reposRoot, repoFile, render, Facts.c08RepoKeyTemplate, vRepo, List.lookup]
  · simp [bundleKey, bundlesRoot, bundleFile, render, Facts.c08BundleKeyTemplate, vRepo, vBundleID, List.lookup]

/-! ## negation witnesses -/

/-- repository "r" exists -/
def exRepo : St := (mkRepo (fun _ => false) St.empty [114]).1

/-- **the defect repaired by the `fix:` commit**: without name validation (`setLabelV false` = the
    unchanged `UploadDescriptor`) the name "a/b" is accepted, and from then on the listing of the
    repository fails altogether, although label "ok" is still live and resolvable -/
theorem C08_neg_unvalidated_name_poisons_listing :
    let s1 := (setLabelV false exRepo [114] [111, 107] [49]).1
    let s2 := (setLabelV false s1 [114] [97, 47, 98] [50])
    listLabels s1 [114] [] = .labels [([111, 107], [49])] ∧ s2.2 = .ok ∧
    listLabels s2.1 [114] [] = .err ∧ getLabel s2.1 [114] [111, 107] = .bundle [49] := by
  decide

/-- with the validation found in the source now, "a/b", the empty name and "x#y" are rejected and
    nothing is written; "v1" is accepted -/
theorem C08_hostile_names_rejected :
    (setLabel exRepo [114] [97, 47, 98] [50]) = (exRepo, .err) ∧ (setLabel exRepo [114] [] [50]).2 = .err ∧
    (setLabel exRepo [114] [120, 35, 121] [50]).2 = .err ∧
    (setLabel exRepo [114] [118, 49] [50]).2 = .ok := by
  decide

/-- **known finding C08-prefix-slash**: the listing prefix "a/label.yaml" selects the key of label "a",
    so label "a" is returned although its name does not start with that prefix (the property demands the
    empty list, `specList`) -/
theorem C08_neg_prefix_slash :
    let s1 := (setLabel exRepo [114] [97] [49]).1
    let p : Str := [97, 47, 108, 97, 98, 101, 108, 46, 121, 97, 109, 108]
    prefixTrigger p = true ∧ listLabels s1 [114] p = .labels [([97], [49])] ∧ specList s1 [114] p = .labels [] := by
  decide

/-! ## non-vacuity -/

/-- the hypotheses of `C08_get_last_set` are satisfiable: repos "r" and "ra" (one a prefix of the
    other), label "v" set to "1", then other labels set and deleted in both repos -/
example :
    getLabel (run (fun _ => false) St.empty
      ([.mkRepo [114], .mkRepo [114, 97]] ++ .set [114] [118] [49] ::
        [.set [114, 97] [118] [50], .del [114] [119], .set [114] [118, 118] [51], .list [114] []])) [114] [118] = .bundle [49] :=
  C08_get_last_set (fun _ => false) [.mkRepo [114], .mkRepo [114, 97]]
    [.set [114, 97] [118] [50], .del [114] [119], .set [114] [118, 118] [51], .list [114] []] [114] [118] [49]
    (by decide) (by decide)

example : (step (fun _ => false) (run (fun _ => false) St.empty [.mkRepo [114], .set [114] [118] [49]]) (.list [114] [])).2
    = .labels [([118], [49])] := by decide

example : Inv (run (fun _ => false) St.empty [.mkRepo [114], .set [114] [118] [49]]) := C08_reachable_inv _ _

example : opOK (.list [114] [118]) := by show prefixTrigger _ = false; decide
/-! ### a listing that races with another client -/

theorem collect_some_mem {α : Type} : ∀ (l : List (Option α)) (r : List α), collect l = some r →
    ∀ a, some a ∈ l → a ∈ r := by
  intro l
  induction l with
  | nil => intro r _ a ha; simp at ha
  | cons x t ih =>
    intro r h a ha
    cases x with
    | none => simp [collect] at h
    | some b =>
      simp only [collect, Option.map_eq_some_iff] at h
      obtain ⟨r', hr', rfl⟩ := h
      rcases List.mem_cons.mp ha with e | e
      · cases e; simp
      · exact List.mem_cons_of_mem _ (ih r' hr' a e)

theorem collect_some_all {α : Type} : ∀ (l : List (Option α)) (r : List α), collect l = some r →
    ∀ x ∈ l, x ≠ none := by
  intro l
  induction l with
  | nil => intro r _ x hx; simp at hx
  | cons y t ih =>
    intro r h x hx
    cases y with
    | none => simp [collect] at h
    | some b =>
      simp only [collect, Option.map_eq_some_iff] at h
      obtain ⟨r', hr', _⟩ := h
      rcases List.mem_cons.mp hx with e | e
      · subst e; simp
      · exact ih r' hr' x e

/-- **a listing during which other clients act** (keys scanned in `s0`, descriptors fetched in
    `s1`): if it reports success, every scanned label could still be fetched — so a label deleted
    in between fails the listing instead of silently shortening it — and every label it could
    fetch is in the result: no untouched label is ever dropped. -/
theorem C08_list_race_sound (s0 s1 : St) (r p : Str) (l : List (Str × Str))
    (h : listLabelsRace s0 s1 r p = .labels l) :
    (∀ k ∈ keysPrefix (listPrefix r p) s0.vmd, fetchOne s1 r k ≠ none) ∧
    (∀ k ∈ keysPrefix (listPrefix r p) s0.vmd, ∀ e, fetchOne s1 r k = some e → e ∈ l) := by
  unfold listLabelsRace at h
  split at h
  · cases h
  · split at h
    · cases h
    · rename_i l' hc
      cases h
      constructor
      · intro k hk
        exact collect_some_all _ _ hc _ (List.mem_map_of_mem hk)
      · intro k hk e he
        exact collect_some_mem _ _ hc e (he ▸ List.mem_map_of_mem hk)

/-- without a race it is the ordinary listing -/
theorem C08_list_race_same (s : St) (r p : Str) : listLabelsRace s s r p = listLabels s r p := rfl

/-! ## `DeleteBundle` and the labels of the deleted bundle -/

theorem deleteLabelsOf_spec (r : Str) (ns : List Str) :
    ∀ s s1, Inv s → deleteLabelsOf s r ns = (s1, .ok) →
      Inv s1 ∧ s1.md = s.md ∧
      ∀ k, get k s1.vmd = if k ∈ ns.map (labelKey r) then none else get k s.vmd := by
  induction ns with
  | nil =>
    intro s s1 hI h
    simp only [deleteLabelsOf, Prod.mk.injEq, and_true] at h
    subst h
    exact ⟨hI, rfl, by simp⟩
  | cons n ns ih =>
    intro s s1 hI h
    simp only [deleteLabelsOf] at h
    have hI2 := inv_deleteLabel s r n hI
    generalize hd : deleteLabel s r n = res at h hI2
    obtain ⟨s2, o⟩ := res
    cases o with
    | ok =>
      simp only at h
      obtain ⟨i1, i2, i3⟩ := ih s2 s1 hI2 h
      -- what the successful deletion did
      have hs2 : s2.md = s.md ∧ s2.vmd = del (labelKey r n) s.vmd := by
        unfold deleteLabel at hd
        split at hd
        · cases hd
        · split at hd
          · cases hd
          · cases hd; exact ⟨rfl, rfl⟩
      refine ⟨i1, i2.trans hs2.1, ?_⟩
      intro k
      rw [i3 k, hs2.2]
      simp only [List.map_cons, List.mem_cons]
      by_cases hk : k = labelKey r n
      · subst hk
        simp [get_del_same]
      · rw [get_del_ne _ _ _ hk]
        simp [hk]
    | _ => simp at h

/-- **`DeleteBundle` takes exactly the labels of the bundle with it**: when it succeeds, in every
    repository every label reads as before, except the labels of `r` that were last set to `b`,
    which are gone; the repositories are the same. No bound on the number of labels. -/
theorem C08_delete_bundle_labels (s s' : St) (hI : Inv s) (r b : Str)
    (h : deleteBundle s r b = (s', .ok)) :
    Inv s' ∧ (∀ r', (abs s').repos r' = (abs s).repos r') ∧
    ∀ r' n', (abs s').labels r' n' =
      if r' = r ∧ (abs s).labels r n' = some b then none else (abs s).labels r' n' := by
  unfold deleteBundle at h
  split at h
  · cases h
  rename_i hx
  have hx : repoExists s r = true := by simpa using hx
  have hr : noSlash r := hI.repos r hx
  split at h
  · cases h
  have hl := C08_list_exact s hI r [] (by decide) (fun _ => true)
  have hx2 : (abs s).repos r = true := hx
  simp only [specOut, hx2, if_true] at hl
  obtain ⟨l, hl1, _, hl3⟩ := hl
  rw [hl1] at h
  simp only at h
  generalize hd : deleteLabelsOf s r ((l.filter fun p => p.2 == b).map (·.1)) = res at h
  obtain ⟨s1, o⟩ := res
  cases o with
  | ok =>
    simp only [Prod.mk.injEq, and_true] at h
    subst h
    obtain ⟨i1, i2, i3⟩ := deleteLabelsOf_spec r _ s s1 hI hd
    have hmem : ∀ n, n ∈ (l.filter fun p => p.2 == b).map (·.1) ↔ (abs s).labels r n = some b := by
      intro n
      simp only [List.mem_map, List.mem_filter, beq_iff_eq]
      constructor
      · rintro ⟨⟨n0, b0⟩, ⟨hm, hb⟩, rfl⟩
        simp only at hb; subst hb
        exact ((hl3 n0 b0).1 hm).1
      · intro hn
        exact ⟨(n, b), ⟨(hl3 n b).2 ⟨hn, List.nil_prefix⟩, rfl⟩, rfl⟩
    have hrepos : ∀ r', repoExists ⟨del (bundleKey r b) s1.md, s1.vmd⟩ r' = repoExists s r' := by
      intro r'
      simp only [repoExists, has]
      rw [get_del_ne _ _ _ (fun e => bundleKey_ne_repoKey r b r' e.symm), i2]
    refine ⟨⟨i1.distinct, i1.wf, fun r' hr' => hI.repos r' ((hrepos r').symm ▸ hr')⟩, hrepos, ?_⟩
    intro r' n'
    by_cases hs : 47 ∈ r'
    · have hne : r' ≠ r := fun e => hr (e ▸ hs)
      simp [abs, hs, hne]
    · rw [abs_labels_of_noSlash _ r' n' hs, abs_labels_of_noSlash s r' n' hs]
      simp only
      rw [i3 (labelKey r' n')]
      have hiff : labelKey r' n' ∈ ((l.filter fun p => p.2 == b).map (·.1)).map (labelKey r) ↔
          (r' = r ∧ (abs s).labels r n' = some b) := by
        rw [List.mem_map]
        constructor
        · rintro ⟨n, hn, he⟩
          obtain ⟨e1, e2⟩ := labelKey_inj r n r' n' hr hs he
          subst e1; subst e2
          exact ⟨rfl, (hmem n).1 hn⟩
        · rintro ⟨e1, e2⟩
          subst e1
          exact ⟨n', (hmem n').2 e2, rfl⟩
      by_cases hc : r' = r ∧ (abs s).labels r n' = some b
      · rw [if_pos (hiff.2 hc), if_pos hc]; rfl
      · rw [if_neg (fun hh => hc (hiff.1 hh)), if_neg hc]
  | _ => simp at h

/-- readable corollary: after a successful `DeleteBundle`, no label of the repository resolves to
    the deleted bundle -/
theorem C08_no_label_on_deleted_bundle (s s' : St) (hI : Inv s) (r b n : Str)
    (h : deleteBundle s r b = (s', .ok)) : getLabel s' r n ≠ .bundle b := by
  obtain ⟨hI', hrep, hlab⟩ := C08_delete_bundle_labels s s' hI r b h
  have hg := refines_get (fun _ => true) s' r n hI'
  simp only [specOut] at hg
  rw [hg]
  split
  · simp
  · have := hlab r n
    by_cases hc : (abs s).labels r n = some b
    · rw [if_pos ⟨rfl, hc⟩] at this; rw [this]; simp
    · rw [if_neg (fun hh => hc hh.2)] at this; rw [this]
      split
      · rename_i b' hb'; intro he; cases he; exact hc hb'
      · simp

/-- non-vacuity: a repository with two bundles and three labels; deleting bundle "1" succeeds, takes
    labels "a" and "c" with it and leaves "b" on bundle "2" (and the hypotheses of the theorem hold:
    the state is reachable) -/
def exDelOps : List Op :=
  [.mkRepo [114], .mkBundle [114] [49], .mkBundle [114] [50], .set [114] [97] [49], .set [114] [98] [50], .set [114] [99] [49]]

example :
    let s := run (fun _ => false) St.empty exDelOps
    (deleteBundle s [114] [49]).2 = .ok ∧
    listLabels (deleteBundle s [114] [49]).1 [114] [] = .labels [([98], [50])] ∧
    (deleteBundle (deleteBundle s [114] [49]).1 [114] [49]).2 = .err := by decide

example : Inv (run (fun _ => false) St.empty exDelOps) := C08_reachable_inv _ _

end Labels
