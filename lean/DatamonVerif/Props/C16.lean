import DatamonVerif.Model.Store
import DatamonVerif.Model.LocalFS
import DatamonVerif.Generated.Facts

/-! C16 — the local filesystem store behaves like an object store.

* §A–B `C16_store_refines_map`: for ALL histories of put / get / has / delete the store contract
  (`Model/Store.lean`: sorted association list) answers exactly like the map specification
  `Spec` (a partial function), stays well formed and keeps denoting the specification's map;
  `C16_get_after_put`, `C16_put_exist_keeps`, `C16_frame`, `C16_get_after_delete`.
* §C `C16_excl_unique`: among writers racing with ONE atomic create-if-absent put each, under ANY
  schedule, exactly one succeeds and the store holds its own bytes; `C16_excl_outcome_valid`:
  the predicate the driver evaluates on the implementation's outcome (`validOutcome`) is the one
  the theorem establishes.
* §D `C16_listing_mem`, `C16_listing_sorted`, `C16_listing_nodelim`, `C16_rollup_cut/_nocut`,
  `C16_walk_order_irrelevant`: a listing is exactly the keys with the prefix — or, with a
  delimiter, their immediate sub-prefixes — each once, in lexicographic order, whatever order
  the directory walk met the files in.
* §E `C16_paging_complete`, `C16_keysPrefix_paging`, `C16_page_block`, `C16_page_next_resumes`:
  for every page size ≥ 1, following `next` from `""` yields exactly the listing.
* §F `C16_localfs_refines`, `C16_localfs_refines_map`: the local file system model (directories,
  `MkdirAll`, `O_EXCL`, `Remove`) cannot be told apart from the contract on key universes where
  no key is a proper path-prefix of another; `C16_neg_leftover_directory`: the hypothesis is needed.
* §G facts of the Go source the model depends on, discharged by `decide`. -/
namespace Store
variable {α : Type}

/-! ## A. the sorted association list is a finite map -/

theorem String.lt_ne {a b : String} (h : a < b) : a ≠ b := by
  intro e; subst e; exact String.lt_irrefl _ h

theorem lookup_none_of_lt (k : String) (r : Store α) (h : ∀ p ∈ r, k < p.1) : lookup k r = none := by
  induction r with
  | nil => rfl
  | cons p r ih =>
    obtain ⟨k', v⟩ := p
    have h1 : k < k' := h (k', v) (by simp)
    simp only [lookup, String.lt_ne h1, if_false]
    exact ih (fun p hp => h p (by simp [hp]))

theorem lookup_insert (k : String) (v : α) (s : Store α) (k' : String) :
    lookup k' (insert k v s) = if k' = k then some v else lookup k' s := by
  induction s with
  | nil => simp [insert, lookup]
  | cons p r ih =>
    obtain ⟨k0, v0⟩ := p
    simp only [insert]
    split
    · simp [lookup]
    · split
      · rename_i _ he
        subst he
        simp only [lookup]
        split <;> rfl
      · rename_i _ hne
        simp only [lookup, ih]
        by_cases h1 : k' = k0
        · subst h1
          have : ¬ k' = k := fun e => hne e.symm
          simp [this]
        · simp [h1]

theorem WF_tail {p : String × α} {r : Store α} (h : WF (p :: r)) : WF r :=
  (List.pairwise_cons.mp h).2

theorem WF_head {p : String × α} {r : Store α} (h : WF (p :: r)) : ∀ q ∈ r, p.1 < q.1 :=
  (List.pairwise_cons.mp h).1

theorem lookup_erase (k : String) (s : Store α) (hwf : WF s) (k' : String) :
    lookup k' (erase k s) = if k' = k then none else lookup k' s := by
  induction s with
  | nil => simp [erase, lookup]
  | cons p r ih =>
    obtain ⟨k0, v0⟩ := p
    have hr := WF_tail hwf
    have hh := WF_head hwf
    simp only [erase]
    split
    · rename_i he
      subst he
      by_cases h1 : k' = k
      · subst h1
        simp only [if_true]
        exact lookup_none_of_lt _ _ hh
      · simp [lookup, h1]
    · rename_i hne
      simp only [lookup, ih hr]
      by_cases h1 : k' = k0
      · subst h1
        have : ¬ k' = k := fun e => hne e.symm
        simp [this]
      · simp [h1]

theorem mem_insert {k : String} {v : α} {s : Store α} {q : String × α} (h : q ∈ insert k v s) :
    q = (k, v) ∨ q ∈ s := by
  induction s with
  | nil => simp [insert] at h; exact Or.inl h
  | cons p r ih =>
    obtain ⟨k0, v0⟩ := p
    simp only [insert] at h
    split at h
    · simp at h ⊢; exact h
    · split at h
      · simp at h ⊢
        rcases h with h | h
        · exact Or.inl h
        · exact Or.inr (Or.inr h)
      · simp at h ⊢
        rcases h with h | h
        · exact Or.inr (Or.inl h)
        · rcases ih h with h | h
          · exact Or.inl h
          · exact Or.inr (Or.inr h)

theorem WF_insert (k : String) (v : α) (s : Store α) (hwf : WF s) : WF (insert k v s) := by
  induction s with
  | nil => simp [insert, WF]
  | cons p r ih =>
    obtain ⟨k0, v0⟩ := p
    have hr := WF_tail hwf
    have hh := WF_head hwf
    simp only [insert]
    split
    · rename_i hlt
      refine List.pairwise_cons.mpr ⟨?_, hwf⟩
      intro q hq
      rcases List.mem_cons.mp hq with rfl | hq
      · exact hlt
      · exact String.lt_trans hlt (hh q hq)
    · split
      · rename_i _ he
        subst he
        exact List.pairwise_cons.mpr ⟨hh, hr⟩
      · rename_i hnlt hne
        refine List.pairwise_cons.mpr ⟨?_, ih hr⟩
        intro q hq
        rcases mem_insert hq with rfl | hq
        · have hle : k0 ≤ k := String.not_lt.mp hnlt
          rcases Decidable.em (k0 < k) with h | h
          · exact h
          · exact absurd (String.le_antisymm hle (String.not_lt.mp h)).symm hne
        · exact hh q hq

theorem erase_sublist (k : String) (s : Store α) : (erase k s).Sublist s := by
  induction s with
  | nil => simp [erase]
  | cons p r ih =>
    obtain ⟨k0, v0⟩ := p
    simp only [erase]
    split
    · exact List.sublist_cons_self _ _
    · exact List.Sublist.cons_cons _ ih

theorem WF_erase (k : String) (s : Store α) (hwf : WF s) : WF (erase k s) :=
  List.Pairwise.sublist (erase_sublist k s) hwf

theorem mem_keys_iff (k : String) (s : Store α) : k ∈ keys s ↔ (lookup k s).isSome = true := by
  induction s with
  | nil => simp [keys, lookup]
  | cons p r ih =>
    obtain ⟨k0, v0⟩ := p
    simp only [keys, List.map_cons, List.mem_cons, lookup] at ih ⊢
    by_cases h : k = k0
    · simp [h]
    · simp only [h, if_false, false_or]
      exact ih

theorem keys_sorted (s : Store α) (hwf : WF s) : (keys s).Pairwise (· < ·) := by
  simp only [keys, List.pairwise_map]; exact hwf

end Store

/-! ## B. refinement of put / get / has / delete to the map specification -/
namespace Spec
variable {α : Type}
open Store

/-- the specification state: a partial function from keys to values -/
abbrev M (α : Type) := String → Option α

def upd (m : M α) (k : String) (o : Option α) : M α := fun x => if x = k then o else m x

/-- the key/value store every reader has in mind -/
def step (missingOk : Bool) (m : M α) : Op α → M α × Out α
  | .put k v x => if x && (m k).isSome then (m, .status .exist) else (upd m k (some v), .status .ok)
  | .get k => (m, .value (m k))
  | .has k => (m, .bool (m k).isSome)
  | .delete k =>
    if (m k).isSome then (upd m k none, .status .ok)
    else (m, .status (if missingOk then .ok else .notfound))

def run (missingOk : Bool) (m : M α) : List (Op α) → M α × List (Out α)
  | [] => (m, [])
  | op :: rest =>
    let r := step missingOk m op
    let q := run missingOk r.1 rest
    (q.1, r.2 :: q.2)

end Spec

namespace Store
variable {α : Type}

/-- the abstraction function: a store denotes the map `lookup · s` -/
def Abs (s : Store α) (m : Spec.M α) : Prop := ∀ k, lookup k s = m k

theorem C16_step_refines (missingOk : Bool) (s : Store α) (m : Spec.M α) (hwf : WF s) (habs : Abs s m)
    (op : Op α) :
    (step missingOk s op).2 = (Spec.step missingOk m op).2 ∧ WF (step missingOk s op).1 ∧
      Abs (step missingOk s op).1 (Spec.step missingOk m op).1 := by
  cases op with
  | put k v x =>
    simp only [step, put, Spec.step, habs k]
    split
    · exact ⟨rfl, hwf, habs⟩
    · refine ⟨rfl, WF_insert k v s hwf, ?_⟩
      intro k'
      simp only [lookup_insert, Spec.upd, habs k']
  | get k => exact ⟨by simp [step, Spec.step, get, habs k], hwf, habs⟩
  | has k => exact ⟨by simp [step, Spec.step, has, habs k], hwf, habs⟩
  | delete k =>
    simp only [step, delete, Spec.step, habs k]
    split
    · refine ⟨rfl, WF_erase k s hwf, ?_⟩
      intro k'
      simp only [lookup_erase k s hwf, Spec.upd, habs k']
    · exact ⟨rfl, hwf, habs⟩

/-- **Refinement, all histories.** Whatever the operations, the store answers exactly like the
    map specification, stays well formed, and keeps denoting the specification's map. -/
theorem C16_store_refines_map (missingOk : Bool) (ops : List (Op α)) :
    ∀ (s : Store α) (m : Spec.M α), WF s → Abs s m →
      (run missingOk s ops).2 = (Spec.run missingOk m ops).2 ∧ WF (run missingOk s ops).1 ∧
        Abs (run missingOk s ops).1 (Spec.run missingOk m ops).1 := by
  induction ops with
  | nil => intro s m hwf habs; exact ⟨rfl, hwf, habs⟩
  | cons op rest ih =>
    intro s m hwf habs
    obtain ⟨h1, h2, h3⟩ := C16_step_refines missingOk s m hwf habs op
    obtain ⟨g1, g2, g3⟩ := ih _ _ h2 h3
    simp only [run, Spec.run]
    exact ⟨by rw [h1, g1], g2, g3⟩

/-- from the empty store -/
theorem C16_store_refines_map_empty (missingOk : Bool) (ops : List (Op α)) :
    (run missingOk ([] : Store α) ops).2 = (Spec.run missingOk (fun _ => none) ops).2 :=
  (C16_store_refines_map missingOk ops [] (fun _ => none) List.Pairwise.nil (fun _ => rfl)).1

/-- every operation keeps the store sorted with distinct keys -/
theorem C16_wf_step (missingOk : Bool) (s : Store α) (hwf : WF s) (op : Op α) : WF (step missingOk s op).1 :=
  (C16_step_refines missingOk s (fun k => lookup k s) hwf (fun _ => rfl) op).2.1

theorem C16_wf_run (missingOk : Bool) (ops : List (Op α)) (s : Store α) (hwf : WF s) : WF (run missingOk s ops).1 :=
  (C16_store_refines_map missingOk ops s (fun k => lookup k s) hwf (fun _ => rfl)).2.1

/-- reads return the last written bytes: after a successful put the key reads back the value put … -/
theorem C16_get_after_put (s : Store α) (k : String) (v : α) (x : Bool) (h : (put s k v x).2 = .ok) :
    get (put s k v x).1 k = some v := by
  unfold put at h ⊢
  split
  · rename_i hc; simp [hc] at h
  · simp [get, lookup_insert]

/-- … a rejected create-if-absent put leaves the stored value alone … -/
theorem C16_put_exist_keeps (s : Store α) (k : String) (v : α) (x : Bool) (h : (put s k v x).2 ≠ .ok) :
    (put s k v x).1 = s ∧ (put s k v x).2 = .exist ∧ x = true ∧ has s k = true := by
  unfold put at h ⊢
  split
  · rename_i hc
    simp only [Bool.and_eq_true] at hc
    exact ⟨rfl, rfl, hc.1, hc.2⟩
  · rename_i hc; simp [hc] at h

/-- … no operation on one key changes what another key reads … -/
theorem C16_frame (missingOk : Bool) (s : Store α) (hwf : WF s) (op : Op α) (k : String) (hk : k ≠ op.key) :
    get (step missingOk s op).1 k = get s k := by
  cases op with
  | put k0 v x =>
    simp only [step, put, get, Op.key] at hk ⊢
    split
    · rfl
    · simp [lookup_insert, hk]
  | get k0 => rfl
  | has k0 => rfl
  | delete k0 =>
    simp only [step, delete, get, Op.key] at hk ⊢
    split
    · simp [lookup_erase k0 s hwf, hk]
    · rfl

/-- … and deletes remove keys. -/
theorem C16_get_after_delete (missingOk : Bool) (s : Store α) (hwf : WF s) (k : String) :
    get (delete missingOk s k).1 k = none ∧ has (delete missingOk s k).1 k = false := by
  unfold delete
  split
  · simp [get, has, lookup_erase k s hwf]
  · rename_i h
    simp only [get, has]
    cases hl : lookup k s with
    | none => simp
    | some v => simp [hl] at h

end Store

/-! ## C. concurrent create-if-absent writers -/
namespace Store
variable {α : Type}

/-- once the key is present every exclusive writer is rejected and the value stays -/
theorem race_present (k : String) (val : Nat → α) (sched : List Nat) :
    ∀ (s : Store α) (v0 : α), lookup k s = some v0 →
      (race k val s sched).1 = s ∧ (race k val s sched).2 = sched.map (fun i => (i, Status.exist)) := by
  induction sched with
  | nil => intro s v0 _; exact ⟨rfl, rfl⟩
  | cons w rest ih =>
    intro s v0 h
    have hp : put s k (val w) true = (s, Status.exist) := by simp [put, h]
    simp only [race, hp, List.map_cons]
    obtain ⟨h1, h2⟩ := ih s v0 h
    exact ⟨h1, by rw [h2]⟩

/-- **excl_unique.** Writers race to create the same absent key, each with ONE atomic
    create-if-absent put; `sched` is the order in which their steps take effect — any order.
    Exactly one writer succeeds (the first to take its step), all the others are told `exist`,
    the store then holds the winner's own bytes, and no other key is touched. -/
theorem C16_excl_unique (k : String) (val : Nat → α) (s : Store α) (habs : lookup k s = none)
    (sched : List Nat) (hne : sched ≠ []) :
    ∃ w rest, sched = w :: rest ∧
      (race k val s sched).2 = (w, Status.ok) :: rest.map (fun i => (i, Status.exist)) ∧
      lookup k (race k val s sched).1 = some (val w) ∧
      ∀ k', k' ≠ k → lookup k' (race k val s sched).1 = lookup k' s := by
  cases sched with
  | nil => exact absurd rfl hne
  | cons w rest =>
    refine ⟨w, rest, rfl, ?_⟩
    have hp : put s k (val w) true = (insert k (val w) s, Status.ok) := by simp [put, habs]
    have hl : lookup k (insert k (val w) s) = some (val w) := by simp [lookup_insert]
    obtain ⟨h1, h2⟩ := race_present k val rest (insert k (val w) s) (val w) hl
    simp only [race, hp, h1, h2]
    refine ⟨trivial, hl, ?_⟩
    intro k' hk'
    simp [lookup_insert, hk']

/-- if the key is already there nobody wins -/
theorem C16_excl_none_when_present (k : String) (val : Nat → α) (s : Store α) (v0 : α)
    (h : lookup k s = some v0) (sched : List Nat) :
    (race k val s sched).1 = s ∧ ∀ p ∈ (race k val s sched).2, p.2 = Status.exist := by
  obtain ⟨h1, h2⟩ := race_present k val sched s v0 h
  refine ⟨h1, ?_⟩
  intro p hp
  rw [h2] at hp
  obtain ⟨i, _, rfl⟩ := List.mem_map.mp hp
  rfl

/-- what writer `i` was told -/
def resultOf (out : List (Nat × Status)) (i : Nat) : Status :=
  match out.find? (fun p => p.1 == i) with
  | some p => p.2
  | none => .err

theorem resultOf_map_exist (rest : List Nat) (i : Nat) (hi : i ∈ rest) :
    resultOf (rest.map (fun j => (j, Status.exist))) i = Status.exist := by
  induction rest with
  | nil => cases hi
  | cons a r ih =>
    simp only [resultOf, List.map_cons, List.find?_cons]
    by_cases h : a = i
    · simp [h]
    · have : (a == i) = false := by simp [h]
      simp only [this]
      rcases List.mem_cons.mp hi with rfl | hi
      · exact absurd rfl h
      · exact ih hi

/-- **The judge is the theorem's predicate.** With `n ≥ 1` writers `0 … n-1` and any schedule (a
    permutation of the writers), the outcome as the harness reports it — what each writer was told,
    and whose bytes are stored — satisfies `validOutcome`, the predicate the driver evaluates on the
    implementation's outcome. -/
theorem C16_excl_outcome_valid (k : String) (val : Nat → α) (s : Store α) (habs : lookup k s = none)
    (n : Nat) (sched : List Nat) (hperm : sched.Perm (List.range n)) (hn : 0 < n) :
    ∃ w, lookup k (race k val s sched).1 = some (val w) ∧
      validOutcome ((List.range n).map (resultOf (race k val s sched).2)) (some w) = true := by
  have hne : sched ≠ [] := by
    intro h; subst h
    have := hperm.length_eq
    simp at this; omega
  obtain ⟨w, rest, hs, hout, hst, _⟩ := C16_excl_unique k val s habs sched hne
  refine ⟨w, hst, ?_⟩
  have hmem : ∀ i, i ∈ sched ↔ i < n := by
    intro i; rw [hperm.mem_iff]; simp
  have hnd : sched.Nodup := hperm.nodup_iff.mpr List.nodup_range
  have hw : w < n := (hmem w).mp (by simp [hs])
  have hwr : w ∉ rest := by
    rw [hs] at hnd; exact (List.nodup_cons.mp hnd).1
  simp only [validOutcome, List.length_map, List.length_range, hw, decide_true, Bool.true_and,
    List.all_eq_true, List.mem_range]
  intro i hi
  simp only [List.getElem?_map, List.getElem?_range hi, Option.map_some, beq_iff_eq, Option.some.injEq]
  rw [hout]
  by_cases hiw : i = w
  · subst hiw
    simp [resultOf]
  · have hir : i ∈ rest := by
      have : i ∈ sched := (hmem i).mpr hi
      rw [hs] at this
      rcases List.mem_cons.mp this with h | h
      · exact absurd h hiw
      · exact h
    have hwi : (w == i) = false := by
      simp only [beq_eq_false_iff_ne, ne_eq]; exact fun e => hiw e.symm
    simp only [hiw, if_false]
    simp only [resultOf, List.find?_cons, hwi]
    exact resultOf_map_exist rest i hir

/-- the judge is not vacuous: it rejects two winners, no winner, and foreign bytes -/
example : validOutcome [.exist, .ok, .exist] (some 1) = true := by decide
example : validOutcome [.ok, .ok, .exist] (some 1) = false := by decide
example : validOutcome [.exist, .exist, .exist] (some 1) = false := by decide
example : validOutcome [.exist, .ok, .exist] (some 0) = false := by decide
example : validOutcome [.exist, .ok, .exist] none = false := by decide

end Store

/-! ## D. prefix listings: exactly the keys / immediate sub-prefixes, each once, in lexicographic order -/
namespace Store
variable {α : Type}

/-- strictly increasing: lexicographic order and no duplicates -/
abbrev Sorted (l : List String) : Prop := l.Pairwise (· < ·)

theorem mem_sinsert (x y : String) (l : List String) : y ∈ sinsert x l ↔ y = x ∨ y ∈ l := by
  induction l with
  | nil => simp [sinsert]
  | cons a r ih =>
    simp only [sinsert]
    split
    · simp
    · split
      · rename_i _ he
        subst he
        simp
      · simp only [List.mem_cons, ih]
        constructor
        · rintro (h | h | h)
          · exact Or.inr (Or.inl h)
          · exact Or.inl h
          · exact Or.inr (Or.inr h)
        · rintro (h | h | h)
          · exact Or.inr (Or.inl h)
          · exact Or.inl h
          · exact Or.inr (Or.inr h)

theorem lt_of_not_lt_of_ne {a b : String} (h1 : ¬ a < b) (h2 : a ≠ b) : b < a := by
  have hle : b ≤ a := String.not_lt.mp h1
  rcases Decidable.em (b < a) with h | h
  · exact h
  · exact absurd (String.le_antisymm hle (String.not_lt.mp h)).symm h2

theorem sorted_sinsert (x : String) (l : List String) (h : Sorted l) : Sorted (sinsert x l) := by
  induction l with
  | nil => simp [sinsert, Sorted]
  | cons a r ih =>
    have hr : Sorted r := (List.pairwise_cons.mp h).2
    have ha := (List.pairwise_cons.mp h).1
    simp only [sinsert]
    split
    · rename_i hlt
      refine List.pairwise_cons.mpr ⟨?_, h⟩
      intro y hy
      rcases List.mem_cons.mp hy with rfl | hy
      · exact hlt
      · exact String.lt_trans hlt (ha y hy)
    · split
      · exact h
      · rename_i hnlt hne
        refine List.pairwise_cons.mpr ⟨?_, ih hr⟩
        intro y hy
        rcases (mem_sinsert x y r).mp hy with rfl | hy
        · exact lt_of_not_lt_of_ne hnlt hne
        · exact ha y hy

theorem mem_sortDedup (y : String) (l : List String) : y ∈ sortDedup l ↔ y ∈ l := by
  induction l with
  | nil => simp [sortDedup]
  | cons a r ih =>
    have : sortDedup (a :: r) = sinsert a (sortDedup r) := rfl
    rw [this, mem_sinsert, ih]; simp

theorem sorted_sortDedup (l : List String) : Sorted (sortDedup l) := by
  induction l with
  | nil => simp [sortDedup, Sorted]
  | cons a r ih => exact sorted_sinsert a _ ih

/-- two strictly increasing lists with the same elements are the same list -/
theorem sorted_ext : ∀ (l1 l2 : List String), Sorted l1 → Sorted l2 → (∀ x, x ∈ l1 ↔ x ∈ l2) → l1 = l2 := by
  intro l1
  induction l1 with
  | nil =>
    intro l2 _ _ h
    cases l2 with
    | nil => rfl
    | cons b t => exact absurd ((h b).mpr (by simp)) (by simp)
  | cons a r ih =>
    intro l2 h1 h2 h
    cases l2 with
    | nil => exact absurd ((h a).mp (by simp)) (by simp)
    | cons b t =>
      have ha := (List.pairwise_cons.mp h1).1
      have hb := (List.pairwise_cons.mp h2).1
      have hab : a = b := by
        have h3 : a ∈ b :: t := (h a).mp (by simp)
        have h4 : b ∈ a :: r := (h b).mpr (by simp)
        rcases List.mem_cons.mp h3 with e | h3
        · exact e
        · rcases List.mem_cons.mp h4 with e | h4
          · exact e.symm
          · exact absurd (ha b h4) (String.lt_asymm (hb a h3))
      subst hab
      congr 1
      apply ih t (List.pairwise_cons.mp h1).2 (List.pairwise_cons.mp h2).2
      intro x
      constructor
      · intro hx
        have : x ∈ a :: t := (h x).mp (by simp [hx])
        rcases List.mem_cons.mp this with e | h5
        · subst e; exact absurd (ha x hx) (String.lt_irrefl _)
        · exact h5
      · intro hx
        have : x ∈ a :: r := (h x).mpr (by simp [hx])
        rcases List.mem_cons.mp this with e | h5
        · subst e; exact absurd (hb x hx) (String.lt_irrefl _)
        · exact h5

theorem sortDedup_of_sorted (l : List String) (h : Sorted l) : sortDedup l = l :=
  sorted_ext _ _ (sorted_sortDedup l) h (fun x => mem_sortDedup x l)

/-- membership: an item is listed iff it is the roll-up of some key that starts with the prefix -/
theorem mem_listingOf (pfx delim : String) (ks : List String) (x : String) :
    x ∈ listingOf pfx delim ks ↔ ∃ k ∈ ks, hasPrefix pfx k = true ∧ rollup pfx delim k = x := by
  simp only [listingOf, mem_sortDedup, List.mem_map, List.mem_filter]
  constructor
  · rintro ⟨k, ⟨h1, h2⟩, h3⟩; exact ⟨k, h1, h2, h3⟩
  · rintro ⟨k, h1, h2, h3⟩; exact ⟨k, ⟨h1, h2⟩, h3⟩

/-- **Listing, exactness.** `x` is listed iff it is a key with the prefix (no delimiter) or the
    immediate sub-prefix of such a key (delimiter), see `C16_rollup_*` for what `rollup` is. -/
theorem C16_listing_mem (s : Store α) (pfx delim x : String) :
    x ∈ listing s pfx delim ↔ ∃ k ∈ keys s, hasPrefix pfx k = true ∧ rollup pfx delim k = x :=
  mem_listingOf pfx delim (keys s) x

/-- **Listing, each once and in lexicographic order** (strictly increasing). -/
theorem C16_listing_sorted (s : Store α) (pfx delim : String) : Sorted (listing s pfx delim) :=
  sorted_sortDedup _

/-- the same, in terms of the map the store denotes (`Abs`): the listing depends on the abstract
    key/value map only -/
theorem C16_listing_of_map (s : Store α) (m : Spec.M α) (habs : Abs s m) (pfx delim x : String) :
    x ∈ listing s pfx delim ↔ ∃ k, (m k).isSome = true ∧ hasPrefix pfx k = true ∧ rollup pfx delim k = x := by
  rw [C16_listing_mem]
  constructor
  · rintro ⟨k, h1, h2⟩; exact ⟨k, by rw [← habs k]; exact (mem_keys_iff k s).mp h1, h2⟩
  · rintro ⟨k, h1, h2⟩; exact ⟨k, (mem_keys_iff k s).mpr (by rw [habs k]; exact h1), h2⟩

theorem C16_listing_nodup (s : Store α) (pfx delim : String) : (listing s pfx delim).Nodup :=
  (C16_listing_sorted s pfx delim).imp (fun h => String.lt_ne h)

theorem rollup_nodelim (pfx key : String) : rollup pfx "" key = key := by simp [rollup]

/-- **Listing without a delimiter** = exactly the keys that start with the prefix, in key order. -/
theorem C16_listing_nodelim (s : Store α) (hwf : WF s) (pfx : String) :
    listing s pfx "" = (keys s).filter (hasPrefix pfx) := by
  have hm : ((keys s).filter (hasPrefix pfx)).map (rollup pfx "") = (keys s).filter (hasPrefix pfx) := by
    rw [List.map_congr_left (fun k _ => rollup_nodelim pfx k)]; simp
  simp only [listing, listingOf, hm]
  exact sortDedup_of_sorted _ (List.Pairwise.filter _ (keys_sorted s hwf))

/-- **The order of the directory walk does not matter**: the listing computed from the files in
    any order, with any repetitions, is the listing of the contract. -/
theorem C16_walk_order_irrelevant (s : Store α) (walk : List String) (h : ∀ k, k ∈ walk ↔ k ∈ keys s)
    (pfx delim : String) : listingOf pfx delim walk = listing s pfx delim := by
  apply sorted_ext _ _ (sorted_sortDedup _) (sorted_sortDedup _)
  intro x
  show x ∈ listingOf pfx delim walk ↔ x ∈ listingOf pfx delim (keys s)
  rw [mem_listingOf, mem_listingOf]
  constructor
  · rintro ⟨k, h1, h2⟩; exact ⟨k, (h k).mp h1, h2⟩
  · rintro ⟨k, h1, h2⟩; exact ⟨k, (h k).mpr h1, h2⟩

theorem C16_walk_perm (walk walk' : List String) (h : walk.Perm walk') (pfx delim : String) :
    listingOf pfx delim walk = listingOf pfx delim walk' := by
  apply sorted_ext _ _ (sorted_sortDedup _) (sorted_sortDedup _)
  intro x
  show x ∈ listingOf pfx delim walk ↔ x ∈ listingOf pfx delim walk'
  rw [mem_listingOf, mem_listingOf]
  constructor
  · rintro ⟨k, h1, h2⟩; exact ⟨k, h.mem_iff.mp h1, h2⟩
  · rintro ⟨k, h1, h2⟩; exact ⟨k, h.mem_iff.mpr h1, h2⟩

/-! ### what `rollup` is -/

theorem cutAfter_some (d : List Char) : ∀ (l h : List Char), cutAfter d l = some h →
    ∃ u, h = u ++ d ∧ h <+: l ∧ ∀ u', (u' ++ d) <+: l → u.length ≤ u'.length := by
  intro l
  induction l with
  | nil => intro h hc; simp [cutAfter] at hc
  | cons c r ih =>
    intro h hc
    simp only [cutAfter] at hc
    split at hc
    · rename_i hp
      cases hc
      exact ⟨[], by simp, List.isPrefixOf_iff_prefix.mp hp, by simp⟩
    · rename_i hp
      cases hr : cutAfter d r with
      | none => simp [hr] at hc
      | some h' =>
        simp only [hr, Option.map_some, Option.some.injEq] at hc
        subst hc
        obtain ⟨u, h1, h2, h3⟩ := ih h' hr
        refine ⟨c :: u, by simp [h1], ?_, ?_⟩
        · obtain ⟨t, ht⟩ := h2
          exact ⟨t, by simp [← ht]⟩
        · intro u' hu'
          cases u' with
          | nil =>
            exfalso; apply hp
            exact List.isPrefixOf_iff_prefix.mpr (by simpa using hu')
          | cons a u'' =>
            obtain ⟨t, ht⟩ := hu'
            simp only [List.cons_append, List.cons.injEq] at ht
            have : (u'' ++ d) <+: r := ⟨t, by simpa using ht.2⟩
            have := h3 u'' this
            simp; omega

theorem cutAfter_none (d : List Char) : ∀ (l : List Char), d ≠ [] → cutAfter d l = none →
    ∀ u, ¬ (u ++ d) <+: l := by
  intro l hd
  induction l with
  | nil =>
    intro _ u hu
    have := List.prefix_nil.mp hu
    simp at this; exact hd this.2
  | cons c r ih =>
    intro hc u hu
    simp only [cutAfter] at hc
    split at hc
    · cases hc
    · rename_i hp
      cases hr : cutAfter d r with
      | some h' => simp [hr] at hc
      | none =>
        cases u with
        | nil => exact hp (List.isPrefixOf_iff_prefix.mpr (by simpa using hu))
        | cons a u' =>
          obtain ⟨t, ht⟩ := hu
          simp only [List.cons_append, List.cons.injEq] at ht
          exact ih hr u' ⟨t, by simpa using ht.2⟩

/-- a key with the prefix in which the delimiter does not occur after the prefix is listed as itself -/
theorem C16_rollup_nocut (pfx delim rest : String) (hd : delim ≠ "")
    (h : ∀ u : List Char, ¬ (u ++ delim.toList) <+: rest.toList) :
    rollup pfx delim (pfx ++ rest) = pfx ++ rest := by
  have hdrop : (pfx ++ rest).toList.drop pfx.length = rest.toList := by
    rw [String.toList_append, ← String.length_toList]; exact List.drop_left
  simp only [rollup, hd, if_false, hdrop]
  cases hc : cutAfter delim.toList rest.toList with
  | none => rfl
  | some hh =>
    obtain ⟨u, h1, h2, _⟩ := cutAfter_some _ _ _ hc
    exact absurd (h1 ▸ h2) (h u)

/-- otherwise it is listed as `prefix ++ u ++ delim` where `u` is the SHORTEST string such that this
    is a prefix of the key: the immediate sub-prefix (“directory”) the key lives in -/
theorem C16_rollup_cut (pfx delim rest : String) (hd : delim ≠ "") (u0 : List Char)
    (h : (u0 ++ delim.toList) <+: rest.toList) :
    ∃ u : List Char, rollup pfx delim (pfx ++ rest) = pfx ++ String.ofList u ++ delim ∧
      (u ++ delim.toList) <+: rest.toList ∧
      ∀ u', (u' ++ delim.toList) <+: rest.toList → u.length ≤ u'.length := by
  have hdrop : (pfx ++ rest).toList.drop pfx.length = rest.toList := by
    rw [String.toList_append, ← String.length_toList]; exact List.drop_left
  have hdl : delim.toList ≠ [] := by
    intro e; apply hd; apply String.toList_inj.mp; simpa using e
  simp only [rollup, hd, if_false, hdrop]
  cases hc : cutAfter delim.toList rest.toList with
  | none => exact absurd h (cutAfter_none _ _ hdl hc u0)
  | some hh =>
    obtain ⟨u, h1, h2, h3⟩ := cutAfter_some _ _ _ hc
    refine ⟨u, ?_, h1 ▸ h2, h3⟩
    apply String.toList_inj.mp
    simp [String.toList_append, h1]

/-- a listed item is never the empty string when no key is (so `next = ""` can mean “done”) -/
theorem rollup_ne_empty (pfx delim key : String) (hk : key ≠ "") : rollup pfx delim key ≠ "" := by
  unfold rollup
  split
  · exact hk
  · rename_i hd
    split
    · rename_i hh hc
      obtain ⟨u, h1, _, _⟩ := cutAfter_some _ _ _ hc
      intro e
      have e2 := congrArg String.toList e
      simp only [String.toList_append, String.toList_ofList, h1] at e2
      have : delim.toList = [] := by
        have e3 : pfx.toList ++ (u ++ delim.toList) = [] := by simpa using e2
        simp only [List.append_eq_nil_iff] at e3
        exact e3.2.2
      apply hd; apply String.toList_inj.mp; simpa using this
    · exact hk

theorem listing_ne_empty (s : Store α) (hk : "" ∉ keys s) (pfx delim : String) :
    ∀ x ∈ listing s pfx delim, x ≠ "" := by
  intro x hx
  obtain ⟨k, h1, _, h3⟩ := (C16_listing_mem s pfx delim x).mp hx
  rw [← h3]
  exact rollup_ne_empty pfx delim k (fun e => hk (e ▸ h1))

end Store

/-! ## E. paging: following `next` from `""` yields the whole listing, for every page size -/
namespace Store
variable {α : Type}

theorem String.le_of_lt' {a b : String} (h : a < b) : a ≤ b := String.not_lt.mp (String.lt_asymm h)

theorem empty_le (x : String) : "" ≤ x :=
  String.not_lt.mp (by
    intro h
    have : x.toList < ([] : List Char) := h
    simp at this)

/-- in a sorted list the items `≥ a`, for an item `a`, are `a` and everything behind it -/
theorem filter_ge_suffix (pre s : List String) (a : String) (h : Sorted (pre ++ a :: s)) :
    (pre ++ a :: s).filter (fun k => decide (a ≤ k)) = a :: s := by
  obtain ⟨_, hs, hcross⟩ := List.pairwise_append.mp h
  rw [List.filter_append]
  have h1 : pre.filter (fun k => decide (a ≤ k)) = [] := by
    apply List.filter_eq_nil_iff.mpr
    intro x hx
    have : x < a := hcross x hx a (by simp)
    simp only [decide_eq_true_eq]
    exact String.not_le.mpr this
  have h2 : (a :: s).filter (fun k => decide (a ≤ k)) = a :: s := by
    apply List.filter_eq_self.mpr
    intro x hx
    simp only [decide_eq_true_eq]
    rcases List.mem_cons.mp hx with rfl | hx
    · exact String.le_refl _
    · exact String.le_of_lt' ((List.pairwise_cons.mp hs).1 x hx)
  rw [h1, h2]; rfl

/-- in a sorted list the items `≥ tok`, for ANY token, form a suffix; everything before is `< tok` -/
theorem filter_ge_is_suffix (tok : String) : ∀ (l : List String), Sorted l →
    ∃ pre, l = pre ++ l.filter (fun k => decide (tok ≤ k)) ∧ ∀ x ∈ pre, x < tok := by
  intro l
  induction l with
  | nil => intro _; exact ⟨[], rfl, by simp⟩
  | cons a r ih =>
    intro h
    have hr := (List.pairwise_cons.mp h).2
    have ha := (List.pairwise_cons.mp h).1
    by_cases hle : tok ≤ a
    · refine ⟨[], ?_, by simp⟩
      have : (a :: r).filter (fun k => decide (tok ≤ k)) = a :: r := by
        apply List.filter_eq_self.mpr
        intro x hx
        simp only [decide_eq_true_eq]
        rcases List.mem_cons.mp hx with rfl | hx
        · exact hle
        · exact String.le_trans hle (String.le_of_lt' (ha x hx))
      rw [this]; rfl
    · obtain ⟨pre, h1, h2⟩ := ih hr
      refine ⟨a :: pre, ?_, ?_⟩
      · simp only [List.filter_cons, hle, decide_false, Bool.false_eq_true, if_false, List.cons_append]
        rw [← h1]
      · intro x hx
        rcases List.mem_cons.mp hx with rfl | hx
        · exact String.not_le.mp hle
        · exact h2 x hx

/-- **One page.** Items of a page are a block of consecutive items of the listing: the listing is
    `skipped ++ page ++ remaining`, where everything skipped is `< token`, the page holds
    `min count |rest|` items, and `next` is the first remaining item (or `""` if none). -/
theorem C16_page_block (items : List String) (hs : Sorted items) (tok : String) (count : Nat) :
    ∃ skipped remaining, items = skipped ++ (page items tok count).1 ++ remaining ∧
      (∀ x ∈ skipped, x < tok) ∧ (∀ x ∈ (page items tok count).1, tok ≤ x) ∧
      (page items tok count).1.length = min count ((page items tok count).1 ++ remaining).length ∧
      (page items tok count).2 = remaining.headD "" := by
  obtain ⟨pre, h1, h2⟩ := filter_ge_is_suffix tok items hs
  refine ⟨pre, (items.filter (fun k => decide (tok ≤ k))).drop count, ?_, h2, ?_, ?_, rfl⟩
  · simp only [page, List.append_assoc, List.take_append_drop]
    exact h1
  · intro x hx
    have : x ∈ items.filter (fun k => decide (tok ≤ k)) := List.mem_of_mem_take hx
    simpa using (List.mem_filter.mp this).2
  · simp only [page, List.take_append_drop, List.length_take]

/-- **`next` is the start key of the next page**: asking again with `next` resumes exactly where
    the page stopped. -/
theorem C16_page_next_resumes (items : List String) (hs : Sorted items) (tok : String) (count : Nat)
    (hmore : (items.filter (fun k => decide (tok ≤ k))).drop count ≠ []) :
    items.filter (fun k => decide ((page items tok count).2 ≤ k)) =
      (items.filter (fun k => decide (tok ≤ k))).drop count := by
  obtain ⟨pre, h1, _⟩ := filter_ge_is_suffix tok items hs
  cases hd : (items.filter (fun k => decide (tok ≤ k))).drop count with
  | nil => exact absurd hd hmore
  | cons b t =>
    have hsplit : items = (pre ++ (items.filter (fun k => decide (tok ≤ k))).take count) ++ b :: t := by
      rw [List.append_assoc, ← hd, List.take_append_drop]; exact h1
    have hn : (page items tok count).2 = b := by simp [page, hd]
    rw [hn]
    have := filter_ge_suffix _ t b (hsplit ▸ hs)
    rw [← hsplit] at this
    exact this

/-- the loop started at an item of the listing returns that item and everything behind it, in
    pages that are non-empty and no longer than `count` -/
theorem fetchPages_suffix (items : List String) (count : Nat) (hc : 0 < count) (hne : ∀ k ∈ items, k ≠ "")
    (hs : Sorted items) :
    ∀ (n : Nat) (pre s : List String) (a : String), items = pre ++ a :: s → (a :: s).length ≤ n →
      (fetchPages items count n a).flatten = a :: s ∧
        ∀ p ∈ fetchPages items count n a, p ≠ [] ∧ p.length ≤ count := by
  intro n
  induction n with
  | zero => intro pre s a _ hl; simp at hl
  | succ n ih =>
    intro pre s a hk hl
    have hf := filter_ge_suffix pre s a (hk ▸ hs)
    unfold fetchPages
    simp only [page, hk, hf]
    have htake : (a :: s).take count ≠ [] := by
      cases count with
      | zero => omega
      | succ c => simp
    have hlen : ((a :: s).take count).length ≤ count := by
      rw [List.length_take]; exact Nat.min_le_left _ _
    simp only [htake, if_false]
    cases hd : (a :: s).drop count with
    | nil =>
      simp only [List.headD_nil, if_true]
      have : (a :: s).take count = a :: s := by
        have := List.take_append_drop count (a :: s)
        rw [hd] at this; simpa using this
      refine ⟨by simp [this], ?_⟩
      intro p hp
      simp only [List.mem_singleton] at hp
      subst hp
      exact ⟨htake, hlen⟩
    | cons b t =>
      have hb : b ≠ "" := hne b (by
        rw [hk]; apply List.mem_append_right
        have : b ∈ (a :: s).drop count := by rw [hd]; simp
        exact List.mem_of_mem_drop this)
      simp only [List.headD_cons, hb, if_false]
      have hsplit : items = (pre ++ (a :: s).take count) ++ b :: t := by
        rw [hk, List.append_assoc, ← hd, List.take_append_drop]
      have hlen2 : (b :: t).length ≤ n := by
        have h1 : ((a :: s).drop count).length = (a :: s).length - count := List.length_drop
        rw [hd] at h1
        omega
      obtain ⟨ih1, ih2⟩ := ih (pre ++ (a :: s).take count) t b hsplit hlen2
      rw [hk] at ih1 ih2
      refine ⟨?_, ?_⟩
      · rw [List.flatten_cons, ih1, ← hd, List.take_append_drop]
      · intro p hp
        rcases List.mem_cons.mp hp with rfl | hp
        · exact ⟨htake, hlen⟩
        · exact ih2 p hp

/-- **Paging law.** For every page size `count ≥ 1`, following `next` from the empty token yields
    pages whose concatenation is exactly the listing — nothing twice, nothing missing — and every
    page is non-empty and holds at most `count` items. -/
theorem C16_paging_complete (items : List String) (count : Nat) (hc : 0 < count)
    (hne : ∀ k ∈ items, k ≠ "") (hs : Sorted items) :
    (fetchPages items count (items.length + 1) "").flatten = items ∧
      ∀ p ∈ fetchPages items count (items.length + 1) "", p ≠ [] ∧ p.length ≤ count := by
  cases items with
  | nil => simp [fetchPages, page]
  | cons a s =>
    have hall : (a :: s).filter (fun k => decide ("" ≤ k)) = a :: s := by
      apply List.filter_eq_self.mpr
      intro x _; simp only [decide_eq_true_eq]
      exact empty_le x
    have hsame : page (a :: s) "" count = page (a :: s) a count := by
      have h2 := filter_ge_suffix [] s a (by simpa using hs)
      simp only [List.nil_append] at h2
      simp only [page, hall, h2]
    have key := fetchPages_suffix (a :: s) count hc hne hs ((a :: s).length + 1) [] s a (by simp) (by simp)
    unfold fetchPages at key ⊢
    simp only [hsame]
    exact key

/-- the paging law for the store's `KeysPrefix`, any prefix, any delimiter, any page size -/
theorem C16_keysPrefix_paging (s : Store α) (hk : "" ∉ keys s) (pfx delim : String)
    (count : Nat) (hc : 0 < count) :
    (allPages s pfx delim count).flatten = listing s pfx delim ∧
      ∀ p ∈ allPages s pfx delim count, p ≠ [] ∧ p.length ≤ count :=
  C16_paging_complete (listing s pfx delim) count hc (listing_ne_empty s hk pfx delim)
    (C16_listing_sorted s pfx delim)

/-- a page size of 0 is outside the law: the first page is empty and the caller stops at once -/
example : fetchPages ["a", "b"] 0 3 "" = [] := by decide
/-- non-vacuity / sanity: three keys, page size 2 -/
example : fetchPages ["a.c", "a/b.d/e", "a/b/c"] 2 4 "" = [["a.c", "a/b.d/e"], ["a/b/c"]] := by decide

end Store

/-! ## F. the local file system store refines the contract on file-system-representable key universes -/
namespace LocalFS
open Store

/-- no key of the universe is a proper path-prefix of another one (a file and a directory cannot
    share a path) -/
def PathPrefixFree (U : List String) : Prop := ∀ k ∈ U, ∀ k' ∈ U, k ∉ parents k'

instance (U : List String) : Decidable (PathPrefixFree U) := by unfold PathPrefixFree; exact inferInstance

/-- the invariant: the files are the contract's store, every file is a key of the universe and
    every directory is a proper path-prefix of a key of the universe -/
structure Inv (U : List String) (fs : FS) (s : Store Bytes) : Prop where
  files : fs.files = s
  inU : ∀ f ∈ keys s, f ∈ U
  dirs : ∀ d ∈ fs.dirs, ∃ k ∈ U, d ∈ parents k

theorem mem_addDirs (ps : List String) : ∀ (ds : List String) (d : String), d ∈ addDirs ds ps → d ∈ ds ∨ d ∈ ps := by
  induction ps with
  | nil => intro ds d h; exact Or.inl h
  | cons p r ih =>
    intro ds d h
    simp only [addDirs] at h
    rcases ih _ d h with h | h
    · split at h
      · exact Or.inl h
      · rcases List.mem_append.mp h with h | h
        · exact Or.inl h
        · simp at h; exact Or.inr (by simp [h])
    · exact Or.inr (by simp [h])

theorem keys_insert_sub (k : String) (v : Bytes) (s : Store Bytes) : ∀ f ∈ keys (Store.insert k v s), f = k ∨ f ∈ keys s := by
  intro f hf
  simp only [keys, List.mem_map] at hf ⊢
  obtain ⟨q, hq, rfl⟩ := hf
  rcases mem_insert hq with rfl | hq
  · exact Or.inl rfl
  · exact Or.inr ⟨q, hq, rfl⟩

theorem keys_erase_sub (k : String) (s : Store Bytes) : ∀ f ∈ keys (Store.erase k s), f ∈ keys s := by
  intro f hf
  simp only [keys, List.mem_map] at hf ⊢
  obtain ⟨q, hq, rfl⟩ := hf
  exact ⟨q, (erase_sublist k s).subset hq, rfl⟩

section
variable {U : List String} (hU : PathPrefixFree U) {fs : FS} {s : Store Bytes} (inv : Inv U fs s)
include hU inv

theorem not_underFile {k : String} (hk : k ∈ U) : underFile fs k = false := by
  simp only [underFile, List.any_eq_false]
  intro p hp hf
  have : p ∈ keys s := by
    rw [mem_keys_iff, ← inv.files]; exact hf
  exact hU p (inv.inU p this) k hk hp

theorem not_isDir {k : String} (hk : k ∈ U) : isDir fs k = false := by
  cases h : isDir fs k with
  | false => rfl
  | true =>
    simp only [isDir, List.contains_eq_mem, decide_eq_true_eq] at h
    obtain ⟨k', hk', hp⟩ := inv.dirs k h
    exact absurd hp (hU k hk k' hk')

theorem not_isDir_addDirs {k : String} (hk : k ∈ U) (k2 : String) (hk2 : k2 ∈ U) :
    (addDirs fs.dirs (parents k2)).contains k = false := by
  cases h : (addDirs fs.dirs (parents k2)).contains k with
  | false => rfl
  | true =>
    simp only [List.contains_eq_mem, decide_eq_true_eq] at h
    rcases mem_addDirs _ _ _ h with h | h
    · obtain ⟨k', hk', hp⟩ := inv.dirs k h
      exact absurd hp (hU k hk k' hk')
    · exact absurd h (hU k hk k2 hk2)

/-- one step: same answer as the contract (with `Delete` of a missing key = ok), invariant kept -/
theorem step_refines (op : Op Bytes) (hop : op.key ∈ U) :
    (LocalFS.step fs op).2 = (Store.step true s op).2 ∧ Inv U (LocalFS.step fs op).1 (Store.step true s op).1 := by
  have hf := inv.files
  cases op with
  | put k v x =>
    simp only [Op.key] at hop
    have h1 := not_underFile hU inv hop
    have h2 := not_isDir_addDirs hU inv hop k hop
    simp only [LocalFS.step, LocalFS.put, Store.step, Store.put, h1, isDir, h2, isFile, hf]
    simp only [Bool.false_eq_true, if_false]
    split
    · refine ⟨rfl, ⟨rfl, inv.inU, ?_⟩⟩
      intro d hd
      rcases mem_addDirs _ _ _ hd with hd | hd
      · exact inv.dirs d hd
      · exact ⟨k, hop, hd⟩
    · refine ⟨rfl, ⟨by simp, ?_, ?_⟩⟩
      · intro f hf'
        rcases keys_insert_sub k v s f hf' with rfl | h
        · exact hop
        · exact inv.inU f h
      · intro d hd
        rcases mem_addDirs _ _ _ hd with hd | hd
        · exact inv.dirs d hd
        · exact ⟨k, hop, hd⟩
  | get k =>
    simp only [Op.key] at hop
    have h1 := not_underFile hU inv hop
    have h2 := not_isDir hU inv hop
    simp only [LocalFS.step, LocalFS.get, Store.step, Store.get, h1, h2, hf]
    refine ⟨?_, inv⟩
    cases lookup k s <;> simp
  | has k =>
    simp only [Op.key] at hop
    have h1 := not_underFile hU inv hop
    simp only [LocalFS.step, LocalFS.has, Store.step, Store.has, h1, isFile, hf]
    exact ⟨by simp, inv⟩
  | delete k =>
    simp only [Op.key] at hop
    have h1 := not_underFile hU inv hop
    have h2 := not_isDir hU inv hop
    simp only [LocalFS.step, LocalFS.delete, Store.step, Store.delete, h1, h2, isFile, hf]
    simp only [Bool.false_eq_true, if_false]
    split
    · refine ⟨rfl, ⟨by simp, ?_, inv.dirs⟩⟩
      intro f hf'
      exact inv.inU f (keys_erase_sub k s f hf')
    · exact ⟨rfl, inv⟩

end

/-- **Refinement of localfs to the object store contract, all histories.** Over a key universe in
    which no key is a proper path-prefix of another, the local file system store (with its
    directories, `MkdirAll`, `O_EXCL`, `Remove`) gives exactly the answers of the contract with
    `Delete(missing) = ok`, and its files are exactly the contract's store — hence, by
    `C16_store_refines_map`, the answers of the map specification. -/
theorem C16_localfs_refines (U : List String) (hU : PathPrefixFree U) (ops : List (Op Bytes)) :
    ∀ (fs : FS) (s : Store Bytes), Inv U fs s → (∀ op ∈ ops, op.key ∈ U) →
      (LocalFS.run fs ops).2 = (Store.run true s ops).2 ∧ Inv U (LocalFS.run fs ops).1 (Store.run true s ops).1 := by
  induction ops with
  | nil => intro fs s inv _; exact ⟨rfl, inv⟩
  | cons op rest ih =>
    intro fs s inv hops
    obtain ⟨h1, h2⟩ := step_refines hU inv op (hops op (by simp))
    obtain ⟨g1, g2⟩ := ih _ _ h2 (fun o ho => hops o (by simp [ho]))
    simp only [LocalFS.run, Store.run]
    exact ⟨by rw [h1, g1], g2⟩

theorem C16_localfs_refines_empty (U : List String) (hU : PathPrefixFree U) (ops : List (Op Bytes))
    (hops : ∀ op ∈ ops, op.key ∈ U) :
    (LocalFS.run FS.empty ops).2 = (Store.run true [] ops).2 ∧
      (LocalFS.run FS.empty ops).1.files = (Store.run true [] ops).1 := by
  have inv0 : Inv U FS.empty [] := ⟨rfl, by simp [keys], by simp [FS.empty]⟩
  obtain ⟨h1, h2⟩ := C16_localfs_refines U hU ops FS.empty [] inv0 hops
  exact ⟨h1, h2.files⟩

/-- end to end: localfs against the map specification -/
theorem C16_localfs_refines_map (U : List String) (hU : PathPrefixFree U) (ops : List (Op Bytes))
    (hops : ∀ op ∈ ops, op.key ∈ U) :
    (LocalFS.run FS.empty ops).2 = (Spec.run true (fun _ => none) ops).2 := by
  rw [(C16_localfs_refines_empty U hU ops hops).1]
  exact C16_store_refines_map_empty true ops

/-- listings of the local store are the contract's listings of its files, whatever order the
    directory walk visits them in -/
theorem C16_localfs_listing (fs : FS) (walk : List String) (hw : ∀ k, k ∈ walk ↔ k ∈ keys fs.files)
    (token pfx delim : String) (count : Nat) :
    keysPrefixWalk walk token pfx delim count = Store.keysPrefix fs.files token pfx delim count := by
  simp only [keysPrefixWalk, Store.keysPrefix, C16_walk_order_irrelevant fs.files walk hw]

/-! ### the hypotheses are satisfiable, and they are needed -/

/-- keys whose components are prefixes of one another form a legitimate universe … -/
example : PathPrefixFree ["a", "ab", "a.b/c", "a-b", "a.b/cd", "b/a/c", "b/a.c"] := by decide
/-- … keys that are path-prefixes of one another do not -/
example : ¬ PathPrefixFree ["a", "a/b"] := by decide

/-- **Needed.** It is not enough that the key set is representable at every instant: directories
    outlive the files that made them. `put a/b; delete a/b; put a` — the contract says ok, ok, ok;
    the file system answers `exist` to a create-if-absent put of a key that is not there (`a` is a
    left-over directory), and `err` to a plain put. -/
theorem C16_neg_leftover_directory :
    (LocalFS.run FS.empty [.put "a/b" [1] false, .delete "a/b", .put "a" [2] true, .put "a" [2] false, .get "a"]).2
      = [.status .ok, .status .ok, .status .exist, .status .err, .status .err] ∧
    (Store.run true [] [.put "a/b" [1] false, .delete "a/b", .put "a" [2] true, .put "a" [2] false, .get "a"]).2
      = [.status .ok, .status .ok, .status .ok, .status .ok, .value (some [2])] := by
  decide

end LocalFS

/-! ## G. side conditions on the Go source (facts regenerated from `pkg/storage/localfs/store.go` on every run) -/
namespace LocalFS

/-- `Put` opens with `O_CREATE` (creates absent keys), `O_TRUNC` (an overwrite leaves the new bytes
    only, never a tail of the old ones), write-only, and never `O_APPEND`; `O_EXCL` — the atomic
    create-if-absent of the operating system, the step `Store.put … true` models — is added exactly
    when, and only when, the caller asks for no-overwrite. -/
theorem C16_fact_put_flags :
    "O_CREATE" ∈ Facts.localfsPutFlags ∧ "O_TRUNC" ∈ Facts.localfsPutFlags ∧ "O_WRONLY" ∈ Facts.localfsPutFlags ∧
      "O_APPEND" ∉ Facts.localfsPutFlags ∧ "O_EXCL" ∉ Facts.localfsPutFlags ∧
      Facts.localfsPutExclusiveFlags = ["O_EXCL"] := by decide

/-- `Delete` of a missing key is a success (`missingOk = true` in the refinement theorem) -/
theorem C16_fact_delete_missing_ok : Facts.localfsDeleteIgnoresNotExist = true := by decide

/-- `KeysPrefix` sorts, pages by start key, filters with `strings.HasPrefix` and does not clean the prefix -/
theorem C16_fact_keysprefix_calls :
    "sort.Strings" ∈ Facts.localfsKeysPrefixCalls ∧ "sort.SearchStrings" ∈ Facts.localfsKeysPrefixCalls ∧
      "strings.HasPrefix" ∈ Facts.localfsKeysPrefixCalls ∧ "path.Clean" ∉ Facts.localfsKeysPrefixCalls := by decide

end LocalFS
