import DatamonVerif.Model.Crash
/-! C15 — concurrent uploads, downloads, label sets and commits do not interfere.

Operations are programs of atomic store writes (`Crash.Write`, `Crash.put`). Two writes are
COMPATIBLE when they touch different keys or write the same value (content-addressed blobs:
same key ⇒ same bytes; fresh bundle / split ids and distinct labels ⇒ different keys).
Theorem: for ANY interleaving of ANY number of pairwise compatible programs the final store is
the one obtained by running them one after the other, so every key — hence every operation's
own result — is what that operation produces alone. -/
namespace Crash

/-- stores that answer every read alike -/
def Equiv (s t : Store) : Prop := ∀ k, get s k = get t k

theorem get_put_ne' (s : Store) (w : Write) (k : Key) (h : k ≠ w.key) : get (put s w) k = get s k := by
  unfold put
  split
  · rfl
  · unfold get
    simp only [List.lookup_cons]
    have : (k == w.key) = false := by simpa using h
    rw [this]

theorem get_put (s : Store) (w : Write) (k : Key) :
    get (put s w) k =
      if k = w.key then (if w.noOverwrite && (get s k).isSome then get s k else some w.val) else get s k := by
  by_cases hk : k = w.key
  · subst hk
    simp only [if_true]
    unfold put
    split
    · rename_i h; simp [h]
    · rename_i h; simp [h, get, List.lookup_cons]
  · simp only [hk, if_false]
    exact get_put_ne' s w k hk

theorem put_congr (s t : Store) (w : Write) (h : Equiv s t) : Equiv (put s w) (put t w) := by
  intro k
  rw [get_put, get_put, h k]

theorem apply_congr (ws : List Write) : ∀ s t, Equiv s t → Equiv (apply s ws) (apply t ws) := by
  induction ws with
  | nil => intro s t h; exact h
  | cons w r ih =>
    intro s t h
    simp only [apply, List.foldl_cons]
    exact ih _ _ (put_congr s t w h)

def Compatible (a b : Write) : Prop := a.key ≠ b.key ∨ a.val = b.val

/-- **compatible writes commute** -/
theorem C15_compatible_commute (s : Store) (a b : Write) (h : Compatible a b) :
    Equiv (put (put s a) b) (put (put s b) a) := by
  intro k
  simp only [get_put]
  by_cases hab : a.key = b.key
  · have hv : a.val = b.val := by
      rcases h with h | h
      · exact absurd hab h
      · exact h
    by_cases ha : k = a.key
    · subst ha
      have hb : a.key = b.key := hab
      simp only [hb, if_true]
      cases hga : get s b.key with
      | none => cases a.noOverwrite <;> cases b.noOverwrite <;> simp [hv]
      | some u => cases a.noOverwrite <;> cases b.noOverwrite <;> simp [hv]
    · have hb : ¬ k = b.key := fun e => ha (e.trans hab.symm)
      simp only [ha, hb, if_false]
  · by_cases ha : k = a.key
    · have hb : ¬ k = b.key := fun e => hab (ha.symm.trans e)
      subst ha
      simp only [hb, if_false, if_true]
    · by_cases hb : k = b.key
      · subst hb
        have hba : ¬ b.key = a.key := fun e => hab e.symm
        simp only [hba, if_false, if_true]
      · simp only [ha, hb, if_false]

/-- a write compatible with every write of a program can be moved across the whole program -/
theorem move_across (p : List Write) : ∀ (s : Store) (b : Write), (∀ a ∈ p, Compatible a b) →
    Equiv (apply (put s b) p) (put (apply s p) b) := by
  induction p with
  | nil => intro s b _ k; rfl
  | cons a r ih =>
    intro s b h
    simp only [apply, List.foldl_cons]
    have h1 : Equiv (put (put s b) a) (put (put s a) b) := fun k => (C15_compatible_commute s a b (h a (by simp)) k).symm
    have h2 := apply_congr r _ _ h1
    have h3 := ih (put s a) b (fun x hx => h x (by simp [hx]))
    intro k
    have := h2 k
    simp only [apply] at this h3
    rw [this]
    exact h3 k

theorem apply_append (s : Store) (p q : List Write) : apply s (p ++ q) = apply (apply s p) q := by
  simp [apply, List.foldl_append]

/-- interleavings of any number of programs: at each step some program performs its next write -/
inductive Interleave : List (List Write) → List Write → Prop where
  | done (ps : List (List Write)) (h : ∀ p ∈ ps, p = []) : Interleave ps []
  | step (pre post : List (List Write)) (a : Write) (rest r : List Write)
      (h : Interleave (pre ++ rest :: post) r) : Interleave (pre ++ (a :: rest) :: post) (a :: r)

theorem flatten_all_nil (ps : List (List Write)) (h : ∀ p ∈ ps, p = []) : ps.flatten = [] := by
  induction ps with
  | nil => rfl
  | cons p r ih =>
    rw [List.flatten_cons, h p (by simp), ih (fun x hx => h x (by simp [hx]))]; rfl

/-- writes of different programs are compatible -/
def PairwiseCompatible (ps : List (List Write)) : Prop :=
  ∀ i j (hi : i < ps.length) (hj : j < ps.length), i ≠ j → ∀ a ∈ ps[i], ∀ b ∈ ps[j], Compatible a b

theorem compatible_symm {a b : Write} (h : Compatible a b) : Compatible b a := by
  rcases h with h | h
  · exact Or.inl (fun e => h e.symm)
  · exact Or.inr h.symm

theorem pc_shrink (pre post : List (List Write)) (a : Write) (rest : List Write)
    (h : PairwiseCompatible (pre ++ (a :: rest) :: post)) : PairwiseCompatible (pre ++ rest :: post) := by
  intro i j hi hj hij x hx y hy
  have hi' : i < (pre ++ (a :: rest) :: post).length := by simpa using hi
  have hj' : j < (pre ++ (a :: rest) :: post).length := by simpa using hj
  have key : ∀ (n : Nat) (hn : n < (pre ++ rest :: post).length) (hn' : n < (pre ++ (a :: rest) :: post).length) (z : Write),
      z ∈ (pre ++ rest :: post)[n] → z ∈ (pre ++ (a :: rest) :: post)[n] := by
    intro n hn hn' z hz
    by_cases h1 : n < pre.length
    · rw [List.getElem_append_left h1] at hz ⊢; exact hz
    · rw [List.getElem_append_right (by omega)] at hz ⊢
      by_cases h2 : n - pre.length = 0
      · simp only [h2, List.getElem_cons_zero] at hz ⊢
        exact List.mem_cons_of_mem _ hz
      · obtain ⟨m, hm⟩ : ∃ m, n - pre.length = m + 1 := ⟨n - pre.length - 1, by omega⟩
        simp only [hm, List.getElem_cons_succ] at hz ⊢
        exact hz
  exact h i j hi' hj' hij x (key i hi hi' x hx) y (key j hj hj' y hy)

/-- **non-interference**: every interleaving of pairwise compatible programs leaves the store
    that running the programs one after the other leaves — for any number of programs, any
    lengths, any interleaving -/
theorem C15_noninterference (ps : List (List Write)) (r : List Write) (hi : Interleave ps r) :
    PairwiseCompatible ps → ∀ s, Equiv (apply s r) (apply s ps.flatten) := by
  induction hi with
  | done ps h => intro _ s k; rw [flatten_all_nil ps h]
  | step pre post a rest r _ ih =>
    intro hpc s
    have ih' := ih (pc_shrink pre post a rest hpc) (put s a)
    -- `a` moves in front of everything the programs before it do
    have hcomp : ∀ x ∈ pre.flatten, Compatible x a := by
      intro x hx
      obtain ⟨p, hp, hxp⟩ := List.mem_flatten.mp hx
      obtain ⟨i, hil, hpi⟩ := List.mem_iff_getElem.mp hp
      have hi1 : i < (pre ++ (a :: rest) :: post).length := by simp; omega
      have hj1 : pre.length < (pre ++ (a :: rest) :: post).length := by simp
      have := hpc i pre.length hi1 hj1 (by omega) x (by
        rw [List.getElem_append_left hil, hpi]; exact hxp) a (by
        rw [List.getElem_append_right (by omega)]; simp)
      exact this
    intro k
    have e1 : apply s (a :: r) = apply (put s a) r := rfl
    rw [e1, ih' k]
    simp only [List.flatten_append, List.flatten_cons, apply_append]
    -- apply (put s a) pre.flatten ≈ put (apply s pre.flatten) a
    have hm := move_across pre.flatten s a hcomp
    have := apply_congr (rest ++ post.flatten) _ _ hm
    rw [apply_append] at this
    rw [this k, apply_append]
    rfl

/-- corollary: each key ends with the value the sequential run gives it; in particular a key
    written by one program only (its bundle metadata, its label) holds that program's value -/
theorem C15_each_result_as_alone (ps : List (List Write)) (r : List Write) (hi : Interleave ps r)
    (hpc : PairwiseCompatible ps) (s : Store) (k : Key) :
    get (apply s r) k = get (apply s ps.flatten) k :=
  C15_noninterference ps r hi hpc s k

/-- negation witness: two writers of DIFFERENT values to one key do interfere -/
theorem C15_neg_incompatible :
    let a : Write := { key := .label 1, val := 1, noOverwrite := false }
    let b : Write := { key := .label 1, val := 2, noOverwrite := false }
    get (apply [] [a, b]) (.label 1) ≠ get (apply [] [b, a]) (.label 1) := by decide

/-- non-vacuity: two uploads sharing a blob, interleaved -/
example : Interleave [[blobWrite (5, 9), descWrite 1 0], [blobWrite (5, 9), descWrite 2 0]]
    [blobWrite (5, 9), blobWrite (5, 9), descWrite 2 0, descWrite 1 0] := by
  apply Interleave.step [] [[blobWrite (5, 9), descWrite 2 0]]
  apply Interleave.step [[descWrite 1 0]] []
  apply Interleave.step [[descWrite 1 0]] []
  apply Interleave.step [] [[]]
  exact Interleave.done _ (by simp)

end Crash
