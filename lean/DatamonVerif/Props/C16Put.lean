import DatamonVerif.Model.PutRetry
import DatamonVerif.Generated.Facts
/-! C16, "reads return the last written bytes", for `localfs.Put` under write faults and retries:
whatever the fault schedule, a `Put` that reports success has written exactly what the source held
from its starting position; the code before the fix did not (witness by `decide`). -/
namespace PutRetry

theorem putFixed_exact (start : Nat) (fs : List (Option (Nat × Nat))) :
    ∀ (src : Src) (first : Bool) (rec : Bytes), (first = true → src.pos = start) →
      putFixed start src fs first = some rec → rec = src.data.drop start := by
  induction fs with
  | nil => intro src first rec _ h; simp [putFixed] at h
  | cons f r ih =>
    intro src first rec hstart h
    simp only [putFixed] at h
    split at h
    · simp at h
    · rename_i hc
      cases hf : first with
      | true =>
        have hp := hstart hf
        simp only [hf, if_true] at h
        cases f with
        | none =>
          simp only [attempt] at h
          cases h
          rw [hp]
        | some ku =>
          obtain ⟨keep, used⟩ := ku
          simp only [attempt] at h
          have := ih { src with pos := src.pos + max keep used } false rec (by intro e; cases e) h
          simpa using this
      | false =>
        simp only [hf, Bool.false_eq_true, if_false] at h
        cases f with
        | none =>
          simp only [attempt] at h
          cases h
          rfl
        | some ku =>
          obtain ⟨keep, used⟩ := ku
          simp only [attempt] at h
          have := ih { src with pos := start + max keep used } false rec (by intro e; cases e) h
          simpa using this

/-- **whatever the fault schedule, success means the exact bytes** -/
theorem C16_put_retry_exact (data : Bytes) (start : Nat) (seekable : Bool) (faults : List (Option (Nat × Nat)))
    (rec : Bytes) (h : putFixed start ⟨data, start, seekable⟩ faults true = some rec) : rec = data.drop start :=
  putFixed_exact start faults ⟨data, start, seekable⟩ true rec (fun _ => rfl) h

/-- a source that cannot seek is never written twice: after a failed first attempt the error is reported -/
theorem C16_put_plain_reports (data : Bytes) (start : Nat) (keep used : Nat) (rest : List (Option (Nat × Nat))) :
    putFixed start ⟨data, start, false⟩ (some (keep, used) :: rest) true = none := by
  cases rest with
  | nil => simp [putFixed, attempt]
  | cons f r => simp [putFixed, attempt]

/-- the unrepaired code: 10 bytes, the first write delivers 4 and fails, the retry succeeds — with 6 bytes -/
theorem C16_neg_old_put_truncates :
    putOld ⟨[0, 1, 2, 3, 4, 5, 6, 7, 8, 9], 0, true⟩ [some (4, 4), none] = some [4, 5, 6, 7, 8, 9] := by decide

/-- regenerated from `pkg/storage/localfs/store.go` on every run: both retried operations of `Put`
    (the `WriterTo` one and the `PipeIO` one) rewind the source before they reopen the record -/
theorem C16_facts_put_rewinds : Facts.localfsPutOperationFirstCalls = ["rewind", "rewind"] := by decide

/-- non-vacuity: the same schedule on the repaired code stores all ten bytes -/
example : putFixed 0 ⟨[0, 1, 2, 3, 4, 5, 6, 7, 8, 9], 0, true⟩ [some (4, 4), none] true
    = some [0, 1, 2, 3, 4, 5, 6, 7, 8, 9] := by decide

end PutRetry
