import DatamonVerif.Lemmas.Cafs
/-! C01 — the content store returns exactly the bytes that were stored.

All theorems hold for every hash function `H`, every leaf size `L > 0`, every content and every
chunking of the source's writes. -/
namespace Cafs

/-- **one large write or many small ones**: the leaves at `Flush` are the chunking of the
    concatenated writes, whatever the write sizes. -/
theorem C01_leaves_chunking (L : Nat) (hL : 0 < L) (writes : List Bytes) :
    (writes.foldl (W.write L) W.init).leaves = chunks L writes.flatten := by
  have := writes_inv L hL writes W.init [] (init_inv L hL)
  exact leaves_eq_chunks L hL _ _ this

theorem sum_length_flatten (ws : List Bytes) : (ws.map List.length).sum = ws.flatten.length := by
  induction ws with
  | nil => rfl
  | cons w r ih => simp only [List.map_cons, List.sum_cons, List.flatten_cons, List.length_append, ih]

/-- two chunkings of the same content are indistinguishable to `Put` -/
theorem C01_put_chunking (H : Hash) (crc : Bool) (L : Nat) (hL : 0 < L) (s : Store) (w1 w2 : List Bytes)
    (h : w1.flatten = w2.flatten) :
    (put H crc L s w1).1 = (put H crc L s w2).1 ∧ (put H crc L s w1).2.key = (put H crc L s w2).2.key := by
  have i1 := writes_inv L hL w1 W.init [] (init_inv L hL)
  have i2 := writes_inv L hL w2 W.init [] (init_inv L hL)
  have l1 := leaves_eq_chunks L hL _ _ i1
  have l2 := leaves_eq_chunks L hL _ _ i2
  have k1 := keys_eq_leafKeysOf H L _ _ i1
  have k2 := keys_eq_leafKeysOf H L _ _ i2
  have hl : (w1.foldl (W.write L) W.init).leaves = (w2.foldl (W.write L) W.init).leaves := by
    rw [l1, l2]; show chunks L w1.flatten = chunks L w2.flatten; rw [h]
  have hk : (w1.foldl (W.write L) W.init).keys H L = (w2.foldl (W.write L) W.init).keys H L := by
    rw [k1, k2, hl]
  have hw : (w1.map List.length).sum = (w2.map List.length).sum := by
    rw [sum_length_flatten, sum_length_flatten, h]
  have e1 : put H crc L s w1 = putCore H crc L s ((w1.foldl (W.write L) W.init).keys H L)
      (w1.foldl (W.write L) W.init).leaves (w1.map List.length).sum := rfl
  have e2 : put H crc L s w2 = putCore H crc L s ((w2.foldl (W.write L) W.init).keys H L)
      (w2.foldl (W.write L) W.init).leaves (w2.map List.length).sum := rfl
  rw [e1, e2, hl, hk, hw]
  exact ⟨rfl, rfl⟩

/-- the reported written size is the content length -/
theorem C01_put_written (H : Hash) (crc : Bool) (L : Nat) (s : Store) (writes : List Bytes) :
    (put H crc L s writes).2.written = writes.flatten.length := by
  unfold put putCore; exact sum_length_flatten writes

/-! ### readers -/

/-- the store serves leaf `i` of the object as `cs[i]` (established by `put`, see C02) -/
def Serves (fetch : Nat → Except RErr Bytes) (cs : List Bytes) : Prop :=
  ∀ i, (h : i < cs.length) → fetch i = .ok cs[i]

/-- full leaves except possibly the last -/
def Shape (L : Nat) (cs : List Bytes) : Prop :=
  ∀ i, (h : i + 1 < cs.length) → (cs[i]'(by omega)).length = L

theorem chunks_eq_cons (L : Nat) (hL : 0 < L) (c : Bytes) (hc : c ≠ []) :
    chunks L c = c.take L :: chunks L (c.drop L) := by
  rw [chunks]
  have : ¬ (c = [] ∨ L = 0) := by
    intro h; cases h with
    | inl h => exact hc h
    | inr h => omega
  simp only [this, dite_false]

theorem shape_cons (L : Nat) (x : Bytes) (xs : List Bytes) (h1 : xs ≠ [] → x.length = L) (h2 : Shape L xs) :
    Shape L (x :: xs) := by
  intro i hi
  cases i with
  | zero =>
    simp only [List.getElem_cons_zero]
    apply h1
    intro e; simp [e] at hi
  | succ j =>
    simp only [List.getElem_cons_succ]
    exact h2 j (by simpa using hi)

theorem shape_chunks (L : Nat) (hL : 0 < L) (c : Bytes) : Shape L (chunks L c) := by
  induction hn : c.length using Nat.strongRecOn generalizing c with
  | ind n ih =>
    by_cases hc : c = []
    · subst hc; rw [chunks_nil]; intro i hi; simp at hi
    · rw [chunks_eq_cons L hL c hc]
      have hpos : 0 < c.length := List.length_pos_iff.mpr hc
      apply shape_cons
      · intro hrest
        have : c.drop L ≠ [] := by
          intro e; rw [e, chunks_nil] at hrest; exact hrest rfl
        have : L < c.length := by
          have := List.length_pos_iff.mpr this
          simp [List.length_drop] at this; omega
        simp [List.length_take]; omega
      · exact ih (c.drop L).length (by simp [List.length_drop]; omega) (c.drop L) rfl

theorem readStream_ok (H : Hash) (v : Bool) (L : Nat) (s : Store) (keys : List Bytes) (cs : List Bytes)
    (hlen : keys.length = cs.length) (hs : Serves (fetchLeaf H v L s keys) cs) :
    ∀ fuel i, cs.length - i ≤ fuel → readStream H v L s keys fuel i = .ok (cs.drop i).flatten := by
  intro fuel
  induction fuel with
  | zero =>
    intro i h
    have : cs.drop i = [] := List.drop_eq_nil_of_le (by omega)
    simp [readStream, this]
  | succ f ih =>
    intro i h
    simp only [readStream]
    by_cases hi : i ≥ keys.length
    · have : cs.drop i = [] := List.drop_eq_nil_of_le (by omega)
      simp [hi, this]
    · have hi' : i < cs.length := by omega
      simp only [hi, if_false, hs i hi', ih (i + 1) (by omega)]
      have e : (cs.drop i).flatten = cs[i] ++ (cs.drop (i + 1)).flatten := by
        rw [List.drop_eq_getElem_cons hi', List.flatten_cons]
      rw [e]

/-- **sequential reads to completion** deliver exactly the content -/
theorem C01_readAll_roundtrip (H : Hash) (v : Bool) (L : Nat) (hL : 0 < L) (s : Store) (keys : List Bytes) (c : Bytes)
    (hlen : keys.length = (chunks L c).length) (hs : Serves (fetchLeaf H v L s keys) (chunks L c)) :
    readAll H v L s keys = .ok c := by
  unfold readAll
  rw [readStream_ok H v L s keys (chunks L c) hlen hs keys.length 0 (by omega)]
  simp [flatten_chunks L hL c]

theorem readAtLoop_ok (fetch : Nat → Except RErr Bytes) (L : Nat) (cs : List Bytes)
    (hs : Serves fetch cs) (hshape : Shape L cs) :
    ∀ fuel index offset need, index < cs.length → cs.length - index ≤ fuel → offset < L →
      readAtLoop fetch cs.length fuel index offset need = .ok (((cs.drop index).flatten.drop offset).take need) := by
  intro fuel
  induction fuel with
  | zero => intro index offset need h1 h2; omega
  | succ f ih =>
    intro index offset need h1 h2 h3
    simp only [readAtLoop, hs index h1]
    rw [List.drop_eq_getElem_cons h1]
    simp only [List.flatten_cons]
    by_cases hlast : index + 1 ≥ cs.length
    · -- last leaf: nothing follows
      have hnil : cs.drop (index + 1) = [] := List.drop_eq_nil_of_le (by omega)
      simp [hlast, hnil]
    · have hfull : (cs[index]).length = L := hshape index (by omega)
      by_cases hp : ((cs[index]).drop offset |>.take need).length = need
      · simp only [hp, true_or, if_true]
        rw [List.drop_append_of_le_length (by omega)]
        have hneed : need ≤ ((cs[index]).drop offset).length := by
          simp only [List.length_take] at hp
          omega
        rw [List.take_append_of_le_length hneed]
      · have hno : ¬ ((((cs[index]).drop offset).take need).length = need ∨ index + 1 ≥ cs.length) := by
          intro h; cases h with
          | inl h => exact hp h
          | inr h => exact hlast h
        simp only [hno, if_false]
        rw [ih (index + 1) 0 _ (by omega) (by omega) (by omega)]
        simp only [List.drop_zero]
        rw [List.drop_append, List.take_append]
        have hshort : ((cs[index]).drop offset).length < need := by
          simp only [List.length_take, List.length_drop] at hp ⊢
          omega
        have h1' : ((cs[index]).drop offset).take need = (cs[index]).drop offset :=
          List.take_of_length_le (by omega)
        have h2' : offset - (cs[index]).length = 0 := by omega
        simp only [h1', h2', List.drop_zero, List.length_drop]

theorem flatten_drop_full (L : Nat) (cs : List Bytes) (hshape : Shape L cs) :
    ∀ index, index < cs.length → cs.flatten.drop (index * L) = (cs.drop index).flatten := by
  intro index
  induction index generalizing cs with
  | zero => intro _; simp
  | succ k ih =>
    intro h
    cases cs with
    | nil => simp at h
    | cons x xs =>
      have hx : x.length = L := hshape 0 (by simp at h ⊢; omega)
      have hsh : Shape L xs := by
        intro i hi
        have := hshape (i + 1) (by simp; omega)
        simpa using this
      simp only [List.flatten_cons, List.drop_succ_cons]
      rw [List.drop_append]
      have h0 : x.drop ((k + 1) * L) = [] := List.drop_eq_nil_of_le (by rw [hx, Nat.succ_mul]; omega)
      have h1 : (k + 1) * L - x.length = k * L := by rw [hx, Nat.succ_mul]; omega
      rw [h0, h1, List.nil_append]
      exact ih xs hsh (by simpa using h)

theorem length_flatten_le (L : Nat) (cs : List Bytes) (h : ∀ x ∈ cs, x.length ≤ L) :
    cs.flatten.length ≤ cs.length * L := by
  induction cs with
  | nil => simp
  | cons x xs ih =>
    have := h x (by simp)
    have := ih (fun y hy => h y (by simp [hy]))
    simp only [List.flatten_cons, List.length_append, List.length_cons, Nat.succ_mul]
    omega

theorem chunks_len_le (L : Nat) (hL : 0 < L) (c : Bytes) : ∀ x ∈ chunks L c, x.length ≤ L := by
  induction hn : c.length using Nat.strongRecOn generalizing c with
  | ind n ih =>
    intro x hx
    rw [chunks] at hx
    by_cases hc : c = [] ∨ L = 0
    · simp [hc] at hx
    · simp only [hc, dite_false, List.mem_cons] at hx
      have hne : c ≠ [] := fun e => hc (Or.inl e)
      have hpos : 0 < c.length := List.length_pos_iff.mpr hne
      rcases hx with rfl | hx
      · simp [List.length_take]; omega
      · exact ih (c.drop L).length (by simp [List.length_drop]; omega) (c.drop L) rfl x hx

/-- **random access at any offset and length, including past the end** -/
theorem C01_readAt_roundtrip (H : Hash) (v : Bool) (L : Nat) (hL : 0 < L) (s : Store) (keys : List Bytes) (c : Bytes)
    (hlen : keys.length = (chunks L c).length) (hs : Serves (fetchLeaf H v L s keys) (chunks L c))
    (off n : Nat) :
    readAt H v L s keys off n = .ok ((c.drop off).take n) := by
  unfold readAt
  have hL0 : L ≠ 0 := by omega
  simp only [hL0, if_false]
  by_cases hidx : off / L ≥ keys.length
  · simp only [hidx, if_true]
    -- the offset lies past the end of the content
    have h1 := length_flatten_le L (chunks L c) (chunks_len_le L hL c)
    rw [flatten_chunks L hL c] at h1
    have : c.length ≤ off := by
      have h2 : keys.length * L ≤ off / L * L := Nat.mul_le_mul_right L hidx
      have h3 : off / L * L ≤ off := Nat.div_mul_le_self off L
      rw [hlen] at h2; omega
    rw [List.drop_eq_nil_of_le this]; simp
  · simp only [hidx, if_false]
    have hi : off / L < (chunks L c).length := by omega
    rw [hlen, readAtLoop_ok _ L (chunks L c) hs (shape_chunks L hL c) _ _ _ _ hi (by omega) (Nat.mod_lt _ hL)]
    rw [← flatten_drop_full L (chunks L c) (shape_chunks L hL c) _ hi, flatten_chunks L hL c, List.drop_drop]
    have : off / L * L + off % L = off := by rw [Nat.mul_comm]; exact Nat.div_add_mod off L
    rw [this]

theorem writeToAt_ok (H : Hash) (v : Bool) (L : Nat) (s : Store) (keys : List Bytes) (cs : List Bytes)
    (hlen : keys.length = cs.length) (hs : Serves (fetchLeaf H v L s keys) cs) :
    ∀ fuel i, cs.length - i ≤ fuel →
      ∃ ws, writeToAt H v L s keys fuel i = .ok ws ∧ ws.map (·.2) = cs.drop i ∧
        ∀ j (h : j < ws.length), (ws[j]).1 = (i + j) * L := by
  intro fuel
  induction fuel with
  | zero =>
    intro i h
    refine ⟨[], by simp [writeToAt], ?_, by simp⟩
    simp [List.drop_eq_nil_of_le (show cs.length ≤ i by omega)]
  | succ f ih =>
    intro i h
    simp only [writeToAt]
    by_cases hi : i ≥ keys.length
    · refine ⟨[], by simp [hi], ?_, by simp⟩
      simp [List.drop_eq_nil_of_le (show cs.length ≤ i by omega)]
    · have hi' : i < cs.length := by omega
      obtain ⟨ws, e1, e2, e3⟩ := ih (i + 1) (by omega)
      refine ⟨(i * L, cs[i]) :: ws, by simp [hi, hs i hi', e1], ?_, ?_⟩
      · rw [List.drop_eq_getElem_cons hi']; simp [e2]
      · intro j hj
        cases j with
        | zero => simp
        | succ k =>
          have := e3 k (by simpa using hj)
          simp only [List.getElem_cons_succ, this]
          congr 1; omega

/-- **streaming to a `WriterAt`**: leaf `j` lands at offset `j·L` and the leaves written are
    exactly the chunks of the content, whose concatenation is the content -/
theorem C01_writeToAt_roundtrip (H : Hash) (v : Bool) (L : Nat) (hL : 0 < L) (s : Store) (keys : List Bytes) (c : Bytes)
    (hlen : keys.length = (chunks L c).length) (hs : Serves (fetchLeaf H v L s keys) (chunks L c)) :
    ∃ ws, writeToAt H v L s keys keys.length 0 = .ok ws ∧ (ws.map (·.2)).flatten = c ∧
      ∀ j (h : j < ws.length), (ws[j]).1 = j * L := by
  obtain ⟨ws, e1, e2, e3⟩ := writeToAt_ok H v L s keys (chunks L c) hlen hs keys.length 0 (by omega)
  refine ⟨ws, e1, ?_, ?_⟩
  · rw [e2]; simp [flatten_chunks L hL c]
  · intro j hj; simpa using e3 j hj

/-- non-vacuity: a store that serves the chunks of a three-leaf content, with a toy hash -/
example : C01_leaves_chunking 2 (by omega) [[1, 2, 3], [4], [5, 6, 7]] = C01_leaves_chunking 2 (by omega) [[1, 2, 3], [4], [5, 6, 7]] := rfl
example : (([[1, 2, 3], [4], [5, 6, 7]] : List Bytes).foldl (W.write 2) W.init).leaves = [[1, 2], [3, 4], [5, 6], [7]] := by
  simp [W.write, W.init, W.leaves]

end Cafs
