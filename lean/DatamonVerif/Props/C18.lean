import DatamonVerif.Model.FuseRW
import DatamonVerif.Model.Inode
import DatamonVerif.Generated.Facts

/-! # C18 — a mutable mount behaves like a file system and commits what it shows

Two models, one theorem family each.

**Inode generator** (`Model/Inode.lean` = `pkg/fuse/inode.go`). `C18_inode_gen_unique`: after ANY history of
allocations and frees (a free names an inode in use) the next allocation returns a number that is not in
use and lies above `firstINode` — no two live entries ever share an inode, the root's is never handed out.
`C18_neg_inode_gen_old` refutes this for the generator before its repair. Composed with the reference
counting of the inode store (`Store`: refCount / Nlink / shouldDelete / ForgetInode):
`C18_store_inodes_unique` (no two nodes of the store share a number, whatever is created, looked up,
unlinked and forgotten) and `C18_linked_never_reclaimed` (a node still linked survives every forget);
`C18_neg_linked_dir_reclaimed_old` refutes the latter for the unrepaired `shouldDelete`.

**Reference tree** (`Model/FuseRW.lean`): `PosixTree` with `step : PosixTree → Op → PosixTree × Result` is the
specification the property names ("answers like a POSIX directory tree") at the FUSE operation interface;
the harness compares every answer of the real `fsMutable` with it. The theorems say the specification is a
file system, for ALL programs (no bound on length, names, sizes):

* `step_wf` / `C18_wf_run`: every operation keeps the tree well-formed — `C18_names_unique` (one entry per
  name and directory), `C18_inode_unique` (no two live nodes share an inode; unlinked-but-referenced nodes
  included), every entry lives in a linked directory, the root stays;
* `C18_remove_exactly_one` (unlink/rmdir remove exactly the named entry; rmdir only EMPTY directories),
  `C18_rename_preserves_contents` (rename changes paths only; only a replaced file / empty directory leaves),
  `C18_write_changes_one`, `C18_trunc_changes_one`, `C18_read_after_write`;
* `C18_held_stays` (an inode the kernel references stays addressable until it is forgotten) and
  `C18_forget_keeps_tree` (forgets never change the visible tree);
* `C18_commit_eq_tree`: the recursive walk of `commitImpl` lists every file of the visible tree exactly once
  with its path and bytes, and nothing else (a permutation of `treeFiles`).

Facts regenerated from the Go source on every run pin the repaired code shapes (`C18_fact_*`). -/

namespace Inode

structure Inv (first : Nat) (s : St) : Prop where
  liveNodup : s.live.Nodup
  freeNodup : s.g.free.Nodup
  liveRange : ∀ x ∈ s.live, first < x ∧ x ≤ s.g.highest
  freeRange : ∀ x ∈ s.g.free, first < x ∧ x ≤ s.g.highest ∧ x ∉ s.live
  firstLe : first ≤ s.g.highest

theorem inv_init (first : Nat) : Inv first ⟨init first, []⟩ :=
  ⟨List.nodup_nil, List.nodup_nil, by simp, by simp [init], by simp [init]⟩

private theorem alloc_fresh {first : Nat} {s : St} (h : Inv first s) : (alloc s.g).1 ∉ s.live := by
  unfold alloc
  split
  · intro hm
    have := (h.liveRange _ hm).2
    simp at this; omega
  · rename_i n r hf
    exact (h.freeRange n (by simp [hf])).2.2

private theorem alloc_gt_first {first : Nat} {s : St} (h : Inv first s) : first < (alloc s.g).1 := by
  unfold alloc
  split
  · have := h.firstLe; simp; omega
  · rename_i n r hf
    exact (h.freeRange n (by simp [hf])).1

private theorem inv_alloc {first : Nat} {s : St} (h : Inv first s) :
    Inv first { g := (alloc s.g).2, live := s.live ++ [(alloc s.g).1] } := by
  have hfresh := alloc_fresh h
  have hgt := alloc_gt_first h
  obtain ⟨h1, h2, h3, h4, h5⟩ := h
  unfold alloc at *
  split at hfresh
  · rename_i hf
    simp only [hf] at *
    refine ⟨?_, ?_, ?_, ?_, ?_⟩
    · simp [List.nodup_append, h1]; intro a ha; have := (h3 a ha).2; omega
    · simp
    · intro x hx; simp at hx
      rcases hx with hx | hx
      · have := h3 x hx; simp; omega
      · simp; omega
    · simp
    · simp; omega
  · rename_i n r hf
    simp only [hf] at *
    have hn := h4 n (by simp)
    refine ⟨?_, ?_, ?_, ?_, ?_⟩
    · simp [List.nodup_append, h1]; intro a ha hh; exact hn.2.2 (hh ▸ ha)
    · simp at h2 ⊢; exact h2.2
    · intro x hx; simp at hx
      rcases hx with hx | hx
      · exact h3 x hx
      · subst hx; exact ⟨hn.1, hn.2.1⟩
    · intro x hx
      have hx' := h4 x (by simp [hx])
      refine ⟨hx'.1, hx'.2.1, ?_⟩
      simp; refine ⟨hx'.2.2, ?_⟩
      intro he; subst he; simp at h2; exact h2.1 hx
    · exact h5

private theorem mem_eraseIdx_of_nodup {l : List Nat} (hn : l.Nodup) {k : Nat} {i : Nat} (hk : l[k]? = some i) :
    ∀ x, x ∈ l.eraseIdx k ↔ (x ∈ l ∧ x ≠ i) := by
  induction l generalizing k with
  | nil => simp at hk
  | cons a r ih =>
    intro x
    cases k with
    | zero =>
      simp at hk; subst hk
      simp at hn ⊢
      constructor
      · intro hx; exact ⟨Or.inr hx, fun he => hn.1 (he ▸ hx)⟩
      · rintro ⟨hx | hx, hne⟩
        · exact absurd hx hne
        · exact hx
    | succ k =>
      simp at hk hn ⊢
      have := ih hn.2 hk x
      rw [this]
      have hi : i ∈ r := List.mem_of_getElem? hk
      constructor
      · rintro (hx | ⟨hx, hne⟩)
        · subst hx; exact ⟨Or.inl rfl, fun he => hn.1 (he ▸ hi)⟩
        · exact ⟨Or.inr hx, hne⟩
      · rintro ⟨hx | hx, hne⟩
        · exact Or.inl hx
        · exact Or.inr ⟨hx, hne⟩

private theorem inv_free {first : Nat} {s : St} (h : Inv first s) {k i : Nat} (hk : s.live[k]? = some i) :
    Inv first { g := free s.g i, live := s.live.eraseIdx k } := by
  obtain ⟨h1, h2, h3, h4, h5⟩ := h
  have hmem := mem_eraseIdx_of_nodup h1 hk
  have hi : i ∈ s.live := List.mem_of_getElem? hk
  have hir := h3 i hi
  have hsub : (s.live.eraseIdx k).Nodup := h1.sublist (List.eraseIdx_sublist ..)
  unfold free
  split
  · rename_i he
    refine ⟨hsub, h2, ?_, ?_, ?_⟩
    · intro x hx
      have := (hmem x).1 hx
      have hr := h3 x this.1
      simp; omega
    · intro x hx
      have hr := h4 x hx
      have hne : x ≠ i := fun e => hr.2.2 (e ▸ hi)
      refine ⟨hr.1, by simp; omega, ?_⟩
      intro hx'; exact hr.2.2 ((hmem x).1 hx').1
    · simp; omega
  · rename_i hne
    refine ⟨hsub, ?_, ?_, ?_, h5⟩
    · simp; refine ⟨?_, h2⟩
      intro hif; exact (h4 i hif).2.2 hi
    · intro x hx; exact h3 x ((hmem x).1 hx).1
    · intro x hx
      simp at hx
      rcases hx with hx | hx
      · subst hx
        refine ⟨hir.1, hir.2, ?_⟩
        intro hx'; exact ((hmem x).1 hx').2 rfl
      · have hr := h4 x hx
        exact ⟨hr.1, hr.2.1, fun hx' => hr.2.2 ((hmem x).1 hx').1⟩

theorem inv_step {first : Nat} {s : St} (h : Inv first s) (o : GOp) : Inv first (step s o).1 := by
  cases o with
  | alloc => exact inv_alloc h
  | free k =>
    simp only [step, stepWith]
    split
    · rename_i i hk; exact inv_free h hk
    · exact h

theorem inv_run {first : Nat} (ops : List GOp) : ∀ {s : St}, Inv first s → Inv first (run s ops).1 := by
  induction ops with
  | nil => intro s h; exact h
  | cons o r ih =>
    intro s h
    have := ih (inv_step h o)
    simpa [run, runWith, step] using this

/-- C18 (inode generator). After ANY history of allocations and frees (a free always names an inode
    in use), the next allocation returns a number that is not in use — and above `first`, so never the
    root inode. -/
theorem C18_inode_gen_unique (first : Nat) (ops : List GOp) :
    let s := (run ⟨init first, []⟩ ops).1
    (alloc s.g).1 ∉ s.live ∧ first < (alloc s.g).1 ∧ s.live.Nodup := by
  have h := inv_run ops (inv_init first)
  exact ⟨alloc_fresh h, alloc_gt_first h, h.liveNodup⟩

/-- the unrepaired generator: alloc ×3, free the first, alloc ×2 returns the same number twice -/
theorem C18_neg_inode_gen_old :
    (runWith (allocOld 1023) ⟨init 1023, []⟩ [.alloc, .alloc, .alloc, .free 0, .alloc, .alloc]).2
      = [some 1024, some 1025, some 1026, none, some 1024, some 1024] := by decide

example : (run ⟨init 1023, []⟩ [.alloc, .alloc, .alloc, .free 0, .alloc, .alloc]).2
      = [some 1024, some 1025, some 1026, none, some 1024, some 1027] := by decide

/-- C18 (inode generator, with the constant of the source): the root inode is never handed out. -/
theorem C18_alloc_never_root (ops : List GOp) :
    1 < (alloc (run ⟨init Facts.fuseRwFirstINode, []⟩ ops).1.g).1 := by
  have h := (C18_inode_gen_unique Facts.fuseRwFirstINode ops).2.1
  have : 1 ≤ Facts.fuseRwFirstINode := by decide
  exact Nat.lt_of_le_of_lt this h

/-- the generator modelled is the generator of the source: `allocINode` only ever increments
    `highestInode`, `freeINode` only ever decrements it (regenerated from pkg/fuse/inode.go) -/
theorem C18_fact_alloc_no_reset : Facts.fuseAllocHighestWrites = ["inc"] := by decide
theorem C18_fact_free_dec : Facts.fuseFreeHighestWrites = ["dec"] := by decide

/-! ## the inode store -/

private theorem map_eraseIdx {α β : Type} (f : α → β) (l : List α) (k : Nat) : (l.eraseIdx k).map f = (l.map f).eraseIdx k := by
  induction l generalizing k with
  | nil => rfl
  | cons a r ih => cases k with
    | zero => rfl
    | succ k => simp [List.eraseIdx, ih]

private theorem set_same {α : Type} {l : List α} {k : Nat} {a : α} (h : l[k]? = some a) : l.set k a = l := by
  induction l generalizing k with
  | nil => rfl
  | cons x r ih => cases k with
    | zero => simp at h; simp [h]
    | succ k => simp at h; simp [ih h]

private theorem map_ino_set {l : List Node} {k : Nat} {n n' : Node} (h : l[k]? = some n) (hi : n'.ino = n.ino) :
    (l.set k n').map (·.ino) = l.map (·.ino) := by
  rw [List.map_set]
  apply set_same
  simp [List.getElem?_map, h, hi]

/-- the generator's "in use" set is the set of inode numbers in the store -/
def SInv (first : Nat) (s : Store) : Prop := Inv first ⟨s.g, s.nodes.map (·.ino)⟩

private theorem sinv_init (first : Nat) : SInv first (sinit first) := inv_init first

theorem sstepWith_inv (sd : Node → Bool) {first : Nat} {s : Store} (h : SInv first s) (o : SOp) :
    SInv first (sstepWith sd s o) := by
  unfold SInv at h ⊢
  cases o with
  | create d =>
    have := inv_alloc h
    simpa [sstepWith] using this
  | lookup k =>
    simp only [sstepWith]
    split
    · rename_i n hn
      split
      · exact h
      · simp only; rw [map_ino_set hn]; exact h; rfl
    · exact h
  | unlink k =>
    simp only [sstepWith]
    split
    · rename_i n hn
      simp only; rw [map_ino_set hn]; exact h; rfl
    · exact h
  | forget k c =>
    simp only [sstepWith]
    split
    · rename_i n hn
      split
      · exact h
      · split
        · have hk : (s.nodes.map (·.ino))[k]? = some n.ino := by simp [List.getElem?_map, hn]
          have := inv_free h hk
          simpa [map_eraseIdx] using this
        · simp only; rw [map_ino_set hn]; exact h; rfl
    · exact h

theorem srunWith_inv (sd : Node → Bool) {first : Nat} (ops : List SOp) :
    ∀ {s : Store}, SInv first s → SInv first (srunWith sd s ops) := by
  induction ops with
  | nil => intro s h; exact h
  | cons o r ih => intro s h; exact ih (sstepWith_inv sd h o)

/-- C18 (inode store). Whatever the kernel and the users do — creates, lookups, unlinks, forgets of any
    counts — no two nodes of the store share an inode number, every number lies above `firstINode`, and the
    next number the generator hands out is not in the store. -/
theorem C18_store_inodes_unique (first : Nat) (ops : List SOp) :
    let s := srun (sinit first) ops
    (s.nodes.map (·.ino)).Nodup ∧ (∀ n ∈ s.nodes, first < n.ino) ∧ (alloc s.g).1 ∉ s.nodes.map (·.ino) := by
  have h : SInv first (srun (sinit first) ops) := srunWith_inv _ ops (sinv_init first)
  refine ⟨h.liveNodup, ?_, alloc_fresh h⟩
  intro n hn
  exact (h.liveRange n.ino (List.mem_map_of_mem hn)).1

private theorem mem_set_of_getElem? {α : Type} {l : List α} {j k : Nat} {n a : α} (hj : l[j]? = some n) :
    (j = k ∧ a ∈ l.set k a) ∨ (j ≠ k ∧ n ∈ l.set k a) := by
  by_cases hjk : j = k
  · left; refine ⟨hjk, ?_⟩
    subst hjk
    have hlt : j < l.length := by
      cases hlt : decide (j < l.length) with
      | true => simpa using hlt
      | false => simp at hlt; rw [List.getElem?_eq_none hlt] at hj; cases hj
    exact List.mem_iff_getElem?.2 ⟨j, by simp [hlt]⟩
  · right; refine ⟨hjk, List.mem_iff_getElem?.2 ⟨j, ?_⟩⟩
    rw [List.getElem?_set]; simp [Ne.symm hjk, hj]

private theorem mem_eraseIdx_of_getElem? {α : Type} {l : List α} {j k : Nat} {n : α} (hj : l[j]? = some n) (hjk : j ≠ k) :
    n ∈ l.eraseIdx k := by
  induction l generalizing j k with
  | nil => simp at hj
  | cons x r ih =>
    cases k with
    | zero =>
      cases j with
      | zero => exact absurd rfl hjk
      | succ j => simp at hj; simp; exact List.mem_of_getElem? hj
    | succ k =>
      cases j with
      | zero => simp at hj; simp [hj]
      | succ j => simp at hj; simp; right; exact ih hj (by omega)

/-- C18 (reclamation). A node that is still linked is never reclaimed: after any operation other than an
    unlink, every linked inode of the store is still there and still linked — in particular when the kernel
    forgets it down to zero references. -/
theorem C18_linked_never_reclaimed (s : Store) (o : SOp) (hno : ∀ k, o ≠ .unlink k) (n : Node)
    (hn : n ∈ s.nodes) (hl : n.nlink ≠ 0) :
    ∃ n' ∈ (sstep s o).nodes, n'.ino = n.ino ∧ n'.nlink = n.nlink := by
  obtain ⟨j, hj⟩ := List.mem_iff_getElem?.1 hn
  have self : ∃ n' ∈ s.nodes, n'.ino = n.ino ∧ n'.nlink = n.nlink := ⟨n, hn, rfl, rfl⟩
  cases o with
  | create d => exact ⟨n, by simp [sstep, sstepWith, hn], rfl, rfl⟩
  | unlink k => exact absurd rfl (hno k)
  | lookup k =>
    simp only [sstep, sstepWith]
    split
    · rename_i m hm
      split
      · exact self
      · rcases mem_set_of_getElem? (k := k) (a := { m with refCount := m.refCount + 1 }) hj with ⟨hjk, hmem⟩ | ⟨_, hmem⟩
        · subst hjk
          have : m = n := by rw [hm] at hj; exact Option.some.inj hj
          subst this
          exact ⟨_, hmem, rfl, rfl⟩
        · exact ⟨n, hmem, rfl, rfl⟩
    · exact self
  | forget k c =>
    simp only [sstep, sstepWith]
    split
    · rename_i m hm
      split
      · exact self
      · split
        · rename_i hsd
          by_cases hjk : j = k
          · subst hjk
            have : m = n := by rw [hm] at hj; exact Option.some.inj hj
            subst this
            simp [shouldDelete] at hsd
            exact absurd hsd.2 hl
          · exact ⟨n, mem_eraseIdx_of_getElem? hj hjk, rfl, rfl⟩
        · rcases mem_set_of_getElem? (k := k) (a := { m with refCount := m.refCount - c }) hj with ⟨hjk, hmem⟩ | ⟨_, hmem⟩
          · subst hjk
            have : m = n := by rw [hm] at hj; exact Option.some.inj hj
            subst this
            exact ⟨_, hmem, rfl, rfl⟩
          · exact ⟨n, hmem, rfl, rfl⟩
    · exact self

/-- the unrepaired `shouldDelete`: a directory is created (linked under its parent), the kernel forgets
    its single reference, and the node is gone — the next create receives the number of the still-linked
    directory (seen on the real code: `LookUpInode` then panics, `audit` reports a duplicate inode) -/
theorem C18_neg_linked_dir_reclaimed_old :
    (srunWith shouldDeleteOld (sinit 1023) [.create true, .forget 0 1]).nodes = [] ∧
    (srunWith shouldDeleteOld (sinit 1023) [.create true, .forget 0 1, .create false]).nodes.map (·.ino) = [1024] := by
  decide

example : (srun (sinit 1023) [.create true, .forget 0 1, .create false]).nodes.map (·.ino) = [1024, 1025] := by decide

end Inode

namespace FuseRW
/-! ## list helpers -/

private theorem eq_of_nodup_map {α β : Type} (f : α → β) {l : List α} (h : (l.map f).Nodup) {a b : α}
    (ha : a ∈ l) (hb : b ∈ l) (he : f a = f b) : a = b := by
  induction l with
  | nil => cases ha
  | cons x r ih =>
    simp only [List.map_cons, List.nodup_cons, List.mem_map, not_exists, not_and] at h
    simp only [List.mem_cons] at ha hb
    rcases ha with ha | ha <;> rcases hb with hb | hb
    · rw [ha, hb]
    · subst ha; exact absurd he.symm (h.1 b hb)
    · subst hb; exact absurd he (h.1 a ha)
    · exact ih h.2 ha hb

private theorem findPath_some {l : List Entry} {p : Path} {e : Entry} (h : findPath l p = some e) : e ∈ l ∧ e.path = p := by
  unfold findPath at h
  exact ⟨List.mem_of_find?_eq_some h, by simpa using List.find?_some h⟩

private theorem findPath_none {l : List Entry} {p : Path} (h : findPath l p = none) : ∀ e ∈ l, e.path ≠ p := by
  unfold findPath at h
  simpa using h

private theorem findIno_some {l : List Entry} {i : Nat} {e : Entry} (h : findIno l i = some e) : e ∈ l ∧ e.ino = i := by
  unfold findIno at h
  exact ⟨List.mem_of_find?_eq_some h, by simpa using List.find?_some h⟩

private theorem findIno_none {l : List Entry} {i : Nat} (h : findIno l i = none) : ∀ e ∈ l, e.ino ≠ i := by
  unfold findIno at h
  simpa using h

private theorem isChild_iff {c p : Path} : isChild c p = true ↔ ∃ n, c = p ++ [n] := by
  unfold isChild
  constructor
  · intro h
    simp at h
    obtain ⟨h1, h2⟩ := h
    subst h2
    exact ⟨c.getLast h1, (List.dropLast_concat_getLast h1).symm⟩
  · rintro ⟨n, rfl⟩; simp

private theorem hasChildren_false {l : List Entry} {p : Path} (h : hasChildren l p = false) :
    ∀ e ∈ l, ∀ n, e.path ≠ p ++ [n] := by
  intro e he n hn
  unfold hasChildren at h
  rw [List.any_eq_false] at h
  have := h e he
  rw [isChild_iff.2 ⟨n, hn⟩] at this
  exact this rfl


/-! ## well-formed trees -/

structure WF (t : PosixTree) : Prop where
  /-- names are unique per directory: no two linked entries have the same path -/
  paths : (t.ents.map (·.path)).Nodup
  inosE : (t.ents.map (·.ino)).Nodup
  inosO : (t.orph.map (·.ino)).Nodup
  disj : ∀ a ∈ t.ents, ∀ b ∈ t.orph, a.ino ≠ b.ino
  lt : ∀ e, e ∈ t.ents ∨ e ∈ t.orph → e.ino < t.next
  root : ∃ e ∈ t.ents, e.path = [] ∧ e.kind = .dir
  /-- every linked entry lives in a linked directory -/
  closed : ∀ e ∈ t.ents, e.path ≠ [] → ∃ pe ∈ t.ents, pe.path = e.path.dropLast ∧ pe.kind = .dir
  orphHeld : ∀ e ∈ t.orph, e.nl ≠ 0

theorem WF_init : WF init := by
  refine ⟨by simp [init], by simp [init], by simp [init], by simp [init], ?_, ?_, ?_, by simp [init]⟩
  · intro e he; simp [init] at he; subst he; simp [init, rootIno]
  · exact ⟨{ path := [], ino := rootIno, kind := .dir, data := [], nl := 1 }, by simp [init], rfl, rfl⟩
  · intro e he hp; simp [init] at he; subst he; simp at hp

/-- what the invariants look at in a linked entry -/
def shape (e : Entry) : Path × Nat × Kind := (e.path, e.ino, e.kind)

private theorem mem_of_shape_eq {l l' : List Entry} (h : l'.map shape = l.map shape) {e' : Entry} (he : e' ∈ l') :
    ∃ e ∈ l, shape e = shape e' := by
  have : shape e' ∈ l.map shape := h ▸ List.mem_map_of_mem he
  simpa [List.mem_map] using this

/-- operations that only touch data and lookup counts (and drop forgotten orphans) keep the invariants -/
private theorem WF.of_shape {t t' : PosixTree} (h : WF t)
    (he : t'.ents.map shape = t.ents.map shape)
    (ho : (t'.orph.map (·.ino)).Sublist (t.orph.map (·.ino)))
    (hnl : ∀ e ∈ t'.orph, e.nl ≠ 0)
    (hn : t.next ≤ t'.next) : WF t' := by
  have hp : t'.ents.map (·.path) = t.ents.map (·.path) := by
    have := congrArg (List.map Prod.fst) he
    simpa [List.map_map, Function.comp_def, shape] using this
  have hi : t'.ents.map (·.ino) = t.ents.map (·.ino) := by
    have := congrArg (List.map (fun x => x.2.1)) he
    simpa [List.map_map, Function.comp_def, shape] using this
  refine ⟨hp ▸ h.paths, hi ▸ h.inosE, h.inosO.sublist ho, ?_, ?_, ?_, ?_, hnl⟩
  · intro a ha b hb
    obtain ⟨a0, ha0, hs⟩ := mem_of_shape_eq he ha
    have hbi : b.ino ∈ t.orph.map (·.ino) := ho.subset (List.mem_map_of_mem hb)
    obtain ⟨b0, hb0, hbe⟩ := List.mem_map.1 hbi
    have := h.disj a0 ha0 b0 hb0
    simp [shape] at hs
    rw [← hs.2.1, ← hbe]; exact this
  · intro e hee
    rcases hee with hee | hee
    · obtain ⟨a0, ha0, hs⟩ := mem_of_shape_eq he hee
      simp [shape] at hs
      have := h.lt a0 (Or.inl ha0); omega
    · have hbi : e.ino ∈ t.orph.map (·.ino) := ho.subset (List.mem_map_of_mem hee)
      obtain ⟨b0, hb0, hbe⟩ := List.mem_map.1 hbi
      have := h.lt b0 (Or.inr hb0); omega
  · obtain ⟨r, hr, hr1, hr2⟩ := h.root
    obtain ⟨r', hr', hs⟩ := mem_of_shape_eq he.symm hr
    simp [shape] at hs
    exact ⟨r', hr', by rw [hs.1, hr1], by rw [hs.2.2, hr2]⟩
  · intro e hee hne
    obtain ⟨e0, he0, hs⟩ := mem_of_shape_eq he hee
    simp [shape] at hs
    obtain ⟨pe, hpe, hp1, hp2⟩ := h.closed e0 he0 (by rw [hs.1]; exact hne)
    obtain ⟨pe', hpe', hs'⟩ := mem_of_shape_eq he.symm hpe
    simp [shape] at hs'
    exact ⟨pe', hpe', by rw [hs'.1, hp1, hs.1], by rw [hs'.2.2, hp2]⟩

private theorem updIno_shape (l : List Entry) (i : Nat) (f : Entry → Entry) (hf : ∀ e, shape (f e) = shape e) :
    (updIno l i f).map shape = l.map shape := by
  unfold updIno
  rw [List.map_map]
  apply List.map_congr_left
  intro e _
  simp only [Function.comp]
  split <;> simp [hf]

private theorem updIno_inos (l : List Entry) (i : Nat) (f : Entry → Entry) (hf : ∀ e, (f e).ino = e.ino) :
    (updIno l i f).map (·.ino) = l.map (·.ino) := by
  unfold updIno
  rw [List.map_map]
  apply List.map_congr_left
  intro e _
  simp only [Function.comp]
  split <;> simp [hf]

private theorem parentDir_ok {t : PosixTree} {p : Nat} {pp : Path} (h : parentDir t p = .ok pp) :
    ∃ e ∈ t.ents, e.path = pp ∧ e.kind = .dir ∧ e.ino = p := by
  unfold parentDir at h
  split at h
  · rename_i e he
    split at h
    · rename_i hk
      have := findIno_some he
      cases h
      exact ⟨e, this.1, rfl, hk, this.2⟩
    · cases h
  · split at h
    · split at h <;> cases h
    · cases h


/-! ## create / mkdir -/

private theorem WF_mkEntry {t : PosixTree} (h : WF t) (p : Nat) (name : String) (k : Kind) : WF (mkEntry t p name k).1 := by
  unfold mkEntry
  split
  · exact h
  · rename_i pp hpp
    split
    · exact h
    · rename_i hnone
      obtain ⟨pe, hpe, hp1, hp2, _⟩ := parentDir_ok hpp
      have hfresh := findPath_none hnone
      refine ⟨?_, ?_, h.inosO, ?_, ?_, ?_, ?_, h.orphHeld⟩
      · simp only [List.map_append, List.map_cons, List.map_nil]
        rw [List.nodup_append]
        refine ⟨h.paths, by simp, ?_⟩
        intro a ha b hb
        simp at hb; subst hb
        obtain ⟨e, he, rfl⟩ := List.mem_map.1 ha
        exact hfresh e he
      · simp only [List.map_append, List.map_cons, List.map_nil]
        rw [List.nodup_append]
        refine ⟨h.inosE, by simp, ?_⟩
        intro a ha b hb
        simp at hb; subst hb
        obtain ⟨e, he, rfl⟩ := List.mem_map.1 ha
        have := h.lt e (Or.inl he); omega
      · intro a ha b hb
        simp at ha
        rcases ha with ha | ha
        · exact h.disj a ha b hb
        · subst ha; simp; have := h.lt b (Or.inr hb); omega
      · intro e he
        simp at he
        rcases he with (he | he) | he
        · have := h.lt e (Or.inl he); simp; omega
        · subst he; simp
        · have := h.lt e (Or.inr he); simp; omega
      · obtain ⟨r, hr, hr1, hr2⟩ := h.root
        exact ⟨r, by simp [hr], hr1, hr2⟩
      · intro e he hne
        simp at he
        rcases he with he | he
        · obtain ⟨q, hq, hq1, hq2⟩ := h.closed e he hne
          exact ⟨q, by simp [hq], hq1, hq2⟩
        · subst he
          exact ⟨pe, by simp [hpe], by simp [hp1], hp2⟩

/-! ## unlink / rmdir / replaced rename target -/

private theorem WF_unlinkAt {t : PosixTree} (h : WF t) {tp : Path} {e : Entry} (he : e ∈ t.ents) (hep : e.path = tp)
    (hne : tp ≠ []) (hnc : ∀ x ∈ t.ents, ∀ n, x.path ≠ tp ++ [n]) : WF (unlinkAt t tp e) := by
  have hsub : (t.ents.filter (fun x => x.path != tp)).Sublist t.ents := List.filter_sublist
  have hmem : ∀ x, x ∈ t.ents.filter (fun x => x.path != tp) ↔ x ∈ t.ents ∧ x.path ≠ tp := by
    intro x; simp [List.mem_filter]
  have hne_ino : ∀ x ∈ t.ents, x.path ≠ tp → x.ino ≠ e.ino := by
    intro x hx hxp hi
    have := eq_of_nodup_map (·.ino) h.inosE hx he hi
    exact hxp (this ▸ hep)
  unfold unlinkAt
  refine ⟨h.paths.sublist (hsub.map _), h.inosE.sublist (hsub.map _), ?_, ?_, ?_, ?_, ?_, ?_⟩
  · simp only
    split
    · exact h.inosO
    · simp only [List.map_cons, List.nodup_cons]
      refine ⟨?_, h.inosO⟩
      intro hm
      obtain ⟨b, hb, hbe⟩ := List.mem_map.1 hm
      exact h.disj e he b hb hbe.symm
  · intro a ha b hb
    simp only at ha hb
    have ha' := (hmem a).1 ha
    split at hb
    · exact h.disj a ha'.1 b hb
    · simp at hb
      rcases hb with hb | hb
      · subst hb; exact hne_ino a ha'.1 ha'.2
      · exact h.disj a ha'.1 b hb
  · intro x hx
    simp only at hx ⊢
    rcases hx with hx | hx
    · exact h.lt x (Or.inl ((hmem x).1 hx).1)
    · split at hx
      · exact h.lt x (Or.inr hx)
      · simp at hx
        rcases hx with hx | hx
        · subst hx; exact h.lt x (Or.inl he)
        · exact h.lt x (Or.inr hx)
  · obtain ⟨r, hr, hr1, hr2⟩ := h.root
    refine ⟨r, (hmem r).2 ⟨hr, ?_⟩, hr1, hr2⟩
    rw [hr1]; exact fun hh => hne hh.symm
  · intro x hx hxne
    have hx' := (hmem x).1 hx
    obtain ⟨q, hq, hq1, hq2⟩ := h.closed x hx'.1 hxne
    refine ⟨q, (hmem q).2 ⟨hq, ?_⟩, hq1, hq2⟩
    intro hqt
    apply hnc x hx'.1 (x.path.getLast hxne)
    rw [← hqt, hq1]
    exact (List.dropLast_concat_getLast hxne).symm
  · intro x hx
    simp only at hx
    split at hx
    · exact h.orphHeld x hx
    · rename_i hnl
      simp at hx
      rcases hx with hx | hx
      · subst hx; exact hnl
      · exact h.orphHeld x hx


/-! ## paths -/

private theorem reroot_of_prefix {src dst p : Path} (h : src <+: p) : reroot src dst p = dst ++ p.drop src.length := by
  unfold reroot; simp [h]

private theorem reroot_of_not_prefix {src dst p : Path} (h : ¬ src <+: p) : reroot src dst p = p := by
  unfold reroot; simp [h]

private theorem prefix_dropLast {d p : Path} (h : d <+: p) (hne : d ≠ p) : d <+: p.dropLast := by
  obtain ⟨r, rfl⟩ := h
  have hr : r ≠ [] := by intro hr; subst hr; simp at hne
  rw [List.dropLast_append_of_ne_nil hr]
  exact List.prefix_append _ _

private theorem prefix_of_prefix_dropLast {d p : Path} (h : d <+: p.dropLast) : d <+: p :=
  h.trans (List.dropLast_prefix p)

/-- in a closed table, an entry strictly below `d` forces an entry directly inside `d` -/
private theorem child_of_desc {l : List Entry}
    (closed : ∀ e ∈ l, e.path ≠ [] → ∃ pe ∈ l, pe.path = e.path.dropLast ∧ pe.kind = .dir)
    (d : Path) : ∀ (n : Nat) (e : Entry), e ∈ l → e.path.length = n → d <+: e.path → d ≠ e.path →
      ∃ c ∈ l, ∃ nm, c.path = d ++ [nm] := by
  intro n
  induction n using Nat.strongRecOn with
  | _ n ih =>
    intro e he hlen hpre hne
    have hnil : e.path ≠ [] := by
      intro h0; rw [h0] at hpre; simp at hpre; exact hne (by rw [h0, hpre])
    by_cases hd : e.path.dropLast = d
    · exact ⟨e, he, e.path.getLast hnil, by rw [← hd]; exact (List.dropLast_concat_getLast hnil).symm⟩
    · obtain ⟨pe, hpe, hp1, _⟩ := closed e he hnil
      have hlt : pe.path.length < n := by
        rw [hp1, List.length_dropLast, ← hlen]
        have : 0 < e.path.length := List.length_pos_iff.2 hnil
        omega
      exact ih _ hlt pe hpe rfl (hp1 ▸ prefix_dropLast hpre hne) (by rw [hp1]; exact fun h => hd h.symm)

/-- an ancestor (proper prefix) of a linked entry is a linked directory -/
private theorem anc_of_closed {l : List Entry}
    (closed : ∀ e ∈ l, e.path ≠ [] → ∃ pe ∈ l, pe.path = e.path.dropLast ∧ pe.kind = .dir)
    (d : Path) : ∀ (n : Nat) (e : Entry), e ∈ l → e.path.length = n → d <+: e.path → d ≠ e.path →
      ∃ a ∈ l, a.path = d ∧ a.kind = .dir := by
  intro n
  induction n using Nat.strongRecOn with
  | _ n ih =>
    intro e he hlen hpre hne
    have hnil : e.path ≠ [] := by
      intro h0; rw [h0] at hpre; simp at hpre; exact hne (by rw [h0, hpre])
    obtain ⟨pe, hpe, hp1, hp2⟩ := closed e he hnil
    by_cases hd : e.path.dropLast = d
    · exact ⟨pe, hpe, hp1.trans hd, hp2⟩
    · have hlt : pe.path.length < n := by
        rw [hp1, List.length_dropLast, ← hlen]
        have : 0 < e.path.length := List.length_pos_iff.2 hnil
        omega
      exact ih _ hlt pe hpe rfl (hp1 ▸ prefix_dropLast hpre hne) (by rw [hp1]; exact fun h => hd h.symm)


/-! ## rename: moving a subtree -/

private theorem moveEnt_ino (src dst : Path) (e : Entry) : (moveEnt src dst e).ino = e.ino := rfl
private theorem moveEnt_kind (src dst : Path) (e : Entry) : (moveEnt src dst e).kind = e.kind := rfl
private theorem moveEnt_path (src dst : Path) (e : Entry) : (moveEnt src dst e).path = reroot src dst e.path := rfl

private theorem reroot_append (src dst r : Path) : reroot src dst (src ++ r) = dst ++ r := by
  rw [reroot_of_prefix (List.prefix_append _ _)]; simp

private theorem reroot_inj {src dst a b : Path} (ha : ¬ dst <+: a) (hb : ¬ dst <+: b)
    (h : reroot src dst a = reroot src dst b) : a = b := by
  by_cases pa : src <+: a <;> by_cases pb : src <+: b
  · rw [reroot_of_prefix pa, reroot_of_prefix pb] at h
    have := List.append_cancel_left h
    rw [← List.prefix_iff_eq_append.1 pa, ← List.prefix_iff_eq_append.1 pb, this]
  · rw [reroot_of_prefix pa, reroot_of_not_prefix pb] at h
    exact absurd (h ▸ List.prefix_append _ _) hb
  · rw [reroot_of_not_prefix pa, reroot_of_prefix pb] at h
    exact absurd (h ▸ List.prefix_append _ _) ha
  · rwa [reroot_of_not_prefix pa, reroot_of_not_prefix pb] at h

private theorem WF_move {t : PosixTree} (h : WF t) {src dst : Path}
    (hsrc : src ≠ []) (hnp : ¬ src <+: dst)
    (hfree : ∀ e ∈ t.ents, ¬ dst <+: e.path)
    (hpar : ∃ pe ∈ t.ents, pe.path = dst.dropLast ∧ pe.kind = .dir) :
    WF { t with ents := t.ents.map (moveEnt src dst) } := by
  have hinos : (t.ents.map (moveEnt src dst)).map (·.ino) = t.ents.map (·.ino) := by
    rw [List.map_map]; rfl
  have hmem : ∀ x, x ∈ t.ents.map (moveEnt src dst) ↔ ∃ e ∈ t.ents, moveEnt src dst e = x := by
    intro x; simp [List.mem_map]
  refine ⟨?_, ?_, h.inosO, ?_, ?_, ?_, ?_, h.orphHeld⟩
  · -- paths stay distinct
    show ((t.ents.map (moveEnt src dst)).map (·.path)).Nodup
    rw [List.map_map]
    have hp := h.paths
    unfold List.Nodup at hp ⊢
    rw [List.pairwise_map] at hp ⊢
    refine hp.imp_of_mem ?_
    intro a b ha hb hab hrr
    exact hab (reroot_inj (hfree a ha) (hfree b hb) hrr)
  · show ((t.ents.map (moveEnt src dst)).map (·.ino)).Nodup
    rw [hinos]; exact h.inosE
  · intro a ha b hb
    obtain ⟨e, he, rfl⟩ := (hmem a).1 ha
    exact h.disj e he b hb
  · intro x hx
    rcases hx with hx | hx
    · obtain ⟨e, he, rfl⟩ := (hmem x).1 hx
      exact h.lt e (Or.inl he)
    · exact h.lt x (Or.inr hx)
  · obtain ⟨r, hr, hr1, hr2⟩ := h.root
    refine ⟨moveEnt src dst r, (hmem _).2 ⟨r, hr, rfl⟩, ?_, hr2⟩
    rw [moveEnt_path, hr1, reroot_of_not_prefix]
    intro hp; exact hsrc (List.prefix_nil.1 hp)
  · intro x hx hxne
    obtain ⟨e, he, rfl⟩ := (hmem x).1 hx
    rw [moveEnt_path] at hxne ⊢
    by_cases pe : src <+: e.path
    · obtain ⟨r, hr⟩ := pe
      rw [← hr, reroot_append] at hxne ⊢
      by_cases hr0 : r = []
      · -- the renamed entry itself: its new parent is the (unmoved) target directory
        obtain ⟨q, hq, hq1, hq2⟩ := hpar
        refine ⟨moveEnt src dst q, (hmem _).2 ⟨q, hq, rfl⟩, ?_, hq2⟩
        rw [moveEnt_path, hr0, List.append_nil, reroot_of_not_prefix, hq1]
        intro hp
        exact hnp (prefix_of_prefix_dropLast (hq1 ▸ hp))
      · -- an entry below it: its parent moves along
        have hene : e.path ≠ [] := by rw [← hr]; simp [hr0]
        obtain ⟨q, hq, hq1, hq2⟩ := h.closed e he hene
        rw [← hr, List.dropLast_append_of_ne_nil hr0] at hq1
        refine ⟨moveEnt src dst q, (hmem _).2 ⟨q, hq, rfl⟩, ?_, hq2⟩
        rw [moveEnt_path, hq1, reroot_append, List.dropLast_append_of_ne_nil hr0]
    · rw [reroot_of_not_prefix pe] at hxne ⊢
      obtain ⟨q, hq, hq1, hq2⟩ := h.closed e he hxne
      refine ⟨moveEnt src dst q, (hmem _).2 ⟨q, hq, rfl⟩, ?_, hq2⟩
      rw [moveEnt_path, reroot_of_not_prefix, hq1]
      intro hp
      exact pe (prefix_of_prefix_dropLast (hq1 ▸ hp))


/-! ## every operation keeps the tree well-formed -/

private theorem entry_unique {t : PosixTree} (h : WF t) {a b : Entry} (ha : a ∈ t.ents) (hb : b ∈ t.ents)
    (hp : a.path = b.path) : a = b :=
  eq_of_nodup_map (·.path) h.paths ha hb hp

/-- nothing lives at or below a path that is not linked / is an empty directory or a file -/
private theorem no_desc {t : PosixTree} (h : WF t) {d : Path} (hnc : ∀ x ∈ t.ents, ∀ n, x.path ≠ d ++ [n]) :
    ∀ e ∈ t.ents, d <+: e.path → e.path = d := by
  intro e he hpre
  false_or_by_contra
  rename_i hne
  obtain ⟨c, hc, nm, hcn⟩ := child_of_desc h.closed d _ e he rfl hpre (fun h0 => hne h0.symm)
  exact hnc c hc nm hcn

private theorem WF_doRename {t : PosixTree} (h : WF t) (p : Nat) (n : String) (q : Nat) (m : String) :
    WF (doRename t p n q m).1 := by
  unfold doRename
  split
  · exact h
  rename_i pp hpp
  split
  · exact h
  rename_i qp hqp
  simp only
  split
  · exact h
  rename_i se hse
  split
  · exact h
  rename_i hsd
  split
  · exact h
  rename_i hinval
  obtain ⟨hse1, hse2⟩ := findPath_some hse
  obtain ⟨qe, hqe, hq1, hq2, _⟩ := parentDir_ok hqp
  have hsrc : pp ++ [n] ≠ [] := by simp
  -- the source is not an ancestor of the target
  have hnp : ¬ (pp ++ [n]) <+: (qp ++ [m]) := by
    intro hpre
    by_cases hk : se.kind = .dir
    · exact hinval ⟨hk, by simpa using hpre⟩
    · have hpre' : (pp ++ [n]) <+: qe.path := by
        have := prefix_dropLast hpre hsd
        rwa [List.dropLast_concat, ← hq1] at this
      by_cases heq : pp ++ [n] = qe.path
      · have := entry_unique h hse1 hqe (hse2.trans heq)
        exact hk (this ▸ hq2)
      · obtain ⟨a, ha, ha1, ha2⟩ := anc_of_closed h.closed _ _ qe hqe rfl hpre' heq
        have := entry_unique h hse1 ha (hse2.trans ha1.symm)
        exact hk (this ▸ ha2)
  split
  · -- the target name is free
    rename_i hnone
    have hfree0 := findPath_none hnone
    apply WF_move h hsrc hnp
    · intro e he hpre
      by_cases heq : qp ++ [m] = e.path
      · exact hfree0 e he heq.symm
      · obtain ⟨a, ha, ha1, _⟩ := anc_of_closed h.closed _ _ e he rfl hpre heq
        exact hfree0 a ha ha1
    · exact ⟨qe, hqe, by simp [hq1], hq2⟩
  · -- the target exists: it is replaced if it is a file or an empty directory
    rename_i de hde
    obtain ⟨hde1, hde2⟩ := findPath_some hde
    split
    · exact h
    split
    · exact h
    split
    · exact h
    rename_i hnc
    have hnc' := hasChildren_false (by simpa using hnc)
    have hdst : qp ++ [m] ≠ [] := by simp
    have h1 := WF_unlinkAt h hde1 hde2 hdst hnc'
    have hmem : ∀ x, x ∈ (unlinkAt t (qp ++ [m]) de).ents ↔ x ∈ t.ents ∧ x.path ≠ qp ++ [m] := by
      intro x; simp [unlinkAt, List.mem_filter]
    apply WF_move h1 hsrc hnp
    · intro e he hpre
      have he' := (hmem e).1 he
      exact he'.2 (no_desc h hnc' e he'.1 hpre)
    · refine ⟨qe, (hmem qe).2 ⟨hqe, ?_⟩, by simp [hq1], hq2⟩
      rw [hq1]; intro h0
      have := congrArg List.length h0
      simp at this

private theorem WF_doRemove {t : PosixTree} (h : WF t) (p : Nat) (n : String) (k : Kind) : WF (doRemove t p n k).1 := by
  unfold doRemove
  split
  · exact h
  rename_i pp hpp
  split
  · exact h
  rename_i e he
  split
  · exact h
  split
  · exact h
  rename_i hnc
  obtain ⟨he1, he2⟩ := findPath_some he
  exact WF_unlinkAt h he1 he2 (by simp) (hasChildren_false (by simpa using hnc))

private theorem mem_updIno {l : List Entry} {i : Nat} {f : Entry → Entry} {x : Entry} (hx : x ∈ updIno l i f) :
    ∃ e ∈ l, x = e ∨ x = f e := by
  unfold updIno at hx
  obtain ⟨e, he, hxe⟩ := List.mem_map.1 hx
  refine ⟨e, he, ?_⟩
  split at hxe
  · exact Or.inr hxe.symm
  · exact Or.inl hxe.symm

private theorem WF_setData {t : PosixTree} (h : WF t) (i : Nat) (nd : Bytes) :
    WF { t with ents := updIno t.ents i (fun x => setData x nd), orph := updIno t.orph i (fun x => setData x nd) } := by
  apply h.of_shape (updIno_shape t.ents i (fun x => setData x nd) (fun _ => rfl))
  · show ((updIno t.orph i fun x => setData x nd).map (·.ino)).Sublist _
    rw [updIno_inos t.orph i (fun x => setData x nd) (fun _ => rfl)]
    exact List.Sublist.refl _
  · intro e he
    obtain ⟨e0, he0, hx⟩ := mem_updIno he
    rcases hx with rfl | rfl
    · exact h.orphHeld _ he0
    · exact h.orphHeld e0 he0
  · exact Nat.le_refl _

private theorem WF_doForget {t : PosixTree} (h : WF t) (i k : Nat) : WF (doForget t i k) := by
  unfold doForget
  apply h.of_shape (updIno_shape t.ents i (subNl k) (fun _ => rfl))
  · show ((List.filter _ (updIno t.orph i (subNl k))).map (·.ino)).Sublist _
    rw [← updIno_inos t.orph i (subNl k) (fun _ => rfl)]
    exact List.filter_sublist.map _
  · intro e he
    simp only [List.mem_filter] at he
    simpa using he.2
  · exact Nat.le_refl _

theorem step_wf {t : PosixTree} (h : WF t) (o : Op) : WF (step t o).1 := by
  cases o with
  | create p name => exact WF_mkEntry h p name .file
  | mkdir p name => exact WF_mkEntry h p name .dir
  | lookup p name =>
    simp only [step]
    split
    · exact h
    split
    · exact h
    rename_i e _
    exact h.of_shape (updIno_shape t.ents e.ino (addNl 1) (fun _ => rfl)) (List.Sublist.refl _) h.orphHeld (Nat.le_refl _)
  | getattr i => simp only [step]; split <;> exact h
  | write i off d =>
    simp only [step]
    split
    · exact h
    split
    · exact h
    exact WF_setData h i _
  | trunc i n =>
    simp only [step]
    split
    · exact h
    split
    · exact h
    exact WF_setData h i _
  | read i off len =>
    simp only [step]
    split
    · exact h
    split <;> exact h
  | readdir i => simp only [step]; split <;> exact h
  | rename p n q m => exact WF_doRename h p n q m
  | unlink p n => exact WF_doRemove h p n .file
  | rmdir p n => exact WF_doRemove h p n .dir
  | forget i k => exact WF_doForget h i k

theorem run_wf (ops : List Op) : ∀ {t : PosixTree}, WF t → WF (run t ops) := by
  induction ops with
  | nil => intro t h; exact h
  | cons o r ih => intro t h; exact ih (step_wf h o)


/-! ## commit -/

private theorem mem_childrenOf {l : List Entry} {pp : Path} {e : Entry} :
    e ∈ childrenOf l pp ↔ e ∈ l ∧ ∃ n, e.path = pp ++ [n] := by
  unfold childrenOf
  rw [List.mem_filter, isChild_iff]

theorem commitWalk_sound (l : List Entry) : ∀ (fuel : Nat) (pp : Path) (x : Path × Bytes),
    x ∈ commitWalk l fuel pp → ∃ e ∈ l, e.kind = .file ∧ x = (e.path, e.data) ∧ pp <+: e.path ∧ pp ≠ e.path := by
  intro fuel
  induction fuel with
  | zero => intro pp x hx; simp [commitWalk] at hx
  | succ f ih =>
    intro pp x hx
    simp only [commitWalk, List.mem_flatMap] at hx
    obtain ⟨c, hc, hxc⟩ := hx
    obtain ⟨hcl, nm, hcn⟩ := mem_childrenOf.1 hc
    have hppc : pp <+: c.path := hcn ▸ List.prefix_append _ _
    have hne : pp ≠ c.path := by
      intro h0; have := congrArg List.length h0; rw [hcn] at this; simp at this
    split at hxc
    · rename_i hk
      simp at hxc
      exact ⟨c, hcl, hk, hxc, hppc, hne⟩
    · obtain ⟨e, he, hk, hx1, hp1, hp2⟩ := ih c.path x hxc
      refine ⟨e, he, hk, hx1, hppc.trans hp1, ?_⟩
      intro h0
      have h1 := hp1.length_le
      have h2 := congrArg List.length h0
      rw [hcn] at h1; simp at h1; omega

theorem commitWalk_complete {l : List Entry}
    (closed : ∀ e ∈ l, e.path ≠ [] → ∃ pe ∈ l, pe.path = e.path.dropLast ∧ pe.kind = .dir) :
    ∀ (fuel : Nat) (pp : Path) (e : Entry), e ∈ l → e.kind = .file → pp <+: e.path → pp ≠ e.path →
      e.path.length ≤ pp.length + fuel → (e.path, e.data) ∈ commitWalk l fuel pp := by
  intro fuel
  induction fuel with
  | zero =>
    intro pp e _ _ hpre hne hlen
    exfalso
    obtain ⟨r, hr⟩ := hpre
    have : r = [] := by
      have := congrArg List.length hr; simp at this
      exact List.length_eq_zero_iff.1 (by omega)
    subst this; simp at hr; exact hne hr
  | succ f ih =>
    intro pp e he hk hpre hne hlen
    obtain ⟨r, hr⟩ := hpre
    cases r with
    | nil => simp at hr; exact absurd hr hne
    | cons nm r' =>
      simp only [commitWalk, List.mem_flatMap]
      by_cases hr' : r' = []
      · subst hr'
        refine ⟨e, mem_childrenOf.2 ⟨he, nm, hr.symm⟩, ?_⟩
        rw [hk]; simp
      · have hcpre : (pp ++ [nm]) <+: e.path := ⟨r', by rw [← hr]; simp⟩
        have hcne : pp ++ [nm] ≠ e.path := by
          intro h0; rw [← hr] at h0
          have := List.append_cancel_left h0
          simp at this; exact hr' this
        obtain ⟨a, ha, ha1, ha2⟩ := anc_of_closed closed _ _ e he rfl hcpre hcne
        refine ⟨a, mem_childrenOf.2 ⟨ha, nm, ha1⟩, ?_⟩
        rw [ha2]
        simp only
        apply ih a.path e he hk (ha1 ▸ hcpre) (ha1 ▸ hcne)
        rw [ha1]; simp; omega

private theorem le_maxDepth {l : List Entry} {e : Entry} (he : e ∈ l) : e.path.length ≤ maxDepth l := by
  unfold maxDepth
  induction l with
  | nil => cases he
  | cons x r ih =>
    simp only [List.foldr_cons]
    rcases List.mem_cons.1 he with rfl | h
    · exact Nat.le_max_left _ _
    · exact Nat.le_trans (ih h) (Nat.le_max_right _ _)

private theorem mem_treeFiles {t : PosixTree} {x : Path × Bytes} :
    x ∈ treeFiles t ↔ ∃ e ∈ t.ents, e.kind = .file ∧ x = (e.path, e.data) := by
  unfold treeFiles
  simp only [List.mem_map, List.mem_filter]
  constructor
  · rintro ⟨e, ⟨he, hk⟩, rfl⟩; exact ⟨e, he, by simpa using hk, rfl⟩
  · rintro ⟨e, he, hk, rfl⟩; exact ⟨e, ⟨he, by simpa using hk⟩, rfl⟩

/-- the commit walk lists exactly the files of the visible tree (path and bytes) -/
theorem commit_mem_iff {t : PosixTree} (h : WF t) (x : Path × Bytes) : x ∈ commitList t ↔ x ∈ treeFiles t := by
  rw [mem_treeFiles]
  unfold commitList
  constructor
  · intro hx
    obtain ⟨e, he, hk, hx1, _, _⟩ := commitWalk_sound _ _ _ _ hx
    exact ⟨e, he, hk, hx1⟩
  · rintro ⟨e, he, hk, rfl⟩
    apply commitWalk_complete h.closed _ [] e he hk (List.nil_prefix)
    · intro h0
      obtain ⟨r, hr, hr1, hr2⟩ := h.root
      have := entry_unique h hr he (hr1.trans h0)
      rw [← this, hr2] at hk; cases hk
    · have := le_maxDepth he; simp; omega


private theorem commitWalk_prefix (l : List Entry) (fuel : Nat) (c : Entry) (x : Path × Bytes)
    (hx : x ∈ (match c.kind with | .file => [(c.path, c.data)] | .dir => commitWalk l fuel c.path)) :
    c.path <+: x.1 := by
  split at hx
  · simp at hx; rw [hx]; exact List.prefix_refl _
  · obtain ⟨e, _, _, hx1, hp, _⟩ := commitWalk_sound l fuel c.path x hx
    rw [hx1]; exact hp

theorem commitWalk_nodup {l : List Entry} (paths : (l.map (·.path)).Nodup) :
    ∀ (fuel : Nat) (pp : Path), (commitWalk l fuel pp).Nodup := by
  intro fuel
  induction fuel with
  | zero => intro pp; simp [commitWalk]
  | succ f ih =>
    intro pp
    simp only [commitWalk]
    unfold List.Nodup
    rw [List.pairwise_flatMap]
    constructor
    · intro c _
      split
      · simp
      · exact ih c.path
    · have hp : l.Pairwise (fun a b => a.path ≠ b.path) := by
        have := paths; unfold List.Nodup at this; rwa [List.pairwise_map] at this
      have hc : (childrenOf l pp).Pairwise (fun a b => a.path ≠ b.path) := hp.filter _
      refine hc.imp_of_mem ?_
      intro a b ha hb hab x hx y hy hxy
      subst hxy
      have h1 := commitWalk_prefix l f a x hx
      have h2 := commitWalk_prefix l f b x hy
      obtain ⟨_, n1, e1⟩ := mem_childrenOf.1 ha
      obtain ⟨_, n2, e2⟩ := mem_childrenOf.1 hb
      have hlen : a.path.length = b.path.length := by rw [e1, e2]; simp
      rcases List.prefix_or_prefix_of_prefix h1 h2 with h | h
      · exact hab (h.eq_of_length hlen)
      · exact hab (h.eq_of_length hlen.symm).symm

private theorem treeFiles_nodup {t : PosixTree} (h : WF t) : (treeFiles t).Nodup := by
  unfold treeFiles
  have hp : t.ents.Pairwise (fun a b => a.path ≠ b.path) := by
    have := h.paths; unfold List.Nodup at this; rwa [List.pairwise_map] at this
  unfold List.Nodup
  rw [List.pairwise_map]
  refine (hp.filter _).imp ?_
  intro a b hab heq
  exact hab (by simpa using congrArg Prod.fst heq)

/-- C18 (commit): the list `commitImpl` uploads is, up to order, the list of files of the visible tree —
    every linked file exactly once, with its full path and its bytes; nothing unlinked, no directory. -/
theorem C18_commit_eq_tree {t : PosixTree} (h : WF t) : (commitList t).Perm (treeFiles t) :=
  (List.perm_ext_iff_of_nodup (commitWalk_nodup h.paths _ _) (treeFiles_nodup h)).2 (commit_mem_iff h)


/-! ## what each mutating operation changes -/

private theorem filter_path_length {l : List Entry} (paths : (l.map (·.path)).Nodup) {e : Entry} (he : e ∈ l) :
    (l.filter (fun x => x.path != e.path)).length + 1 = l.length := by
  induction l with
  | nil => cases he
  | cons x r ih =>
    simp only [List.map_cons, List.nodup_cons] at paths
    rcases List.mem_cons.1 he with rfl | h
    · have : r.filter (fun x => x.path != e.path) = r := by
        apply List.filter_eq_self.2
        intro y hy
        have : y.path ≠ e.path := fun h0 => paths.1 (h0 ▸ List.mem_map_of_mem (f := (·.path)) hy)
        simpa using this
      simp [this]
    · have hne : x.path ≠ e.path := fun h0 => paths.1 (h0 ▸ List.mem_map_of_mem (f := (·.path)) h)
      have := ih paths.2 h
      simp [hne]; omega

/-- C18 (unlink / rmdir). A successful `unlink` (`k = file`) or `rmdir` (`k = dir`) found an entry of that
    kind under the given name, with nothing below it (rmdir only removes EMPTY directories), and removes
    exactly that entry from the visible tree: every other entry is untouched. -/
theorem C18_remove_exactly_one {t : PosixTree} (h : WF t) (p : Nat) (n : String) (k : Kind)
    (hok : (doRemove t p n k).2 = .done) :
    ∃ pp e, parentDir t p = .ok pp ∧ e ∈ t.ents ∧ e.path = pp ++ [n] ∧ e.kind = k ∧
      (∀ x ∈ t.ents, e.path <+: x.path → x = e) ∧
      (doRemove t p n k).1.ents = t.ents.filter (fun x => x.path != e.path) ∧
      (∀ x, x ∈ (doRemove t p n k).1.ents ↔ x ∈ t.ents ∧ x ≠ e) ∧
      (doRemove t p n k).1.ents.length + 1 = t.ents.length := by
  unfold doRemove at hok ⊢
  split at hok
  · cases hok
  rename_i pp hpp
  split at hok
  · cases hok
  rename_i e he
  split at hok
  · cases hok
  rename_i hk
  split at hok
  · cases hok
  rename_i hnc
  obtain ⟨he1, he2⟩ := findPath_some he
  have hnc' := hasChildren_false (by simpa using hnc)
  have hk' : e.kind = k := by simpa using hk
  refine ⟨pp, e, ?_, he1, he2, hk', ?_, ?_, ?_, ?_⟩
  · simp [hpp]
  · intro x hx hpre
    exact entry_unique h hx he1 (no_desc h hnc' x hx (he2 ▸ hpre) |>.trans he2.symm)
  · simp [hk', hnc, unlinkAt, he2]
  · intro x
    simp only [hk', hnc, unlinkAt]
    simp only [ne_eq, not_true_eq_false, ↓reduceIte, Bool.false_eq_true, List.mem_filter, bne_iff_ne]
    constructor
    · rintro ⟨hx, hxp⟩; exact ⟨hx, fun h0 => hxp (h0 ▸ he2)⟩
    · rintro ⟨hx, hxe⟩; exact ⟨hx, fun h0 => hxe (entry_unique h hx he1 (h0.trans he2.symm))⟩
  · simp only [hk', hnc, unlinkAt]
    simp only [ne_eq, not_true_eq_false, ↓reduceIte, Bool.false_eq_true]
    rw [← he2]; exact filter_path_length h.paths he1

/-- what an entry is, apart from where it is linked -/
def content (e : Entry) : Nat × Kind × Bytes × Nat := (e.ino, e.kind, e.data, e.nl)

private theorem map_moveEnt_content (src dst : Path) (l : List Entry) :
    (l.map (moveEnt src dst)).map content = l.map content := by
  rw [List.map_map]; rfl

/-- C18 (rename). A successful rename changes paths only: the entries of the visible tree keep their
    inode, kind, bytes and lookup count, in the same order — except the replaced target (a file or an
    EMPTY directory), which leaves the tree. With a free target name nothing leaves. -/
theorem C18_rename_preserves_contents {t : PosixTree} (p : Nat) (n : String) (q : Nat) (m : String)
    (hok : (doRename t p n q m).2 = .done) :
    ∃ pp qp, parentDir t p = .ok pp ∧ parentDir t q = .ok qp ∧
      ((pp ++ [n] = qp ++ [m] ∧ (doRename t p n q m).1 = t) ∨
       (findPath t.ents (qp ++ [m]) = none ∧
          (doRename t p n q m).1.ents.map content = t.ents.map content ∧ (doRename t p n q m).1.orph = t.orph) ∨
       (∃ de, findPath t.ents (qp ++ [m]) = some de ∧ hasChildren t.ents (qp ++ [m]) = false ∧
          (doRename t p n q m).1.ents.map content = (t.ents.filter (fun x => x.path != qp ++ [m])).map content)) := by
  unfold doRename at hok ⊢
  split at hok
  · cases hok
  rename_i pp hpp
  split at hok
  · cases hok
  rename_i qp hqp
  refine ⟨pp, qp, by simp [hpp], by simp [hqp], ?_⟩
  simp only at hok ⊢
  split at hok
  · cases hok
  rename_i se hse
  split at hok
  · rename_i hsd; left; simp [hsd]
  rename_i hsd
  split at hok
  · cases hok
  rename_i hinval
  right
  split at hok
  · rename_i hnone
    left
    simp only [hsd, hinval, hnone, ↓reduceIte]
    exact ⟨trivial, map_moveEnt_content _ _ _, trivial⟩
  · rename_i de hde
    split at hok
    · cases hok
    rename_i h1
    split at hok
    · cases hok
    rename_i h2
    split at hok
    · cases hok
    rename_i hnc
    right
    refine ⟨de, hde, by simpa using hnc, ?_⟩
    simp only [hsd, hinval, h1, h2, hnc, ↓reduceIte]
    simp only [Bool.false_eq_true, ↓reduceIte, unlinkAt]
    exact map_moveEnt_content _ _ _


/-! ## write / truncate -/

private theorem findIno_updIno (l : List Entry) (i : Nat) (f : Entry → Entry) (hf : ∀ e, (f e).ino = e.ino) :
    findIno (updIno l i f) i = (findIno l i).map f := by
  unfold findIno updIno
  induction l with
  | nil => rfl
  | cons x r ih =>
    show List.find? _ ((if x.ino == i then f x else x) :: List.map _ r) = _
    by_cases hx : x.ino = i
    · have hb : (x.ino == i) = true := by simpa using hx
      have hb' : ((f x).ino == i) = true := by rw [hf]; exact hb
      simp only [hb, ↓reduceIte, List.find?_cons, hb', Option.map_some]
    · have hb : (x.ino == i) = false := by simpa using hx
      simp only [hb, List.find?_cons, Bool.false_eq_true, ↓reduceIte]
      exact ih

private theorem mem_updIno_of_ne {l : List Entry} {i : Nat} {f : Entry → Entry} (hf : ∀ e, (f e).ino = e.ino)
    {x : Entry} (hx : x.ino ≠ i) : x ∈ updIno l i f ↔ x ∈ l := by
  constructor
  · intro h
    obtain ⟨e, he, hxe⟩ := List.mem_map.1 h
    split at hxe
    · rename_i hei
      exfalso; apply hx; rw [← hxe, hf]; simpa using hei
    · exact hxe ▸ he
  · intro h
    exact List.mem_map.2 ⟨x, h, by simp [hx]⟩

private theorem node_setData (t : PosixTree) (i : Nat) (nd : Bytes) :
    node { t with ents := updIno t.ents i (fun x => setData x nd), orph := updIno t.orph i (fun x => setData x nd) } i
      = (node t i).map (fun x => setData x nd) := by
  unfold node
  simp only
  rw [findIno_updIno t.ents i (fun x => setData x nd) (fun _ => rfl),
    findIno_updIno t.orph i (fun x => setData x nd) (fun _ => rfl)]
  cases findIno t.ents i <;> simp

/-- C18 (write). Writing to a file changes the bytes of exactly that inode (to `pwrite`'s result), reports
    the new size, and leaves every other node, all names, kinds and inode numbers as they were. -/
theorem C18_write_changes_one {t : PosixTree} (i off : Nat) (d : Bytes) (e : Entry)
    (hn : node t i = some e) (hk : e.kind = .file) :
    (step t (.write i off d)).2 = .attr .file (writeAt e.data off d).length ∧
    node (step t (.write i off d)).1 i = some (setData e (writeAt e.data off d)) ∧
    (∀ x : Entry, x.ino ≠ i →
      (x ∈ (step t (.write i off d)).1.ents ↔ x ∈ t.ents) ∧ (x ∈ (step t (.write i off d)).1.orph ↔ x ∈ t.orph)) ∧
    (step t (.write i off d)).1.ents.map shape = t.ents.map shape := by
  have hk' : ¬ e.kind = .dir := by rw [hk]; intro h; cases h
  simp only [step, hn, hk', ↓reduceIte]
  refine ⟨trivial, ?_, ?_, updIno_shape t.ents i (fun x => setData x (writeAt e.data off d)) (fun _ => rfl)⟩
  · rw [node_setData, hn]; rfl
  · intro x hx
    exact ⟨mem_updIno_of_ne (f := fun x => setData x (writeAt e.data off d)) (fun _ => rfl) hx,
      mem_updIno_of_ne (f := fun x => setData x (writeAt e.data off d)) (fun _ => rfl) hx⟩

/-- C18 (truncate). `SetInodeAttributes(size)` cuts or zero-extends exactly that file. -/
theorem C18_trunc_changes_one {t : PosixTree} (i n : Nat) (e : Entry)
    (hn : node t i = some e) (hk : e.kind = .file) :
    (step t (.trunc i n)).2 = .attr .file (truncTo e.data n).length ∧
    node (step t (.trunc i n)).1 i = some (setData e (truncTo e.data n)) ∧
    (∀ x : Entry, x.ino ≠ i →
      (x ∈ (step t (.trunc i n)).1.ents ↔ x ∈ t.ents) ∧ (x ∈ (step t (.trunc i n)).1.orph ↔ x ∈ t.orph)) ∧
    (step t (.trunc i n)).1.ents.map shape = t.ents.map shape := by
  have hk' : ¬ e.kind = .dir := by rw [hk]; intro h; cases h
  simp only [step, hn, hk', ↓reduceIte]
  refine ⟨trivial, ?_, ?_, updIno_shape t.ents i (fun x => setData x (truncTo e.data n)) (fun _ => rfl)⟩
  · rw [node_setData, hn]; rfl
  · intro x hx
    exact ⟨mem_updIno_of_ne (f := fun x => setData x (truncTo e.data n)) (fun _ => rfl) hx,
      mem_updIno_of_ne (f := fun x => setData x (truncTo e.data n)) (fun _ => rfl) hx⟩

private theorem truncTo_length (old : Bytes) (n : Nat) : (truncTo old n).length = n := by
  unfold truncTo zeros; simp; omega

private theorem readAt_writeAt (old : Bytes) (off : Nat) (d : Bytes) (hd : d ≠ []) :
    readAt (writeAt old off d) off d.length = d := by
  unfold readAt writeAt
  have : d.isEmpty = false := by cases d <;> simp at hd ⊢
  simp only [this, Bool.false_eq_true, ↓reduceIte]
  have hlen : ((old ++ zeros (off - old.length)).take off).length = off := by
    simp [zeros]; omega
  rw [List.append_assoc, List.drop_append_of_le_length (by omega)]
  rw [List.drop_of_length_le (by omega), List.nil_append, List.take_append_of_le_length (by simp)]
  simp

/-- C18 (read after write): reading back the range just written returns the bytes written. -/
theorem C18_read_after_write {t : PosixTree} (i off : Nat) (d : Bytes) (e : Entry)
    (hn : node t i = some e) (hk : e.kind = .file) (hd : d ≠ []) :
    (step (step t (.write i off d)).1 (.read i off d.length)).2 = .bytes d := by
  have h2 := (C18_write_changes_one i off d e hn hk).2.1
  have hk' : ¬ (setData e (writeAt e.data off d)).kind = .dir := by
    show ¬ e.kind = .dir; rw [hk]; intro h; cases h
  generalize (step t (.write i off d)).1 = t' at h2
  simp only [step, h2, hk', ↓reduceIte]
  show Result.bytes (readAt (writeAt e.data off d) off d.length) = _
  rw [readAt_writeAt _ _ _ hd]


/-! ## referenced inodes stay addressable; forgetting never changes the tree -/

theorem node_iff {t : PosixTree} (h : WF t) (i : Nat) (e : Entry) :
    node t i = some e ↔ (e ∈ t.ents ∨ e ∈ t.orph) ∧ e.ino = i := by
  unfold node
  constructor
  · intro hn
    split at hn
    · rename_i e' he'
      cases hn
      exact ⟨Or.inl (findIno_some he').1, (findIno_some he').2⟩
    · exact ⟨Or.inr (findIno_some hn).1, (findIno_some hn).2⟩
  · rintro ⟨he | he, hi⟩
    · cases hf : findIno t.ents i with
      | none => exact absurd hi (findIno_none hf e he)
      | some e' =>
        have := findIno_some hf
        simp only
        rw [eq_of_nodup_map (·.ino) h.inosE this.1 he (this.2.trans hi.symm)]
    · cases hf : findIno t.ents i with
      | some e' =>
        have := findIno_some hf
        exact absurd (this.2.trans hi.symm) (h.disj e' this.1 e he)
      | none =>
        simp only
        cases hg : findIno t.orph i with
        | none => exact absurd hi (findIno_none hg e he)
        | some e' =>
          have := findIno_some hg
          rw [eq_of_nodup_map (·.ino) h.inosO this.1 he (this.2.trans hi.symm)]

/-- `e` (referenced by the kernel) survives from `t` to `t'`, with its kind and at least its lookup count -/
def Survives (t' : PosixTree) (e : Entry) : Prop :=
  ∃ e', (e' ∈ t'.ents ∨ e' ∈ t'.orph) ∧ e'.ino = e.ino ∧ e'.kind = e.kind ∧ e.nl ≤ e'.nl

private theorem survives_updIno {l : List Entry} (j : Nat) (f : Entry → Entry)
    (hf : ∀ x, (f x).ino = x.ino ∧ (f x).kind = x.kind ∧ x.nl ≤ (f x).nl) {e : Entry} (he : e ∈ l) :
    ∃ e' ∈ updIno l j f, e'.ino = e.ino ∧ e'.kind = e.kind ∧ e.nl ≤ e'.nl := by
  by_cases hj : e.ino = j
  · refine ⟨f e, List.mem_map.2 ⟨e, he, by simp [hj]⟩, hf e⟩
  · exact ⟨e, List.mem_map.2 ⟨e, he, by simp [hj]⟩, rfl, rfl, Nat.le_refl _⟩

private theorem survives_unlinkAt {t : PosixTree} (tp : Path) (d : Entry) (hd : d ∈ t.ents) (hdp : d.path = tp)
    (paths : (t.ents.map (·.path)).Nodup)
    {e : Entry} (he : e ∈ t.ents ∨ e ∈ t.orph) (hheld : e.nl ≠ 0) :
    (e ∈ (unlinkAt t tp d).ents ∨ e ∈ (unlinkAt t tp d).orph) := by
  unfold unlinkAt
  rcases he with he | he
  · by_cases hp : e.path = tp
    · have : e = d := eq_of_nodup_map (·.path) paths he hd (hp.trans hdp.symm)
      subst this
      right; simp [hheld]
    · left; simp [List.mem_filter, he, hp]
  · right; simp only; split
    · exact he
    · exact List.mem_cons_of_mem _ he

private theorem survives_step {t : PosixTree} (h : WF t) (o : Op) (e : Entry)
    (he : e ∈ t.ents ∨ e ∈ t.orph) (hheld : e.nl ≠ 0) (hnf : ∀ k, o ≠ .forget e.ino k) :
    Survives (step t o).1 e := by
  have self : Survives t e := ⟨e, he, rfl, rfl, Nat.le_refl _⟩
  have setd : ∀ j nd, Survives ({ t with ents := updIno t.ents j (fun x => setData x nd), orph := updIno t.orph j (fun x => setData x nd) } : PosixTree) e := by
    intro j nd
    rcases he with he | he
    · obtain ⟨e', h1, h2⟩ := survives_updIno j (fun x => setData x nd) (fun _ => ⟨rfl, rfl, Nat.le_refl _⟩) he
      exact ⟨e', Or.inl h1, h2⟩
    · obtain ⟨e', h1, h2⟩ := survives_updIno j (fun x => setData x nd) (fun _ => ⟨rfl, rfl, Nat.le_refl _⟩) he
      exact ⟨e', Or.inr h1, h2⟩
  have mk : ∀ p name k, Survives (mkEntry t p name k).1 e := by
    intro p name k
    unfold mkEntry
    split
    · exact self
    split
    · exact self
    · rcases he with he | he
      · exact ⟨e, Or.inl (by simp [he]), rfl, rfl, Nat.le_refl _⟩
      · exact ⟨e, Or.inr he, rfl, rfl, Nat.le_refl _⟩
  have rm : ∀ p n k, Survives (doRemove t p n k).1 e := by
    intro p n k
    unfold doRemove
    split
    · exact self
    split
    · exact self
    rename_i d hd
    split
    · exact self
    split
    · exact self
    obtain ⟨hd1, hd2⟩ := findPath_some hd
    exact ⟨e, survives_unlinkAt _ d hd1 hd2 h.paths he hheld, rfl, rfl, Nat.le_refl _⟩
  cases o with
  | create p name => exact mk p name .file
  | mkdir p name => exact mk p name .dir
  | lookup p name =>
    simp only [step]
    split
    · exact self
    split
    · exact self
    rename_i c _
    rcases he with he | he
    · obtain ⟨e', h1, h2⟩ := survives_updIno c.ino (addNl 1) (fun x => ⟨rfl, rfl, Nat.le_add_right _ _⟩) he
      exact ⟨e', Or.inl h1, h2⟩
    · exact ⟨e, Or.inr he, rfl, rfl, Nat.le_refl _⟩
  | getattr i => simp only [step]; split <;> exact self
  | write i off d =>
    simp only [step]
    split
    · exact self
    split
    · exact self
    · exact setd _ _
  | trunc i n =>
    simp only [step]
    split
    · exact self
    split
    · exact self
    · exact setd _ _
  | read i off len =>
    simp only [step]
    split
    · exact self
    split <;> exact self
  | readdir i => simp only [step]; split <;> exact self
  | unlink p n => exact rm p n .file
  | rmdir p n => exact rm p n .dir
  | rename p n q m =>
    simp only [step]
    unfold doRename
    split
    · exact self
    split
    · exact self
    simp only
    split
    · exact self
    split
    · exact self
    split
    · exact self
    split
    · rcases he with he | he
      · exact ⟨moveEnt _ _ e, Or.inl (List.mem_map_of_mem he), rfl, rfl, Nat.le_refl _⟩
      · exact ⟨e, Or.inr he, rfl, rfl, Nat.le_refl _⟩
    · rename_i d hd
      split
      · exact self
      split
      · exact self
      split
      · exact self
      obtain ⟨hd1, hd2⟩ := findPath_some hd
      rcases survives_unlinkAt _ d hd1 hd2 h.paths he hheld with h1 | h1
      · exact ⟨moveEnt _ _ e, Or.inl (List.mem_map_of_mem h1), rfl, rfl, Nat.le_refl _⟩
      · exact ⟨e, Or.inr h1, rfl, rfl, Nat.le_refl _⟩
  | forget i k =>
    have hi : e.ino ≠ i := fun h0 => hnf k (h0 ▸ rfl)
    simp only [step, doForget]
    rcases he with he | he
    · exact ⟨e, Or.inl ((mem_updIno_of_ne (f := subNl k) (fun _ => rfl) hi).2 he), rfl, rfl, Nat.le_refl _⟩
    · refine ⟨e, Or.inr ?_, rfl, rfl, Nat.le_refl _⟩
      simp only [List.mem_filter]
      exact ⟨(mem_updIno_of_ne (f := subNl k) (fun _ => rfl) hi).2 he, by simpa using hheld⟩

/-- C18 (lookup counts). An inode the kernel holds a lookup reference for stays addressable, with the same
    kind, across EVERY operation other than a forget of that inode — also when its name is unlinked,
    replaced by a rename, or when other inodes are forgotten. -/
theorem C18_held_stays {t : PosixTree} (h : WF t) (o : Op) (i : Nat) (e : Entry)
    (hn : node t i = some e) (hheld : e.nl ≠ 0) (hnf : ∀ k, o ≠ .forget i k) :
    ∃ e', node (step t o).1 i = some e' ∧ e'.kind = e.kind ∧ e.nl ≤ e'.nl := by
  obtain ⟨he, hi⟩ := (node_iff h i e).1 hn
  obtain ⟨e', h1, h2, h3, h4⟩ := survives_step h o e he hheld (hi ▸ hnf)
  exact ⟨e', (node_iff (step_wf h o) i e').2 ⟨h1, h2.trans hi⟩, h3, h4⟩

/-- everything the visible tree shows of an entry -/
def visible (e : Entry) : Path × Nat × Kind × Bytes := (e.path, e.ino, e.kind, e.data)

/-- C18 (forget). Forgetting lookup references — any inode, any count — never changes the visible tree:
    same paths, inodes, kinds and bytes, hence the same commit. -/
theorem C18_forget_keeps_tree (t : PosixTree) (i k : Nat) :
    (step t (.forget i k)).1.ents.map visible = t.ents.map visible ∧
    treeFiles (step t (.forget i k)).1 = treeFiles t := by
  have hv : (updIno t.ents i (subNl k)).map visible = t.ents.map visible := by
    unfold updIno
    rw [List.map_map]
    apply List.map_congr_left
    intro e _
    simp only [Function.comp]
    split <;> rfl
  refine ⟨hv, ?_⟩
  simp only [step, doForget, treeFiles, updIno]
  rw [List.filter_map, List.map_map]
  have : ((fun e : Entry => e.kind == Kind.file) ∘ fun e => if (e.ino == i) = true then subNl k e else e)
      = fun e => e.kind == Kind.file := by
    funext e; simp only [Function.comp]; split <;> rfl
  rw [this]
  apply List.map_congr_left
  intro e _
  simp only [Function.comp]
  split <;> rfl

/-! ## all programs -/

theorem C18_wf_run (ops : List Op) : WF (run init ops) := run_wf ops WF_init

/-- C18: after ANY program no directory holds two entries with the same name. -/
theorem C18_names_unique (ops : List Op) (a b : Entry)
    (ha : a ∈ (run init ops).ents) (hb : b ∈ (run init ops).ents) (hp : a.path = b.path) : a = b :=
  entry_unique (C18_wf_run ops) ha hb hp

/-- C18: after ANY program no two live nodes — linked, or unlinked but still referenced — share an inode. -/
theorem C18_inode_unique (ops : List Op) (a b : Entry)
    (ha : a ∈ (run init ops).ents ∨ a ∈ (run init ops).orph)
    (hb : b ∈ (run init ops).ents ∨ b ∈ (run init ops).orph) (hi : a.ino = b.ino) : a = b := by
  have h := C18_wf_run ops
  rcases ha with ha | ha <;> rcases hb with hb | hb
  · exact eq_of_nodup_map (·.ino) h.inosE ha hb hi
  · exact absurd hi (h.disj a ha b hb)
  · exact absurd hi.symm (h.disj b hb a ha)
  · exact eq_of_nodup_map (·.ino) h.inosO ha hb hi

/-- C18: after ANY program, every linked entry lives in a linked directory and the root is a directory. -/
theorem C18_tree_shape (ops : List Op) :
    (∃ r ∈ (run init ops).ents, r.path = [] ∧ r.kind = .dir) ∧
    (∀ e ∈ (run init ops).ents, e.path ≠ [] →
      ∃ pe ∈ (run init ops).ents, pe.path = e.path.dropLast ∧ pe.kind = .dir) :=
  ⟨(C18_wf_run ops).root, (C18_wf_run ops).closed⟩

/-- C18: after ANY program, a commit uploads exactly the files the mount shows. -/
theorem C18_commit_eq_tree_run (ops : List Op) : (commitList (run init ops)).Perm (treeFiles (run init ops)) :=
  C18_commit_eq_tree (C18_wf_run ops)

/-- rmdir only removes empty directories (corollary of `C18_remove_exactly_one`) -/
theorem C18_rmdir_only_empty {t : PosixTree} (h : WF t) (p : Nat) (n : String)
    (hok : (step t (.rmdir p n)).2 = .done) :
    ∃ e ∈ t.ents, e.kind = .dir ∧ (∀ x ∈ t.ents, e.path <+: x.path → x = e) ∧
      (step t (.rmdir p n)).1.ents.length + 1 = t.ents.length := by
  obtain ⟨_, e, _, he, _, hk, hempty, _, _, hlen⟩ := C18_remove_exactly_one h p n .dir hok
  exact ⟨e, he, hk, hempty, hlen⟩

/-! ## facts about the source the model relies on -/

/-- `MkDir` releases the file-system lock exactly once (by its defer) -/
theorem C18_fact_mkdir_single_unlock : Facts.fuseMkDirExplicitUnlocks = 0 := by decide
/-- `shouldDelete` reclaims a node only when it is unreferenced AND unlinked (`C18_forget_keeps_tree`) -/
theorem C18_fact_should_delete_needs_unlinked : Facts.fuseShouldDeleteNeedsUnlinked = true := by decide

/-! ## the hypotheses are satisfiable; what the specification demands where the unrepaired code failed -/

-- a directory forgotten by the kernel while still linked is found again (the unrepaired code dropped its
-- node and panicked in LookUpInode)
example : (step (run init [.mkdir 1 "a", .forget 2 1]) (.lookup 1 "a")).2 = .entry .dir 2 0 := by decide
-- MkDir of an existing name is EEXIST (the unrepaired code ended the process)
example : (step (run init [.mkdir 1 "a"]) (.mkdir 1 "a")).2 = .err .exist := by decide
-- rename onto a non-empty directory is ENOTEMPTY (the unrepaired code linked both under one name)
example : (step (run init [.mkdir 1 "a", .mkdir 1 "b", .create 3 "c"]) (.rename 1 "a" 1 "b")).2 = .err .notempty := by
  decide
-- rename onto an empty directory replaces it
example : (step (run init [.mkdir 1 "a", .mkdir 1 "b"]) (.rename 1 "a" 1 "b")).2 = .done := by decide
-- a short read at the end of a file returns the bytes there are (the unrepaired code answered EIO)
example : (step (run init [.create 1 "f", .write 2 0 [104, 105]]) (.read 2 0 4096)).2 = .bytes [104, 105] := by decide
-- an unlinked file stays readable while the kernel references it, and is gone once forgotten
example : (step (run init [.create 1 "f", .write 2 0 [7], .unlink 1 "f"]) (.read 2 0 1)).2 = .bytes [7] := by decide
example : (step (run init [.create 1 "f", .unlink 1 "f", .forget 2 1]) (.getattr 2)).2 = .err .noent := by decide
-- commit of a small tree: files only, full paths
example : commitList (run init [.mkdir 1 "a", .create 2 "f", .write 3 0 [1], .create 1 "g", .mkdir 1 "e"])
    = [(["a", "f"], [1]), (["g"], [])] := by decide
-- a directory cannot be moved below itself
example : (step (run init [.mkdir 1 "a", .mkdir 2 "b"]) (.rename 1 "a" 3 "c")).2 = .err .inval := by decide

end FuseRW
