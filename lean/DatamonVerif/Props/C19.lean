import DatamonVerif.Model.Wal

/-! C19 — the write-ahead log returns what was appended, in token order. -/
namespace Wal
open Ksuid

/-! ### KSUID: numeric order, pair order and string order coincide -/

theorem mk_lt_iff {t₁ n₁ t₂ n₂ : Nat} (h₁ : n₁ < P) (h₂ : n₂ < P) :
    mk t₁ n₁ < mk t₂ n₂ ↔ t₁ < t₂ ∨ (t₁ = t₂ ∧ n₁ < n₂) := by
  unfold mk P at *; omega

theorem time_mk {t n : Nat} (h : n < P) : time (mk t n) = t := by
  unfold time mk P at *; omega

theorem nonce_mk {t n : Nat} (h : n < P) : nonce (mk t n) = n := by
  unfold nonce mk P at *; omega

theorem mk_time_nonce (k : Nat) : mk (time k) (nonce k) = k := by
  unfold mk time nonce P; omega

theorem lt_iff_div_mod (B a b : Nat) (hB : 0 < B) :
    a < b ↔ a / B < b / B ∨ (a / B = b / B ∧ a % B < b % B) := by
  have ha := Nat.div_add_mod a B
  have hb := Nat.div_add_mod b B
  have hma := Nat.mod_lt a hB
  have hmb := Nat.mod_lt b hB
  constructor
  · intro h
    rcases Nat.lt_trichotomy (a / B) (b / B) with hq | hq | hq
    · exact Or.inl hq
    · right; refine ⟨hq, ?_⟩; rw [hq] at ha; omega
    · exfalso
      have h1 : B * (b / B + 1) ≤ B * (a / B) := Nat.mul_le_mul_left B hq
      rw [Nat.mul_succ] at h1; omega
  · rintro (hq | ⟨hq, hr⟩)
    · have h1 : B * (a / B + 1) ≤ B * (b / B) := Nat.mul_le_mul_left B hq
      rw [Nat.mul_succ] at h1; omega
    · rw [hq] at ha; omega

/-- fixed-width big-endian digit lists compare (lexicographically) like the numbers -/
theorem digits_lt_iff (b : Nat) (hb : 0 < b) :
    ∀ (w x y : Nat), x < b ^ w → y < b ^ w → (digits b w x < digits b w y ↔ x < y) := by
  intro w
  induction w with
  | zero => intro x y hx hy; simp at hx hy; subst hx; subst hy; simp [digits]
  | succ w ih =>
    intro x y _ _
    have hB : 0 < b ^ w := Nat.pow_pos hb
    simp only [digits, List.cons_lt_cons_iff]
    rw [ih (x % b ^ w) (y % b ^ w) (Nat.mod_lt _ hB) (Nat.mod_lt _ hB)]
    exact (lt_iff_div_mod (b ^ w) x y hB).symm

theorem digits_lt_base (b : Nat) : ∀ (w x : Nat), x < b ^ w → ∀ d ∈ digits b w x, d < b := by
  intro w
  induction w with
  | zero => intro x _ d hd; simp [digits] at hd
  | succ w ih =>
    intro x hx d hd
    simp only [digits, List.mem_cons] at hd
    rcases hd with rfl | hd
    · apply Nat.div_lt_of_lt_mul; rw [Nat.pow_succ] at hx; exact hx
    · by_cases hb : 0 < b
      · exact ih _ (Nat.mod_lt _ (Nat.pow_pos hb)) d hd
      · have : b = 0 := by omega
        subst this; simp [Nat.pow_succ] at hx

/-- the base-62 alphabet of KSUID is ascending -/
theorem b62_lt_iff : ∀ d < 62, ∀ e < 62, (b62 d < b62 e ↔ d < e) := by decide +kernel

theorem map_b62_lt_iff : ∀ (l₁ l₂ : List Nat), (∀ d ∈ l₁, d < 62) → (∀ d ∈ l₂, d < 62) →
    (l₁.map b62 < l₂.map b62 ↔ l₁ < l₂) := by
  intro l₁
  induction l₁ with
  | nil => intro l₂ _ _; cases l₂ <;> simp
  | cons a r ih =>
    intro l₂ h₁ h₂
    cases l₂ with
    | nil => simp
    | cons c r₂ =>
      have ha : a < 62 := h₁ a (by simp)
      have hc : c < 62 := h₂ c (by simp)
      have hr := ih r₂ (fun d hd => h₁ d (by simp [hd])) (fun d hd => h₂ d (by simp [hd]))
      simp only [List.map_cons, List.cons_lt_cons_iff, hr, b62_lt_iff a ha c hc]
      constructor
      · rintro (h | ⟨h, h'⟩)
        · exact Or.inl h
        · right; refine ⟨?_, h'⟩
          rcases Nat.lt_trichotomy a c with hl | he | hg
          · exact absurd (h ▸ (b62_lt_iff a ha c hc).mpr hl) (by simp)
          · exact he
          · exact absurd (h ▸ (b62_lt_iff c hc a ha).mpr hg) (by simp)
      · rintro (h | ⟨h, h'⟩)
        · exact Or.inl h
        · exact Or.inr ⟨by rw [h], h'⟩

theorem width_fits : P * T ≤ 62 ^ width := by decide

/-- **ksuid_string_lt_iff**: for KSUIDs (numbers below `2^160`), the order of the 27-character
    strings — the order in which an object store lists keys — is the numeric order. -/
theorem C19_ksuid_string_lt_iff (a b : Nat) (ha : a < P * T) (hb : b < P * T) :
    render a < render b ↔ a < b := by
  have wa : a < 62 ^ width := Nat.lt_of_lt_of_le ha width_fits
  have wb : b < 62 ^ width := Nat.lt_of_lt_of_le hb width_fits
  show (render a).toList < (render b).toList ↔ a < b
  simp only [render, String.toList_ofList]
  rw [map_b62_lt_iff _ _ (digits_lt_base 62 width a wa) (digits_lt_base 62 width b wb)]
  exact digits_lt_iff 62 (by decide) width a b wa wb

/-- the rendering is the real one: tokens printed by segmentio/ksuid v1.0.4 (`String()` next to
    the big-endian number of `Bytes()`), among them the largest KSUID -/
example : render 71275273298129755624116616841235541076232954784 = "1mRb9yabqJJf8KzCpxVrg8Jjm0O" := by decide +kernel
example : render 36617121174329980561920228151092777577967556405 = "0ujtsYcgvSTl8PAuAdqWYSMnLOv" := by decide +kernel
example : render (P * T - 1) = "aWgEPTl1tmebfsQzFP4bxwgy80V" := by decide +kernel
example : time 71275273298129755624116616841235541076232954784 = 209459202 := by decide +kernel

/-! ### token order -/

theorem newToken_lt_of_time_lt {t₁ t₂ n₁ n₂ : Nat} (h₁ : t₁ < T) (h₂ : t₂ < T) (h : t₁ < t₂) :
    newToken t₁ n₁ < newToken t₂ n₂ := by
  unfold newToken
  rw [Nat.mod_eq_of_lt h₁, Nat.mod_eq_of_lt h₂]
  exact (mk_lt_iff (Nat.mod_lt _ (by decide)) (Nat.mod_lt _ (by decide))).mpr (Or.inl h)

/-- **token_order**: if the generator update times read by two appends differ by at least one
    second (`g₁ + 1000 ≤ g₂`, milliseconds; 32-bit KSUID time not exhausted), the second token is
    greater — as a number and as a string — whatever the random draws. -/
theorem C19_token_order (g₁ g₂ n₁ n₂ : Nat) (hsec : g₁ + 1000 ≤ g₂) (hfit : g₂ / 1000 < T) :
    newToken (tokenTime g₁) n₁ < newToken (tokenTime g₂) n₂ ∧
    render (newToken (tokenTime g₁) n₁) < render (newToken (tokenTime g₂) n₂) := by
  have h1 : g₁ / 1000 < g₂ / 1000 := by omega
  have hT1 : g₁ / 1000 < T := Nat.lt_trans h1 hfit
  have ht1 : tokenTime g₁ = g₁ / 1000 := Nat.mod_eq_of_lt hT1
  have ht2 : tokenTime g₂ = g₂ / 1000 := Nat.mod_eq_of_lt hfit
  have hlt : newToken (tokenTime g₁) n₁ < newToken (tokenTime g₂) n₂ := by
    rw [ht1, ht2]; exact newToken_lt_of_time_lt hT1 hfit h1
  refine ⟨hlt, ?_⟩
  have bound : ∀ t n, newToken t n < P * T := by
    intro t n
    have a := Nat.mod_lt t (show 0 < T by decide)
    have b := Nat.mod_lt n (show 0 < P by decide)
    unfold newToken mk; unfold P T at *; omega
  exact (C19_ksuid_string_lt_iff _ _ (bound _ _) (bound _ _)).mpr hlt

theorem genAfter_ge (dts : List Nat) : ∀ g0, g0 ≤ genAfter g0 dts := by
  induction dts with
  | nil => intro g0; exact Nat.le_refl _
  | cons d r ih => intro g0; simp only [genAfter, List.foldl_cons]; have := ih (g0 + d); simp only [genAfter] at this; omega

theorem genAfter_append (g0 : Nat) (a b : List Nat) : genAfter g0 (a ++ b) = genAfter (genAfter g0 a) b := by
  simp [genAfter, List.foldl_append]

/-- **token_order, history form**: an append that reads the generator after the touches `pre`,
    and a later one that reads it after the further touches `mid` (its own among them). The later
    token never has an earlier timestamp, and it sorts after the earlier token as soon as the
    store clock moved by a second in between. -/
theorem C19_token_order_history (g0 : Nat) (pre mid : List Nat) (n₁ n₂ : Nat)
    (hfit : genAfter g0 (pre ++ mid) / 1000 < T) :
    tokenTime (genAfter g0 pre) ≤ tokenTime (genAfter g0 (pre ++ mid)) ∧
    (genAfter g0 pre + 1000 ≤ genAfter g0 (pre ++ mid) →
      newToken (tokenTime (genAfter g0 pre)) n₁ < newToken (tokenTime (genAfter g0 (pre ++ mid))) n₂) := by
  have hge : genAfter g0 pre ≤ genAfter g0 (pre ++ mid) := by
    rw [genAfter_append]; exact genAfter_ge mid _
  constructor
  · have h2 : genAfter g0 pre / 1000 < T := by omega
    unfold tokenTime
    rw [Nat.mod_eq_of_lt h2, Nat.mod_eq_of_lt hfit]; omega
  · intro h; exact (C19_token_order _ _ n₁ n₂ h hfit).1

/-! ### the store: appends keep it in key order without duplicate keys -/

/-- key order, no duplicate keys -/
def Sorted (s : Store) : Prop := (keys s).Pairwise (· < ·)

theorem mem_insert (k : Nat) (p : Payload) (x : Nat × Payload) :
    ∀ s : Store, x ∈ insert k p s ↔ x = (k, p) ∨ x ∈ s := by
  intro s
  induction s with
  | nil => simp [insert]
  | cons a r ih =>
    obtain ⟨k', p'⟩ := a
    simp only [insert]
    split
    · simp
    · simp only [List.mem_cons, ih]
      constructor
      · rintro (h | h | h) <;> simp [h]
      · rintro (h | h | h) <;> simp [h]

theorem mem_keys_insert (k : Nat) (p : Payload) (x : Nat) (s : Store) :
    x ∈ keys (insert k p s) ↔ x = k ∨ x ∈ keys s := by
  simp only [keys, List.mem_map, mem_insert]
  constructor
  · rintro ⟨a, (rfl | h), rfl⟩
    · exact Or.inl rfl
    · exact Or.inr ⟨a, h, rfl⟩
  · rintro (rfl | ⟨a, h, rfl⟩)
    · exact ⟨(x, p), Or.inl rfl, rfl⟩
    · exact ⟨a, Or.inr h, rfl⟩

theorem sorted_insert (k : Nat) (p : Payload) :
    ∀ s : Store, Sorted s → k ∉ keys s → Sorted (insert k p s) := by
  intro s
  induction s with
  | nil => intro _ _; simp [insert, Sorted, keys]
  | cons a r ih =>
    obtain ⟨k', p'⟩ := a
    intro hs hk
    have hne : k ≠ k' := by intro e; apply hk; simp [keys, e]
    have hkr : k ∉ keys r := by intro e; apply hk; simp only [keys, List.map_cons, List.mem_cons]; exact Or.inr e
    simp only [Sorted, keys, List.map_cons, List.pairwise_cons] at hs
    simp only [insert]
    split
    · rename_i hlt
      simp only [Sorted, keys, List.map_cons, List.pairwise_cons, List.mem_cons]
      refine ⟨?_, hs.1, hs.2⟩
      rintro x (rfl | hx)
      · exact hlt
      · exact Nat.lt_trans hlt (hs.1 x hx)
    · rename_i hnlt
      have hr : Sorted (insert k p r) := ih hs.2 hkr
      show (keys ((k', p') :: insert k p r)).Pairwise (· < ·)
      simp only [keys, List.map_cons, List.pairwise_cons]
      refine ⟨?_, hr⟩
      intro x hx
      rcases (mem_keys_insert k p x r).mp hx with rfl | hx
      · omega
      · exact hs.1 x hx

theorem has_iff (s : Store) (k : Nat) : has s k = true ↔ k ∈ keys s := by
  simp only [has, keys, List.any_eq_true, List.mem_map, beq_iff_eq]

/-- the call-site flag of `Add` extracted from the Go source -/
theorem add_flag : Facts.walAddNoOverwrite = true := by decide

theorem add_some {s s' : Store} {t n : Nat} {p : Payload} {tok : Nat}
    (h : add s t n p = some (s', tok)) :
    tok = newToken t n ∧ tok ∉ keys s ∧ s' = insert tok p s := by
  unfold add put at h
  rw [add_flag] at h
  by_cases hh : has s (newToken t n) = true
  · simp [hh] at h
  · simp only [hh] at h
    simp only [Bool.false_eq_true, if_false, Option.some.injEq, Prod.mk.injEq] at h
    obtain ⟨h1, h2⟩ := h
    subst h2
    refine ⟨rfl, ?_, h1.symm⟩
    intro hm; exact hh ((has_iff _ _).mpr hm)

theorem add_none {s : Store} {t n : Nat} {p : Payload} (h : add s t n p = none) :
    newToken t n ∈ keys s := by
  unfold add put at h
  rw [add_flag] at h
  by_cases hh : has s (newToken t n) = true
  · exact (has_iff _ _).mp hh
  · simp [hh] at h

theorem add_sorted {s s' : Store} {t n : Nat} {p : Payload} {tok : Nat}
    (hs : Sorted s) (h : add s t n p = some (s', tok)) : Sorted s' := by
  obtain ⟨_, h2, h3⟩ := add_some h
  subst h3; exact sorted_insert _ _ _ hs h2

/-- any history of appends (concurrent ones in the order of their puts) leaves the store in key
    order without duplicate keys -/
theorem C19_store_sorted (h : List Append) : ∀ s, Sorted s → Sorted (run s h) := by
  induction h with
  | nil => intro s hs; exact hs
  | cons a r ih =>
    intro s hs
    simp only [run]
    split
    · rename_i s' tok heq; exact ih s' (add_sorted hs heq)
    · exact ih s hs

/-- **tokens_unique**: the tokens returned by the successful appends of any history are pairwise
    distinct and differ from every key that was in the store before — by the no-overwrite put,
    for ANY random draws (also colliding ones: the colliding append fails instead). -/
theorem C19_tokens_unique (h : List Append) : ∀ s, Sorted s →
    ((issued s h).map (·.token)).Nodup ∧ ∀ e ∈ issued s h, e.token ∉ keys s := by
  induction h with
  | nil => intro s _; simp [issued]
  | cons a r ih =>
    intro s hs
    simp only [issued]
    split
    · rename_i s' tok heq
      obtain ⟨_, h2, h3⟩ := add_some heq
      obtain ⟨ih1, ih2⟩ := ih s' (add_sorted hs heq)
      have sub : ∀ x, x ∈ keys s → x ∈ keys s' := by
        intro x hx; subst h3; exact (mem_keys_insert _ _ _ _).mpr (Or.inr hx)
      have tokin : tok ∈ keys s' := by subst h3; exact (mem_keys_insert _ _ _ _).mpr (Or.inl rfl)
      constructor
      · simp only [List.map_cons, List.nodup_cons]
        refine ⟨?_, ih1⟩
        intro hm
        obtain ⟨e, he, hte⟩ := List.mem_map.mp hm
        exact ih2 e he (hte ▸ tokin)
      · intro e he
        rcases List.mem_cons.mp he with rfl | he
        · exact h2
        · intro hm; exact ih2 e he (sub _ hm)
    · exact ih s hs

/-- the store after a history holds exactly what was there plus the issued entries, each under
    its token with its payload unchanged -/
theorem C19_store_is_issued (h : List Append) : ∀ (s : Store) (k : Nat) (p : Payload),
    (k, p) ∈ run s h ↔ (k, p) ∈ s ∨ (⟨k, p⟩ : Entry) ∈ issued s h := by
  induction h with
  | nil => intro s k p; simp [run, issued]
  | cons a r ih =>
    intro s k p
    simp only [run, issued]
    split
    · rename_i s' tok heq
      obtain ⟨_, _, h3⟩ := add_some heq
      rw [ih s' k p, h3, mem_insert]
      simp only [List.mem_cons, Entry.mk.injEq, Prod.mk.injEq]
      constructor
      · rintro ((h | h) | h)
        · exact Or.inr (Or.inl h)
        · exact Or.inl h
        · exact Or.inr (Or.inr h)
      · rintro (h | h | h)
        · exact Or.inl (Or.inr h)
        · exact Or.inl (Or.inl h)
        · exact Or.inr h
    · exact ih s k p

/-- a failed append is a token collision (never a lost entry): its token is already stored -/
theorem C19_add_fails_only_on_collision {s : Store} {t n : Nat} {p : Payload}
    (h : add s t n p = none) : newToken t n ∈ keys s := add_none h

theorem get_of_mem : ∀ (s : Store), Sorted s → ∀ k p, (k, p) ∈ s → get s k = some p := by
  intro s
  induction s with
  | nil => intro _ k p h; simp at h
  | cons a r ih =>
    obtain ⟨k', p'⟩ := a
    intro hs k p hm
    simp only [Sorted, keys, List.map_cons, List.pairwise_cons] at hs
    by_cases hk : k' = k
    · subst hk
      rcases List.mem_cons.mp hm with h | h
      · simp only [Prod.mk.injEq] at h; simp [get, h.2]
      · exfalso
        have : k' ∈ List.map (·.1) r := List.mem_map.mpr ⟨(k', p), h, rfl⟩
        exact Nat.lt_irrefl _ (hs.1 k' this)
    · have hmr : (k, p) ∈ r := by
        rcases List.mem_cons.mp hm with h | h
        · simp only [Prod.mk.injEq] at h; exact absurd h.1.symm hk
        · exact h
      have := ih hs.2 k p hmr
      simp only [get, List.find?_cons] at this ⊢
      have hb : ((k', p').1 == k) = false := by simp [hk]
      rw [hb]; exact this

/-! ### listing -/

def SortedE (l : List Entry) : Prop := l.Pairwise (fun a b => a.token < b.token)

/-- the blobs of `s` that decode to an entry descriptor carrying their own key are descriptors of
    themselves. (`Add` cannot produce any other: the payload is chosen before the 128 random bits
    of its token are drawn; see `C19_neg_selfref_payload` for what happens otherwise.) -/
def NoSelfRef (dec : Payload → Option Entry) (s : Store) : Prop :=
  ∀ k p, (k, p) ∈ s → ∀ e, dec p = some e → e.token = k → e = ⟨k, p⟩

theorem read_token (dec : Payload → Option Entry) (k : Nat) (b : Payload) : (read dec k b).token = k := by
  unfold read; split
  · split <;> simp_all
  · rfl

theorem read_eq {dec : Payload → Option Entry} {s : Store} (h : NoSelfRef dec s) {k : Nat} {p : Payload}
    (hm : (k, p) ∈ s) : read dec k p = ⟨k, p⟩ := by
  unfold read; split
  · rename_i e he
    split
    · rename_i ht; exact h k p hm e he ht
    · rfl
  · rfl

theorem keys_filter (s : Store) (start : Nat) :
    (keys s).filter (fun k => decide (start ≤ k)) = keys (s.filter (fun kv => decide (start ≤ kv.1))) := by
  induction s with
  | nil => rfl
  | cons a r ih =>
    simp only [keys, List.map_cons, List.filter_cons] at ih ⊢
    split <;> simp [ih]

/-- the page of keys is the token column of the expected entries -/
theorem page_eq (s : Store) (start n : Nat) : (keysFrom s start n).1 = (expected s start n).map (·.token) := by
  show ((keys s).filter (fun k => decide (start ≤ k))).take n = _
  rw [keys_filter]
  simp [expected, keys, List.map_take, Function.comp_def]

theorem sorted_sublist {s s' : Store} (h : List.Sublist s' s) (hs : Sorted s) : Sorted s' :=
  List.Pairwise.sublist (List.Sublist.map _ h) hs

theorem expected_sub (s : Store) (start n : Nat) :
    List.Sublist ((s.filter (fun kv => decide (start ≤ kv.1))).take n) s :=
  List.Sublist.trans (List.take_sublist _ _) List.filter_sublist

theorem expected_sorted (s : Store) (start n : Nat) (hs : Sorted s) : SortedE (expected s start n) := by
  have := sorted_sublist (expected_sub s start n) hs
  simp only [Sorted, keys, List.pairwise_map] at this
  simp only [SortedE, expected, List.pairwise_map]
  exact this

theorem expected_mem {s : Store} {start n : Nat} {e : Entry} (h : e ∈ expected s start n) :
    (e.token, e.payload) ∈ s ∧ start ≤ e.token := by
  simp only [expected, List.mem_map] at h
  obtain ⟨kv, hkv, rfl⟩ := h
  have h1 := List.mem_of_mem_take hkv
  simp only [List.mem_filter, decide_eq_true_eq] at h1
  exact ⟨h1.1, h1.2⟩

/-- fetching the keys of the page from a store that still holds the listed entries gives the
    expected entries, in completion order -/
theorem fetchAll_eq (dec : Payload → Option Entry) (s sg : Store) (hn : NoSelfRef dec s)
    (hext : ∀ k p, (k, p) ∈ s → get sg k = some p) :
    ∀ (es : List Entry), (∀ e ∈ es, (e.token, e.payload) ∈ s) →
      fetchAll dec sg (es.map (·.token)) = some es := by
  intro es
  induction es with
  | nil => intro _; rfl
  | cons e r ih =>
    intro h
    have he := h e (by simp)
    simp only [List.map_cons, fetchAll, hext _ _ he, ih (fun x hx => h x (by simp [hx])), read_eq hn he]

theorem insertEntry_ok (e : Entry) : ∀ (acc : List Entry), SortedE acc → (∀ x ∈ acc, x.token ≠ e.token) →
    ∃ out, insertEntry e acc = some out ∧ out.Perm (e :: acc) ∧ SortedE out := by
  intro acc
  induction acc with
  | nil => intro _ _; exact ⟨[e], rfl, List.Perm.refl _, by simp [SortedE]⟩
  | cons x r ih =>
    intro hs hne
    have hx : x.token ≠ e.token := hne x (by simp)
    simp only [SortedE, List.pairwise_cons] at hs
    simp only [insertEntry]
    split
    · rename_i hlt
      refine ⟨_, rfl, List.Perm.refl _, ?_⟩
      simp only [SortedE, List.pairwise_cons, List.mem_cons]
      refine ⟨?_, hs.1, hs.2⟩
      rintro y (rfl | hy)
      · exact hlt
      · exact Nat.lt_trans hlt (hs.1 y hy)
    · rename_i hnlt
      have hne' : ¬ e.token = x.token := fun h => hx h.symm
      simp only [hne', if_false]
      obtain ⟨out, ho, hp, hso⟩ := ih hs.2 (fun y hy => hne y (by simp [hy]))
      refine ⟨x :: out, by simp [ho], ?_, ?_⟩
      · exact (List.Perm.cons x hp).trans (List.Perm.swap e x r)
      · simp only [SortedE, List.pairwise_cons]
        refine ⟨?_, hso⟩
        intro y hy
        rcases List.mem_cons.mp (hp.mem_iff.mp hy) with rfl | hy
        · omega
        · exact hs.1 y hy

theorem collect_ok : ∀ (es acc : List Entry), SortedE acc → (es.map (·.token)).Nodup →
    (∀ e ∈ es, ∀ x ∈ acc, x.token ≠ e.token) →
    ∃ out, collect acc es = some out ∧ out.Perm (es ++ acc) ∧ SortedE out := by
  intro es
  induction es with
  | nil => intro acc hs _ _; exact ⟨acc, rfl, by simp, hs⟩
  | cons e r ih =>
    intro acc hs hnd hdis
    simp only [List.map_cons, List.nodup_cons] at hnd
    obtain ⟨acc', ha, hp, hs'⟩ := insertEntry_ok e acc hs (hdis e (by simp))
    have hdis' : ∀ e' ∈ r, ∀ x ∈ acc', x.token ≠ e'.token := by
      intro e' he' x hx
      rcases List.mem_cons.mp (hp.mem_iff.mp hx) with rfl | hx
      · intro heq; exact hnd.1 (List.mem_map.mpr ⟨e', he', heq.symm⟩)
      · exact hdis e' (by simp [he']) x hx
    obtain ⟨out, ho, hpo, hso⟩ := ih acc' hs' hnd.2 hdis'
    refine ⟨out, by simp [collect, ha, ho], ?_, hso⟩
    refine hpo.trans ?_
    have h1 : (r ++ acc').Perm (r ++ e :: acc) := List.Perm.append_left r hp
    exact h1.trans (by simp)

theorem sortedE_nodup {l : List Entry} (h : SortedE l) : (l.map (·.token)).Nodup := by
  simp only [List.Nodup, List.pairwise_map]
  exact List.Pairwise.imp (fun h => Nat.ne_of_lt h) h

/-- two token-sorted entry lists that are permutations of each other are equal -/
theorem sortedE_perm_eq {l₁ l₂ : List Entry} (h₁ : SortedE l₁) (h₂ : SortedE l₂) (hp : l₁.Perm l₂) : l₁ = l₂ :=
  List.Perm.eq_of_pairwise (le := fun (a b : Entry) => a.token < b.token)
    (fun _ _ _ _ hab hba => absurd hab (Nat.lt_asymm hba)) h₁ h₂ hp

/-- **list_exact** (store form). On a store in key order whose blobs are not self-referential
    descriptors, for every `max > 0` and EVERY completion order of the parallel fetches (any
    permutation of the page), also when the blobs are fetched from a later store that still holds
    the listed entries: `ListEntries` returns exactly the first `min max maxEntriesPerList` stored
    entries with token `≥` the back-dated start key, in token order, tokens and payloads unchanged,
    and `next` is the first key not returned. It never panics and never fails. -/
theorem C19_list_exact (dec : Payload → Option Entry) (s sg : Store) (fromTok max : Nat)
    (completion : List Nat)
    (hs : Sorted s) (hn : NoSelfRef dec s) (hext : ∀ k p, (k, p) ∈ s → get sg k = some p)
    (hmax : 0 < max) (hperm : completion.Perm (listTokens s fromTok max).1) :
    listEntriesWith dec s sg fromTok max completion =
      .ok (expected s (startKey fromTok) (min max maxEntriesPerList)) (listTokens s fromTok max).2 := by
  have hpage : (listTokens s fromTok max).1 =
      (expected s (startKey fromTok) (min max maxEntriesPerList)).map (·.token) := page_eq _ _ _
  generalize hE : expected s (startKey fromTok) (min max maxEntriesPerList) = E at hpage
  have hEs : SortedE E := hE ▸ expected_sorted s _ _ hs
  have hEm : ∀ e ∈ E, (e.token, e.payload) ∈ s := fun e he => (expected_mem (hE ▸ he)).1
  unfold listEntriesWith
  have hm0 : ¬ max = 0 := by omega
  simp only [hm0, if_false]
  by_cases hnil : (listTokens s fromTok max).1 = []
  · simp only [hnil, if_true]
    rw [hnil] at hpage
    have : E = [] := by cases E with | nil => rfl | cons a r => simp at hpage
    rw [this]
  · simp only [hnil, if_false]
    -- the completion order is the token column of a permutation of the expected entries
    rw [hpage] at hperm
    obtain ⟨C, hC, hCp⟩ : ∃ C : List Entry, C.map (·.token) = completion ∧ C.Perm E := by
      let f : Nat → Entry := fun k => ⟨k, (get s k).getD []⟩
      have hfE : (E.map (·.token)).map f = E := by
        rw [List.map_map]
        have : E.map (f ∘ fun e => e.token) = E.map id :=
          List.map_congr_left (fun e he => by simp [f, get_of_mem s hs _ _ (hEm e he)])
        rw [this, List.map_id]
      refine ⟨completion.map f, ?_, ?_⟩
      · rw [List.map_map]
        have : completion.map ((fun e : Entry => e.token) ∘ f) = completion.map id :=
          List.map_congr_left (fun k _ => rfl)
        rw [this, List.map_id]
      · have := hperm.map f
        rw [hfE] at this; exact this
    have hCm : ∀ e ∈ C, (e.token, e.payload) ∈ s := fun e he => hEm e (hCp.mem_iff.mp he)
    rw [← hC, fetchAll_eq dec s sg hn hext C hCm]
    have hCnd : (C.map (·.token)).Nodup := (List.Perm.map _ hCp).nodup_iff.mpr (sortedE_nodup hEs)
    obtain ⟨out, ho, hpo, hso⟩ := collect_ok C [] (by simp [SortedE]) hCnd (by simp)
    simp only [ho]
    have hout : out = E := sortedE_perm_eq hso hEs ((by simpa using hpo : out.Perm C).trans hCp)
    subst hout
    simp [hpage]

/-- while a listing is in flight further appends may land: the fetches then read a later store,
    and the result is still the one for the store the page was listed on -/
theorem C19_list_exact_during_appends (dec : Payload → Option Entry) (s : Store) (later : List Append)
    (fromTok max : Nat) (completion : List Nat)
    (hs : Sorted s) (hn : NoSelfRef dec s) (hmax : 0 < max)
    (hperm : completion.Perm (listTokens s fromTok max).1) :
    listEntriesWith dec s (run s later) fromTok max completion =
      .ok (expected s (startKey fromTok) (min max maxEntriesPerList)) (listTokens s fromTok max).2 :=
  C19_list_exact dec s (run s later) fromTok max completion hs hn
    (fun k p hm => get_of_mem _ (C19_store_sorted later s hs) k p
      ((C19_store_is_issued later s k p).mpr (Or.inl hm))) hmax hperm

theorem mem_take_or {α : Type} (R : α → α → Prop) (x : α) :
    ∀ (n : Nat) (l : List α), l.Pairwise R → x ∈ l →
      x ∈ l.take n ∨ ((l.take n).length = n ∧ ∀ y ∈ l.take n, R y x) := by
  intro n
  induction n with
  | zero => intro l _ _; right; simp
  | succ n ih =>
    intro l hp hx
    cases l with
    | nil => simp at hx
    | cons a r =>
      simp only [List.pairwise_cons] at hp
      rcases List.mem_cons.mp hx with rfl | hx'
      · left; simp
      · rcases ih r hp.2 hx' with h | ⟨h1, h2⟩
        · left; simp [h]
        · right
          refine ⟨by simp [h1], ?_⟩
          intro y hy
          simp only [List.take_succ_cons, List.mem_cons] at hy
          rcases hy with hya | hy
          · rw [hya]; exact hp.1 x hx'
          · exact h2 y hy

theorem startKey_le {fromTok k : Nat} (hguard : lookback ≤ time fromTok) (hfit : time fromTok < T)
    (hk : time fromTok - lookback ≤ time k) : startKey fromTok ≤ k := by
  have h0 : Facts.walStartPayload = 0 := by decide
  unfold startKey
  rw [h0]
  generalize lookback = L at *
  generalize time fromTok = tf at *
  unfold time at hk
  unfold mk
  unfold P T at *
  omega

/-- **lookback_complete** (store form): a stored entry whose token time is not more than the
    look-back before the time of `fromTok` (in particular every entry appended in the window
    `[time fromTok − lookback, time fromTok]`) is in the expected result, unless the result is
    full (`min max maxEntriesPerList` entries) with smaller tokens only. Domain guard: the 32-bit
    KSUID time does not underflow (`lookback ≤ time fromTok`). -/
theorem C19_lookback_complete (s : Store) (fromTok n k : Nat) (p : Payload) (hs : Sorted s)
    (hm : (k, p) ∈ s) (hguard : lookback ≤ time fromTok) (hfit : time fromTok < T)
    (hk : time fromTok - lookback ≤ time k) :
    (⟨k, p⟩ : Entry) ∈ expected s (startKey fromTok) n ∨
      ((expected s (startKey fromTok) n).length = n ∧ ∀ e ∈ expected s (startKey fromTok) n, e.token < k) := by
  have hge := startKey_le hguard hfit hk
  have hF : (k, p) ∈ s.filter (fun kv => decide (startKey fromTok ≤ kv.1)) := by
    simp [List.mem_filter, hm, hge]
  have hFs : (s.filter (fun kv => decide (startKey fromTok ≤ kv.1))).Pairwise (fun a b => a.1 < b.1) := by
    have := sorted_sublist (List.filter_sublist (l := s) (p := fun kv => decide (startKey fromTok ≤ kv.1))) hs
    simpa only [Sorted, keys, List.pairwise_map] using this
  rcases mem_take_or _ (k, p) n _ hFs hF with h | ⟨h1, h2⟩
  · left
    simp only [expected, List.mem_map]
    exact ⟨(k, p), h, rfl⟩
  · right
    refine ⟨by simp only [expected, List.length_map]; exact h1, ?_⟩
    intro e he
    simp only [expected, List.mem_map] at he
    obtain ⟨kv, hkv, rfl⟩ := he
    exact h2 kv hkv

theorem noSelfRef_run (dec : Payload → Option Entry) (h : List Append)
    (hn : ∀ e ∈ issued [] h, ∀ d, dec e.payload = some d → d.token = e.token → d = e) :
    NoSelfRef dec (run [] h) := by
  intro k p hm d hd ht
  rcases (C19_store_is_issued h [] k p).mp hm with h0 | h1
  · simp at h0
  · exact hn ⟨k, p⟩ h1 d hd ht

theorem sorted_nil : Sorted [] := by simp [Sorted, keys]

/-- **C19, history form.** After ANY history of appends on an empty log (concurrent appends in the
    order of their puts, arbitrary payloads, arbitrary — even colliding — random draws), for every
    `fromTok`, every `max > 0` and every completion order of the parallel fetches, `ListEntries`
    succeeds and its result
    * is in strictly increasing token order (so: no duplicates),
    * has at most `max` and at most `maxEntriesPerList` entries,
    * consists of entries that were appended (token returned by `Add`, payload unchanged) with
      token `≥` the back-dated start key,
    * contains every appended entry whose token time is within the look-back before `fromTok`
      — unless it is full, and then only of smaller tokens. -/
theorem C19_wal_returns_appended (dec : Payload → Option Entry) (h : List Append)
    (fromTok max : Nat) (completion : List Nat) (hmax : 0 < max)
    (hn : ∀ e ∈ issued [] h, ∀ d, dec e.payload = some d → d.token = e.token → d = e)
    (hperm : completion.Perm (listTokens (run [] h) fromTok max).1) :
    ∃ out next, listEntriesWith dec (run [] h) (run [] h) fromTok max completion = .ok out next ∧
      SortedE out ∧ out.length ≤ max ∧ out.length ≤ maxEntriesPerList ∧
      (∀ e ∈ out, e ∈ issued [] h ∧ startKey fromTok ≤ e.token) ∧
      (∀ e ∈ issued [] h, lookback ≤ time fromTok → time fromTok < T →
        time fromTok - lookback ≤ time e.token →
        e ∈ out ∨ (out.length = min max maxEntriesPerList ∧ ∀ x ∈ out, x.token < e.token)) := by
  have hs : Sorted (run [] h) := C19_store_sorted h [] sorted_nil
  have hex := C19_list_exact dec (run [] h) (run [] h) fromTok max completion hs (noSelfRef_run dec h hn)
    (fun k p hm => get_of_mem _ hs k p hm) hmax hperm
  refine ⟨_, _, hex, expected_sorted _ _ _ hs, ?_, ?_, ?_, ?_⟩
  · have : (expected (run [] h) (startKey fromTok) (min max maxEntriesPerList)).length ≤ min max maxEntriesPerList := by
      simp only [expected, List.length_map, List.length_take]; exact Nat.min_le_left _ _
    omega
  · have : (expected (run [] h) (startKey fromTok) (min max maxEntriesPerList)).length ≤ min max maxEntriesPerList := by
      simp only [expected, List.length_map, List.length_take]; exact Nat.min_le_left _ _
    omega
  · intro e he
    obtain ⟨h1, h2⟩ := expected_mem he
    refine ⟨?_, h2⟩
    rcases (C19_store_is_issued h [] e.token e.payload).mp h1 with h0 | h1
    · simp at h0
    · exact h1
  · intro e he hguard hfit hk
    have hm : (e.token, e.payload) ∈ run [] h := (C19_store_is_issued h [] e.token e.payload).mpr (Or.inr he)
    exact C19_lookback_complete (run [] h) fromTok _ e.token e.payload hs hm hguard hfit hk

/-! ### concurrent appends: the order of the puts does not matter -/

def Append.entry (a : Append) : Entry := ⟨newToken a.t a.nonce, a.payload⟩

theorem issued_all (h : List Append) : ∀ s, Sorted s → ((h.map (·.entry.token)).Nodup) →
    (∀ a ∈ h, a.entry.token ∉ keys s) → issued s h = h.map (·.entry) := by
  induction h with
  | nil => intro s _ _ _; rfl
  | cons a r ih =>
    intro s hs hnd hdis
    simp only [List.map_cons, List.nodup_cons] at hnd
    simp only [issued]
    split
    · rename_i s' tok heq
      obtain ⟨h1, _, h3⟩ := add_some heq
      have hdis' : ∀ b ∈ r, b.entry.token ∉ keys s' := by
        intro b hb hm
        subst h3
        rcases (mem_keys_insert _ _ _ _).mp hm with he | hm
        · apply hnd.1; rw [h1] at he; exact List.mem_map.mpr ⟨b, hb, he⟩
        · exact hdis b (by simp [hb]) hm
      rw [ih s' (add_sorted hs heq) hnd.2 hdis', h1]
      rfl
    · rename_i heq
      exact absurd (add_none heq) (hdis a (by simp))

/-- appends with pairwise distinct fresh tokens commute: whatever order their puts happen in
    (1..16 goroutines in the harness), the log ends up the same. -/
theorem C19_appends_commute (s : Store) (h₁ h₂ : List Append) (hs : Sorted s) (hp : h₁.Perm h₂)
    (hnd : (h₁.map (·.entry.token)).Nodup) (hdis : ∀ a ∈ h₁, a.entry.token ∉ keys s) :
    run s h₁ = run s h₂ := by
  have hnd₂ : (h₂.map (·.entry.token)).Nodup := (hp.map _).nodup_iff.mp hnd
  have hdis₂ : ∀ a ∈ h₂, a.entry.token ∉ keys s := fun a ha => hdis a (hp.mem_iff.mpr ha)
  have s₁ := C19_store_sorted h₁ s hs
  have s₂ := C19_store_sorted h₂ s hs
  have key : ∀ {l₁ l₂ : Store}, Sorted l₁ → Sorted l₂ → (∀ x, x ∈ l₁ ↔ x ∈ l₂) → l₁ = l₂ := by
    intro l₁ l₂ a b hm
    have n₁ : l₁.Nodup := by
      have : (keys l₁).Nodup := List.Pairwise.imp (fun h => Nat.ne_of_lt h) a
      exact List.Pairwise.of_map (·.1) (fun _ _ hne heq => hne (by rw [heq])) this
    have n₂ : l₂.Nodup := by
      have : (keys l₂).Nodup := List.Pairwise.imp (fun h => Nat.ne_of_lt h) b
      exact List.Pairwise.of_map (·.1) (fun _ _ hne heq => hne (by rw [heq])) this
    have hperm : l₁.Perm l₂ := (List.perm_ext_iff_of_nodup n₁ n₂).mpr hm
    have a' : l₁.Pairwise (fun x y => x.1 < y.1) := by simpa only [Sorted, keys, List.pairwise_map] using a
    have b' : l₂.Pairwise (fun x y => x.1 < y.1) := by simpa only [Sorted, keys, List.pairwise_map] using b
    exact List.Perm.eq_of_pairwise (le := fun (x y : Nat × Payload) => x.1 < y.1)
      (fun _ _ _ _ hab hba => absurd hab (Nat.lt_asymm hba)) a' b' hperm
  apply key s₁ s₂
  rintro ⟨k, p⟩
  rw [C19_store_is_issued, C19_store_is_issued, issued_all h₁ s hs hnd hdis, issued_all h₂ s hs hnd₂ hdis₂]
  constructor
  · rintro (h | h)
    · exact Or.inl h
    · exact Or.inr ((hp.map _).mem_iff.mp h)
  · rintro (h | h)
    · exact Or.inl h
    · exact Or.inr ((hp.map _).mem_iff.mpr h)

/-! ### side conditions discharged on the facts extracted from the Go source -/

/-- the look-back window is not empty, fits the 32-bit KSUID time (the wrap-around model of
    `startKey` is the Go arithmetic), and a page is not empty -/
theorem C19_window_facts : 0 < lookback ∧ lookback ≤ T ∧ 0 < maxEntriesPerList ∧ Facts.walListPrefix = "" := by
  decide

/-! ### non-vacuity -/

/-- the decoder that never recognises a descriptor satisfies `NoSelfRef` on every store -/
example (s : Store) : NoSelfRef (fun _ => none) s := by intro k p _ e he; simp at he

/-- a decoder that recognises descriptors, on a payload naming ANOTHER token: harmless -/
example : NoSelfRef (fun b => if b = [1] then some ⟨5, [2]⟩ else none) [(7, [1])] := by
  intro k p hm e he ht
  simp only [List.mem_singleton, Prod.mk.injEq] at hm
  obtain ⟨rfl, rfl⟩ := hm
  simp at he; subst he; simp at ht

def h3 : List Append := [⟨209459200, 9, [1, 2]⟩, ⟨209459200, 4, []⟩, ⟨209459201, 1, [3]⟩]

/-- a concrete history (two appends in the same second, one a second later), a listing from the
    first issued token with the fetches completing in a scrambled order: all hypotheses of
    `C19_wal_returns_appended` hold and the result is the three entries in token order -/
example :
    listEntriesWith (fun _ => none) (run [] h3) (run [] h3) (newToken 209459200 9) 10
      [newToken 209459201 1, newToken 209459200 9, newToken 209459200 4] =
    .ok [⟨newToken 209459200 4, []⟩, ⟨newToken 209459200 9, [1, 2]⟩, ⟨newToken 209459201 1, [3]⟩] none := by
  decide +kernel

example : [newToken 209459201 1, newToken 209459200 9, newToken 209459200 4].Perm
    (listTokens (run [] h3) (newToken 209459200 9) 10).1 := by
  have : (listTokens (run [] h3) (newToken 209459200 9) 10).1 =
      [newToken 209459200 4, newToken 209459200 9, newToken 209459201 1] := by decide +kernel
  rw [this]
  exact List.reverse_perm [newToken 209459200 4, newToken 209459200 9, newToken 209459201 1]

/-- the domain guard of `C19_lookback_complete` holds for present-day tokens -/
example : lookback ≤ time (newToken 209459200 9) ∧ time (newToken 209459200 9) < T := by decide +kernel

/-! ### negation witnesses: what is NOT claimed, and why the hypotheses are needed -/

/-- appends within the same second are not ordered by issue time: the later one (generator
    time 999 ms later) drew a smaller payload and sorts first. -/
theorem C19_neg_same_second_unordered :
    newToken (tokenTime 209459200999) 3 < newToken (tokenTime 209459200000) 5 := by decide +kernel

/-- if `Add` put with `OverWrite`, a colliding draw would silently replace an entry -/
theorem C19_neg_overwrite_loses_entry : put [(5, [1])] 5 [2] false = some [(5, [2])] := by decide

/-- with no-overwrite the colliding append fails and the log is unchanged -/
theorem C19_collision_fails : add [(newToken 7 3, [1])] 7 3 [2] = none := by decide +kernel

/-- a blob that IS an entry descriptor carrying its own key is decoded (the pinned
    `TestWAL_ListEntries` stores such blobs): a payload that managed to name its own future
    token would come back altered. `Add` cannot produce it (the 128 random bits of the token are
    drawn after the payload is fixed); hence the `NoSelfRef` hypothesis. -/
theorem C19_neg_selfref_payload :
    listEntries (fun b => if b = [1] then some ⟨newToken 10000 7, [2]⟩ else none)
      (run [] [⟨10000, 7, [1]⟩]) (newToken 10000 7) 10 = .ok [⟨newToken 10000 7, [2]⟩] none := by
  decide +kernel

/-- outside the domain guard: a `fromTok` less than the look-back after the KSUID epoch (May
    2014) makes the 32-bit start time wrap around, and an entry inside the window is not listed -/
theorem C19_neg_lookback_underflow :
    time (newToken 5 7) ≤ time (newToken 10 0) ∧
    listEntries (fun _ => none) (run [] [⟨5, 7, [1]⟩]) (newToken 10 0) 10 = .ok [] none := by
  decide +kernel

/-- "up to the requested maximum": an entry inside the window is cut by `max` -/
theorem C19_neg_cut_by_max :
    listEntries (fun _ => none) (run [] h3) (newToken 209459200 9) 2 =
      .ok [⟨newToken 209459200 4, []⟩, ⟨newToken 209459200 9, [1, 2]⟩] (some (newToken 209459201 1)) := by
  decide +kernel

/-- what the unfixed reader ran into: every blob decoded to the entry with the empty token, and
    the second response with the same token is the `panic` of `collectParallelResponses` -/
theorem C19_neg_equal_tokens_panic : collect [] [⟨0, []⟩, ⟨0, []⟩] = none := by decide

end Wal
