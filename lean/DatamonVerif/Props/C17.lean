import DatamonVerif.Model.FuseRO
/-! C17 — a read-only mount shows exactly the bundle.

Theorems about the model `FuseRO` (`Model/FuseRO.lean`) of `pkg/fuse/fs_ro_ops.go`, for every
bundle whose entry paths are non-empty and prefix-free (`Valid`: pairwise distinct, and no file
is also needed as a directory), whatever the order of the entries:

* `C17_populate_ok`     — no table insertion collides: the mount succeeds;
* `C17_tree_exact`      — successive lookups from the root succeed exactly on the entries (files,
                          with their size), their proper ancestors (directories) and the root;
* `C17_readdir_exact`   — a directory's listing table = its immediate children, each once, with the
                          inode/kind that `LookUpInode` reports, offsets = position + 1;
* `C17_readdir_resume`  — any listing session (per-page buffer sizes ≥ one dirent, resumption at
                          the offset of any consumed dirent, any valid start offset) yields the
                          children from there on, each exactly once;
* `C17_inode_unique`, `C17_getattr_exact` — different paths have different inodes; the inode
                          table holds the tree's nodes and nothing else;
* `C17_read_exact`      — `ReadFile` = `(content.drop off).take n` in both mount modes (streamed:
                          read back from the leaves).

Proof plan: `WF` (consistency of the four tables) is preserved by inserting one child under a
reachable directory (`insertNode_child`, which also characterises `resolveR` afterwards); the
queue of `WithNodesFromEntry` inserts a file *before* its new ancestors, so the first insertion
is moved to the end (`insertAll_rotate`: insertions with different keys commute) and `walk_ok`
follows the recursion of `walk`; `Inv` is the invariant of the loop over the entries. -/
namespace FuseRO

/-! ### resolution on reversed paths -/

/-- `resolve` on a reversed path (last component first) -/
def resolveR (fs : FS) : List String → Option Node
  | [] => fs.byInode rootInode
  | nm :: up =>
    match resolveR fs up with
    | some p => fs.lookup (p.inode, nm)
    | none => none

theorem walkDown_append (fs : FS) (p : Path) (nm : String) :
    ∀ x, walkDown fs x (p ++ [nm]) =
      match walkDown fs x p with
      | some y => fs.lookup (y.inode, nm)
      | none => none := by
  induction p with
  | nil =>
    intro x
    simp only [List.nil_append, walkDown, lookUp]
    cases fs.lookup (x.inode, nm) <;> simp
  | cons a r ih =>
    intro x
    simp only [List.cons_append, walkDown]
    cases h : lookUp fs x.inode a with
    | none => simp
    | some y => simp [ih y]

theorem resolve_reverse (fs : FS) (rp : List String) : resolve fs rp.reverse = resolveR fs rp := by
  induction rp with
  | nil =>
    simp only [resolve, getAttr, List.reverse_nil, resolveR]
    cases fs.byInode rootInode <;> simp [walkDown]
  | cons nm up ih =>
    simp only [List.reverse_cons, resolveR]
    rw [← ih]
    simp only [resolve, getAttr]
    cases h : fs.byInode rootInode with
    | none => simp
    | some r => simp only [walkDown_append]

theorem resolve_eq_resolveR (fs : FS) (p : Path) : resolve fs p = resolveR fs p.reverse := by
  have := resolve_reverse fs p.reverse
  rwa [List.reverse_reverse] at this


/-! ### well-formed tables -/

structure WF (fs : FS) : Prop where
  root : fs.byInode rootInode = some (dirNode rootInode)
  ino : ∀ i x, fs.byInode i = some x → x.inode = i
  nl : ∀ i x, fs.byInode i = some x → (x.nlink == Facts.fuseDirLinkCount) = x.dir
  lk_child : ∀ k x, fs.lookup k = some x → fs.byInode x.inode = some x ∧ x.inode ≠ rootInode
  lk_parent : ∀ k x, fs.lookup k = some x → ∃ p, fs.byInode k.1 = some p ∧ p.dir = true
  lk_inj : ∀ k k' x y, fs.lookup k = some x → fs.lookup k' = some y → x.inode = y.inode → k = k'
  reach : ∀ i x, fs.byInode i = some x → ∃ rp, resolveR fs rp = some x
  ds : ∀ rp i, rp ≠ [] →
    (fs.dirStore rp = some i ↔ ∃ x, resolveR fs rp = some x ∧ x.dir = true ∧ x.inode = i)
  rd_nodup : ∀ p, ((children fs p).map (·.name)).Nodup
  rd_sound : ∀ p d, d ∈ children fs p →
    ∃ x, fs.lookup (p, d.name) = some x ∧ x.inode = d.inode ∧ x.dir = d.dir
  rd_complete : ∀ p nm x, fs.lookup (p, nm) = some x → nm ∈ (children fs p).map (·.name)
  rd_off : ∀ p j d, (children fs p)[j]? = some d → d.offset = j + 1
  rd_root : (fs.readdir rootInode).isSome = true

theorem resolveR_cons (fs : FS) (nm : String) (up : List String) (p : Node) (h : resolveR fs up = some p) :
    resolveR fs (nm :: up) = fs.lookup (p.inode, nm) := by
  simp [resolveR, h]

theorem resolveR_byInode {fs : FS} (h : WF fs) :
    ∀ rp x, resolveR fs rp = some x → fs.byInode x.inode = some x := by
  intro rp x hx
  cases rp with
  | nil =>
    simp only [resolveR] at hx
    have := h.ino _ _ hx
    rw [this]; exact hx
  | cons nm up =>
    simp only [resolveR] at hx
    split at hx
    · exact (h.lk_child _ _ hx).1
    · cases hx

/-- distinct paths resolve to distinct inodes -/
theorem resolveR_inj {fs : FS} (h : WF fs) :
    ∀ rp rq x y, resolveR fs rp = some x → resolveR fs rq = some y → x.inode = y.inode → rp = rq := by
  intro rp
  induction rp with
  | nil =>
    intro rq x y hx hy hxy
    cases rq with
    | nil => rfl
    | cons nm up =>
      exfalso
      simp only [resolveR] at hx hy
      rw [h.root] at hx
      cases hx
      split at hy
      · have := (h.lk_child _ _ hy).2
        exact this hxy.symm
      · cases hy
  | cons nm up ih =>
    intro rq x y hx hy hxy
    cases rq with
    | nil =>
      exfalso
      simp only [resolveR] at hx hy
      rw [h.root] at hy
      cases hy
      split at hx
      · exact (h.lk_child _ _ hx).2 hxy
      · cases hx
    | cons nm' up' =>
      simp only [resolveR] at hx hy
      split at hx
      · rename_i p hp
        split at hy
        · rename_i q hq
          have hk := h.lk_inj _ _ _ _ hx hy hxy
          simp only [Prod.mk.injEq] at hk
          have := ih up' p q hp hq hk.1
          rw [this, hk.2]
        · cases hy
      · cases hx


/-! ### inserting one child under a directory that is already reachable -/

theorem children_upd (fs : FS) (p : Nat) (l : List Dirent) (q : Nat) :
    children { fs with readdir := upd fs.readdir p (some l) } q = if q = p then l else children fs q := by
  simp only [children, upd]
  split <;> simp

theorem insertNode_child {fs : FS} (h : WF fs) (up : List String) (pn : Node) (nm : String) (x : Node)
    (hup : resolveR fs up = some pn) (hdir : pn.dir = true)
    (hnew : fs.lookup (pn.inode, nm) = none)
    (hfresh : fs.byInode x.inode = none) (hx : x.inode ≠ rootInode)
    (hnl : (x.nlink == Facts.fuseDirLinkCount) = x.dir) :
    ∃ fs', insertNode fs ⟨pn.inode, nm, nm :: up, x⟩ = some fs' ∧ WF fs' ∧
      (∀ rp, resolveR fs' rp = if rp = nm :: up then some x else resolveR fs rp) ∧
      (∀ i, fs'.byInode i = if i = x.inode then some x else fs.byInode i) ∧
      (∀ rp, fs'.dirStore rp = if x.dir = true ∧ rp = nm :: up then some x.inode else fs.dirStore rp) := by
  have hnewR : resolveR fs (nm :: up) = none := by simp [resolveR, hup, hnew]
  have hds0 : fs.dirStore (nm :: up) = none := by
    cases h' : fs.dirStore (nm :: up) with
    | none => rfl
    | some i =>
      obtain ⟨y, hy, _⟩ := (h.ds (nm :: up) i (by simp)).mp h'
      rw [hnewR] at hy; cases hy
  have hpn : fs.byInode pn.inode = some pn := resolveR_byInode h _ _ hup
  have hne : x.inode ≠ pn.inode := by
    intro e; rw [e, hpn] at hfresh; cases hfresh
  have hnolk : ∀ n, fs.lookup (x.inode, n) = none := by
    intro n
    cases h' : fs.lookup (x.inode, n) with
    | none => rfl
    | some y =>
      obtain ⟨p, hp, _⟩ := h.lk_parent _ _ h'
      rw [hfresh] at hp; cases hp
  have hnochild : ∀ k y, fs.lookup k = some y → y.inode ≠ x.inode := by
    intro k y hk e
    have := (h.lk_child _ _ hk).1
    rw [e, hfresh] at this; cases this
  let fs' : FS :=
    { dirStore := if (x.nlink == Facts.fuseDirLinkCount) then upd fs.dirStore (nm :: up) (some x.inode) else fs.dirStore
      byInode := upd fs.byInode x.inode (some x)
      lookup := upd fs.lookup (pn.inode, nm) (some x)
      readdir := upd fs.readdir pn.inode
        (some (children fs pn.inode ++ [⟨(children fs pn.inode).length + 1, x.inode, nm, x.nlink == Facts.fuseDirLinkCount⟩])) }
  have hins : insertNode fs ⟨pn.inode, nm, nm :: up, x⟩ = some fs' := by
    simp [insertNode, hds0, hfresh, hnew, fs']
  have hb : ∀ i, fs'.byInode i = if i = x.inode then some x else fs.byInode i := fun _ => rfl
  have hl : ∀ k, fs'.lookup k = if k = (pn.inode, nm) then some x else fs.lookup k := fun _ => rfl
  have hd : ∀ rp, fs'.dirStore rp = if x.dir = true ∧ rp = nm :: up then some x.inode else fs.dirStore rp := by
    intro rp
    simp only [fs', hnl]
    cases x.dir <;> simp [upd]
  have hch : ∀ q, children fs' q = if q = pn.inode then
      children fs pn.inode ++ [⟨(children fs pn.inode).length + 1, x.inode, nm, x.nlink == Facts.fuseDirLinkCount⟩]
      else children fs q := by
    intro q
    simp only [children, fs', upd]
    split <;> simp
  have hres : ∀ rp, resolveR fs' rp = if rp = nm :: up then some x else resolveR fs rp := by
    intro rp
    induction rp with
    | nil =>
      simp only [resolveR, hb]
      rw [if_neg (Ne.symm hx)]
      simp
    | cons a r ih =>
      simp only [resolveR, ih]
      by_cases hr : r = nm :: up
      · subst hr
        simp only [if_true, hl, Prod.mk.injEq]
        rw [if_neg (fun e => hne e.1), hnolk, hnewR]
        rw [if_neg]
        intro e
        have := congrArg List.length e
        simp at this
      · rw [if_neg hr]
        cases hq : resolveR fs r with
        | none =>
          simp only
          rw [if_neg]
          intro e
          simp only [List.cons.injEq] at e
          rw [e.2, hup] at hq; cases hq
        | some q =>
          simp only [hl, Prod.mk.injEq]
          by_cases hk : q.inode = pn.inode ∧ a = nm
          · rw [if_pos hk]
            have : r = up := resolveR_inj h _ _ _ _ hq hup hk.1
            rw [this, hk.2]; simp
          · rw [if_neg hk, if_neg]
            intro e
            simp only [List.cons.injEq] at e
            apply hk
            rw [e.2, hup] at hq
            cases hq
            exact ⟨rfl, e.1⟩
  have hmono : ∀ rp y, resolveR fs rp = some y → resolveR fs' rp = some y := by
    intro rp y hy
    rw [hres]
    rw [if_neg]; exact hy
    intro e; rw [e, hnewR] at hy; cases hy
  refine ⟨fs', hins, ?_, hres, hb, hd⟩
  constructor
  · -- root
    rw [hb, if_neg (Ne.symm hx)]; exact h.root
  · -- ino
    intro i y hy
    rw [hb] at hy
    split at hy
    · cases hy; rename_i e; exact e.symm
    · exact h.ino _ _ hy
  · -- nl
    intro i y hy
    rw [hb] at hy
    split at hy
    · cases hy; exact hnl
    · exact h.nl _ _ hy
  · -- lk_child
    intro k y hy
    rw [hl] at hy
    split at hy
    · cases hy
      rw [hb]; simp [hx]
    · have := h.lk_child _ _ hy
      rw [hb, if_neg (hnochild _ _ hy)]
      exact this
  · -- lk_parent
    intro k y hy
    rw [hl] at hy
    split at hy
    · rename_i e
      refine ⟨pn, ?_, hdir⟩
      rw [hb, e]; simp only
      rw [if_neg (Ne.symm hne)]; exact hpn
    · obtain ⟨p, hp, hpd⟩ := h.lk_parent _ _ hy
      refine ⟨p, ?_, hpd⟩
      rw [hb, if_neg]; exact hp
      intro e; rw [e, hfresh] at hp; cases hp
  · -- lk_inj
    intro k k' y z hy hz hyz
    rw [hl] at hy hz
    split at hy
    · rename_i e
      cases hy
      split at hz
      · rename_i e'; rw [e, e']
      · exact absurd hyz.symm (hnochild _ _ hz)
    · split at hz
      · cases hz
        exact absurd hyz (hnochild _ _ hy)
      · exact h.lk_inj _ _ _ _ hy hz hyz
  · -- reach
    intro i y hy
    rw [hb] at hy
    split at hy
    · cases hy
      exact ⟨nm :: up, by rw [hres]; simp⟩
    · obtain ⟨rp, hrp⟩ := h.reach _ _ hy
      exact ⟨rp, hmono _ _ hrp⟩
  · -- ds
    intro rp i hrp
    rw [hd, hres]
    by_cases e : rp = nm :: up
    · subst e
      simp only [and_true, if_true]
      constructor
      · intro hh
        split at hh
        · rename_i hxd
          cases hh
          exact ⟨x, rfl, hxd, rfl⟩
        · rw [hds0] at hh; cases hh
      · rintro ⟨y, hy, hyd, hyi⟩
        cases hy
        rw [if_pos hyd, hyi]
    · rw [if_neg (fun c => e c.2), if_neg e]
      exact h.ds rp i hrp
  · -- rd_nodup
    intro p
    rw [hch]
    split
    · rw [List.map_append, List.nodup_append]
      refine ⟨h.rd_nodup _, by simp, ?_⟩
      intro a ha b hb' e
      simp only [List.map_cons, List.map_nil, List.mem_singleton] at hb'
      subst hb'
      subst e
      obtain ⟨d, hd1, hd2⟩ := List.mem_map.mp ha
      obtain ⟨y, hy, _⟩ := h.rd_sound _ _ hd1
      rw [hd2, hnew] at hy; cases hy
    · exact h.rd_nodup _
  · -- rd_sound
    intro p d hdm
    rw [hch] at hdm
    split at hdm
    · rename_i e
      subst e
      rcases List.mem_append.mp hdm with hd1 | hd1
      · obtain ⟨y, hy, hy2⟩ := h.rd_sound _ _ hd1
        refine ⟨y, ?_, hy2⟩
        rw [hl, if_neg]; exact hy
        intro e
        simp only [Prod.mk.injEq, true_and] at e
        rw [e, hnew] at hy; cases hy
      · simp only [List.mem_singleton] at hd1
        subst hd1
        exact ⟨x, by rw [hl]; simp, rfl, hnl.symm⟩
    · rename_i e
      obtain ⟨y, hy, hy2⟩ := h.rd_sound _ _ hdm
      refine ⟨y, ?_, hy2⟩
      rw [hl, if_neg]; exact hy
      intro c
      simp only [Prod.mk.injEq] at c
      exact e c.1
  · -- rd_complete
    intro p n y hy
    rw [hl] at hy
    rw [hch]
    split at hy
    · rename_i e
      simp only [Prod.mk.injEq] at e
      rw [if_pos e.1, e.2]
      simp
    · have := h.rd_complete _ _ _ hy
      split
      · rename_i e; subst e
        rw [List.map_append]
        exact List.mem_append_left _ this
      · exact this
  · -- rd_off
    intro p j d hj
    rw [hch] at hj
    split at hj
    · by_cases hlt : j < (children fs pn.inode).length
      · rw [List.getElem?_append_left hlt] at hj
        exact h.rd_off _ _ _ hj
      · rw [List.getElem?_append_right (by omega)] at hj
        cases hjj : j - (children fs pn.inode).length with
        | zero =>
          rw [hjj] at hj
          simp only [List.getElem?_cons_zero, Option.some.injEq] at hj
          subst hj
          simp only
          omega
        | succ k =>
          rw [hjj] at hj
          simp at hj
    · exact h.rd_off _ _ _ hj
  · -- rd_root
    show (upd fs.readdir pn.inode _ rootInode).isSome = true
    simp only [upd]
    split
    · rfl
    · exact h.rd_root


/-! ### insertions with different keys commute -/

def bad (fs : FS) (a : Add) : Bool :=
  ((a.node.nlink == Facts.fuseDirLinkCount) && (fs.dirStore a.rpath).isSome) || (fs.byInode a.node.inode).isSome
      || (fs.lookup (a.parent, a.name)).isSome

def ins (fs : FS) (a : Add) : FS :=
  { dirStore := if (a.node.nlink == Facts.fuseDirLinkCount) then upd fs.dirStore a.rpath (some a.node.inode) else fs.dirStore
    byInode := upd fs.byInode a.node.inode (some a.node)
    lookup := upd fs.lookup (a.parent, a.name) (some a.node)
    readdir := upd fs.readdir a.parent
      (some (children fs a.parent ++ [⟨(children fs a.parent).length + 1, a.node.inode, a.name, a.node.nlink == Facts.fuseDirLinkCount⟩])) }

theorem insertNode_eq (fs : FS) (a : Add) : insertNode fs a = if bad fs a then none else some (ins fs a) := rfl

theorem bad_ins (fs : FS) (a b : Add) (h1 : a.node.inode ≠ b.node.inode) (h2 : a.parent ≠ b.parent)
    (h3 : a.rpath ≠ b.rpath) : bad (ins fs a) b = bad fs b := by
  have e1 : (ins fs a).dirStore b.rpath = fs.dirStore b.rpath := by
    simp only [ins]
    split
    · simp [upd, Ne.symm h3]
    · rfl
  have e2 : (ins fs a).byInode b.node.inode = fs.byInode b.node.inode := by
    simp [ins, upd, Ne.symm h1]
  have e3 : (ins fs a).lookup (b.parent, b.name) = fs.lookup (b.parent, b.name) := by
    simp [ins, upd, Ne.symm h2]
  simp only [bad, e1, e2, e3]

theorem children_ins (fs : FS) (a : Add) (q : Nat) (h : q ≠ a.parent) : children (ins fs a) q = children fs q := by
  simp [children, ins, upd, h]

theorem ins_comm (fs : FS) (a b : Add) (h1 : a.node.inode ≠ b.node.inode) (h2 : a.parent ≠ b.parent)
    (h3 : a.rpath ≠ b.rpath) : ins (ins fs a) b = ins (ins fs b) a := by
  have c1 := children_ins fs a b.parent (Ne.symm h2)
  have c2 := children_ins fs b a.parent h2
  simp only [ins] at c1 c2 ⊢
  simp only [FS.mk.injEq, c1, c2]
  refine ⟨?_, ?_, ?_, ?_⟩
  · funext rp
    by_cases ha : (a.node.nlink == Facts.fuseDirLinkCount) = true <;>
    by_cases hb : (b.node.nlink == Facts.fuseDirLinkCount) = true <;>
    simp only [ha, hb, if_true, if_false, upd, Bool.false_eq_true]
    by_cases e1 : rp = b.rpath
    · subst e1; simp [Ne.symm h3]
    · simp [e1]
  · funext k
    simp only [upd]
    by_cases e1 : k = (b.parent, b.name)
    · subst e1
      simp [Ne.symm h2]
    · simp [e1]
  · funext i
    simp only [upd]
    by_cases e1 : i = b.node.inode
    · subst e1; simp [Ne.symm h1]
    · simp [e1]
  · funext i
    simp only [upd]
    by_cases e1 : i = b.parent
    · subst e1; simp [Ne.symm h2]
    · simp [e1]

theorem insertNode_comm (fs : FS) (a b : Add) (h1 : a.node.inode ≠ b.node.inode) (h2 : a.parent ≠ b.parent)
    (h3 : a.rpath ≠ b.rpath) :
    (insertNode fs a).bind (fun f => insertNode f b) = (insertNode fs b).bind (fun f => insertNode f a) := by
  simp only [insertNode_eq]
  by_cases ha : bad fs a = true <;> by_cases hb : bad fs b = true
  · simp [ha, hb]
  · simp [ha, hb, bad_ins fs b a (Ne.symm h1) (Ne.symm h2) (Ne.symm h3)]
  · simp [ha, hb, bad_ins fs a b h1 h2 h3]
  · simp [ha, hb, bad_ins fs a b h1 h2 h3, bad_ins fs b a (Ne.symm h1) (Ne.symm h2) (Ne.symm h3),
      ins_comm fs a b h1 h2 h3]

def Indep (a b : Add) : Prop := a.node.inode ≠ b.node.inode ∧ a.parent ≠ b.parent ∧ a.rpath ≠ b.rpath

theorem insertAll_none : ∀ l, (none : Option FS).bind (fun f => insertAll f l) = none := by
  intro l; rfl

theorem insertAll_cons (fs : FS) (a : Add) (l : List Add) :
    insertAll fs (a :: l) = (insertNode fs a).bind (fun f => insertAll f l) := by
  simp only [insertAll]
  cases insertNode fs a <;> rfl

/-- the first insertion of a queue can be done last when it is independent of the others -/
theorem insertAll_rotate (a : Add) : ∀ (l : List Add) (fs : FS), (∀ b ∈ l, Indep a b) →
    insertAll fs (a :: l) = (insertAll fs l).bind (fun f => insertNode f a) := by
  intro l
  induction l with
  | nil =>
    intro fs _
    simp only [insertAll, Option.bind_some]
    cases insertNode fs a <;> rfl
  | cons b l ih =>
    intro fs hind
    have hab := hind b (List.mem_cons_self)
    rw [insertAll_cons, insertAll_cons fs b]
    have hcomm := insertNode_comm fs a b hab.1 hab.2.1 hab.2.2
    -- insert a, then b :: l  =  (insert a; insert b); l
    have step1 : (insertNode fs a).bind (fun f => insertAll f (b :: l)) =
        ((insertNode fs a).bind (fun f => insertNode f b)).bind (fun f => insertAll f l) := by
      cases insertNode fs a with
      | none => rfl
      | some f => simp only [Option.bind_some, insertAll_cons]
    rw [step1, hcomm]
    cases hb : insertNode fs b with
    | none => rfl
    | some f =>
      simp only [Option.bind_some]
      have := ih f (fun c hc => hind c (List.mem_cons_of_mem _ hc))
      rw [insertAll_cons] at this
      exact this


/-! ### the queue built by `WithNodesFromEntry` -/

theorem walk_mem (ds : List String → Option Nat) :
    ∀ (up : List String) (n : Nat) (me : Node) (nm : String), me.inode = n →
      ∀ t ∈ (walk ds n me nm up).1,
        n ≤ t.node.inode ∧ t.rpath.length ≤ up.length + 1 ∧
        (t.parent = rootInode ∨ (∃ rp, rp ≠ [] ∧ ds rp = some t.parent) ∨ n < t.parent) := by
  intro up
  induction up with
  | nil =>
    intro n me nm hme t ht
    simp only [walk, List.mem_singleton] at ht
    subst ht
    simp [hme]
  | cons d up ih =>
    intro n me nm hme t ht
    simp only [walk] at ht
    split at ht
    · rename_i pi hpi
      simp only [List.mem_singleton] at ht
      subst ht
      refine ⟨by simp [hme], by simp, Or.inr (Or.inl ⟨_, by simp, hpi⟩)⟩
    · simp only [List.mem_cons] at ht
      rcases ht with ht | ht
      · subst ht
        refine ⟨by simp [hme], by simp, Or.inr (Or.inr (by simp))⟩
      · obtain ⟨h1, h2, h3⟩ := ih (n + 1) (dirNode (n + 1)) d rfl t ht
        refine ⟨by omega, by simp only [List.length_cons]; omega, ?_⟩
        rcases h3 with h3 | h3 | h3
        · exact Or.inl h3
        · exact Or.inr (Or.inl h3)
        · exact Or.inr (Or.inr (by omega))

theorem walk_counter (ds : List String → Option Nat) :
    ∀ (up : List String) (n : Nat) (me : Node) (nm : String), n ≤ (walk ds n me nm up).2 := by
  intro up
  induction up with
  | nil => intro n me nm; simp [walk]
  | cons d up ih =>
    intro n me nm
    simp only [walk]
    split
    · exact Nat.le_refl _
    · have := ih (n + 1) (dirNode (n + 1)) d
      simp only
      omega


/-- what holds after the queue of one node has been inserted -/
structure Step (fs fs' : FS) (n n' : Nat) (me : Node) (nm : String) (up : List String) : Prop where
  wf : WF fs'
  bound : ∀ i y, fs'.byInode i = some y → i ≤ n'
  le : n ≤ n'
  old : ∀ i y, fs'.byInode i = some y → fs.byInode i = some y ∨ n ≤ i
  at_me : resolveR fs' (nm :: up) = some me
  mono : ∀ rp y, resolveR fs rp = some y → resolveR fs' rp = some y
  new : ∀ rp y, resolveR fs' rp = some y →
    resolveR fs rp = some y ∨ (rp = nm :: up ∧ y = me) ∨ (rp <:+ up ∧ rp ≠ [] ∧ y.dir = true)

theorem insertAll_single (fs : FS) (a : Add) : insertAll fs [a] = insertNode fs a := by
  simp only [insertAll]
  cases insertNode fs a <;> rfl

/-- one node under a reachable directory: the `Step` facts -/
theorem step_child {fs : FS} (h : WF fs) (n : Nat) (up : List String) (pn : Node) (nm : String) (me : Node)
    (hbound : ∀ i y, fs.byInode i = some y → i < n) (hroot : rootInode < n) (hme : me.inode = n)
    (hnl : (me.nlink == Facts.fuseDirLinkCount) = me.dir)
    (hup : resolveR fs up = some pn) (hdir : pn.dir = true) (hnew : resolveR fs (nm :: up) = none)
    (n' : Nat) (hn' : n ≤ n') :
    ∃ fs', insertNode fs ⟨pn.inode, nm, nm :: up, me⟩ = some fs' ∧ Step fs fs' n n' me nm up := by
  have hlk : fs.lookup (pn.inode, nm) = none := by
    rw [← resolveR_cons fs nm up _ hup]; exact hnew
  have hfresh : fs.byInode me.inode = none := by
    cases hb : fs.byInode me.inode with
    | none => rfl
    | some y => have := hbound _ _ hb; omega
  have hx : me.inode ≠ rootInode := by omega
  obtain ⟨fs', hins, hwf, hres, hb, _⟩ := insertNode_child h up pn nm me hup hdir hlk hfresh hx hnl
  refine ⟨fs', hins, ⟨hwf, ?_, hn', ?_, ?_, ?_, ?_⟩⟩
  · intro i y hy
    rw [hb] at hy
    split at hy
    · omega
    · have := hbound _ _ hy; omega
  · intro i y hy
    rw [hb] at hy
    split at hy
    · right; omega
    · left; exact hy
  · rw [hres]; simp
  · intro rp y hy
    rw [hres, if_neg]; exact hy
    intro e; rw [e, hnew] at hy; cases hy
  · intro rp y hy
    rw [hres] at hy
    split at hy
    · rename_i e; cases hy; exact Or.inr (Or.inl ⟨e, rfl⟩)
    · exact Or.inl hy

theorem walk_ok : ∀ (up : List String) (fs : FS) (n : Nat) (me : Node) (nm : String),
    WF fs → (∀ i y, fs.byInode i = some y → i < n) → rootInode < n → me.inode = n →
    (me.nlink == Facts.fuseDirLinkCount) = me.dir →
    (∀ rq y, rq <:+ up → resolveR fs rq = some y → y.dir = true) →
    resolveR fs (nm :: up) = none →
    ∃ fs', insertAll fs (walk fs.dirStore n me nm up).1 = some fs' ∧
      Step fs fs' n (walk fs.dirStore n me nm up).2 me nm up := by
  intro up
  induction up with
  | nil =>
    intro fs n me nm h hbound hroot hme hnl _ hnew
    simp only [walk, insertAll_single]
    have hr : resolveR fs [] = some (dirNode rootInode) := by simp [resolveR, h.root]
    exact step_child h n [] (dirNode rootInode) nm me hbound hroot hme hnl hr rfl hnew n (Nat.le_refl _)
  | cons d up ih =>
    intro fs n me nm h hbound hroot hme hnl hadm hnew
    simp only [walk]
    cases hds : fs.dirStore (d :: up) with
    | some pi =>
      simp only [insertAll_single]
      obtain ⟨pn, hpn, hpd, hpi⟩ := (h.ds (d :: up) pi (by simp)).mp hds
      have := step_child h n (d :: up) pn nm me hbound hroot hme hnl hpn hpd hnew n (Nat.le_refl _)
      rw [hpi] at this
      exact this
    | none =>
      simp only
      have hnone : resolveR fs (d :: up) = none := by
        cases hr : resolveR fs (d :: up) with
        | none => rfl
        | some y =>
          have hyd := hadm _ _ (List.suffix_refl _) hr
          have := (h.ds (d :: up) y.inode (by simp)).mpr ⟨y, hr, hyd, rfl⟩
          rw [hds] at this; cases this
      obtain ⟨fs2, hins2, st2⟩ := ih fs (n + 1) (dirNode (n + 1)) d h
        (fun i y hy => by have := hbound i y hy; omega) (by omega) rfl (by simp [dirNode])
        (fun rq y hs hy => hadm rq y (hs.trans (List.suffix_cons d up)) hy) hnone
      -- move the first insertion to the end
      have hind : ∀ b ∈ (walk fs.dirStore (n + 1) (dirNode (n + 1)) d up).1,
          Indep ⟨n + 1, nm, nm :: d :: up, me⟩ b := by
        intro b hb
        obtain ⟨h1, h2, h3⟩ := walk_mem fs.dirStore up (n + 1) (dirNode (n + 1)) d rfl b hb
        refine ⟨?_, ?_, ?_⟩
        · simp only; omega
        · simp only
          rcases h3 with h3 | ⟨rp, hrp, h3⟩ | h3
          · omega
          · intro e
            obtain ⟨y, hy, _, hyi⟩ := (h.ds rp b.parent hrp).mp h3
            have := hbound _ _ (resolveR_byInode h _ _ hy)
            omega
          · omega
        · simp only
          intro e
          have := congrArg List.length e
          simp only [List.length_cons] at this
          omega
      rw [insertAll_rotate _ _ fs hind, hins2]
      simp only [Option.bind_some]
      -- now `me` is inserted under the directory created for `d :: up`
      have hlk2 : resolveR fs2 (nm :: d :: up) = none := by
        cases hr : resolveR fs2 (nm :: d :: up) with
        | none => rfl
        | some z =>
          rcases st2.new _ _ hr with h1 | ⟨h1, _⟩ | ⟨h1, _⟩
          · rw [hnew] at h1; cases h1
          · have := congrArg List.length h1; simp at this
          · have := h1.length_le; simp at this; omega
      have hbound2 : ∀ i y, fs2.byInode i = some y → i < n ∨ n < i := by
        intro i y hy
        rcases st2.old _ _ hy with h1 | h1
        · left; exact hbound _ _ h1
        · right; omega
      have hfresh : fs2.byInode me.inode = none := by
        cases hb : fs2.byInode me.inode with
        | none => rfl
        | some y => have := hbound2 _ _ hb; omega
      have hlk : fs2.lookup ((dirNode (n + 1)).inode, nm) = none := by
        rw [← resolveR_cons fs2 nm (d :: up) _ st2.at_me]; exact hlk2
      have hx : me.inode ≠ rootInode := by omega
      obtain ⟨fs3, hins3, hwf3, hres3, hb3, _⟩ :=
        insertNode_child st2.wf (d :: up) (dirNode (n + 1)) nm me st2.at_me rfl hlk hfresh hx hnl
      refine ⟨fs3, hins3, ⟨hwf3, ?_, ?_, ?_, ?_, ?_, ?_⟩⟩
      · intro i y hy
        rw [hb3] at hy
        split at hy
        · have := st2.le; omega
        · exact st2.bound _ _ hy
      · have := st2.le; omega
      · intro i y hy
        rw [hb3] at hy
        split at hy
        · right; omega
        · rcases st2.old _ _ hy with h1 | h1
          · left; exact h1
          · right; omega
      · rw [hres3]; simp
      · intro rp y hy
        have := st2.mono _ _ hy
        rw [hres3, if_neg]; exact this
        intro e; rw [e, hlk2] at this; cases this
      · intro rp y hy
        rw [hres3] at hy
        split at hy
        · rename_i e; cases hy; exact Or.inr (Or.inl ⟨e, rfl⟩)
        · rcases st2.new _ _ hy with h1 | ⟨h1, h2⟩ | ⟨h1, h2, h3⟩
          · exact Or.inl h1
          · refine Or.inr (Or.inr ⟨?_, ?_, ?_⟩)
            · rw [h1]; exact List.suffix_refl _
            · rw [h1]; simp
            · rw [h2]; rfl
          · exact Or.inr (Or.inr ⟨h1.trans (List.suffix_cons d up), h2, h3⟩)


/-! ### the invariant of the populate loop -/

/-- bundles the theorems speak about: every path has at least one component, and no path is a
    prefix of another one (so: pairwise distinct, and no file is also needed as a directory) -/
def Valid (es : List Entry) : Prop :=
  (∀ e ∈ es, e.path ≠ []) ∧ es.Pairwise (fun a b => ¬ a.path <+: b.path ∧ ¬ b.path <+: a.path)

structure Known (fs : FS) (done : List Entry) : Prop where
  files : ∀ e ∈ done, ∃ x, resolveR fs e.path.reverse = some x ∧ x.dir = false ∧ x.size = e.size
  only : ∀ rp y, resolveR fs rp = some y →
    rp = [] ∨ (∃ e ∈ done, rp = e.path.reverse ∧ y.dir = false ∧ y.size = e.size) ∨
    (∃ e ∈ done, rp <:+ e.path.reverse ∧ rp ≠ e.path.reverse ∧ y.dir = true)

structure Inv (st : FS × Nat) (done : List Entry) : Prop where
  wf : WF st.1
  known : Known st.1 done
  bound : ∀ i y, st.1.byInode i = some y → i ≤ st.2
  root_le : rootInode ≤ st.2

theorem resolveR_initFS_cons (nm : String) (up : List String) : resolveR initFS (nm :: up) = none := by
  simp only [resolveR]
  split <;> rfl

theorem children_initFS (p : Nat) : children initFS p = [] := by
  simp only [children, initFS, upd]
  split <;> rfl

theorem wf_initFS : WF initFS := by
  constructor
  · simp [initFS, upd]
  · intro i x hx
    simp only [initFS, upd] at hx
    split at hx
    · cases hx; rename_i e; exact e.symm
    · cases hx
  · intro i x hx
    simp only [initFS, upd] at hx
    split at hx
    · cases hx; simp [dirNode]
    · cases hx
  · intro k x hx; cases hx
  · intro k x hx; cases hx
  · intro k k' x y hx; cases hx
  · intro i x hx
    refine ⟨[], ?_⟩
    simp only [initFS, upd] at hx
    split at hx
    · cases hx; simp [resolveR, initFS, upd]
    · cases hx
  · intro rp i hrp
    cases rp with
    | nil => exact absurd rfl hrp
    | cons a r =>
      rw [resolveR_initFS_cons]
      simp [initFS, upd]
  · intro p; rw [children_initFS]; simp
  · intro p d hd; rw [children_initFS] at hd; cases hd
  · intro p nm x hx; cases hx
  · intro p j d hd; rw [children_initFS] at hd; simp at hd
  · simp [initFS, upd]

theorem inv_init : Inv (initFS, firstINode) [] := by
  refine ⟨wf_initFS, ⟨?_, ?_⟩, ?_, ?_⟩
  · intro e he; cases he
  · intro rp y hy
    cases rp with
    | nil => exact Or.inl rfl
    | cons a r => rw [resolveR_initFS_cons] at hy; cases hy
  · intro i y hy
    simp only [initFS, upd] at hy
    split at hy
    · rename_i e
      simp only [e, rootInode, firstINode]
      decide
    · cases hy
  · simp only [rootInode, firstINode]; decide

theorem addEntry_ok (st : FS × Nat) (done : List Entry) (e : Entry) (hinv : Inv st done)
    (hne : e.path ≠ [])
    (hpre : ∀ e' ∈ done, ¬ e'.path <+: e.path ∧ ¬ e.path <+: e'.path) :
    ∃ st', addEntry st e = some st' ∧ Inv st' (done ++ [e]) := by
  cases hrev : e.path.reverse with
  | nil =>
    exfalso; apply hne
    have := congrArg List.reverse hrev
    simpa using this
  | cons nm up =>
    have hroot0 : resolveR st.1 [] = some (dirNode rootInode) := by simp [resolveR, hinv.wf.root]
    have hadm : ∀ rq y, rq <:+ up → resolveR st.1 rq = some y → y.dir = true := by
      intro rq y hs hy
      rcases hinv.known.only _ _ hy with h1 | ⟨e', he', h1, _⟩ | ⟨e', _, _, _, h1⟩
      · subst h1; rw [hroot0] at hy; cases hy; rfl
      · exfalso
        apply (hpre e' he').1
        rw [← List.reverse_suffix, ← h1, hrev]
        exact hs.trans (List.suffix_cons nm up)
      · exact h1
    have hnew : resolveR st.1 (nm :: up) = none := by
      cases hr : resolveR st.1 (nm :: up) with
      | none => rfl
      | some y =>
        exfalso
        rcases hinv.known.only _ _ hr with h1 | ⟨e', he', h1, _⟩ | ⟨e', he', h1, _⟩
        · cases h1
        · apply (hpre e' he').1
          rw [← List.reverse_suffix, ← h1, hrev]
          exact List.suffix_refl _
        · apply (hpre e' he').2
          rw [← List.reverse_suffix, hrev]
          exact h1
    obtain ⟨fs', hins, stp⟩ := walk_ok up st.1 (st.2 + 1) (fileNode (st.2 + 1) e.size) nm hinv.wf
      (fun i y hy => by have := hinv.bound i y hy; omega) (by have := hinv.root_le; omega) rfl
      (by simp only [fileNode]; decide) hadm hnew
    refine ⟨(fs', (walk st.1.dirStore (st.2 + 1) (fileNode (st.2 + 1) e.size) nm up).2), ?_, ?_⟩
    · simp only [addEntry, hrev, hins, Option.map_some]
    · refine ⟨stp.wf, ⟨?_, ?_⟩, stp.bound, ?_⟩
      · intro e' he'
        rcases List.mem_append.mp he' with h1 | h1
        · obtain ⟨x, hx, hx2⟩ := hinv.known.files e' h1
          exact ⟨x, stp.mono _ _ hx, hx2⟩
        · simp only [List.mem_singleton] at h1
          subst h1
          exact ⟨_, by rw [hrev]; exact stp.at_me, rfl, rfl⟩
      · intro rp y hy
        rcases stp.new _ _ hy with h1 | ⟨h1, h2⟩ | ⟨h1, h2, h3⟩
        · rcases hinv.known.only _ _ h1 with g | ⟨e', he', g⟩ | ⟨e', he', g⟩
          · exact Or.inl g
          · exact Or.inr (Or.inl ⟨e', List.mem_append_left _ he', g⟩)
          · exact Or.inr (Or.inr ⟨e', List.mem_append_left _ he', g⟩)
        · refine Or.inr (Or.inl ⟨e, by simp, ?_, ?_, ?_⟩)
          · rw [hrev]; exact h1
          · rw [h2]; rfl
          · rw [h2]; rfl
        · refine Or.inr (Or.inr ⟨e, by simp, ?_, ?_, h3⟩)
          · rw [hrev]; exact h1.trans (List.suffix_cons nm up)
          · rw [hrev]
            intro c
            have := h1.length_le
            rw [c] at this
            simp at this
            omega
      · have := stp.le; have := hinv.root_le; omega

theorem populateFrom_ok : ∀ (rest : List Entry) (st : FS × Nat) (done : List Entry), Inv st done →
    Valid (done ++ rest) → ∃ st', populateFrom st rest = some st' ∧ Inv st' (done ++ rest) := by
  intro rest
  induction rest with
  | nil =>
    intro st done hinv _
    exact ⟨st, rfl, by simpa using hinv⟩
  | cons e rest ih =>
    intro st done hinv hv
    have hne : e.path ≠ [] := hv.1 e (by simp)
    have hpre : ∀ e' ∈ done, ¬ e'.path <+: e.path ∧ ¬ e.path <+: e'.path := by
      intro e' he'
      have := (List.pairwise_append.mp hv.2).2.2 e' he' e (by simp)
      exact this
    obtain ⟨st1, h1, hinv1⟩ := addEntry_ok st done e hinv hne hpre
    have hv1 : Valid ((done ++ [e]) ++ rest) := by simpa using hv
    obtain ⟨st2, h2, hinv2⟩ := ih st1 (done ++ [e]) hinv1 hv1
    refine ⟨st2, ?_, by simpa using hinv2⟩
    simp only [populateFrom, h1, h2]

theorem populate_inv (es : List Entry) (hv : Valid es) :
    ∃ fs n, populate es = some fs ∧ Inv (fs, n) es := by
  obtain ⟨st, h1, hinv⟩ := populateFrom_ok es (initFS, firstINode) [] inv_init (by simpa using hv)
  exact ⟨st.1, st.2, by simp [populate, h1], by simpa using hinv⟩


/-! ### the theorems -/

theorem resolveR_parent {fs : FS} (h : WF fs) (c : String) (rp : List String) (z : Node)
    (hz : resolveR fs (c :: rp) = some z) : ∃ y, resolveR fs rp = some y ∧ y.dir = true := by
  simp only [resolveR] at hz
  split at hz
  · rename_i y hy
    obtain ⟨par, hpar, hpd⟩ := h.lk_parent _ _ hz
    have := resolveR_byInode h _ _ hy
    simp only at hpar
    rw [this] at hpar
    cases hpar
    exact ⟨y, hy, hpd⟩
  · cases hz

theorem resolveR_ancestor {fs : FS} (h : WF fs) : ∀ (a rp : List String) (z : Node), a ≠ [] →
    resolveR fs (a ++ rp) = some z → ∃ y, resolveR fs rp = some y ∧ y.dir = true := by
  intro a
  induction a with
  | nil => intro rp z hne; exact absurd rfl hne
  | cons c a ih =>
    intro rp z _ hz
    obtain ⟨y, hy, hyd⟩ := resolveR_parent h c (a ++ rp) z hz
    cases a with
    | nil => exact ⟨y, hy, hyd⟩
    | cons c' a' => exact ih rp y (by simp) hy

/-- **populate_ok**: for a valid bundle no table insertion collides — the mount succeeds. -/
theorem C17_populate_ok (es : List Entry) (hv : Valid es) : ∃ fs, populate es = some fs := by
  obtain ⟨fs, _, h, _⟩ := populate_inv es hv
  exact ⟨fs, h⟩

/-- **tree_exact**: resolving a path by successive lookups from the root succeeds exactly for the
    bundle's entries (as files, with their size), for their proper ancestors (as directories)
    and for the root (a directory). -/
theorem C17_tree_exact (es : List Entry) (hv : Valid es) (fs : FS) (hp : populate es = some fs) :
    (∀ e ∈ es, ∃ x, resolve fs e.path = some x ∧ x.dir = false ∧ x.size = e.size) ∧
    (∀ p, (∃ e ∈ es, p <+: e.path ∧ p ≠ e.path) → ∃ x, resolve fs p = some x ∧ x.dir = true) ∧
    (∃ r, resolve fs [] = some r ∧ r.dir = true) ∧
    (∀ p x, resolve fs p = some x →
      p = [] ∨ (∃ e ∈ es, p = e.path ∧ x.dir = false ∧ x.size = e.size) ∨
      (∃ e ∈ es, p <+: e.path ∧ p ≠ e.path ∧ x.dir = true)) := by
  obtain ⟨fs0, n, h0, hinv⟩ := populate_inv es hv
  rw [hp] at h0; cases h0
  refine ⟨?_, ?_, ?_, ?_⟩
  · intro e he
    obtain ⟨x, hx, hx2⟩ := hinv.known.files e he
    exact ⟨x, by rw [resolve_eq_resolveR]; exact hx, hx2⟩
  · rintro p ⟨e, he, ⟨t, ht⟩, hne⟩
    obtain ⟨x, hx, _⟩ := hinv.known.files e he
    have ht' : t ≠ [] := by
      intro c; apply hne; rw [← ht, c]; simp
    rw [← ht, List.reverse_append] at hx
    obtain ⟨y, hy, hyd⟩ := resolveR_ancestor hinv.wf t.reverse p.reverse x (by simpa using ht') hx
    exact ⟨y, by rw [resolve_eq_resolveR]; exact hy, hyd⟩
  · refine ⟨dirNode rootInode, ?_, rfl⟩
    rw [resolve_eq_resolveR]
    simp only [List.reverse_nil, resolveR]
    exact hinv.wf.root
  · intro p x hx
    rw [resolve_eq_resolveR] at hx
    rcases hinv.known.only _ _ hx with h1 | ⟨e, he, h1, h2⟩ | ⟨e, he, h1, h2, h3⟩
    · left; simpa using h1
    · right; left
      exact ⟨e, he, List.reverse_inj.mp h1, h2⟩
    · right; right
      refine ⟨e, he, List.reverse_suffix.mp h1, ?_, h3⟩
      intro c; apply h2; rw [c]

/-- **inode_unique**: two different paths never resolve to the same inode number. -/
theorem C17_inode_unique (es : List Entry) (hv : Valid es) (fs : FS) (hp : populate es = some fs)
    (p q : Path) (a b : Node) (ha : resolve fs p = some a) (hb : resolve fs q = some b)
    (hab : a.inode = b.inode) : p = q := by
  obtain ⟨fs0, n, h0, hinv⟩ := populate_inv es hv
  rw [hp] at h0; cases h0
  rw [resolve_eq_resolveR] at ha hb
  exact List.reverse_inj.mp (resolveR_inj hinv.wf _ _ _ _ ha hb hab)

/-- **getattr_exact**: the inode table holds the nodes of the tree and nothing else, each under
    its own number. -/
theorem C17_getattr_exact (es : List Entry) (hv : Valid es) (fs : FS) (hp : populate es = some fs)
    (i : Nat) (x : Node) : getAttr fs i = some x ↔ ∃ p, resolve fs p = some x ∧ x.inode = i := by
  obtain ⟨fs0, n, h0, hinv⟩ := populate_inv es hv
  rw [hp] at h0; cases h0
  constructor
  · intro hx
    obtain ⟨rp, hrp⟩ := hinv.wf.reach i x hx
    refine ⟨rp.reverse, ?_, hinv.wf.ino _ _ hx⟩
    rw [resolve_eq_resolveR, List.reverse_reverse]; exact hrp
  · rintro ⟨p, hx, hi⟩
    rw [resolve_eq_resolveR] at hx
    have := resolveR_byInode hinv.wf _ _ hx
    rw [hi] at this
    exact this


theorem names_iff {fs : FS} (h : WF fs) (rp : List String) (d : Node) (hd : resolveR fs rp = some d)
    (nm : String) : nm ∈ (children fs d.inode).map (·.name) ↔ ∃ x, resolveR fs (nm :: rp) = some x := by
  rw [resolveR_cons fs nm rp d hd]
  constructor
  · intro hm
    obtain ⟨de, hde, hn⟩ := List.mem_map.mp hm
    obtain ⟨x, hx, _⟩ := h.rd_sound _ _ hde
    rw [hn] at hx
    exact ⟨x, hx⟩
  · rintro ⟨x, hx⟩
    exact h.rd_complete _ _ _ hx

theorem children_of_readdir {fs : FS} {i : Nat} {ds : List Dirent} (h : fs.readdir i = some ds) :
    children fs i = ds := by
  simp [children, h]

/-- **readdir_exact**: the table `ReadDir` serves for a directory lists exactly the directory's
    immediate children — the entries directly inside it and the directories leading to deeper
    entries —, each name once, with the inode and kind `LookUpInode` reports for that name, and
    `Offset` = position + 1. -/
theorem C17_readdir_exact (es : List Entry) (hv : Valid es) (fs : FS) (hp : populate es = some fs)
    (p : Path) (d : Node) (hd : resolve fs p = some d) (hdir : d.dir = true) :
    ∃ ds, fs.readdir d.inode = some ds ∧ (ds.map (·.name)).Nodup ∧
      (∀ nm, nm ∈ ds.map (·.name) ↔
        ((∃ e ∈ es, p ++ [nm] = e.path) ∨ (∃ e ∈ es, p ++ [nm] <+: e.path ∧ p ++ [nm] ≠ e.path))) ∧
      (∀ de ∈ ds, ∃ x, resolve fs (p ++ [de.name]) = some x ∧ x.inode = de.inode ∧ x.dir = de.dir) ∧
      (∀ j de, ds[j]? = some de → de.offset = j + 1) := by
  obtain ⟨fs0, n, h0, hinv⟩ := populate_inv es hv
  rw [hp] at h0; cases h0
  have hwf : WF fs := hinv.wf
  obtain ⟨t1, t2, _, t4⟩ := C17_tree_exact es hv fs hp
  have hd' : resolveR fs p.reverse = some d := by rw [← resolve_eq_resolveR]; exact hd
  have hnames : ∀ nm, nm ∈ (children fs d.inode).map (·.name) ↔
      ((∃ e ∈ es, p ++ [nm] = e.path) ∨ (∃ e ∈ es, p ++ [nm] <+: e.path ∧ p ++ [nm] ≠ e.path)) := by
    intro nm
    rw [names_iff hwf p.reverse d hd' nm]
    have hrev : nm :: p.reverse = (p ++ [nm]).reverse := by simp
    rw [hrev, ← resolve_eq_resolveR]
    constructor
    · rintro ⟨x, hx⟩
      rcases t4 _ _ hx with h1 | ⟨e, he, h1, _⟩ | ⟨e, he, h1, h2, _⟩
      · simp at h1
      · exact Or.inl ⟨e, he, h1⟩
      · exact Or.inr ⟨e, he, h1, h2⟩
    · rintro (⟨e, he, h1⟩ | ⟨e, he, h1, h2⟩)
      · obtain ⟨x, hx, _⟩ := t1 e he
        exact ⟨x, by rw [h1]; exact hx⟩
      · obtain ⟨x, hx, _⟩ := t2 _ ⟨e, he, h1, h2⟩
        exact ⟨x, hx⟩
  -- the directory has a `readDirMap` entry
  have hsome : ∃ ds, fs.readdir d.inode = some ds := by
    cases hr : fs.readdir d.inode with
    | some ds => exact ⟨ds, rfl⟩
    | none =>
      exfalso
      have hch : children fs d.inode = [] := by simp [children, hr]
      rcases t4 _ _ hd with h1 | ⟨e, he, _, h2, _⟩ | ⟨e, he, ⟨t, ht⟩, h2, _⟩
      · subst h1
        have hroot : d = dirNode rootInode := by
          simp only [List.reverse_nil, resolveR] at hd'
          rw [hwf.root] at hd'
          cases hd'; rfl
        have := hwf.rd_root
        rw [hroot] at hr
        simp only [dirNode] at hr
        rw [hr] at this
        cases this
      · rw [hdir] at h2; cases h2
      · cases t with
        | nil => apply h2; rw [← ht]; simp
        | cons c t' =>
          have : c ∈ (children fs d.inode).map (·.name) := by
            rw [hnames]
            by_cases ht' : t' = []
            · left; exact ⟨e, he, by rw [← ht, ht']⟩
            · right
              refine ⟨e, he, ⟨t', by rw [← ht]; simp⟩, ?_⟩
              intro c'
              apply ht'
              have := congrArg List.length c'
              rw [← ht] at this
              simp at this
              exact this
          rw [hch] at this
          cases this
  obtain ⟨ds, hds⟩ := hsome
  have hch := children_of_readdir hds
  refine ⟨ds, hds, ?_, ?_, ?_, ?_⟩
  · rw [← hch]; exact hwf.rd_nodup _
  · rw [← hch]; exact hnames
  · intro de hde
    rw [← hch] at hde
    obtain ⟨x, hx, hx2⟩ := hwf.rd_sound _ _ hde
    refine ⟨x, ?_, hx2⟩
    rw [resolve_eq_resolveR]
    simp only [List.reverse_append, List.reverse_cons, List.reverse_nil, List.nil_append, List.singleton_append]
    rw [resolveR_cons fs de.name p.reverse d hd']
    exact hx
  · intro j de hj
    rw [← hch] at hj
    exact hwf.rd_off _ _ _ hj


/-! ### paging -/

theorem fit_prefix : ∀ (l : List Dirent) (buf : Nat), fit buf l <+: l := by
  intro l
  induction l with
  | nil => intro buf; simp [fit]
  | cons d r ih =>
    intro buf
    simp only [fit]
    split
    · exact List.prefix_cons_inj d |>.mpr (ih _)
    · exact List.nil_prefix

theorem session_eq (fs : FS) (i : Nat) (ds : List Dirent) (hds : fs.readdir i = some ds)
    (hoff : ∀ j de, ds[j]? = some de → de.offset = j + 1)
    (steps : Nat → Nat × Nat) (hbuf : ∀ k, ∀ de ∈ ds, direntSize de ≤ (steps k).1)
    (hcut : ∀ k, 1 ≤ (steps k).2) :
    ∀ fuel k off, off ≤ ds.length → ds.length - off < fuel →
      session fs i steps fuel k off = some (ds.drop off) := by
  intro fuel
  induction fuel with
  | zero => intro k off _ h; omega
  | succ fuel ih =>
    intro k off hle hfuel
    have hrd : readDir fs i off (steps k).1 = some (fit (steps k).1 (ds.drop off)) := by
      simp only [readDir, hds]
      rw [if_neg (by omega)]
    simp only [session, hrd]
    have hpre : (fit (steps k).1 (ds.drop off)).take (steps k).2 <+: ds.drop off :=
      (List.take_prefix _ _).trans (fit_prefix _ _)
    generalize hkept : (fit (steps k).1 (ds.drop off)).take (steps k).2 = kept at hpre
    have hkeq : kept = (ds.drop off).take kept.length := List.prefix_iff_eq_take.mp hpre
    cases hrest : ds.drop off with
    | nil =>
      rw [hrest] at hkept
      simp only [fit, List.take_nil] at hkept
      subst hkept
      simp
    | cons d0 r0 =>
      have hd0 : d0 ∈ ds := by
        have : d0 ∈ ds.drop off := by rw [hrest]; simp
        exact List.mem_of_mem_drop this
      have hfits := hbuf k d0 hd0
      have hm : 1 ≤ kept.length := by
        rw [← hkept, hrest]
        simp only [fit, if_pos hfits]
        have := hcut k
        cases hc : (steps k).2 with
        | zero => omega
        | succ c => simp
      have hmle : kept.length ≤ ds.length - off := by
        have := hpre.length_le
        simpa using this
      have hlast : kept.getLast? = ds[off + (kept.length - 1)]? := by
        rw [List.getLast?_eq_getElem?]
        conv => lhs; rw [hkeq]
        rw [List.getElem?_take]
        rw [if_pos (by simp only [List.length_take, List.length_drop]; omega)]
        rw [List.getElem?_drop]
        simp only [List.length_take, List.length_drop]
        congr 1
        omega
      have hidx : off + (kept.length - 1) < ds.length := by omega
      rw [List.getElem?_eq_getElem hidx] at hlast
      rw [hlast]
      simp only
      have hoffv := hoff _ _ (List.getElem?_eq_getElem hidx)
      rw [hoffv]
      have hnext : off + (kept.length - 1) + 1 = off + kept.length := by omega
      rw [hnext, ih (k + 1) (off + kept.length) (by omega) (by omega)]
      simp only [Option.map_some, Option.some.injEq]
      rw [← hrest]
      conv => lhs; lhs; rw [hkeq]
      rw [← List.drop_drop]
      exact List.take_append_drop _ _

/-- **readdir_resume**: a listing session — each page read with its own buffer size (large
    enough for any single dirent of the directory), the reader consuming any non-zero number of
    the dirents of a page and resuming at the offset of the last one consumed — started at any
    valid offset returns the children from that position on, each exactly once, in order, and
    then an empty page. From offset 0: every child exactly once. -/
theorem C17_readdir_resume (es : List Entry) (hv : Valid es) (fs : FS) (hp : populate es = some fs)
    (p : Path) (d : Node) (hd : resolve fs p = some d) (hdir : d.dir = true)
    (steps : Nat → Nat × Nat) :
    ∃ ds, fs.readdir d.inode = some ds ∧
      ((∀ k, ∀ de ∈ ds, direntSize de ≤ (steps k).1) → (∀ k, 1 ≤ (steps k).2) →
        ∀ fuel k off, off ≤ ds.length → ds.length - off < fuel →
          session fs d.inode steps fuel k off = some (ds.drop off)) := by
  obtain ⟨ds, hds, _, _, _, hoff⟩ := C17_readdir_exact es hv fs hp p d hd hdir
  exact ⟨ds, hds, fun hbuf hcut => session_eq fs d.inode ds hds hoff steps hbuf hcut⟩


/-! ### file contents -/

/-- leaves as the cafs writer cuts them: all full, except the last one which is not empty -/
def Chunked (ls : Nat) : List Bytes → Prop
  | [] => True
  | [l] => 0 < l.length ∧ l.length ≤ ls
  | l :: l' :: r => l.length = ls ∧ Chunked ls (l' :: r)

theorem copyLeaves_eq : ∀ (leaves : List Bytes) (offset n : Nat),
    (∀ l r, leaves = l :: r → offset ≤ l.length) →
    copyLeaves leaves offset n = (leaves.flatten.drop offset).take n := by
  intro leaves
  induction leaves with
  | nil => intro offset n _; simp [copyLeaves]
  | cons leaf rest ih =>
    intro offset n hoff
    have hle : offset ≤ leaf.length := hoff leaf rest rfl
    simp only [copyLeaves, List.flatten_cons]
    rw [List.drop_append_of_le_length hle]
    split
    · rename_i hlen
      have : n ≤ (leaf.drop offset).length := by
        rw [← hlen]; simp only [List.length_take]; omega
      rw [List.take_append_of_le_length this]
    · rename_i hlen
      have hlt : (leaf.drop offset).length < n := by
        simp only [List.length_take] at hlen
        omega
      have htake : (leaf.drop offset).take n = leaf.drop offset := List.take_of_length_le (by omega)
      rw [htake, List.take_append, htake]
      rw [ih 0 _ (fun _ _ _ => Nat.zero_le _)]
      simp

theorem chunked_tail {ls : Nat} {l : Bytes} {r : List Bytes} (h : Chunked ls (l :: r)) : Chunked ls r := by
  cases r with
  | nil => trivial
  | cons l' r' => exact h.2

theorem readAtLeaves_eq (ls : Nat) (hls : 0 < ls) : ∀ (leaves : List Bytes) (off n : Nat),
    Chunked ls leaves → off < leaves.flatten.length →
    readAtLeaves leaves ls off n = (leaves.flatten.drop off).take n := by
  intro leaves
  induction leaves with
  | nil => intro off n _ h; simp at h
  | cons l rest ih =>
    intro off n hch hoff
    by_cases hlt : off < ls
    · have hdiv : off / ls = 0 := Nat.div_eq_of_lt hlt
      have hmod : off % ls = off := Nat.mod_eq_of_lt hlt
      simp only [readAtLeaves, hdiv, hmod, List.drop_zero]
      rw [if_neg (by simp)]
      apply copyLeaves_eq
      intro l0 r0 he
      cases he
      cases rest with
      | nil => simp at hoff; omega
      | cons l' r' => have := hch.1; omega
    · have hge : ls ≤ off := by omega
      cases rest with
      | nil =>
        have := hch.2
        simp at hoff
        omega
      | cons l' r' =>
        have hl : l.length = ls := hch.1
        have hdiv : off / ls = (off - ls) / ls + 1 := by
          rw [Nat.div_eq off ls, if_pos ⟨hls, hge⟩]
        have hmod : off % ls = (off - ls) % ls := Nat.mod_eq_sub_mod hge
        have hoff' : off - ls < (l' :: r').flatten.length := by
          simp only [List.flatten_cons, List.length_append] at hoff ⊢
          omega
        have := ih (off - ls) n hch.2 hoff'
        simp only [readAtLeaves] at this ⊢
        rw [hdiv, hmod]
        simp only [List.length_cons, List.drop_succ_cons] at this ⊢
        have hcond : ((off - ls) / ls + 1 ≥ r'.length + 1 + 1) ↔ ((off - ls) / ls ≥ r'.length + 1) := by omega
        rw [show (if (off - ls) / ls + 1 ≥ r'.length + 1 + 1 then ([] : Bytes)
              else copyLeaves (List.drop ((off - ls) / ls) (l' :: r')) ((off - ls) % ls) n) =
            (if (off - ls) / ls ≥ r'.length + 1 then ([] : Bytes)
              else copyLeaves (List.drop ((off - ls) / ls) (l' :: r')) ((off - ls) % ls) n) from by
          simp only [hcond]]
        rw [this]
        congr 1
        simp only [List.flatten_cons]
        have hnil : l.drop off = [] := List.drop_eq_nil_of_le (by omega)
        have e : List.drop off (l ++ (l' ++ r'.flatten)) = List.drop (off - ls) (l' ++ r'.flatten) := by
          rw [List.drop_append, hnil, hl]; simp
        rw [e]

theorem chunk_nil (ls fuel : Nat) : chunk ls fuel [] = [] := by
  cases fuel <;> simp [chunk]

theorem chunk_spec (ls : Nat) (hls : 0 < ls) : ∀ (fuel : Nat) (l : Bytes), l.length ≤ fuel →
    (chunk ls fuel l).flatten = l ∧ Chunked ls (chunk ls fuel l) := by
  intro fuel
  induction fuel with
  | zero =>
    intro l hl
    have : l = [] := List.eq_nil_of_length_eq_zero (by omega)
    subst this
    simp [chunk, Chunked]
  | succ fuel ih =>
    intro l hl
    simp only [chunk]
    split
    · rename_i h; subst h; simp [Chunked]
    · rename_i hne
      have hpos : 0 < l.length := List.length_pos_iff.mpr hne
      have hlen : (l.drop ls).length ≤ fuel := by simp only [List.length_drop]; omega
      obtain ⟨h1, h2⟩ := ih (l.drop ls) hlen
      refine ⟨by simp [h1], ?_⟩
      cases hc : chunk ls fuel (l.drop ls) with
      | nil =>
        simp only [Chunked, List.length_take]
        omega
      | cons l' r' =>
        rw [hc] at h2
        refine ⟨?_, h2⟩
        have : l.drop ls ≠ [] := by
          intro c
          rw [c, chunk_nil] at hc
          cases hc
        have : 0 < (l.drop ls).length := List.length_pos_iff.mpr this
        simp only [List.length_drop] at this
        simp only [List.length_take]
        omega

theorem readFile_exact (fs : FS) (mode : Mode) (leafSize : Nat) (hls : 0 < leafSize) (content : Nat → Bytes)
    (i : Nat) (x : Node) (hx : getAttr fs i = some x) (hfile : x.dir = false)
    (hsize : (content i).length = x.size) (off n : Nat) :
    readFile fs mode leafSize content i off n = .ok (((content i).drop off).take n) := by
  simp only [getAttr] at hx
  simp only [readFile, hx, hfile, Bool.false_eq_true, if_false]
  split
  · rename_i hge
    have : (content i).drop off = [] := List.drop_eq_nil_of_le (by omega)
    rw [this]; simp
  · rename_i hlt
    cases mode with
    | staged => rfl
    | streamed =>
      simp only
      obtain ⟨h1, h2⟩ := chunk_spec leafSize hls (content i).length (content i) (Nat.le_refl _)
      have := readAtLeaves_eq leafSize hls (leavesOf leafSize (content i)) off n h2
        (by simp only [leavesOf, h1]; omega)
      simp only [leavesOf] at this ⊢
      rw [this, h1]

/-- **read_exact**: every entry of the bundle resolves to a file inode on which, in both mount
    modes and for every offset and length, `ReadFile` returns exactly `(content.drop off).take n`
    — the bytes of the file from `off`, at most `n`, fewer only at the end, none at or past the
    end — where `content` is the file's byte string (of the length the entry records); streamed
    mode reads it back from the leaves it is stored as. -/
theorem C17_read_exact (es : List Entry) (hv : Valid es) (fs : FS) (hp : populate es = some fs)
    (e : Entry) (he : e ∈ es) :
    ∃ x, resolve fs e.path = some x ∧ getAttr fs x.inode = some x ∧ x.dir = false ∧ x.size = e.size ∧
      ∀ (mode : Mode) (leafSize : Nat) (content : Nat → Bytes), 0 < leafSize →
        (content x.inode).length = e.size → ∀ off n,
          readFile fs mode leafSize content x.inode off n = .ok (((content x.inode).drop off).take n) := by
  obtain ⟨x, hx, hxd, hxs⟩ := (C17_tree_exact es hv fs hp).1 e he
  have hga : getAttr fs x.inode = some x := (C17_getattr_exact es hv fs hp x.inode x).mpr ⟨e.path, hx, rfl⟩
  refine ⟨x, hx, hga, hxd, hxs, ?_⟩
  intro mode leafSize content hls hlen off n
  exact readFile_exact fs mode leafSize hls content x.inode x hga hxd (by rw [hlen, hxs]) off n

/-! ### side conditions discharged on the extracted facts, non-vacuity, witnesses -/

/-- the constants the proofs rely on (regenerated from `pkg/fuse/fs.go` on every run):
    `populateFSAddNodes` tells directories from files by `Nlink`, and generated inode numbers
    (all > `firstINode`) must not collide with the root's. -/
theorem C17_facts_side_conditions :
    Facts.fuseDirLinkCount ≠ Facts.fuseFileLinkCount ∧ rootInode ≤ firstINode := by decide

def exBundle : List Entry :=
  [⟨["a", "b", "f"], 3⟩, ⟨["a", "g"], 0⟩, ⟨["h"], 5⟩, ⟨["a", "b", "c", "d"], 70000⟩]

/-- the hypothesis is satisfiable -/
theorem C17_valid_example : Valid exBundle := ⟨by decide, by decide⟩

example : ∃ fs, populate exBundle = some fs := C17_populate_ok _ C17_valid_example
example : Valid [] := ⟨by decide, by decide⟩

/-- concrete run: numbering is file first, then each missing ancestor upwards -/
example : (populate exBundle).bind (fun fs => resolve fs ["a", "b", "c", "d"]) = some (fileNode 1029 70000) := by
  decide
example : (populate exBundle).bind (fun fs => resolve fs ["a", "b", "c"]) = some (dirNode 1030) := by decide
example : (populate exBundle).bind (fun fs => resolve fs ["a", "b"]) = some (dirNode 1025) := by decide
example : (populate exBundle).bind (fun fs => resolve fs ["a", "x"]) = none := by decide
example : (populate exBundle).map (fun fs => (children fs rootInode).map (·.name)) = some ["a", "h"] := by decide

/-- the root of an empty bundle can be listed (after the `fix:`; before it `readDirMap` had no
    key for the root and `ReadDir` answered ENOENT) -/
theorem C17_empty_bundle_root : (populate []).bind (fun fs => readDir fs rootInode 0 4096) = some [] := by
  decide

/-- a paged listing with a buffer that holds one dirent at a time -/
example : (populate exBundle).bind (fun fs => session fs rootInode (fun _ => (32, 1)) 5 0 0) =
    (populate exBundle).map (fun fs => children fs rootInode) := by decide

/-- the hypothesis is needed: when a file is also needed as a directory, or a path occurs twice,
    an `Insert` updates an existing key and the mount is refused (`ErrUnexpectedUpdate`) -/
theorem C17_invalid_bundle_refused :
    (populate [⟨["a"], 1⟩, ⟨["a", "b"], 1⟩]).isSome = false ∧
    (populate [⟨["a", "b"], 1⟩, ⟨["a"], 1⟩]).isSome = false ∧
    (populate [⟨["a"], 1⟩, ⟨["a"], 1⟩]).isSome = false := by decide

/-- reads across a leaf boundary, at the end and past the end, on concrete data -/
example : readAtLeaves (leavesOf 4 [1, 2, 3, 4, 5, 6, 7, 8, 9]) 4 3 4 = [4, 5, 6, 7] := by decide
example : leavesOf 4 [1, 2, 3, 4, 5, 6, 7, 8, 9] = [[1, 2, 3, 4], [5, 6, 7, 8], [9]] := by decide

end FuseRO
