import Lean
/-! `#audit_module M` prints, for every theorem declared in module `M`, the axioms it depends on,
one line each: `AXIOMS <theorem> : <axiom> <axiom> …`. The check script fails a property whose
theorems depend on anything but `propext`, `Classical.choice`, `Quot.sound`. -/
open Lean Elab Command

elab "#audit_module " m:ident : command => do
  let env ← getEnv
  let modName := m.getId
  let some idx := env.getModuleIdx? modName
    | throwError "unknown module {modName}"
  let mut names : Array Name := #[]
  for (n, ci) in env.constants.map₁.toList do
    if env.getModuleIdxFor? n == some idx then
      match ci with
      | .thmInfo _ => if !n.isInternal then names := names.push n
      | _ => pure ()
  let sorted := names.qsort (fun a b => a.toString < b.toString)
  for n in sorted do
    let axs ← liftCoreM (collectAxioms n)
    let axs := axs.qsort (fun a b => a.toString < b.toString)
    logInfo m!"AXIOMS {n} : {" ".intercalate (axs.toList.map toString)}"
