import DatamonVerif.Generated.Facts
/-! Model of the diamond merger `Diamond.mergeSplits` (pkg/core/diamond_commit.go), C11.

The merger receives batches `(splitID, entries)` (one per split index file, in the order in which
the parallel downloads of `fileIndex.downloadAll` complete), and folds every entry into a
path-keyed index (`mergeIndex`, an immutable radix tree used as a sorted map). `step` has the branch
structure of the loop body (after the two `fix:` commits recorded for C11):

* path absent                      → insert `(entry, split)`;
* same hash as the stored entry    → keep the more recent of the two uploads (fix 2), no conflict;
* different hash, more recent      → the incoming entry replaces the stored one; in conflicts /
  checkpoints mode the stored one is re-inserted under `deconflicter(existing.ID, path)` (fix 1:
  the clobbered version's own split); `forbid` gives up; `ignore` (or same split) just replaces;
* different hash, not more recent  → in conflicts / checkpoints mode the incoming entry is inserted
  under `deconflicter(splitID, path)`; `forbid` gives up; `ignore` (or same split) drops it.

The radix tree is keyed by the rendered path; the model keeps main paths and deconflicted paths in
two association lists (`main` keyed by path, `conf` keyed by `(split, path)`), i.e. it assumes that
the rendering `.conflicts/<split>/<path>` is injective and never collides with an uploaded path
(split IDs without '/', no uploaded path under `.conflicts/` or `.checkpoints/` — such paths are
filtered out by uploads). `dump` renders and sorts, like the ordered walk of the radix tree. -/
namespace Merge

inductive Mode where
  | ignore | forbid | conflicts | checkpoints
deriving DecidableEq, Repr

/-- one file entry of a split index file (`model.BundleEntry`; `time` = `Timestamp`, the upload time) -/
structure Entry where
  path : String
  hash : String
  size : Nat
  time : Nat
deriving DecidableEq, Repr

/-- an entry together with the split that uploaded it (`mergeEntry`) -/
structure Upload where
  split : String
  path : String
  hash : String
  size : Nat
  time : Nat
deriving DecidableEq, Repr

abbrev Batch := String × List Entry

def Entry.toUpload (split : String) (e : Entry) : Upload := ⟨split, e.path, e.hash, e.size, e.time⟩

/-- the sequence of entries in the order the merge loop sees them -/
def flatten (bs : List Batch) : List Upload :=
  (bs.map fun b => b.2.map (Entry.toUpload b.1)).flatten

/-! ### association lists (the radix tree as a map) -/

def aget {κ ν : Type} [DecidableEq κ] (k : κ) : List (κ × ν) → Option ν
  | [] => none
  | (k', v) :: r => if k' = k then some v else aget k r

/-- `Insert`: replace the value of an existing key, or add the key -/
def aset {κ ν : Type} [DecidableEq κ] (k : κ) (v : ν) : List (κ × ν) → List (κ × ν)
  | [] => [(k, v)]
  | (k', v') :: r => if k' = k then (k, v) :: r else (k', v') :: aset k v r

/-! ### the merge loop -/

structure State where
  /-- path ↦ the version chosen so far, with its split -/
  main : List (String × Upload) := []
  /-- (split, path) ↦ a version filed under `.conflicts/<split>/<path>` (or `.checkpoints/…`) -/
  conf : List ((String × String) × Upload) := []
  /-- `conflicts > 0` -/
  flag : Bool := false

def State.empty : State := {}

/-- one iteration of the merge loop; `none` = commit given up (`ErrForbiddenConflict`) -/
def step (mode : Mode) (st : State) (u : Upload) : Option State :=
  match aget u.path st.main with
  | none => some { st with main := aset u.path u st.main }
  | some ex =>
    if u.hash = ex.hash then
      if ex.time < u.time then some { st with main := aset u.path u st.main }
      else some st
    else if ex.time < u.time then
      -- got a more recent file
      if mode = .ignore ∨ u.split = ex.split then
        some { st with main := aset u.path u st.main }
      else if mode = .forbid then none
      else
        some { main := aset u.path u st.main, conf := aset (ex.split, u.path) ex st.conf, flag := true }
    else
      -- got an older file
      if u.split = ex.split then some st
      else match mode with
        | .conflicts | .checkpoints => some { st with conf := aset (u.split, u.path) u st.conf, flag := true }
        | .forbid => none
        | .ignore => some st

def run (mode : Mode) : State → List Upload → Option State
  | st, [] => some st
  | st, u :: us =>
    match step mode st u with
    | none => none
    | some st' => run mode st' us

/-- the merge of the batches in their order of arrival -/
def merge (mode : Mode) (bs : List Batch) : Option State := run mode State.empty (flatten bs)

/-! ### the specification: latest write wins, every losing version is kept -/

/-- the more recent of two uploads (the first on a tie) -/
def better (a b : Upload) : Upload := if a.time < b.time then b else a

/-- the upload of path `p` with the greatest time -/
def latest (p : String) : List Upload → Option Upload
  | [] => none
  | u :: us =>
    if u.path = p then
      match latest p us with
      | none => some u
      | some v => some (better u v)
    else latest p us

/-- `v` is a losing version: its content differs from the content of the latest upload of its path -/
def isLoser (us : List Upload) (v : Upload) : Bool :=
  match latest v.path us with
  | some w => v.hash != w.hash
  | none => false

/-- two different splits uploaded different content for some path -/
def HasConflict (us : List Upload) : Prop :=
  ∃ u ∈ us, ∃ v ∈ us, u.path = v.path ∧ u.split ≠ v.split ∧ u.hash ≠ v.hash

def hasConflict (us : List Upload) : Bool :=
  us.any fun u => us.any fun v => u.path = v.path && u.split != v.split && u.hash != v.hash

def Mode.keeps : Mode → Bool
  | .conflicts | .checkpoints => true
  | _ => false

/-- what the property demands of a commit, as a state (compared through `aget`): the main tree holds
    the latest upload of every path; in conflicts / checkpoints mode every losing version is found
    under its own split and path; forbid mode fails exactly on a conflict -/
def specState (mode : Mode) (us : List Upload) : State where
  main := us.filterMap fun u => if latest u.path us = some u then some (u.path, u) else none
  conf := if mode.keeps then
      us.filterMap fun v => if isLoser us v then some ((v.split, v.path), v) else none
    else []
  flag := mode.keeps && hasConflict us

def mergeSpec (mode : Mode) (us : List Upload) : Option State :=
  if mode = .forbid ∧ hasConflict us then none else some (specState mode us)

/-! ### domain predicates (all decidable, all invariant under permutation) -/

/-- two uploads of one path never carry the same time -/
def TimesDistinct (us : List Upload) : Prop :=
  ∀ u ∈ us, ∀ v ∈ us, u.path = v.path → u.time = v.time → u = v

/-- a split lists a path at most once (its file list is the key listing of one upload generation) -/
def SplitUnique (us : List Upload) : Prop :=
  ∀ u ∈ us, ∀ v ∈ us, u.split = v.split → u.path = v.path → u = v

/-- trigger of the known finding `merge-identical-copies`: some path has two uploads with identical
    content, the older of which is not more recent than some different version of that path -/
def Trigger (us : List Upload) : Prop :=
  ∃ x ∈ us, ∃ x' ∈ us, ∃ y ∈ us,
    x'.path = x.path ∧ y.path = x.path ∧ x ≠ x' ∧ x.hash = x'.hash ∧ y.hash ≠ x.hash ∧ x.time ≤ y.time

instance (us : List Upload) : Decidable (TimesDistinct us) := by unfold TimesDistinct; infer_instance
instance (us : List Upload) : Decidable (SplitUnique us) := by unfold SplitUnique; infer_instance
instance (us : List Upload) : Decidable (Trigger us) := by unfold Trigger; infer_instance
instance (us : List Upload) : Decidable (HasConflict us) := by unfold HasConflict; infer_instance

/-! ### rendering (the committed file list) -/

def confDir : Mode → String
  | .checkpoints => Facts.mergeCheckpointDir
  | _ => Facts.mergeConflictDir

/-- `model.GenerateConflictPath` / `GenerateCheckpointPath` (`path.Join`, on clean components) -/
def deconflict (mode : Mode) (split path : String) : String :=
  confDir mode ++ "/" ++ split ++ "/" ++ path

def insertSorted (x : String × String × Nat) : List (String × String × Nat) → List (String × String × Nat)
  | [] => [x]
  | y :: r => if x.1 < y.1 then x :: y :: r else if x.1 = y.1 then x :: r else y :: insertSorted x r

/-- the file list sent to the bundle index, in key order: (name, hash, size) -/
def dump (mode : Mode) (st : State) : List (String × String × Nat) :=
  let all := st.main.map (fun kv => (kv.1, kv.2.hash, kv.2.size))
    ++ st.conf.map (fun kv => (deconflict mode kv.1.1 kv.1.2, kv.2.hash, kv.2.size))
  all.foldl (fun acc x => insertSorted x acc) []

/-- the file list of a plain upload of the same files (C04: one entry per file) -/
def uploadList (es : List Entry) : List (String × String × Nat) :=
  es.map fun e => (e.path, e.hash, e.size)

end Merge
