/-! # Model of the repository operations of pkg/core (C09)

`CreateRepo` (repo_create.go), `DeleteRepo` / `DeleteBundle` / `DeleteLabel` /
`DeleteEntriesFromRepo` (delete.go), `RenameRepo` (rename.go), `RepoExists` (repo_validate.go),
the listings they use (`ListBundles`, `ListLabels`: bundle_list.go, label_list.go) and the key
templates of pkg/model (repo.go, bundle.go, label.go, paths.go).

The two metadata stores (`Metadata()` for repo descriptors, bundle descriptors and file lists,
`VMetadata()` for labels) are association lists from keys to abstract values, kept sorted by
key.  Keys are the REAL strings (as `List Char`), rendered from their components exactly as the
Go code renders them, and the operations find "their" keys the way the Go code does: by string
prefix (`KeysPrefix`), cutting the component that follows the prefix at the next `/`.  The store
has the semantics datamon is written for (GCS): `Put` is atomic, a no-overwrite `Put` of an
existing key fails, `Delete`/`Get` of a missing key fail.

Values are abstract: the fields the operations look at, plus one number (`aux`) standing for
everything else in the YAML document.

Core Lean only. -/
namespace Repo

abbrev Str := List Char

/-- what is stored under a key -/
inductive Val where
  /-- `repo.yaml`: description; `aux` = the other fields (timestamp, contributor) -/
  | repo (desc : Str) (aux : Nat)
  /-- `bundle.yaml`: `BundleEntriesFileCount`; `aux` = every other field (incl. the id) -/
  | bundle (count : Nat) (aux : Nat)
  /-- `bundle-files-<i>.yaml`: the entries in order: `NameWithPath`, `aux` = hash, size, mode -/
  | files (es : List (Str × Nat))
  /-- `label.yaml`: bundle id; `aux` = timestamp, contributors -/
  | label (bid : Str) (aux : Nat)
  /-- anything that does not parse as what its key says -/
  | junk (aux : Nat)
  deriving DecidableEq, Repr, Inhabited

abbrev Store := List (Str × Val)

/-! ## the object store -/

def get : Store → Str → Option Val
  | [], _ => none
  | (a, v) :: m, k => if k = a then some v else get m k

def has (m : Store) (k : Str) : Bool := (get m k).isSome

def del : Store → Str → Store
  | [], _ => []
  | (a, v) :: m, k => if k = a then del m k else (a, v) :: del m k

/-- sorted insertion (before the first key that is not smaller) -/
def ins (k : Str) (v : Val) : Store → Store
  | [] => [(k, v)]
  | (a, w) :: m => if a < k then (a, w) :: ins k v m else (k, v) :: (a, w) :: m

/-- `Put` with overwrite -/
def put (m : Store) (k : Str) (v : Val) : Store := ins k v (del m k)

def keys (m : Store) : List Str := m.map (·.1)

/-- the two metadata stores of a context -/
structure St where
  md : Store
  vmd : Store
  deriving DecidableEq, Repr, Inhabited

inductive Res where
  | ok
  | err
  deriving DecidableEq, Repr, Inhabited

/-! ## key templates (pkg/model: repo.go, bundle.go, label.go) -/

def sRepos : Str := ['r', 'e', 'p', 'o', 's', '/']
def sBundles : Str := ['b', 'u', 'n', 'd', 'l', 'e', 's', '/']
def sLabels : Str := ['l', 'a', 'b', 'e', 'l', 's', '/']
def sRepoFile : Str := ['r', 'e', 'p', 'o', '.', 'y', 'a', 'm', 'l']
def sBundleFile : Str := ['b', 'u', 'n', 'd', 'l', 'e', '.', 'y', 'a', 'm', 'l']
def sLabelFile : Str := ['l', 'a', 'b', 'e', 'l', '.', 'y', 'a', 'm', 'l']
def sFilesPrefix : Str := ['b', 'u', 'n', 'd', 'l', 'e', '-', 'f', 'i', 'l', 'e', 's', '-']
def sYaml : Str := ['.', 'y', 'a', 'm', 'l']

/-- decimal rendering of a file-list index (`fmt.Sprint(index)`) -/
def natStr (i : Nat) : Str := Nat.toDigits 10 i

/-- `GetArchivePathToRepoDescriptor`: `repos/<repo>/repo.yaml` -/
def repoKey (r : Str) : Str := sRepos ++ (r ++ '/' :: sRepoFile)
/-- `GetArchivePathPrefixToBundles`: `bundles/<repo>/` -/
def bundlePrefix (r : Str) : Str := sBundles ++ (r ++ ['/'])
/-- `GetArchivePathToBundle`: `bundles/<repo>/<id>/bundle.yaml` -/
def bundleKey (r id : Str) : Str := bundlePrefix r ++ (id ++ '/' :: sBundleFile)
/-- `GetArchivePathToBundleFileList`: `bundles/<repo>/<id>/bundle-files-<i>.yaml` -/
def filesKey (r id : Str) (i : Nat) : Str :=
  bundlePrefix r ++ (id ++ '/' :: (sFilesPrefix ++ (natStr i ++ sYaml)))
/-- `GetArchivePathPrefixToLabels`: `labels/<repo>/` -/
def labelPrefix (r : Str) : Str := sLabels ++ (r ++ ['/'])
/-- `GetArchivePathToLabel`: `labels/<repo>/<name>/label.yaml` -/
def labelKey (r name : Str) : Str := labelPrefix r ++ (name ++ '/' :: sLabelFile)

def notSlash (c : Char) : Bool := c != '/'

/-- The repository component of a key, as `GetArchivePathComponents` reads it: the second
    `/`-separated component of a key whose first component is `repos`, `bundles` or `labels`
    and that has at least three components. -/
def repoOf (k : Str) : Option Str :=
  let kind := k.takeWhile notSlash
  if kind ++ ['/'] = sRepos ∨ kind ++ ['/'] = sBundles ∨ kind ++ ['/'] = sLabels then
    match k.dropWhile notSlash with
    | _ :: rest =>
      match rest.dropWhile notSlash with
      | _ :: _ => some (rest.takeWhile notSlash)
      | [] => none
    | [] => none
  else none

/-- `KeysPrefix(prefix, delimiter "/")` roll-up: the component that follows the prefix `p` in
    `k`, when `k` starts with `p` and a `/` follows that component. -/
def compAfter (p k : Str) : Option Str :=
  if p.isPrefixOf k then
    let rest := k.drop p.length
    match rest.dropWhile notSlash with
    | _ :: _ => some (rest.takeWhile notSlash)
    | [] => none
  else none

/-- a key under the prefix with nothing rolled up (`GetArchivePathComponents` rejects it) -/
def strayUnder (p k : Str) : Bool :=
  p.isPrefixOf k && (compAfter p k).isNone

def dedup : List Str → List Str
  | [] => []
  | x :: xs => x :: (dedup xs).filter (· != x)

/-! ## RepoExists, CreateRepo -/

/-- `ValidateRepo` accepts letters, digits and hyphens (Unicode classes).  ASCII is modelled
    exactly; every non-ASCII character is accepted here (the Unicode tables are not modelled),
    which over-approximates the Go predicate — the theorems only use that `/` is rejected. -/
def validChar (c : Char) : Bool :=
  c.isAlphanum || c == '-' || c.val ≥ 128

def validName (r : Str) : Bool := r != [] && r.all validChar

def repoExists (s : St) (r : Str) : Bool := has s.md (repoKey r)

/-- `CreateRepo`: validate, then ONE store call: `Put(repos/<name>/repo.yaml, NoOverWrite)` -/
def createRepo (s : St) (r desc : Str) (aux : Nat) : St × Res :=
  if !validName r || desc == [] then (s, .err)
  else if has s.md (repoKey r) then (s, .err)
  else ({ s with md := put s.md (repoKey r) (.repo desc aux) }, .ok)

/-! ## listings -/

/-- ids rolled up by `KeysPrefix("bundles/<repo>/", "/")`, in key order, without repetition -/
def bundleIds (m : Store) (r : Str) : List Str :=
  dedup ((keys m).filterMap (compAfter (bundlePrefix r)))

/-- fetch the descriptors of the listed ids: a missing `bundle.yaml` is skipped (a bundle that was
    never committed is not visible), anything that is not a bundle descriptor is an error -/
def fetchBundles (m : Store) (r : Str) : List Str → Option (List (Str × Nat × Nat))
  | [] => some []
  | id :: t =>
    match get m (bundleKey r id) with
    | none => fetchBundles m r t
    | some (.bundle n a) => (fetchBundles m r t).map ((id, n, a) :: ·)
    | some _ => none

/-- `ListBundles` (after its `RepoExists` check): `none` = error -/
def listBundles (m : Store) (r : Str) : Option (List (Str × Nat × Nat)) :=
  if (keys m).any (strayUnder (bundlePrefix r)) then none
  else fetchBundles m r (bundleIds m r)

/-- every key under `labels/<repo>/` must be `labels/<repo>/<name>/label.yaml` holding a label -/
def fetchLabels (v : Store) (r : Str) : List Str → Option (List (Str × Str × Nat))
  | [] => some []
  | k :: t =>
    if (labelPrefix r).isPrefixOf k then
      match compAfter (labelPrefix r) k with
      | none => none
      | some name =>
        if k = labelKey r name then
          match get v k with
          | some (.label b a) => (fetchLabels v r t).map ((name, b, a) :: ·)
          | _ => none
        else none
    else fetchLabels v r t

/-- `ListLabels` (after its `RepoExists` check): `none` = error -/
def listLabels (v : Store) (r : Str) : Option (List (Str × Str × Nat)) :=
  fetchLabels v r (keys v)

/-! ## DeleteBundle (as DeleteRepo calls it: skip repo check, skip labels, ignore errors) -/

/-- delete the file lists `0 .. n-1` -/
def delFiles (m : Store) (r id : Str) : Nat → Store
  | 0 => m
  | n + 1 => del (delFiles m r id n) (filesKey r id n)

/-- count = 0: "delete everything until an error is found".  On a store whose `Delete` reports
    missing keys this stops at the first missing index; `fuel` = number of objects + 1 is never
    exhausted before that. -/
def delUntilMissing (r id : Str) : Nat → Nat → Store → Store
  | 0, _, m => m
  | fuel + 1, i, m =>
    if has m (filesKey r id i) then delUntilMissing r id fuel (i + 1) (del m (filesKey r id i))
    else m

/-- `BundleEntriesFileCount` of the descriptor; 0 when it cannot be read (errors are ignored) -/
def bundleCount (m : Store) (r id : Str) : Nat :=
  match get m (bundleKey r id) with
  | some (.bundle n _) => n
  | _ => 0

def deleteBundle (m : Store) (r id : Str) : Store :=
  let n := bundleCount m r id
  let m1 := if n = 0 then delUntilMissing r id (m.length + 1) 0 m else delFiles m r id n
  del m1 (bundleKey r id)

def deleteBundles (m : Store) (r : Str) (bs : List (Str × Nat × Nat)) : Store :=
  bs.foldl (fun m b => deleteBundle m r b.1) m

def deleteLabels (v : Store) (r : Str) (ls : List (Str × Str × Nat)) : Store :=
  ls.foldl (fun v l => del v (labelKey r l.1)) v

/-- `DeleteRepo` -/
def deleteRepo (s : St) (r : Str) : St × Res :=
  if !repoExists s r then (s, .err) else
  match listBundles s.md r with
  | none => (s, .err)
  | some bs =>
    let m1 := deleteBundles s.md r bs
    match listLabels s.vmd r with
    | none => ({ s with md := m1 }, .err)
    | some ls => ({ md := del m1 (repoKey r), vmd := deleteLabels s.vmd r ls }, .ok)

/-! ## RenameRepo -/

/-- copy the file lists `0 .. n-1` of one bundle (`Get` old, `Put` new, no overwrite);
    `none` = error (after the `fix:` a failed `Get` is reported) -/
def copyFiles (m : Store) (r r' id : Str) : Nat → Option Store
  | 0 => some m
  | n + 1 =>
    match copyFiles m r r' id n with
    | none => none
    | some m1 =>
      match get m1 (filesKey r id n) with
      | none => none
      | some v => if has m1 (filesKey r' id n) then none else some (put m1 (filesKey r' id n) v)

/-- the function applied by `ListBundlesApply`: descriptor first, then the file lists -/
def copyBundle (m : Store) (r r' : Str) (b : Str × Nat × Nat) : Option Store :=
  if has m (bundleKey r' b.1) then none
  else copyFiles (put m (bundleKey r' b.1) (.bundle b.2.1 b.2.2)) r r' b.1 b.2.1

def copyBundles (m : Store) (r r' : Str) : List (Str × Nat × Nat) → Option Store
  | [] => some m
  | b :: t =>
    match copyBundle m r r' b with
    | none => none
    | some m1 => copyBundles m1 r r' t

/-- `Label.UploadDescriptor` under the new name (overwrite) -/
def copyLabels (v : Store) (r' : Str) (ls : List (Str × Str × Nat)) : Store :=
  ls.foldl (fun v l => put v (labelKey r' l.1) (.label l.2.1 l.2.2)) v

def renameRepo (s : St) (r r' : Str) : St × Res :=
  if !repoExists s r then (s, .err)
  else if repoExists s r' then (s, .err)
  else match get s.md (repoKey r) with
  | some (.repo d a) =>
    match createRepo s r' d a with
    | (_, .err) => (s, .err)
    | (s1, .ok) =>
      match listBundles s1.md r with
      | none => (s1, .err)
      | some bs =>
        match copyBundles s1.md r r' bs with
        | none => (s1, .err)          -- (the partial copy is not modelled on this error path)
        | some m2 =>
          match listLabels s1.vmd r with
          | none => ({ s1 with md := m2 }, .err)
          | some ls => deleteRepo { md := m2, vmd := copyLabels s1.vmd r' ls } r
  | _ => (s, .err)

/-! ## DeleteEntriesFromRepo -/

def keepEntry (paths : List Str) (e : Str × Nat) : Bool := !paths.contains e.1

/-- rewrite the file lists `0 .. n-1` of one bundle without the given paths (only lists that
    lose an entry are written back); `none` = error -/
def pruneFiles (m : Store) (r id : Str) (paths : List Str) : Nat → Option Store
  | 0 => some m
  | n + 1 =>
    match pruneFiles m r id paths n with
    | none => none
    | some m1 =>
      match get m1 (filesKey r id n) with
      | some (.files es) =>
        if es.all (keepEntry paths) then some m1
        else some (put m1 (filesKey r id n) (.files (es.filter (keepEntry paths))))
      | _ => none

def pruneBundles (m : Store) (r : Str) (paths : List Str) : List (Str × Nat × Nat) → Option Store
  | [] => some m
  | b :: t =>
    match pruneFiles m r b.1 paths b.2.1 with
    | none => none
    | some m1 => pruneBundles m1 r paths t

def deleteEntries (s : St) (r : Str) (paths : List Str) : St × Res :=
  if !repoExists s r then (s, .err) else
  match listBundles s.md r with
  | none => (s, .err)
  | some bs =>
    match pruneBundles s.md r paths bs with
    | none => (s, .err)               -- (partial rewrites are not modelled on this error path)
    | some m1 => ({ s with md := m1 }, .ok)

/-! ## concurrent creators

Each creator validates locally and then performs exactly one store call (the no-overwrite `Put`),
which the store executes atomically.  An interleaving of the creators' store calls is therefore a
sequence of creator indices; a creator acts the first time its index occurs. -/

structure Creator where
  desc : Str
  aux : Nat
  deriving DecidableEq, Repr

def stepCreate (r : Str) (cs : List Creator) (acc : St × List (Nat × Res)) (i : Nat) :
    St × List (Nat × Res) :=
  match cs[i]? with
  | none => acc
  | some c =>
    if acc.2.any (·.1 == i) then acc
    else
      let p := createRepo acc.1 r c.desc c.aux
      (p.1, acc.2 ++ [(i, p.2)])

def runCreates (r : Str) (cs : List Creator) (sched : List Nat) (s : St) : St × List (Nat × Res) :=
  sched.foldl (stepCreate r cs) (s, [])

end Repo
