import DatamonVerif.Model.Store
/-! Model of `pkg/storage/localfs/store.go`: only what differs from the object store contract.

A file system stores the keys as paths, so besides the files (`files`, the very `Store Bytes` of
the contract) there are directories (`dirs`, the root excluded):

* `Put` first does `MkdirAll(dir(key))`: fails (`ENOTDIR`) when a proper path-prefix of the key is a
  file, otherwise creates every missing parent directory — and they stay: `Delete` never removes them;
* the open then fails when the key itself is a directory (`EEXIST` with `O_EXCL`, else `EISDIR`);
  with `O_EXCL` an existing file answers `exist`; otherwise the file is truncated and written;
* `Get`: bytes of a file; a directory opens but cannot be read (`err`); below a file `ENOTDIR` (`err`);
* `Has`: `Stat`, true only for files (a directory is not a key); below a file: `err`;
* `Delete`: `Remove`; a missing key is **ok**; an empty directory is removed (rmdir), a non-empty one
  is an error; below a file: `err`;
* `KeysPrefix`/`Keys` walk the tree and report files only — the directory walk visits the files in an
  order that is not the lexicographic one, then filters on the raw prefix, rolls up, de-duplicates and
  sorts: `Store.listingOf` on the walk order, which is `Store.listing` (theorem `C16_walk_order_irrelevant`).

The operating system / afero (`O_EXCL` atomicity, `O_TRUNC`, directory semantics) is modelled
here, not verified. `Props/C16.lean` proves that on key universes where no key is a proper
path-prefix of another this model and the contract (`missingOk = true`) cannot be told apart. -/
namespace LocalFS
open Store

structure FS where
  files : Store Bytes
  /-- existing directories (root excluded), as slash-separated paths -/
  dirs : List String

def FS.empty : FS := ⟨[], []⟩

/-- the components of a slash-separated path (`strings.Split(k, "/")`, structural so that `decide` evaluates it) -/
def splitSlash : List Char → List (List Char)
  | [] => [[]]
  | c :: r =>
    if c = '/' then [] :: splitSlash r
    else match splitSlash r with
      | [] => [[c]]
      | h :: t => (c :: h) :: t

def parentsGo (acc : List Char) : List (List Char) → List String
  | [] => []
  | c :: rest => String.ofList acc :: parentsGo (acc ++ '/' :: c) rest

/-- the proper path-prefixes of a key: `a/b/c ↦ [a, a/b]` -/
def parents (k : String) : List String :=
  match splitSlash k.toList with
  | [] => []
  | c :: rest => parentsGo c rest

/-- keys the file system maps one-to-one to files: non-empty components, none `.` or `..` -/
def cleanKey (k : String) : Bool :=
  (splitSlash k.toList).all fun c => c != [] && c != ['.'] && c != ['.', '.']

def isFile (fs : FS) (p : String) : Bool := (lookup p fs.files).isSome
def isDir (fs : FS) (p : String) : Bool := fs.dirs.contains p
/-- some proper path-prefix of the key is a file (`ENOTDIR`) -/
def underFile (fs : FS) (k : String) : Bool := (parents k).any (isFile fs)

def addDirs (ds : List String) : List String → List String
  | [] => ds
  | p :: r => addDirs (if ds.contains p then ds else ds ++ [p]) r

/-- the directory has an entry -/
def nonEmptyDir (fs : FS) (d : String) : Bool :=
  (keys fs.files).any (fun f => (parents f).contains d) || fs.dirs.any (fun x => (parents x).contains d)

def put (fs : FS) (k : String) (v : Bytes) (excl : Bool) : FS × Status :=
  if underFile fs k then (fs, .err)
  else
    let fs1 : FS := { fs with dirs := addDirs fs.dirs (parents k) }
    if isDir fs1 k then (fs1, if excl then .exist else .err)
    else if excl && isFile fs1 k then (fs1, .exist)
    else ({ fs1 with files := insert k v fs1.files }, .ok)

def get (fs : FS) (k : String) : Out Bytes :=
  if underFile fs k then .status .err
  else match lookup k fs.files with
    | some b => .value (some b)
    | none => if isDir fs k then .status .err else .value none

def has (fs : FS) (k : String) : Out Bytes :=
  if underFile fs k then .status .err else .bool (isFile fs k)

def delete (fs : FS) (k : String) : FS × Status :=
  if underFile fs k then (fs, .err)
  else if isFile fs k then ({ fs with files := erase k fs.files }, .ok)
  else if isDir fs k then
    if nonEmptyDir fs k then (fs, .err) else ({ fs with dirs := fs.dirs.filter (· != k) }, .ok)
  else (fs, .ok)

def step (fs : FS) : Op Bytes → FS × Out Bytes
  | .put k v x => let r := put fs k v x; (r.1, .status r.2)
  | .get k => (fs, get fs k)
  | .has k => (fs, has fs k)
  | .delete k => let r := delete fs k; (r.1, .status r.2)

def run (fs : FS) : List (Op Bytes) → FS × List (Out Bytes)
  | [] => (fs, [])
  | op :: rest =>
    let r := step fs op
    let q := run r.1 rest
    (q.1, r.2 :: q.2)

/-- `KeysPrefix` (after the `fix:` commit): walk, keep files, filter on the raw prefix, roll up,
    de-duplicate, sort, page. `walk` is the order in which the directory walk meets the files. -/
def keysPrefixWalk (walk : List String) (token pfx delim : String) (count : Nat) : List String × String :=
  page (listingOf pfx delim walk) token count

def keysPrefix (fs : FS) (token pfx delim : String) (count : Nat) : List String × String :=
  Store.keysPrefix fs.files token pfx delim count

/-- Trigger of known finding `C16-memmapfs-excl`: concurrent create-if-absent writers on a localfs
    backed by afero's in-memory `MemMapFs` (whose `OpenFile(O_EXCL)` is check-then-create, not atomic)
    and not serialised by `localfs.WithLock`. Real directories are not in this region. -/
def triggerMemMapFsExcl (store kind lock : String) : Bool :=
  store == "mem" && kind == "race" && lock == "0"

end LocalFS
