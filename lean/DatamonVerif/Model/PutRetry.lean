/-! `localfs.Put` and its retry policy (C16, second defect round): the record is (re)created with
O_TRUNC on every attempt and the source is written into it; an attempt may fail after the file
system accepted a prefix. What the source hands over on the next attempt depends on whether it was
rewound. Mirrors `pkg/storage/localfs/store.go:Put` (`rewind`, the two `operation` closures). -/
namespace PutRetry

abbrev Bytes := List UInt8

/-- a source: its bytes, the read position, whether it can seek -/
structure Src where
  data : Bytes
  pos : Nat
  seekable : Bool
deriving Repr, DecidableEq

/-- one attempt on a truncated record. `fault = none`: the write goes through; `some (keep, used)`:
    the file system accepts `keep` bytes and fails, the source having been consumed by `used ≥ keep`
    bytes. Returns the source afterwards, the record's content, and whether the attempt succeeded. -/
def attempt (src : Src) (fault : Option (Nat × Nat)) : Src × Bytes × Bool :=
  let rest := src.data.drop src.pos
  match fault with
  | none => ({ src with pos := src.data.length }, rest, true)
  | some (keep, used) => ({ src with pos := src.pos + max keep used }, rest.take keep, false)

/-- the repaired `Put`: before every attempt but the first a seekable source is rewound to where it
    stood; a source that cannot seek is not written again (`restarts`: a `WriterTo` that restarts by
    itself, like the cafs reader, is exempt and modelled as seekable). A failed attempt removes the
    record. Result: `some record` on success, `none` when the error is reported. -/
def putFixed (start : Nat) : Src → List (Option (Nat × Nat)) → Bool → Option Bytes
  | _, [], _ => none                                   -- the retry budget is exhausted
  | src, f :: fs, first =>
    if !first && !src.seekable then none else
    let src' := if first then src else { src with pos := start }
    match attempt src' f with
    | (_, rec, true) => some rec
    | (s2, _, false) => putFixed start s2 fs false

/-- the code before the fix: every retry re-enters the source where the failed attempt left it -/
def putOld : Src → List (Option (Nat × Nat)) → Option Bytes
  | _, [] => none
  | src, f :: fs =>
    match attempt src f with
    | (_, rec, true) => some rec
    | (s2, _, false) => putOld s2 fs

end PutRetry
