/-! Model of `pkg/filetracker` (C22): the write-range tracker.

The radix tree is observed as its sorted dump `List (offset × isStart)`; `trackWrite` is the
walk over (start,end) marker pairs: ranges entirely before the write are kept, the first range
entirely after it stops the walk, every range that overlaps *or touches* the write is merged.
`getRangeToRead` is the Go walk verbatim. -/
namespace Tracker

abbrev Markers := List (Nat × Bool)

/-- `trackWrite` for a write `[s, e)`, `s < e`, over well-formed markers. -/
def track (s e : Nat) : Markers → Markers
  | (a, true) :: (b, false) :: r =>
    if b < s then (a, true) :: (b, false) :: track s e r
    else if e < a then (s, true) :: (e, false) :: (a, true) :: (b, false) :: r
    else track (min s a) (max e b) r
  | _ => [(s, true), (e, false)]

def trackWrite (t : Markers) (off len : Nat) : Markers :=
  if len = 0 then t else track off (off + len) t

/-- `getRangeToRead`: walk the markers in key order. -/
def getRangeGo (off len : Nat) : Markers → Nat → Bool → Nat × Bool
  | [], c, st => (c, st)
  | (k, isStart) :: r, c, _ =>
    if isStart then
      if k ≤ off then getRangeGo off len r c true else (min (k - off) len, false)
    else
      if k ≤ off then getRangeGo off len r c false else (min (k - off) len, true)

def getRangeToRead (t : Markers) (off len : Nat) : Nat × Bool :=
  getRangeGo off len t len false

/-- Specification: the offsets covered by some write. -/
def covered (ws : List (Nat × Nat)) (x : Nat) : Bool :=
  ws.any fun w => decide (w.1 ≤ x) && decide (x < w.1 + w.2)

def run (ws : List (Nat × Nat)) : Markers :=
  ws.foldl (fun t w => trackWrite t w.1 w.2) []

end Tracker
