import DatamonVerif.Generated.Facts
/-! Model of the metadata paths of `pkg/model` (C20).

Strings are lists of characters (`Str`); a Go string that is valid UTF-8 is exactly such a list
(byte-level functions — `len`, `ksuid.Parse` — go through `utf8`).

* `render` / `renderJoin` interpret the path templates that the facts translator generates from
  the `GetArchivePath*`, `GetConsumablePath*`, `GetPathTo*` … builders (`Facts.pathTemplates`,
  `Facts.joinPathTemplates`): `fmt.Sprint`/`Sprintf`/`+` concatenation and `path.Join`
  (`pathJoin` = drop empty elements, join with "/", `path.Clean`).
* `parseArchivePath` mirrors `GetArchivePathComponents` (`strings.SplitN(p, "/", 7)`, the position
  table, `ksuid.Parse` as implemented by segmentio/ksuid v1.0.4, the index-file pattern).
* `parseConsumable` mirrors `GetConsumableStorePathMetadata` (`metaRe`, `flRe`, `ParseUint`);
  `buildConsumable*` the builders with their inverse check (a failed check is a panic = `none`).
* `isGenerated` mirrors the alternatives of `genFileRe` one by one.
* `validateRepo` / `validateLabel` mirror `ValidateRepo` / `ValidateLabel`; the Hyphen and Pc
  tables are concrete, ASCII letters/digits are concrete, the letter/digit status of non-ASCII
  runes is a parameter (`Classes`), supplied by the harness from Go's `unicode` tables. -/
namespace Paths
open Facts (Piece Template)

abbrev Str := List Char

/-! ### rendering -/

/-- an argument of a builder: a string, a `uint64`, or a variadic list of strings -/
inductive Arg where
  | s (v : Str)
  | n (v : Nat)
  | l (v : List Str)
  deriving DecidableEq, Repr, Inhabited

/-- `fmt.Sprint` of an unsigned integer -/
def dec (n : Nat) : Str := Nat.toDigits 10 n

/-- `strings.Join` -/
def joinWith (sep : Str) : List Str → Str
  | [] => []
  | [x] => x
  | x :: y :: r => x ++ sep ++ joinWith sep (y :: r)

def strArg (a : List Arg) (i : Nat) : Str :=
  match a[i]? with
  | some (.s v) => v
  | _ => []

def numArg (a : List Arg) (i : Nat) : Nat :=
  match a[i]? with
  | some (.n v) => v
  | _ => 0

def listArg (a : List Arg) (i : Nat) : List Str :=
  match a[i]? with
  | some (.l v) => v
  | _ => []

def renderPiece (a : List Arg) : Piece → Str
  | .lit s => s
  | .param i => strArg a i
  | .num i => dec (numArg a i)
  | .sepBy i sep => joinWith sep (listArg a i)

/-- the string a concatenation builder returns -/
def render (T : Template) (a : List Arg) : Str := T.flatMap (renderPiece a)

/-- a template with its literals exploded into characters: two templates with the same `flat`
    render the same string whatever the way the Go code cuts the literals -/
inductive Atom where
  | ch (c : Char)
  | param (i : Nat)
  | num (i : Nat)
  | sepBy (i : Nat) (sep : Str)
  deriving DecidableEq, Repr

def flatPiece : Piece → List Atom
  | .lit s => s.map .ch
  | .param i => [.param i]
  | .num i => [.num i]
  | .sepBy i sep => [.sepBy i sep]

def flat (T : Template) : List Atom := T.flatMap flatPiece

def renderAtom (a : List Arg) : Atom → Str
  | .ch c => [c]
  | .param i => strArg a i
  | .num i => dec (numArg a i)
  | .sepBy i sep => joinWith sep (listArg a i)

def renderF (A : List Atom) (a : List Arg) : Str := A.flatMap (renderAtom a)

/-- one "/"-delimited segment of a path: a constant, a string parameter alone, or an index file
    name `pre ++ decimal ++ post` -/
inductive Seg where
  | const (s : Str)
  | var (i : Nat)
  | idx (pre : Str) (i : Nat) (post : Str)
  deriving DecidableEq, Repr

def Seg.atoms : Seg → List Atom
  | .const s => s.map .ch
  | .var i => [.param i]
  | .idx pre i post => pre.map .ch ++ [.num i] ++ post.map .ch

/-- the flat template of a path made of the given segments -/
def ofSegs : List Seg → List Atom
  | [] => []
  | s :: t =>
    match t with
    | [] => s.atoms
    | _ :: _ => s.atoms ++ Atom.ch '/' :: ofSegs t

def Seg.render (a : List Arg) : Seg → Str
  | .const s => s
  | .var i => strArg a i
  | .idx pre i post => pre ++ dec (numArg a i) ++ post

/-- the constant parts of a segment contain no "/" -/
def Seg.slashFree : Seg → Bool
  | .const s => !s.contains '/'
  | .var _ => true
  | .idx pre _ post => !pre.contains '/' && !post.contains '/'

def joinSlash (l : List Str) : Str := joinWith ['/'] l

/-! ### strings.Split / SplitN on "/" and path.Clean / path.Join -/

/-- cut at the first "/": the part before it and, if there is one, the part after it -/
def cut : Str → Str × Option Str
  | [] => ([], none)
  | c :: r => if c = '/' then ([], some r) else ((cut r).1.cons c, (cut r).2)

/-- `strings.SplitN(s, "/", n)` for `n ≥ 0` -/
def splitN : Nat → Str → List Str
  | 0, _ => []
  | n + 1, s =>
    if n = 0 then [s]
    else
      match cut s with
      | (a, none) => [a]
      | (a, some r) => a :: splitN n r

/-- `strings.Split(s, "/")` -/
def splitSlash (s : Str) : List Str := splitN (s.length + 1) s

def dot : Str := ['.']
def dotdot : Str := ['.', '.']

/-- one component of `path.Clean` on the stack of kept components (most recent first) -/
def cleanStep (rooted : Bool) (stack : List Str) (c : Str) : List Str :=
  if c = [] ∨ c = dot then stack
  else if c = dotdot then
    match stack with
    | [] => if rooted then [] else [c]
    | top :: rest => if top = dotdot then c :: stack else rest
  else c :: stack

/-- `path.Clean` -/
def clean (p : Str) : Str :=
  if p = [] then dot
  else
    let rooted := p.head? == some '/'
    let body := joinSlash ((splitSlash p).foldl (cleanStep rooted) []).reverse
    if rooted then '/' :: body else if body = [] then dot else body

/-- `path.Join` -/
def pathJoin (elems : List Str) : Str :=
  let ne := elems.filter (· ≠ [])
  if ne = [] then [] else clean (joinSlash ne)

/-- the string a `path.Join` builder returns -/
def renderJoin (J : List Template) (a : List Arg) : Str := pathJoin (J.map (render · a))

/-! ### ksuid.Parse (segmentio/ksuid v1.0.4: length 27 bytes, lenient base-62 digits, < 2^160) -/

def utf8 (s : Str) : List Nat := s.flatMap (fun c => (String.utf8EncodeChar c).map UInt8.toNat)

/-- `base62Value`: byte arithmetic, no validation of the digit -/
def base62Value (b : Nat) : Nat :=
  if 48 ≤ b ∧ b ≤ 57 then b - 48
  else if 65 ≤ b ∧ b ≤ 90 then 10 + (b - 65)
  else (36 + (b + 256 - 97)) % 256

def base62Num (bs : List Nat) : Nat := bs.foldl (fun acc b => acc * 62 + base62Value b) 0

/-- `ksuid.Parse(s)` succeeds -/
def ksuidOK (s : Str) : Bool :=
  (utf8 s).length == 27 && decide (base62Num (utf8 s) < 2 ^ 160)

/-! ### GetArchivePathComponents -/

structure Comps where
  repo : Str := []
  bundleID : Str := []
  archiveFileName : Str := []
  labelName : Str := []
  context : Str := []
  diamondID : Str := []
  splitID : Str := []
  generationID : Str := []
  isFinalState : Bool := false
  deriving DecidableEq, Repr

def stripPrefix : Str → Str → Option Str
  | [], s => some s
  | _ :: _, [] => none
  | p :: ps, c :: cs => if p = c then stripPrefix ps cs else none

def stripSuffix (suf s : Str) : Option Str :=
  (stripPrefix suf.reverse s.reverse).map List.reverse

def indexPre : Str := Facts.bundleFilesIndexPrefix
def indexPost : Str := ['.', 'y', 'a', 'm', 'l']

/-- the digits of an index file name: `^bundle-files-(\d+)\.yaml$` -/
def indexDigits (s : Str) : Option Str :=
  match stripPrefix indexPre s with
  | none => none
  | some r =>
    match stripSuffix indexPost r with
    | none => none
    | some d => if d ≠ [] ∧ d.all Char.isDigit then some d else none

def isIndexFile (s : Str) : Bool := (indexDigits s).isSome

def labelFile : Str := Facts.labelDescriptorFile
def repoFile : Str := Facts.repoDescriptorFile
def bundleFile : Str := Facts.bundleDescriptorFile
def contextFile : Str := Facts.contextDescriptorFile
def diamondInitialFile : Str := Facts.diamondInitialDescriptorFile
def diamondFinalFile : Str := Facts.diamondFinalDescriptorFile
def splitInitialFile : Str := Facts.splitInitialDescriptorFile
def splitFinalFile : Str := Facts.splitFinalDescriptorFile

def tagLabels : Str := ['l', 'a', 'b', 'e', 'l', 's']
def tagRepos : Str := ['r', 'e', 'p', 'o', 's']
def tagBundles : Str := ['b', 'u', 'n', 'd', 'l', 'e', 's']
def tagContexts : Str := ['c', 'o', 'n', 't', 'e', 'x', 't', 's']
def tagDiamonds : Str := ['d', 'i', 'a', 'm', 'o', 'n', 'd', 's']

/-- the `switch cs[0]` of `GetArchivePathComponents` on the split path -/
def parseSegs (cs : List Str) : Option Comps :=
  let n := cs.length
  let c (i : Nat) : Str := cs.getD i []
  if c 0 = tagLabels then
    if n < 4 then none
    else if c 3 ≠ labelFile then none
    else some { archiveFileName := c 3, labelName := c 2, repo := c 1 }
  else if c 0 = tagRepos then
    if n < 3 then none
    else if c 2 ≠ repoFile then none
    else some { archiveFileName := c 2, repo := c 1 }
  else if c 0 = tagBundles then
    if n < 4 then none
    else if c 3 = [] ∨ c 3 = bundleFile ∨ isIndexFile (c 3) = true then
      some { archiveFileName := c 3, bundleID := c 2, repo := c 1 }
    else none
  else if c 0 = tagContexts then
    if n < 3 then none
    else some { archiveFileName := c 2, context := c 1 }
  else if c 0 = tagDiamonds then
    if n < 4 then none
    else if ksuidOK (c 2) = false then none
    else if c 3 = [] ∨ c 3 = diamondInitialFile ∨ c 3 = diamondFinalFile then
      some { archiveFileName := c 3, repo := c 1, diamondID := c 2,
             isFinalState := decide (c 3 = diamondFinalFile) }
    else if n < 5 then none
    else if c 4 = [] then some { repo := c 1, diamondID := c 2 }
    else if n < 6 then none
    else if c 5 = [] ∨ c 5 = splitInitialFile ∨ c 5 = splitFinalFile then
      some { archiveFileName := c 5, repo := c 1, diamondID := c 2, splitID := c 4,
             isFinalState := decide (c 5 = splitFinalFile) }
    else if n > 6 then
      if ksuidOK (c 5) = false then none
      else if n > 7 ∨ isIndexFile (c 6) = false then none
      else some { archiveFileName := c 6, repo := c 1, diamondID := c 2, splitID := c 4,
                  generationID := c 5, isFinalState := decide (c 5 = splitFinalFile) }
    else none
  else none

/-- `GetArchivePathComponents` -/
def parseArchivePath (p : Str) : Option Comps := parseSegs (splitN 7 p)

/-- the index encoded in an index file name (the spec reading of `bundle-files-{index}.yaml`) -/
def fileIndex (s : Str) : Option Nat := (indexDigits s).map (Nat.ofDigitChars 10 · 0)

/-! ### the kinds of archive paths and their expected segment structure
    (the comments "as in: labels/{repo}/{label}/label.yaml" of the Go position table) -/

inductive Kind where
  | label | repo | bundle | bundleFileList | context
  | diamondInitial | diamondFinal | splitInitial | splitFinal | splitFileList
  deriving DecidableEq, Repr

def Kind.all : List Kind :=
  [.label, .repo, .bundle, .bundleFileList, .context, .diamondInitial, .diamondFinal, .splitInitial,
   .splitFinal, .splitFileList]

def splitsDir : Str := ['s', 'p', 'l', 'i', 't', 's']

/-- expected shape of each kind, in terms of the constants of the Go source -/
def Kind.segs : Kind → List Seg
  | .label => [.const tagLabels, .var 0, .var 1, .const labelFile]
  | .repo => [.const tagRepos, .var 0, .const repoFile]
  | .bundle => [.const tagBundles, .var 0, .var 1, .const bundleFile]
  | .bundleFileList => [.const tagBundles, .var 0, .var 1, .idx indexPre 2 indexPost]
  | .context => [.const tagContexts, .var 0, .const contextFile]
  | .diamondInitial => [.const tagDiamonds, .var 0, .var 1, .const diamondInitialFile]
  | .diamondFinal => [.const tagDiamonds, .var 0, .var 1, .const diamondFinalFile]
  | .splitInitial => [.const tagDiamonds, .var 0, .var 1, .const splitsDir, .var 2, .const splitInitialFile]
  | .splitFinal => [.const tagDiamonds, .var 0, .var 1, .const splitsDir, .var 2, .const splitFinalFile]
  | .splitFileList =>
    [.const tagDiamonds, .var 0, .var 1, .const splitsDir, .var 2, .var 3, .idx indexPre 4 indexPost]

/-- the generated template of each kind (`.context` is a `path.Join` builder, see `contextJ`) -/
def Kind.tmpl : Kind → Template
  | .label => Facts.archivePathToLabelT
  | .repo => Facts.archivePathToRepoDescriptorT
  | .bundle => Facts.archivePathToBundleT
  | .bundleFileList => Facts.archivePathToBundleFileListT
  | .context => []
  | .diamondInitial => Facts.archivePathToInitialDiamondT
  | .diamondFinal => Facts.archivePathToFinalDiamondT
  | .splitInitial => Facts.archivePathToInitialSplitT
  | .splitFinal => Facts.archivePathToFinalSplitT
  | .splitFileList => Facts.archivePathToSplitFileListT

/-- what the Go builder of the kind returns -/
def Kind.build (k : Kind) (a : List Arg) : Str :=
  match k with
  | .context => renderJoin Facts.pathToContextJ a
  | _ => render k.tmpl a

/-- the components a path of kind `k` built from `a` stands for -/
def Kind.comps (k : Kind) (a : List Arg) : Comps :=
  match k with
  | .label => { repo := strArg a 0, labelName := strArg a 1, archiveFileName := labelFile }
  | .repo => { repo := strArg a 0, archiveFileName := repoFile }
  | .bundle => { repo := strArg a 0, bundleID := strArg a 1, archiveFileName := bundleFile }
  | .bundleFileList =>
    { repo := strArg a 0, bundleID := strArg a 1,
      archiveFileName := indexPre ++ dec (numArg a 2) ++ indexPost }
  | .context => { context := strArg a 0, archiveFileName := contextFile }
  | .diamondInitial => { repo := strArg a 0, diamondID := strArg a 1, archiveFileName := diamondInitialFile }
  | .diamondFinal =>
    { repo := strArg a 0, diamondID := strArg a 1, archiveFileName := diamondFinalFile, isFinalState := true }
  | .splitInitial =>
    { repo := strArg a 0, diamondID := strArg a 1, splitID := strArg a 2, archiveFileName := splitInitialFile }
  | .splitFinal =>
    { repo := strArg a 0, diamondID := strArg a 1, splitID := strArg a 2, archiveFileName := splitFinalFile,
      isFinalState := true }
  | .splitFileList =>
    { repo := strArg a 0, diamondID := strArg a 1, splitID := strArg a 2, generationID := strArg a 3,
      archiveFileName := indexPre ++ dec (numArg a 4) ++ indexPost }

/-! ### the domain of the round-trip theorems -/

/-- the values a path stands for; each kind uses the fields of its Go signature, in that order -/
structure PArgs where
  repo : Str := []
  label : Str := []
  bundle : Str := []
  ctx : Str := []
  diamond : Str := []
  split : Str := []
  gen : Str := []
  index : Nat := 0

def Kind.args : Kind → PArgs → List Arg
  | .label, p => [.s p.repo, .s p.label]
  | .repo, p => [.s p.repo]
  | .bundle, p => [.s p.repo, .s p.bundle]
  | .bundleFileList, p => [.s p.repo, .s p.bundle, .n p.index]
  | .context, p => [.s p.ctx]
  | .diamondInitial, p => [.s p.repo, .s p.diamond]
  | .diamondFinal, p => [.s p.repo, .s p.diamond]
  | .splitInitial, p => [.s p.repo, .s p.diamond, .s p.split]
  | .splitFinal, p => [.s p.repo, .s p.diamond, .s p.split]
  | .splitFileList, p => [.s p.repo, .s p.diamond, .s p.split, .s p.gen, .n p.index]

def noSlash (s : Str) : Prop := '/' ∉ s

/-- a path component that `path.Clean` keeps as it is -/
def normalComp (s : Str) : Prop := '/' ∉ s ∧ s ≠ [] ∧ s ≠ dot ∧ s ≠ dotdot

/-- the domain: names contain no "/", diamond and generation ids are accepted by `ksuid.Parse`,
    split ids are not empty, a context name is a plain path component; any index -/
def Kind.valid : Kind → PArgs → Prop
  | .label, p => noSlash p.repo ∧ noSlash p.label
  | .repo, p => noSlash p.repo
  | .bundle, p => noSlash p.repo ∧ noSlash p.bundle
  | .bundleFileList, p => noSlash p.repo ∧ noSlash p.bundle
  | .context, p => normalComp p.ctx
  | .diamondInitial, p => noSlash p.repo ∧ noSlash p.diamond ∧ ksuidOK p.diamond = true
  | .diamondFinal, p => noSlash p.repo ∧ noSlash p.diamond ∧ ksuidOK p.diamond = true
  | .splitInitial, p =>
    noSlash p.repo ∧ noSlash p.diamond ∧ ksuidOK p.diamond = true ∧ noSlash p.split ∧ p.split ≠ []
  | .splitFinal, p =>
    noSlash p.repo ∧ noSlash p.diamond ∧ ksuidOK p.diamond = true ∧ noSlash p.split ∧ p.split ≠ []
  | .splitFileList, p =>
    noSlash p.repo ∧ noSlash p.diamond ∧ ksuidOK p.diamond = true ∧ noSlash p.split ∧ p.split ≠ [] ∧
      noSlash p.gen ∧ ksuidOK p.gen = true


instance (k : Kind) (p : PArgs) : Decidable (k.valid p) := by
  cases k <;> unfold Kind.valid noSlash normalComp <;> infer_instance

/-- read the arguments of a builder call back as the values of kind `k` -/
def Kind.ofArgs (k : Kind) (a : List Arg) : PArgs :=
  match k with
  | .label => { repo := strArg a 0, label := strArg a 1 }
  | .repo => { repo := strArg a 0 }
  | .bundle => { repo := strArg a 0, bundle := strArg a 1 }
  | .bundleFileList => { repo := strArg a 0, bundle := strArg a 1, index := numArg a 2 }
  | .context => { ctx := strArg a 0 }
  | .diamondInitial => { repo := strArg a 0, diamond := strArg a 1 }
  | .diamondFinal => { repo := strArg a 0, diamond := strArg a 1 }
  | .splitInitial => { repo := strArg a 0, diamond := strArg a 1, split := strArg a 2 }
  | .splitFinal => { repo := strArg a 0, diamond := strArg a 1, split := strArg a 2 }
  | .splitFileList =>
    { repo := strArg a 0, diamond := strArg a 1, split := strArg a 2, gen := strArg a 3, index := numArg a 4 }

/-! ### consumable-store metadata paths -/

inductive CMeta where
  | desc (id : Str)
  | list (id : Str) (idx : Nat)
  deriving DecidableEq, Repr

def metaPre : Str := ['.', 'd', 'a', 't', 'a', 'm', 'o', 'n', '/']
def metaPost : Str := ['.', 'y', 'a', 'm', 'l']
def flSep : Str := '-' :: Facts.bundleFilesIndexPrefix

/-- greedy `^(.*)SEP(.*)$`: split at the last occurrence of `sep` -/
def splitLast (sep : Str) : Str → Option (Str × Str)
  | [] => none
  | c :: r =>
    match splitLast sep r with
    | some (a, b) => some (c :: a, b)
    | none =>
      match stripPrefix sep (c :: r) with
      | some b => some ([], b)
      | none => none

/-- `strconv.ParseUint(s, 10, 64)` -/
def parseUint64 (d : Str) : Option Nat :=
  if d ≠ [] ∧ d.all Char.isDigit then
    if Nat.ofDigitChars 10 d 0 < 2 ^ 64 then some (Nat.ofDigitChars 10 d 0) else none
  else none

/-- `GetConsumableStorePathMetadata` (`.` of a Go regexp does not match a newline) -/
def parseConsumable (p : Str) : Option CMeta :=
  match stripPrefix metaPre p with
  | none => none
  | some r =>
    match stripSuffix metaPost r with
    | none => none
    | some name =>
      if name.contains '\n' then none
      else
        match splitLast flSep name with
        | none => some (.desc name)
        | some (id, d) =>
          match parseUint64 d with
          | some n => some (.list id n)
          | none => none

/-- `GetConsumablePathToBundle`: `none` = panic in the inverse check -/
def buildConsumableBundle (id : Str) : Option Str :=
  let p := render Facts.consumablePathToBundleT [.s id]
  if parseConsumable p = some (.desc id) then some p else none

/-- `GetConsumablePathToBundleFileList`: `none` = panic in the inverse check -/
def buildConsumableFileList (id : Str) (idx : Nat) : Option Str :=
  let p := render Facts.consumablePathToBundleFileListT [.s id, .n idx]
  if parseConsumable p = some (.list id idx) then some p else none

/-! ### reverse index chunk names (spec reading of `reverse-index/chunk-{n}.yaml`) -/

def chunkPre : Str := Facts.indexFilePrefix

def parseChunk (p : Str) : Option Nat :=
  match stripPrefix chunkPre ((splitSlash p).getLastD []) with
  | none => none
  | some r =>
    match stripSuffix indexPost r with
    | none => none
    | some d => parseUint64 d

/-! ### IsGeneratedFile -/

def hasPrefix (p : Str) (s : Str) : Bool := (stripPrefix p s).isSome

/-- `^NAME(/.*|$)` after the prefix `pfx` -/
def nameThen (pfx name : Str) (s : Str) : Bool :=
  match stripPrefix (pfx ++ name) s with
  | some r => r = [] || r.head? == some '/'
  | none => false

def rDatamon : Str := ['.', 'd', 'a', 't', 'a', 'm', 'o', 'n']
def rConflicts : Str := ['.', 'c', 'o', 'n', 'f', 'l', 'i', 'c', 't', 's']
def rCheckpoints : Str := ['.', 'c', 'h', 'e', 'c', 'k', 'p', 'o', 'i', 'n', 't', 's']

/-- `^(\./|/)?NAME(/.*|$)` -/
def reservedAlt (name : Str) (s : Str) : Bool :=
  nameThen ['.', '/'] name s || nameThen ['/'] name s || nameThen [] name s

/-- the alternatives of `genFileRe`, in order:
    `^\.datamon/.*|^/\.datamon/.*|^/\.datamon$|^\.datamon$|^\./\.datamon/.*|^\./\.datamon$|…conflicts…|…checkpoints…` -/
def isGenerated (s : Str) : Bool :=
  hasPrefix (rDatamon ++ ['/']) s || hasPrefix ('/' :: rDatamon ++ ['/']) s || s == '/' :: rDatamon || s == rDatamon
    || hasPrefix ('.' :: '/' :: rDatamon ++ ['/']) s || s == '.' :: '/' :: rDatamon
    || reservedAlt rConflicts s || reservedAlt rCheckpoints s

/-! ### ValidateRepo / ValidateLabel -/

/-- the `unicode.Hyphen` property table (Go 1.x, Unicode PropList) -/
def hyphenTable : List Nat :=
  [0x2D, 0xAD, 0x58A, 0x1806, 0x2010, 0x2011, 0x2E17, 0x30FB, 0xFE63, 0xFF0D, 0xFF65]

/-- the `unicode.Pc` (connector punctuation) table -/
def pcTable : List Nat :=
  [0x5F, 0x203F, 0x2040, 0x2054, 0xFE33, 0xFE34, 0xFE4D, 0xFE4E, 0xFE4F, 0xFF3F]

/-- letter / decimal-digit status of non-ASCII runes (Go's `unicode.IsLetter`, `unicode.IsDigit`) -/
structure Classes where
  letter : Char → Bool
  digit : Char → Bool

def isLetter (o : Classes) (c : Char) : Bool := if c.toNat < 128 then c.isAlpha else o.letter c
def isDigit (o : Classes) (c : Char) : Bool := if c.toNat < 128 then c.isDigit else o.digit c
def isHyphen (c : Char) : Bool := hyphenTable.contains c.toNat
def isPc (c : Char) : Bool := pcTable.contains c.toNat

def repoChar (o : Classes) (c : Char) : Bool := isDigit o c || isLetter o c || isHyphen c
def labelChar (o : Classes) (c : Char) : Bool := isDigit o c || isLetter o c || isHyphen c || isPc c

/-- `ValidateRepo(repo) == nil` -/
def validateRepo (o : Classes) (name desc : Str) : Bool :=
  if name = [] then false
  else if desc = [] then false
  else name.all (repoChar o)

/-- a contributor as `ValidateLabel` sees it: name, e-mail, and whether `mail.ParseAddress` accepts it -/
structure Contrib where
  name : Str
  email : Str
  mailOK : Bool

/-- `ValidateLabel(label) == nil` -/
def validateLabel (o : Classes) (name bundleID : Str) (cs : List Contrib) : Bool :=
  if name = [] then false
  else if bundleID = [] then false
  else if name.all (labelChar o) = false then false
  else cs.all (fun c => c.name ≠ [] && c.email ≠ [] && c.mailOK)

end Paths
