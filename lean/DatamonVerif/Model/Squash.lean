/-! Model of `core.RepoSquash` / `core.DeleteBundle` (C10) on the metadata of ONE repository.

Bundle ids are natural numbers: the rank of the KSUID in lexicographic (= creation) order. The
metadata store holds, per repository,

* `descs`  — the bundle descriptors present (`bundles/<repo>/<id>/bundle.yaml`), with the
             `BundleEntriesFileCount` they record;
* `idx`    — the index files present (`bundles/<repo>/<id>/bundle-files-<i>.yaml`);
* `labels` — the labels present in the versioned metadata store (`labels/<repo>/<name>/label.yaml`),
             name ↦ bundle id.

A *committed* bundle is an id that has a descriptor (the descriptor is the last write of an upload);
an id that only has index files is the leftover of an interrupted upload. The blob store does not
occur: squash never calls it (fact `Facts.squashTouchesBlobStore = false`).

`squash byKey …` mirrors `RepoSquash`: first listing (`byKey = true`: by key only, the code before the
`fix:`; `byKey = false`: ids that have a descriptor, the code that exists now), early return when there
are at most `N` bundles, index of retained ids from the labels, `deleteBundle` of every other id but
the last `N`, second listing (by key only), removal of the labels whose id is no longer listed.
`deleteBundle` mirrors `DeleteBundle(… WithDeleteSkipDeleteLabel, WithDeleteIgnoreBundleError)`:
index files `0..count-1` when the descriptor gives a count, otherwise `0,1,2,…` while the file is
present (`delLoop`, the loop that exists now), then the descriptor. -/
namespace Squash

abbrev Id := Nat
/-- an index-file key: bundle id, file number -/
abbrev Key := Id × Nat

structure Repo where
  descs  : List (Id × Nat)
  idx    : List Key
  labels : List (String × Id)
deriving Repr, DecidableEq

/-- the two squash flags `WithRetainTags`, `WithRetainSemverTags` -/
structure Retain where
  tags   : Bool
  semver : Bool
deriving Repr, DecidableEq

/-! ### sorted listing of ids (the store lists keys in lexicographic order, rolled up per id) -/

def insertUniq (x : Nat) : List Nat → List Nat
  | [] => [x]
  | y :: t => if x < y then x :: y :: t else if x = y then y :: t else y :: insertUniq x t

def sortDedup (l : List Nat) : List Nat := l.foldr insertUniq []

/-- ids that have a descriptor, ascending: `ListBundles` without `WithMinimalBundle` -/
def committedIds (r : Repo) : List Id := sortDedup (r.descs.map (·.1))

/-- ids that have any key under `bundles/<repo>/`, ascending: `ListBundles(… WithMinimalBundle(true))` -/
def keyIds (r : Repo) : List Id := sortDedup (r.descs.map (·.1) ++ r.idx.map (·.1))

def listBundles (byKey : Bool) (r : Repo) : List Id := if byKey then keyIds r else committedIds r

/-! ### DeleteBundle -/

/-- `BundleEntriesFileCount` of the downloaded descriptor; `none` when there is no descriptor -/
def countOf (r : Repo) (id : Id) : Option Nat := (r.descs.find? (fun d => d.1 == id)).map (·.2)

/-- the store without key `k` -/
def removeKey (s : List Key) (k : Key) : List Key := s.filter (fun x => x != k)

theorem length_removeKey_lt {k : Key} {s : List Key} (h : k ∈ s) :
    (removeKey s k).length < s.length := by
  apply List.length_filter_lt_length_iff_exists.mpr
  exact ⟨k, h, by simp⟩

/-- the loop of `DeleteBundle` used when the descriptor gives no count: delete index file `i`, `i+1`, …
    as long as the file is present. Fuel-free: every round removes a key that is present. -/
def delLoop (id : Id) (s : List Key) (i : Nat) : List Key :=
  if h : (id, i) ∈ s then delLoop id (removeKey s (id, i)) (i + 1) else s
termination_by s.length
decreasing_by exact length_removeKey_lt h

def deleteBundle (r : Repo) (id : Id) : Repo :=
  let cnt := (countOf r id).getD 0
  { r with
    idx := if cnt = 0 then delLoop id r.idx 0
           else r.idx.filter (fun k => !(k.1 == id && decide (k.2 < cnt)))
    descs := r.descs.filter (fun d => d.1 != id) }

/-! ### RepoSquash -/

/-- the index of retained bundle ids built from the labels -/
def retained (isSemver : String → Bool) (opt : Retain) (labels : List (String × Id)) : List Id :=
  if opt.tags then labels.map (·.2)
  else if opt.semver then (labels.filter (fun l => isSemver l.1)).map (·.2)
  else []

/-- `settings.retainNLatest`: `WithRetainNLatest` ignores values ≤ 0, the default is `dflt` -/
def effectiveN (dflt n : Nat) : Nat := if n = 0 then dflt else n

def victims (bundles : List Id) (n : Nat) (keep : List Id) : List Id :=
  (bundles.take (bundles.length - n)).filter (fun b => decide (b ∉ keep))

def squash (byKey : Bool) (isSemver : String → Bool) (n : Nat) (opt : Retain) (r : Repo) : Repo :=
  let bundles := listBundles byKey r
  if bundles.length < n + 1 then r
  else
    let r1 := (victims bundles n (retained isSemver opt r.labels)).foldl deleteBundle r
    let live := keyIds r1
    { r1 with labels := r1.labels.filter (fun l => decide (l.2 ∈ live)) }

/-! ### the loop of `DeleteBundle` as a transition system, for both kinds of store -/

/-- `store.Delete`: the new content and whether the call reports success. `silent = true`: the store
    reports success when the key is missing (localfs); `silent = false`: it reports `ErrNotExists`. -/
def storeDelete (silent : Bool) (s : List Key) (k : Key) : List Key × Bool :=
  (removeKey s k, silent || decide (k ∈ s))

/-- the loop before the `fix:`: `for i := 0; e == nil; i++ { e = store.Delete(file i) }` -/
inductive OldLoop (silent : Bool) (id : Id) : List Key → Nat → List Key → Prop
  | stop {s i} : (storeDelete silent s (id, i)).2 = false → OldLoop silent id s i s
  | step {s i s'} : (storeDelete silent s (id, i)).2 = true →
      OldLoop silent id (storeDelete silent s (id, i)).1 (i + 1) s' → OldLoop silent id s i s'

/-- the loop that exists now: stop at the first missing file (`store.Has`) or failing delete -/
inductive NewLoop (silent : Bool) (id : Id) : List Key → Nat → List Key → Prop
  | absent {s i} : (id, i) ∉ s → NewLoop silent id s i s
  | failed {s i} : (id, i) ∈ s → (storeDelete silent s (id, i)).2 = false →
      NewLoop silent id s i (storeDelete silent s (id, i)).1
  | step {s i s'} : (id, i) ∈ s → (storeDelete silent s (id, i)).2 = true →
      NewLoop silent id (storeDelete silent s (id, i)).1 (i + 1) s' → NewLoop silent id s i s'

end Squash
