/-! Model of `pkg/fuse/inode.go`: the inode-number generator of the mutable mount.

Go state: `highestInode` and the slice `freeInodes` (used as a stack: `freeINode` appends,
`allocINode` pops the last element). The model keeps the slice reversed (head = last element).

`alloc`/`free` describe the code after the repair "inode generator handed out live inodes after
the free list emptied"; `allocOld` is the code before it (kept for the refutation witness). -/
namespace Inode

structure Gen where
  highest : Nat
  /-- `freeInodes`, most recently freed first -/
  free : List Nat
deriving Repr, DecidableEq

def init (first : Nat) : Gen := { highest := first, free := [] }

/-- `allocINode` -/
def alloc (g : Gen) : Nat × Gen :=
  match g.free with
  | [] => (g.highest + 1, { g with highest := g.highest + 1 })
  | n :: r => (n, { g with free := r })

/-- `freeINode` -/
def free (g : Gen) (i : Nat) : Gen :=
  if g.highest = i then { g with highest := g.highest - 1 } else { g with free := i :: g.free }

/-- `allocINode` before the repair: popping the last free inode reset `highestInode` to `firstINode`. -/
def allocOld (first : Nat) (g : Gen) : Nat × Gen :=
  match g.free with
  | [] => (g.highest + 1, { g with highest := g.highest + 1 })
  | n :: r => (n, { highest := if r.isEmpty then first else g.highest, free := r })

/-- One step of an alloc/free history. `free k` frees the `k`-th live inode (in order of allocation,
    oldest first) — this is how the harness writes histories; out-of-range `k` is a no-op. -/
inductive GOp
  | alloc
  | free (k : Nat)
deriving Repr, DecidableEq

/-- generator state together with the inodes currently in use (oldest first) -/
structure St where
  g : Gen
  live : List Nat
deriving Repr

def stepWith (al : Gen → Nat × Gen) (s : St) : GOp → St × Option Nat
  | .alloc => let r := al s.g; ({ g := r.2, live := s.live ++ [r.1] }, some r.1)
  | .free k =>
    match s.live[k]? with
    | some i => ({ g := free s.g i, live := s.live.eraseIdx k }, none)
    | none => (s, none)

def step := stepWith alloc

/-- run a history, collecting what every step returned (`none` for a free) -/
def runWith (al : Gen → Nat × Gen) : St → List GOp → St × List (Option Nat)
  | s, [] => (s, [])
  | s, o :: r =>
    let (s1, x) := stepWith al s o
    let (s2, xs) := runWith al s1 r
    (s2, x :: xs)

def run := runWith alloc

/-! ### the inode store: reference counts, link counts and reclamation

`iNodeStore` of `fs_rw_ops.go` reduced to what decides the life of an inode number: per node the
kernel's lookup count (`refCount`), the link count (`attr.Nlink`, only "linked or not" matters) and
whether it is a directory. `createNode` allocates, `LookUpInode` adds a reference, `deleteNSEntry`
(unlink / rmdir / replaced rename target) drops the link, `ForgetInode` subtracts `N` references and,
when `shouldDelete` says so, removes the node and frees its number. -/

structure Node where
  ino : Nat
  refCount : Nat
  nlink : Nat
  isDir : Bool
deriving Repr, DecidableEq

structure Store where
  g : Gen
  nodes : List Node
deriving Repr

/-- `shouldDelete` after the repair: unreferenced AND unlinked, for files and directories alike -/
def shouldDelete (n : Node) : Bool := n.refCount == 0 && n.nlink == 0

/-- `shouldDelete` before the repair: a directory was dropped as soon as it was unreferenced -/
def shouldDeleteOld (n : Node) : Bool := if n.isDir then n.refCount == 0 else n.refCount == 0 && n.nlink == 0

/-- operations name a node by its position in the store -/
inductive SOp
  | create (isDir : Bool)
  | lookup (k : Nat)
  | unlink (k : Nat)
  | forget (k : Nat) (n : Nat)
deriving Repr, DecidableEq

def sstepWith (sd : Node → Bool) (s : Store) : SOp → Store
  | .create d =>
    let r := alloc s.g
    { g := r.2, nodes := s.nodes ++ [{ ino := r.1, refCount := 1, nlink := if d then 2 else 1, isDir := d }] }
  | .lookup k =>
    match s.nodes[k]? with
    | some n => if n.nlink = 0 then s else { s with nodes := s.nodes.set k { n with refCount := n.refCount + 1 } }
    | none => s
  | .unlink k =>
    match s.nodes[k]? with
    | some n => { s with nodes := s.nodes.set k { n with nlink := if n.isDir then 0 else n.nlink - 1 } }
    | none => s
  | .forget k c =>
    match s.nodes[k]? with
    | some n =>
      if n.refCount < c then s -- the Go code panics ("RefCount below zero"): not a kernel behaviour
      else
        let n' := { n with refCount := n.refCount - c }
        if sd n' then { g := free s.g n.ino, nodes := s.nodes.eraseIdx k }
        else { s with nodes := s.nodes.set k n' }
    | none => s

def sstep := sstepWith shouldDelete

def srunWith (sd : Node → Bool) : Store → List SOp → Store
  | s, [] => s
  | s, o :: r => srunWith sd (sstepWith sd s o) r

def srun := srunWith shouldDelete

def sinit (first : Nat) : Store := { g := init first, nodes := [] }

end Inode
